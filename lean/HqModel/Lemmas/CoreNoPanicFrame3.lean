import HqModel.Lemmas.CoreNoPanicFrame2
/-!
C09 progress, preservation of `NpW` / `NpIdx` / `NpMn`: `Core/Reactor.lean`, part 1 (everything but `on_remove_worker` →
`CoreNoPanicFrame4.lean`, and `newWorker`, `newRq`, `addNewTasks`, `newTasks`, which do not fit the frame relation →
`CoreNoPanicFrame6.lean`).
-/
namespace HqModel.Core.NPA

open HqModel.Core.NP

/-! ### `on_cancel_tasks` -/

theorem resetMnAll_fr {all : Prop} (ws : List Nat) (s s' : State) (h : resetMnAll s ws = .ok s') : Fr all s s' := by
  induction ws generalizing s with
  | nil => simp only [resetMnAll] at h; cases h; exact Fr.refl _ _
  | cons w rest ih =>
    simp only [resetMnAll] at h
    split at h
    · cases h
    · rename_i wk hg
      exact (setWorker_fr (wk' := wk.emptySn) (getWorker_spec hg) rfl rfl (fun _ => freeOk_emptySn wk)).trans (ih _ h)

theorem cancelLoop_fr {all : Prop} (ids : List TaskId) (s s' : State) (u u' : List TaskId)
    (r r' : List (Nat × List TaskId)) (h : s.cancelLoop ids u r = .ok (s', u', r')) : Fr all s s' := by
  induction ids generalizing s u r with
  | nil => simp only [State.cancelLoop] at h; cases h; exact Fr.refl _ _
  | cons id rest ih =>
    simp only [State.cancelLoop] at h
    split at h
    · exact ih _ _ _ h
    · split at h
      · cases h
      · split at h
        · exact (Fr.ask s).trans (ih _ _ _ h)
        · split at h
          · cases h
          · split at h
            · cases h
            · rename_i s1 hw
              exact ((withWorker_fr (wop_removeSn _ _) hw).trans (Fr.ask s1)).trans (ih _ _ _ h)
        · split at h
          · cases h
          · split at h
            · cases h
            · rename_i s1 hw
              exact ((withWorker_fr (wop_removeSn _ _) hw).trans (Fr.ask s1)).trans (ih _ _ _ h)
        · split at h
          · cases h
          · rename_i s1 hr
            split at h
            · cases h
            · exact ((resetMnAll_fr _ _ _ hr).trans (Fr.ask s1)).trans (ih _ _ _ h)
        · split at h
          · cases h
          · rename_i s1 hr
            exact ((tryRemoveRedirection_fr hr).trans (Fr.ask s1)).trans (ih _ _ _ h)
        · split at h
          · cases h
          · rename_i s1 hp
            split at h
            · cases h
            · rename_i s2 hw
              exact ((removePrefilled_fr hp).trans (withWorker_fr (wop_removePrefill _) hw)).trans (ih _ _ _ h)
        · cases h

theorem removeTasksBatched_fr {all : Prop} (ids : List TaskId) (s s' : State)
    (h : s.removeTasksBatched ids = .ok s') : Fr all s s' := by
  induction ids generalizing s with
  | nil => simp only [State.removeTasksBatched] at h; cases h; exact Fr.refl _ _
  | cons id rest ih =>
    simp only [State.removeTasksBatched] at h
    split at h
    · cases h
    · rename_i s1 st h1
      exact (removeTask_fr h1).trans (ih _ h)

theorem cancelTasks_fr {all : Prop} {s s' : State} {ids : List TaskId} {o : Out}
    (h : s.cancelTasks ids = .ok (s', o)) : Fr all s s' := by
  simp only [State.cancelTasks] at h
  split at h
  · cases h
  · rename_i s1 unreg running h1
    split at h
    · cases h
    · rename_i s2 h2
      cases h
      exact (cancelLoop_fr _ _ _ _ _ _ _ h1).trans (removeTasksBatched_fr _ _ _ h2)

/-! ### `task_failed` -/

theorem removeWaitingAll_fr {all : Prop} (ids : List TaskId) (s s' : State)
    (h : s.removeWaitingAll ids = .ok s') : Fr all s s' := by
  induction ids generalizing s with
  | nil => simp only [State.removeWaitingAll] at h; cases h; exact Fr.refl _ _
  | cons id rest ih =>
    simp only [State.removeWaitingAll] at h
    split at h
    · cases h
    · rename_i s1 st h1
      split at h
      · exact (removeTask_fr h1).trans (ih _ h)
      · cases h

theorem taskFailed_fr {all : Prop} {s s' : State} {worker : Option Nat} {id : TaskId} {ret : List TaskId} {o : Out}
    (h : s.taskFailed worker id ret = .ok (s', o)) : Fr all s s' := by
  simp only [State.taskFailed] at h
  split at h
  · cases h; exact Fr.refl _ _
  · rename_i task ht
    split at h
    · cases h
    · rename_i s1 hpre
      have e1 : Fr all s s1 := by
        clear h
        repeat' (split at hpre)
        all_goals first
          | (cases hpre; exact Fr.refl _ _)
          | cases hpre
          | exact resetMnAll_fr _ _ _ hpre
          | exact withWorker_fr (wop_removeSn _ _) hpre
          | exact tryRemoveRedirection_fr hpre
          | skip
        · rename_i s2 hp
          exact (removePrefilled_fr hp).trans (withWorker_fr (wop_removePrefill _) hpre)
      split at h
      · cases h
      · split at h
        · cases h
        · rename_i s2 h2
          split at h
          · cases h
          · rename_i s3 st h3
            have a := (e1.trans (removeWaitingAll_fr _ _ _ h2)).trans (removeTask_fr h3)
            clear hpre
            repeat' (split at h)
            all_goals first
              | (cases h; exact a)
              | (rename_i h4; cases h; exact a.trans (cancelTasks_fr h4))
              | cases h

/-! ### `task_running` -/

theorem idxOk_of_runIdx {s : State} {w rq rv : Nat} (h : RunIdx s w rq rv) : IdxOk s w rq rv := by
  obtain ⟨r, wk, hr, hw, hidx⟩ := h.elim
  refine IdxOk.intro hr ?_
  intro wk' hw' e he
  rw [hw] at hw'; cases hw'
  exact hidx e he

/-- `task_running`. `hrun`: what `UpdNP` says for a Prefilled / Retracting task (`taskRunning_fr'` takes `UpdNP`) -/
theorem taskRunning_fr {all : Prop} {s s' : State} {w : Nat} {id : TaskId} {rv : Nat} {o : Out}
    (hrun : ∀ task, s.task? id = some task → ((∃ w', task.state = .prefilled w') ∨ ∃ w', task.state = .retracting w') →
      RunIdx s w task.rq rv)
    (h : s.taskRunning w id rv = .ok (s', o)) : Fr all s s' := by
  simp only [State.taskRunning] at h
  split at h
  · cases h; exact Fr.refl _ _
  · rename_i task ht
    have hrun' := hrun task ht
    have ht' : findTask s.tasks id = some task := ht
    have hnmn : ∀ w v, MnOkS task.state → MnOkS (TS.running w v) := fun w v => mnOkS_of_not_mn (by intro ws e; cases e)
    split at h
    · -- assigned
      rename_i w' rv' hs
      split at h
      · cases h
      · rename_i hw; simp only [ne_eq, Decidable.not_not] at hw; subst hw
        split at h
        · cases h
        · rename_i hv; simp only [ne_eq, Decidable.not_not] at hv; subst hv
          cases h
          refine Fr.setTask ht' rfl rfl (hnmn _ _) (fun _ => Or.inl (by rw [hs]; trivial)) ?_
          intro w0 v0 hh
          rcases hh with hh | hh | ⟨⟨_, hh⟩, _⟩
          · cases hh
          · cases hh; exact Or.inl (Or.inl (Or.inl hs))
          · cases hh
    · -- prefilled
      rename_i w' hs
      have hidx := idxOk_of_runIdx (hrun' (Or.inl ⟨w', hs⟩))
      split at h
      · cases h
      · rename_i hw; simp only [ne_eq, Decidable.not_not] at hw; subst hw
        split at h
        · cases h
        · rename_i r hr
          split at h
          · cases h
          · rename_i s1 hww
            split at h
            · cases h
            · rename_i s2 hq
              cases h
              refine (Fr.trans ?_ (withWorker_fr (wop_prefilledToStarted _ _) hww)).trans (queueRemove_fr hq)
              refine Fr.setTask ht' rfl rfl (hnmn _ _) (fun _ => Or.inl (by rw [hs]; trivial)) ?_
              intro w0 v0 hh
              rcases hh with hh | hh | ⟨⟨_, hh⟩, _⟩
              · cases hh
              · cases hh; exact Or.inr hidx
              · cases hh
    · -- retracting
      rename_i w' hs
      have hidx := idxOk_of_runIdx (hrun' (Or.inr ⟨w', hs⟩))
      split at h
      · cases h
      · rename_i hw; simp only [ne_eq, Decidable.not_not] at hw; subst hw
        split at h
        · cases h
        · rename_i s1 hq
          split at h
          · cases h
          · rename_i s2 hr
            split at h
            · cases h
            · rename_i r hrq
              split at h
              · cases h
              · rename_i s3 hww
                cases h
                refine (((Fr.trans ?_ (Fr.ask _)).trans (queueRemove_fr hq)).trans (tryRemoveRedirection_fr hr)).trans
                  (withWorker_fr (wop_insertSn _ _) hww)
                refine Fr.setTask ht' rfl rfl (hnmn _ _) (fun _ => Or.inl (by rw [hs]; trivial)) ?_
                intro w0 v0 hh
                rcases hh with hh | hh | ⟨⟨_, hh⟩, _⟩
                · cases hh
                · cases hh; exact Or.inr hidx
                · cases hh
    · -- multi-node
      split at h
      · split at h
        · cases h
        · split at h
          · cases h
          · rename_i s1 hww
            cases h
            exact withWorker_fr wop_mnStarted hww
      · cases h
    · cases h
    · cases h
    · cases h

theorem taskRunning_fr' {all : Prop} {s s' : State} {w : Nat} {id : TaskId} {rv : Nat} {o : Out}
    (hnp : UpdNP s w (.running id rv)) (h : s.taskRunning w id rv = .ok (s', o)) : Fr all s s' := by
  refine taskRunning_fr ?_ h
  intro task ht hs
  have h2 := hnp.2
  simp only [ht] at h2
  rcases hs with ⟨w', hs⟩ | ⟨w', hs⟩ <;> rw [hs] at h2 <;> exact h2.2

/-! ### `task_finished` -/

theorem resetMnChecked_fr {all : Prop} (ws : List Nat) (s s' : State) (id : TaskId)
    (h : resetMnChecked s id ws = .ok s') : Fr all s s' := by
  induction ws generalizing s with
  | nil => simp only [resetMnChecked] at h; cases h; exact Fr.refl _ _
  | cons w rest ih =>
    simp only [resetMnChecked] at h
    split at h
    · cases h
    · rename_i wk hg
      split at h
      · split at h
        · cases h
        · exact (setWorker_fr (wk' := wk.emptySn) (getWorker_spec hg) rfl rfl (fun _ => freeOk_emptySn wk)).trans (ih _ h)
      · cases h

theorem wakeConsumers_fr {all : Prop} (cs : List TaskId) (s s' : State) (r r' : List TaskId)
    (h : s.wakeConsumers cs r = .ok (s', r')) : Fr all s s' := by
  induction cs generalizing s r with
  | nil => simp only [State.wakeConsumers] at h; cases h; exact Fr.refl _ _
  | cons c rest ih =>
    simp only [State.wakeConsumers] at h
    split at h
    · cases h
    · rename_i t hg
      have ht := getTask_spec hg
      split at h
      · rename_i n hs
        have h1 : Fr all s (s.setTask { t with state := .waiting n }) := Fr.setFree ht rfl rfl (Or.inl ⟨n, rfl⟩)
        split at h
        · split at h
          · cases h
          · rename_i s2 r2 ha
            exact (h1.trans (addReady_fr ha)).trans (ih _ _ h)
        · exact h1.trans (ih _ _ h)
      · cases h

theorem taskFinished_fr {s s' : State} {w : Nat} {id : TaskId} {o : Out} {b : Bool}
    (h : s.taskFinished w id = .ok (s', o, b)) : Fr True s s' := by
  simp only [State.taskFinished] at h
  split at h
  · cases h; exact Fr.refl _ _
  · rename_i task ht
    split at h
    · cases h
    · rename_i s1 hpre
      have e1 : s1.tasks = s.tasks := by
        clear h
        repeat' (split at hpre)
        all_goals grind
      have f1 : Fr True s s1 := by
        clear h
        repeat' (split at hpre)
        all_goals first
          | (cases hpre; exact Fr.refl _ _)
          | cases hpre
          | exact resetMnChecked_fr _ _ _ _ hpre
          | exact withWorker_fr (wop_removeSn _ _) hpre
          | exact tryRemoveRedirection_fr hpre
      have ht1 : findTask s1.tasks id = some task := by rw [e1]; exact ht
      have f2 : Fr True s1 (s1.setTask { task with state := .finished }) := Fr.setFree ht1 rfl rfl (Or.inr rfl)
      split at h
      · cases h
      · rename_i s3 retracted h3
        split at h
        · cases h
        · rename_i s4 out h4
          split at h
          · cases h
          · rename_i s5 st h5
            split at h
            · cases h
            · cases h
              exact (((f1.trans f2).trans (wakeConsumers_fr _ _ _ _ _ h3)).trans (retract_fr h4)).trans (removeTask_fr h5)

/-! ### `task_reject` -/

theorem requeue_fr {s' s3 : State} {task : Task} {id : TaskId} {out : Out} {b : Bool}
    (ht : findTask s'.tasks id = some task)
    (h : (match (s'.setTask { task with state := .waiting 0 }).addReady { task with state := .waiting 0 } with
          | .error e => Except.error e
          | .ok (s2, retracted) =>
            match s2.retract retracted with
            | .error e => Except.error e
            | .ok (s3, out) => (Except.ok (s3, out, true) : M (State × Out × Bool))) = .ok (s3, out, b)) :
    Fr True s' s3 := by
  have h1 : Fr True s' (s'.setTask { task with state := .waiting 0 }) := Fr.setFree ht rfl rfl (Or.inl ⟨0, rfl⟩)
  split at h
  · cases h
  · rename_i s2 retracted ha
    split at h
    · cases h
    · rename_i s4 out4 hr
      cases h
      exact (h1.trans (addReady_fr ha)).trans (retract_fr hr)

/-- a Retracting task whose redirect is resolved: the redirect is removed, the task is Assigned to the target -/
theorem resolve_fr {all : Prop} {s : State} {task tn : Task} {id t0 : TaskId} {w' target trv : Nat}
    (ht : findTask s.tasks id = some task) (hs : task.state = .retracting w')
    (hfind : s.redirects.find? (·.1 = id) = some (t0, target, trv))
    (hid : tn.id = task.id) (hrq : tn.rq = task.rq) (hst : tn.state = .assigned target trv) :
    Fr all s (State.setTask { s with redirects := s.redirects.filter (·.1 ≠ id) } tn) := by
  have hmem := rd_mem_of_find hfind
  have ht0 : t0 = id := by simpa using hmem.2
  subst ht0
  have hidt : task.id = t0 := findTask_some_id ht
  refine Fr.of_put (told := task) rfl rfl (WFr.refl _) rfl (fun x hx => (List.mem_filter.mp hx).1)
    (findTask_some_mem ht) hid hrq (mnOkS_of_not_mn (by rw [hst]; intro ws e; cases e))
    (fun _ => Or.inl (by rw [hs]; trivial)) ?_
  intro w v hh
  rw [hst] at hh
  rcases hh with hh | hh | ⟨⟨_, hh⟩, _⟩
  · cases hh
    exact Or.inl (Or.inl (Or.inr (Or.inr ⟨⟨w', hs⟩, by rw [hidt]; exact hmem.1⟩)))
  · cases hh
  · cases hh

theorem taskReject_fr {s s' : State} {w : Nat} {id : TaskId} {rv : Option Nat} {o : Out} {b : Bool}
    (h : s.taskReject w id rv = .ok (s', o, b)) : Fr True s s' := by
  unfold State.taskReject at h
  split at h
  · cases h; exact Fr.refl _ _
  · rename_i task ht
    simp only [State.task?] at ht
    split at h
    · cases h
    · rename_i wk0 hg
      have hfw0 := getWorker_spec hg
      extract_lets wk s0 tw requeue s1r at h
      have hv : wk.id = wk0.id ∧ wk.total = wk0.total ∧ (FreeOk wk0 → FreeOk wk) := by
        cases rv <;> exact ⟨rfl, rfl, fun h => h⟩
      clear_value wk
      obtain ⟨b0, b1, b2⟩ := hv
      have f0 : Fr True s s0 := setWorker_fr hfw0 b0 b1 b2
      have ht0 : findTask s0.tasks id = some task := ht
      split at h
      · -- assigned
        rename_i w' rv' hs
        split at h
        · simp only [requeue] at h
          exact f0.trans (requeue_fr ht0 h)
        · split at h
          · simp only [requeue] at h
            exact f0.trans (requeue_fr ht0 h)
          · split at h
            · cases h
            · rename_i r hr
              split at h
              · cases h
              · rename_i s1 hw
                simp only [requeue] at h
                refine (f0.trans (withWorker_fr (wop_removeSn _ _) hw)).trans (requeue_fr (id := id) ?_ h)
                rw [withWorker_tasks hw]; exact ht0
      · -- prefilled
        rename_i w' hs
        split at h
        · cases h
        · rename_i s1 hw
          split at h
          · cases h
          · rename_i s2 hq
            simp only [requeue] at h
            refine ((f0.trans (withWorker_fr (wop_removePrefill _) hw)).trans (removePrefilled_fr hq)).trans
              (requeue_fr (id := id) ?_ h)
            rw [removePrefilled_tasks hq, withWorker_tasks hw]; exact ht0
      · -- retracting
        rename_i w' hs
        split at h
        · simp only [Except.ok.injEq, Prod.mk.injEq] at h
          rw [← h.1]; exact f0
        · split at h
          · rename_i t0 target trv hfind
            simp only [Except.ok.injEq, Prod.mk.injEq] at h
            rw [← h.1]
            exact f0.trans (resolve_fr (tn := { task with state := .assigned target trv }) ht0 hs hfind rfl rfl rfl)
          · simp only [requeue] at h
            exact f0.trans (requeue_fr ht0 h)
      · -- multi-node (fix of F32): not the root / already started: only the block; else reset the workers and requeue
        split at h
        · cases h
        · split at h
          · simp only [Except.ok.injEq, Prod.mk.injEq] at h
            rw [← h.1]; exact f0
          · split at h
            · simp only [Except.ok.injEq, Prod.mk.injEq] at h
              rw [← h.1]; exact f0
            · split at h
              · simp only [Except.ok.injEq, Prod.mk.injEq] at h
                rw [← h.1]; exact f0
              · split at h
                · cases h
                · rename_i s1 hr
                  simp only [requeue] at h
                  refine (f0.trans (resetMnChecked_fr _ _ _ _ hr)).trans (requeue_fr (id := id) ?_ h)
                  rw [resetMnChecked_tasks _ _ _ _ hr]; exact ht0
      · cases h
      · cases h
      · cases h

theorem requestEnabled_fr {all : Prop} {s s' : State} {w rq rv : Nat} (h : s.requestEnabled w rq rv = .ok s') :
    Fr all s s' := withWorker_fr (wop_unblock rq rv) h

/-! ### `on_task_update` -/

theorem updateState_fr {s s1 : State} {w : Nat} {u : Update} {rets rets' : List (List TaskId)}
    (hnp : UpdNP s w u) (h : s.updateState w u rets = .ok (s1, rets')) : Fr True s s1 := by
  cases u with
  | finished t =>
    simp only [State.updateState] at h
    split at h
    · cases h
    · rename_i h1; cases h; exact taskFinished_fr h1
  | failed t =>
    simp only [State.updateState] at h
    split at h
    · cases h
    · rename_i h1; cases h; exact taskFailed_fr h1
  | running t rv =>
    simp only [State.updateState] at h
    split at h
    · cases h
    · rename_i h1; cases h; exact taskRunning_fr' hnp h1
  | runningPrefilled t rv =>
    simp only [State.updateState] at h
    split at h
    · cases h
    · rename_i h1; cases h; exact taskRunning_fr' hnp h1
  | reject t rv =>
    simp only [State.updateState] at h
    split at h
    · cases h
    · rename_i h1; cases h; exact taskReject_fr h1
  | enable rq rv =>
    simp only [State.updateState] at h
    split at h
    · cases h
    · rename_i h1; cases h; exact requestEnabled_fr h1

theorem updateLoop_fr (us : List Update) (s s' : State) (w : Nat) (rets rets' : List (List TaskId)) (o o' : Out)
    (n n' : Bool) (hok : UpdatesOk UpdNP s w us rets)
    (h : s.updateLoop w us rets o n = .ok (s', o', n', rets')) : Fr True s s' := by
  induction us generalizing s rets o n with
  | nil => simp only [State.updateLoop] at h; cases h; exact Fr.refl _ _
  | cons u rest ih =>
    obtain ⟨s1, rets1, out1, need1, h1, h2⟩ := updateLoop_cons h
    simp only [UpdatesOk, h1] at hok
    exact (updateState_fr hok.1 h1).trans (ih _ _ _ _ hok.2 h2)

theorem taskUpdate_fr {s s' : State} {w : Nat} {us : List Update} {rets : List (List TaskId)} {o : Out}
    (hok : UpdatesOk UpdNP s w us rets) (h : s.taskUpdate w us rets = .ok (s', o)) : Fr True s s' := by
  simp only [State.taskUpdate] at h
  split at h
  · cases h
  · rename_i s1 out need rets' h1
    cases h
    have := updateLoop_fr _ _ _ _ _ _ _ _ _ _ hok h1
    split
    · exact this.trans (Fr.ask s1)
    · exact this

/-! ### `on_retract_response` -/

theorem retractLoop_fr {all : Prop} (ids : List TaskId) (s s' : State) (w : Nat) (acc acc' : List (Nat × TaskId × Nat))
    (h : s.retractLoop w ids acc = .ok (s', acc')) : Fr all s s' := by
  induction ids generalizing s acc with
  | nil => simp only [State.retractLoop] at h; cases h; exact Fr.refl _ _
  | cons id rest ih =>
    simp only [State.retractLoop, State.task?] at h
    split at h
    · exact ih _ _ h
    · rename_i task ht
      split at h
      · exact ih _ _ h
      · rename_i hs
        simp only [ne_eq, Decidable.not_not] at hs
        split at h
        · rename_i t0 target trv hfind
          exact (resolve_fr (tn := { task with state := .assigned target trv }) ht hs hfind rfl rfl rfl).trans (ih _ _ h)
        · exact (Fr.setFree (tn := { task with state := .waiting 0 }) ht rfl rfl (Or.inl ⟨0, rfl⟩)).trans (ih _ _ h)

theorem retractResponse_fr {all : Prop} {s s' : State} {w : Nat} {ids : List TaskId} {o : Out}
    (h : s.retractResponse w ids = .ok (s', o)) : Fr all s s' := by
  simp only [State.retractResponse] at h
  split at h
  · cases h
  · rename_i s1 items h1
    split at h
    · cases h
    · cases h; exact retractLoop_fr _ _ _ _ _ _ h1

end HqModel.Core.NPA
