import HqModel.Journal.File
/-!
File layer lemmas: reading back `header ++ enc r₁ ++ … ++ enc rₙ ++ p` for a strict prefix `p` of an encoding.
-/
namespace HqModel.Journal

/-- What the theorems assume about the serialisation of one event (bincode of `Event`; trusted, swept by the harness). -/
structure Codec.Lawful (c : Codec ρ) : Prop where
  /-- decoding does not depend on what follows and returns the number of bytes consumed -/
  dec_enc : ∀ r rest, c.dec (c.enc r ++ rest) = .ok r (c.enc r).length
  enc_ne : ∀ r, c.enc r ≠ []
  /-- a non-empty strict prefix of an encoding runs into the end of the file (`UnexpectedEof`) -/
  dec_prefix : ∀ r p, p <+: c.enc r → p ≠ c.enc r → p ≠ [] → c.dec p = .eof

theorem length_le_flatMap_enc {c : Codec ρ} (hc : c.Lawful) (J : List ρ) : J.length ≤ (J.flatMap c.enc).length := by
  induction J with
  | nil => simp
  | cons r rs ih =>
    have : 0 < (c.enc r).length := List.length_pos_iff.2 (hc.enc_ne r)
    simp only [List.flatMap_cons, List.length_append, List.length_cons]
    omega

theorem readLoop_records {c : Codec ρ} (hc : c.Lawful) (J : List ρ) : ∀ (f : Nat) (tail : Bytes) (pos : Nat) (acc : List ρ),
    readLoop c (J.length + f) (J.flatMap c.enc ++ tail) pos acc =
      readLoop c f tail (pos + (J.flatMap c.enc).length) (acc ++ J) := by
  induction J with
  | nil => intro f tail pos acc; simp
  | cons r rs ih =>
    intro f tail pos acc
    have hne : c.enc r ≠ [] := hc.enc_ne r
    have hlen : 0 < (c.enc r).length := List.length_pos_iff.2 hne
    have e1 : (r :: rs).length + f = (rs.length + f) + 1 := by simp; omega
    rw [e1]
    simp only [List.flatMap_cons, List.append_assoc]
    conv => lhs; unfold readLoop
    have hnonempty : (c.enc r ++ (rs.flatMap c.enc ++ tail)).isEmpty = false := by
      cases h : c.enc r with
      | nil => exact absurd h hne
      | cons a as => simp
    simp only [hnonempty, Bool.false_eq_true, if_false, hc.dec_enc]
    have : (c.enc r).length ≠ 0 := by omega
    simp only [this, if_false, List.drop_left]
    rw [ih]
    simp only [List.length_append, List.append_assoc, List.singleton_append, Nat.add_assoc]

/-- the whole file content: header, complete records, and a (possibly empty) strict prefix of one more encoding -/
theorem readAll_torn {c : Codec ρ} (hc : c.Lawful) (hdr : Bytes) (J : List ρ) (r : ρ) (p : Bytes)
    (hp : p <+: c.enc r) (hne : p ≠ c.enc r) :
    readAll c hdr (fileOf c hdr J ++ p) =
      some ⟨J, (fileOf c hdr J).length, if p = [] then .clean else .partialTail⟩ := by
  unfold readAll fileOf
  have hpre : hdr.isPrefixOf (hdr ++ J.flatMap c.enc ++ p) = true := by
    rw [List.isPrefixOf_iff_prefix]; simp [List.append_assoc]
  simp only [List.append_assoc, List.drop_left]
  have hl := length_le_flatMap_enc hc J
  obtain ⟨f, hf⟩ : ∃ f, (hdr ++ (J.flatMap c.enc ++ p)).length + 1 = J.length + (f + 1) := by
    refine ⟨(hdr ++ (J.flatMap c.enc ++ p)).length - J.length, ?_⟩
    simp only [List.length_append] at *
    omega
  rw [hf, readLoop_records hc]
  unfold readLoop
  by_cases h0 : p = []
  · subst h0; simp
  · have : p.isEmpty = false := by cases p <;> simp_all
    simp [this, hc.dec_prefix r p hp hne h0, h0]

theorem truncateAppend_eq {c : Codec ρ} (hdr : Bytes) (J K : List ρ) (p : Bytes) :
    truncateAppend c (fileOf c hdr J ++ p) (fileOf c hdr J).length K = fileOf c hdr (J ++ K) := by
  unfold truncateAppend fileOf
  rw [List.take_left' rfl, List.flatMap_append, List.append_assoc]

end HqModel.Journal
