import HqModel.Lemmas.CoreNoPanicDeps2
/-!
C09 progress for the core model: preservation of `NpDeps U s`, part 3: the rest of `Reactor.lean`
(`on_task_update`, `on_retract_response`, `on_remove_worker`).

* no extra hypothesis: `taskRunning_ds/_npdeps`, `wakeConsumers_*`, `taskReject_*`, `requestEnabled_*`, `retractLoop_*`,
  `retractResponse_*`, `lostPrefilled_*`, `lostAssigned_*`, `lostRetracting_*`;
* `taskFinished_npdeps`, `updateState_npdeps` (+ `updateState_safeN`), `updateLoop_npdeps`, `taskUpdate_npdeps`
  (hyp: `QInv U none [] s`);
* `crashLoop_npdeps` (hyp: `QInv U none pend s`);
* `removeWorker_pre` (the part of `on_remove_worker` before the crash loop is `Safe` and `DS`; hyp `Inv s`),
  `removeWorker_npdeps` (hyps: `Inv s`, `QInv U none pend s`).
-/
namespace HqModel.Core.NPB

attribute [scoped grind →] retract_ds

/-! ### `task_running`, `task_reject`, `request_enabled` -/

theorem taskRunning_ds {s s' : State} {w : Nat} {id : TaskId} {rv : Nat} {o : Out}
    (h : s.taskRunning w id rv = .ok (s', o)) : DS s s' := by
  simp only [State.taskRunning, State.task?] at h
  repeat' (split at h)
  all_goals first | cases h | skip
  all_goals grind

theorem taskReject_ds {s s' : State} {w : Nat} {id : TaskId} {rv : Option Nat} {o : Out} {b : Bool}
    (h : s.taskReject w id rv = .ok (s', o, b)) : DS s s' := by
  simp only [State.taskReject, State.task?] at h
  repeat' (split at h)
  all_goals first | cases h | skip
  all_goals grind

theorem requestEnabled_ds {s s' : State} {w rq rv : Nat} (h : s.requestEnabled w rq rv = .ok s') : DS s s' :=
  withWorker_ds h

/-! ### `task_finished` -/

theorem wakeConsumers_ds (cs : List TaskId) (s s' : State) (r r' : List TaskId)
    (h : s.wakeConsumers cs r = .ok (s', r')) : DS s s' := by
  fun_induction State.wakeConsumers s cs r <;> grind

theorem taskFinished_npdeps {U : List TaskId} {s s' : State} {w : Nat} {id : TaskId} {o : Out} {b : Bool}
    (h : NpDeps U s) (hq : QInv U none [] s) (heq : s.taskFinished w id = .ok (s', o, b)) : NpDeps U s' := by
  simp only [State.taskFinished, State.task?] at heq
  split at heq
  · cases heq; exact h
  · rename_i task ht
    split at heq
    · cases heq
    · rename_i s1 hpre
      have hsl : slack task.state = 0 := by
        cases hst : task.state <;> simp only [hst] at hpre <;> first | rfl | cases hpre
      have e1 : Safe s s1 := by
        clear heq
        repeat' (split at hpre)
        all_goals first | cases hpre | skip
        all_goals grind
      have et : s1.tasks = s.tasks := by
        clear heq
        repeat' (split at hpre)
        all_goals grind
      split at heq
      · cases heq
      · rename_i s3 retracted h3
        split at heq
        · cases heq
        · rename_i s4 out h4
          split at heq
          · cases heq
          · rename_i s5 st h5
            split at heq
            · cases heq
            · cases heq
              have hi1 : QInv U none [] s1 := e1 U none [] hq
              have ht1 : findTask s1.tasks id = some task := by rw [et]; exact ht
              have hid : task.id = id := findTask_some_id ht
              have hi2 : QInv U (some id) task.consumers (s1.setTask { task with state := .finished }) :=
                QInv4.finish hi1 ht1 hsl
              have hi3 := wakeConsumers_q _ _ _ _ _ hi2 (hi1.cnd task (findTask_some_mem ht1)) h3
              have hi4 := retract_safe h4 U _ _ hi3
              have d1 : NpDeps U s1 := h.of_tasks_eq et
              have d2 : NpDeps U (s1.setTask { task with state := .finished }) :=
                d1.of_ds (DS.setState (by rw [hid]; exact ht1))
              have d3 := d2.of_ds (wakeConsumers_ds _ _ _ _ _ h3)
              have d4 := d3.of_ds (retract_ds h4)
              exact removeTask_npdeps_q d4 hi4 (Or.inr rfl) h5

/-! ### `on_task_update` -/

theorem updateState_safeN {s s1 : State} {w : Nat} {u : Update} {rets rets' : List (List TaskId)}
    (h1 : s.updateState w u rets = .ok (s1, rets')) : SafeN s s1 := by
  cases u <;> simp only [State.updateState] at h1 <;> split at h1 <;> first | cases h1 | skip
  · rename_i hh; exact taskFinished_safeN hh
  · rename_i hh; exact (taskFailed_safe hh).safeN
  · rename_i hh; exact (taskRunning_safe hh).safeN
  · rename_i hh; exact (taskRunning_safe hh).safeN
  · rename_i hh; exact (taskReject_safe hh).safeN
  · rename_i hh; exact (requestEnabled_safe hh).safeN

theorem updateState_npdeps {U : List TaskId} {s s1 : State} {w : Nat} {u : Update} {rets rets' : List (List TaskId)}
    (h : NpDeps U s) (hq : QInv U none [] s) (h1 : s.updateState w u rets = .ok (s1, rets')) : NpDeps U s1 := by
  cases u <;> simp only [State.updateState] at h1 <;> split at h1 <;> first | cases h1 | skip
  · rename_i hh; exact taskFinished_npdeps h hq hh
  · rename_i hh; exact taskFailed_npdeps h hq hh
  · rename_i hh; exact h.of_ds (taskRunning_ds hh)
  · rename_i hh; exact h.of_ds (taskRunning_ds hh)
  · rename_i hh; exact h.of_ds (taskReject_ds hh)
  · rename_i hh; exact h.of_ds (requestEnabled_ds hh)

theorem updateLoop_npdeps (us : List Update) {U : List TaskId} {s s' : State} {w : Nat}
    {rets rets' : List (List TaskId)} {o o' : Out} {n n' : Bool} (h : NpDeps U s) (hq : QInv U none [] s)
    (heq : s.updateLoop w us rets o n = .ok (s', o', n', rets')) : NpDeps U s' := by
  induction us generalizing s rets o n with
  | nil => simp only [State.updateLoop] at heq; cases heq; exact h
  | cons u rest ih =>
    obtain ⟨s1, rets1, out1, need1, h1, h2⟩ := updateLoop_cons heq
    exact ih (updateState_npdeps h hq h1) (updateState_safeN h1 U hq) h2

theorem taskUpdate_npdeps {U : List TaskId} {s s' : State} {w : Nat} {us : List Update}
    {rets : List (List TaskId)} {o : Out} (h : NpDeps U s) (hq : QInv U none [] s)
    (heq : s.taskUpdate w us rets = .ok (s', o)) : NpDeps U s' := by
  simp only [State.taskUpdate] at heq
  split at heq
  · cases heq
  · rename_i s1 out need rets' h1
    cases heq
    have := updateLoop_npdeps _ h hq h1
    split
    · exact this.of_ds (DS.ask s1)
    · exact this

/-! ### `on_retract_response` -/

theorem retractLoop_ds (ids : List TaskId) (s s' : State) (w : Nat) (acc acc' : List (Nat × TaskId × Nat))
    (h : s.retractLoop w ids acc = .ok (s', acc')) : DS s s' := by
  fun_induction State.retractLoop s w ids acc <;> grind [State.task?]

theorem retractResponse_ds {s s' : State} {w : Nat} {ids : List TaskId} {o : Out}
    (h : s.retractResponse w ids = .ok (s', o)) : DS s s' := by
  simp only [State.retractResponse] at h
  split at h
  · cases h
  · rename_i s1 items h1
    split at h
    · cases h
    · cases h; exact retractLoop_ds _ _ _ _ _ _ h1

/-! ### `on_remove_worker` -/

theorem lostPrefilled_ds (ids : List TaskId) (s s' : State) (h : s.lostPrefilled ids = .ok s') : DS s s' := by
  fun_induction State.lostPrefilled s ids <;> grind

theorem lostAssigned_ds (ids : List TaskId) (s s' : State) (ru ru' re re' : List TaskId)
    (h : s.lostAssigned ids ru re = .ok (s', ru', re')) : DS s s' := by
  fun_induction State.lostAssigned s ids ru re <;> grind

theorem lostRetracting_ds (l : List Task) (s s' : State) (w : Nat) (o o' : Out)
    (h : s.lostRetracting w l o = .ok (s', o')) : DS s s' := by
  fun_induction State.lostRetracting s w l o <;> grind [State.task?]

section
variable {U : List TaskId} {s s' : State}

theorem taskRunning_npdeps {w : Nat} {id : TaskId} {rv : Nat} {o : Out} (h : NpDeps U s)
    (heq : s.taskRunning w id rv = .ok (s', o)) : NpDeps U s' := h.of_ds (taskRunning_ds heq)

theorem taskReject_npdeps {w : Nat} {id : TaskId} {rv : Option Nat} {o : Out} {b : Bool} (h : NpDeps U s)
    (heq : s.taskReject w id rv = .ok (s', o, b)) : NpDeps U s' := h.of_ds (taskReject_ds heq)

theorem requestEnabled_npdeps {w rq rv : Nat} (h : NpDeps U s) (heq : s.requestEnabled w rq rv = .ok s') :
    NpDeps U s' := h.of_ds (requestEnabled_ds heq)

theorem wakeConsumers_npdeps {cs r r' : List TaskId} (h : NpDeps U s)
    (heq : s.wakeConsumers cs r = .ok (s', r')) : NpDeps U s' := h.of_ds (wakeConsumers_ds _ _ _ _ _ heq)

theorem retractLoop_npdeps {ids : List TaskId} {w : Nat} {acc acc' : List (Nat × TaskId × Nat)} (h : NpDeps U s)
    (heq : s.retractLoop w ids acc = .ok (s', acc')) : NpDeps U s' := h.of_ds (retractLoop_ds _ _ _ _ _ _ heq)

theorem retractResponse_npdeps {w : Nat} {ids : List TaskId} {o : Out} (h : NpDeps U s)
    (heq : s.retractResponse w ids = .ok (s', o)) : NpDeps U s' := h.of_ds (retractResponse_ds heq)

theorem lostPrefilled_npdeps {ids : List TaskId} (h : NpDeps U s) (heq : s.lostPrefilled ids = .ok s') :
    NpDeps U s' := h.of_ds (lostPrefilled_ds _ _ _ heq)

theorem lostAssigned_npdeps {ids ru ru' re re' : List TaskId} (h : NpDeps U s)
    (heq : s.lostAssigned ids ru re = .ok (s', ru', re')) : NpDeps U s' :=
  h.of_ds (lostAssigned_ds _ _ _ _ _ _ _ heq)

theorem lostRetracting_npdeps {l : List Task} {w : Nat} {o o' : Out} (h : NpDeps U s)
    (heq : s.lostRetracting w l o = .ok (s', o')) : NpDeps U s' := h.of_ds (lostRetracting_ds _ _ _ _ _ _ heq)

end

/-- the crash-limit loop -/
theorem crashLoop_npdeps (ids : List TaskId) {U pend : List TaskId} {s s' : State} {f : Bool}
    {rets : List (List TaskId)} {o o' : Out} (h : NpDeps U s) (hq : QInv U none pend s)
    (heq : s.crashLoop f ids rets o = .ok (s', o')) : NpDeps U s' := by
  induction ids generalizing s rets o with
  | nil => simp only [State.crashLoop] at heq; cases heq; exact h
  | cons id rest ih =>
    simp only [State.crashLoop] at heq
    split at heq
    · exact ih h hq heq
    · rename_i task ht
      have hid : task.id = id := findTask_some_id ht
      have ht' : findTask s.tasks task.id = some task := by rw [hid]; exact ht
      generalize crashOutcome task.crashLimit f task.crashes = co at heq
      obtain ⟨c', fails⟩ := co
      simp only at heq
      have d1 : NpDeps U (s.setTask { task with crashes := c' }) := h.of_ds (DS.setState ht')
      have q1 : QInv U none pend (s.setTask { task with crashes := c' }) :=
        Safe.setState' ht' rfl (fun e => e) _ _ _ hq
      split at heq
      · split at heq
        · cases heq
        · rename_i s2 o2 h2
          exact ih (taskFailed_npdeps d1 q1 h2) (taskFailed_safe h2 _ _ _ q1) heq
      · exact ih d1 q1 heq

/-- **`on_remove_worker` up to the crash loop**: `Safe`, same skeleton -/
theorem removeWorker_pre {s s' : State} {w : Nat} {reason : String} {f : Bool} {order : List TaskId}
    {rets : List (List TaskId)} {o : Out} (hi : Inv s)
    (h : s.removeWorker w reason f order rets = .ok (s', o)) :
    ∃ s3 running out0 s4 out, Safe s s3 ∧ DS s s3 ∧ s3.crashLoop f running rets out0 = .ok (s4, out) ∧
      s' = ask s4 := by
  simp only [State.removeWorker, State.worker?] at h
  split at h
  · cases h
  · rename_i wk hfw
    split at h
    · cases h
    · rename_i s1 running retracted hp1
      have e0 : Safe s { s with workers := s.workers.filter (·.id ≠ w) } := Safe.of_eq rfl rfl
      have d1 : DS s s1 := by
        clear h
        have := lostPrefilled_ds
        have := lostAssigned_ds
        repeat' (split at hp1)
        all_goals first | cases hp1 | skip
        all_goals grind
      have e1 : Safe s s1 := by
        clear h
        split at hp1
        · -- single-node assignment
          rename_i A F P ha
          split at hp1
          · cases hp1
          · rename_i hperm
            simp only [Bool.not_eq_false, Bool.and_eq_true, Bool.not_eq_eq_eq_not, Bool.not_true] at hperm
            split at hp1
            · cases hp1
            · rename_i s01 hlp
              have hP : preW s.workers w = P := by rw [preW_of_find hfw]; simp [wPre, ha]
              have hA : asgW s.workers w = A := by rw [asgW_of_find hfw]; simp [wAsg, ha]
              have hnpP : ∀ id ∈ P, NotPos { s with workers := s.workers.filter (·.id ≠ w) } id := by
                intro id hid task hft
                have hs := hi.ls.a2 w id (by rw [hP]; exact hid)
                rw [stOf_of_find hft] at hs
                simp only [Option.some.injEq] at hs
                rw [hs]; rfl
              have hnpA : ∀ id ∈ order, NotPos { s with workers := s.workers.filter (·.id ≠ w) } id := by
                intro id hid task hft
                have hidA : id ∈ A := by
                  have h1 : order.all A.contains = true := by
                    have := hperm
                    simp only [decide_eq_true_eq] at this
                    exact this.1.1
                  exact mem_of_all_contains h1 id hid
                obtain ⟨st, h1, h2⟩ := hi.ls.a1 w id (by rw [hA]; exact hidA)
                rw [stOf_of_find hft] at h1
                simp only [Option.some.injEq] at h1
                rw [h1]
                cases st <;> simp only [Holds_assigned, Holds_running, Holds_retracting, Holds_waiting, Holds_prefilled,
                  Holds_runningMN, Holds_finished] at h2 <;> rfl
              obtain ⟨a, b⟩ := lostPrefilled_safe _ _ _ hnpP hlp
              have c := lostAssigned_safe _ _ _ _ _ _ _ (fun id hid => b id (hnpA id hid)) hp1
              exact e0.trans (a.trans c)
        · -- multi-node assignment
          rename_i tid root started ha
          split at hp1
          · cases hp1
          · rename_i task hg
            have ht : findTask s.tasks tid = some task := getTask_spec hg
            have hid : task.id = tid := findTask_some_id ht
            split at hp1
            · rename_i ws hs
              split at hp1
              · rename_i rootw others
                split at hp1
                · split at hp1
                  · cases hp1
                  · rename_i s01 hr
                    have ht01 : findTask s01.tasks task.id = some task := by
                      rw [resetMnAll_tasks _ _ _ hr, hid]; exact ht
                    split at hp1
                    · cases hp1
                    · rename_i s3 r3 har
                      cases hp1
                      have a1 : Safe s01 (s01.setTask { task with state := .waiting 0, inst := task.inst + 1 }) :=
                        Safe.setState' ht01 (by simp [hs]) (by simp)
                      have a2 := Safe.addReady' har (findTask_setState_self ht01) rfl
                      exact ((e0.trans (Safe.resetMnAll hr)).trans a1).trans a2
                · cases hp1
                  exact e0.trans (Safe.setState (s := { s with workers := s.workers.filter (·.id ≠ w) }) ht
                    (by simp [hs]) (by simp))
              · cases hp1
            · cases hp1
      split at h
      · cases h
      · rename_i s2 out1 h2
        split at h
        · cases h
        · rename_i s3 out2 h3
          split at h
          · cases h
          · rename_i s4 out h4
            cases h
            exact ⟨s3, running, _, s4, _, (e1.trans (lostRetracting_safe _ _ _ _ _ _ h2)).trans (retract_safe h3),
              (d1.trans (lostRetracting_ds _ _ _ _ _ _ h2)).trans (retract_ds h3), h4, rfl⟩

theorem removeWorker_npdeps {U pend : List TaskId} {s s' : State} {w : Nat} {reason : String} {f : Bool}
    {order : List TaskId} {rets : List (List TaskId)} {o : Out} (h : NpDeps U s) (hi : Inv s)
    (hq : QInv U none pend s) (heq : s.removeWorker w reason f order rets = .ok (s', o)) : NpDeps U s' := by
  obtain ⟨s3, running, out0, s4, out, e, d, h4, rfl⟩ := removeWorker_pre hi heq
  exact (crashLoop_npdeps _ (h.of_ds d) (e _ _ _ hq) h4).of_ds (DS.ask s4)

end HqModel.Core.NPB
