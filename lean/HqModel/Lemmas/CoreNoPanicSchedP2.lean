import HqModel.Lemmas.CoreNoPanicSchedP
/-!
C09 progress, the scheduling round, part 2: the multi-node half of `create_task_mapping` (`mapMnSets`, `mapMn`).

* `IsMN s id` — the id is a RunningMultiNode task; `IsMN.fwd` (carried along `SEvo`: a locked, not Running / Finished
  record stays one), `IsMN.cons` (with `NpMn.ne`: the worker list is `root :: ws`);
* `mapMnSets1_np`, `mapMnSets1_post` (bundle + "every id of the accumulator is RunningMultiNode" after one set);
* **`mapMnSets_np`**, `mapMnSets_post`, **`mapMn_np`**, `mapMn_post`.
-/
namespace HqModel.Core.NPS

open HqModel.Core.NP HqModel.Core.NPD HqModel.Core.NPA

/-- the id is a RunningMultiNode task of the map -/
def IsMN (s : State) (id : TaskId) : Prop := ∃ t ws, s.task? id = some t ∧ t.state = .runningMN ws

theorem IsMN.fwd {s s' : State} {id : TaskId} (h : IsMN s id) (e : SEvo s s') (hn : (taskIds s.tasks).Nodup)
    (hids : taskIds s'.tasks = taskIds s.tasks) : IsMN s' id := by
  obtain ⟨t, ws, hf, hs⟩ := h
  have hf1 : findTask s.tasks id = some t := hf
  obtain ⟨t', hf'⟩ := findTask_some_of_ids hids hf1
  obtain ⟨t0, hf0, r⟩ := e.find hn hf'
  rw [hf1] at hf0; cases hf0
  have hk := r.keep (by rw [hs]; exact fun x => x)
  rw [hs] at hk
  cases hs' : t'.state with
  | runningMN ws' => exact ⟨t', ws', hf', hs'⟩
  | _ => rw [hs'] at hk; simp [locked, slocked, isWaiting] at hk

theorem IsMN.cons {s : State} {id : TaskId} (h : IsMN s id) (hmn : NpMn s) :
    ∃ t root ws, s.task? id = some t ∧ t.state = .runningMN (root :: ws) := by
  obtain ⟨t, ws, hf, hs⟩ := h
  have := (hmn.ne t (findTask_some_mem hf) ws hs).1
  cases ws with
  | nil => exact absurd rfl this
  | cons root ws => exact ⟨t, root, ws, hf, hs⟩

/-! ### one multi-node placement -/

/-- the id a multi-node placement appends to the accumulator is RunningMultiNode afterwards -/
theorem mapMnSets1_new {s s' : State} {rq : Nat} {ws : List Nat} {acc acc' : List TaskId}
    (h : s.mapMnSets rq [ws] acc = .ok (s', acc')) : ∃ id, acc' = acc ++ [id] ∧ IsMN s' id := by
  simp only [State.mapMnSets] at h
  split at h
  · cases h
  · split at h
    · cases h
    · split at h
      · cases h
      · rename_i id ids' _
        split at h
        · cases h
        · rename_i s2 h2
          split at h
          · cases h
          · rename_i task hgt
            split at h
            · cases h
            · cases h
              refine ⟨id, rfl, { task with state := .runningMN ws }, ws, ?_, rfl⟩
              have hid : task.id = id := findTask_some_id (getTask_spec hgt)
              exact findTask_putTask_same (t' := { task with state := .runningMN ws }) (getTask_spec hgt) hid

theorem mapMnSets1_np {s0 s : State} {rq : Nat} {ws : List Nat} {acc : List TaskId}
    (hb : Bd s0 s) (hmn : isMultiNodeRq s0.rqs rq = true) (hok : MnSetOk s rq ws) :
    NoCorePanic (s.mapMnSets rq [ws] acc) := by
  obtain ⟨_, hnd, hws, hrdy⟩ := hok
  have hmn' : s.isMultiNode rq = true := by rw [isMultiNode_eq, hb.trk.rqs]; exact hmn
  have hlt : rq < s.queues.length := by
    rw [hb.np3.2.1.ql]
    rcases Nat.lt_or_ge rq s.rqs.length with h | h
    · exact h
    · simp [State.isMultiNode, List.getElem?_eq_none h] at hmn'
  obtain ⟨q, hq⟩ : ∃ q, s.queues[rq]? = some q := ⟨_, List.getElem?_eq_getElem hlt⟩
  apply NoCorePanic.of_ok
  refine mapMnSets_one_ok hq (hrdy q hq) (hb.q.wf' hq).ne hnd hws ?_
  intro e he id hid
  obtain ⟨t, ht, hrq, _, hs⟩ := (hb.q.rg' hq he hid).elim
  refine ⟨t, ht, ?_⟩
  rcases hs with a | ⟨⟨w, a⟩, _⟩ | ⟨_, b⟩
  · exact a
  · have := hb.np3.2.2.sn t (findTask_some_mem ht) (by rw [a]; trivial)
    rw [hrq, hmn'] at this; cases this
  · cases b

/-- the bundle and the accumulator after one multi-node placement -/
theorem mapMnSets1_post {s0 s s' : State} {rq : Nat} {ws : List Nat} {acc acc' : List TaskId}
    (hb : Bd s0 s) (hq0 : QueueOk s0) (hmn : isMultiNodeRq s0.rqs rq = true) (hok : MnSetOk s rq ws)
    (hacc : ∀ id ∈ acc, IsMN s id) (h : s.mapMnSets rq [ws] acc = .ok (s', acc')) :
    Bd s0 s' ∧ ∀ id ∈ acc', IsMN s' id := by
  obtain ⟨a, b⟩ := mapMnSets_inv _ s0 _ _ _ _ _ hq0 hmn hb.inv hb.trk h
  have f : FrQ False s s' := mapMnSets1_fr hok h
  refine ⟨⟨a, mapMnSets_tw _ _ _ _ _ _ hb.tw h, b, f.fr.np3 hb.np3, mapMnSets_npq _ _ _ _ _ _ hb.q hb.nd h,
    f.qrq hb.qrq⟩, ?_⟩
  obtain ⟨id, rfl, hnew⟩ := mapMnSets1_new h
  obtain ⟨e, _⟩ := mapMnSets_s _ _ _ _ _ _ hb.nd h
  intro x hx
  rcases List.mem_append.mp hx with hx | hx
  · exact (hacc x hx).fwd e hb.nd (mapMnSets_ids _ _ _ _ _ _ h)
  · simp only [List.mem_singleton] at hx; subst hx; exact hnew

/-! ### the folds -/

theorem mapMnSets_np {s0 : State} {rq : Nat} (hq0 : QueueOk s0) (hmn : isMultiNodeRq s0.rqs rq = true) :
    ∀ (sets : List (List Nat)) (s : State) (acc : List TaskId),
    Bd s0 s → MnSetsOk rq s acc sets → (∀ id ∈ acc, IsMN s id) → NoCorePanic (s.mapMnSets rq sets acc)
  | [], _, _, _, _, _ => NoCorePanic.ok _
  | ws :: rest, s, acc, hb, hok, hacc => by
    rw [mapMnSets_cons]
    simp only [MnSetsOk] at hok
    cases h1 : s.mapMnSets rq [ws] acc with
    | error err => exact np_error_cast (h1 ▸ mapMnSets1_np hb hmn hok.1)
    | ok x =>
      obtain ⟨s1, acc1⟩ := x
      rw [h1] at hok
      obtain ⟨hb1, hacc1⟩ := mapMnSets1_post hb hq0 hmn hok.1 hacc h1
      exact mapMnSets_np hq0 hmn rest s1 acc1 hb1 hok.2 hacc1

theorem mapMnSets_post {s0 : State} {rq : Nat} (hq0 : QueueOk s0) (hmn : isMultiNodeRq s0.rqs rq = true) :
    ∀ (sets : List (List Nat)) (s s' : State) (acc acc' : List TaskId),
    Bd s0 s → MnSetsOk rq s acc sets → (∀ id ∈ acc, IsMN s id) → s.mapMnSets rq sets acc = .ok (s', acc') →
    Bd s0 s' ∧ ∀ id ∈ acc', IsMN s' id
  | [], s, s', acc, acc', hb, _, hacc, h => by simp only [State.mapMnSets] at h; cases h; exact ⟨hb, hacc⟩
  | ws :: rest, s, s', acc, acc', hb, hok, hacc, h => by
    rw [mapMnSets_cons] at h
    simp only [MnSetsOk] at hok
    cases h1 : s.mapMnSets rq [ws] acc with
    | error err => rw [h1] at h; cases h
    | ok x =>
      obtain ⟨s1, acc1⟩ := x
      rw [h1] at hok h
      obtain ⟨hb1, hacc1⟩ := mapMnSets1_post hb hq0 hmn hok.1 hacc h1
      exact mapMnSets_post hq0 hmn rest s1 s' acc1 acc' hb1 hok.2 hacc1 h

/-- **stage 2: the multi-node half of `create_task_mapping`** -/
theorem mapMn_np {s0 : State} (hq0 : QueueOk s0) :
    ∀ (es : List MnEntry) (s : State) (acc : List TaskId), (∀ e ∈ es, isMultiNodeRq s0.rqs e.rq = true) →
    Bd s0 s → MnEntriesOk s acc es → (∀ id ∈ acc, IsMN s id) → NoCorePanic (s.mapMn es acc)
  | [], _, _, _, _, _, _ => NoCorePanic.ok _
  | e :: rest, s, acc, hmn, hb, hok, hacc => by
    rw [mapMn_cons]
    simp only [MnEntriesOk] at hok
    have hmne := hmn e List.mem_cons_self
    cases h1 : s.mapMnSets e.rq e.sets acc with
    | error err => exact np_error_cast (h1 ▸ mapMnSets_np hq0 hmne _ _ _ hb hok.1 hacc)
    | ok x =>
      obtain ⟨s1, acc1⟩ := x
      rw [h1] at hok
      obtain ⟨hb1, hacc1⟩ := mapMnSets_post hq0 hmne _ _ _ _ _ hb hok.1 hacc h1
      exact mapMn_np hq0 rest s1 acc1 (fun e' he' => hmn e' (List.mem_cons_of_mem _ he')) hb1 hok.2 hacc1

/-- the bundle and the accumulator after stage 2 -/
theorem mapMn_post {s0 : State} (hq0 : QueueOk s0) :
    ∀ (es : List MnEntry) (s s' : State) (acc acc' : List TaskId), (∀ e ∈ es, isMultiNodeRq s0.rqs e.rq = true) →
    Bd s0 s → MnEntriesOk s acc es → (∀ id ∈ acc, IsMN s id) → s.mapMn es acc = .ok (s', acc') →
    Bd s0 s' ∧ ∀ id ∈ acc', IsMN s' id
  | [], s, s', acc, acc', _, hb, _, hacc, h => by simp only [State.mapMn] at h; cases h; exact ⟨hb, hacc⟩
  | e :: rest, s, s', acc, acc', hmn, hb, hok, hacc, h => by
    rw [mapMn_cons] at h
    simp only [MnEntriesOk] at hok
    have hmne := hmn e List.mem_cons_self
    cases h1 : s.mapMnSets e.rq e.sets acc with
    | error err => rw [h1] at h; cases h
    | ok x =>
      obtain ⟨s1, acc1⟩ := x
      rw [h1] at hok h
      obtain ⟨hb1, hacc1⟩ := mapMnSets_post hq0 hmne _ _ _ _ _ hb hok.1 hacc h1
      exact mapMn_post hq0 rest s1 s' acc1 acc' (fun e' he' => hmn e' (List.mem_cons_of_mem _ he')) hb1 hok.2 hacc1 h

end HqModel.Core.NPS
