import HqModel.Lemmas.JournalPrune2Eq
/-!
List-level strengthening of the `prune2` simulation: the job table of the restorer run on the pruned journal is
literally the job table of the restorer run on the journal, filtered to the live jobs (same order). With live sets that
cover every restorable job the two tables are EQUAL, hence `restore_jobs_and_queues` returns the same jobs and the same
`TaskSubmit` batches (adjust maps = instance ids and crash counters included).
-/
namespace HqModel.Journal

/-! ### `load_event_file` restricted to the job table -/

/-- write back the entry of a job (`none` = remove it) -/
def alPut (l : List (Nat × β)) (k : Nat) : Option β → List (Nat × β)
  | some v => alSet l k v
  | none => alDel l k

/-- the effect of one record on the job table alone -/
def jobsStep (jobs : List (Nat × RJob)) : Record → Except Stop (List (Nat × RJob))
  | .tasksCanceled ids => .ok (ids.foldl (batchStep cancelTask) jobs)
  | .tasksAborted ids => .ok (ids.foldl (batchStep abortTask) jobs)
  | .workerLost w reason => .ok (if reason.isFailure then alMap (·.increaseCrash w) jobs else jobs)
  | x =>
    match jobOf x with
    | some j =>
      match jobStep x (alGet jobs j) with
      | .ok o1 => .ok (alPut jobs j o1)
      | .error e => .error e
    | none => .ok jobs

theorem alSet_same {l : List (Nat × β)} {k : Nat} {v : β} (h : alGet l k = some v) : alSet l k v = l := by
  induction l with
  | nil => simp [alGet] at h
  | cons a r ih =>
    obtain ⟨k', w⟩ := a
    by_cases hk : k' = k
    · simp only [alGet, hk, if_true, Option.some.injEq] at h
      simp [alSet, hk, h]
    · simp only [alGet, hk, if_false] at h
      simp [alSet, hk, ih h]

theorem alDel_none {l : List (Nat × β)} {k : Nat} (h : alGet l k = none) : alDel l k = l := by
  induction l with
  | nil => rfl
  | cons a r ih =>
    obtain ⟨k', w⟩ := a
    by_cases hk : k' = k
    · simp [alGet, hk] at h
    · simp only [alGet, hk, if_false] at h
      simp [alDel, hk, ih h]

/-- `restorerStep` acts on the job table as `jobsStep` -/
theorem restorerStep_jobsStep (R R1 : Restorer) (x : Record) (hs : restorerStep R x = .ok R1) :
    jobsStep R.jobs x = .ok R1.jobs := by
  cases x
  case submit j c mf d =>
    cases c with
    | true =>
      simp only [restorerStep, if_true, Except.ok.injEq] at hs; subst hs
      simp only [jobsStep, jobOf, jobStep, if_true]; rfl
    | false =>
      simp only [restorerStep, Bool.false_eq_true, if_false] at hs
      simp only [jobsStep, jobOf, jobStep, Bool.false_eq_true, if_false]
      cases h : alGet R.jobs j with
      | none =>
        simp only [h, Except.ok.injEq] at hs; subst hs
        simp only [alPut, alDel_none h]
      | some rj =>
        simp only [h, Except.ok.injEq] at hs; subst hs
        rfl
  case jobOpen j mf =>
    simp only [restorerStep, Except.ok.injEq] at hs; subst hs
    simp only [jobsStep, jobOf, jobStep]; rfl
  case jobClose j =>
    simp only [restorerStep] at hs
    simp only [jobsStep, jobOf, jobStep]
    cases h : alGet R.jobs j with
    | none => simp [h] at hs
    | some rj => simp only [h, Except.ok.injEq] at hs; subst hs; rfl
  case jobCancel j =>
    simp only [restorerStep] at hs
    simp only [jobsStep, jobOf, jobStep]
    cases h : alGet R.jobs j with
    | none => simp [h] at hs
    | some rj =>
      simp only [h, Except.ok.injEq] at hs; subst hs
      simp only [alPut, alSet_same h]
  case jobCompleted j =>
    simp only [restorerStep, Except.ok.injEq] at hs; subst hs
    simp only [jobsStep, jobOf, jobStep]; rfl
  case taskStarted j t i ws =>
    simp only [restorerStep] at hs
    simp only [jobsStep, jobOf, jobStep]
    cases h : alGet R.jobs j with
    | none =>
      simp only [h, Except.ok.injEq] at hs; subst hs
      simp only [alPut, alDel_none h]
    | some rj => simp only [h, Except.ok.injEq] at hs; subst hs; rfl
  case taskFinished j t =>
    simp only [restorerStep] at hs
    simp only [jobsStep, jobOf, jobStep]
    cases h : alGet R.jobs j with
    | none =>
      simp only [h, Except.ok.injEq] at hs; subst hs
      simp only [alPut, alDel_none h]
    | some rj =>
      simp only [h] at hs ⊢
      cases h2 : alGet rj.tasks t with
      | none => simp [h2] at hs
      | some ti =>
        simp only [h2] at hs ⊢
        cases h3 : ti.state <;> simp only [h3, reduceCtorEq] at hs ⊢
        case running sd => simp only [Except.ok.injEq] at hs; subst hs; rfl
  case taskFailed j t =>
    simp only [restorerStep] at hs
    simp only [jobsStep, jobOf, jobStep]
    cases h : alGet R.jobs j with
    | none =>
      simp only [h, Except.ok.injEq] at hs; subst hs
      simp only [alPut, alDel_none h]
    | some rj =>
      simp only [h] at hs ⊢
      cases h2 : alGet rj.tasks t with
      | none => simp only [h2, Except.ok.injEq] at hs ⊢; subst hs; rfl
      | some ti =>
        simp only [h2] at hs ⊢
        cases h3 : ti.state <;> simp only [h3, reduceCtorEq] at hs ⊢
        case waiting => simp only [Except.ok.injEq] at hs; subst hs; rfl
        case running sd => simp only [Except.ok.injEq] at hs; subst hs; rfl
  case tasksCanceled ids => simp only [restorerStep, Except.ok.injEq] at hs; subst hs; rfl
  case tasksAborted ids => simp only [restorerStep, Except.ok.injEq] at hs; subst hs; rfl
  case workerLost w reason =>
    simp only [restorerStep] at hs
    simp only [jobsStep]
    cases hf : reason.isFailure with
    | true => simp only [hf, if_true, Except.ok.injEq] at hs; subst hs; rfl
    | false => simp only [hf, Bool.false_eq_true, if_false, Except.ok.injEq] at hs; subst hs; rfl
  case workerConnected w alloc =>
    simp only [restorerStep] at hs
    cases alloc with
    | none => simp only [Except.ok.injEq] at hs; subst hs; rfl
    | some a =>
      simp only at hs
      cases hq : alGet R.allocQueue a with
      | none => simp only [hq, Except.ok.injEq] at hs; subst hs; rfl
      | some q => simp only [hq, Except.ok.injEq] at hs; subst hs; rfl
  case queueCreated q =>
    simp only [restorerStep] at hs
    cases hq : alGet R.queues q with
    | some _ => simp [hq] at hs
    | none => simp only [hq, Except.ok.injEq] at hs; subst hs; rfl
  all_goals (simp only [restorerStep, Except.ok.injEq] at hs; subst hs; rfl)

/-! ### filtering a table to the live keys -/

def alFilter (p : Nat → Bool) (l : List (Nat × β)) : List (Nat × β) := l.filter fun kv => p kv.1

theorem alGet_filter (p : Nat → Bool) (l : List (Nat × β)) (k : Nat) :
    alGet (alFilter p l) k = if p k then alGet l k else none := by
  induction l with
  | nil => simp [alFilter, alGet]
  | cons a r ih =>
    obtain ⟨k', w⟩ := a
    simp only [alFilter] at ih
    by_cases hp : p k' = true
    · by_cases hk : k' = k
      · subst hk; simp [alFilter, hp, alGet]
      · simp [alFilter, hp, alGet, hk, ih]
    · by_cases hk : k' = k
      · subst hk; simp [alFilter, hp, ih]
      · simp [alFilter, hp, alGet, hk, ih]

theorem alFilter_set (p : Nat → Bool) (l : List (Nat × β)) (k : Nat) (v : β) :
    alFilter p (alSet l k v) = if p k then alSet (alFilter p l) k v else alFilter p l := by
  induction l with
  | nil => by_cases hp : p k = true <;> simp [alFilter, alSet, hp]
  | cons a r ih =>
    obtain ⟨k', w⟩ := a
    simp only [alFilter] at ih
    by_cases hk : k' = k
    · subst hk
      by_cases hp : p k' = true <;> simp [alFilter, alSet, hp]
    · by_cases hp' : p k' = true
      · by_cases hp : p k = true <;> simp [alFilter, alSet, hp, hp', hk, ih]
      · by_cases hp : p k = true <;> simp [alFilter, alSet, hp, hp', hk, ih]

theorem alFilter_del (p : Nat → Bool) (l : List (Nat × β)) (k : Nat) :
    alFilter p (alDel l k) = if p k then alDel (alFilter p l) k else alFilter p l := by
  induction l with
  | nil => by_cases hp : p k = true <;> simp [alFilter, alDel, hp]
  | cons a r ih =>
    obtain ⟨k', w⟩ := a
    simp only [alFilter] at ih
    by_cases hk : k' = k
    · subst hk
      by_cases hp : p k' = true <;> simp [alFilter, alDel, hp, ih]
    · by_cases hp' : p k' = true
      · by_cases hp : p k = true <;> simp [alFilter, alDel, hp, hp', hk, ih]
      · by_cases hp : p k = true <;> simp [alFilter, alDel, hp, hp', hk, ih]

theorem alFilter_put (p : Nat → Bool) (l : List (Nat × β)) (k : Nat) (o : Option β) :
    alFilter p (alPut l k o) = if p k then alPut (alFilter p l) k o else alFilter p l := by
  cases o with
  | some v => exact alFilter_set p l k v
  | none => exact alFilter_del p l k

theorem alFilter_map (p : Nat → Bool) (f : β → γ) (l : List (Nat × β)) :
    alFilter p (alMap f l) = alMap f (alFilter p l) := by
  simp only [alFilter, alMap, List.filter_map]
  rfl

theorem alFilter_map_congr (p : Nat → Bool) (f : β → β) (l : List (Nat × β))
    (h : ∀ kv, kv ∈ l → p kv.1 = true → f kv.2 = kv.2) : alFilter p (alMap f l) = alFilter p l := by
  rw [alFilter_map]
  unfold alMap
  conv => rhs; rw [← List.map_id (alFilter p l)]
  apply List.map_congr_left
  intro kv hkv
  simp only [alFilter, List.mem_filter] at hkv
  simp [h kv hkv.1 hkv.2]

theorem alFilter_batchStep (p : Nat → Bool) (f : List (Nat × RTask) → Nat → List (Nat × RTask))
    (jobs : List (Nat × RJob)) (id : Nat × Nat) :
    alFilter p (batchStep f jobs id) = if p id.1 then batchStep f (alFilter p jobs) id else alFilter p jobs := by
  unfold batchStep
  rw [alGet_filter]
  by_cases hp : p id.1 = true
  · simp only [hp, if_true]
    cases alGet jobs id.1 with
    | none => rfl
    | some rj => simp only [alFilter_set, hp, if_true]
  · have hp' : p id.1 = false := by simpa using hp
    simp only [hp', Bool.false_eq_true, if_false]
    cases alGet jobs id.1 with
    | none => rfl
    | some rj => simp only [alFilter_set, hp', Bool.false_eq_true, if_false]

theorem alFilter_batch (p : Nat → Bool) (f : List (Nat × RTask) → Nat → List (Nat × RTask)) :
    ∀ (ids : List (Nat × Nat)) (jobs : List (Nat × RJob)),
      alFilter p (ids.foldl (batchStep f) jobs) = (ids.filter fun i => p i.1).foldl (batchStep f) (alFilter p jobs) := by
  intro ids
  induction ids with
  | nil => intro jobs; rfl
  | cons id ids ih =>
    intro jobs
    simp only [List.foldl_cons, List.filter_cons, ih, alFilter_batchStep]
    by_cases hp : p id.1 = true
    · simp only [hp, if_true, List.foldl_cons]
    · have hp' : p id.1 = false := by simpa using hp
      simp only [hp', Bool.false_eq_true, if_false]

theorem alFilter_true (l : List (Nat × β)) : alFilter (fun _ => true) l = l := by
  simp [alFilter]

theorem alFilter_eq_self (p : Nat → Bool) (l : List (Nat × β)) (h : ∀ k, (alGet l k).isSome = true → p k = true) :
    alFilter p l = l := by
  unfold alFilter
  rw [List.filter_eq_self]
  intro kv hkv
  apply h
  rw [alGet_isSome_iff]
  exact List.mem_map.2 ⟨kv, hkv, rfl⟩

/-! ### the invariant over list members -/

/-- `Running` tasks of every live entry of the table run on workers of `acc` (over list members, so that it speaks
about what `values_mut()` visits) -/
def RInvL (live : Nat → Bool) (acc : List Nat) (jobs : List (Nat × RJob)) : Prop :=
  ∀ kv, kv ∈ jobs → live kv.1 = true → TasksIn acc kv.2.tasks

theorem mem_alDel {l : List (Nat × β)} {k : Nat} {kv : Nat × β} (h : kv ∈ alDel l k) : kv ∈ l := by
  induction l with
  | nil => cases h
  | cons a r ih =>
    obtain ⟨k', w⟩ := a
    by_cases hk : k' = k
    · simp only [alDel, hk, if_true] at h
      exact List.mem_cons_of_mem _ (ih h)
    · simp only [alDel, hk, if_false, List.mem_cons] at h
      rcases h with h | h
      · exact h ▸ List.mem_cons_self
      · exact List.mem_cons_of_mem _ (ih h)

theorem RInvL.toRInv {live : Nat → Bool} {acc : List Nat} {R : Restorer} (h : RInvL live acc R.jobs) :
    RInv live acc R := fun j hl rj e => h (j, rj) (alGet_mem e) hl

theorem rinvL_mono {live : Nat → Bool} {acc acc' : List Nat} (hsub : ∀ w, w ∈ acc → w ∈ acc')
    {jobs : List (Nat × RJob)} (h : RInvL live acc jobs) : RInvL live acc' jobs :=
  fun kv hkv hl => tasksIn_mono hsub (h kv hkv hl)

theorem rinvL_batchStep {live : Nat → Bool} {acc : List Nat} (f : List (Nat × RTask) → Nat → List (Nat × RTask))
    (hf : ∀ ts t, TasksIn acc ts → TasksIn acc (f ts t)) {jobs : List (Nat × RJob)} (h : RInvL live acc jobs)
    (id : Nat × Nat) : RInvL live acc (batchStep f jobs id) := by
  unfold batchStep
  cases hg : alGet jobs id.1 with
  | none => exact h
  | some rj =>
    intro kv hkv hl
    rcases mem_alSet hkv with h1 | h1
    · exact h kv h1 hl
    · subst h1
      exact hf _ _ (h (id.1, rj) (alGet_mem hg) hl)

theorem rinvL_batch {live : Nat → Bool} {acc : List Nat} (f : List (Nat × RTask) → Nat → List (Nat × RTask))
    (hf : ∀ ts t, TasksIn acc ts → TasksIn acc (f ts t)) :
    ∀ (ids : List (Nat × Nat)) (jobs : List (Nat × RJob)), RInvL live acc jobs →
      RInvL live acc (ids.foldl (batchStep f) jobs) := by
  intro ids
  induction ids with
  | nil => intro jobs h; exact h
  | cons id ids ih => intro jobs h; exact ih _ (rinvL_batchStep f hf h id)

theorem rinvL_step (lj : List Nat) {acc : List Nat} {jobs jobs1 : List (Nat × RJob)} (x : Record)
    (h : RInvL (fun j => lj.contains j) acc jobs) (hs : jobsStep jobs x = .ok jobs1) :
    RInvL (fun j => lj.contains j) (taskWorkersStep lj acc x) jobs1 := by
  have hm := taskWorkersStep_mono lj acc x
  have single : ∀ j, jobOf x = some j →
      (match jobStep x (alGet jobs j) with
        | .ok o1 => (.ok (alPut jobs j o1) : Except Stop _)
        | .error e => .error e) = .ok jobs1 →
      RInvL (fun j => lj.contains j) (taskWorkersStep lj acc x) jobs1 := by
    intro j hj hs
    cases e1 : jobStep x (alGet jobs j) with
    | error e => rw [e1] at hs; cases hs
    | ok o1 =>
      rw [e1] at hs
      simp only [Except.ok.injEq] at hs; subst hs
      intro kv hkv hl
      cases o1 with
      | none => exact tasksIn_mono hm (h kv (mem_alDel hkv) hl)
      | some v =>
        rcases mem_alSet hkv with h1 | h1
        · exact tasksIn_mono hm (h kv h1 hl)
        · subst h1
          exact jobStep_jinv lj acc x j hj hl (fun rj e => h (j, rj) (alGet_mem e) hl) e1 v rfl
  have same : jobs1 = jobs → taskWorkersStep lj acc x = acc →
      RInvL (fun j => lj.contains j) (taskWorkersStep lj acc x) jobs1 := by
    intro e1 e2; rw [e1, e2]; exact h
  cases x with
  | submit j c mf d => exact single j rfl hs
  | jobOpen j mf => exact single j rfl hs
  | jobClose j => exact single j rfl hs
  | jobCancel j => exact single j rfl hs
  | jobCompleted j => exact single j rfl hs
  | taskStarted j t i ws => exact single j rfl hs
  | taskFinished j t => exact single j rfl hs
  | taskFailed j t => exact single j rfl hs
  | tasksCanceled ids =>
    simp only [jobsStep, Except.ok.injEq] at hs; subst hs
    exact rinvL_batch cancelTask (fun ts t ht => cancelTask_tasksIn ht t) ids jobs h
  | tasksAborted ids =>
    simp only [jobsStep, Except.ok.injEq] at hs; subst hs
    exact rinvL_batch abortTask (fun ts t ht => abortTask_tasksIn ht t) ids jobs h
  | workerLost w reason =>
    simp only [jobsStep, Except.ok.injEq] at hs; subst hs
    cases hf : reason.isFailure with
    | true =>
      simp only [if_true, taskWorkersStep]
      intro kv hkv hl
      obtain ⟨kv0, h0, e⟩ := mem_alMap hkv
      subst e
      rw [increaseCrash_eq]
      exact tasksIn_map (h kv0 h0 hl) _ (incTask_state w)
    | false => simp only [Bool.false_eq_true, if_false]; exact h
  | workerConnected w alloc => simp only [jobsStep, jobOf, Except.ok.injEq] at hs; exact same hs.symm rfl
  | workerOverview w => simp only [jobsStep, jobOf, Except.ok.injEq] at hs; exact same hs.symm rfl
  | serverStart uid => simp only [jobsStep, jobOf, Except.ok.injEq] at hs; exact same hs.symm rfl
  | serverStop => simp only [jobsStep, jobOf, Except.ok.injEq] at hs; exact same hs.symm rfl
  | queueCreated q => simp only [jobsStep, jobOf, Except.ok.injEq] at hs; exact same hs.symm rfl
  | queueRemoved q => simp only [jobsStep, jobOf, Except.ok.injEq] at hs; exact same hs.symm rfl
  | allocQueued q a => simp only [jobsStep, jobOf, Except.ok.injEq] at hs; exact same hs.symm rfl
  | allocStarted q a => simp only [jobsStep, jobOf, Except.ok.injEq] at hs; exact same hs.symm rfl
  | allocFinished q a => simp only [jobsStep, jobOf, Except.ok.injEq] at hs; exact same hs.symm rfl

end HqModel.Journal
