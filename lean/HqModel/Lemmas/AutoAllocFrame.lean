import HqModel.AutoAlloc.Spec
/-!
Frame lemmas for the AutoAlloc model: how one step of the whole state acts on ONE queue.
Every step either removes the queue (`removeQueue`), resumes it (`resume`), or applies a finite sequence of the
per-queue primitives `QPrim` to it (`step_queue`). All per-queue monotonicity facts of C17/C18 are then proved on
`QPrim` only.
-/
namespace HqModel.AutoAlloc

/-! ### lookup / update of queues -/

theorem find_map_id (l : List Queue) (f : Queue → Queue) (hf : ∀ y, (f y).id = y.id) (x : Nat) :
    (l.map f).find? (·.id == x) = (l.find? (·.id == x)).map f := by
  induction l with
  | nil => rfl
  | cons y ys ih =>
    simp only [List.map_cons, List.find?_cons, hf]
    split
    · rfl
    · exact ih

theorem State.getQueue_setQueue (s : State) (q' : Queue) (x : Nat) :
    (s.setQueue q').getQueue x = if x = q'.id then (s.getQueue x).map (fun _ => q') else s.getQueue x := by
  unfold State.setQueue State.getQueue
  simp only
  induction s.queues with
  | nil => simp
  | cons y ys ih =>
    simp only [List.map_cons, List.find?_cons]
    by_cases hy : y.id = q'.id
    · simp only [hy, if_true]
      by_cases hx : x = q'.id
      · subst hx; simp
      · have : (q'.id == x) = false := by simpa using fun h => hx h.symm
        simp only [this, hx, if_false] at ih ⊢
        exact ih
    · simp only [hy, if_false]
      by_cases hyx : y.id = x
      · subst hyx
        simp [hy]
      · have : (y.id == x) = false := by simpa using hyx
        simp only [this]
        exact ih

theorem State.getQueue_id' (s : State) (id : Nat) (q : Queue) (h : s.getQueue id = some q) : q.id = id := by
  have := List.find?_some h
  simpa using this

theorem State.getQueue_pauseAll (s : State) (x : Nat) :
    s.pauseAll.getQueue x = (s.getQueue x).map Queue.tryPause := by
  unfold State.pauseAll State.getQueue
  exact find_map_id _ _ (fun y => by unfold Queue.tryPause; split <;> rfl) x

theorem State.getQueue_addA2q (s : State) (ids : List Nat) (k x : Nat) :
    (s.addA2q ids k).getQueue x = s.getQueue x := rfl

/-! ### per-queue primitives -/

/-- The primitive transitions of one queue (everything a step can do to a queue it keeps, except `resume`).
`P a i` says which automaton inputs `i` may be fed to allocation `a` (it labels the `sync`/`bumpErr` primitives). -/
inductive QPrim (c : Consts) (P : Nat → AIn → Prop) : Queue → Queue → Prop
  | sync (q : Queue) (a : Nat) (r : SyncReason) (hp : P a (.sync r)) : QPrim c P q (q.sync a r).1
  | bumpErr (q : Queue) (a : Nat) (hp : P a .err) : QPrim c P q (q.bumpErr c a).1
  | tryPause (q : Queue) : QPrim c P q q.tryPause
  | trySubmit (q : Queue) (r : QResp) (now : Nat) (res : List SubRes) : QPrim c P q (q.trySubmit r now res).q
  | pause (q : Queue) : QPrim c P q { q with active := false }

inductive QTrans (c : Consts) (P : Nat → AIn → Prop) : Queue → Queue → Prop
  | refl (q : Queue) : QTrans c P q q
  | tail {a b d : Queue} : QTrans c P a b → QPrim c P b d → QTrans c P a d

theorem QTrans.single {c : Consts} {P : Nat → AIn → Prop} {a b : Queue} (h : QPrim c P a b) : QTrans c P a b := .tail (.refl a) h

theorem QTrans.trans {c : Consts} {P : Nat → AIn → Prop} {a b d : Queue} (h1 : QTrans c P a b) (h2 : QTrans c P b d) : QTrans c P a d := by
  induction h2 with
  | refl => exact h1
  | tail _ hp ih => exact .tail ih hp

/-- Induction principle: a property of pairs that is reflexive, transitive and holds for the primitives holds
along `QTrans`. -/
theorem QTrans.lift {c : Consts} {P : Nat → AIn → Prop} (R : Queue → Queue → Prop) (hrefl : ∀ q, R q q)
    (htrans : ∀ a b d, R a b → R b d → R a d) (hprim : ∀ a b, QPrim c P a b → R a b)
    {a b : Queue} (h : QTrans c P a b) : R a b := by
  induction h with
  | refl => exact hrefl _
  | tail _ hp ih => exact htrans _ _ _ ih (hprim _ _ hp)

theorem Queue.applyStatus_QTrans (c : Consts) (P : Nat → AIn → Prop) (hx : ∀ a x, P a (.sync (.ext x)))
    (he : ∀ a, P a .err) (q : Queue) (a : Nat) (st : St) : QTrans c P q (q.applyStatus c a st).1 := by
  cases st <;> simp only [Queue.applyStatus] <;>
    first | exact .single (.sync _ _ _ (hx _ _)) | exact .single (.bumpErr _ _ (he _))

theorem Queue.refreshStatuses_QTrans (c : Consts) (P : Nat → AIn → Prop) (hx : ∀ a x, P a (.sync (.ext x)))
    (he : ∀ a, P a .err) (l : List (Nat × St)) (acc : Queue × List Out) :
    QTrans c P acc.1 (Queue.refreshStatuses c l acc).1 := by
  induction l generalizing acc with
  | nil => exact .refl _
  | cons x xs ih =>
    obtain ⟨a, st⟩ := x
    obtain ⟨q, outs⟩ := acc
    simp only [Queue.refreshStatuses]
    exact (Queue.applyStatus_QTrans c P hx he q a st).trans (ih ((q.applyStatus c a st).1, outs ++ (q.applyStatus c a st).2))

theorem Queue.refreshErr_QTrans (c : Consts) (P : Nat → AIn → Prop) (he : ∀ a, P a .err) (l : List Nat)
    (acc : Queue × List Out) : QTrans c P acc.1 (Queue.refreshErr c l acc).1 := by
  induction l generalizing acc with
  | nil => exact .refl _
  | cons x xs ih =>
    obtain ⟨q, outs⟩ := acc
    simp only [Queue.refreshErr]
    exact (QTrans.single (.bumpErr q x (he x))).trans (ih ((q.bumpErr c x).1, outs ++ (q.bumpErr c x).2))

theorem Queue.refresh_QTrans (c : Consts) (P : Nat → AIn → Prop) (hx : ∀ a x, P a (.sync (.ext x)))
    (he : ∀ a, P a .err) (q : Queue) (rep : Report) : QTrans c P q (q.refresh c rep).1 := by
  cases rep with
  | callErr ids => exact Queue.refreshErr_QTrans c P he ids (q, [])
  | statuses l => exact Queue.refreshStatuses_QTrans c P hx he l (q, [])

/-! ### ids are preserved by the primitives -/

theorem Queue.sync_id (q : Queue) (a : Nat) (r : SyncReason) : (q.sync a r).1.id = q.id := by
  unfold Queue.sync; split <;> rfl

theorem Queue.bumpErr_id (c : Consts) (q : Queue) (a : Nat) : (q.bumpErr c a).1.id = q.id := by
  unfold Queue.bumpErr; split <;> rfl

theorem Queue.tryPause_id (q : Queue) : q.tryPause.id = q.id := by
  unfold Queue.tryPause; split <;> rfl

theorem Queue.submitLoop_id (p : List Nat) (acc : SubAcc) : (Queue.submitLoop p acc).q.id = acc.q.id := by
  induction p generalizing acc with
  | nil => rfl
  | cons n rest ih =>
    simp only [Queue.submitLoop]
    split
    · rfl
    · split
      · rfl
      · rw [ih]
    · rfl

theorem Queue.trySubmit_id (q : Queue) (r : QResp) (now : Nat) (res : List SubRes) :
    (q.trySubmit r now res).q.id = q.id := by
  unfold Queue.trySubmit
  simp only
  split
  · rfl
  · split
    · rfl
    · split
      · rfl
      · rfl
      · split
        · rw [Queue.submitLoop_id]
        · rfl

theorem QPrim.id {c : Consts} {P : Nat → AIn → Prop} {a b : Queue} (h : QPrim c P a b) : b.id = a.id := by
  cases h with
  | sync => exact Queue.sync_id _ _ _
  | bumpErr => exact Queue.bumpErr_id _ _ _
  | tryPause => exact Queue.tryPause_id _
  | trySubmit => exact Queue.trySubmit_id _ _ _ _
  | pause => rfl

theorem QTrans.id {c : Consts} {P : Nat → AIn → Prop} {a b : Queue} (h : QTrans c P a b) : b.id = a.id :=
  QTrans.lift (fun a b => b.id = a.id) (fun _ => rfl) (fun _ _ _ h1 h2 => h2.trans h1) (fun _ _ h => h.id) h

/-! ### the folds of `tick` and `refresh` act on each queue by `QTrans` -/

theorem submitAll_consts (now : Nat) (l : List (QResp × Nat)) (acc : TickAcc) :
    (submitAll now l acc).st.consts = acc.st.consts := by
  induction l generalizing acc with
  | nil => rfl
  | cons x xs ih =>
    obtain ⟨r, qid⟩ := x
    simp only [submitAll]
    split
    · exact ih acc
    · split
      · rfl
      · rw [ih]; rfl

theorem submitAll_queue (c : Consts) (P : Nat → AIn → Prop) (now : Nat) (l : List (QResp × Nat)) (acc : TickAcc) (x : Nat) (q : Queue)
    (h : acc.st.getQueue x = some q) :
    ∃ q', (submitAll now l acc).st.getQueue x = some q' ∧ QTrans c P q q' := by
  induction l generalizing acc q with
  | nil => exact ⟨q, h, .refl q⟩
  | cons y ys ih =>
    obtain ⟨r, qid⟩ := y
    simp only [submitAll]
    split
    · exact ih acc q h
    · rename_i qq hqq
      have hid : (qq.trySubmit r now acc.results).q.id = qid := by
        rw [Queue.trySubmit_id]; exact State.getQueue_id' _ _ _ hqq
      have hget : ((acc.st.setQueue (qq.trySubmit r now acc.results).q).addA2q
            (qq.trySubmit r now acc.results).newIds qid).getQueue x
          = if x = qid then some (qq.trySubmit r now acc.results).q else some q := by
        rw [State.getQueue_addA2q, State.getQueue_setQueue, hid, h]
        simp
      have hmid : ∃ q1, ((acc.st.setQueue (qq.trySubmit r now acc.results).q).addA2q
            (qq.trySubmit r now acc.results).newIds qid).getQueue x = some q1 ∧ QTrans c P q q1 := by
        by_cases hx : x = qid
        · subst hx
          rw [hqq] at h
          cases h
          exact ⟨(q.trySubmit r now acc.results).q, by rw [hget]; simp, .single (.trySubmit q r now acc.results)⟩
        · exact ⟨q, by rw [hget]; simp [hx], .refl q⟩
      obtain ⟨q1, hq1, ht1⟩ := hmid
      split
      · exact ⟨q1, hq1, ht1⟩
      · obtain ⟨q2, hq2, ht2⟩ := ih
          { st := (acc.st.setQueue (qq.trySubmit r now acc.results).q).addA2q (qq.trySubmit r now acc.results).newIds qid
            outs := acc.outs ++ (qq.trySubmit r now acc.results).outs
            results := (qq.trySubmit r now acc.results).results, panic := none } q1 hq1
        exact ⟨q2, hq2, ht1.trans ht2⟩

theorem State.refreshAll_consts (l : List (Nat × Report)) (acc : State × List Out) :
    (State.refreshAll l acc).1.consts = acc.1.consts := by
  induction l generalizing acc with
  | nil => rfl
  | cons x xs ih =>
    obtain ⟨qid, rep⟩ := x
    obtain ⟨s, outs⟩ := acc
    simp only [State.refreshAll]
    split
    · exact ih _
    · rw [ih]; rfl

theorem State.refreshAll_queue (P : Nat → AIn → Prop) (hx : ∀ a x, P a (.sync (.ext x))) (he : ∀ a, P a .err)
    (l : List (Nat × Report)) (acc : State × List Out) (x : Nat) (q : Queue)
    (h : acc.1.getQueue x = some q) :
    ∃ q', (State.refreshAll l acc).1.getQueue x = some q' ∧ QTrans acc.1.consts P q q' := by
  induction l generalizing acc q with
  | nil => exact ⟨q, h, .refl q⟩
  | cons y ys ih =>
    obtain ⟨qid, rep⟩ := y
    obtain ⟨s, outs⟩ := acc
    simp only [State.refreshAll]
    split
    · exact ih _ q h
    · rename_i qq hqq
      have hid : (qq.refresh s.consts rep).1.id = qid := by
        rw [(Queue.refresh_QTrans s.consts P hx he qq rep).id]; exact State.getQueue_id' _ _ _ hqq
      have hmid : ∃ q1, (s.setQueue (qq.refresh s.consts rep).1).getQueue x = some q1 ∧ QTrans s.consts P q q1 := by
        rw [State.getQueue_setQueue, hid]
        by_cases hx : x = qid
        · subst hx
          simp only at h
          rw [hqq] at h
          cases h
          exact ⟨(q.refresh s.consts rep).1, by simp [hqq], Queue.refresh_QTrans s.consts P hx he q rep⟩
        · exact ⟨q, by simpa [hx] using h, .refl q⟩
      obtain ⟨q1, hq1, ht1⟩ := hmid
      obtain ⟨q2, hq2, ht2⟩ := ih (s.setQueue (qq.refresh s.consts rep).1, outs ++ (qq.refresh s.consts rep).2) q1 hq1
      exact ⟨q2, hq2, ht1.trans ht2⟩

/-! ### one step, seen from one queue -/

theorem step_consts (s : State) (e : Ev) : (step s e).st.consts = s.consts := by
  cases e with
  | workerConnected w a =>
    simp only [step, State.workerEvent]; split <;> (try split) <;> rfl
  | workerLost w a crashed =>
    simp only [step, State.workerEvent]; split <;> (try split) <;> rfl
  | jobSubmitted => rfl
  | addQueue p lim qid => simp only [step, State.addQueue]; split <;> rfl
  | removeQueue q force =>
    simp only [step, State.removeQueue]; split <;> (try split) <;> (try split) <;> rfl
  | pause q => simp only [step, State.pause]; split <;> rfl
  | resume q => simp only [step, State.resume]; split <;> rfl
  | tick now order query results =>
    simp only [step, State.tick]
    split
    · rfl
    · split
      · rfl
      · split
        · rfl
        · split
          · rfl
          · rfl
          · split
            · rfl
            · split
              · rw [submitAll_consts]; rfl
              · show (submitAll _ _ _).st.consts = _
                rw [submitAll_consts]; rfl
  | refresh reports =>
    simp only [step, State.refresh]
    split
    · rfl
    · exact State.refreshAll_consts reports (s, [])

/-- What a step does to a queue `x` that exists before it. -/
theorem step_queue (s : State) (e : Ev) (x : Nat) (q : Queue) (h : s.getQueue x = some q) :
    ((∃ f, e = .removeQueue x f) ∧ (step s e).st.getQueue x = none) ∨
    (e = .resume x ∧
      (step s e).st.getQueue x = some { q with active := true, lim := q.lim.onResume s.consts.resumeMask }) ∨
    (∃ q', (step s e).st.getQueue x = some q' ∧ QTrans s.consts (Allowed e) q q') := by
  have hid := State.getQueue_id' s x q h
  have same : ∃ q', s.getQueue x = some q' ∧ QTrans s.consts (Allowed e) q q' := ⟨q, h, .refl q⟩
  have viaSet : ∀ (qq q2 : Queue) (k : Nat), s.getQueue k = some qq → q2.id = qq.id → QTrans s.consts (Allowed e) qq q2 →
      ∃ q', (s.setQueue q2).getQueue x = some q' ∧ QTrans s.consts (Allowed e) q q' := by
    intro qq q2 k hk hid2 ht
    have hkid := State.getQueue_id' s k qq hk
    rw [State.getQueue_setQueue]
    by_cases hx : x = q2.id
    · have : x = k := by omega
      subst this
      rw [hk] at h; cases h
      refine ⟨q2, ?_, ht⟩
      rw [if_pos hx, hk]; rfl
    · exact ⟨q, by simpa [hx] using h, .refl q⟩
  cases e with
  | workerConnected w a =>
    right; right
    simp only [step, State.workerEvent]
    split
    · exact same
    · split
      · exact same
      · rename_i qq hqq
        exact viaSet qq _ _ hqq (Queue.sync_id _ _ _) (.single (.sync _ _ _ rfl))
  | workerLost w a crashed =>
    right; right
    simp only [step, State.workerEvent]
    split
    · exact same
    · split
      · exact same
      · rename_i qq hqq
        exact viaSet qq _ _ hqq (Queue.sync_id _ _ _) (.single (.sync _ _ _ rfl))
  | jobSubmitted => right; right; exact same
  | addQueue p lim qid =>
    right; right
    simp only [step, State.addQueue]
    split
    · exact same
    · refine ⟨q, ?_, .refl q⟩
      simp only [State.getQueue, List.find?_append]
      have : s.queues.find? (·.id == x) = some q := h
      simp [this]
  | removeQueue k force =>
    simp only [step, State.removeQueue]
    split
    · right; right; exact same
    · rename_i qq hqq
      split
      · right; right; exact same
      · have hkid := State.getQueue_id' s k qq hqq
        have hfilter : ∀ (m : List (Nat × Nat)),
            ({ s with queues := s.queues.filter (·.id != k), a2q := m } : State).getQueue x
              = if x = k then none else some q := by
          intro m
          simp only [State.getQueue, List.find?_filter]
          by_cases hx : x = k
          · subst hx
            simp only [if_true, List.find?_eq_none]
            intro y _; simp
          · simp only [hx, if_false]
            have hq : s.queues.find? (·.id == x) = some q := h
            rw [← hq]
            congr 1
            funext y
            by_cases hy : y.id = x
            · simp [hy, hx]
            · simp [hy]
        by_cases hx : x = k
        · left
          subst hx
          refine ⟨⟨force, rfl⟩, ?_⟩
          split
          · have := hfilter s.a2q; simpa using this
          · rename_i m _
            have := hfilter m; simpa using this
        · right; right
          split
          · exact ⟨q, by have := hfilter s.a2q; simpa [hx] using this, .refl q⟩
          · rename_i m _
            exact ⟨q, by have := hfilter m; simpa [hx] using this, .refl q⟩
  | pause k =>
    right; right
    simp only [step, State.pause]
    split
    · exact same
    · rename_i qq hqq
      exact viaSet qq _ k hqq rfl (.single (.pause qq))
  | resume k =>
    simp only [step, State.resume]
    split
    · right; right; exact same
    · rename_i qq hqq
      have hkid := State.getQueue_id' s k qq hqq
      by_cases hx : x = k
      · right; left
        subst hx
        rw [hqq] at h; cases h
        refine ⟨rfl, ?_⟩
        rw [State.getQueue_setQueue]
        simp [hkid, hqq]
      · right; right
        refine ⟨q, ?_, .refl q⟩
        rw [State.getQueue_setQueue]
        have : ¬ x = qq.id := by omega
        simpa [this] using h
  | tick now order query results =>
    right; right
    have hp : ∃ q1, s.pauseAll.getQueue x = some q1 ∧ QTrans s.consts (Allowed (.tick now order query results)) q q1 :=
      ⟨q.tryPause, by rw [State.getQueue_pauseAll, h]; rfl, .single (.tryPause q)⟩
    simp only [step, State.tick]
    split
    · exact same
    · split
      · exact hp
      · split
        · exact hp
        · split
          · exact hp
          · exact hp
          · split
            · exact hp
            · rename_i responses _
              obtain ⟨q1, hq1, ht1⟩ := hp
              obtain ⟨q2, hq2, ht2⟩ := submitAll_queue s.consts _ now (responses.zip (s.pauseAll.activeIn order))
                ⟨s.pauseAll, [Out.query (s.pauseAll.activeIn order).length], results, none⟩ x q1 hq1
              split
              · exact ⟨q2, hq2, ht1.trans ht2⟩
              · refine ⟨q2.tryPause, ?_, (ht1.trans ht2).trans (.single (.tryPause q2))⟩
                show (State.pauseAll _).getQueue x = _
                rw [State.getQueue_pauseAll, hq2]; rfl
  | refresh reports =>
    right; right
    simp only [step, State.refresh]
    split
    · exact same
    · exact State.refreshAll_queue (Allowed (.refresh reports)) (fun _ _ => ⟨reports, rfl⟩) (fun _ => ⟨reports, rfl⟩) reports (s, []) x q h

/-- A queue that does not exist before a step exists after it only if the step is the `addQueue` that creates it
(then it is active, has no allocations, and the given parameters/limiter). -/
theorem step_new_queue (s : State) (e : Ev) (x : Nat) (q' : Queue) (h : s.getQueue x = none)
    (h' : (step s e).st.getQueue x = some q') :
    ∃ p lim qid, e = .addQueue p lim qid ∧ x = qid.getD s.nextId ∧ q' = ⟨x, p, true, [], lim⟩ := by
  have none_set : ∀ q2 : Queue, (s.setQueue q2).getQueue x = none := by
    intro q2
    rw [State.getQueue_setQueue, h]; simp
  cases e with
  | workerConnected w a =>
    simp only [step, State.workerEvent] at h'
    split at h'
    · rw [h] at h'; cases h'
    · split at h'
      · rw [h] at h'; cases h'
      · rw [none_set] at h'; cases h'
  | workerLost w a crashed =>
    simp only [step, State.workerEvent] at h'
    split at h'
    · rw [h] at h'; cases h'
    · split at h'
      · rw [h] at h'; cases h'
      · rw [none_set] at h'; cases h'
  | jobSubmitted => simp only [step] at h'; rw [h] at h'; cases h'
  | addQueue p lim qid =>
    refine ⟨p, lim, qid, rfl, ?_⟩
    simp only [step, State.addQueue] at h'
    split at h'
    · have : s.getQueue x = some q' := h'
      rw [h] at this; cases this
    · simp only [State.getQueue, List.find?_append] at h'
      have hn : s.queues.find? (·.id == x) = none := h
      simp only [hn, Option.none_or, List.find?_cons, List.find?_nil] at h'
      split at h'
      · rename_i heq
        simp only [beq_iff_eq] at heq
        cases h'
        exact ⟨heq.symm, by rw [heq]⟩
      · cases h'
  | removeQueue k force =>
    simp only [step, State.removeQueue] at h'
    have hfil : ∀ m : List (Nat × Nat),
        ({ s with queues := s.queues.filter (·.id != k), a2q := m } : State).getQueue x = none := by
      intro m
      simp only [State.getQueue, List.find?_filter, List.find?_eq_none]
      have hn : s.queues.find? (·.id == x) = none := h
      rw [List.find?_eq_none] at hn
      intro y hy
      have := hn y hy
      intro hc
      apply this
      exact (of_decide_eq_true hc).2
    split at h'
    · rw [h] at h'; cases h'
    · split at h'
      · rw [h] at h'; cases h'
      · split at h'
        · have := hfil s.a2q
          simp only at this h'
          rw [this] at h'; cases h'
        · rename_i m _
          have := hfil m
          simp only at this h'
          rw [this] at h'; cases h'
  | pause k =>
    simp only [step, State.pause] at h'
    split at h'
    · rw [h] at h'; cases h'
    · rw [none_set] at h'; cases h'
  | resume k =>
    simp only [step, State.resume] at h'
    split at h'
    · rw [h] at h'; cases h'
    · rw [none_set] at h'; cases h'
  | tick now order query results =>
    exfalso
    have hp : s.pauseAll.getQueue x = none := by rw [State.getQueue_pauseAll, h]; rfl
    have hsub : ∀ (l : List (QResp × Nat)) (acc : TickAcc), acc.st.getQueue x = none →
        (submitAll now l acc).st.getQueue x = none := by
      intro l
      induction l with
      | nil => intro acc ha; exact ha
      | cons y ys ih =>
        intro acc ha
        obtain ⟨r, qid⟩ := y
        simp only [submitAll]
        split
        · exact ih acc ha
        · have hm : ∀ q2 ids, ((acc.st.setQueue q2).addA2q ids qid).getQueue x = none := by
            intro q2 ids
            rw [State.getQueue_addA2q, State.getQueue_setQueue, ha]; simp
          split
          · exact hm _ _
          · exact ih _ (hm _ _)
    simp only [step, State.tick] at h'
    split at h'
    · rw [h] at h'; cases h'
    · split at h'
      · rw [hp] at h'; cases h'
      · split at h'
        · rw [hp] at h'; cases h'
        · split at h'
          · rw [hp] at h'; cases h'
          · rw [hp] at h'; cases h'
          · split at h'
            · rw [hp] at h'; cases h'
            · rename_i responses _
              have := hsub (responses.zip (s.pauseAll.activeIn order))
                ⟨s.pauseAll, [Out.query (s.pauseAll.activeIn order).length], results, none⟩ hp
              split at h'
              · simp only at h'; rw [this] at h'; cases h'
              · have h2 : (State.pauseAll (submitAll now (responses.zip (s.pauseAll.activeIn order))
                    ⟨s.pauseAll, [Out.query (s.pauseAll.activeIn order).length], results, none⟩).st).getQueue x = none := by
                  rw [State.getQueue_pauseAll, this]; rfl
                simp only at h'; rw [h2] at h'; cases h'
  | refresh reports =>
    exfalso
    have hall : ∀ (l : List (Nat × Report)) (acc : State × List Out), acc.1.getQueue x = none →
        (State.refreshAll l acc).1.getQueue x = none := by
      intro l
      induction l with
      | nil => intro acc ha; exact ha
      | cons y ys ih =>
        intro acc ha
        obtain ⟨qid, rep⟩ := y
        obtain ⟨s0, outs⟩ := acc
        simp only [State.refreshAll]
        split
        · exact ih _ ha
        · apply ih
          show (s0.setQueue _).getQueue x = none
          rw [State.getQueue_setQueue]
          simp only at ha
          rw [ha]; simp
    simp only [step, State.refresh] at h'
    split at h'
    · rw [h] at h'; cases h'
    · have := hall reports (s, []) h
      simp only at h'; rw [this] at h'; cases h'

end HqModel.AutoAlloc
