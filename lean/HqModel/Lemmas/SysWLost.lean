import HqModel.Lemmas.SysWRedirect
/-!
`on_remove_worker` in terms of the views of the SURVIVING workers: a forward specification of `lostRetracting` (tasks
that were being retracted from the lost worker go to their redirect target, with one `ComputeTasks` item, or back to
Waiting), and the composition of the parts of `removeWorker_parts`.
-/
namespace HqModel.Core
open HqModel HqModel.SysW

theorem view_congr {a b : State} (hw : b.workers = a.workers) (x : Nat) (t : TaskId)
    (e : stOf b.tasks t = stOf a.tasks t) : view b x t = view a x t := by
  have hmn : ∀ x t, mnStarted b x t = mnStarted a x t := by
    intro x t; unfold mnStarted State.worker?; rw [hw]
  rw [view_eq, view_eq, e]
  cases stOf a.tasks t with
  | none => rfl
  | some st =>
    cases st with
    | runningMN l => cases l <;> simp [viewSt, hmn]
    | _ => rfl

theorem lostRetracting_spec (w : Nat) : ∀ (l : List Task) (s s' : State) (o o' : Out),
    s.lostRetracting w l o = .ok (s', o') →
    ∃ new, o'.msgs = o.msgs ++ new ∧ s'.workers = s.workers ∧ ∀ t,
      (stOf s'.tasks t = stOf s.tasks t ∧ ∀ w', cfor w' t new = []) ∨
      (stOf s.tasks t = some (.retracting w) ∧ stOf s'.tasks t = some (.waiting 0) ∧ ∀ w', cfor w' t new = []) ∨
      (∃ target rv, stOf s.tasks t = some (.retracting w) ∧ stOf s'.tasks t = some (.assigned target rv) ∧
        ∀ w', cfor w' t new = if target = w' then [some rv] else []) := by
  intro l
  induction l with
  | nil =>
    intro s s' o o' h
    simp only [State.lostRetracting] at h; cases h
    exact ⟨[], by simp, rfl, fun t => .inl ⟨rfl, fun _ => rfl⟩⟩
  | cons t0 rest ih =>
    intro s s' o o' h
    simp only [State.lostRetracting] at h
    split at h
    · exact ih _ _ _ _ h
    · rename_i task ht
      have hid : task.id = t0.id := findTask_some_id ht
      have hst : stOf s.tasks t0.id = some task.state := stOf_of_find ht
      split at h
      · exact ih _ _ _ _ h
      · rename_i hret
        have hret : task.state = .retracting w := Classical.not_not.mp hret
        have conv : ∀ (s1 : State) (o1 : Out) (nst : TS) (add : List Msg) (nt : Task),
            s1.lostRetracting w rest o1 = .ok (s', o') →
            nt.id = task.id → nt.state = nst →
            s1.tasks = putTask s.tasks nt → s1.workers = s.workers → o1.msgs = o.msgs ++ add →
            (∀ x, nst ≠ .retracting x) → (∀ w' t, t ≠ t0.id → cfor w' t add = []) →
            ∃ new, o'.msgs = o.msgs ++ new ∧ s'.workers = s.workers ∧ ∀ t,
              (t ≠ t0.id ∧ ((stOf s'.tasks t = stOf s.tasks t ∧ ∀ w', cfor w' t new = []) ∨
                (stOf s.tasks t = some (.retracting w) ∧ stOf s'.tasks t = some (.waiting 0) ∧ ∀ w', cfor w' t new = []) ∨
                (∃ target rv, stOf s.tasks t = some (.retracting w) ∧ stOf s'.tasks t = some (.assigned target rv) ∧
                  ∀ w', cfor w' t new = if target = w' then [some rv] else []))) ∨
              (t = t0.id ∧ stOf s'.tasks t = some nst ∧ ∀ w', cfor w' t new = cfor w' t add) := by
          intro s1 o1 nst add nt h hnid hnst e1 ew eo hnr hadd
          obtain ⟨new, h1, h2, h3⟩ := ih _ _ _ _ h
          have hput : ∀ u, stOf s1.tasks u = if u = t0.id then some nst else stOf s.tasks u := by
            intro u
            rw [e1, stOf_put (told := task) (by rw [hnid]; show findTask s.tasks task.id = _; rw [hid]; exact ht)]
            simp [hnid, hid, hnst]
          refine ⟨add ++ new, by rw [h1, eo, List.append_assoc], h2.trans ew, fun t => ?_⟩
          by_cases ht' : t = t0.id
          · right
            have h1' := hput t
            simp only [ht', if_true] at h1'
            rw [← ht'] at h1'
            rcases h3 t with ⟨a, b⟩ | ⟨a, _⟩ | ⟨_, _, a, _⟩
            · exact ⟨ht', by rw [a, h1'], fun w' => by rw [cfor_append, b w', List.append_nil]⟩
            · rw [h1'] at a; cases a; exact (hnr w rfl).elim
            · rw [h1'] at a; cases a; exact (hnr w rfl).elim
          · left
            have h1' := hput t
            simp only [ht', if_false] at h1'
            refine ⟨ht', ?_⟩
            rcases h3 t with ⟨a, b⟩ | ⟨a, b, c⟩ | ⟨tg, rv, a, b, c⟩
            · exact .inl ⟨by rw [a, h1'], fun w' => by rw [cfor_append, hadd w' t ht', b w']; rfl⟩
            · exact .inr (.inl ⟨by rw [← h1']; exact a, b, fun w' => by rw [cfor_append, hadd w' t ht', c w']; rfl⟩)
            · exact .inr (.inr ⟨tg, rv, by rw [← h1']; exact a, b,
                fun w' => by rw [cfor_append, hadd w' t ht', c w']; rfl⟩)
        split at h
        · rename_i target rv hfind
          obtain ⟨new, h1, h2, h3⟩ := conv _ _ (.assigned target rv)
            [.compute target [computeOne { task with inst := task.inst + 1, state := .assigned target rv } (some rv) []]]
            { task with inst := task.inst + 1, state := .assigned target rv } h rfl rfl rfl rfl rfl
            (fun x e => by cases e)
            (fun w' t ht' => by
              simp only [computeOne]
              rw [cfor_single]
              simp [hid, Ne.symm ht'])
          refine ⟨new, h1, h2, fun t => ?_⟩
          rcases h3 t with ⟨_, a⟩ | ⟨e, a, b⟩
          · exact a
          · refine .inr (.inr ⟨target, rv, by rw [e, hst, hret], a, fun w' => ?_⟩)
            rw [b w']
            simp only [computeOne]
            rw [cfor_single]
            simp [hid, e]
        · obtain ⟨new, h1, h2, h3⟩ := conv _ _ (.waiting 0) []
            { task with inst := task.inst + 1, state := .waiting 0 } h rfl rfl rfl rfl (by simp)
            (fun x e => by cases e) (fun w' t _ => rfl)
          refine ⟨new, h1, h2, fun t => ?_⟩
          rcases h3 t with ⟨_, a⟩ | ⟨e, a, b⟩
          · exact a
          · exact .inr (.inl ⟨by rw [e, hst, hret], a, fun w' => by rw [b w']; rfl⟩)

/-- **`on_remove_worker`** for the surviving workers: a foreign action -/
theorem removeWorker_views {c c' : State} {w0 : Nat} {reason : String} {f : Bool} {order : List TaskId}
    {rets : List (List TaskId)} {o : Out} (hi : Inv c) (hm' : MnOk c')
    (h : c.removeWorker w0 reason f order rets = .ok (c', o)) :
    (∀ w' t, w' ≠ w0 → Foreign (view c w' t) (cfor w' t o.msgs) (view c' w' t)) ∧
    (∀ w' t, stOf c.tasks t = none → cfor w' t o.msgs = []) := by
  obtain ⟨s1, s2, s3, s4, running, retracted, out1, out2, fA, h2, h3, h4, rfl, e1⟩ := removeWorker_parts hi h
  have hn : (taskIds c.tasks).Nodup := hi.nd
  have hn1 : (taskIds s1.tasks).Nodup := by rw [e1]; exact hn
  have hn2 : (taskIds s2.tasks).Nodup := by rw [lostRetracting_ids _ _ _ _ _ _ h2]; exact hn1
  have fB := lostRetracting_frw _ _ _ _ _ _ h2
  have fC : Frq s2 (ask s4) := ((retract_frq h3).trans (crashLoop_frq _ _ _ _ _ _ _ h4)).trans (Frq.ask s4)
  obtain ⟨new, m1, ew, hall⟩ := lostRetracting_spec w0 _ _ _ _ _ h2
  obtain ⟨extra, m4, nc4⟩ := crashLoop_msgs _ _ _ _ _ _ _ h4
  have hmsgs : ∀ w' t, cfor w' t o.msgs = cfor w' t new := by
    intro w' t
    rw [m4]
    simp only [Out.add_msgs, m1, cfor_append]
    rw [cfor_noCompute (retract_noCompute h3), cfor_noCompute nc4]
    simp [cfor_nil]
  -- when the task is not being retracted from the lost worker after the first part, nothing is sent for it
  have hquietmsg : ∀ t, stOf s1.tasks t ≠ some (.retracting w0) →
      stOf s2.tasks t = stOf s1.tasks t ∧ ∀ w', cfor w' t new = [] := by
    intro t hne
    rcases hall t with a | ⟨a, _⟩ | ⟨_, _, a, _⟩
    · exact a
    · exact (hne a).elim
    · exact (hne a).elim
  constructor
  · intro w' t hw'
    rw [hmsgs]
    have hrel : ¬ (lostA w0).rel w' t := hw'
    have hrelM : ¬ (lostM w0).rel w' t := hw'
    by_cases hv : view c w' t = .quiet
    · rw [hv]
      rcases fA.quietView hn w' t (fun e => e) hv with q1 | q1
      · -- still quiet after the first part
        have fin : ∀ cm, (view s2 w' t = .quiet ∧ cm = []) ∨ (∃ rv, view s2 w' t = .asg rv ∧ cm = [some rv]) →
            Foreign .quiet cm (view (ask s4) w' t) := by
          intro cm hc
          rcases hc with ⟨a, rfl⟩ | ⟨rv, a, rfl⟩
          · rcases fC.quietView hn2 w' t (fun e => e) a with e | e <;> rw [e]
            · exact Foreign.same _
            · exact foreign_to_hot _ _
          · have := fC.keepView hn2 hm' w' t (fun e => e) (by rw [a]; simp)
            rw [a] at this
            rcases this.2 with e | ⟨e, _⟩ | ⟨e, _⟩
            · rw [e]; exact foreign_to_hot _ _
            · rw [e]; exact ⟨fun e => (by cases e), .inr (.inr ⟨rfl, .inl ⟨rv, rfl, rfl⟩⟩)⟩
            · cases e
        apply fin
        rcases hall t with ⟨a, b⟩ | ⟨a, b, c0⟩ | ⟨tg, rv, a, b, c0⟩
        · exact .inl ⟨by rw [view_congr ew w' t a]; exact q1, b w'⟩
        · exact .inl ⟨view_quiet_of_owner b (by intro e; cases e), c0 w'⟩
        · rw [c0 w', view_some b]
          by_cases htg : tg = w'
          · subst htg; exact .inr ⟨rv, by simp [viewSt], by simp⟩
          · exact .inl ⟨by simp [viewSt, htg], by simp [htg]⟩
      · -- hot after the first part: it stays hot, and nothing is sent
        have hne : stOf s1.tasks t ≠ some (.retracting w0) := by
          intro e
          rw [view_some e] at q1
          simp only [viewSt, hw'.symm, if_false] at q1
          cases q1
        obtain ⟨_, hnil⟩ := hquietmsg t hne
        rw [hnil w']
        have := (fB.trans fC.lostA).keepView hn1 hm' w' t hrel (by rw [q1]; simp)
        rw [q1] at this
        rw [this.1 rfl]
        exact foreign_to_hot _ _
    · -- the task is at `w'`, or unknown: nothing is sent for it
      have hne : stOf s1.tasks t ≠ some (.retracting w0) := by
        intro e
        cases hs : stOf c.tasks t with
        | none => rw [tfrw_stOf_none fA.t hs] at e; cases e
        | some st =>
          obtain ⟨st0, h0, sok⟩ := tfrw_stOf fA.t hn e
          rw [hs] at h0
          cases h0
          rw [view_some hs] at hv
          have ho := owner_of_viewSt_ne_quiet hv
          have := (sok.keep w' ho hrelM).owner ho
          cases this
          exact hw' rfl
      obtain ⟨_, hnil⟩ := hquietmsg t hne
      rw [hnil w']
      exact ((fA.lostA.trans fB).trans fC.lostA).keepView hn hm' w' t hrel hv
  · intro w' t hnone
    rw [hmsgs]
    have : stOf s1.tasks t ≠ some (.retracting w0) := by
      rw [tfrw_stOf_none fA.t hnone]; intro e; cases e
    exact (hquietmsg t this).2 w'

end HqModel.Core
