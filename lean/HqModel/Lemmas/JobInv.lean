import HqModel.Lemmas.JobBasic
/-!
`JobWF` is preserved by every operation of `Job`, `StateWF` by every `step`, hence by every run.
-/
namespace HqModel.Job

/-! ### single-task transitions -/

theorem JobWF.setRunning {job job' : Job} {t : Nat} (h : JobWF job) (e : job.setRunning t = .ok job') :
    JobWF job' := by
  unfold Job.setRunning at e
  split at e
  · cases e
  · rename_i hl
    cases e
    have c := fun x => countS_setState (b := TState.running) x h.nodup hl
    have c1 := c .running; have c2 := c .finished; have c3 := c .failed
    have c4 := c .canceled; have c5 := c .aborted
    simp at c1 c2 c3 c4 c5
    refine ⟨by simpa [keys_setState] using h.nodup, ?_, ?_, ?_, ?_, ?_⟩ <;>
      simp only [] <;> first
        | (rw [h.running]; omega) | (rw [h.finished]; omega) | (rw [h.failed]; omega)
        | (rw [h.canceled]; omega) | (rw [h.aborted]; omega)
  · cases e; exact h

theorem lookup_running_pos {job : Job} {t : Nat} (h : JobWF job) (hl : lookup job.tasks t = some .running) :
    0 < job.cnt.running := by
  rw [h.running]
  have c := countS_setState (b := TState.waiting) .running h.nodup hl
  simp at c
  omega

theorem JobWF.setWaiting {job job' : Job} {t : Nat} (h : JobWF job) (e : job.setWaiting t = .ok job') :
    JobWF job' := by
  unfold Job.setWaiting at e
  split at e
  · cases e
  · rename_i hl
    cases e
    have hp := lookup_running_pos h hl
    have c := fun x => countS_setState (b := TState.waiting) x h.nodup hl
    have c1 := c .running; have c2 := c .finished; have c3 := c .failed
    have c4 := c .canceled; have c5 := c .aborted
    simp at c1 c2 c3 c4 c5
    refine ⟨by simpa [keys_setState] using h.nodup, ?_, ?_, ?_, ?_, ?_⟩ <;>
      simp only [] <;> first
        | (rw [h.running] at hp ⊢; omega) | (rw [h.finished]; omega) | (rw [h.failed]; omega)
        | (rw [h.canceled]; omega) | (rw [h.aborted]; omega)
  · cases e

theorem JobWF.setFinished {job job' : Job} {t : Nat} {evs : List Ev} (h : JobWF job)
    (e : job.setFinished t = .ok (job', evs)) : JobWF job' := by
  unfold Job.setFinished at e
  split at e
  · cases e
  · rename_i hl
    cases e
    have hp := lookup_running_pos h hl
    have c := fun x => countS_setState (b := TState.finished) x h.nodup hl
    have c1 := c .running; have c2 := c .finished; have c3 := c .failed
    have c4 := c .canceled; have c5 := c .aborted
    simp at c1 c2 c3 c4 c5
    refine ⟨by simpa [keys_setState] using h.nodup, ?_, ?_, ?_, ?_, ?_⟩ <;>
      simp only [] <;> first
        | (rw [h.running] at hp ⊢; omega) | (rw [h.finished]; omega) | (rw [h.failed]; omega)
        | (rw [h.canceled]; omega) | (rw [h.aborted]; omega)
  · cases e

theorem JobWF.setFailed {job job' : Job} {t : Nat} {evs : List Ev} (h : JobWF job)
    (e : job.setFailed t = .ok (job', evs)) : JobWF job' := by
  unfold Job.setFailed at e
  split at e
  · cases e
  · rename_i hl
    cases e
    have hp := lookup_running_pos h hl
    have c := fun x => countS_setState (b := TState.failed) x h.nodup hl
    have c1 := c .running; have c2 := c .finished; have c3 := c .failed
    have c4 := c .canceled; have c5 := c .aborted
    simp at c1 c2 c3 c4 c5
    refine ⟨by simpa [keys_setState] using h.nodup, ?_, ?_, ?_, ?_, ?_⟩ <;>
      simp only [] <;> first
        | (rw [h.running] at hp ⊢; omega) | (rw [h.finished]; omega) | (rw [h.failed]; omega)
        | (rw [h.canceled]; omega) | (rw [h.aborted]; omega)
  · rename_i hl
    cases e
    have c := fun x => countS_setState (b := TState.failed) x h.nodup hl
    have c1 := c .running; have c2 := c .finished; have c3 := c .failed
    have c4 := c .canceled; have c5 := c .aborted
    simp at c1 c2 c3 c4 c5
    refine ⟨by simpa [keys_setState] using h.nodup, ?_, ?_, ?_, ?_, ?_⟩ <;>
      simp only [] <;> first
        | (rw [h.running]; omega) | (rw [h.finished]; omega) | (rw [h.failed]; omega)
        | (rw [h.canceled]; omega) | (rw [h.aborted]; omega)
  · cases e

/-! ### the batch loop of cancel / abort -/

/-- what `markAll` guarantees when it succeeds (target ∈ {canceled, aborted}) -/
structure MarkSpec (target : TState) (job job' : Job) (n : Nat) : Prop where
  id : job'.id = job.id
  isOpen : job'.isOpen = job.isOpen
  maxFails : job'.maxFails = job.maxFails
  keys : keys job'.tasks = keys job.tasks
  running : job'.cnt.running = countS job'.tasks .running
  finished : job'.cnt.finished = job.cnt.finished
  failed : job'.cnt.failed = job.cnt.failed
  canceled : job'.cnt.canceled = job.cnt.canceled
  aborted : job'.cnt.aborted = job.cnt.aborted
  cFinished : countS job'.tasks .finished = countS job.tasks .finished
  cFailed : countS job'.tasks .failed = countS job.tasks .failed
  cTarget : countS job'.tasks target = countS job.tasks target + n
  cOther : ∀ x, x ≠ target → x ≠ .running → x ≠ .waiting → countS job'.tasks x = countS job.tasks x

theorem markAll_spec (target : TState) (site : String) (ht1 : target ≠ .running) (ht2 : target ≠ .waiting)
    (ht3 : target ≠ .finished) (ht4 : target ≠ .failed) :
    ∀ (ids : List TaskId) (job job' : Job), (keys job.tasks).Nodup →
      job.cnt.running = countS job.tasks .running →
      job.markAll target site ids = .ok job' → MarkSpec target job job' ids.length := by
  intro ids
  induction ids with
  | nil =>
    intro job job' _ hr e
    simp only [Job.markAll] at e
    cases e
    exact ⟨rfl, rfl, rfl, rfl, hr, rfl, rfl, rfl, rfl, rfl, rfl, by simp, fun _ _ _ _ => rfl⟩
  | cons p rest ih =>
    intro job job' hnd hr e
    obtain ⟨j, t⟩ := p
    simp only [Job.markAll] at e
    split at e
    · cases e
    · split at e
      · cases e
      · -- running
        rename_i hl
        have c := fun x => countS_setState (b := target) x hnd hl
        have hp : 0 < countS job.tasks .running := by
          have := c .running; simp [ht1] at this; omega
        have s := ih _ job' (by simpa [keys_setState] using hnd)
          (by
            have := c .running
            simp [ht1] at this
            simp only []; omega) e
        refine ⟨s.id, s.isOpen, s.maxFails, by rw [s.keys]; simp [keys_setState], s.running,
          s.finished, s.failed, s.canceled, s.aborted, ?_, ?_, ?_, ?_⟩
        · have := c .finished; simp [ht3] at this; rw [s.cFinished]; simpa using this
        · have := c .failed; simp [ht4] at this; rw [s.cFailed]; simpa using this
        · have := c target; simp [ht1.symm] at this
          rw [s.cTarget]; simp only [List.length_cons]; omega
        · intro x h1 h2 h3
          have := c x
          simp [h1.symm, h2.symm] at this
          rw [s.cOther x h1 h2 h3]; simpa using this
      · -- waiting
        rename_i hl
        have c := fun x => countS_setState (b := target) x hnd hl
        have s := ih _ job' (by simpa [keys_setState] using hnd)
          (by
            have := c .running
            simp [ht1] at this
            simp only []; omega) e
        refine ⟨s.id, s.isOpen, s.maxFails, by rw [s.keys]; simp [keys_setState], s.running,
          s.finished, s.failed, s.canceled, s.aborted, ?_, ?_, ?_, ?_⟩
        · have := c .finished; simp [ht3] at this; rw [s.cFinished]; simpa using this
        · have := c .failed; simp [ht4] at this; rw [s.cFailed]; simpa using this
        · have := c target; simp [ht2.symm] at this
          rw [s.cTarget]; simp only [List.length_cons]; omega
        · intro x h1 h2 h3
          have := c x
          simp [h1.symm, h3.symm] at this
          rw [s.cOther x h1 h2 h3]; simpa using this
      · cases e

theorem JobWF.setCancel {job job' : Job} {ids : List TaskId} {evs : List Ev} (h : JobWF job)
    (e : job.setCancel ids = .ok (job', evs)) : JobWF job' := by
  unfold Job.setCancel at e
  split at e
  · cases e; exact h
  · split at e
    · cases e
    · rename_i job1 hm
      cases e
      have s := markAll_spec .canceled "set_cancel_state" (by decide) (by decide) (by decide) (by decide)
        ids job job1 h.nodup h.running hm
      refine ⟨by simpa [s.keys] using h.nodup, s.running, ?_, ?_, ?_, ?_⟩
      · simp only []; rw [s.finished, h.finished, s.cFinished]
      · simp only []; rw [s.failed, h.failed, s.cFailed]
      · simp only []; rw [s.canceled, h.canceled, s.cTarget]
      · simp only []; rw [s.aborted, h.aborted, s.cOther .aborted (by decide) (by decide) (by decide)]

theorem JobWF.abortTasks {job job' : Job} {ids : List TaskId} {evs : List Ev} (h : JobWF job)
    (e : job.abortTasks ids = .ok (job', evs)) : JobWF job' := by
  unfold Job.abortTasks at e
  split at e
  · cases e; exact h
  · split at e
    · cases e
    · rename_i job1 hm
      cases e
      have s := markAll_spec .aborted "abort_tasks" (by decide) (by decide) (by decide) (by decide)
        ids job job1 h.nodup h.running hm
      refine ⟨by simpa [s.keys] using h.nodup, s.running, ?_, ?_, ?_, ?_⟩
      · simp only []; rw [s.finished, h.finished, s.cFinished]
      · simp only []; rw [s.failed, h.failed, s.cFailed]
      · simp only []; rw [s.canceled, h.canceled, s.cOther .canceled (by decide) (by decide) (by decide)]
      · simp only []; rw [s.aborted, h.aborted, s.cTarget]

/-! ### attaching a submit -/

theorem JobWF.attach : ∀ (ids : List Nat) {job job' : Job}, JobWF job → job.attach ids = .ok job' → JobWF job'
  | [], job, job', h, e => by simp only [Job.attach] at e; cases e; exact h
  | t :: rest, job, job', h, e => by
    simp only [Job.attach] at e
    split at e
    · cases e
    · rename_i hl
      have hfresh : t ∉ keys job.tasks := by
        intro hm
        -- a key that is present has a value
        have : ∀ ts : List (Nat × TState), t ∈ keys ts → lookup ts t ≠ none := by
          intro ts
          induction ts with
          | nil => simp [keys]
          | cons p ps ih =>
            obtain ⟨k, v⟩ := p
            intro hm
            by_cases hk : k = t
            · simp [lookup, hk]
            · simp only [keys, List.map_cons, List.mem_cons] at hm
              rcases hm with hm | hm
              · exact absurd hm.symm hk
              · simpa [lookup, hk] using ih hm
        exact this _ hm hl
      refine JobWF.attach rest (job := { job with tasks := job.tasks ++ [(t, .waiting)] }) ?_ e
      refine ⟨?_, ?_, ?_, ?_, ?_, ?_⟩
      · simp only [keys, List.map_append, List.map_cons, List.map_nil]
        have := h.nodup
        simp only [keys] at this hfresh
        rw [List.nodup_append]
        refine ⟨this, by simp, ?_⟩
        intro a ha b hb
        simp at hb; subst hb
        exact fun e => hfresh (e ▸ ha)
      all_goals simp only [countS_append_waiting]
      · simpa using h.running
      · simpa using h.finished
      · simpa using h.failed
      · simpa using h.canceled
      · simpa using h.aborted

end HqModel.Job
