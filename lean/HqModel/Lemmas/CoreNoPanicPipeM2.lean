import HqModel.Lemmas.CoreNoPanicPipeEv
/-!
C09 compose, Stage 4b — the worker side (M2) of the strengthened pipeline invariant, for ONE task id `n`:

* `step_nb`       — `n` is in no backlog (it may be running) and the message carries no item for `n`: the step emits
  neither a `run` nor a `rej` about `n`, and `n` is in no backlog afterwards;
* `step_asg_run`  — not held, one assigned item `some rv`: a leading `run rv'` has `rv' = rv`, nothing follows it, and
  `n` is in no backlog afterwards;
* `step_pre_run`  — not held, one prefill item: `RunLast`;
* `step_back_run` — `n` waits (exactly once) in a backlog, no item: `RunLast`.

Same structure as `Lemmas/SysWWorker.lean` / `SysWWorker2.lean` (whose lemmas are reused): loop invariants through
`tryStart` / `prefillLoop` / `computeEntry` / `computeEntries`, then the whole steps.
-/
namespace HqModel.SysW.NPP
open HqModel HqModel.Worker

/-! ### `NB` basics -/

theorem nb_of_sameHold {n : Nat} {s s' : Worker.State} (h : SameHold n s s') (hn : NB s n) : NB s' n :=
  fun rq => by rw [h.bl]; exact hn rq

theorem not_nb_of_mem {s : Worker.State} {n rq : Nat} {x : Task} (hx : x ∈ s.backlog rq) (hid : x.id = n) :
    ¬ NB s n := by
  intro hf
  have := hf rq
  simp only [bcount, List.length_eq_zero_iff, List.filter_eq_nil_iff] at this
  exact this x hx (by simp [hid])

/-- every backlog of `s'` is a filtered backlog of `s` -/
theorem nb_filter {n : Nat} {s s' : Worker.State} (p : Nat → Task → Bool)
    (h : ∀ rq, s'.backlog rq = (s.backlog rq).filter (p rq)) (hn : NB s n) : NB s' n := by
  intro rq
  have := hn rq
  simp only [bcount, List.length_eq_zero_iff, List.filter_eq_nil_iff] at this ⊢
  rw [h rq]
  intro x hx
  exact this x (List.mem_filter.mp hx).1

theorem RunLast.of_no_run {E : List Ev} {s' : Worker.State} {n : Nat} (h : ∀ rv, Ev.run rv ∉ E) : RunLast E s' n := by
  intro rv rest he
  exact (h rv (by rw [he]; exact List.mem_cons_self)).elim

/-! ### the `NB` lemmas: tasks with another id do not touch `n` -/

theorem prefillLoop_nb {n rq rv h : Nat} : ∀ (bl : List Task) {a a' : Acc} {c : Bool},
    bl = a.s.backlog rq → NB a.s n → prefillLoop rq rv h bl a = .ok (a', c) →
    NB a'.s n ∧ EA n a' = EA n a
  | [], a, a', c, hbl, hf, hs => by
    simp only [prefillLoop] at hs
    cases hs
    refine ⟨?_, rfl⟩
    have : SameHold n a.s { setBacklog a.s rq [] with live := a.s.live.erase h } := by
      refine ⟨Iff.rfl, fun r => ?_⟩
      show bcount (setBacklog a.s rq []) n r = _
      rw [bcount_setBacklog]
      split
      · rename_i e; subst e; simp [bcount, ← hbl]
      · rfl
    exact nb_of_sameHold this hf
  | x :: rest, a, a', c, hbl, hf, hs => by
    have hx : x.id ≠ n := fun e => not_nb_of_mem (s := a.s) (rq := rq) (x := x) (by rw [← hbl]; simp) e hf
    have h0 : SameHold n a.s (setBacklog a.s rq rest) := sameHold_pop_other hbl.symm hx
    simp only [prefillLoop] at hs
    split at hs
    · cases hs
    · rename_i a1 hts
      cases hs
      obtain ⟨g1, g2, _, _⟩ := tryStart_other hx hts
      exact ⟨nb_of_sameHold g1 (nb_of_sameHold h0 hf), g2⟩
    · rename_i a1 hts
      obtain ⟨g1, g2, g3, _⟩ := tryStart_other hx hts
      have e1 : a1.s = setBacklog a.s rq rest := g3 rfl
      obtain ⟨k1, k2⟩ := prefillLoop_nb rest (by rw [e1]; simp) (nb_of_sameHold g1 (nb_of_sameHold h0 hf)) hs
      exact ⟨k1, k2.trans g2⟩

theorem computeEntry_nb {n : Nat} {a a' : Acc} {e : Entry} (hx : e.task.id ≠ n) (hf : NB a.s n)
    (hs : computeEntry a e = .ok a') : NB a'.s n ∧ EA n a' = EA n a := by
  unfold computeEntry at hs
  split at hs
  · cases hs
    have := sameHold_push_other (n := n) a.s e.task
      (if e.task.rq ∈ a.s.bkeys then a.s.bkeys else e.task.rq :: a.s.bkeys) hx
    exact ⟨nb_of_sameHold this hf, rfl⟩
  · rename_i rv hrv
    split at hs
    · cases hs
    · split at hs
      · cases hs
        have := sameHold_insertBlocked n a.s (e.task.rq, rv)
        have hE : EA n { a with s := insertBlocked a.s (e.task.rq, rv), upd := a.upd ++ [.reject e.task.id (some rv)] } = EA n a := by
          simp [EA, evsW, hx]
        exact ⟨nb_of_sameHold this hf, hE⟩
      · rename_i hh halloc
        split at hs
        · cases hs
        · have h0 : SameHold n a.s ({ a.s with live := hh :: a.s.live } : Worker.State) := SameHold.of_eq rfl rfl
          split at hs
          · cases hs
          · rename_i a1 hts
            cases hs
            obtain ⟨g1, g2, _, _⟩ := tryStart_other hx hts
            exact ⟨nb_of_sameHold g1 (nb_of_sameHold h0 hf), g2⟩
          · rename_i a1 hts
            split at hs
            · cases hs
            · rename_i a2 c2 hpl
              cases hs
              obtain ⟨g1, g2, _, _⟩ := tryStart_other hx hts
              obtain ⟨k1, k2⟩ := prefillLoop_nb _ rfl (nb_of_sameHold g1 (nb_of_sameHold h0 hf)) hpl
              exact ⟨k1, k2.trans g2⟩

theorem computeEntries_nb {n : Nat} : ∀ (es : List Entry) {a a' : Acc}, itemsW n es = [] → NB a.s n →
    computeEntries es a = .ok a' → NB a'.s n ∧ EA n a' = EA n a
  | [], a, a', _, hf, hs => by
    simp only [computeEntries] at hs; cases hs
    exact ⟨hf, rfl⟩
  | e :: es, a, a', hi, hf, hs => by
    simp only [computeEntries] at hs
    rw [itemsW_cons] at hi
    split at hi
    · cases hi
    · rename_i hx
      split at hs
      · cases hs
      · rename_i a1 h1
        obtain ⟨p1, p2⟩ := computeEntry_nb hx hf h1
        obtain ⟨q1, q2⟩ := computeEntries_nb es hi p1 hs
        exact ⟨q1, q2.trans p2⟩

/-! ### `tryStart` on a task with id `n` -/

theorem tryStart_self2 {n : Nat} {a a' : Acc} {x : Task} {rv h : Nat} {p c : Bool} (hx : x.id = n)
    (hs : tryStart a x rv p h = .ok (a', c)) :
    ∃ e, EA n a' = EA n a ++ [e] ∧ (∀ rv', e = .run rv' → rv' = rv) ∧
      ((c = false ∧ a'.s = a.s) ∨ (c = true ∧ a'.s = started a.s x rv h)) := by
  obtain ⟨_, hc⟩ := tryStart_cases hs
  rcases hc with ⟨h0, h1, _, h3⟩ | ⟨h0, h1, _, h3⟩ | ⟨h0, _, h1, _, h3⟩
  · exact ⟨.rej (some rv), by simp [EA, h3, evsW, hx], fun _ e => (by cases e), .inl ⟨h0, h1⟩⟩
  · exact ⟨.fail, by simp [EA, h3, evsW, hx], fun _ e => (by cases e), .inl ⟨h0, h1⟩⟩
  · exact ⟨.run rv, by cases p <;> simp [EA, h3, evsW, hx], fun _ e => (by cases e; rfl), .inr ⟨h0, h1⟩⟩

theorem nb_started {n : Nat} {s : Worker.State} (x : Task) (rv h : Nat) (hn : NB s n) : NB (started s x rv h) n :=
  fun rq => hn rq

/-! ### `PT2`: `n` waits and nothing was said, or exactly one event was emitted and `n` is in no backlog -/

def PT2 (P : List Ev) (s : Worker.State) (n : Nat) : Prop :=
  (P = [] ∧ Back s n) ∨ (∃ e, P = [e] ∧ NB s n)

theorem PT2.runLast {P : List Ev} {s : Worker.State} {n : Nat} (h : PT2 P s n) : RunLast P s n := by
  intro rv rest he
  rcases h with ⟨h1, _⟩ | ⟨e, h1, h2⟩
  · rw [h1] at he; cases he
  · rw [h1] at he; cases he; exact ⟨rfl, h2⟩

/-- popping the one waiting copy of `n` -/
theorem free_pop_self {n rq : Nat} {s : Worker.State} {x : Task} {rest : List Task} (hbl : x :: rest = s.backlog rq)
    (hx : x.id = n) (hb : Back s n) : Free (setBacklog s rq rest) n := by
  obtain ⟨h1, rq0, h2, h3⟩ := hb
  have hrq : rq = rq0 := by
    apply Classical.byContradiction
    intro hne
    have := h3 rq hne
    simp only [bcount, ← hbl, List.filter_cons, hx, decide_true, if_true, List.length_cons] at this
    omega
  subst hrq
  refine ⟨h1, fun r => ?_⟩
  rw [bcount_setBacklog]
  split
  · simp only [bcount, ← hbl, List.filter_cons, hx, decide_true, if_true, List.length_cons] at h2
    omega
  · rename_i hne; exact h3 r hne

theorem prefillLoop_pt2 {n rq rv h : Nat} : ∀ (bl : List Task) {a a' : Acc} {c : Bool},
    bl = a.s.backlog rq → PT2 (EA n a) a.s n → prefillLoop rq rv h bl a = .ok (a', c) →
    PT2 (EA n a') a'.s n
  | [], a, a', c, hbl, ht, hs => by
    rcases ht with ⟨he, hb⟩ | ⟨e, he, hn⟩
    · simp only [prefillLoop] at hs
      cases hs
      refine .inl ⟨he, ?_⟩
      have : SameHold n a.s { setBacklog a.s rq [] with live := a.s.live.erase h } := by
        refine ⟨Iff.rfl, fun r => ?_⟩
        show bcount (setBacklog a.s rq []) n r = _
        rw [bcount_setBacklog]
        split
        · rename_i e; subst e; simp [bcount, ← hbl]
        · rfl
      exact this.back hb
    · obtain ⟨k1, k2⟩ := prefillLoop_nb [] hbl hn hs
      exact .inr ⟨e, by rw [k2]; exact he, k1⟩
  | x :: rest, a, a', c, hbl, ht, hs => by
    rcases ht with ⟨he, hb⟩ | ⟨e, he, hn⟩
    · simp only [prefillLoop] at hs
      have hEA : EA n { a with s := setBacklog a.s rq rest } = [] := he
      by_cases hx : x.id = n
      · -- the waiting copy of `n` is popped
        have hfree : Free (setBacklog a.s rq rest) n := free_pop_self hbl hx hb
        split at hs
        · cases hs
        · rename_i a1 hts
          cases hs
          obtain ⟨e, g1, _, g3⟩ := tryStart_self2 hx hts
          refine .inr ⟨e, by rw [g1, hEA]; rfl, ?_⟩
          rcases g3 with ⟨_, g3⟩ | ⟨_, g3⟩
          · rw [g3]; exact hfree.2
          · rw [g3]; exact nb_started _ _ _ hfree.2
        · rename_i a1 hts
          obtain ⟨e, g1, _, g3⟩ := tryStart_self2 hx hts
          rcases g3 with ⟨_, g3⟩ | ⟨hc, _⟩
          · refine prefillLoop_pt2 rest (by rw [g3]; simp) ?_ hs
            exact .inr ⟨e, by rw [g1, hEA]; rfl, by rw [g3]; exact hfree.2⟩
          · cases hc
      · have h0 : SameHold n a.s (setBacklog a.s rq rest) := sameHold_pop_other hbl.symm hx
        split at hs
        · cases hs
        · rename_i a1 hts
          cases hs
          obtain ⟨g1, g2, _, _⟩ := tryStart_other hx hts
          exact .inl ⟨by rw [g2]; exact he, g1.back (h0.back hb)⟩
        · rename_i a1 hts
          obtain ⟨g1, g2, g3, _⟩ := tryStart_other hx hts
          have e1 : a1.s = setBacklog a.s rq rest := g3 rfl
          exact prefillLoop_pt2 rest (by rw [e1]; simp) (.inl ⟨by rw [g2]; exact he, g1.back (h0.back hb)⟩) hs
    · obtain ⟨k1, k2⟩ := prefillLoop_nb (x :: rest) hbl hn hs
      exact .inr ⟨e, by rw [k2]; exact he, k1⟩

theorem computeEntry_pt2 {n : Nat} {a a' : Acc} {e : Entry} (hx : e.task.id ≠ n) (ht : PT2 (EA n a) a.s n)
    (hs : computeEntry a e = .ok a') : PT2 (EA n a') a'.s n := by
  rcases ht with ⟨he, hb⟩ | ⟨ev, he, hn⟩
  · unfold computeEntry at hs
    split at hs
    · cases hs
      have := sameHold_push_other (n := n) a.s e.task
        (if e.task.rq ∈ a.s.bkeys then a.s.bkeys else e.task.rq :: a.s.bkeys) hx
      exact .inl ⟨he, this.back hb⟩
    · rename_i rv hrv
      split at hs
      · cases hs
      · split at hs
        · cases hs
          have := sameHold_insertBlocked n a.s (e.task.rq, rv)
          have hE : EA n { a with s := insertBlocked a.s (e.task.rq, rv), upd := a.upd ++ [.reject e.task.id (some rv)] } = EA n a := by
            simp [EA, evsW, hx]
          exact .inl ⟨by rw [hE]; exact he, this.back hb⟩
        · rename_i hh halloc
          split at hs
          · cases hs
          · have h0 : SameHold n a.s ({ a.s with live := hh :: a.s.live } : Worker.State) := SameHold.of_eq rfl rfl
            split at hs
            · cases hs
            · rename_i a1 hts
              cases hs
              obtain ⟨g1, g2, _, _⟩ := tryStart_other hx hts
              exact .inl ⟨by rw [g2]; exact he, g1.back (h0.back hb)⟩
            · rename_i a1 hts
              split at hs
              · cases hs
              · rename_i a2 c2 hpl
                cases hs
                obtain ⟨g1, g2, _, _⟩ := tryStart_other hx hts
                exact prefillLoop_pt2 _ rfl (.inl ⟨by rw [g2]; exact he, g1.back (h0.back hb)⟩) hpl
  · obtain ⟨k1, k2⟩ := computeEntry_nb hx hn hs
    exact .inr ⟨ev, by rw [k2]; exact he, k1⟩

theorem computeEntries_pt2 {n : Nat} : ∀ (es : List Entry) {a a' : Acc}, itemsW n es = [] → PT2 (EA n a) a.s n →
    computeEntries es a = .ok a' → PT2 (EA n a') a'.s n
  | [], a, a', _, ht, hs => by
    simp only [computeEntries] at hs; cases hs
    exact ht
  | e :: es, a, a', hi, ht, hs => by
    simp only [computeEntries] at hs
    rw [itemsW_cons] at hi
    split at hi
    · cases hi
    · rename_i hx
      split at hs
      · cases hs
      · rename_i a1 h1
        exact computeEntries_pt2 es hi (computeEntry_pt2 hx ht h1) hs

/-! ### the entry for `n` itself -/

/-- an assigned item for `n`, `n` not held: exactly one event, a `run` carries the variant of the item, and `n` is in
no backlog afterwards -/
theorem computeEntry_asg {n rv : Nat} {a a' : Acc} {e : Entry} (hx : e.task.id = n) (hrv : e.rv = some rv)
    (hf : Free a.s n) (hs : computeEntry a e = .ok a') :
    ∃ ev, EA n a' = EA n a ++ [ev] ∧ NB a'.s n ∧ ∀ rv', ev = .run rv' → rv' = rv := by
  unfold computeEntry at hs
  rw [hrv] at hs
  simp only at hs
  split at hs
  · cases hs
  · split at hs
    · cases hs
      exact ⟨.rej (some rv), by simp [EA, evsW, hx], ((sameHold_insertBlocked n a.s _).free hf).2,
        fun _ e => (by cases e)⟩
    · rename_i hh halloc
      split at hs
      · cases hs
      · have h0 : SameHold n a.s ({ a.s with live := hh :: a.s.live } : Worker.State) := SameHold.of_eq rfl rfl
        split at hs
        · cases hs
        · rename_i a1 hts
          cases hs
          obtain ⟨ev, g1, g2, g3⟩ := tryStart_self2 hx hts
          refine ⟨ev, g1, ?_, g2⟩
          rcases g3 with ⟨_, g3⟩ | ⟨_, g3⟩
          · rw [g3]; exact (h0.free hf).2
          · rw [g3]; exact nb_started _ _ _ (h0.free hf).2
        · rename_i a1 hts
          split at hs
          · cases hs
          · rename_i a2 c2 hpl
            cases hs
            obtain ⟨ev, g1, g2, g3⟩ := tryStart_self2 hx hts
            rcases g3 with ⟨_, g3⟩ | ⟨hc, _⟩
            · have hf1 : Free a1.s n := by rw [g3]; exact h0.free hf
              obtain ⟨k1, k2⟩ := prefillLoop_free _ rfl hf1 hpl
              exact ⟨ev, k2.trans g1, k1.2, g2⟩
            · cases hc

theorem computeEntries_asg {n rv : Nat} : ∀ (es : List Entry) {a a' : Acc}, itemsW n es = [some rv] →
    Free a.s n → EA n a = [] → computeEntries es a = .ok a' →
    ∃ ev, EA n a' = [ev] ∧ NB a'.s n ∧ ∀ rv', ev = .run rv' → rv' = rv
  | [], a, a', hi, _, _, _ => by cases hi
  | e :: es, a, a', hi, hf, he, hs => by
    simp only [computeEntries] at hs
    rw [itemsW_cons] at hi
    split at hs
    · cases hs
    · rename_i a1 h1
      split at hi
      · rename_i hx
        simp only [List.cons.injEq] at hi
        obtain ⟨hrv, hrest⟩ := hi
        obtain ⟨ev, g1, g2, g3⟩ := computeEntry_asg hx hrv hf h1
        obtain ⟨k1, k2⟩ := computeEntries_nb es hrest g2 hs
        exact ⟨ev, by rw [k2, g1, he]; rfl, k1, g3⟩
      · rename_i hx
        obtain ⟨g1, _⟩ := computeEntry_other hx h1
        obtain ⟨p1, p2⟩ := g1 hf
        exact computeEntries_asg es hi p1 (by rw [p2]; exact he) hs

theorem computeEntries_pre {n : Nat} : ∀ (es : List Entry) {a a' : Acc}, itemsW n es = [none] →
    Free a.s n → EA n a = [] → computeEntries es a = .ok a' → PT2 (EA n a') a'.s n
  | [], a, a', hi, _, _, _ => by cases hi
  | e :: es, a, a', hi, hf, he, hs => by
    simp only [computeEntries] at hs
    rw [itemsW_cons] at hi
    split at hs
    · cases hs
    · rename_i a1 h1
      split at hi
      · rename_i hx
        simp only [List.cons.injEq] at hi
        obtain ⟨hrv, hrest⟩ := hi
        have hself := computeEntry_self hx hf h1
        rw [hrv] at hself
        simp only at hself
        exact computeEntries_pt2 es hrest (.inl ⟨by rw [hself.2]; exact he, hself.1⟩) hs
      · rename_i hx
        obtain ⟨g1, _⟩ := computeEntry_other hx h1
        obtain ⟨p1, p2⟩ := g1 hf
        exact computeEntries_pre es hi p1 (by rw [p2]; exact he) hs

/-! ### whole steps -/

/-- not held, one ASSIGNED item for `n` with variant `rv`: if the events about `n` start with `run rv'` then `rv' = rv`,
nothing follows, and `n` is in no backlog afterwards -/
theorem step_asg_run {n rv : Nat} {s s' : Worker.State} {es : List Entry} {outs : List Worker.Out} (hf : Free s n)
    (hi : itemsW n es = [some rv]) (hs : Worker.step s (.compute es) = .ok (s', outs)) :
    ∀ rv' rest, evsOuts n outs = .run rv' :: rest → rv' = rv ∧ rest = [] ∧ NB s' n := by
  simp only [Worker.step, compute] at hs
  split at hs
  · cases hs
  · rename_i a ha
    obtain ⟨e1, e2⟩ := ok_pair hs
    rw [e1, e2]
    obtain ⟨_, g2, _⟩ := computeEntries_grow (n := n) es ha
    rw [evsOuts_finish n a (fun o ho => by rcases g2 o ho with h | h; cases h; exact h)]
    obtain ⟨ev, k1, k2, k3⟩ := computeEntries_asg es hi hf rfl ha
    intro rv' rest he
    rw [k1] at he
    cases he
    exact ⟨k3 rv' rfl, rfl, k2⟩

/-- not held, one PREFILL item for `n` -/
theorem step_pre_run {n : Nat} {s s' : Worker.State} {es : List Entry} {outs : List Worker.Out} (hf : Free s n)
    (hi : itemsW n es = [none]) (hs : Worker.step s (.compute es) = .ok (s', outs)) : RunLast (evsOuts n outs) s' n := by
  simp only [Worker.step, compute] at hs
  split at hs
  · cases hs
  · rename_i a ha
    obtain ⟨e1, e2⟩ := ok_pair hs
    rw [e1, e2]
    obtain ⟨_, g2, _⟩ := computeEntries_grow (n := n) es ha
    rw [evsOuts_finish n a (fun o ho => by rcases g2 o ho with h | h; cases h; exact h)]
    exact (computeEntries_pre es hi hf rfl ha).runLast

theorem cancelOne_nb (n : Nat) (a : Worker.State × List Worker.Out) (t : Nat) (hn : NB a.1 n) :
    NB (cancelOne a t).1 n := by
  obtain ⟨s, outs⟩ := a
  simp only [cancelOne]
  split
  · exact nb_filter (s := s) (fun _ x => decide (x.id ≠ t)) (fun _ => rfl) hn
  · split
    · exact hn
    · exact hn

theorem cancel_nb (n : Nat) : ∀ (ids : List Nat) (a : Worker.State × List Worker.Out), NB a.1 n →
    NB (ids.foldl cancelOne a).1 n
  | [], _, h => h
  | t :: rest, a, h => by
    simp only [List.foldl_cons]
    exact cancel_nb n rest (cancelOne a t) (cancelOne_nb n a t h)

theorem calm_resultUpdates (n t : Nat) (res : TaskResult) : Calm ((resultUpdates t res).flatMap (evsW n)) := by
  intro e he
  cases res <;> by_cases h : t = n <;> simp [resultUpdates, evsW, h] at he <;> subst he <;> rfl

theorem enable_events (n : Nat) (ks : List (Nat × Nat)) :
    (ks.map (fun k => Update.enable k.1 k.2)).flatMap (evsW n) = [] := by
  simp only [List.flatMap_eq_nil_iff, List.mem_map]
  rintro u ⟨k, _, rfl⟩
  rfl

/-- the events of a `RetractResponse` -/
theorem retract_events (n : Nat) (s : Worker.State) (ids : List Nat) :
    evsOuts n (retract s ids).2 = [] ∨ evsOuts n (retract s ids).2 = [.resp] := by
  simp only [retract, evsOuts]
  split
  · exact .inl rfl
  · simp only [List.flatMap_cons, List.flatMap_nil, List.append_nil, evsOut]
    split
    · exact .inr rfl
    · exact .inl rfl

/-- the rejects of `retract_check_process` are all `rej none` -/
theorem rc_events {n : Nat} {s : Worker.State} {rm : List Nat} {e : Ev}
    (he : e ∈ rm.flatMap (fun rq => ((s.backlog rq).reverse.map fun t => Update.reject t.id none).flatMap (evsW n))) :
    e = .rej none ∧ ∃ rq, bcount s n rq ≠ 0 := by
  obtain ⟨rq, _, h⟩ := List.mem_flatMap.mp he
  rw [rejects_of_bcount] at h
  obtain ⟨h1, h2⟩ := List.mem_replicate.mp h
  exact ⟨h2, rq, h1⟩

/-- `n` is in no backlog (it may be running) and the message carries no item for `n`: the step emits neither a `run`
nor a `rej` about `n`, and `n` is in no backlog afterwards -/
theorem step_nb {n : Nat} {s s' : Worker.State} {op : Worker.Op} {outs : List Worker.Out} (hnb : NB s n)
    (hno : NoItem n op) (hs : Worker.step s op = .ok (s', outs)) : NB s' n ∧ Calm (evsOuts n outs) := by
  cases op with
  | compute es =>
    simp only [Worker.step, compute] at hs
    split at hs
    · cases hs
    · rename_i a ha
      obtain ⟨e1, e2⟩ := ok_pair hs
      rw [e1, e2]
      obtain ⟨p1, p2⟩ := computeEntries_nb es hno hnb ha
      obtain ⟨_, g2, _⟩ := computeEntries_grow (n := n) es ha
      refine ⟨p1, ?_⟩
      rw [evsOuts_finish n a (fun o ho => by rcases g2 o ho with h | h; cases h; exact h), p2]
      exact Calm.nil
  | retract ids =>
    simp only [Worker.step] at hs
    obtain ⟨e1, e2⟩ := ok_pair hs
    rw [e1, e2]
    constructor
    · exact nb_filter (s := s) (fun _ x => decide (x.id ∉ ids)) (fun _ => rfl) hnb
    · rcases retract_events n s ids with h | h <;> rw [h]
      · exact Calm.nil
      · intro e he
        simp only [List.mem_singleton] at he
        subst he; rfl
  | cancel ids =>
    simp only [Worker.step, Except.ok.injEq] at hs
    obtain ⟨g1, _, _⟩ := cancel_hold n ids (s, [])
    have e1 : s' = (ids.foldl cancelOne (s, [])).1 := (congrArg Prod.fst hs).symm
    have e2 : outs = (ids.foldl cancelOne (s, [])).2 := (congrArg Prod.snd hs).symm
    rw [e1, e2]
    refine ⟨cancel_nb n ids (s, []) hnb, ?_⟩
    rw [evsOuts_of_none fun o ho => by rcases g1 o ho with h | h; cases h; exact h]
    exact Calm.nil
  | taskEnd t res en =>
    simp only [Worker.step, taskEnd] at hs
    split at hs
    · cases hs
    · rename_i r hr
      split at hs
      · cases hs
      · rename_i a used hpl
        have h0 : NB ({ s with running := s.running.filter (fun x => x.task.id != t) } : Worker.State) n := hnb
        obtain ⟨p1, p2⟩ := prefillLoop_nb (n := n)
          (a := { s := { s with running := s.running.filter (fun x => x.task.id != t) }, upd := resultUpdates t res })
          _ rfl h0 hpl
        obtain ⟨_, g2, _⟩ := prefillLoop_grow (n := n) _ hpl
        have hE0 : Calm (EA n a) := by
          rw [p2]
          exact calm_resultUpdates n t res
        have hev : ∀ o ∈ a.ev, outMsg o = none := fun o ho => by rcases g2 o ho with h | h; cases h; exact h
        split at hs
        · split at hs
          · obtain ⟨e1, e2⟩ := ok_pair hs
            rw [e1, e2]
            refine ⟨p1, (congrArg Calm ((evsOuts_finish n _ ?_).trans ?_)).mpr hE0⟩
            · exact hev
            · simp only [EA, List.flatMap_append, enable_events, List.append_nil]
          · cases hs
        · obtain ⟨e1, e2⟩ := ok_pair hs
          rw [e1, e2]
          exact ⟨p1, by rw [evsOuts_finish n a hev]; exact hE0⟩
  | timeoutFire t =>
    simp only [Worker.step, timeoutFire] at hs
    split at hs
    · cases hs
    · split at hs
      · cases hs
      · obtain ⟨e1, e2⟩ := ok_pair hs
        rw [e1, e2]
        refine ⟨hnb, ?_⟩
        rw [evsOuts_of_none]
        · exact Calm.nil
        · intro o ho
          split at ho
          · cases ho
          · simp only [List.mem_singleton] at ho; subst ho; rfl
  | retractCheck order =>
    simp only [Worker.step, retractCheck] at hs
    split at hs
    · cases hs; exact ⟨hnb, Calm.nil⟩
    · split at hs
      · cases hs; exact ⟨hnb, Calm.nil⟩
      · split at hs
        · split at hs
          · cases hs
          · rename_i acc hacc
            obtain ⟨rm, h1, _, h3⟩ := retractCheckLoop_spec (n := n) s _ order {} acc hacc
            split at hs
            · cases hs; exact ⟨hnb, Calm.nil⟩
            · obtain ⟨e1, e2⟩ := ok_pair hs
              rw [e1, e2]
              constructor
              · intro rq
                simp only [bcount]
                split
                · rfl
                · exact hnb rq
              · simp only [evsOuts, List.flatMap_cons, List.flatMap_nil, List.append_nil, evsOut]
                rw [h3]
                simp only [List.flatMap_nil, List.nil_append]
                intro e he
                obtain ⟨_, rq, hrq⟩ := rc_events he
                exact (hrq (hnb rq)).elim
        · cases hs
  | newRq id mts =>
    simp only [Worker.step, newRq] at hs
    split at hs
    · cases hs; exact ⟨hnb, Calm.nil⟩
    · cases hs
  | stop =>
    simp only [Worker.step] at hs
    cases hs
    exact ⟨hnb, Calm.nil⟩

/-- `n` waits (exactly once) in a backlog, no item for `n` -/
theorem step_back_run {n : Nat} {s s' : Worker.State} {op : Worker.Op} {outs : List Worker.Out} (hb : Back s n)
    (hk : s.bkeys.Nodup) (hno : NoItem n op) (hs : Worker.step s op = .ok (s', outs)) : RunLast (evsOuts n outs) s' n := by
  have _ := hk
  cases op with
  | compute es =>
    simp only [Worker.step, compute] at hs
    split at hs
    · cases hs
    · rename_i a ha
      obtain ⟨e1, e2⟩ := ok_pair hs
      rw [e1, e2]
      obtain ⟨_, g2, _⟩ := computeEntries_grow (n := n) es ha
      rw [evsOuts_finish n a (fun o ho => by rcases g2 o ho with h | h; cases h; exact h)]
      exact (computeEntries_pt2 es hno (.inl ⟨rfl, hb⟩) ha).runLast
  | retract ids =>
    simp only [Worker.step] at hs
    obtain ⟨e1, e2⟩ := ok_pair hs
    rw [e1, e2]
    apply RunLast.of_no_run
    intro rv hm
    rcases retract_events n s ids with h | h <;> rw [h] at hm
    · cases hm
    · simp only [List.mem_singleton] at hm
      cases hm
  | cancel ids =>
    simp only [Worker.step, Except.ok.injEq] at hs
    obtain ⟨g1, _, _⟩ := cancel_hold n ids (s, [])
    have e2 : outs = (ids.foldl cancelOne (s, [])).2 := (congrArg Prod.snd hs).symm
    rw [e2, evsOuts_of_none fun o ho => by rcases g1 o ho with h | h; cases h; exact h]
    exact RunLast.nil _ _
  | taskEnd t res en =>
    simp only [Worker.step, taskEnd] at hs
    split at hs
    · cases hs
    · rename_i r hr
      have hrt : r.task.id = t := by simpa using List.find?_some hr
      have htn : t ≠ n := fun e => hb.1 ⟨r, List.mem_of_find?_eq_some hr, hrt.trans e⟩
      split at hs
      · cases hs
      · rename_i a used hpl
        have h0 : SameHold n s ({ s with running := s.running.filter (fun x => x.task.id != t) } : Worker.State) := by
          refine ⟨?_, fun _ => rfl⟩
          constructor
          · rintro ⟨x, hx, e⟩
            exact ⟨x, (List.mem_filter.mp hx).1, e⟩
          · rintro ⟨x, hx, e⟩
            exact (hb.1 ⟨x, hx, e⟩).elim
        have hE1 : EA n ({ s := { s with running := s.running.filter (fun x => x.task.id != t) }, upd := resultUpdates t res } : Acc) = [] := by
          cases res <;> simp [EA, resultUpdates, evsW, htn]
        have hpt := prefillLoop_pt2 (n := n)
          (a := { s := { s with running := s.running.filter (fun x => x.task.id != t) }, upd := resultUpdates t res })
          _ rfl (.inl ⟨hE1, h0.back hb⟩) hpl
        obtain ⟨_, g2, _⟩ := prefillLoop_grow (n := n) _ hpl
        have hev : ∀ o ∈ a.ev, outMsg o = none := fun o ho => by rcases g2 o ho with h | h; cases h; exact h
        split at hs
        · split at hs
          · obtain ⟨e1, e2⟩ := ok_pair hs
            rw [e1, e2]
            have hrl : RunLast (EA n a) (finish { a with
                s := { a.s with blocked := a.s.blocked.filter (fun k => k ∉ (en.filter (·.2)).map (·.1)) },
                upd := a.upd ++ ((en.filter (·.2)).map (·.1)).map (fun k => .enable k.1 k.2) }).1 n := hpt.runLast
            refine (congrArg (fun P => RunLast P _ n) ((evsOuts_finish n _ ?_).trans ?_)).mpr hrl
            · exact hev
            · simp only [EA, List.flatMap_append, enable_events, List.append_nil]
          · cases hs
        · obtain ⟨e1, e2⟩ := ok_pair hs
          rw [e1, e2, evsOuts_finish n a hev]
          exact hpt.runLast
  | timeoutFire t =>
    simp only [Worker.step, timeoutFire] at hs
    split at hs
    · cases hs
    · split at hs
      · cases hs
      · obtain ⟨e1, e2⟩ := ok_pair hs
        rw [e1, e2, evsOuts_of_none]
        · exact RunLast.nil _ _
        · intro o ho
          split at ho
          · cases ho
          · simp only [List.mem_singleton] at ho; subst ho; rfl
  | retractCheck order =>
    simp only [Worker.step, retractCheck] at hs
    split at hs
    · cases hs; exact RunLast.nil _ _
    · split at hs
      · cases hs; exact RunLast.nil _ _
      · split at hs
        · split at hs
          · cases hs
          · rename_i acc hacc
            obtain ⟨rm, _, _, h3⟩ := retractCheckLoop_spec (n := n) s _ order {} acc hacc
            split at hs
            · cases hs; exact RunLast.nil _ _
            · obtain ⟨e1, e2⟩ := ok_pair hs
              rw [e1, e2]
              apply RunLast.of_no_run
              intro rv hm
              simp only [evsOuts, List.flatMap_cons, List.flatMap_nil, List.append_nil, evsOut] at hm
              rw [h3] at hm
              simp only [List.flatMap_nil, List.nil_append] at hm
              obtain ⟨h, _⟩ := rc_events hm
              cases h
        · cases hs
  | newRq id mts =>
    simp only [Worker.step, newRq] at hs
    split at hs
    · cases hs; exact RunLast.nil _ _
    · cases hs
  | stop =>
    simp only [Worker.step] at hs
    cases hs
    exact RunLast.nil _ _

end HqModel.SysW.NPP
