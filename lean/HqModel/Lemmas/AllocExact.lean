import HqModel.Lemmas.AllocShape
import HqModel.Lemmas.AllocInv
/-!
What a successful `tryAllocate` returns, per request entry: exactly the requested amount, whole indices first, at
most one fractional entry and it is last.
-/
namespace HqModel.Alloc

/-- constructor tag of a pool (the kind never changes) -/
def Pool.tag : Pool → Nat
  | .empty => 0
  | .indices _ _ => 1
  | .groups _ _ => 2
  | .sum _ _ => 3

def Pool.ngroups (p : Pool) : Nat := p.groupsOf.length

/-- `ra` is an exact answer to entry `e` on a pool with tag `tag` and size `full` -/
def ExactFor (tag full : Nat) (e : Entry) (ra : RAlloc) : Prop :=
  ra.rid = e.rid ∧ ra.amount = e.amountOr full ∧
    ((tag = 3 ∧ ra.indices = []) ∨
     (tag = 1 ∧ Shape ra.amount ra.indices) ∨
     (tag = 2 ∧ e.policy ≠ .all ∧ Shape ra.amount ra.indices) ∨
     (tag = 2 ∧ e.policy = .all ∧ WholeOnly ra.indices))

theorem claimAllAux_whole (gid : Nat) (gs : List Group) : WholeOnly (claimAllAux gid gs).2 := by
  induction gs generalizing gid with
  | nil => exact WholeOnly.nil
  | cons g rest ih =>
    simp only [claimAllAux]
    apply WholeOnly.append
    · intro e he
      simp only [List.mem_map] at he
      obtain ⟨i, -, rfl⟩ := he
      rfl
    · exact ih (gid + 1)

theorem Pool.claim_exact {p p' : Pool} {e : Entry} {pick : Option Nat} {ra : RAlloc}
    (h : p.claim e pick = .ok (p', ra)) :
    ExactFor p.tag p.fullSize e ra ∧ p'.tag = p.tag ∧ p'.fullSize = p.fullSize ∧ p'.ngroups = p.ngroups := by
  cases p with
  | empty => simp [Pool.claim] at h
  | indices full g =>
    simp only [Pool.claim] at h
    split at h
    · cases h
    · rename_i g1 acc1 h1
      split at h
      · cases h
      · rename_i g2 acc2 h2
        simp only [Except.ok.injEq, Prod.mk.injEq] at h
        obtain ⟨rfl, rfl⟩ := h
        refine ⟨⟨rfl, rfl, .inr (.inl ⟨rfl, ?_⟩)⟩, rfl, rfl, rfl⟩
        obtain ⟨ws, hw, hl, hacc1, -, -⟩ := takeIndices_shape h1
        rcases takeFracOrSplit_shape h2 with ⟨h0, hacc2, -⟩ | ⟨hne, f, hf, -, hacc2⟩
        · exact ⟨ws, hw, hl, .inl ⟨h0, by simp [hacc2, hacc1]⟩⟩
        · exact ⟨ws, hw, hl, .inr ⟨f, hf, hne, by simp [hacc2, hacc1]⟩⟩
  | groups full gs =>
    simp only [Pool.claim] at h
    split at h
    · cases h
    · cases h
    · cases h
    · cases h
    · rename_i hpol
      split at h
      · cases h
      · rename_i gs' acc hc
        simp only [Except.ok.injEq, Prod.mk.injEq] at h
        obtain ⟨rfl, rfl⟩ := h
        refine ⟨⟨rfl, by simp [Entry.amountOr, hpol], .inr (.inr (.inl ⟨rfl, by simp [hpol], claimScatter_shape hc⟩))⟩,
          rfl, rfl, (claimScatter_claims hc).length_eq⟩
    · rename_i hpol
      simp only [Except.ok.injEq, Prod.mk.injEq] at h
      obtain ⟨rfl, rfl⟩ := h
      have hlen : (claimAllAux 0 gs).1.length = gs.length := by
        have c := claimAllAux_claims [] gs []
        simpa using c.length_eq
      refine ⟨⟨rfl, by simp [Entry.amountOr, hpol, Pool.fullSize], .inr (.inr (.inr ⟨rfl, hpol, claimAllAux_whole 0 gs⟩))⟩,
        rfl, rfl, hlen⟩
  | sum full free =>
    simp only [Pool.claim] at h
    split at h
    · cases h
    · simp only [Except.ok.injEq, Prod.mk.injEq] at h
      obtain ⟨rfl, rfl⟩ := h
      exact ⟨⟨rfl, rfl, .inl ⟨rfl, rfl⟩⟩, rfl, rfl, rfl⟩

theorem Pool.claimWithMask_exact {p p' : Pool} {e : Entry} {set : List Nat} {pick : Option Nat} {ra : RAlloc}
    (h : p.claimWithMask e set pick = .ok (p', ra)) :
    ExactFor p.tag p.fullSize e ra ∧ p'.tag = p.tag ∧ p'.fullSize = p.fullSize ∧ p'.ngroups = p.ngroups := by
  cases p with
  | groups full gs =>
    simp only [Pool.claimWithMask] at h
    split at h
    · rename_i hpol
      split at h
      · cases h
      · rename_i gs' acc hc
        simp only [Except.ok.injEq, Prod.mk.injEq] at h
        obtain ⟨rfl, rfl⟩ := h
        exact ⟨⟨rfl, by simp [Entry.amountOr, hpol], .inr (.inr (.inl ⟨rfl, by simp [hpol], claimScatter_shape hc⟩))⟩,
          rfl, rfl, (claimScatter_claims hc).length_eq⟩
    · rename_i hpol
      split at h
      · cases h
      · rename_i gs' acc hc
        simp only [Except.ok.injEq, Prod.mk.injEq] at h
        obtain ⟨rfl, rfl⟩ := h
        exact ⟨⟨rfl, by simp [Entry.amountOr, hpol], .inr (.inr (.inl ⟨rfl, by simp [hpol], claimScatter_shape hc⟩))⟩,
          rfl, rfl, (claimScatter_claims hc).length_eq⟩
    · rename_i hpol
      split at h
      · cases h
      · rename_i gs' acc hc
        simp only [Except.ok.injEq, Prod.mk.injEq] at h
        obtain ⟨rfl, rfl⟩ := h
        exact ⟨⟨rfl, by simp [Entry.amountOr, hpol], .inr (.inr (.inl ⟨rfl, by simp [hpol], claimTight_shape hc⟩))⟩,
          rfl, rfl, (claimTight_claims hc).length_eq⟩
    · rename_i hpol
      split at h
      · cases h
      · rename_i gs' acc hc
        simp only [Except.ok.injEq, Prod.mk.injEq] at h
        obtain ⟨rfl, rfl⟩ := h
        exact ⟨⟨rfl, by simp [Entry.amountOr, hpol], .inr (.inr (.inl ⟨rfl, by simp [hpol], claimTight_shape hc⟩))⟩,
          rfl, rfl, (claimTight_claims hc).length_eq⟩
    · cases h
    · cases h
  | empty => simp [Pool.claimWithMask] at h
  | indices _ _ => simp [Pool.claimWithMask] at h
  | sum _ _ => simp [Pool.claimWithMask] at h

/-- pool vectors with the same kinds and sizes -/
def SameKinds (a b : List Pool) : Prop :=
  a.length = b.length ∧ ∀ (rid : Nat) (p q : Pool), a[rid]? = some p → b[rid]? = some q →
    q.tag = p.tag ∧ q.fullSize = p.fullSize ∧ q.ngroups = p.ngroups

theorem SameKinds.refl (a : List Pool) : SameKinds a a :=
  ⟨rfl, fun _ p q hp hq => by rw [hp] at hq; cases hq; exact ⟨rfl, rfl, rfl⟩⟩

theorem SameKinds.set {a b : List Pool} {rid : Nat} {p p' : Pool} (h : SameKinds a b) (hp : b[rid]? = some p)
    (ht : p'.tag = p.tag) (hf : p'.fullSize = p.fullSize) (hn : p'.ngroups = p.ngroups) :
    SameKinds a (b.set rid p') := by
  refine ⟨by simp [h.1], fun r x y hx hy => ?_⟩
  by_cases hr : r = rid
  · subst hr
    simp [lt_length_of_getElem? hp] at hy
    subst hy
    obtain ⟨t, f, n⟩ := h.2 r x p hx hp
    exact ⟨by rw [ht, t], by rw [hf, f], by rw [hn, n]⟩
  · rw [List.getElem?_set_ne (by omega)] at hy
    exact h.2 r x y hx hy

/-- every resource allocation of `al` answers some entry of `rq` exactly (w.r.t. the pools `pools₀`) -/
def AllExact (pools₀ : List Pool) (rq : Request) (al : Allocation) : Prop :=
  ∀ ra ∈ al, ∃ e ∈ rq, ∃ p, pools₀[e.rid]? = some p ∧ ExactFor p.tag p.fullSize e ra

theorem claimPlain_exact {pools₀ : List Pool} {picks : Choices} {pools pools' : List Pool} {rq rq₀ : Request}
    {al al' : Allocation} (h : claimPlain picks pools rq al = .ok (pools', al'))
    (hk : SameKinds pools₀ pools) (hsub : ∀ e ∈ rq, e ∈ rq₀) (hal : AllExact pools₀ rq₀ al) :
    SameKinds pools₀ pools' ∧ AllExact pools₀ rq₀ al' := by
  induction rq generalizing pools al with
  | nil =>
    simp only [claimPlain, Except.ok.injEq, Prod.mk.injEq] at h
    obtain ⟨rfl, rfl⟩ := h
    exact ⟨hk, hal⟩
  | cons e es ih =>
    have hsub' : ∀ e' ∈ es, e' ∈ rq₀ := fun e' he' => hsub e' (List.mem_cons_of_mem _ he')
    simp only [claimPlain] at h
    split at h
    · cases h
    · rename_i pool hp
      split at h
      · exact ih h hk hsub' hal
      · split at h
        · cases h
        · rename_i pool' ra hc
          obtain ⟨hex, ht, hf, hn⟩ := Pool.claim_exact hc
          refine ih h (hk.set hp ht hf hn) hsub' ?_
          intro ra' hra'
          rcases List.mem_append.mp hra' with hra' | hra'
          · exact hal ra' hra'
          · simp at hra'; subst hra'
            obtain ⟨p₀, hp₀⟩ : ∃ p₀, pools₀[e.rid]? = some p₀ := by
              have : e.rid < pools₀.length := by rw [hk.1]; exact lt_length_of_getElem? hp
              exact ⟨pools₀[e.rid], by simp [this]⟩
            obtain ⟨t, f, -⟩ := hk.2 e.rid p₀ pool hp₀ hp
            exact ⟨e, hsub e (by simp), p₀, hp₀, by rw [← t, ← f]; exact hex⟩

theorem claimCoupled_exact {pools₀ : List Pool} {picks : Choices} {pools pools' : List Pool} {es : List Entry}
    {rq₀ : Request} {sets : List (List Nat)} {al al' : Allocation}
    (h : claimCoupled picks pools es sets al = .ok (pools', al'))
    (hk : SameKinds pools₀ pools) (hsub : ∀ e ∈ es, e ∈ rq₀) (hal : AllExact pools₀ rq₀ al) :
    SameKinds pools₀ pools' ∧ AllExact pools₀ rq₀ al' := by
  induction es generalizing pools al sets with
  | nil =>
    simp only [claimCoupled, Except.ok.injEq, Prod.mk.injEq] at h
    obtain ⟨rfl, rfl⟩ := h
    exact ⟨hk, hal⟩
  | cons e es ih =>
    cases sets with
    | nil =>
      simp only [claimCoupled, Except.ok.injEq, Prod.mk.injEq] at h
      obtain ⟨rfl, rfl⟩ := h
      exact ⟨hk, hal⟩
    | cons set sets =>
      have hsub' : ∀ e' ∈ es, e' ∈ rq₀ := fun e' he' => hsub e' (List.mem_cons_of_mem _ he')
      simp only [claimCoupled] at h
      split at h
      · cases h
      · rename_i pool hp
        split at h
        · cases h
        · rename_i pool' ra hc
          obtain ⟨hex, ht, hf, hn⟩ := Pool.claimWithMask_exact hc
          refine ih h (hk.set hp ht hf hn) hsub' ?_
          intro ra' hra'
          rcases List.mem_append.mp hra' with hra' | hra'
          · exact hal ra' hra'
          · simp at hra'; subst hra'
            obtain ⟨p₀, hp₀⟩ : ∃ p₀, pools₀[e.rid]? = some p₀ := by
              have : e.rid < pools₀.length := by rw [hk.1]; exact lt_length_of_getElem? hp
              exact ⟨pools₀[e.rid], by simp [this]⟩
            obtain ⟨t, f, -⟩ := hk.2 e.rid p₀ pool hp₀ hp
            exact ⟨e, hsub e (by simp), p₀, hp₀, by rw [← t, ← f]; exact hex⟩

theorem normalize_perm' (al : Allocation) : (normalize al).Perm al := by
  induction al with
  | nil => exact .refl _
  | cons x xs ih =>
    show (insertRa x (normalize xs)).Perm (x :: xs)
    have hins : ∀ l : Allocation, (insertRa x l).Perm (x :: l) := by
      intro l
      induction l with
      | nil => exact .refl _
      | cons y ys ih' =>
        simp only [insertRa]
        split
        · exact .refl _
        · exact (List.Perm.cons y ih').trans (List.Perm.swap x y ys)
    exact (hins _).trans (List.Perm.cons x ih)

/-- **exactness of a grant** -/
theorem tryAllocate_exact {s s' : State} {h : Nat} {rq : Request} {ch : Choices} {al : Allocation}
    (hstep : tryAllocate s h rq ch = .ok (some al, s')) :
    AllExact s.pools rq al ∧ SameKinds s.pools s'.pools := by
  unfold tryAllocate at hstep
  split at hstep
  · cases hstep
  · cases hstep
  · cases hstep
  · split at hstep
    · cases hstep
    · cases hstep
    · rename_i pools al' hcl
      split at hstep
      · cases hstep
      · simp only [Except.ok.injEq, Prod.mk.injEq, Option.some.injEq] at hstep
        obtain ⟨rfl, rfl⟩ := hstep
        unfold claimResources at hcl
        split at hcl
        · cases hcl
        · rename_i pools1 al1 h1
          obtain ⟨k1, e1⟩ := claimPlain_exact (pools₀ := s.pools) (rq₀ := rq) h1 (SameKinds.refl _)
            (fun _ h => h) (by intro ra hra; cases hra)
          dsimp only at hcl
          by_cases hce : (coupledEntries s.pools rq).isEmpty = true
          · rw [if_pos hce] at hcl
            simp only [Except.ok.injEq, Prod.mk.injEq] at hcl
            obtain ⟨rfl, rfl, -⟩ := hcl
            exact ⟨e1, k1⟩
          · rw [if_neg hce] at hcl
            split at hcl
            · cases hcl
            · split at hcl
              · cases hcl
              · cases hcl
              · split at hcl
                · cases hcl
                · rename_i pools2 al2 h2
                  simp only [Except.ok.injEq, Prod.mk.injEq] at hcl
                  obtain ⟨rfl, rfl, -⟩ := hcl
                  have hsub : ∀ e ∈ coupledEntries s.pools rq, e ∈ rq := by
                    intro e he
                    exact (List.mem_filter.mp he).1
                  obtain ⟨k2, e2⟩ := claimCoupled_exact (rq₀ := rq) h2 k1 hsub e1
                  exact ⟨fun ra hra => e2 ra ((normalize_perm' al2).mem_iff.mp hra), k2⟩

end HqModel.Alloc
