import HqModel.Lemmas.AllocClaim
import HqModel.Lemmas.AllocRelease
/-!
The conservation invariant of the whole allocator (`Inv`) and its preservation by `tryAllocate` (for every choice
the model accepts), `isEnabled` and `release`; `release` of a live allocation never panics.
-/
namespace HqModel.Alloc

def Pool.groupsOf : Pool → List Group
  | .indices _ g => [g]
  | .groups _ gs => gs
  | _ => []

/-- entries of an allocation on resource `rid` -/
def raEntries (rid : Nat) (al : Allocation) : List AIdx :=
  al.flatMap (fun ra => if ra.rid = rid then ra.indices else [])

/-- amount an allocation holds of resource `rid` -/
def raAmount (rid : Nat) (al : Allocation) : Nat :=
  (al.map (fun ra => if ra.rid = rid then ra.amount else 0)).sum

def heldOf (live : List (Nat × Allocation)) (rid : Nat) : List AIdx := live.flatMap (fun x => raEntries rid x.2)

def heldAmount (live : List (Nat × Allocation)) (rid : Nat) : Nat := (live.map (fun x => raAmount rid x.2)).sum

/-- conservation for all pools w.r.t. held entries `H rid` and held amounts `A rid` -/
structure PoolsInv (U : Nat → Nat → List Nat) (pools : List Pool) (H : Nat → List AIdx) (A : Nat → Nat) : Prop where
  pool : ∀ (rid : Nat) (p : Pool), pools[rid]? = some p → PoolInv p.groupsOf (U rid) (H rid)
  sum : ∀ (rid full free : Nat), pools[rid]? = some (.sum full free) → free + A rid = full

/-- **Conserve** (C04): `U rid gid` are the indices group `gid` of resource `rid` was created with. -/
structure Inv (U : Nat → Nat → List Nat) (s : State) : Prop where
  pools : PoolsInv U s.pools (heldOf s.live) (heldAmount s.live)
  rids : ∀ x ∈ s.live, ∀ ra ∈ x.2, ∃ p, s.pools[ra.rid]? = some p ∧ p ≠ .empty

theorem PoolsInv.congr {U pools H H' A A'} (h : PoolsInv U pools H A) (hH : ∀ r, (H r).Perm (H' r))
    (hA : ∀ r, A r = A' r) : PoolsInv U pools H' A' where
  pool := fun rid p hp => (h.pool rid p hp).perm (hH rid)
  sum := fun rid full free hp => by rw [← hA]; exact h.sum rid full free hp

@[simp] theorem raEntries_nil (rid : Nat) : raEntries rid [] = [] := rfl
@[simp] theorem raAmount_nil (rid : Nat) : raAmount rid [] = 0 := rfl

theorem raEntries_cons (rid : Nat) (ra : RAlloc) (al : Allocation) :
    raEntries rid (ra :: al) = (if ra.rid = rid then ra.indices else []) ++ raEntries rid al := by
  simp [raEntries]

theorem raAmount_cons (rid : Nat) (ra : RAlloc) (al : Allocation) :
    raAmount rid (ra :: al) = (if ra.rid = rid then ra.amount else 0) + raAmount rid al := by
  simp [raAmount]

theorem raEntries_append (rid : Nat) (al₁ al₂ : Allocation) :
    raEntries rid (al₁ ++ al₂) = raEntries rid al₁ ++ raEntries rid al₂ := by
  simp [raEntries]

theorem raAmount_append (rid : Nat) (al₁ al₂ : Allocation) :
    raAmount rid (al₁ ++ al₂) = raAmount rid al₁ + raAmount rid al₂ := by
  simp [raAmount, List.sum_append]

theorem raEntries_perm {al₁ al₂ : Allocation} (p : al₁.Perm al₂) (rid : Nat) :
    (raEntries rid al₁).Perm (raEntries rid al₂) := by
  unfold raEntries
  exact p.flatMap_right _

theorem raAmount_perm {al₁ al₂ : Allocation} (p : al₁.Perm al₂) (rid : Nat) : raAmount rid al₁ = raAmount rid al₂ := by
  unfold raAmount
  exact (p.map _).sum_nat

/-! ### one pool -/

theorem Pool.claim_inv {p p' : Pool} {e : Entry} {pick : Option Nat} {ra : RAlloc} {U : Nat → List Nat}
    {H : List AIdx} (h : p.claim e pick = .ok (p', ra)) (hinv : PoolInv p.groupsOf U H) :
    ra.rid = e.rid ∧ PoolInv p'.groupsOf U (H ++ ra.indices) ∧ p' ≠ .empty ∧
      (∀ full free', p' = .sum full free' → ∃ free, p = .sum full free ∧ free' + ra.amount = free) := by
  have hinv0 : PoolInv p.groupsOf U (H ++ []) := by simpa using hinv
  cases p with
  | empty => simp [Pool.claim] at h
  | indices full g =>
    simp only [Pool.claim] at h
    split at h
    · cases h
    · rename_i g1 acc1 h1
      split at h
      · cases h
      · rename_i g2 acc2 h2
        simp only [Except.ok.injEq, Prod.mk.injEq] at h
        obtain ⟨rfl, rfl⟩ := h
        obtain ⟨c1, -⟩ := takeIndices_claims (gs := [g]) h1 rfl
        have c2 := takeFracOrSplit_claims (gs := [g1]) h2 rfl (Nat.mod_lt _ FPU_pos)
        have c : Claims [g] [] [g2] acc2 := by
          simp only [List.set_cons_zero] at c1 c2
          exact c1.trans c2
        exact ⟨rfl, c.inv hinv0, by simp, by simp⟩
  | groups full gs =>
    simp only [Pool.claim] at h
    split at h
    · cases h
    · cases h
    · cases h
    · cases h
    · split at h
      · cases h
      · rename_i gs' acc hc
        simp only [Except.ok.injEq, Prod.mk.injEq] at h
        obtain ⟨rfl, rfl⟩ := h
        exact ⟨rfl, (claimScatter_claims hc).inv hinv0, by simp, by simp⟩
    · simp only [Except.ok.injEq, Prod.mk.injEq] at h
      obtain ⟨rfl, rfl⟩ := h
      have c := claimAllAux_claims [] gs []
      simp only [List.nil_append, List.length_nil] at c
      exact ⟨rfl, c.inv hinv0, by simp, by simp⟩
  | sum full free =>
    simp only [Pool.claim] at h
    split at h
    · cases h
    · rename_i hle
      simp only [Except.ok.injEq, Prod.mk.injEq] at h
      obtain ⟨rfl, rfl⟩ := h
      refine ⟨rfl, by simpa [Pool.groupsOf] using hinv, by simp, ?_⟩
      intro full' free' heq
      simp only [Pool.sum.injEq] at heq
      obtain ⟨rfl, rfl⟩ := heq
      exact ⟨free, rfl, by show free - e.amountOr full + e.amountOr full = free; omega⟩

theorem Pool.claimWithMask_inv {p p' : Pool} {e : Entry} {set : List Nat} {pick : Option Nat} {ra : RAlloc}
    {U : Nat → List Nat} {H : List AIdx} (h : p.claimWithMask e set pick = .ok (p', ra))
    (hinv : PoolInv p.groupsOf U H) :
    ra.rid = e.rid ∧ PoolInv p'.groupsOf U (H ++ ra.indices) ∧ p' ≠ .empty ∧
      (∀ full free', p' = .sum full free' → ∃ free, p = .sum full free ∧ free' + ra.amount = free) := by
  have hinv0 : PoolInv p.groupsOf U (H ++ []) := by simpa using hinv
  cases p with
  | groups full gs =>
    simp only [Pool.claimWithMask] at h
    split at h
    · split at h
      · cases h
      · rename_i gs' acc hc
        simp only [Except.ok.injEq, Prod.mk.injEq] at h
        obtain ⟨rfl, rfl⟩ := h
        exact ⟨rfl, (claimScatter_claims hc).inv hinv0, by simp, by simp⟩
    · split at h
      · cases h
      · rename_i gs' acc hc
        simp only [Except.ok.injEq, Prod.mk.injEq] at h
        obtain ⟨rfl, rfl⟩ := h
        exact ⟨rfl, (claimScatter_claims hc).inv hinv0, by simp, by simp⟩
    · split at h
      · cases h
      · rename_i gs' acc hc
        simp only [Except.ok.injEq, Prod.mk.injEq] at h
        obtain ⟨rfl, rfl⟩ := h
        exact ⟨rfl, (claimTight_claims hc).inv hinv0, by simp, by simp⟩
    · split at h
      · cases h
      · rename_i gs' acc hc
        simp only [Except.ok.injEq, Prod.mk.injEq] at h
        obtain ⟨rfl, rfl⟩ := h
        exact ⟨rfl, (claimTight_claims hc).inv hinv0, by simp, by simp⟩
    · cases h
    · cases h
  | empty => simp [Pool.claimWithMask] at h
  | indices _ _ => simp [Pool.claimWithMask] at h
  | sum _ _ => simp [Pool.claimWithMask] at h

/-- releasing a held resource allocation: no panic, invariant with the entries removed -/
theorem Pool.release_inv {p : Pool} {ra : RAlloc} {U : Nat → List Nat} {O : List AIdx} {A : Nat}
    (hne : p ≠ .empty) (hinv : PoolInv p.groupsOf U (ra.indices ++ O))
    (hsum : ∀ full free, p = .sum full free → free + (ra.amount + A) = full) :
    ∃ p', p.release ra = .ok p' ∧ PoolInv p'.groupsOf U O ∧ p' ≠ .empty ∧
      (∀ full free', p' = .sum full free' → free' + A = full) := by
  have hperm : (ra.indices ++ O).Perm (ra.indices.reverse ++ O) :=
    List.Perm.append_right _ (List.reverse_perm _).symm
  cases p with
  | empty => exact absurd rfl hne
  | indices full g =>
    have hall : ra.indices.any (fun e => decide (e.group ≠ 0)) = false := by
      rw [List.any_eq_false]
      intro e he
      have := (hinv.keys e (List.mem_append_left _ he)).1
      simp [Pool.groupsOf] at this
      simp [this]
    obtain ⟨gs', hrel, inv', len'⟩ := releaseList_inv (hinv.perm hperm)
    simp only [Pool.groupsOf, List.length_cons, List.length_nil] at len'
    obtain ⟨g', rfl⟩ : ∃ g', gs' = [g'] := by
      match gs', len' with
      | [g'], _ => exact ⟨g', rfl⟩
    refine ⟨.indices full g', ?_, inv', by simp, by simp⟩
    simp only [Pool.release, hall, Pool.groupsOf] at hrel ⊢
    simp [hrel]
  | groups full gs =>
    obtain ⟨gs', hrel, inv', -⟩ := releaseList_inv (hinv.perm hperm)
    refine ⟨.groups full gs', ?_, inv', by simp, by simp⟩
    simp only [Pool.groupsOf] at hrel
    simp [Pool.release, hrel]
  | sum full free =>
    have hs := hsum full free rfl
    have hidx : ra.indices = [] := by
      match hra : ra.indices with
      | [] => rfl
      | e :: es =>
        have := (hinv.keys e (by rw [hra]; simp)).1
        simp [Pool.groupsOf] at this
    have hO : PoolInv ([] : List Group) U O := by
      have := hinv
      rw [hidx] at this
      simpa [Pool.groupsOf] using this
    refine ⟨.sum full (free + ra.amount), ?_, hO, by simp, ?_⟩
    · have h1 : ¬ full < free + ra.amount := by omega
      simp [Pool.release, h1, hidx]
    · intro full' free' heq
      simp only [Pool.sum.injEq] at heq
      obtain ⟨rfl, rfl⟩ := heq
      omega

/-! ### all pools -/

theorem PoolsInv.set {U pools H A} {rid : Nat} {p p' : Pool} {H' : Nat → List AIdx} {A' : Nat → Nat}
    (h : PoolsInv U pools H A) (hp : pools[rid]? = some p)
    (hpool : PoolInv p'.groupsOf (U rid) (H' rid))
    (hsum : ∀ full free', p' = .sum full free' → free' + A' rid = full)
    (hH : ∀ r, r ≠ rid → H' r = H r) (hA : ∀ r, r ≠ rid → A' r = A r) :
    PoolsInv U (pools.set rid p') H' A' where
  pool := by
    intro r q hq
    by_cases hr : r = rid
    · subst hr
      simp [lt_length_of_getElem? hp] at hq
      subst hq
      exact hpool
    · rw [List.getElem?_set_ne (by omega)] at hq
      rw [hH r hr]
      exact h.pool r q hq
  sum := by
    intro r full free hq
    by_cases hr : r = rid
    · subst hr
      simp [lt_length_of_getElem? hp] at hq
      exact hsum full free hq
    · rw [List.getElem?_set_ne (by omega)] at hq
      rw [hA r hr]
      exact h.sum r full free hq

/-- "every pool of `pools'` that exists/non-empty in `pools` still does" -/
def PoolsLe (pools pools' : List Pool) : Prop :=
  ∀ (rid : Nat) (p : Pool), pools[rid]? = some p → p ≠ .empty → ∃ p' : Pool, pools'[rid]? = some p' ∧ p' ≠ .empty

theorem PoolsLe.refl (pools : List Pool) : PoolsLe pools pools := fun _ p hp hne => ⟨p, hp, hne⟩

theorem PoolsLe.trans {a b c : List Pool} (h₁ : PoolsLe a b) (h₂ : PoolsLe b c) : PoolsLe a c := by
  intro rid p hp hne
  obtain ⟨p', hp', hne'⟩ := h₁ rid p hp hne
  exact h₂ rid p' hp' hne'

theorem PoolsLe.set {pools : List Pool} {rid : Nat} {p' : Pool} (hne : p' ≠ .empty) :
    PoolsLe pools (pools.set rid p') := by
  intro r p hp hnep
  by_cases hr : r = rid
  · subst hr
    exact ⟨p', by simp [lt_length_of_getElem? hp], hne⟩
  · exact ⟨p, by rw [List.getElem?_set_ne (by omega)]; exact hp, hnep⟩

/-- shape of the invariant while an allocation `al` is being built on top of held `H`, `A` -/
abbrev Building (U : Nat → Nat → List Nat) (pools : List Pool) (H : Nat → List AIdx) (A : Nat → Nat)
    (al : Allocation) : Prop :=
  PoolsInv U pools (fun r => H r ++ raEntries r al) (fun r => A r + raAmount r al) ∧
    ∀ ra ∈ al, ∃ p, pools[ra.rid]? = some p ∧ p ≠ .empty

theorem building_step {U pools H A al} {rid : Nat} {p p' : Pool} {ra : RAlloc}
    (hb : Building U pools H A al) (hp : pools[rid]? = some p) (hrid : ra.rid = rid)
    (hpool : PoolInv p'.groupsOf (U rid) ((H rid ++ raEntries rid al) ++ ra.indices))
    (hne : p' ≠ .empty)
    (hsum : ∀ full free', p' = .sum full free' → ∃ free, p = .sum full free ∧ free' + ra.amount = free) :
    Building U (pools.set rid p') H A (al ++ [ra]) := by
  refine ⟨?_, ?_⟩
  · refine hb.1.set hp ?_ ?_ ?_ ?_
    · simp only [raEntries_append, raEntries_cons, hrid, if_true, raEntries_nil, List.append_nil]
      simpa [List.append_assoc] using hpool
    · intro full free' heq
      obtain ⟨free, hpf, hfree⟩ := hsum full free' heq
      have := hb.1.sum rid full free (hpf ▸ hp)
      simp only [raAmount_append, raAmount_cons, hrid, if_true, raAmount_nil] at this ⊢
      omega
    · intro r hr
      have : ¬ ra.rid = r := fun h => hr (by rw [← h, hrid])
      simp [raEntries_append, raEntries_cons, this]
    · intro r hr
      have : ¬ ra.rid = r := fun h => hr (by rw [← h, hrid])
      simp [raAmount_append, raAmount_cons, this]
  · intro ra' hra'
    rcases List.mem_append.mp hra' with h | h
    · obtain ⟨q, hq, hqne⟩ := hb.2 ra' h
      exact PoolsLe.set hne _ q hq hqne
    · simp at h; subst h
      exact ⟨p', by rw [hrid]; simp [lt_length_of_getElem? hp], hne⟩

theorem claimPlain_inv {U H A} {picks : Choices} {pools pools' : List Pool} {rq : Request} {al al' : Allocation}
    (h : claimPlain picks pools rq al = .ok (pools', al')) (hb : Building U pools H A al) :
    Building U pools' H A al' ∧ PoolsLe pools pools' := by
  induction rq generalizing pools al with
  | nil =>
    simp only [claimPlain, Except.ok.injEq, Prod.mk.injEq] at h
    obtain ⟨rfl, rfl⟩ := h
    exact ⟨hb, PoolsLe.refl _⟩
  | cons e es ih =>
    simp only [claimPlain] at h
    split at h
    · cases h
    · rename_i pool hp
      split at h
      · exact ih h hb
      · split at h
        · cases h
        · rename_i pool' ra hc
          obtain ⟨hrid, hpool, hne, hsum⟩ := Pool.claim_inv hc (hb.1.pool e.rid pool hp)
          have hb' := building_step hb hp hrid hpool hne hsum
          obtain ⟨r1, r2⟩ := ih h hb'
          exact ⟨r1, (PoolsLe.set hne).trans r2⟩

theorem claimCoupled_inv {U H A} {picks : Choices} {pools pools' : List Pool} {es : List Entry}
    {sets : List (List Nat)} {al al' : Allocation}
    (h : claimCoupled picks pools es sets al = .ok (pools', al')) (hb : Building U pools H A al) :
    Building U pools' H A al' ∧ PoolsLe pools pools' := by
  induction es generalizing pools al sets with
  | nil =>
    simp only [claimCoupled, Except.ok.injEq, Prod.mk.injEq] at h
    obtain ⟨rfl, rfl⟩ := h
    exact ⟨hb, PoolsLe.refl _⟩
  | cons e es ih =>
    cases sets with
    | nil =>
      simp only [claimCoupled, Except.ok.injEq, Prod.mk.injEq] at h
      obtain ⟨rfl, rfl⟩ := h
      exact ⟨hb, PoolsLe.refl _⟩
    | cons set sets =>
      simp only [claimCoupled] at h
      split at h
      · cases h
      · rename_i pool hp
        split at h
        · cases h
        · rename_i pool' ra hc
          obtain ⟨hrid, hpool, hne, hsum⟩ := Pool.claimWithMask_inv hc (hb.1.pool e.rid pool hp)
          have hb' := building_step hb hp hrid hpool hne hsum
          obtain ⟨r1, r2⟩ := ih h hb'
          exact ⟨r1, (PoolsLe.set hne).trans r2⟩

theorem insertRa_perm (x : RAlloc) (l : Allocation) : (insertRa x l).Perm (x :: l) := by
  induction l with
  | nil => exact .refl _
  | cons y ys ih =>
    simp only [insertRa]
    split
    · exact .refl _
    · exact (List.Perm.cons y ih).trans (List.Perm.swap x y ys)

theorem normalize_perm (al : Allocation) : (normalize al).Perm al := by
  induction al with
  | nil => exact .refl _
  | cons x xs ih =>
    show (insertRa x (normalize xs)).Perm (x :: xs)
    exact (insertRa_perm x _).trans (List.Perm.cons x ih)

theorem claimResources_inv {U} {s : State} {rq : Request} {ch : Choices} {sols sols' : List (Option SolRec)}
    {pools' : List Pool} {al : Allocation} {H A}
    (h : claimResources s rq ch sols = .ok (pools', al, sols')) (hinv : PoolsInv U s.pools H A) :
    Building U pools' H A al ∧ PoolsLe s.pools pools' := by
  have hb0 : Building U s.pools H A [] := by
    refine ⟨hinv.congr (fun r => by simp) (fun r => by simp), by simp⟩
  unfold claimResources at h
  split at h
  · cases h
  · rename_i pools1 al1 h1
    obtain ⟨hb1, le1⟩ := claimPlain_inv h1 hb0
    dsimp only at h
    by_cases hce : (coupledEntries s.pools rq).isEmpty = true
    · rw [if_pos hce] at h
      simp only [Except.ok.injEq, Prod.mk.injEq] at h
      obtain ⟨rfl, rfl, -⟩ := h
      exact ⟨hb1, le1⟩
    · rw [if_neg hce] at h
      split at h
      · cases h
      · split at h
        · cases h
        · cases h
        · rename_i sol _
          split at h
          · cases h
          · rename_i pools2 al2 h2
            simp only [Except.ok.injEq, Prod.mk.injEq] at h
            obtain ⟨rfl, rfl, -⟩ := h
            obtain ⟨hb2, le2⟩ := claimCoupled_inv h2 hb1
            refine ⟨⟨hb2.1.congr (fun r => List.Perm.append_left _ (raEntries_perm (normalize_perm al2).symm r))
              (fun r => by rw [raAmount_perm (normalize_perm al2) r]), ?_⟩, le1.trans le2⟩
            intro ra hra
            exact hb2.2 ra ((normalize_perm al2).mem_iff.mp hra)

/-! ### the operations -/

theorem heldOf_cons (h : Nat) (al : Allocation) (live : List (Nat × Allocation)) (rid : Nat) :
    heldOf ((h, al) :: live) rid = raEntries rid al ++ heldOf live rid := by
  simp [heldOf]

theorem heldAmount_cons (h : Nat) (al : Allocation) (live : List (Nat × Allocation)) (rid : Nat) :
    heldAmount ((h, al) :: live) rid = raAmount rid al + heldAmount live rid := by
  simp [heldAmount]

/-- `tryAllocate` preserves **Conserve**, whatever choices are supplied. -/
theorem tryAllocate_inv {U} {s s' : State} {h : Nat} {rq : Request} {ch : Choices} {r : Option Allocation}
    (hinv : Inv U s) (hstep : tryAllocate s h rq ch = .ok (r, s')) : Inv U s' := by
  unfold tryAllocate at hstep
  split at hstep
  · cases hstep
  · simp only [Except.ok.injEq, Prod.mk.injEq] at hstep
    obtain ⟨-, rfl⟩ := hstep
    exact ⟨hinv.pools, hinv.rids⟩
  · cases hstep
  · split at hstep
    · cases hstep
    · cases hstep
    · rename_i pools al hcl
      split at hstep
      · cases hstep
      · simp only [Except.ok.injEq, Prod.mk.injEq] at hstep
        obtain ⟨-, rfl⟩ := hstep
        obtain ⟨hb, le⟩ := claimResources_inv hcl hinv.pools
        refine ⟨?_, ?_⟩
        · refine hb.1.congr (fun r => ?_) (fun r => ?_)
          · show (heldOf s.live r ++ raEntries r al).Perm (heldOf ((h, al) :: s.live) r)
            rw [heldOf_cons]
            exact List.perm_append_comm
          · show heldAmount s.live r + raAmount r al = heldAmount ((h, al) :: s.live) r
            rw [heldAmount_cons]; omega
        · intro x hx ra hra
          rcases List.mem_cons.mp hx with rfl | hx
          · exact hb.2 ra hra
          · obtain ⟨p, hp, hne⟩ := hinv.rids x hx ra hra
            exact le _ p hp hne

theorem isEnabled_inv {U} {s s' : State} {rq : Request} {ch : Choices} {b : Bool}
    (hinv : Inv U s) (hstep : isEnabled s rq ch = .ok (b, s')) : Inv U s' := by
  unfold isEnabled at hstep
  split at hstep
  · cases hstep
  · simp only [Except.ok.injEq, Prod.mk.injEq] at hstep
    obtain ⟨-, rfl⟩ := hstep
    exact ⟨hinv.pools, hinv.rids⟩
  · cases hstep

theorem liveGet_mem {live : List (Nat × Allocation)} {h : Nat} {al : Allocation} (hg : liveGet live h = some al) :
    (h, al) ∈ live := by
  induction live with
  | nil => simp [liveGet] at hg
  | cons x xs ih =>
    obtain ⟨k, v⟩ := x
    simp only [liveGet] at hg
    split at hg
    · rename_i hk; cases hg; subst hk; simp
    · exact List.mem_cons_of_mem _ (ih hg)

theorem liveErase_perm {live : List (Nat × Allocation)} {h : Nat} {al : Allocation}
    (hg : liveGet live h = some al) : live.Perm ((h, al) :: liveErase live h) := by
  induction live with
  | nil => simp [liveGet] at hg
  | cons x xs ih =>
    obtain ⟨k, v⟩ := x
    simp only [liveGet] at hg
    simp only [liveErase]
    split at hg
    · rename_i hk; cases hg; subst hk; simp
    · rename_i hk
      simp only [hk, if_false]
      exact (List.Perm.cons _ (ih hg)).trans (List.Perm.swap _ _ _)

theorem heldOf_perm {l₁ l₂ : List (Nat × Allocation)} (p : l₁.Perm l₂) (rid : Nat) :
    (heldOf l₁ rid).Perm (heldOf l₂ rid) := by
  unfold heldOf
  exact p.flatMap_right _

theorem heldAmount_perm {l₁ l₂ : List (Nat × Allocation)} (p : l₁.Perm l₂) (rid : Nat) :
    heldAmount l₁ rid = heldAmount l₂ rid := by
  unfold heldAmount
  exact (p.map _).sum_nat

/-- releasing the resource allocations of a held allocation one by one -/
theorem releasePools_inv {U} {pools : List Pool} {al : Allocation} {O : Nat → List AIdx} {A : Nat → Nat}
    (hinv : PoolsInv U pools (fun r => raEntries r al ++ O r) (fun r => raAmount r al + A r))
    (hrids : ∀ ra ∈ al, ∃ p, pools[ra.rid]? = some p ∧ p ≠ .empty) :
    ∃ pools', releasePools pools al = .ok pools' ∧ PoolsInv U pools' O A ∧ PoolsLe pools pools' := by
  induction al generalizing pools with
  | nil =>
    exact ⟨pools, rfl, hinv.congr (fun r => by simp) (fun r => by simp), PoolsLe.refl _⟩
  | cons ra ras ih =>
    obtain ⟨p, hp, hne⟩ := hrids ra (by simp)
    have hpool := hinv.pool ra.rid p hp
    simp only [raEntries_cons, if_true, List.append_assoc] at hpool
    have hsum : ∀ full free, p = .sum full free → free + (ra.amount + (raAmount ra.rid ras + A ra.rid)) = full := by
      intro full free heq
      have := hinv.sum ra.rid full free (heq ▸ hp)
      simp only [raAmount_cons, if_true] at this
      omega
    obtain ⟨p', hrel, hpool', hne', hsum'⟩ := Pool.release_inv hne hpool hsum
    have hinv' : PoolsInv U (pools.set ra.rid p') (fun r => raEntries r ras ++ O r)
        (fun r => raAmount r ras + A r) := by
      refine hinv.set hp hpool' hsum' ?_ ?_
      · intro r hr
        have : ¬ ra.rid = r := fun h => hr h.symm
        simp [raEntries_cons, this]
      · intro r hr
        have : ¬ ra.rid = r := fun h => hr h.symm
        simp [raAmount_cons, this]
    have hrids' : ∀ ra' ∈ ras, ∃ q, (pools.set ra.rid p')[ra'.rid]? = some q ∧ q ≠ .empty := by
      intro ra' hra'
      obtain ⟨q, hq, hqne⟩ := hrids ra' (List.mem_cons_of_mem _ hra')
      exact PoolsLe.set hne' _ q hq hqne
    obtain ⟨pools', hrel', hinv'', le'⟩ := ih hinv' hrids'
    refine ⟨pools', ?_, hinv'', (PoolsLe.set hne').trans le'⟩
    simp [releasePools, hp, hrel, setPool, hrel']

/-- the pool part of `release` of a live allocation never panics and preserves **Conserve** -/
theorem releasePools_live {U} {s : State} {h : Nat} {al : Allocation} (hinv : Inv U s)
    (hg : liveGet s.live h = some al) :
    ∃ pools', releasePools s.pools al = .ok pools' ∧
      ∀ concise, Inv U { s with pools := pools', concise := concise, live := liveErase s.live h } := by
  have hperm := liveErase_perm hg
  have hinv0 : PoolsInv U s.pools (fun r => raEntries r al ++ heldOf (liveErase s.live h) r)
      (fun r => raAmount r al + heldAmount (liveErase s.live h) r) := by
    refine hinv.pools.congr (fun r => ?_) (fun r => ?_)
    · rw [← heldOf_cons h]; exact heldOf_perm hperm r
    · rw [← heldAmount_cons h]; exact heldAmount_perm hperm r
  obtain ⟨pools', hrel, hinv', le⟩ := releasePools_inv hinv0 (hinv.rids _ (liveGet_mem hg))
  refine ⟨pools', hrel, fun concise => ⟨hinv', ?_⟩⟩
  intro x hx ra hra
  have hx' : x ∈ s.live := hperm.mem_iff.mpr (List.mem_cons_of_mem _ hx)
  obtain ⟨p, hp, hne⟩ := hinv.rids x hx' ra hra
  exact le _ p hp hne

/-! ### the initial state -/

/-- a pool as `ResourcePool::new` builds it: everything free, no fractions -/
def Pool.Fresh (p : Pool) : Prop :=
  (∀ g ∈ p.groupsOf, g.fracs = [] ∧ g.free.Nodup) ∧ (∀ full free, p = .sum full free → free = full)

/-- the indices each group was created with, read off a (fresh) pool vector -/
def univOf (pools : List Pool) : Nat → Nat → List Nat := fun rid gid =>
  match pools[rid]? with
  | some p => (p.groupsOf[gid]?.map (·.free)).getD []
  | none => []

theorem inv_fresh (s : State) (hfresh : ∀ p ∈ s.pools, p.Fresh) (hlive : s.live = []) :
    Inv (univOf s.pools) s := by
  refine ⟨⟨?_, ?_⟩, by simp [hlive]⟩
  · intro rid p hp
    have hf := hfresh p (List.mem_of_getElem? hp)
    have hheld : heldOf s.live rid = [] := by simp [hlive, heldOf]
    rw [hheld]
    refine ⟨?_, ?_, ?_, by simp, ?_⟩
    rotate_right
    · intro gid g hg j
      have := hf.1 g (List.mem_of_getElem? hg)
      simp [this.1, fracOf, FPU_pos]
    · intro gid
      simp only [univOf, hp]
      cases hg : p.groupsOf[gid]? with
      | none => simp
      | some g => simpa using (hf.1 g (List.mem_of_getElem? hg)).2
    · intro gid g hg
      have := hf.1 g (List.mem_of_getElem? hg)
      exact ⟨this.2, fun j _ => by simp [this.1, fracOf]⟩
    · intro gid i
      simp only [univOf, hp, freeAmt, heldBy_nil, Nat.add_zero]
      cases hg : p.groupsOf[gid]? with
      | none => simp
      | some g =>
        have := hf.1 g (List.mem_of_getElem? hg)
        simp [Group.freeAmt, this.1, fracOf]
  · intro rid full free hp
    have hf := hfresh _ (List.mem_of_getElem? hp)
    have := hf.2 full free rfl
    simp [hlive, heldAmount, this]

theorem stackRange_nodup (a n : Nat) : (stackRange a n).Nodup := by
  unfold stackRange
  exact (List.reverse_perm _).nodup_iff.mpr (List.nodup_range' 1)

theorem groupsFrom_fresh (off : Nat) (sizes : List Nat) :
    ∀ g ∈ groupsFrom off sizes, g.fracs = [] ∧ g.free.Nodup := by
  induction sizes generalizing off with
  | nil => simp [groupsFrom]
  | cons n ns ih =>
    intro g hg
    simp only [groupsFrom, List.mem_cons] at hg
    rcases hg with rfl | hg
    · exact ⟨rfl, stackRange_nodup _ _⟩
    · exact ih _ g hg

theorem Pool.new_fresh (k : Kind) : (Pool.new k).Fresh := by
  cases k with
  | list n => exact ⟨by simp [Pool.new, Pool.groupsOf, stackRange_nodup], by simp [Pool.new]⟩
  | range s e => exact ⟨by simp [Pool.new, Pool.groupsOf, stackRange_nodup], by simp [Pool.new]⟩
  | groups sizes => exact ⟨by simpa [Pool.new, Pool.groupsOf] using groupsFrom_fresh 0 sizes, by simp [Pool.new]⟩
  | sum size =>
    refine ⟨by simp [Pool.new, Pool.groupsOf], ?_⟩
    intro full free h
    simp only [Pool.new, Pool.sum.injEq] at h
    omega

theorem placeItems_fresh (ps : List Pool) (items : List (Nat × Kind)) (h : ∀ p ∈ ps, p.Fresh) :
    ∀ p ∈ placeItems ps items, p.Fresh := by
  induction items generalizing ps with
  | nil => simpa [placeItems] using h
  | cons it rest ih =>
    obtain ⟨rid, k⟩ := it
    simp only [placeItems]
    apply ih
    intro p hp
    rcases List.mem_or_eq_of_mem_set hp with hp | rfl
    · exact h p hp
    · exact Pool.new_fresh k

theorem Pool.empty_fresh : Pool.empty.Fresh := ⟨by simp [Pool.groupsOf], by simp⟩

/-- **Conserve** holds in the state `ResourceAllocator::new` builds. -/
theorem init_inv {d : Descriptor} {s : State} (h : State.init d = some s) : Inv (univOf s.pools) s := by
  unfold State.init at h
  split at h
  · cases h
  · dsimp only at h
    split at h
    · cases h
    · simp only [Option.some.injEq] at h
      subst h
      apply inv_fresh
      · apply placeItems_fresh
        intro p hp
        rw [List.eq_of_mem_replicate hp]
        exact Pool.empty_fresh
      · rfl

end HqModel.Alloc
