import HqModel.Lemmas.SchedRows
import HqModel.Lemmas.SchedF1
/-!
Lemmas for C15, part 6 (fragment F2: one worker, two request classes with ready tasks): the shape of the MILP
when the batches are `[bH, bL]` or `[bL, bH]` and both classes can start on the worker now.
-/
namespace HqModel.Sched

/-- the two batches, in either order -/
structure TwoBatches (inst : Instance) (w : Worker) (bs : List Batch) (bH bL : Batch) : Prop where
  workers : inst.workers = [w]
  order : bs = [bH, bL] ∨ bs = [bL, bH]
  ne : bH.rq ≠ bL.rq
  pH : hasP inst w bH.rq = true
  pL : hasP inst w bL.rq = true
  /-- both classes ask for cpus only -/
  cH : inst.need2 bH.rq = 0
  cL : inst.need2 bL.rq = 0

namespace TwoBatches
variable {inst : Instance} {w : Worker} {bs : List Batch} {bH bL : Batch}

theorem memH (h : TwoBatches inst w bs bH bL) : bH ∈ bs := by
  rcases h.order with e | e <;> simp [e]

theorem memL (h : TwoBatches inst w bs bH bL) : bL ∈ bs := by
  rcases h.order with e | e <;> simp [e]

theorem mem_iff (h : TwoBatches inst w bs bH bL) {b : Batch} : b ∈ bs ↔ b = bH ∨ b = bL := by
  rcases h.order with e | e <;> simp [e, or_comm]

theorem countVarsH (h : TwoBatches inst w bs bH bL) : countVars inst bH = [.P w.id bH.rq] := by
  simp [countVars, countVar, h.workers, h.pH]

theorem countVarsL (h : TwoBatches inst w bs bH bL) : countVars inst bL = [.P w.id bL.rq] := by
  simp [countVars, countVar, h.workers, h.pL]

theorem countVarsOfH (h : TwoBatches inst w bs bH bL) : countVarsOf inst bs bH.rq = [.P w.id bH.rq] := by
  have hne := h.ne
  rcases h.order with e | e
  · simp [countVarsOf, e, h.countVarsH]
  · have : ¬ bL.rq = bH.rq := fun h' => hne h'.symm
    simp [countVarsOf, e, this, h.countVarsH]

theorem countVarsOfL (h : TwoBatches inst w bs bH bL) : countVarsOf inst bs bL.rq = [.P w.id bL.rq] := by
  have hne := h.ne
  rcases h.order with e | e
  · simp [countVarsOf, e, hne, h.countVarsL]
  · simp [countVarsOf, e, h.countVarsL]

theorem countVarsOf_other (h : TwoBatches inst w bs bH bL) {c : Nat} (h1 : c ≠ bH.rq) (h2 : c ≠ bL.rq) :
    countVarsOf inst bs c = [] := by
  have h1' : ¬ bH.rq = c := fun e => h1 e.symm
  have h2' : ¬ bL.rq = c := fun e => h2 e.symm
  rcases h.order with e | e <;> simp [countVarsOf, e, h1', h2']

theorem rows_iff (inst : Instance) (bs : List Batch) {r : Row} :
    r ∈ (milpOf inst bs).rows ↔ r ∈ resourceRows inst bs ∨ r ∈ sizeRows inst bs ∨ r ∈ bRows inst bs ∨
      ∃ b ∈ bs, r ∈ batchCutRows inst bs b := by
  simp [milpOf, List.mem_flatMap]

/-- the single resource row (cpu-only classes have no term in the row of the second kind, so there is none) -/
theorem resourceRow (h : TwoBatches inst w bs bH bL) {r : Row} (hr : r ∈ resourceRows inst bs) :
    r.ge = false ∧ r.bound = w.free ∧
      ∀ z : Assign, r.lhs z = inst.need bH.rq * z (.P w.id bH.rq) + inst.need bL.rq * z (.P w.id bL.rq) := by
  rcases h.order with e | e
  · simp only [resourceRows, resourceRow1, resourceRow2, e, h.workers, List.filterMap_cons, h.pH, h.pL, h.cH, h.cL,
      ↓reduceIte, List.filterMap_nil, List.isEmpty_cons, List.isEmpty_nil, Bool.false_eq_true, List.append_nil,
      List.mem_singleton] at hr
    subst hr
    exact ⟨rfl, rfl, fun z => by simp [Row.lhs]⟩
  · simp only [resourceRows, resourceRow1, resourceRow2, e, h.workers, List.filterMap_cons, h.pH, h.pL, h.cH, h.cL,
      ↓reduceIte, List.filterMap_nil, List.isEmpty_cons, List.isEmpty_nil, Bool.false_eq_true, List.append_nil,
      List.mem_singleton] at hr
    subst hr
    exact ⟨rfl, rfl, fun z => by simp [Row.lhs]; omega⟩

theorem resourceRow_mem (h : TwoBatches inst w bs bH bL) : ∃ r ∈ resourceRows inst bs, True := by
  rcases h.order with e | e <;>
    simp [resourceRows, resourceRow1, e, h.workers, h.pH, h.pL]

theorem sizeRow (h : TwoBatches inst w bs bH bL) {r : Row} (hr : r ∈ sizeRows inst bs) :
    r.ge = false ∧
      ((bH.reached = false ∧ r.bound = bH.size ∧ ∀ z : Assign, r.lhs z = z (.P w.id bH.rq)) ∨
       (bL.reached = false ∧ r.bound = bL.size ∧ ∀ z : Assign, r.lhs z = z (.P w.id bL.rq))) := by
  simp only [sizeRows, List.mem_filterMap] at hr
  obtain ⟨b, hb, hr⟩ := hr
  rcases h.mem_iff.mp hb with rfl | rfl
  · rw [h.countVarsH] at hr
    cases hre : b.reached with
    | true => simp [hre] at hr
    | false =>
      simp only [List.isEmpty_cons, hre, Bool.or_self, Bool.false_eq_true, ↓reduceIte, List.map_cons,
        List.map_nil, Option.some.injEq] at hr
      subst hr
      exact ⟨rfl, Or.inl ⟨rfl, rfl, fun z => by simp [Row.lhs]⟩⟩
  · rw [h.countVarsL] at hr
    cases hre : b.reached with
    | true => simp [hre] at hr
    | false =>
      simp only [List.isEmpty_cons, hre, Bool.or_self, Bool.false_eq_true, ↓reduceIte, List.map_cons,
        List.map_nil, Option.some.injEq] at hr
      subst hr
      exact ⟨rfl, Or.inr ⟨rfl, rfl, fun z => by simp [Row.lhs]⟩⟩

theorem zero_weight_sum (l : List (Nat × Nat)) (z : Assign) :
    ((l.map fun cs => ((.B cs.1 cs.2 : Var), 0)).map fun v => v.2 * z v.1).sum = 0 := by
  induction l with
  | nil => rfl
  | cons a rest ih => simpa using ih

theorem objective_eq (h : TwoBatches inst w bs bH bL) (z : Assign) :
    objective (milpOf inst bs) z =
      weightP inst 0 bH.rq * z (.P w.id bH.rq) + weightP inst 0 bL.rq * z (.P w.id bL.rq) := by
  unfold objective milpOf
  simp only [List.map_append, List.sum_append, zero_weight_sum, Nat.add_zero]
  rcases h.order with e | e
  · simp [prVars, e, h.workers, h.pH, h.pL, List.zipIdx]
  · simp [prVars, e, h.workers, h.pH, h.pL, List.zipIdx]; omega

end TwoBatches
end HqModel.Sched
