import HqModel.Lemmas.CoreNoPanicSysW
/-!
C09 compose, **Stage 4b**: the worker protocol `Core.UpdNP` (a HYPOTHESIS of Stage 4, `Props/C09Compose.lean`) derived
from the composition `SysW` — except for its `RunIdx` conjuncts (M2 does not model resource vectors).

This file: the target predicates.

* `Core.UpdNPw c w u` — `Core.UpdNP` with every `RunIdx …` conjunct replaced by `True` (decidable, kernel-reducible);
* `Core.UpdRunIdx c w u` — the `RunIdx` conjuncts alone (for a `Running` / `RunningPrefilled` about a task that is
  Prefilled on / Retracting from SOME worker: the variant exists and names only resource slots of `w`);
* `Core.updNP_iff : UpdNP c w u ↔ UpdNPw c w u ∧ UpdRunIdx c w u`;
* `Core.UpdatesOk.and_iff`, `Core.updatesOk_updNP_iff` — the same for a whole batch (`UpdatesOk`).

## STATUS of the family — EVERYTHING BELOW IS PROVED, NOTHING IS OPEN (all files build; no `sorry` / `admit` / `axiom` /
`native_decide` / `bv_decide` / `implemented_by` / `unsafe` / `maxHeartbeats 0`; axioms of every theorem of
`Props/C09Pipe.lean` ⊆ {propext, Classical.choice, Quot.sound}). No clause of `UpdNPw` is false of the composed model
(no witness / no finding about M2).

| file | content |
|---|---|
| `Lemmas/CoreNoPanicPipe.lean` (this) | `UpdNPw`, `UpdRunIdx`, `updNP_iff`, `updatesOk_updNP_iff` |
| `Lemmas/CoreNoPanicPipeEv.lean` | M2 vocabulary `NPP.isRR`, `Calm` (no `run`/`rej`), `NB` (in no backlog), `RunLast` |
| `Lemmas/CoreNoPanicPipeM2.lean` | **worker side (M2 only)**: `NPP.step_nb` (`NB s n`, no item ⇒ `NB s' n ∧ Calm events`), `step_asg_run` (`Free`, one assigned item `some rv`: events `run rv' :: rest` ⇒ `rv' = rv ∧ rest = [] ∧ NB s' n`), `step_pre_run`, `step_back_run` (`RunLast`) |
| `Lemmas/CoreNoPanicPipeWk{,2,3}.lean` | **core, worker records**: `NPP.WKeys` (worker ids unchanged) for every function of `Model.lean` / `Reactor.lean` / `Sched.lean`; `upd1_worker_keep`, `step_worker_keep`, `newWorker_worker_new`, `newWorker_ids`, `removeWorker_ids` |
| `Lemmas/CoreNoPanicPipeSrv.lean` | **core, Running tasks**: `NPP.RunKeep c c' w t cm` (Running on `w` afterwards ⇒ Running on `w` before ∧ nothing sent to `w` for it), `RunOwn`; `newTasks_/cancelTasks_/schedule_/removeWorker_/retractResponse_runkeep`, `schedule_noitems`, `taskRunning_pre`, `upd1_runkeep` |
| `Lemmas/CoreNoPanicPipeInv.lean` | the extra pipeline predicate `NPP.PX R v cs P ws n` (`run`, `head`) and its pure transitions `PX.deliver` (worker step, from `WStep2`), `PX.foreign`, `PX.own`; `wstep2_of_step` |
| `Lemmas/CoreNoPanicPipeStep.lean` | `NPP.PipeX`, **`NPP.XInv`** (`known`, `pipe`), **`NPP.WInv2 = WInv ∧ XInv`**; `PipeX.worker/srv/own`; `workerStep_xinv`, `sysStep_xinv`, `srv_xpipes`, `addWorker_xpipes`, `loseWorker_xpipes`, `retracted_xpipes` |
| `Lemmas/CoreNoPanicPipeUpd.lean` | `updNPw_of_head` (`PipeOk` + `PX` of the head event ⇒ `UpdNPw`), `upd1_step2`, **`batch_step2`** (`UpdatesOk UpdNPw` + the extra invariant after the loop), `deliver_updNPw`, `updates_xpipes` |
| `Lemmas/CoreNoPanicPipeRun.lean` | `NPP.step_xinv`, **`NPP.step_inv2`**, `run_winv2`; the weakened hypothesis `SysW.OpNPc2` / `RunNPc2` (decidable), `NPP.opNPc_of_opNPc2` (under `WInv2`), `opNPc2_of_opNPc`, `runNPc_of_runNPc2` |
| `Props/C09Pipe.lean` | **`sysw_upd_npw`**, `sysw_upd_npw_rec`, `sysw_upd_npw_head`, `sysw_upd_np`, `sysw_inv2`, `sysw_worker_known`, `sysw_pipeline2`, `sysw_core_good_pipe`, **`sysw_never_stops_pipe`**, **`sysw_run_never_stops_pipe`**, non-vacuity (`decide`) |

Exact statements of the property theorems: see `Props/C09Pipe.lean` and the section "Stage 4b" of
/root/work/nopanic/NOTES.md.
-/
namespace HqModel.Core

/-- `UpdNP` without its `RunIdx` conjuncts: the worker exists; the message is about a task the core does not know,
or `Running t rv`: Assigned to `w` with `rv` / Prefilled on `w` / Retracting from `w` / multi-node root `w`;
`Finished t`: Running on `w` / multi-node root `w`; `Failed t`: held by `w`; `Reject t`: Assigned / Prefilled on `w` /
Retracting / multi-node. -/
def UpdNPw (s : State) (w : Nat) (u : Update) : Prop :=
  (s.worker? w).isSome = true ∧
  match u with
  | .running t rv | .runningPrefilled t rv =>
    (match s.task? t with
     | none => True
     | some task =>
       match task.state with
       | .assigned w' rv' => w' = w ∧ rv' = rv
       | .prefilled w' => w' = w
       | .retracting w' => w' = w
       | .runningMN ws => ws.head? = some w
       | _ => False)
  | .finished t =>
    (match s.task? t with
     | none => True
     | some task =>
       match task.state with
       | .running w' _ => w' = w
       | .runningMN ws => ws.head? = some w
       | _ => False)
  | .failed t =>
    (match s.task? t with
     | none => True
     | some task =>
       match task.state with
       | .assigned w' _ => w' = w
       | .running w' _ => w' = w
       | .prefilled w' => w' = w
       | .retracting w' => w' = w
       | .runningMN ws => ws.head? = some w
       | _ => False)
  | .reject t _ =>
    (match s.task? t with
     | none => True
     | some task =>
       match task.state with
       | .assigned _ _ => True
       | .prefilled w' => w' = w
       | .retracting _ => True
       | .runningMN _ => True
       | _ => False)
  | .enable _ _ => True

instance (s : State) (w : Nat) (u : Update) : Decidable (UpdNPw s w u) := by
  unfold UpdNPw
  refine @instDecidableAnd _ _ inferInstance ?_
  repeat' split
  all_goals infer_instance

/-- the `RunIdx` conjuncts of `UpdNP` alone -/
def UpdRunIdx (s : State) (w : Nat) (u : Update) : Prop :=
  match u with
  | .running t rv | .runningPrefilled t rv =>
    (match s.task? t with
     | none => True
     | some task =>
       match task.state with
       | .prefilled _ => RunIdx s w task.rq rv
       | .retracting _ => RunIdx s w task.rq rv
       | _ => True)
  | _ => True

instance (s : State) (w : Nat) (u : Update) : Decidable (UpdRunIdx s w u) := by
  unfold UpdRunIdx
  repeat' split
  all_goals infer_instance

theorem updNP_iff (s : State) (w : Nat) (u : Update) : UpdNP s w u ↔ UpdNPw s w u ∧ UpdRunIdx s w u := by
  unfold UpdNP UpdNPw UpdRunIdx
  cases u with
  | running t rv =>
    simp only
    cases s.task? t with
    | none => simp
    | some task =>
      simp only
      cases task.state <;> simp only <;> constructor <;> intro h
      all_goals first
        | exact ⟨⟨h.1, h.2⟩, trivial⟩
        | exact ⟨h.1.1, h.1.2⟩
        | exact ⟨⟨h.1, h.2.1⟩, h.2.2⟩
        | exact ⟨h.1.1, h.1.2, h.2⟩
  | runningPrefilled t rv =>
    simp only
    cases s.task? t with
    | none => simp
    | some task =>
      simp only
      cases task.state <;> simp only <;> constructor <;> intro h
      all_goals first
        | exact ⟨⟨h.1, h.2⟩, trivial⟩
        | exact ⟨h.1.1, h.1.2⟩
        | exact ⟨⟨h.1, h.2.1⟩, h.2.2⟩
        | exact ⟨h.1.1, h.1.2, h.2⟩
  | finished t => exact ⟨fun h => ⟨h, trivial⟩, fun h => h.1⟩
  | failed t => exact ⟨fun h => ⟨h, trivial⟩, fun h => h.1⟩
  | reject t orv => exact ⟨fun h => ⟨h, trivial⟩, fun h => h.1⟩
  | enable a b => exact ⟨fun h => ⟨h, trivial⟩, fun h => h.1⟩

theorem UpdatesOk.and_iff {P Q R : State → Nat → Update → Prop} (hpqr : ∀ s w u, P s w u ↔ Q s w u ∧ R s w u) {w : Nat}
    (us : List Update) : ∀ (s : State) (rets : List (List TaskId)),
    UpdatesOk P s w us rets ↔ UpdatesOk Q s w us rets ∧ UpdatesOk R s w us rets := by
  induction us with
  | nil => intro _ _; simp [UpdatesOk]
  | cons u rest ih =>
    intro s rets
    simp only [UpdatesOk]
    cases h : s.updateState w u rets with
    | error e =>
      simp only [and_true]
      exact hpqr s w u
    | ok r =>
      obtain ⟨s1, rets'⟩ := r
      simp only
      rw [hpqr s w u, ih s1 rets']
      constructor
      · rintro ⟨⟨a, b⟩, c, d⟩; exact ⟨⟨a, c⟩, b, d⟩
      · rintro ⟨⟨a, c⟩, b, d⟩; exact ⟨⟨a, b⟩, c, d⟩

/-- **the worker protocol of a batch = its derivable part + its `RunIdx` part** -/
theorem updatesOk_updNP_iff (s : State) (w : Nat) (us : List Update) (rets : List (List TaskId)) :
    UpdatesOk UpdNP s w us rets ↔ UpdatesOk UpdNPw s w us rets ∧ UpdatesOk UpdRunIdx s w us rets :=
  UpdatesOk.and_iff updNP_iff us s rets

end HqModel.Core
