import HqModel.Lemmas.JobJournal
/-!
# The job-layer state a restarted server starts with — definitions only (imports only model files)

`bootstrap.rs: start_server`: `StateRestorer::load_event_file` (model `restorerFold`), `initialize_server` (a fresh
`State`: no jobs, **no workers**, `job_id_counter = 1`; it also writes the new `ServerStart` record),
`State::restore_state` (`job_id_counter := restorer.job_id_counter()` = `max_job_id + 1`), then
`restore_jobs_and_queues` → per job `RestorerJob::restore_job`: `Job::new(job_id, job_desc, is_open)`, for every
recorded submit `validate_submit` + `submit_job_desc` (= `attach_submit`: every id `Waiting`), then the task states of
the completed restorer tasks are copied and the counters bumped; the `TaskSubmit` batches go to the core
(`add_new_tasks`). The model of all this is `Journal.restore J = .ok (R, X)`; here `X : Restored` is read back as
an M4 state:

| M4 (`Job.Job` / `Job.State`) | restore (`RestoredJob` / `Restorer` / `Restored`) |
|---|---|
| `Job.id`, `.isOpen`, `.maxFails` | `RestoredJob.id`, `.isOpen`, `.maxFails` |
| `Job.tasks : List (Nat × Job.TState)` | `RestoredJob.tasks` with `tstate` (payloads of `Journal.TState` dropped) |
| `Job.cnt` | `RestoredJob.counters` (`JCounters`, field by field) |
| `State.jobs` | `X.jobs` in restore order |
| `State.jobCtr` | `(counters R).job = R.maxJob + 1` |
| `State.workers` | `[]` (a fresh `State`) |
| `State.sent` | the ids of the tasks of `X.batches` (handed to the core, not terminal) |
-/
namespace HqModel.Emit
open HqModel.Job HqModel.Journal

def tstate : Journal.TState → Job.TState
  | .waiting => .waiting
  | .running _ => .running
  | .finished _ => .finished
  | .failed _ => .failed
  | .canceled _ => .canceled
  | .aborted _ => .aborted

def jobOf (rj : RestoredJob) : Job :=
  { id := rj.id
    tasks := rj.tasks.map fun p => (p.1, tstate p.2)
    cnt := ⟨rj.counters.running, rj.counters.finished, rj.counters.failed, rj.counters.canceled, rj.counters.aborted⟩
    isOpen := rj.isOpen
    maxFails := rj.maxFails }

/-- the M4 state of the restarted server -/
def jobStateOf (R : Restorer) (X : Restored) : State :=
  { jobs := X.jobs.map jobOf
    jobCtr := (counters R).job
    workers := []
    sent := X.batches.flatMap fun b => b.tasks.map fun t => ((b.job, t.1) : TaskId) }

/-- the M4 state a server starts with when the journal file holds `J` (`[]`: no journal, the empty state) -/
def nextState (J : List Record) : State :=
  match restore J with
  | .ok (R, X) => jobStateOf R X
  | .error _ => {}

/-- one server life: the uid of its `ServerStart`, the operations of the job layer, and — if the life ends in a
crash — the number of records of this life that reached the file (`none`: all of them) -/
structure Life where
  uid : String
  ops : List Op
  cut : Option Nat := none

/-- the records one life appends to a journal file that holds `J` -/
def lifeRecords (J : List Record) (l : Life) : List Record :=
  let full := Record.serverStart l.uid :: journalFrom (nextState J) l.ops
  match l.cut with
  | none => full
  | some n => full.take n

/-- the journal file after a sequence of server lives, each restarted from the file the previous ones left -/
def livesJournal (J : List Record) : List Life → List Record
  | [] => J
  | l :: ls => livesJournal (J ++ lifeRecords J l) ls

/-- `EmitOk` for every operation of every life, each life from the restored state and the meaning of the file -/
def livesOk (J : List Record) : List Life → Bool
  | [] => true
  | l :: ls =>
    emitOkFrom (nextState J) (meaning (J ++ [.serverStart l.uid])) l.ops && livesOk (J ++ lifeRecords J l) ls

end HqModel.Emit
