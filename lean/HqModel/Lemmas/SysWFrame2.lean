import HqModel.Lemmas.SysWFrame
/-!
`FrW calm` (no task is released or acquired, the `started` flags are kept) for the functions of `Model.lean` and the
first half of `Reactor.lean` (the traversal is the one of `Lemmas/SysCoreFrame2.lean`).
-/
namespace HqModel.Core

abbrev Frq (s s' : State) : Prop := FrW calm s s'

theorem Frq.refl (s : State) : Frq s s := FrW.refl _ _
theorem Frq.ask (s : State) : Frq s (ask s) := FrW.of_eq rfl rfl

/-! ### `Model.lean` -/

theorem processRetracted_frq (l : List TaskId) (s s' : State) (acc acc' : List (Nat × TaskId))
    (h : s.processRetracted l acc = .ok (s', acc')) : Frq s s' := by
  induction l generalizing s acc with
  | nil => simp only [State.processRetracted] at h; cases h; exact Frq.refl _
  | cons t rest ih =>
    simp only [State.processRetracted] at h
    split at h
    · cases h
    · rename_i task hg
      split at h
      · rename_i w hs
        split at h
        · cases h
        · rename_i s1 hw
          have f1 : Frq s s1 := FrW.withWorker (removePrefill_wrelw _ t) hw
          have ht := task?_congr (withWorker_tasks hw) (task?_of_get hg)
          have f2 : Frq s1 (s1.setTask { task with state := .retracting w }) :=
            FrW.setState ht rfl (hs ▸ SOk.of_keep (.inr rfl) rfl)
          exact (f1.trans f2).trans (ih _ _ h)
      · cases h

theorem retract_frq {s s' : State} {l : List TaskId} {o : Out} (h : s.retract l = .ok (s', o)) : Frq s s' := by
  simp only [State.retract] at h
  split at h
  · cases h
  · rename_i s1 pairs hp
    cases h
    exact processRetracted_frq _ _ _ _ _ hp

theorem tryRemoveRedirection_frq {s s' : State} {t : TaskId} {rq : Nat}
    (h : s.tryRemoveRedirection t rq = .ok s') : Frq s s' := by
  simp only [State.tryRemoveRedirection] at h
  split at h
  · cases h; exact Frq.refl _
  · split at h
    · cases h
    · have f1 : Frq s { s with redirects := s.redirects.filter (·.1 ≠ t) } := FrW.of_eq rfl rfl
      exact f1.trans (FrW.withWorker (removeSn_wrelw _ t _) h)

theorem removeConsumer_tfrw {ts ts' : List Task} {d c : TaskId} (h : removeConsumer ts d c = .ok ts') :
    TFrW calm ts ts' := by
  simp only [removeConsumer] at h
  split at h
  · cases h; exact TFrW.refl _ _
  · rename_i dt hd
    split at h
    · cases h
    · cases h
      apply TFrW.put (told := dt)
      · show findTask ts dt.id = some dt
        rw [findTask_some_id hd]; exact hd
      · exact SOk.refl _ _ _

theorem removeConsumers_tfrw (deps : List TaskId) (ts ts' : List Task) (c : TaskId)
    (h : removeConsumers ts c deps = .ok ts') : TFrW calm ts ts' := by
  induction deps generalizing ts with
  | nil => simp only [removeConsumers] at h; cases h; exact TFrW.refl _ _
  | cons d rest ih =>
    simp only [removeConsumers] at h
    split at h
    · cases h
    · rename_i ts1 h1
      exact (removeConsumer_tfrw h1).trans (ih _ h)

theorem removeTask_frq {s s' : State} {id : TaskId} {st : TS} (h : s.removeTask id = .ok (s', st)) : Frq s s' := by
  simp only [State.removeTask] at h
  split at h
  · cases h
  · rename_i task ht
    have f0 : Frq s { s with tasks := eraseTask s.tasks id } := ⟨TFrW.erase _ _ _, WFrW.refl _ _⟩
    split at h
    · split at h
      · cases h
      · rename_i s1 hq
        have f1 : Frq { s with tasks := eraseTask s.tasks id } s1 := (queueRemove_core hq).frw
        split at h
        · split at h
          · cases h
          · rename_i ts hc
            cases h
            have f2 : Frq s1 { s1 with tasks := ts } :=
              ⟨removeConsumers_tfrw _ _ _ _ hc, WFrW.refl _ _⟩
            exact (f0.trans f1).trans f2
        · cases h; exact f0.trans f1
    · split at h
      · cases h
      · rename_i s1 hq
        cases h
        exact f0.trans (queueRemove_core hq).frw
    · cases h; exact f0

theorem removeTasksBatched_frq (ids : List TaskId) (s s' : State) (h : s.removeTasksBatched ids = .ok s') : Frq s s' := by
  induction ids generalizing s with
  | nil => simp only [State.removeTasksBatched] at h; cases h; exact Frq.refl _
  | cons t rest ih =>
    simp only [State.removeTasksBatched] at h
    split at h
    · cases h
    · rename_i s1 st h1
      exact (removeTask_frq h1).trans (ih _ h)

theorem removeWaitingAll_frq (ids : List TaskId) (s s' : State) (h : s.removeWaitingAll ids = .ok s') : Frq s s' := by
  induction ids generalizing s with
  | nil => simp only [State.removeWaitingAll] at h; cases h; exact Frq.refl _
  | cons t rest ih =>
    simp only [State.removeWaitingAll] at h
    split at h
    · cases h
    · rename_i s1 st h1
      split at h
      · exact (removeTask_frq h1).trans (ih _ h)
      · cases h

/-! ### `Reactor.lean` -/

theorem resetMnAll_frq (l : List Nat) (s s' : State) (h : resetMnAll s l = .ok s') : Frq s s' := by
  induction l generalizing s with
  | nil => simp only [resetMnAll] at h; cases h; exact Frq.refl _
  | cons w rest ih =>
    simp only [resetMnAll] at h
    split at h
    · cases h
    · rename_i wk hg
      have hf := getWorker_spec hg
      have hid := findWorker_some_id hf
      have f1 : Frq s (s.setWorker wk.emptySn) :=
        FrW.setWorker (wk := wk) (by rw [hid]; exact hf) (emptySn_wrelw wk)
      exact f1.trans (ih _ h)

theorem resetMnChecked_frq (l : List Nat) (s s' : State) (id : TaskId) (h : resetMnChecked s id l = .ok s') :
    Frq s s' := by
  induction l generalizing s with
  | nil => simp only [resetMnChecked] at h; cases h; exact Frq.refl _
  | cons w rest ih =>
    simp only [resetMnChecked] at h
    split at h
    · cases h
    · rename_i wk hg
      have hf := getWorker_spec hg
      have hid := findWorker_some_id hf
      have f1 : Frq s (s.setWorker wk.emptySn) :=
        FrW.setWorker (wk := wk) (by rw [hid]; exact hf) (emptySn_wrelw wk)
      split at h
      · split at h
        · cases h
        · exact f1.trans (ih _ h)
      · cases h

theorem cancelLoop_frq (ids : List TaskId) (s s' : State) (u u' : List TaskId) (r r' : List (Nat × List TaskId))
    (h : s.cancelLoop ids u r = .ok (s', u', r')) : Frq s s' := by
  induction ids generalizing s u r with
  | nil => simp only [State.cancelLoop] at h; cases h; exact Frq.refl _
  | cons id rest ih =>
    simp only [State.cancelLoop] at h
    split at h
    · exact ih _ _ _ h
    · rename_i task ht
      split at h
      · cases h
      · rename_i cons hc
        have sn : ∀ (w rv : Nat), (match s.rq task.rq rv with
            | .error e => (.error e : M (State × List TaskId × List (Nat × List TaskId)))
            | .ok r0 =>
              match s.withWorker w (·.removeSn id r0) with
              | .error e => .error e
              | .ok s1 => State.cancelLoop (ask s1) rest (unionTids (unionTids u [id]) cons) (addTo r w id)) =
              .ok (s', u', r') → Frq s s' := by
          intro w rv h
          split at h
          · cases h
          · split at h
            · cases h
            · rename_i s1 hw
              exact ((FrW.withWorker (removeSn_wrelw _ id _) hw).trans (Frq.ask s1)).trans (ih _ _ _ h)
        split at h
        · exact (Frq.ask s).trans (ih _ _ _ h)
        · exact sn _ _ h
        · exact sn _ _ h
        · split at h
          · cases h
          · rename_i s1 hr
            split at h
            · cases h
            · exact ((resetMnAll_frq _ _ _ hr).trans (Frq.ask s1)).trans (ih _ _ _ h)
        · split at h
          · cases h
          · rename_i s1 hr
            exact ((tryRemoveRedirection_frq hr).trans (Frq.ask s1)).trans (ih _ _ _ h)
        · split at h
          · cases h
          · rename_i s1 hr
            split at h
            · cases h
            · rename_i s2 hw
              exact ((removePrefilled_core hr).frw.trans (FrW.withWorker (removePrefill_wrelw _ id) hw)).trans (ih _ _ _ h)
        · cases h

theorem cancelTasks_frq {s s' : State} {ids : List TaskId} {o : Out} (h : s.cancelTasks ids = .ok (s', o)) :
    Frq s s' := by
  simp only [State.cancelTasks] at h
  split at h
  · cases h
  · rename_i s1 unreg running h1
    split at h
    · cases h
    · rename_i s2 h2
      cases h
      exact (cancelLoop_frq _ _ _ _ _ _ _ h1).trans (removeTasksBatched_frq _ _ _ h2)

end HqModel.Core
