import HqModel.Lemmas.WorkerEvents
/-!
Step-level corollaries for C04 (`step_launch_recorded`, `step_launch_handle`) and C01 (`timeoutFire_spec`).
-/
namespace HqModel.Worker

theorem LR_init (s : State) (upd : List Update) : LR { s := s, upd := upd } := by
  intro t i rv h hm; simp at hm

/-- A launcher call that succeeded leaves the task running, with exactly the instance, variant and allocation
handle the launcher saw. -/
theorem step_launch_recorded {s s' : State} {op : Op} {outs : List Out} {t i rv h : Nat}
    (hs : step s op = .ok (s', outs)) (hm : Out.launch t i rv h true ∈ outs) :
    ∃ r ∈ s'.running, r.task.id = t ∧ r.task.inst = i ∧ r.rv = rv ∧ r.h = h := by
  rcases step_launch_op hs hm with ⟨es, rfl⟩ | ⟨t', res, en, rfl⟩
  · simp only [step, compute] at hs
    split at hs
    · cases hs
    · rename_i a ha
      cases hs
      exact computeEntries_LR es (LR_init s []) ha t i rv h (mem_finish_launch hm)
  · simp only [step, taskEnd] at hs
    split at hs
    · cases hs
    · rename_i r hr
      split at hs
      · cases hs
      · rename_i a used hpl
        have hl := prefillLoop_LR _ (LR_init _ _) hpl
        split at hs
        · split at hs
          · cases hs
            rcases List.mem_append.mp hm with hm | hm
            · exact hl t i rv h hm
            · split at hm <;> simp at hm
          · cases hs
        · cases hs
          exact hl t i rv h (mem_finish_launch hm)

/-- handles of the tasks that were running before the step stay live, and no launcher call of the step used one -/
def KInv (H0 : List Nat) (a : Acc) : Prop :=
  (∀ x ∈ H0, x ∈ a.s.live) ∧ ∀ t i rv h ok, Out.launch t i rv h ok ∈ a.ev → h ∉ H0

theorem tryStart_K {H0 : List Nat} {a a' : Acc} {x : Task} {rv h : Nat} {p c : Bool}
    (hk : KInv H0 a) (hh : h ∉ H0) (hs : tryStart a x rv p h = .ok (a', c)) : KInv H0 a' := by
  obtain ⟨_, hc⟩ := tryStart_cases hs
  rcases hc with ⟨_, h1, h2, _⟩ | ⟨_, h1, h2, _⟩ | ⟨_, _, h1, h2, _⟩
  · exact ⟨by rw [h1]; exact hk.1, by rw [h2]; exact hk.2⟩
  · refine ⟨by rw [h1]; exact hk.1, ?_⟩
    intro t i rv' h' ok hm
    rw [h2] at hm
    rcases List.mem_append.mp hm with hm | hm
    · exact hk.2 t i rv' h' ok hm
    · simp only [List.mem_singleton, Out.launch.injEq] at hm
      rw [hm.2.2.2.1]; exact hh
  · refine ⟨by rw [h1]; exact hk.1, ?_⟩
    intro t i rv' h' ok hm
    rw [h2] at hm
    rcases List.mem_append.mp hm with hm | hm
    · exact hk.2 t i rv' h' ok hm
    · simp only [List.mem_singleton, Out.launch.injEq] at hm
      rw [hm.2.2.2.1]; exact hh

theorem prefillLoop_K {H0 : List Nat} {rq rv h : Nat} {bl : List Task} {a a' : Acc} {c : Bool}
    (hk : KInv H0 a) (hh : h ∉ H0) (hs : prefillLoop rq rv h bl a = .ok (a', c)) : KInv H0 a' := by
  obtain ⟨evs, more, e1, _, _, _, _, _, e7, e8, e9⟩ := prefillLoop_spec bl hs
  refine ⟨?_, ?_⟩
  · intro x hx
    cases c with
    | true => rw [(e8 rfl).2.2]; exact hk.1 x hx
    | false =>
      rw [(e9 rfl).2.2.1]
      exact (List.mem_erase_of_ne (by rintro rfl; exact hh hx)).mpr (hk.1 x hx)
  · intro t i rv' h' ok hm
    rw [e1] at hm
    rcases List.mem_append.mp hm with hm | hm
    · exact hk.2 t i rv' h' ok hm
    · rcases e7 _ hm with ⟨y, _, ok', heq⟩ | heq
      · simp only [Out.launch.injEq] at heq
        rw [heq.2.2.2.1]; exact hh
      · cases heq

theorem computeEntry_K {H0 : List Nat} {a a' : Acc} {e : Entry}
    (hk : KInv H0 a) (hs : computeEntry a e = .ok a') : KInv H0 a' := by
  unfold computeEntry at hs
  split at hs
  · cases hs; exact hk
  · split at hs
    · cases hs
    · split at hs
      · cases hs
        refine ⟨?_, hk.2⟩
        unfold insertBlocked
        split <;> exact hk.1
      · rename_i h _
        split at hs
        · cases hs
        · rename_i hlive
          have hh : h ∉ H0 := fun hin => hlive (hk.1 h hin)
          have hk1 : KInv H0 { a with s := { a.s with live := h :: a.s.live } } :=
            ⟨fun x hx => List.mem_cons_of_mem _ (hk.1 x hx), hk.2⟩
          split at hs
          · cases hs
          · rename_i a1 hts
            cases hs
            exact tryStart_K hk1 hh hts
          · rename_i a1 hts
            split at hs
            · cases hs
            · rename_i a2 _ hpl
              cases hs
              exact prefillLoop_K (tryStart_K hk1 hh hts) hh hpl

theorem computeEntries_K {H0 : List Nat} : ∀ (es : List Entry) {a a' : Acc},
    KInv H0 a → computeEntries es a = .ok a' → KInv H0 a'
  | [], a, a', hk, hs => by simp only [computeEntries] at hs; cases hs; exact hk
  | e :: es, a, a', hk, hs => by
    simp only [computeEntries] at hs
    split at hs
    · cases hs
    · rename_i a1 h1
      exact computeEntries_K es (computeEntry_K hk h1) hs

theorem eq_of_map_nodup {α : Type} (f : α → Nat) : ∀ (l : List α) {a b : α},
    (l.map f).Nodup → a ∈ l → b ∈ l → f a = f b → a = b
  | [], _, _, _, ha, _, _ => by simp at ha
  | y :: l, a, b, hn, ha, hb, hab => by
    simp only [List.map_cons, List.nodup_cons] at hn
    rcases List.mem_cons.mp ha with ha | ha <;> rcases List.mem_cons.mp hb with hb | hb
    · rw [ha, hb]
    · exfalso
      apply hn.1
      rw [← ha, hab]
      exact List.mem_map.mpr ⟨b, hb, rfl⟩
    · exfalso
      apply hn.1
      rw [← hb, ← hab]
      exact List.mem_map.mpr ⟨a, ha, rfl⟩
    · exact eq_of_map_nodup f l hn.2 ha hb hab

/-- A launcher call never gets an allocation that a running task owns — except in the step in which that task
ends (the hand-over of `prefill_loop`). -/
theorem step_launch_handle {s s' : State} {op : Op} {outs : List Out} {t i rv h : Nat} {ok : Bool}
    (hi : HInv s) (hs : step s op = .ok (s', outs)) (hm : Out.launch t i rv h ok ∈ outs) :
    ∀ r ∈ s.running, r.h = h → ∃ res en, op = .taskEnd r.task.id res en := by
  intro r0 hr0 hh
  rcases step_launch_op hs hm with ⟨es, rfl⟩ | ⟨t', res, en, rfl⟩
  · exfalso
    simp only [step, compute] at hs
    split at hs
    · cases hs
    · rename_i a ha
      cases hs
      have hk0 : KInv (handles s) ({ s := s } : Acc) :=
        ⟨fun x hx => (hi.1.mem_iff).mpr (by simpa using hx), by intro t i rv h ok hm; simp at hm⟩
      have hk := computeEntries_K es hk0 ha
      exact hk.2 t i rv h ok (mem_finish_launch hm) (by
        rw [← hh]; exact List.mem_map.mpr ⟨r0, hr0, rfl⟩)
  · simp only [step] at hs
    obtain ⟨r, hr, evs, rest, used, e1, e2, _⟩ := taskEnd_spec hs
    have hmem : Out.launch t i rv h ok ∈ evs := by
      rw [e1] at hm
      rcases List.mem_append.mp hm with hm | hm
      · exact hm
      · split at hm <;> simp at hm
    have hrh : h = r.h := by
      rcases e2 _ hmem with ⟨y, _, ok', heq⟩ | heq
      · simp only [Out.launch.injEq] at heq; exact heq.2.2.2.1
      · cases heq
    have hrmem := List.mem_of_find?_eq_some hr
    have hrid : r.task.id = t' := by simpa using List.find?_some hr
    have : r0 = r := eq_of_map_nodup (fun x : Running => x.h) s.running hi.handles_nodup hr0 hrmem
      (by show r0.h = r.h; rw [hh, hrh])
    subst this
    exact ⟨res, en, by rw [hrid]⟩

/-- The time-limit branch of `handle_task_future`. -/
theorem timeoutFire_spec {s s' : State} {t : Nat} {outs : List Out}
    (hs : timeoutFire s t = .ok (s', outs)) :
    ∃ r, s.running.find? (fun x => x.task.id == t) = some r ∧ r.task.timeLimit ≠ none ∧ r.fired = false ∧
      outs = (if r.stopSent then [] else [.stop t .timeout]) ∧
      (∀ r' ∈ s'.running, r'.task.id = t → r'.stopSent = true ∧ r'.fired = true) ∧
      (∃ r' ∈ s'.running, r'.task.id = t) ∧
      s'.running.map (·.task.id) = s.running.map (·.task.id) := by
  unfold timeoutFire at hs
  split at hs
  · cases hs
  · rename_i r hr
    split at hs
    · cases hs
    · rename_i hcond
      cases hs
      have hrmem := List.mem_of_find?_eq_some hr
      have hrid : r.task.id = t := by simpa using List.find?_some hr
      refine ⟨r, hr, ?_, ?_, rfl, ?_, ?_, ?_⟩
      · intro h; exact hcond (Or.inl h)
      · cases hf : r.fired
        · rfl
        · exact absurd (Or.inr hf) hcond
      · intro r' hr' hid
        simp only [List.mem_map] at hr'
        obtain ⟨x, _, rfl⟩ := hr'
        split
        · exact ⟨rfl, rfl⟩
        · rename_i hne
          split at hid
          · exact absurd hid (by rename_i h; exact fun _ => hne h)
          · exact absurd hid hne
      · refine ⟨{ r with stopSent := true, fired := true }, ?_, hrid⟩
        simp only [List.mem_map]
        exact ⟨r, hrmem, by simp [hrid]⟩
      · exact map_flags (fun x : Running => { x with stopSent := true, fired := true }) id (·.task.id) s.running
          (fun x => x.task.id = t) (fun _ => rfl)

end HqModel.Worker
