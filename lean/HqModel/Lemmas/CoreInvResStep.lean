import HqModel.Lemmas.CoreInvRes5
import HqModel.Lemmas.CoreInvRqs
/-!
Stage 3, part 6: the step and run theorems for the resource equation, its statement in the vocabulary of the
model, and the F29 witness.
-/
namespace HqModel.Core

/-- the full invariant of stage 3: structure (`Inv`), resource equation (`Res`), well-formed requests -/
structure C05Inv (s : State) : Prop where
  ir : IR s
  rqs : RqsOk s.rqs

/-- side conditions of the operations (stage 3).
* `newWorker`: a fresh single-node record (what `Worker::new` builds);
* `newRq`: the request names every resource index once (`ResourceRequest::validate`);
* `update`: per message, in the state in which the reactor processes it: a Reject of an Assigned task comes from
  its worker and variant (`RejectOk`), a Running/RunningPrefilled of a Prefilled or Retracting task does not
  saturate the worker's free vector (`RunNoSat`, cf. finding F29);
* `schedule`: the queue/dependency clause `QueueOkD` and the redirect-target clause `RdIn` of the sanity checks
  hold in the state the round starts from, multi-node placements are for multi-node requests. (Non-saturation of
  the placements needs NO hypothesis: the model rejects an overbooking placement as `!bad-choice`.) -/
def OpOk3 (s : State) : Op → Prop
  | .newWorker w => FreshWorker w
  | .newRq rqv => RqvOk rqv
  | .update w us rets => UpdatesOk UpdOk3 s w us rets
  | .schedule sol => QueueOkD s ∧ SolMnOk s sol ∧ RdIn s
  | _ => True

instance (s : State) (op : Op) : Decidable (OpOk3 s op) := by
  cases op <;> simp only [OpOk3] <;> infer_instance

theorem OpOk3.ok2 {s : State} {op : Op} (h : OpOk3 s op) : OpOk2 s op := by
  cases op <;> simp only [OpOk3, OpOk2] at h ⊢ <;> try exact h
  · exact UpdatesOk.mono (fun _ _ _ h => h.proto) _ _ _ h
  · exact ⟨h.1, h.2.1⟩

theorem step_rqs {s s' : State} {op : Op} {out : Out} (h : step s op = .ok (s', out)) :
    s'.rqs = s.rqs ∨ ∃ rqv, op = .newRq rqv ∧ s'.rqs = s.rqs ++ [rqv] := by
  cases op with
  | newWorker w => simp only [step, State.newWorker] at h; cases h; exact Or.inl rfl
  | removeWorker w reason f order rets => exact Or.inl (removeWorker_rqs h)
  | newRq rqv => simp only [step] at h; cases h; exact Or.inr ⟨rqv, rfl, rfl⟩
  | newTasks nts => exact Or.inl (newTasks_rqs h)
  | cancel ids => exact Or.inl (cancelTasks_rqs h)
  | update w us rets => exact Or.inl (taskUpdate_rqs h)
  | retracted w ids => exact Or.inl (retractResponse_rqs h)
  | schedule sol => exact Or.inl (schedule_rqs h)

/-- **the stage-3 invariant is preserved by every operation** that satisfies its side condition -/
theorem c05_step {s s' : State} {op : Op} {out : Out} (hi : C05Inv s) (hok : OpOk3 s op)
    (h : step s op = .ok (s', out)) : C05Inv s' := by
  have hrqs : RqsOk s'.rqs := by
    rcases step_rqs h with e | ⟨rqv, rfl, e⟩
    · rw [e]; exact hi.rqs
    · rw [e]
      intro x hx
      rcases List.mem_append.mp hx with h1 | h1
      · exact hi.rqs x h1
      · simp only [List.mem_singleton] at h1; subst h1; exact hok
  refine ⟨?_, hrqs⟩
  cases op with
  | newWorker w => exact newWorker_ir hi.ir hok h
  | removeWorker w reason f order rets => exact removeWorker_ir hi.ir h
  | newRq rqv => simp only [step] at h; cases h; exact newRq_ir rqv hi.ir
  | newTasks nts => exact newTasks_ir hi.ir h
  | cancel ids => exact cancelTasks_ir hi.ir h
  | update w us rets => exact taskUpdate_ir hi.ir hok h
  | retracted w ids => exact retractResponse_ir hi.ir h
  | schedule sol => exact schedule_ir hi.ir hok.2.2 hi.rqs hok.1.ok hok.2.1 h

theorem c05_init : C05Inv {} := by
  refine ⟨⟨inv_init, ?_⟩, ?_⟩
  · intro w wk A F P h; cases h
  · intro x hx; cases hx

/-- **the stage-3 invariant holds in every state of every run** from the empty core whose operations satisfy
`OpOk3` -/
theorem c05_run {s : State} {ops : List Op} {out : Out} (hok : RunOk OpOk3 {} ops)
    (h : run {} ops = .ok (s, out)) : C05Inv s :=
  run_induction_ok (P := C05Inv) (C := OpOk3) (fun _ _ _ _ hp hc hs => c05_step hp hc hs) ops _ _ _ c05_init hok h

/-! ### the side condition split into its protocol/sanity part and the non-saturation part -/

theorem UpdatesOk.and {P Q : State → Nat → Update → Prop} {w : Nat} (us : List Update) :
    ∀ (s : State) (rets : List (List TaskId)), UpdatesOk P s w us rets → UpdatesOk Q s w us rets →
      UpdatesOk (fun s w u => P s w u ∧ Q s w u) s w us rets := by
  induction us with
  | nil => intro _ _ _ _; trivial
  | cons u rest ih =>
    intro s rets h1 h2
    simp only [UpdatesOk] at h1 h2 ⊢
    refine ⟨⟨h1.1, h2.1⟩, ?_⟩
    have a := h1.2
    have b := h2.2
    split
    · rename_i s1 rets' he
      rw [he] at a b
      exact ih _ _ a b
    · trivial

/-- non-saturation of the booking a Running / RunningPrefilled message makes -/
def UpdNoSat (s : State) (w : Nat) : Update → Prop
  | .running t rv => RunNoSat s w t rv
  | .runningPrefilled t rv => RunNoSat s w t rv
  | _ => True

instance (s : State) (w : Nat) (u : Update) : Decidable (UpdNoSat s w u) := by
  cases u <;> simp only [UpdNoSat] <;> infer_instance

/-- **`NoSaturation s op`** — the decidable per-step side condition of `c05_inv_partial`: every
Running / RunningPrefilled message of a task-update operation that makes `task_running` book a request
(`task_from_prefilled_to_started` for a Prefilled task, `insert_sn_task` for a Retracting task) finds the request
fitting into the reporting worker's free vector, in the state in which the reactor processes the message.
All other operations: no condition (placements of a scheduling round are validated by the model itself). -/
def NoSaturation (s : State) : Op → Prop
  | .update w us rets => UpdatesOk UpdNoSat s w us rets
  | _ => True

instance (s : State) (op : Op) : Decidable (NoSaturation s op) := by
  cases op <;> simp only [NoSaturation] <;> infer_instance

/-- the remaining side conditions: fresh worker records, requests naming every resource once, the Reject protocol
condition, and for a scheduling round the queue/dependency clause and the redirect-target clause of the sanity
checks + multi-node placements only for multi-node requests -/
def StepHyp (s : State) : Op → Prop
  | .newWorker w => FreshWorker w
  | .newRq rqv => RqvOk rqv
  | .update w us rets => UpdatesOk UpdProto s w us rets
  | .schedule sol => QueueOkD s ∧ SolMnOk s sol ∧ RdIn s
  | _ => True

instance (s : State) (op : Op) : Decidable (StepHyp s op) := by
  cases op <;> simp only [StepHyp] <;> infer_instance

theorem OpOk3.of {s : State} {op : Op} (h1 : StepHyp s op) (h2 : NoSaturation s op) : OpOk3 s op := by
  cases op <;> simp only [StepHyp, NoSaturation, OpOk3] at h1 h2 ⊢ <;> try exact h1
  rename_i w us rets
  refine UpdatesOk.mono ?_ _ _ _ (UpdatesOk.and us s rets h1 h2)
  intro s w u h
  cases u <;> simp only [UpdOk3, UpdProto, UpdNoSat] at h ⊢ <;> first | exact h.1 | exact h.2 | trivial

theorem OpOk3.split {s : State} {op : Op} (h : OpOk3 s op) : StepHyp s op ∧ NoSaturation s op := by
  cases op <;> simp only [StepHyp, NoSaturation, OpOk3] at h ⊢ <;> try exact ⟨h, trivial⟩
  rename_i w us rets
  constructor
  · exact UpdatesOk.mono (fun _ _ _ h => h.proto) _ _ _ h
  · refine UpdatesOk.mono ?_ _ _ _ h
    intro s w u h
    cases u <;> simp only [UpdOk3, UpdNoSat] at h ⊢ <;> first | exact h | trivial

/-! ### the resource equation in the vocabulary of the model -/

/-- the request entries task `t` holds reserved (`[]` when it holds none) -/
def State.reserved (s : State) (t : TaskId) : List RqEntry := (resvOf s.tasks s.redirects s.rqs t).getD []

/-- a task Assigned / Running with variant `v` holds the entries of variant `v` of its request -/
theorem reserved_assigned {s : State} {t : TaskId} {task : Task} {w v : Nat} {r : Rq} (ht : s.task? t = some task)
    (hs : task.state = .assigned w v ∨ task.state = .running w v) (hr : s.rq task.rq v = .ok r) :
    s.reserved t = r.entries := by
  unfold State.reserved
  rw [resvOf_assigned (s := s) ht hs hr]; rfl

/-- a Retracting task holds the entries of the variant recorded in its redirect -/
theorem reserved_retracting {s : State} {t : TaskId} {task : Task} {w0 w v : Nat} {r : Rq} (hd2 : (s.redirects.map (·.1)).Nodup)
    (ht : s.task? t = some task) (hs : task.state = .retracting w0) (hm : (t, w, v) ∈ s.redirects)
    (hr : s.rq task.rq v = .ok r) : s.reserved t = r.entries := by
  unfold State.reserved
  rw [resvOf_retracting (s := s) ht hs (rd_find_of_mem hd2 hm) hr]; rfl

/-- **`ResInv`**: for every single-node worker and every resource index `r`:
`free r + Σ_{t ∈ assigned_tasks} need(t) r = total r`, no truncation, `Policy.all` = the whole `total r` -/
theorem C05Inv.resinv {s : State} (hi : C05Inv s) {w : Nat} {wk : Worker} {A : List TaskId} {F : List Nat}
    {P : List TaskId} (hw : s.worker? w = some wk) (ha : wk.assign = .sn A F P) (r : Nat) :
    getD F r + (A.map fun t => need wk.total (s.reserved t) r).sum = getD wk.total r :=
  (hi.ir.res w wk A F P hw ha).2 r

/-- every task in `assigned_tasks` has a determined reservation: it is Assigned/Running with a valid variant of
its request, or Retracting with a redirect that names a valid variant -/
theorem C05Inv.reserved_known {s : State} (hi : C05Inv s) {w : Nat} {wk : Worker} {A : List TaskId} {F : List Nat}
    {P : List TaskId} (hw : s.worker? w = some wk) (ha : wk.assign = .sn A F P) {t : TaskId} (ht : t ∈ A) :
    (resvOf s.tasks s.redirects s.rqs t).isSome :=
  (hi.ir.res w wk A F P hw ha).1 t ht

/-- executable form of the equation for one worker and resource -/
def resAtB (s : State) (w r : Nat) : Bool :=
  match s.worker? w with
  | some wk =>
    match wk.assign with
    | .sn A F _ => getD F r + (A.map fun t => need wk.total (s.reserved t) r).sum == getD wk.total r
    | .mn .. => true
  | none => true

theorem Res.resAtB {s : State} (h : Res s) (w r : Nat) : resAtB s w r = true := by
  unfold Core.resAtB
  cases hw : s.worker? w with
  | none => rfl
  | some wk =>
    simp only
    cases ha : wk.assign with
    | mn a b c => rfl
    | sn A F P =>
      simp only
      have := (h w wk A F P hw ha).2 r
      simpa [sumNeed, State.reserved] using this

/-! ### F29: the side condition `RunNoSat` is necessary -/

/-- a run that satisfies every side condition: one worker with one unit of resource 0, three tasks that need the
whole unit. Round 1 assigns task 0 and prefills task 1 on the worker; task 0 is cancelled (its reservation is
released at once); round 2 assigns task 2 to the worker: the unit is booked again. -/
def f29Ops : List Op :=
  [.newWorker { id := 1, assign := .sn [] [10000] [], total := [10000] },
   .newRq [{ entries := [⟨0, .amount 10000⟩] }],
   .newTasks [{ id := (1, 0), rq := 0, prio := 0, crashLimit := .max 5, deps := [] },
              { id := (1, 1), rq := 0, prio := 0, crashLimit := .max 5, deps := [] },
              { id := (1, 2), rq := 0, prio := 0, crashLimit := .max 5, deps := [] }],
   .schedule { sn := [{ rq := 0, v := 0, counts := [(1, 1)], taken := [(1, 0)] }], prefillOrders := [(0, [1])] },
   .cancel [(1, 0)],
   .schedule { sn := [{ rq := 0, v := 0, counts := [(1, 1)], taken := [(1, 2)] }] }]

/-- the worker reuses the allocation of the cancelled task for its backlog task 1 and reports RunningPrefilled -/
def f29Op : Op := .update 1 [.runningPrefilled (1, 1) 0] []

/-- **F29**: after a run that satisfies all side conditions (so `C05Inv` holds), the RunningPrefilled message for
the prefilled task is accepted by the reactor although the worker's free vector is exhausted:
`task_from_prefilled_to_started` saturates, and afterwards `free + Σ reserved = 0 + 2·10000 ≠ 10000 = total`. The
side condition `RunNoSat` fails for exactly this message, so it cannot be dropped from `c05_step`. -/
theorem f29_witness :
    ∃ s s' out out', RunOk OpOk3 {} f29Ops ∧ run {} f29Ops = .ok (s, out) ∧ C05Inv s ∧
      ¬ OpOk3 s f29Op ∧ step s f29Op = .ok (s', out') ∧ resAtB s' 1 0 = false ∧ ¬ C05Inv s' := by
  have hok : RunOk OpOk3 {} f29Ops := by decide
  cases hrun : run {} f29Ops with
  | error e =>
    exfalso
    have : (run {} f29Ops).toOption.isSome = true := by decide
    rw [hrun] at this
    simp [Except.toOption] at this
  | ok r =>
    obtain ⟨s, out⟩ := r
    have hi : C05Inv s := c05_run hok hrun
    cases hstep : step s f29Op with
    | error e =>
      exfalso
      have : (match run {} f29Ops with
        | .ok (s, _) => (step s f29Op).toOption.isSome
        | .error _ => false) = true := by decide
      rw [hrun] at this
      simp [hstep, Except.toOption] at this
    | ok r' =>
      obtain ⟨s', out'⟩ := r'
      have hbad : resAtB s' 1 0 = false := by
        have : (match run {} f29Ops with
          | .ok (s, _) =>
            match step s f29Op with
            | .ok (s', _) => resAtB s' 1 0
            | .error _ => true
          | .error _ => true) = false := by decide
        rw [hrun] at this
        simpa [hstep] using this
      refine ⟨s, s', out, out', hok, rfl, hi, ?_, hstep, hbad, ?_⟩
      · have : (match run {} f29Ops with
          | .ok (s, _) => decide (OpOk3 s f29Op)
          | .error _ => true) = false := by decide
        rw [hrun] at this
        simpa using this
      · intro hi'
        have := hi'.ir.res.resAtB 1 0
        rw [hbad] at this; cases this

end HqModel.Core
