import HqModel.Lemmas.SysCoreSpec2
/-!
`on_new_tasks` (registers consumers: they stay inside the job when the dependencies do) and the structure of
`on_remove_worker` (the `running` list of the `worker lost` callback: distinct started tasks, none of them started
afterwards; then the crash loop).
-/
namespace HqModel.Core

/-! ### `on_new_tasks` -/

theorem registerDeps_specSys (id : TaskId) (deps : List TaskId) (ts : List Task) :
    ∀ t' ∈ (registerDeps ts id deps).1, ∃ t ∈ ts, t'.id = t.id ∧ t'.state = t.state ∧
      ∀ c ∈ t'.consumers, c ∈ t.consumers ∨ (c = id ∧ t'.id ∈ deps) := by
  induction deps generalizing ts with
  | nil => intro t' ht'; exact ⟨t', ht', rfl, rfl, fun c hc => .inl hc⟩
  | cons d rest ih =>
    intro t' ht'
    simp only [registerDeps] at ht'
    split at ht'
    · obtain ⟨t, ht, a, b, c⟩ := ih ts t' ht'
      exact ⟨t, ht, a, b, fun x hx => (c x hx).imp (fun e => e) (fun e => ⟨e.1, List.mem_cons_of_mem _ e.2⟩)⟩
    · rename_i dep hd
      generalize hreg : registerDeps (putTask ts { dep with consumers := if dep.consumers.contains id then dep.consumers else dep.consumers ++ [id] }) id rest = reg at ht'
      obtain ⟨ts2, kept, n⟩ := reg
      simp only at ht'
      have := ih (putTask ts { dep with consumers := if dep.consumers.contains id then dep.consumers else dep.consumers ++ [id] }) t'
        (by rw [hreg]; exact ht')
      obtain ⟨t1, ht1, a, b, c⟩ := this
      have hdid := findTask_some_id hd
      rcases mem_putTask' ht1 with e | e
      · subst e
        refine ⟨dep, findTask_some_mem hd, a, b, ?_⟩
        intro x hx
        rcases c x hx with e1 | e1
        · simp only at e1
          split at e1
          · exact .inl e1
          · rcases List.mem_append.mp e1 with e2 | e2
            · exact .inl e2
            · simp only [List.mem_singleton] at e2
              refine .inr ⟨e2, ?_⟩
              rw [a]; simp only; rw [hdid]; simp
        · exact .inr ⟨e1.1, List.mem_cons_of_mem _ e1.2⟩
      · exact ⟨t1, e, a, b, fun x hx => (c x hx).imp (fun e => e) (fun e => ⟨e.1, List.mem_cons_of_mem _ e.2⟩)⟩

theorem ConsJob.append_new {ts : List Task} (h : ConsJob ts) {task : Task} (hc : task.consumers = []) :
    ConsJob (ts ++ [task]) := by
  intro t ht c hcm
  rcases List.mem_append.mp ht with e | e
  · exact h t e c hcm
  · simp only [List.mem_singleton] at e
    subst e; rw [hc] at hcm; cases hcm

/-- the record `on_new_tasks` creates -/
def mkTask (nt : NewTask) (n : Nat) (kept : List TaskId) : Task :=
  { id := nt.id, state := .waiting n, deps := kept, rq := nt.rq, prio := nt.prio,
    crashLimit := nt.crashLimit, inst := nt.inst, crashes := nt.crashes }

theorem addNewTasks_spec (nts : List NewTask) (s s' : State) (r r' : List TaskId)
    (hdeps : ∀ nt ∈ nts, ∀ d ∈ nt.deps, d.1 = nt.id.1) (hcj : ConsJob s.tasks)
    (h : s.addNewTasks nts r = .ok (s', r')) :
    ConsJob s'.tasks ∧ s'.workers = s.workers ∧ taskIds s'.tasks = taskIds s.tasks ++ nts.map (·.id) ∧
    ∀ t' ∈ s'.tasks, (∃ t ∈ s.tasks, t'.id = t.id ∧ t'.state = t.state) ∨ ∃ n, t'.state = .waiting n := by
  induction nts generalizing s r with
  | nil =>
    simp only [State.addNewTasks] at h
    cases h
    exact ⟨hcj, rfl, by simp, fun t ht => .inl ⟨t, ht, rfl, rfl⟩⟩
  | cons nt rest ih =>
    simp only [State.addNewTasks] at h
    have hreg := registerDeps_specSys nt.id nt.deps s.tasks
    have hids := registerDeps_ids nt.deps s.tasks nt.id
    generalize registerDeps s.tasks nt.id nt.deps = reg at h hreg hids
    obtain ⟨ts, kept, n⟩ := reg
    simp only at h hreg hids
    have hcj1 : ConsJob ts := by
      intro t' ht' c hc
      obtain ⟨t, ht, a, _, cc⟩ := hreg t' ht'
      rcases cc c hc with e | ⟨e1, e2⟩
      · rw [a]; exact hcj t ht c e
      · rw [e1]; exact (hdeps nt (by simp) _ e2).symm
    have hst1 : ∀ t' ∈ ts, ∃ t ∈ s.tasks, t'.id = t.id ∧ t'.state = t.state := by
      intro t' ht'
      obtain ⟨t, ht, a, b, _⟩ := hreg t' ht'
      exact ⟨t, ht, a, b⟩
    have tail : ∀ (s2 : State) (r2 : List TaskId), s2.tasks = ts → s2.workers = s.workers →
        State.addNewTasks { s2 with tasks := s2.tasks ++ [mkTask nt n kept] } rest r2 = .ok (s', r') →
        ConsJob s'.tasks ∧ s'.workers = s.workers ∧ taskIds s'.tasks = taskIds s.tasks ++ (nt :: rest).map (·.id) ∧
        ∀ t' ∈ s'.tasks, (∃ t ∈ s.tasks, t'.id = t.id ∧ t'.state = t.state) ∨ ∃ n, t'.state = .waiting n := by
      intro s2 r2 e2 ew h
      obtain ⟨a, b, c, d⟩ := ih _ _ (fun x hx => hdeps x (List.mem_cons_of_mem _ hx))
        (by show ConsJob (s2.tasks ++ [_]); rw [e2]; exact hcj1.append_new rfl) h
      refine ⟨a, b.trans ew, ?_, ?_⟩
      · rw [c]
        show taskIds (s2.tasks ++ [_]) ++ _ = _
        rw [e2]
        simp only [taskIds, List.map_append, List.map_cons, List.map_nil, List.append_assoc, List.singleton_append]
        rw [show List.map (fun x => x.id) ts = taskIds ts from rfl, hids]
        rfl
      · intro t' ht'
        rcases d t' ht' with ⟨t, ht, x, y⟩ | e
        · change t ∈ s2.tasks ++ [_] at ht
          rw [e2] at ht
          rcases List.mem_append.mp ht with e | e
          · obtain ⟨t0, ht0, x0, y0⟩ := hst1 t e
            exact .inl ⟨t0, ht0, x.trans x0, y.trans y0⟩
          · simp only [List.mem_singleton] at e
            subst e
            exact .inr ⟨n, y⟩
        · exact .inr e
    split at h
    · cases h
    · split at h
      · split at h
        · cases h
        · rename_i s2 r2 ha
          exact tail s2 _ (addReady_tasks ha) (addReady_core ha).w h
      · exact tail { s with tasks := ts } _ rfl rfl h

/-- **`on_new_tasks`**: no callback, the new keys are added, consumers stay inside the job, nothing becomes started -/
theorem newTasks_spec {s s' : State} {nts : List NewTask} {o : Out} (hn : (taskIds s.tasks).Nodup)
    (hdeps : ∀ nt ∈ nts, ∀ d ∈ nt.deps, d.1 = nt.id.1) (hcj : ConsJob s.tasks)
    (h : s.newTasks nts = .ok (s', o)) :
    o.cbs = [] ∧ (∀ t, t ∈ taskIds s'.tasks ↔ t ∈ taskIds s.tasks ∨ t ∈ nts.map (·.id)) ∧ ConsJob s'.tasks ∧
    WFr s.workers s'.workers ∧ ∀ t, hot s' t → hot s t := by
  have hcb := newTasks_cbs h
  have hnd' := newTasks_nodup hn h
  simp only [State.newTasks] at h
  split at h
  · cases h
  · split at h
    · cases h
    · rename_i s1 retracted h1
      split at h
      · cases h
      · rename_i s2 out hr
        cases h
        obtain ⟨a, b, c, d⟩ := addNewTasks_spec _ _ _ _ _ hdeps hcj h1
        have hn1 := addNewTasks_nodup _ _ _ _ _ hn h1
        have f := retract_frc hr
        have e2 : taskIds s2.tasks = taskIds s1.tasks := retract_stable hr
        refine ⟨hcb, ?_, ConsJob.of_tfr a f.t, ?_, ?_⟩
        · intro t
          show t ∈ taskIds s2.tasks ↔ _
          rw [e2, c]; simp
        · intro x wk' hx
          obtain ⟨wk, h0, rel⟩ := f.w x wk' hx
          exact ⟨wk, by rw [← b]; exact h0, rel⟩
        · intro t ht
          have h1' : hot s1 t := hot_of_frc f hn1 (by exact ht)
          -- from s1 back to s: the old records kept their state, the new ones are Waiting
          have key : ∀ st, stOf s1.tasks t = some st → (∀ n, st ≠ .waiting n) → stOf s.tasks t = some st := by
            intro st hst hnw
            obtain ⟨task', hf, rfl⟩ := stOf_some hst
            rcases d task' (findTask_some_mem hf) with ⟨t0, ht0, x, y⟩ | ⟨n, e⟩
            · have := stOf_of_mem hn ht0
              rw [← x, findTask_some_id hf, ← y] at this
              exact this
            · exact absurd e (hnw n)
          rcases h1' with ⟨w, v, hs⟩ | ⟨l, hs, x, wk, r, hw, ha⟩
          · exact .inl ⟨w, v, key _ hs (fun n e => by cases e)⟩
          · exact .inr ⟨l, key _ hs (fun n e => by cases e), x, wk, r, by rw [← b]; exact hw, ha⟩

/-! ### `on_remove_worker` -/

theorem not_hot_of_cold {s : State} {t : TaskId} {st : TS} (hs : stOf s.tasks t = some st)
    (hc : stOk False (.waiting 0) st) : ¬ hot s t := by
  rintro (⟨w, v, h⟩ | ⟨l, h, _⟩)
  · rw [hs] at h; cases h; simp [stOk] at hc
  · rw [hs] at h; cases h; simp [stOk] at hc

theorem not_hot_of_frc {s s' : State} (f : Frc s s') (hn : (taskIds s.tasks).Nodup) {t : TaskId} (h : ¬ hot s t) :
    ¬ hot s' t := fun h' => h (hot_of_frc f hn h')

theorem stOf_setTask_self {s : State} {id : TaskId} {task t' : Task} (hf : s.task? id = some task) (hid : t'.id = task.id) :
    stOf (s.setTask t').tasks id = some t'.state := by
  have hid' := findTask_some_id hf
  show stOf (putTask s.tasks t') id = _
  rw [stOf_put (told := task) (by rw [hid, hid']; exact hf)]
  simp [hid, hid']

/-- the loop over the lost worker's assigned tasks: the tasks appended to the `running` list are distinct, were
started, and are not started afterwards -/
theorem lostAssigned_spec (ids : List TaskId) (s s' : State) (ru ru' re re' : List TaskId)
    (hn : (taskIds s.tasks).Nodup) (h : s.lostAssigned ids ru re = .ok (s', ru', re')) :
    ∃ new, ru' = ru ++ new ∧ new.Nodup ∧ (∀ t ∈ new, hot s t) ∧ ∀ t ∈ new, ¬ hot s' t := by
  induction ids generalizing s ru re with
  | nil =>
    simp only [State.lostAssigned] at h
    cases h
    exact ⟨[], by simp, List.nodup_nil, (fun _ h => nomatch h), (fun _ h => nomatch h)⟩
  | cons id rest ih =>
    have hfull := lostAssigned_frc _ _ _ _ _ _ _ h
    simp only [State.lostAssigned] at h
    split at h
    · cases h
    · rename_i task hg
      have ht := task?_of_get hg
      have step : ∀ (s0 : State) (t0 : Task) (ru0 : List TaskId), Frc s s0 → s0.tasks = s.tasks →
          t0.id = task.id → t0.consumers = task.consumers → stOk False task.state t0.state →
          (match (s0.setTask { t0 with inst := t0.inst + 1 }).addReady { t0 with inst := t0.inst + 1 } with
            | .error e => (.error e : M (State × List TaskId × List TaskId))
            | .ok (s2, r) => State.lostAssigned s2 rest ru0 (re ++ r)) = .ok (s', ru', re') →
          ∃ s2, Frc s s2 ∧ (taskIds s2.tasks).Nodup ∧ stOf s2.tasks id = some t0.state ∧ Frc s2 s' ∧
            ∃ new, ru' = ru0 ++ new ∧ new.Nodup ∧ (∀ t ∈ new, hot s2 t) ∧ ∀ t ∈ new, ¬ hot s' t := by
        intro s0 t0 ru0 f0 e0 hid hc hs h
        have f1 : Frc s0 (s0.setTask { t0 with inst := t0.inst + 1 }) :=
          Fr.setState (task?_congr e0 ht) hid hc hs
        split at h
        · cases h
        · rename_i s2 r ha
          have e2 := addReady_tasks ha
          have hn2 : (taskIds s2.tasks).Nodup := by rw [e2, setTask_ids, e0]; exact hn
          refine ⟨s2, (f0.trans f1).trans (addReady_core ha).frc, hn2, ?_, lostAssigned_frc _ _ _ _ _ _ _ h, ih _ _ _ hn2 h⟩
          rw [e2]
          exact stOf_setTask_self (t' := { t0 with inst := t0.inst + 1 }) (task?_congr e0 ht) hid
      have hst := stOf_of_find (show findTask s.tasks id = some task from ht)
      split at h
      · -- Running: joins the list
        rename_i w v hs
        obtain ⟨s2, f2, hn2, hs2, f2', new, e, nd, hh, hc⟩ := step s { task with state := .waiting 0 } _ (Frc.refl _) rfl rfl rfl trivial h
        have hcold : ¬ hot s2 id := not_hot_of_cold hs2 trivial
        refine ⟨id :: new, by rw [e]; simp, List.nodup_cons.mpr ⟨fun hm => hcold (hh id hm), nd⟩, ?_, ?_⟩
        · intro t htm
          rcases List.mem_cons.mp htm with e1 | e1
          · subst e1; exact .inl ⟨w, v, by rw [hst, hs]⟩
          · exact hot_of_frc f2 hn (hh t e1)
        · intro t htm
          rcases List.mem_cons.mp htm with e1 | e1
          · subst e1; exact not_hot_of_frc f2' hn2 hcold
          · exact hc t e1
      · split at h
        · cases h
        · obtain ⟨s2, f2, hn2, _, _, new, e, nd, hh, hc⟩ :=
            step { s with redirects := s.redirects.filter (·.1 ≠ id) } task _ (Fr.of_eq rfl rfl) rfl rfl rfl (stOk.refl _ _) h
          exact ⟨new, e, nd, fun t htm => hot_of_frc f2 hn (hh t htm), hc⟩
      · obtain ⟨s2, f2, hn2, _, _, new, e, nd, hh, hc⟩ :=
          step s { task with state := .waiting 0 } _ (Frc.refl _) rfl rfl rfl trivial h
        exact ⟨new, e, nd, fun t htm => hot_of_frc f2 hn (hh t htm), hc⟩

end HqModel.Core
