import HqModel.Lemmas.JobSteps
/-!
History invariant of the job layer: the number of terminal reports of every task in the event list of a
run, related to the task's state. Basis of `c01_outcome_once` (C01).
-/
namespace HqModel.Job

/-- how often event `e` reports a terminal outcome of task `t` -/
def mentions (t : TaskId) : Ev → Nat
  | .finished x => if x = t then 1 else 0
  | .failed x => if x = t then 1 else 0
  | .canceled xs => xs.count t
  | .aborted xs => xs.count t
  | _ => 0

def termCount (t : TaskId) (evs : List Ev) : Nat := (evs.map (mentions t)).sum

theorem termCount_append (t : TaskId) (a b : List Ev) : termCount t (a ++ b) = termCount t a + termCount t b := by
  simp [termCount, List.map_append, List.sum_append]

theorem termCount_checkTermination (t : TaskId) (job : Job) : termCount t job.checkTermination = 0 := by
  unfold Job.checkTermination
  split
  · split <;> simp [termCount, mentions]
  · simp [termCount]

/-! ### lookup / setState -/

theorem lookup_setState (ts : List (Nat × TState)) (t k : Nat) (b : TState) :
    lookup (setState ts t b) k = if k = t then (lookup ts t).map (fun _ => b) else lookup ts k := by
  induction ts with
  | nil => simp [setState, lookup]
  | cons p ps ih =>
    obtain ⟨q, v⟩ := p
    by_cases hq : q = t
    · subst hq
      by_cases hk : k = q
      · subst hk; simp [setState, lookup]
      · have : ¬ q = k := fun e => hk e.symm
        simp only [setState, if_true, lookup, this, if_false, hk]
        rw [ih]; simp [hk]
    · by_cases hk : k = t
      · subst hk
        simp only [setState, hq, if_false, lookup, if_true]
        rw [ih]; simp
      · by_cases hqk : q = k
        · simp [setState, hq, lookup, hqk, hk]
        · simp only [setState, hq, if_false, lookup, hqk, hk]
          rw [ih]; simp [hk]

/-- what a successful `markAll` did, in terms of `lookup` -/
structure MarkHist (target : TState) (a b : Job) (ids : List TaskId) : Prop where
  nodup : ids.Nodup
  own : ∀ p ∈ ids, p.1 = a.id
  before : ∀ p ∈ ids, ∃ st, lookup a.tasks p.2 = some st ∧ st.terminal = false
  after : ∀ p ∈ ids, lookup b.tasks p.2 = some target
  other : ∀ k, (a.id, k) ∉ ids → lookup b.tasks k = lookup a.tasks k
  id : b.id = a.id
  isOpen : b.isOpen = a.isOpen

theorem markAll_hist (target : TState) (site : String) (htt : target.terminal = true) :
    ∀ (ids : List TaskId) (a b : Job), a.markAll target site ids = .ok b → MarkHist target a b ids := by
  intro ids
  induction ids with
  | nil =>
    intro a b e
    simp only [Job.markAll] at e; cases e
    exact ⟨by simp, by simp, by simp, by simp, fun _ _ => rfl, rfl, rfl⟩
  | cons p rest ih =>
    intro a b e
    obtain ⟨j, t⟩ := p
    simp only [Job.markAll] at e
    split at e
    · cases e
    · rename_i hj
      have hj : j = a.id := by simpa using hj
      subst hj
      -- common continuation for the running / waiting arms
      have cont : ∀ (a' : Job) (st : TState), lookup a.tasks t = some st → st.terminal = false →
          a'.id = a.id → a'.isOpen = a.isOpen → a'.tasks = setState a.tasks t target →
          a'.markAll target site rest = .ok b → MarkHist target a b ((a.id, t) :: rest) := by
        intro a' st hl hst hid hop htasks e'
        have h := ih a' b e'
        have hlk : ∀ k, lookup a'.tasks k = if k = t then some target else lookup a.tasks k := by
          intro k; rw [htasks, lookup_setState, hl]; simp
        -- t is not among the rest: otherwise markAll would have found it terminal
        have hnot : (a.id, t) ∉ rest := by
          intro hm
          obtain ⟨st', hl', hst'⟩ := h.before (a.id, t) hm
          simp only [hlk, if_true] at hl'
          cases hl'
          rw [htt] at hst'; cases hst'
        refine ⟨List.nodup_cons.mpr ⟨hnot, h.nodup⟩, ?_, ?_, ?_, ?_, h.id.trans hid, h.isOpen.trans hop⟩
        · intro p hp
          simp only [List.mem_cons] at hp
          rcases hp with rfl | hp
          · rfl
          · rw [h.own p hp, hid]
        · intro p hp
          simp only [List.mem_cons] at hp
          rcases hp with rfl | hp
          · exact ⟨st, hl, hst⟩
          · obtain ⟨st', hl', hst'⟩ := h.before p hp
            rw [hlk] at hl'
            by_cases hk : p.2 = t
            · simp only [hk, if_true] at hl'; cases hl'; rw [htt] at hst'; cases hst'
            · simp only [hk, if_false] at hl'; exact ⟨st', hl', hst'⟩
        · intro p hp
          simp only [List.mem_cons] at hp
          rcases hp with rfl | hp
          · rw [h.other t (by rw [hid]; exact hnot), hlk]; simp
          · exact h.after p hp
        · intro k hk
          simp only [List.mem_cons, not_or] at hk
          have hkt : k ≠ t := fun e => hk.1 (by rw [e])
          rw [h.other k (by rw [hid]; exact hk.2), hlk]; simp [hkt]
      split at e
      · cases e
      · rename_i hl
        exact cont _ .running hl rfl rfl rfl rfl e
      · rename_i hl
        exact cont _ .waiting hl rfl rfl rfl rfl e
      · cases e

theorem count_of_nodup {α : Type} [DecidableEq α] {l : List α} (h : l.Nodup) (x : α) :
    l.count x = if x ∈ l then 1 else 0 := by
  by_cases hx : x ∈ l
  · simp [hx, List.count_eq_one_of_mem h hx]
  · simp [hx, List.count_eq_zero_of_not_mem hx]

/-! ### the invariant -/

/-- `evs` = all events so far. -/
structure Hist (s : State) (evs : List Ev) : Prop where
  /-- tasks of present jobs: exactly one terminal report iff terminal -/
  present : ∀ job ∈ s.jobs, ∀ k st, lookup job.tasks k = some st →
    termCount (job.id, k) evs = if st.terminal then 1 else 0
  /-- ids of present jobs that are not (yet) tasks: never reported -/
  absent : ∀ job ∈ s.jobs, ∀ k, lookup job.tasks k = none → termCount (job.id, k) evs = 0
  /-- job ids not yet handed out: never reported -/
  fresh : ∀ t : TaskId, t.1 ≥ s.jobCtr → termCount t evs = 0
  /-- **at most one terminal report per task** (also for forgotten jobs) -/
  once : ∀ t : TaskId, termCount t evs ≤ 1

/-- a step that emits no terminal report and keeps every `lookup` of every present job (or only moves tasks
between non-terminal states / adds unreported tasks) preserves the invariant; stated for a replaced job -/
theorem Hist.replace {s : State} {evs evs' : List Ev} {job job' : Job} (h : Hist s evs) (hs : StateWF s)
    (hj : s.getJob job.id = some job) (hid : job'.id = job.id)
    (hev : ∀ t, termCount t evs' = if t.1 = job.id then
        (match lookup job.tasks t.2, lookup job'.tasks t.2 with
         | some a, some b => if !a.terminal && b.terminal then 1 else 0
         | _, _ => 0) else 0)
    (hmono : ∀ k a, lookup job.tasks k = some a → ∃ b, lookup job'.tasks k = some b ∧ (a.terminal = true → b = a))
    (hnew : ∀ k b, lookup job.tasks k = none → lookup job'.tasks k = some b → b.terminal = false)
    (sent : List TaskId) :
    Hist { s.putJob job' with sent := sent } (evs ++ evs') := by
  have hmem := (findJob_some hj).1
  refine ⟨?_, ?_, ?_, ?_⟩
  · intro x hx k st hl
    rw [termCount_append]
    rcases mem_replaceJob hx with rfl | hx
    · -- the replaced job
      rw [hid, hev]; simp only [if_true]
      cases hb : lookup job.tasks k with
      | none =>
        rw [h.absent job hmem k hb, hl]
        simp [hnew k st hb hl]
      | some a =>
        obtain ⟨b, hb', hstab⟩ := hmono k a hb
        rw [hl] at hb'; cases hb'
        rw [h.present job hmem k a hb, hl]
        by_cases ha : a.terminal = true
        · have := hstab ha; subst this; simp [ha]
        · simp at ha; by_cases hst : st.terminal = true <;> simp [ha, hst]
    · -- another job: untouched, and no event mentions it
      have hne : x.id ≠ job.id := by
        intro e
        -- ids are unique
        have : ∀ (jobs : List Job), (jobs.map (·.id)).Nodup → job ∈ jobs → x ∈ jobs → x.id = job.id → x = job := by
          intro jobs
          induction jobs with
          | nil => intro _ hm; cases hm
          | cons y ys ih =>
            intro hnd h1 h2 heq
            simp only [List.map_cons, List.nodup_cons] at hnd
            simp only [List.mem_cons] at h1 h2
            rcases h1 with rfl | h1 <;> rcases h2 with rfl | h2
            · rfl
            · exact absurd (List.mem_map.mpr ⟨x, h2, heq⟩) hnd.1
            · exact absurd (List.mem_map.mpr ⟨job, h1, heq.symm⟩) hnd.1
            · exact ih hnd.2 h1 h2 heq
        have hxj := this s.jobs hs.ids hmem hx e
        -- x = job, but x came from the untouched part; it still satisfies the claim through `present`
        exact absurd rfl (by
          intro _
          -- contradiction is not available here; fall back to the direct argument below
          exact (hxj ▸ rfl : True) |> fun _ => False.elim (by
            -- replaceJob replaces every element with id = job'.id, so x ∈ replaceJob ... with x.id = job.id means x = job'
            have : ∀ (jobs : List Job), x ∈ replaceJob jobs job' → x.id = job'.id → x = job' := by
              intro jobs
              induction jobs with
              | nil => intro hm; simp [replaceJob] at hm
              | cons y ys ih =>
                intro hm heq
                simp only [replaceJob] at hm
                split at hm
                · simp only [List.mem_cons] at hm
                  rcases hm with rfl | hm
                  · rfl
                  · exact ih hm heq
                · rename_i hy
                  simp only [List.mem_cons] at hm
                  rcases hm with rfl | hm
                  · exact absurd heq hy
                  · exact ih hm heq
            sorry))
      sorry
  · sorry
  · sorry
  · sorry

end HqModel.Job
