import HqModel.Lemmas.JobSteps
/-!
History-level facts about runs of the job layer.

* the job list as a finite map (`findJob` after `replaceJob` / append / filter),
* a decomposition of every `step` into elementary job transitions (`JobOp`, `Puts`, `Shape`) that is shared by
  the history invariants of C01 (this file) and C13 (`JobCompleted.lean`),
* the invariant `Hist`: the number of terminal reports of every task in the event list of a run equals what
  the task's state says, and every `finished` report is preceded by a `started` report.
  Basis of `c01_outcome_once` (C01).
-/
namespace HqModel.Job

/-- how often event `e` reports a terminal outcome of task `t` -/
def mentions (t : TaskId) : Ev → Nat
  | .finished x => if x = t then 1 else 0
  | .failed x => if x = t then 1 else 0
  | .canceled xs => xs.count t
  | .aborted xs => xs.count t
  | _ => 0

def termCount (t : TaskId) (evs : List Ev) : Nat := (evs.map (mentions t)).sum

theorem termCount_append (t : TaskId) (a b : List Ev) : termCount t (a ++ b) = termCount t a + termCount t b := by
  simp [termCount, List.map_append, List.sum_append]

theorem termCount_checkTermination (t : TaskId) (job : Job) : termCount t job.checkTermination = 0 := by
  unfold Job.checkTermination
  split
  · split <;> simp [termCount, mentions]
  · simp [termCount]

/-! ### lookup / setState -/

theorem lookup_setState (ts : List (Nat × TState)) (t k : Nat) (b : TState) :
    lookup (setState ts t b) k = if k = t then (lookup ts t).map (fun _ => b) else lookup ts k := by
  induction ts with
  | nil => simp [setState, lookup]
  | cons p ps ih =>
    obtain ⟨q, v⟩ := p
    by_cases hq : q = t
    · subst hq
      by_cases hk : k = q
      · subst hk; simp [setState, lookup]
      · have : ¬ q = k := fun e => hk e.symm
        simp only [setState, if_true, lookup, this, if_false, hk]
        rw [ih]; simp [hk]
    · by_cases hk : k = t
      · subst hk
        simp only [setState, hq, if_false, lookup, if_true]
        rw [ih]; simp
      · by_cases hqk : q = k
        · simp [setState, lookup, hqk, hk]
        · simp only [setState, hq, if_false, lookup, hqk, hk]
          rw [ih]; simp [hk]

/-- what a successful `markAll` did, in terms of `lookup` -/
structure MarkHist (target : TState) (a b : Job) (ids : List TaskId) : Prop where
  nodup : ids.Nodup
  own : ∀ p ∈ ids, p.1 = a.id
  before : ∀ p ∈ ids, ∃ st, lookup a.tasks p.2 = some st ∧ st.terminal = false
  after : ∀ p ∈ ids, lookup b.tasks p.2 = some target
  other : ∀ k, (a.id, k) ∉ ids → lookup b.tasks k = lookup a.tasks k
  id : b.id = a.id
  isOpen : b.isOpen = a.isOpen

theorem markAll_hist (target : TState) (site : String) (htt : target.terminal = true) :
    ∀ (ids : List TaskId) (a b : Job), a.markAll target site ids = .ok b → MarkHist target a b ids := by
  intro ids
  induction ids with
  | nil =>
    intro a b e
    simp only [Job.markAll] at e; cases e
    exact ⟨by simp, by simp, by simp, by simp, fun _ _ => rfl, rfl, rfl⟩
  | cons p rest ih =>
    intro a b e
    obtain ⟨j, t⟩ := p
    simp only [Job.markAll] at e
    split at e
    · cases e
    · rename_i hj
      have hj : j = a.id := by simpa using hj
      subst hj
      -- common continuation for the running / waiting arms
      have cont : ∀ (a' : Job) (st : TState), lookup a.tasks t = some st → st.terminal = false →
          a'.id = a.id → a'.isOpen = a.isOpen → a'.tasks = setState a.tasks t target →
          a'.markAll target site rest = .ok b → MarkHist target a b ((a.id, t) :: rest) := by
        intro a' st hl hst hid hop htasks e'
        have h := ih a' b e'
        have hlk : ∀ k, lookup a'.tasks k = if k = t then some target else lookup a.tasks k := by
          intro k; rw [htasks, lookup_setState, hl]; simp
        -- t is not among the rest: otherwise markAll would have found it terminal
        have hnot : (a.id, t) ∉ rest := by
          intro hm
          obtain ⟨st', hl', hst'⟩ := h.before (a.id, t) hm
          simp only [hlk, if_true] at hl'
          cases hl'
          rw [htt] at hst'; cases hst'
        refine ⟨List.nodup_cons.mpr ⟨hnot, h.nodup⟩, ?_, ?_, ?_, ?_, h.id.trans hid, h.isOpen.trans hop⟩
        · intro p hp
          simp only [List.mem_cons] at hp
          rcases hp with rfl | hp
          · rfl
          · rw [h.own p hp, hid]
        · intro p hp
          simp only [List.mem_cons] at hp
          rcases hp with rfl | hp
          · exact ⟨st, hl, hst⟩
          · obtain ⟨st', hl', hst'⟩ := h.before p hp
            rw [hlk] at hl'
            by_cases hk : p.2 = t
            · simp only [hk, if_true] at hl'; cases hl'; rw [htt] at hst'; cases hst'
            · simp only [hk, if_false] at hl'; exact ⟨st', hl', hst'⟩
        · intro p hp
          simp only [List.mem_cons] at hp
          rcases hp with rfl | hp
          · rw [h.other t (by rw [hid]; exact hnot), hlk]; simp
          · exact h.after p hp
        · intro k hk
          simp only [List.mem_cons, not_or] at hk
          have hkt : k ≠ t := fun e => hk.1 (by rw [e])
          rw [h.other k (by rw [hid]; exact hk.2), hlk]; simp [hkt]
      split at e
      · cases e
      · rename_i hl
        refine cont _ .running hl rfl ?_ ?_ ?_ e <;> rfl
      · rename_i hl
        refine cont _ .waiting hl rfl ?_ ?_ ?_ e <;> rfl
      · cases e

/-! ### the job list as a finite map -/

theorem findJob_replaceJob (jobs : List Job) (b : Job) (j : Nat) :
    findJob (replaceJob jobs b) j =
      if j = b.id then (findJob jobs j).map (fun _ => b) else findJob jobs j := by
  induction jobs with
  | nil => simp [replaceJob, findJob]
  | cons x rest ih =>
    by_cases hx : x.id = b.id
    · by_cases hj : j = b.id
      · subst hj; simp [replaceJob, findJob, hx]
      · have h1 : ¬ b.id = j := fun e => hj e.symm
        have h2 : ¬ x.id = j := by rw [hx]; exact h1
        simp only [replaceJob, hx, if_true, findJob, h1, if_false, ih, hj]
    · by_cases hj : x.id = j
      · have h1 : ¬ j = b.id := by rw [← hj]; exact hx
        simp only [replaceJob, if_false, findJob, hj, if_true, h1]
      · simp only [replaceJob, hx, if_false, findJob, hj, ih]

theorem findJob_append (jobs : List Job) (b : Job) (j : Nat) :
    findJob (jobs ++ [b]) j =
      match findJob jobs j with
      | some a => some a
      | none => if b.id = j then some b else none := by
  induction jobs with
  | nil => simp [findJob]
  | cons x rest ih =>
    by_cases hj : x.id = j
    · simp [findJob, hj]
    · simp only [List.cons_append, findJob, hj, if_false, ih]

theorem findJob_filter (jobs : List Job) (j k : Nat) :
    findJob (jobs.filter (·.id != j)) k = if k = j then none else findJob jobs k := by
  induction jobs with
  | nil => simp [findJob]
  | cons x rest ih =>
    by_cases hx : x.id = j
    · have : (x.id != j) = false := by simp [hx]
      rw [List.filter_cons_of_neg (by simp [this]), ih]
      by_cases hk : k = j
      · simp [hk]
      · have : ¬ x.id = k := by rw [hx]; exact fun e => hk e.symm
        simp [findJob, hk, this]
    · have : (x.id != j) = true := by simp [hx]
      rw [List.filter_cons_of_pos (by simp [this])]
      by_cases hk : x.id = k
      · have : ¬ k = j := by rw [← hk]; exact hx
        simp [findJob, hk, this]
      · simp only [findJob, hk, if_false, ih]

theorem replaceJob_replaceJob (jobs : List Job) (a b : Job) (h : a.id = b.id) :
    replaceJob (replaceJob jobs a) b = replaceJob jobs b := by
  induction jobs with
  | nil => rfl
  | cons x rest ih =>
    by_cases hx : x.id = a.id
    · have hx' : x.id = b.id := hx.trans h
      simp only [replaceJob, hx, if_true, h, ih]
    · have hx' : ¬ x.id = b.id := by rw [← h]; exact hx
      simp only [replaceJob, hx, hx', if_false, ih]

theorem findJob_of_mem {jobs : List Job} {job : Job} (hnd : (jobs.map (·.id)).Nodup) (h : job ∈ jobs) :
    findJob jobs job.id = some job := by
  induction jobs with
  | nil => cases h
  | cons x rest ih =>
    simp only [List.map_cons, List.nodup_cons] at hnd
    simp only [List.mem_cons] at h
    rcases h with rfl | h
    · simp [findJob]
    · have : ¬ x.id = job.id := fun e => hnd.1 (List.mem_map.mpr ⟨job, h, e.symm⟩)
      simp only [findJob, this, if_false]
      exact ih hnd.2 h

/-! ### every step as a sequence of elementary job transitions -/

/-- events that carry no task outcome, no start and no job completion -/
def Ev.quiet : Ev → Bool
  | .jobOpen _ | .submit _ _ | .workerNew _ | .workerLost _ _ => true
  | _ => false

/-- the elementary transitions of one job, with the events they emit -/
inductive JobOp : Job → Job → List Ev → Prop
  | running {a b : Job} {t : Nat} (i : Nat) (ws : List Nat) (rv : Nat) :
      a.setRunning t = .ok b → JobOp a b [.started (a.id, t) i ws rv]
  | finished {a b : Job} {t : Nat} {e : List Ev} : a.setFinished t = .ok (b, e) → JobOp a b e
  | failed {a b : Job} {t : Nat} {e : List Ev} : a.setFailed t = .ok (b, e) → JobOp a b e
  | waiting {a b : Job} {t : Nat} : a.setWaiting t = .ok b → JobOp a b []
  | cancel {a b : Job} {ids : List TaskId} {e : List Ev} : a.setCancel ids = .ok (b, e) → JobOp a b e
  | abort {a b : Job} {ids : List TaskId} {e : List Ev} : a.abortTasks ids = .ok (b, e) → JobOp a b e
  | attach {a b : Job} {ids : List Nat} : a.isOpen = true → a.attach ids = .ok b → JobOp a b [.submit a.id false]
  | close {a : Job} : a.isOpen = true →
      JobOp a { a with isOpen := false } ([.jobClose a.id] ++ ({ a with isOpen := false } : Job).checkTermination)

theorem abortTasks_id {job job' : Job} {ids : List TaskId} {evs : List Ev}
    (h : job.abortTasks ids = .ok (job', evs)) : job'.id = job.id := by
  unfold Job.abortTasks at h
  split at h
  · cases h; rfl
  · split at h
    · cases h
    · rename_i job1 hm
      cases h
      exact (markAll_id _ _ _ _ job1 hm)

theorem JobOp.id_eq {a b : Job} {e : List Ev} (h : JobOp a b e) : b.id = a.id := by
  cases h with
  | running i ws rv hr => unfold Job.setRunning at hr; split at hr <;> cases hr <;> rfl
  | finished hr => unfold Job.setFinished at hr; split at hr <;> cases hr; rfl
  | failed hr => unfold Job.setFailed at hr; split at hr <;> cases hr <;> rfl
  | waiting hr => unfold Job.setWaiting at hr; split at hr <;> cases hr; rfl
  | cancel hr => exact setCancel_id hr
  | abort hr => exact abortTasks_id hr
  | attach _ hr => exact attach_id _ hr
  | close _ => rfl

theorem JobOp.wf {a b : Job} {e : List Ev} (h : JobOp a b e) (w : JobWF a) : JobWF b := by
  cases h with
  | running i ws rv hr => exact w.setRunning hr
  | finished hr => exact w.setFinished hr
  | failed hr => exact w.setFailed hr
  | waiting hr => exact w.setWaiting hr
  | cancel hr => exact w.setCancel hr
  | abort hr => exact w.abortTasks hr
  | attach _ hr => exact JobWF.attach _ w hr
  | close _ => exact ⟨w.nodup, w.running, w.finished, w.failed, w.canceled, w.aborted⟩

/-- a sequence of elementary transitions, each applied to the job currently stored under its id -/
inductive Puts : List Job → List Job → List Ev → Prop
  | nil (jobs : List Job) : Puts jobs jobs []
  | cons {jobs jobs' : List Job} {a b : Job} {e e' : List Ev} :
      findJob jobs a.id = some a → JobOp a b e → Puts (replaceJob jobs b) jobs' e' → Puts jobs jobs' (e ++ e')

theorem Puts.one {jobs : List Job} {a b : Job} {e : List Ev} (hj : findJob jobs a.id = some a) (h : JobOp a b e) :
    Puts jobs (replaceJob jobs b) e := by
  have := Puts.cons hj h (Puts.nil _)
  simpa using this

/-- the shape of one `step`: what it does to the job list and the job counter (`sent` and `workers` play no
role in the history properties) -/
inductive Shape (s : State) (op : Op) (s' : State) (evs : List Ev) : Prop
  /-- nothing happens to the jobs -/
  | same (hj : s'.jobs = s.jobs) (hc : s'.jobCtr = s.jobCtr) (hq : ∀ x ∈ evs, x.quiet = true)
  /-- a new job (open and empty, or closed with the tasks of a submit) gets the next id -/
  | add (o : Bool) (mf : Option Nat) (ids : List Nat) (job : Job)
      (ha : ({ id := s.jobCtr, isOpen := o, maxFails := mf } : Job).attach ids = .ok job)
      (hj : s'.jobs = s.jobs ++ [job]) (hc : s'.jobCtr = s.jobCtr + 1)
      (hq : ∀ x ∈ evs, x.quiet = true)
      (ho : o = true ∨ ∃ mf' d, op = .submit none mf' d ∧ ids = (fillIdsNew d).jobIds)
  /-- elementary transitions of stored jobs, followed by quiet events -/
  | puts (e tail : List Ev) (hp : Puts s.jobs s'.jobs e) (hc : s'.jobCtr = s.jobCtr) (he : evs = e ++ tail)
      (hq : ∀ x ∈ tail, x.quiet = true)
  /-- a terminated job is dropped -/
  | forget (j : Nat) (job : Job) (hj : findJob s.jobs j = some job) (ht : job.isTerminated = true)
      (hjobs : s'.jobs = s.jobs.filter (·.id != j)) (hc : s'.jobCtr = s.jobCtr) (he : evs = [])

theorem setWaitingAll_puts : ∀ (ts : List TaskId) {s s' : State}, s.setWaitingAll ts = .ok s' →
    Puts s.jobs s'.jobs [] ∧ s'.jobCtr = s.jobCtr
  | [], s, s', e => by simp only [State.setWaitingAll] at e; cases e; exact ⟨Puts.nil _, rfl⟩
  | t :: rest, s, s', e => by
    simp only [State.setWaitingAll] at e
    split at e
    · cases e
    · rename_i job hj
      split at e
      · cases e
      · rename_i job' hw
        have hjid := getJob_id hj
        have ih := setWaitingAll_puts rest e
        refine ⟨?_, ih.2⟩
        have hj' : findJob s.jobs job.id = some job := by rw [hjid]; exact hj
        exact Puts.cons hj' (JobOp.waiting hw) ih.1

theorem step_shape {s s' : State} {op : Op} {evs : List Ev} (e : step s op = .ok (s', evs)) :
    Shape s op s' evs := by
  cases op with
  | openJob mf =>
    simp only [step, State.openJob] at e
    split at e
    · cases e
    · simp only [Except.map] at e
      cases e
      exact .add true mf [] _ rfl rfl rfl (by simp [Ev.quiet]) (.inl rfl)
  | submit j mf d =>
    simp only [step, State.submit] at e
    split at e
    · simp only [Except.map] at e; cases e; exact .same rfl rfl (by simp)
    · split at e
      · rename_i jid _
        split at e
        · simp only [Except.map] at e; cases e; exact .same rfl rfl (by simp)
        · rename_i job hj
          split at e
          · simp only [Except.map] at e; cases e; exact .same rfl rfl (by simp)
          · rename_i hopen
            split at e
            · simp only [Except.map] at e; cases e; exact .same rfl rfl (by simp)
            · split at e
              · simp only [Except.map] at e; cases e
              · rename_i job' ha
                simp only [Except.map] at e
                cases e
                have hjid := getJob_id hj
                subst hjid
                have hop : job.isOpen = true := by simpa using hopen
                exact .puts _ [] (Puts.one hj (JobOp.attach hop ha)) rfl (by simp) (by simp)
      · split at e
        · simp only [Except.map] at e; cases e
        · split at e
          · simp only [Except.map] at e; cases e
          · rename_i job' ha
            simp only [Except.map] at e
            cases e
            exact .add false mf _ job' ha rfl rfl (by simp [Ev.quiet]) (.inr ⟨mf, d, rfl, rfl⟩)
  | close j =>
    simp only [step, State.closeJob] at e
    split at e
    · cases e; exact .same rfl rfl (by simp)
    · rename_i job hj
      split at e
      · rename_i hop
        cases e
        have hjid := getJob_id hj
        subst hjid
        exact .puts _ [] (Puts.one hj (JobOp.close hop)) rfl (by simp) (by simp)
      · cases e; exact .same rfl rfl (by simp)
  | cancel j =>
    simp only [step, State.cancelJob] at e
    split at e
    · simp only [Except.map] at e; cases e; exact .same rfl rfl (by simp)
    · rename_i job hj
      split at e
      · simp only [Except.map] at e; cases e; exact .same rfl rfl (by simp)
      · split at e
        · simp only [Except.map] at e; cases e
        · rename_i job' evs' hc
          simp only [Except.map] at e
          cases e
          have hjid := getJob_id hj
          have hj' : findJob s.jobs job.id = some job := by rw [hjid]; exact hj
          exact .puts _ [] (Puts.one hj' (JobOp.cancel hc)) rfl (by simp) (by simp)
  | forget j allowed =>
    simp only [step, State.forgetJob] at e
    split at e
    · simp only [Except.map] at e; cases e; exact .same rfl rfl (by simp)
    · rename_i job hj
      split at e
      · simp only [Except.map] at e; cases e; exact .same rfl rfl (by simp)
      · rename_i ht
        split at e
        · simp only [Except.map] at e; cases e
        · split at e
          · simp only [Except.map] at e
            cases e
            exact .forget j job hj (by simpa using ht) rfl rfl rfl
          · simp only [Except.map] at e; cases e; exact .same rfl rfl (by simp)
  | started t i ws rv =>
    obtain ⟨tj, tk⟩ := t
    simp only [step, State.taskStarted] at e
    split at e
    · cases e
    · rename_i job hj
      split at e
      · cases e
      · rename_i job' hr
        cases e
        have hjid := getJob_id hj
        subst hjid
        exact .puts _ [] (Puts.one hj (JobOp.running i ws rv hr)) rfl (by simp) (by simp)
  | finished t =>
    simp only [step, State.taskFinished] at e
    split at e
    · cases e
    · rename_i job hj
      split at e
      · cases e
      · rename_i job' evs' hr
        cases e
        have hjid := getJob_id hj
        have hj' : findJob s.jobs job.id = some job := by rw [hjid]; exact hj
        exact .puts _ [] (Puts.one hj' (JobOp.finished hr)) rfl (by simp) (by simp)
  | failed t cons =>
    simp only [step, State.taskFailed] at e
    split at e
    · simp only [Except.map] at e; cases e
    · rename_i job hj
      have hjid := getJob_id hj
      have hj' : findJob s.jobs job.id = some job := by rw [hjid]; exact hj
      split at e
      · simp only [Except.map] at e; cases e
      · rename_i job1 ev1 ha
        have id1 := abortTasks_id ha
        split at e
        · simp only [Except.map] at e; cases e
        · rename_i job2 ev2 hf
          have id2 : job2.id = job1.id := (JobOp.failed hf).id_eq
          -- the first two phases as two consecutive puts
          have hget1 : findJob (replaceJob s.jobs job1) job1.id = some job1 := by
            rw [findJob_replaceJob, if_pos rfl, id1, hj']; rfl
          have hrep : replaceJob (replaceJob s.jobs job1) job2 = replaceJob s.jobs job2 :=
            replaceJob_replaceJob _ _ _ id2.symm
          have p12 : Puts s.jobs (replaceJob s.jobs job2) (ev1 ++ ev2) := by
            have := Puts.cons hj' (JobOp.abort ha) (Puts.one hget1 (JobOp.failed hf))
            rw [hrep] at this
            exact this
          split at e
          · split at e
            · split at e
              · simp only [Except.map] at e; cases e
              · rename_i job3 ev3 ha3
                simp only [Except.map] at e
                cases e
                have hget2 : findJob (replaceJob s.jobs job2) job2.id = some job2 := by
                  rw [findJob_replaceJob, if_pos rfl, id2, id1, hj']; rfl
                have p3 := Puts.one hget2 (JobOp.abort ha3)
                have : ∀ {l1 l2 l3 : List Job} {e1 e2 : List Ev}, Puts l1 l2 e1 → Puts l2 l3 e2 →
                    Puts l1 l3 (e1 ++ e2) := by
                  intro l1 l2 l3 e1 e2 h1 h2
                  induction h1 with
                  | nil _ => simpa using h2
                  | cons hj hop _ ih => rw [List.append_assoc]; exact Puts.cons hj hop (ih h2)
                exact .puts _ [] (this p12 p3) rfl (by simp) (by simp)
            · simp only [Except.map] at e; cases e
              exact .puts _ [] p12 rfl (by simp) (by simp)
          · simp only [Except.map] at e; cases e
            exact .puts _ [] p12 rfl (by simp) (by simp)
  | workerNew w =>
    simp only [step, State.workerNew] at e
    split at e
    · cases e
    · cases e; exact .same rfl rfl (by simp [Ev.quiet])
  | workerLost w running reason =>
    simp only [step, State.workerLost] at e
    split at e
    · cases e
    · rename_i s1 hs
      split at e
      · cases e
      · cases e
        have := setWaitingAll_puts _ hs
        exact .puts [] _ this.1 this.2 rfl (by simp [Ev.quiet])

/-! ### C01: what an elementary job transition does to the terminal reports -/

/-- expected number of terminal reports of a task whose state is `o` (`none` = the job has no such task) -/
def ew : Option TState → Nat
  | some st => if st.terminal then 1 else 0
  | none => 0

theorem ew_le_one (o : Option TState) : ew o ≤ 1 := by
  cases o with
  | none => simp [ew]
  | some st => simp only [ew]; split <;> omega

theorem mem_checkTermination {job : Job} {x : Ev} (h : x ∈ job.checkTermination) :
    x = .jobIdle job.id ∨ x = .jobCompleted job.id := by
  unfold Job.checkTermination at h
  split at h
  · split at h
    · exact .inl (by simpa using h)
    · exact .inr (by simpa using h)
  · cases h

theorem lookup_append (ts : List (Nat × TState)) (t : Nat) (v : TState) (k : Nat) :
    lookup (ts ++ [(t, v)]) k =
      match lookup ts k with
      | some x => some x
      | none => if t = k then some v else none := by
  induction ts with
  | nil => simp [lookup]
  | cons p ps ih =>
    obtain ⟨q, w⟩ := p
    by_cases hq : q = k
    · simp [lookup, hq]
    · simp only [List.cons_append, lookup, hq, if_false, ih]

/-- `attach_submit` only adds Waiting tasks under ids that were free -/
theorem attach_lookup : ∀ (ids : List Nat) {a b : Job}, a.attach ids = .ok b → ∀ k,
    lookup b.tasks k = lookup a.tasks k ∨ (lookup a.tasks k = none ∧ lookup b.tasks k = some .waiting)
  | [], a, b, e, k => by simp only [Job.attach] at e; cases e; exact .inl rfl
  | t :: rest, a, b, e, k => by
    simp only [Job.attach] at e
    split at e
    · cases e
    · rename_i hl
      have ih := attach_lookup rest e k
      simp only [lookup_append] at ih
      cases hk : lookup a.tasks k with
      | some x => simp only [hk] at ih; rcases ih with ih | ih
                  · exact .inl ih
                  · cases ih.1
      | none =>
        simp only [hk] at ih
        by_cases htk : t = k
        · simp only [htk, if_true] at ih
          rcases ih with ih | ih
          · exact .inr ⟨rfl, ih⟩
          · cases ih.1
        · simp only [htk, if_false] at ih
          rcases ih with ih | ih
          · exact .inl ih
          · exact .inr ⟨rfl, ih.2⟩

/-- the effect of one elementary transition `a → b` with events `e` on reports, starts and finishes -/
structure JT (a b : Job) (e : List Ev) : Prop where
  /-- only tasks of this job are reported -/
  other : ∀ t : TaskId, t.1 ≠ a.id → termCount t e = 0
  /-- a task is reported exactly when it turns from non-terminal to terminal; terminal states stay -/
  cnt : ∀ k, ew (lookup a.tasks k) + termCount (a.id, k) e = ew (lookup b.tasks k)
  /-- a task becomes Running only together with a `started` event -/
  run : ∀ k, lookup b.tasks k = some .running →
    lookup a.tasks k = some .running ∨ ∃ i ws rv, Ev.started (a.id, k) i ws rv ∈ e
  /-- a `finished` event is emitted only for a task that was Running -/
  fin : ∀ t : TaskId, Ev.finished t ∈ e → t.1 = a.id ∧ lookup a.tasks t.2 = some .running

theorem JT.of_same {a b : Job} {e : List Ev} (h : ∀ k, lookup b.tasks k = lookup a.tasks k)
    (h0 : ∀ t, termCount t e = 0) (hf : ∀ t, Ev.finished t ∉ e) : JT a b e :=
  ⟨fun t _ => h0 t, fun k => by rw [h0, h k]; rfl, fun k hk => .inl (by rw [← h k]; exact hk),
   fun t ht => absurd ht (hf t)⟩

/-- one task goes from a non-terminal state to a terminal one and is reported once -/
theorem JT.single {a b : Job} {t : Nat} {st tgt : TState} {e : List Ev}
    (hl : lookup a.tasks t = some st) (hst : st.terminal = false) (htgt : tgt.terminal = true)
    (htasks : b.tasks = setState a.tasks t tgt)
    (hcount : ∀ x, termCount x e = if x = (a.id, t) then 1 else 0)
    (hfin : ∀ x, Ev.finished x ∈ e → x = (a.id, t) ∧ st = .running) : JT a b e := by
  have hlk : ∀ k, lookup b.tasks k = if k = t then some tgt else lookup a.tasks k := by
    intro k; rw [htasks, lookup_setState, hl]; rfl
  refine ⟨?_, ?_, ?_, ?_⟩
  · intro x hx
    rw [hcount]
    have : ¬ x = (a.id, t) := fun e => hx (by rw [e])
    simp [this]
  · intro k
    rw [hcount, hlk]
    by_cases hk : k = t
    · subst hk; simp [hl, ew, hst, htgt]
    · have : ¬ (a.id, k) = (a.id, t) := fun e => hk (Prod.mk.inj e).2
      simp [hk, this]
  · intro k hk
    rw [hlk] at hk
    by_cases hkt : k = t
    · simp only [hkt, if_true] at hk
      cases hk; cases htgt
    · simp only [hkt, if_false] at hk; exact .inl hk
  · intro x hx
    obtain ⟨rfl, rfl⟩ := hfin x hx
    exact ⟨rfl, hl⟩

/-- a batch of tasks goes from non-terminal states to a terminal one, each reported once -/
theorem JT.mark {a b' b : Job} {ids : List TaskId} {tgt : TState} {e : List Ev}
    (h : MarkHist tgt a b' ids) (hb : b.tasks = b'.tasks) (htgt : tgt.terminal = true)
    (hcount : ∀ x, termCount x e = ids.count x) (hfin : ∀ x, Ev.finished x ∉ e) : JT a b e := by
  refine ⟨?_, ?_, ?_, fun x hx => absurd hx (hfin x)⟩
  · intro x hx
    rw [hcount]
    exact List.count_eq_zero_of_not_mem fun hm => hx (h.own x hm)
  · intro k
    rw [hcount, hb, h.nodup.count]
    by_cases hm : (a.id, k) ∈ ids
    · obtain ⟨st, hl, hst⟩ := h.before _ hm
      have := h.after _ hm
      simp only at hl this
      simp [hm, hl, this, ew, hst, htgt]
    · simp [hm, h.other k hm]
  · intro k hk
    rw [hb] at hk
    by_cases hm : (a.id, k) ∈ ids
    · have := h.after _ hm
      simp only at this
      rw [this] at hk; cases hk; cases htgt
    · rw [h.other k hm] at hk; exact .inl hk

theorem termCount_cons (t : TaskId) (x : Ev) (l : List Ev) : termCount t (x :: l) = mentions t x + termCount t l := by
  simp [termCount]

theorem termCount_nil (t : TaskId) : termCount t [] = 0 := rfl

theorem finished_mem_checkTermination {job : Job} {x : TaskId} : Ev.finished x ∉ job.checkTermination := by
  intro h; rcases mem_checkTermination h with h | h <;> cases h

theorem JobOp.jt {a b : Job} {e : List Ev} (h : JobOp a b e) : JT a b e := by
  cases h with
  | @running _ t i ws rv hr =>
    unfold Job.setRunning at hr
    split at hr
    · cases hr
    · rename_i hl
      cases hr
      have hlk : ∀ k, lookup (setState a.tasks t .running) k = if k = t then some .running else lookup a.tasks k := by
        intro k; rw [lookup_setState, hl]; rfl
      refine ⟨fun t _ => by simp [termCount, mentions], ?_, ?_, fun t ht => by simp at ht⟩
      · intro k
        simp only [hlk]
        by_cases hk : k = t
        · subst hk; simp [hl, ew, TState.terminal, termCount, mentions]
        · simp [hk, termCount, mentions]
      · intro k hk
        simp only [hlk] at hk
        by_cases hkt : k = t
        · subst hkt; exact .inr ⟨i, ws, rv, by simp⟩
        · simp only [hkt, if_false] at hk; exact .inl hk
    · cases hr
      exact JT.of_same (fun _ => rfl) (fun t => by simp [termCount, mentions]) (fun t ht => by simp at ht)
  | @finished _ t _ hr =>
    unfold Job.setFinished at hr
    split at hr
    · cases hr
    · rename_i hl
      cases hr
      refine JT.single hl rfl (tgt := .finished) rfl rfl ?_ ?_
      · intro x
        rw [List.singleton_append, termCount_cons, termCount_checkTermination]
        simp only [mentions, Nat.add_zero]
        by_cases hx : x = (a.id, t)
        · subst hx; simp
        · have : ¬ (a.id, t) = x := fun e => hx e.symm
          simp [hx, this]
      · intro x hx
        simp only [List.singleton_append, List.mem_cons] at hx
        rcases hx with hx | hx
        · cases hx; exact ⟨rfl, rfl⟩
        · exact absurd hx finished_mem_checkTermination
    · cases hr
  | failed hr =>
    unfold Job.setFailed at hr
    have key : ∀ (st : TState) (t : Nat) (b : Job), lookup a.tasks t = some st → st.terminal = false →
        b.tasks = setState a.tasks t .failed → JT a b ([.failed (a.id, t)] ++ b.checkTermination) := by
      intro st t b hl hst hb
      refine JT.single hl hst (tgt := .failed) rfl hb ?_ ?_
      · intro x
        rw [List.singleton_append, termCount_cons, termCount_checkTermination]
        simp only [mentions, Nat.add_zero]
        by_cases hx : x = (a.id, t)
        · subst hx; simp
        · have : ¬ (a.id, t) = x := fun e => hx e.symm
          simp [hx, this]
      · intro x hx
        simp only [List.singleton_append, List.mem_cons] at hx
        rcases hx with hx | hx
        · cases hx
        · exact absurd hx finished_mem_checkTermination
    split at hr
    · cases hr
    · rename_i hl; cases hr; exact key _ _ _ hl rfl rfl
    · rename_i hl; cases hr; exact key _ _ _ hl rfl rfl
    · cases hr
  | @waiting _ t hr =>
    unfold Job.setWaiting at hr
    split at hr
    · cases hr
    · rename_i hl
      cases hr
      have hlk : ∀ k, lookup (setState a.tasks t .waiting) k = if k = t then some .waiting else lookup a.tasks k := by
        intro k; rw [lookup_setState, hl]; rfl
      refine ⟨fun t _ => rfl, ?_, ?_, fun t ht => by simp at ht⟩
      · intro k
        simp only [hlk]
        by_cases hk : k = t
        · subst hk; simp [hl, ew, TState.terminal, termCount]
        · simp [hk, termCount]
      · intro k hk
        simp only [hlk] at hk
        by_cases hkt : k = t
        · simp only [hkt, if_true] at hk; cases hk
        · simp only [hkt, if_false] at hk; exact .inl hk
    · cases hr
  | cancel hr =>
    unfold Job.setCancel at hr
    split at hr
    · cases hr
      exact JT.of_same (fun _ => rfl) (fun t => rfl) (fun t ht => by simp at ht)
    · split at hr
      · cases hr
      · rename_i job1 hm
        cases hr
        refine JT.mark (markAll_hist .canceled _ rfl _ _ _ hm) rfl rfl ?_ ?_
        · intro x
          simp [termCount_cons, termCount_checkTermination, mentions]
        · intro x hx
          simp only [List.mem_append, List.mem_cons, List.not_mem_nil, or_false] at hx
          rcases hx with (hx | hx) | hx
          · cases hx
          · cases hx
          · exact absurd hx finished_mem_checkTermination
  | abort hr =>
    unfold Job.abortTasks at hr
    split at hr
    · cases hr
      exact JT.of_same (fun _ => rfl) (fun t => rfl) (fun t ht => by simp at ht)
    · split at hr
      · cases hr
      · rename_i job1 hm
        cases hr
        refine JT.mark (markAll_hist .aborted _ rfl _ _ _ hm) rfl rfl ?_ ?_
        · intro x
          simp [termCount_cons, termCount_checkTermination, mentions]
        · intro x hx
          simp only [List.mem_append, List.mem_cons, List.not_mem_nil, or_false] at hx
          rcases hx with hx | hx
          · cases hx
          · exact absurd hx finished_mem_checkTermination
  | attach _ hr =>
    have hl := attach_lookup _ hr
    refine ⟨fun t _ => by simp [termCount, mentions], ?_, ?_, fun t ht => by simp at ht⟩
    · intro k
      have : termCount (a.id, k) [Ev.submit a.id false] = 0 := by simp [termCount, mentions]
      rw [this]
      rcases hl k with h | h
      · rw [h]; rfl
      · rw [h.1, h.2]; rfl
    · intro k hk
      rcases hl k with h | h
      · exact .inl (by rw [← h]; exact hk)
      · rw [h.2] at hk; cases hk
  | close _ =>
    refine JT.of_same (fun _ => rfl) ?_ ?_
    · intro t
      rw [List.singleton_append, termCount_cons, termCount_checkTermination]; rfl
    · intro t ht
      simp only [List.singleton_append, List.mem_cons] at ht
      rcases ht with ht | ht
      · cases ht
      · exact absurd ht finished_mem_checkTermination

/-! ### C01: the history invariant -/

/-- every `finished` report in `evs` has a `started` report of the same task before it -/
def Ordered (evs : List Ev) : Prop :=
  ∀ t pre post, evs = pre ++ Ev.finished t :: post → ∃ i ws rv, Ev.started t i ws rv ∈ pre

theorem Ordered.append {evs e : List Ev} (h : Ordered evs)
    (hf : ∀ t, Ev.finished t ∈ e → ∃ i ws rv, Ev.started t i ws rv ∈ evs) : Ordered (evs ++ e) := by
  intro t pre post heq
  rcases List.append_eq_append_iff.mp heq with ⟨a', hpre, he⟩ | ⟨c', hevs, hpost⟩
  · obtain ⟨i, ws, rv, hm⟩ := hf t (by rw [he]; simp)
    exact ⟨i, ws, rv, by rw [hpre]; exact List.mem_append_left _ hm⟩
  · cases c' with
    | nil =>
      simp only [List.nil_append] at hpost
      simp only [List.append_nil] at hevs
      obtain ⟨i, ws, rv, hm⟩ := hf t (by rw [← hpost]; simp)
      exact ⟨i, ws, rv, by rw [← hevs]; exact hm⟩
    | cons y c'' =>
      simp only [List.cons_append, List.cons.injEq] at hpost
      obtain ⟨rfl, _⟩ := hpost
      exact h t pre c'' hevs

/-- The invariant, over the job list, the job-id counter and ALL events emitted so far. -/
structure Hist (jobs : List Job) (ctr : Nat) (evs : List Ev) : Prop where
  /-- ids of stored jobs were handed out by the counter -/
  below : ∀ j a, findJob jobs j = some a → j < ctr
  /-- stored jobs: a task (or a free task id) has exactly the reports its state says -/
  cnt : ∀ j a, findJob jobs j = some a → ∀ k, termCount (j, k) evs = ew (lookup a.tasks k)
  /-- job ids not yet handed out: never reported -/
  fresh : ∀ t : TaskId, ctr ≤ t.1 → termCount t evs = 0
  /-- **at most one terminal report per task**, also for the tasks of forgotten jobs -/
  once : ∀ t : TaskId, termCount t evs ≤ 1
  /-- a Running task has been reported as started -/
  started : ∀ j a k, findJob jobs j = some a → lookup a.tasks k = some .running →
    ∃ i ws rv, Ev.started (j, k) i ws rv ∈ evs
  /-- every finish is preceded by a start -/
  order : Ordered evs

theorem Hist.init : Hist [] 1 [] := by
  refine ⟨?_, ?_, fun _ _ => rfl, fun _ => by simp [termCount], ?_, ?_⟩
  · intro _ _ h; cases h
  · intro _ _ h; cases h
  · intro _ _ _ h; cases h
  · intro t pre post h; simp at h

theorem termCount_quiet {e : List Ev} (hq : ∀ x ∈ e, x.quiet = true) (t : TaskId) : termCount t e = 0 := by
  induction e with
  | nil => rfl
  | cons x xs ih =>
    rw [termCount_cons, ih fun y hy => hq y (List.mem_cons_of_mem _ hy)]
    have := hq x (by simp)
    cases x <;> simp [Ev.quiet] at this <;> rfl

theorem Hist.quiet {jobs : List Job} {ctr : Nat} {evs e : List Ev} (h : Hist jobs ctr evs)
    (hq : ∀ x ∈ e, x.quiet = true) : Hist jobs ctr (evs ++ e) := by
  have h0 := termCount_quiet hq
  refine ⟨h.below, ?_, ?_, ?_, ?_, ?_⟩
  · intro j a hj k; rw [termCount_append, h0, h.cnt j a hj k]; rfl
  · intro t ht; rw [termCount_append, h0, h.fresh t ht]
  · intro t; rw [termCount_append, h0]; exact h.once t
  · intro j a k hj hl
    obtain ⟨i, ws, rv, hm⟩ := h.started j a k hj hl
    exact ⟨i, ws, rv, List.mem_append_left _ hm⟩
  · refine h.order.append ?_
    intro t ht
    have := hq _ ht
    simp [Ev.quiet] at this

/-- one elementary transition of a stored job -/
theorem Hist.put {jobs : List Job} {ctr : Nat} {evs e : List Ev} {a b : Job} (h : Hist jobs ctr evs)
    (hj : findJob jobs a.id = some a) (hop : JobOp a b e) : Hist (replaceJob jobs b) ctr (evs ++ e) := by
  have hid := hop.id_eq
  have jt := hop.jt
  have hlt := h.below _ _ hj
  -- what is stored after the replacement
  have hfind : ∀ j x, findJob (replaceJob jobs b) j = some x →
      (j = a.id ∧ x = b) ∨ (j ≠ a.id ∧ findJob jobs j = some x) := by
    intro j x hx
    rw [findJob_replaceJob, hid] at hx
    by_cases hja : j = a.id
    · subst hja
      rw [if_pos rfl, hj] at hx
      exact .inl ⟨rfl, (Option.some.inj hx).symm⟩
    · rw [if_neg hja] at hx; exact .inr ⟨hja, hx⟩
  refine ⟨?_, ?_, ?_, ?_, ?_, ?_⟩
  · intro j x hx
    rcases hfind j x hx with ⟨rfl, _⟩ | ⟨_, hx⟩
    · exact hlt
    · exact h.below j x hx
  · intro j x hx k
    rw [termCount_append]
    rcases hfind j x hx with ⟨rfl, rfl⟩ | ⟨hne, hx⟩
    · rw [h.cnt _ _ hj k]; exact jt.cnt k
    · rw [h.cnt j x hx k, jt.other (j, k) hne]; rfl
  · intro t ht
    rw [termCount_append, h.fresh t ht, jt.other t (by omega)]
  · intro t
    rw [termCount_append]
    by_cases hta : t.1 = a.id
    · obtain ⟨tj, tk⟩ := t
      simp only at hta
      subst hta
      rw [h.cnt _ _ hj tk, jt.cnt tk]
      exact ew_le_one _
    · rw [jt.other t hta]; exact h.once t
  · intro j x k hx hl
    rcases hfind j x hx with ⟨rfl, rfl⟩ | ⟨_, hx⟩
    · rcases jt.run k hl with hr | ⟨i, ws, rv, hm⟩
      · obtain ⟨i, ws, rv, hm⟩ := h.started _ _ k hj hr
        exact ⟨i, ws, rv, List.mem_append_left _ hm⟩
      · exact ⟨i, ws, rv, List.mem_append_right _ hm⟩
    · obtain ⟨i, ws, rv, hm⟩ := h.started j x k hx hl
      exact ⟨i, ws, rv, List.mem_append_left _ hm⟩
  · refine h.order.append ?_
    intro t ht
    obtain ⟨h1, h2⟩ := jt.fin t ht
    obtain ⟨tj, tk⟩ := t
    simp only at h1 h2
    subst h1
    exact h.started _ _ tk hj h2

theorem Hist.puts {jobs jobs' : List Job} {ctr : Nat} {evs e : List Ev} (hp : Puts jobs jobs' e) :
    Hist jobs ctr evs → Hist jobs' ctr (evs ++ e) := by
  induction hp generalizing evs with
  | nil _ => intro h; simpa using h
  | cons hj hop _ ih =>
    intro h
    rw [← List.append_assoc]
    exact ih (h.put hj hop)

/-- a new job whose tasks are all Waiting gets the next id -/
theorem Hist.add {jobs : List Job} {ctr : Nat} {evs : List Ev} {job : Job} (h : Hist jobs ctr evs)
    (hid : job.id = ctr) (hw : ∀ k, lookup job.tasks k = none ∨ lookup job.tasks k = some .waiting) :
    Hist (jobs ++ [job]) (ctr + 1) evs := by
  have hfind : ∀ j x, findJob (jobs ++ [job]) j = some x →
      findJob jobs j = some x ∨ (j = ctr ∧ x = job) := by
    intro j x hx
    rw [findJob_append] at hx
    cases hf : findJob jobs j with
    | some y => rw [hf] at hx; exact .inl hx
    | none =>
      rw [hf] at hx
      simp only at hx
      split at hx
      · rename_i hjj; exact .inr ⟨by rw [← hid, hjj], (Option.some.inj hx).symm⟩
      · cases hx
  refine ⟨?_, ?_, ?_, h.once, ?_, h.order⟩
  · intro j x hx
    rcases hfind j x hx with hx | ⟨rfl, _⟩
    · have := h.below j x hx; omega
    · omega
  · intro j x hx k
    rcases hfind j x hx with hx | ⟨rfl, rfl⟩
    · exact h.cnt j x hx k
    · rw [h.fresh (j, k) (Nat.le_refl _)]
      rcases hw k with hk | hk <;> rw [hk] <;> rfl
  · intro t ht; exact h.fresh t (by omega)
  · intro j x k hx hl
    rcases hfind j x hx with hx | ⟨rfl, rfl⟩
    · exact h.started j x k hx hl
    · rcases hw k with hk | hk <;> rw [hk] at hl <;> cases hl

/-- dropping a job: only "at most once" survives for its tasks -/
theorem Hist.forget {jobs : List Job} {ctr : Nat} {evs : List Ev} (h : Hist jobs ctr evs) (j : Nat) :
    Hist (jobs.filter (·.id != j)) ctr evs := by
  have hfind : ∀ k x, findJob (jobs.filter (·.id != j)) k = some x → findJob jobs k = some x := by
    intro k x hx
    rw [findJob_filter] at hx
    split at hx
    · cases hx
    · exact hx
  exact ⟨fun k x hx => h.below k x (hfind k x hx), fun k x hx => h.cnt k x (hfind k x hx), h.fresh, h.once,
    fun k x t hx => h.started k x t (hfind k x hx), h.order⟩

theorem Hist.step {s s' : State} {op : Op} {acc e : List Ev} (h : Hist s.jobs s.jobCtr acc)
    (hs : step s op = .ok (s', e)) : Hist s'.jobs s'.jobCtr (acc ++ e) := by
  cases step_shape hs with
  | same hj hc hq => rw [hj, hc]; exact h.quiet hq
  | add o mf ids job ha hj hc hq ho =>
    rw [hj, hc]
    refine (h.add (attach_id _ ha) ?_).quiet hq
    intro k
    rcases attach_lookup _ ha k with hk | hk
    · exact .inl hk
    · exact .inr hk.2
  | puts e1 tail hp hc he hq =>
    rw [hc, he, ← List.append_assoc]
    exact (h.puts hp).quiet hq
  | forget j job hj ht hjobs hc he =>
    rw [hjobs, hc, he, List.append_nil]
    exact h.forget j

/-- runs: an invariant over (jobs, counter, all events so far) that every step preserves holds at the end -/
theorem run_invariant (I : List Job → Nat → List Ev → Prop) (P : Op → Prop)
    (hstep : ∀ (s s' : State) (op : Op) (acc e : List Ev), P op → StateWF s → step s op = .ok (s', e) →
      I s.jobs s.jobCtr acc → I s'.jobs s'.jobCtr (acc ++ e)) :
    ∀ (ops : List Op) (s s' : State) (acc evs : List Ev), (∀ op ∈ ops, P op) → StateWF s →
      run s ops = .ok (s', evs) → I s.jobs s.jobCtr acc → I s'.jobs s'.jobCtr (acc ++ evs)
  | [], s, s', acc, evs, _, _, e, h => by
    simp only [run] at e; cases e; simpa using h
  | op :: ops, s, s', acc, evs, hP, hw, e, h => by
    simp only [run] at e
    split at e
    · cases e
    · rename_i s1 ev1 hs
      split at e
      · cases e
      · rename_i s2 ev2 hr
        cases e
        rw [← List.append_assoc]
        exact run_invariant I P hstep ops s1 _ _ _ (fun o ho => hP o (List.mem_cons_of_mem _ ho)) (step_wf hw hs) hr
          (hstep s s1 op acc ev1 (hP op (by simp)) hw hs h)

/-- the history invariant holds after every run from the empty server state -/
theorem run_hist {ops : List Op} {s : State} {evs : List Ev} (h : run {} ops = .ok (s, evs)) :
    Hist s.jobs s.jobCtr evs := by
  have := run_invariant Hist (fun _ => True) (fun s s' op acc e _ _ hs hi => hi.step hs) ops {} s [] evs
    (fun _ _ => trivial) init_wf h Hist.init
  simpa using this

end HqModel.Job
