import HqModel.Lemmas.CoreInvRes3
/-!
Stage 3, part 4: the resource equation under `on_remove_worker`, `on_new_worker` and new requests.
-/
namespace HqModel.Core

theorem lostPrefilled_ir (ids : List TaskId) (s s' : State) (hi : IR s) (hf : ∀ id ∈ ids, Free s id)
    (h : s.lostPrefilled ids = .ok s') : IR s' ∧ s'.workers = s.workers ∧ s'.redirects = s.redirects := by
  induction ids generalizing s with
  | nil => simp only [State.lostPrefilled] at h; cases h; exact ⟨hi, rfl, rfl⟩
  | cons id rest ih =>
    simp only [State.lostPrefilled] at h
    split at h
    · cases h
    · rename_i task hg
      have ht := getTask_spec hg
      have hid : task.id = id := findTask_some_id ht
      split at h
      · cases h
      · rename_i s2 hm
        have hc := movePrefilledToReady_core hm
        have ht1 : findTask s.tasks ({ task with inst := task.inst + 1, state := .waiting 0 } : Task).id = some task := by
          rw [hid]; exact ht
        have hfree := hf id (by simp)
        have hi1 : IR (s.setTask { task with inst := task.inst + 1, state := .waiting 0 }) := by
          constructor
          · show Inv4 (putTask s.tasks _) s.workers s.redirects s.rqs
            refine hi.inv.put ht1 rfl rfl (by simp [isWaiting]) (by simp) (hi.inv.ls.mv_free ht1 ?_)
            show Free3 _ _ task.id
            rw [hid]; exact hfree
          · show Res4 (putTask s.tasks _) s.workers s.redirects s.rqs
            exact hi.res.put_free (by show ∀ x, task.id ∉ _; rw [hid]; exact hfree.na) (fun _ _ => rfl)
        obtain ⟨a, b, c⟩ := ih _ (hc.ir hi1) (fun x hx => by
          have := hf x (by simp [hx])
          unfold Free at this ⊢; rw [hc.w, hc.r]; exact this) h
        exact ⟨a, b.trans hc.w, c.trans hc.r⟩

theorem lost_requeue_ir {s : State} {rd' : List (TaskId × Nat × Nat)} {task t' : Task} (hi : IR s)
    (ht : findTask s.tasks t'.id = some task) (hc : t'.consumers = task.consumers) (hq : t'.rq = task.rq)
    (hw : isWaiting task.state → isWaiting t'.state) (hm : ∀ l', t'.state = .runningMN l' → ∃ l, task.state = .runningMN l)
    (hf : LFree3 s.workers t'.id)
    (hrd : ∀ u x v, u ≠ t'.id → ((u, x, v) ∈ rd' ↔ (u, x, v) ∈ s.redirects))
    (hrdf : ∀ u, u ≠ t'.id → rd'.find? (·.1 = u) = s.redirects.find? (·.1 = u))
    (hr : ∀ x v, (t'.id, x, v) ∈ rd' → ∃ w0, t'.state = .retracting w0)
    (hd2 : (rd'.map (·.1)).Nodup) :
    Inv4 (putTask s.tasks t') s.workers rd' s.rqs ∧ Res4 (putTask s.tasks t') s.workers rd' s.rqs :=
  ⟨lost_requeue_inv hi.inv ht hc hq hw hm hf hrd hr hd2, hi.res.put_free hf.na hrdf⟩

theorem lostAssigned_ir (ids : List TaskId) (s s' : State) (ru ru' re re' : List TaskId) (hi : IR s)
    (hf : ∀ id ∈ ids, LFree3 s.workers id)
    (h : s.lostAssigned ids ru re = .ok (s', ru', re')) : IR s' := by
  induction ids generalizing s ru re with
  | nil => simp only [State.lostAssigned] at h; cases h; exact hi
  | cons id rest ih =>
    simp only [State.lostAssigned] at h
    split at h
    · cases h
    · rename_i task hg
      have ht := getTask_spec hg
      have hid : task.id = id := findTask_some_id ht
      have hst := stOf_of_find ht
      have hfid : LFree3 s.workers id := hf id (by simp)
      have hrest : ∀ x ∈ rest, LFree3 s.workers x := fun x hx => hf x (by simp [hx])
      have hnord : (∀ w0, task.state ≠ .retracting w0) → ∀ x v, (id, x, v) ∉ s.redirects := by
        intro hn x v hm
        obtain ⟨w0, h1⟩ := hi.inv.ls.d1 id x v hm
        rw [hst] at h1
        exact hn w0 (by simpa using h1)
      split at h
      · -- running
        rename_i a b hs
        split at h
        · cases h
        · rename_i s2 r2 ha
          have hc := addReady_core ha
          refine ih _ _ _ (hc.ir ?_) (fun x hx => by rw [hc.w]; exact hrest x hx) h
          have ht1 : findTask s.tasks ({ task with state := .waiting 0, inst := task.inst + 1 } : Task).id = some task := by
            rw [hid]; exact ht
          obtain ⟨k1, k2⟩ := lost_requeue_ir hi ht1 rfl rfl (by simp [isWaiting]) (by simp)
            (by show LFree3 _ task.id; rw [hid]; exact hfid)
            (fun _ _ _ _ => Iff.rfl) (fun _ _ => rfl)
            (fun x v hm => absurd hm (by show (task.id, x, v) ∉ _; rw [hid]; exact hnord (by simp [hs]) x v)) hi.inv.ls.d2
          exact ⟨k1, k2⟩
      · -- retracting
        rename_i w0 hs
        split at h
        · cases h
        · split at h
          · cases h
          · rename_i s2 r2 ha
            have hc := addReady_core ha
            refine ih _ _ _ (hc.ir ?_) (fun x hx => by rw [hc.w]; exact hrest x hx) h
            have ht1 : findTask s.tasks ({ task with inst := task.inst + 1 } : Task).id = some task := by
              rw [hid]; exact ht
            obtain ⟨k1, k2⟩ := lost_requeue_ir (rd' := s.redirects.filter (·.1 ≠ id)) hi ht1 rfl rfl (fun h => h)
              (fun l' hl => ⟨l', hl⟩)
              (by show LFree3 _ task.id; rw [hid]; exact hfid)
              (fun u x v hu => by rw [rd_filter_mem]; simp only [hid] at hu; simp [hu])
              (fun u hu => find_filter_ne (by simpa [hid] using hu))
              (fun x v hm => by rw [rd_filter_mem] at hm; simp only [hid] at hm; exact absurd rfl hm.2)
              (rd_filter_nodup hi.inv.ls.d2 _)
            exact ⟨k1, k2⟩
      · -- assigned (every other state)
        rename_i hn1 hn2
        split at h
        · cases h
        · rename_i s2 r2 ha
          have hc := addReady_core ha
          refine ih _ _ _ (hc.ir ?_) (fun x hx => by rw [hc.w]; exact hrest x hx) h
          have ht1 : findTask s.tasks ({ task with state := .waiting 0, inst := task.inst + 1 } : Task).id = some task := by
            rw [hid]; exact ht
          obtain ⟨k1, k2⟩ := lost_requeue_ir hi ht1 rfl rfl (by simp [isWaiting]) (by simp)
            (by show LFree3 _ task.id; rw [hid]; exact hfid)
            (fun _ _ _ _ => Iff.rfl) (fun _ _ => rfl)
            (fun x v hm => absurd hm (by show (task.id, x, v) ∉ _; rw [hid]; exact hnord (fun w0 e => hn2 w0 e) x v))
            hi.inv.ls.d2
          exact ⟨k1, k2⟩

theorem lostRetracting_ir (l : List Task) (s s' : State) (w : Nat) (o o' : Out) (hi : IR s)
    (h : s.lostRetracting w l o = .ok (s', o')) : IR s' := by
  induction l generalizing s o with
  | nil => simp only [State.lostRetracting] at h; cases h; exact hi
  | cons t0 rest ih =>
    simp only [State.lostRetracting, State.task?] at h
    split at h
    · exact ih _ _ hi h
    · rename_i task ht
      have hid : task.id = t0.id := findTask_some_id ht
      have hst := stOf_of_find ht
      split at h
      · exact ih _ _ hi h
      · rename_i hs
        simp only [ne_eq, Decidable.not_not] at hs
        split at h
        · rename_i tt target trv hfind
          refine ih _ _ ?_ h
          have hmem := rd_mem_of_find hfind
          have ht0' : tt = task.id := by simpa using hmem.2
          subst ht0'
          obtain ⟨k1, k2⟩ := resolve_redirect_ir (inst := task.inst + 1) hi (by rw [hid]; exact ht) hs hfind
          exact ⟨k1, k2⟩
        · rename_i hnone
          refine ih _ _ ?_ h
          have ht1 : findTask s.tasks ({ task with inst := task.inst + 1, state := .waiting 0 } : Task).id = some task := by
            show findTask s.tasks task.id = _; rw [hid]; exact ht
          have hfree : Free3 s.workers s.redirects task.id :=
            hi.inv.ls.free_of_retracting (w0 := w) (by rw [hid, hst, hs]) (fun x v => rd_find_none hnone x v)
          constructor
          · show Inv4 (putTask s.tasks _) s.workers s.redirects s.rqs
            exact hi.inv.put ht1 rfl rfl (by simp [isWaiting]) (by simp) (hi.inv.ls.mv_free ht1 hfree)
          · show Res4 (putTask s.tasks _) s.workers s.redirects s.rqs
            exact hi.res.put_free hfree.na (fun _ _ => rfl)

theorem crashLoop_ir (ids : List TaskId) (s s' : State) (f : Bool) (rets : List (List TaskId)) (o o' : Out)
    (hi : IR s) (h : s.crashLoop f ids rets o = .ok (s', o')) : IR s' := by
  induction ids generalizing s rets o with
  | nil => simp only [State.crashLoop] at h; cases h; exact hi
  | cons id rest ih =>
    simp only [State.crashLoop, State.task?] at h
    split at h
    · exact ih _ _ _ hi h
    · rename_i task ht
      have hid : task.id = id := findTask_some_id ht
      have hi1 : ∀ c, IR (s.setTask { task with crashes := c }) := by
        intro c
        have ht1 : findTask s.tasks ({ task with crashes := c } : Task).id = some task := by rw [hid]; exact ht
        constructor
        · show Inv4 (putTask s.tasks _) s.workers s.redirects s.rqs
          exact hi.inv.put ht1 rfl rfl (fun h => h) (fun l' hl => ⟨l', hl⟩) (hi.inv.ls.mv_same ht1 rfl)
        · show Res4 (putTask s.tasks _) s.workers s.redirects s.rqs
          exact hi.res.put_same_resv ht1 (fun _ _ => rfl) rfl
      split at h
      · split at h
        · cases h
        · rename_i s2 o2 h2
          exact ih _ _ _ (taskFailed_ir (hi1 _) h2) h
      · exact ih _ _ _ (hi1 _) h

theorem removeWorker_ir {s s' : State} {w : Nat} {reason : String} {f : Bool} {order : List TaskId}
    {rets : List (List TaskId)} {o : Out} (hi : IR s)
    (h : s.removeWorker w reason f order rets = .ok (s', o)) : IR s' := by
  have hinv := hi.inv
  simp only [State.removeWorker, State.worker?] at h
  split at h
  · cases h
  · rename_i wk hfw
    have hi0 : IR { s with workers := s.workers.filter (·.id ≠ w) } := by
      constructor
      · show Inv4 s.tasks (s.workers.filter (·.id ≠ w)) s.redirects s.rqs
        exact hinv.workers (hinv.ls.mv_drop_worker w)
      · show Res4 s.tasks (s.workers.filter (·.id ≠ w)) s.redirects s.rqs
        exact hi.res.mv_drop_worker w
    have hgA : asgW (s.workers.filter (·.id ≠ w)) w = [] := by rw [asgW_filter]; simp
    have hgP : preW (s.workers.filter (·.id ≠ w)) w = [] := by rw [preW_filter]; simp
    split at h
    · cases h
    · rename_i s1 running retracted hp1
      have hi1 : IR s1 := by
        clear h
        split at hp1
        · rename_i A F P ha
          split at hp1
          · cases hp1
          · rename_i hperm
            simp only [Bool.not_eq_eq_eq_not, Bool.not_true, Bool.not_eq_false, Bool.and_eq_true] at hperm
            split at hp1
            · cases hp1
            · rename_i s01 hlp
              have hP : preW s.workers w = P := by rw [preW_of_find hfw]; simp [wPre, ha]
              have hA : asgW s.workers w = A := by rw [asgW_of_find hfw]; simp [wAsg, ha]
              obtain ⟨a, b, c⟩ := lostPrefilled_ir _ _ _ hi0 (fun id hid => by
                have hs := hinv.ls.a2 w id (by rw [hP]; exact hid)
                exact hi0.inv.ls.free_of_prefilled_gone hs hgP) hlp
              refine lostAssigned_ir _ _ _ _ _ _ _ a ?_ hp1
              intro id hid
              rw [b]
              have hmem : id ∈ A := by
                have h1 : order.all A.contains = true := by
                  have := hperm
                  simp only [decide_eq_true_eq] at this
                  exact this.1.1
                exact mem_of_all_contains h1 id hid
              obtain ⟨st, hs, hh⟩ := hinv.ls.a1 w id (by rw [hA]; exact hmem)
              exact hi0.inv.ls.lfree_of_holds_gone hs hh hgA
        · rename_i tid root started ha
          split at hp1
          · cases hp1
          · rename_i task hg
            have ht : findTask s.tasks tid = some task := getTask_spec hg
            have hid : task.id = tid := findTask_some_id ht
            have hst := stOf_of_find ht
            split at hp1
            · rename_i ws hs
              split at hp1
              · rename_i rootw others
                split at hp1
                · rename_i hroot
                  split at hp1
                  · cases hp1
                  · rename_i s01 hr
                    obtain ⟨a, b, c, d, e, ff⟩ := resetMnAll_ls _ _ _ hi0.inv.ls hr
                    have hr01 := resetMnAll_res _ _ _ hi0.res hr
                    have hi01 : IR s01 :=
                      ⟨by unfold Inv; rw [c, e]; exact hi0.inv.workers a, by unfold Res; rw [c, e]; exact hr01⟩
                    split at hp1
                    · cases hp1
                    · rename_i s3 r3 har
                      cases hp1
                      refine (addReady_core har).ir ?_
                      have ht1 : findTask s01.tasks ({ task with state := .waiting 0, inst := task.inst + 1 } : Task).id = some task := by
                        rw [c, hid]; exact ht
                      have hfree : Free3 s01.workers s01.redirects task.id := by
                        rw [hid]
                        refine hi01.inv.ls.free_of_mn (l := rootw :: others) (by rw [c]; exact hst.trans (by rw [hs])) ?_
                        intro x hx
                        have h0 := b.m x tid hx
                        change mnW (s.workers.filter (·.id ≠ w)) x = some tid at h0
                        rw [mnW_filter] at h0
                        split at h0
                        · cases h0
                        · rename_i hxw
                          obtain ⟨l, h1, h2⟩ := hinv.ls.m1 x tid h0
                          rw [hst, hs] at h1; cases h1
                          simp only [List.mem_cons] at h2
                          rcases h2 with h2 | h2
                          · exact hxw (h2.trans hroot)
                          · rw [ff x h2] at hx; cases hx
                      constructor
                      · show Inv4 (putTask s01.tasks _) s01.workers s01.redirects s01.rqs
                        exact hi01.inv.put ht1 rfl rfl (by simp [isWaiting]) (by simp) (hi01.inv.ls.mv_free ht1 hfree)
                      · show Res4 (putTask s01.tasks _) s01.workers s01.redirects s01.rqs
                        exact hi01.res.put_free hfree.na (fun _ _ => rfl)
                · rename_i hroot
                  cases hp1
                  have ht1 : findTask s.tasks ({ task with state := .runningMN ((rootw :: others).filter (· ≠ w)) } : Task).id = some task := by
                    rw [hid]; exact ht
                  constructor
                  · show Inv4 (putTask s.tasks _) (s.workers.filter (·.id ≠ w)) s.redirects s.rqs
                    refine Inv4.put hi0.inv ht1 rfl rfl (by simp [hs, isWaiting]) (fun _ _ => ⟨_, hs⟩) ?_
                    refine hi0.inv.ls.mv_mn_state ht1 hs rfl ?_
                    intro x hx
                    rw [mnW_filter] at hx
                    split at hx
                    · cases hx
                    · rename_i hxw
                      obtain ⟨l, h1, h2⟩ := hinv.ls.m1 x task.id hx
                      rw [hid, hst, hs] at h1; cases h1
                      exact List.mem_filter.mpr ⟨h2, by simpa using hxw⟩
                  · show Res4 (putTask s.tasks _) (s.workers.filter (·.id ≠ w)) s.redirects s.rqs
                    refine Res4.put_free hi0.res ?_ (fun _ _ => rfl)
                    show ∀ x, task.id ∉ _
                    rw [hid]
                    exact hi0.inv.ls.not_asg_of_state (st := .runningMN (rootw :: others)) (by show stOf s.tasks tid = _; rw [hst, hs])
                      (by simp)
              · cases hp1
            · cases hp1
      split at h
      · cases h
      · rename_i s2 out1 h2
        have hi2 := lostRetracting_ir _ _ _ _ _ _ hi1 h2
        split at h
        · cases h
        · rename_i s3 out2 h3
          have hi3 := retract_ir hi2 h3
          split at h
          · cases h
          · rename_i s4 out h4
            cases h
            exact (CoreEq.ask s4).ir (crashLoop_ir _ _ _ _ _ _ _ hi3 h4)

theorem newWorker_ir {s s' : State} {w : Worker} {o : Out} (hi : IR s) (hw : FreshWorker w)
    (h : s.newWorker w = .ok (s', o)) : IR s' := by
  refine ⟨newWorker_inv hi.inv hw h, ?_⟩
  simp only [State.newWorker] at h
  cases h
  show Res4 s.tasks (s.workers ++ [w]) s.redirects s.rqs
  exact hi.res.mv_new_worker hw

theorem newRq_ir {s : State} (rqv : Rqv) (hi : IR s) : IR (s.newRq rqv) :=
  ⟨newRq_inv rqv hi.inv, hi.res.mv_rqs_append [rqv]⟩

/-! ### requests name every resource once -/

/-- every request variant names each resource index at most once (`ResourceRequest::validate`) -/
def RqvOk (rqv : Rqv) : Prop := ∀ r ∈ rqv, (r.entries.map (·.res)).Nodup

instance (rqv : Rqv) : Decidable (RqvOk rqv) := by unfold RqvOk; infer_instance

def RqsOk (rqs : List Rqv) : Prop := ∀ rqv ∈ rqs, RqvOk rqv

theorem RqsOk.of_rq {s : State} (h : RqsOk s.rqs) {rq v : Nat} {r : Rq} (hr : s.rq rq v = .ok r) :
    (r.entries.map (·.res)).Nodup := by
  simp only [State.rq] at hr
  split at hr
  · cases hr
  · rename_i rqv hq
    split at hr
    · cases hr
    · rename_i r' hv
      cases hr
      exact h rqv (List.mem_of_getElem? hq) r (List.mem_of_getElem? hv)

end HqModel.Core
