import HqModel.Lemmas.CoreInvRes4
/-!
Stage 3, part 5: the resource equation under one scheduling round. Every single-node placement is validated by the
model itself (`fitsNow`, the observed placement satisfies the solver's resource rows of the worker at that moment);
with requests that name every resource once this is non-saturation. The round additionally needs that every
redirect target holds its task (`RdIn`, a clause of the sanity check that the round itself preserves).
-/
namespace HqModel.Core

theorem putWorker_comm (ws : List Worker) {a b : Worker} (h : a.id ≠ b.id) :
    putWorker (putWorker ws a) b = putWorker (putWorker ws b) a := by
  induction ws with
  | nil => rfl
  | cons x rest ih =>
    simp only [putWorker]
    by_cases h1 : x.id = a.id
    · have h2 : ¬ x.id = b.id := fun e => h (h1.symm.trans e)
      have h3 : ¬ a.id = b.id := h
      simp only [h1, if_true, putWorker, h2, h3, if_false, ih]
    · by_cases h2 : x.id = b.id
      · have h3 : ¬ b.id = a.id := fun e => h e.symm
        simp only [h1, h2, if_true, if_false, putWorker, h3, ih]
      · simp only [h1, h2, if_false, putWorker, ih]

/-- every redirect target holds the task in its assigned set -/
def RdIn (s : State) : Prop := ∀ t w v, (t, w, v) ∈ s.redirects → t ∈ asgW s.workers w

instance (s : State) : Decidable (RdIn s) := by
  have : Decidable (∀ p ∈ s.redirects, p.1 ∈ asgW s.workers p.2.1) := inferInstance
  refine decidable_of_iff (∀ p ∈ s.redirects, p.1 ∈ asgW s.workers p.2.1) ?_
  constructor
  · intro h t w v hm; exact h (t, w, v) hm
  · intro h p hp; obtain ⟨t, w, v⟩ := p; exact h t w v hp

/-- invariant + resource equation + redirect targets, inside a scheduling round -/
structure IRD (s : State) : Prop where
  ir : IR s
  rd : RdIn s

theorem CoreEq.ird {s s' : State} (h : CoreEq s s') (hi : IRD s) : IRD s' :=
  ⟨h.ir hi.ir, by unfold RdIn; rw [h.w, h.r]; exact hi.rd⟩

/-! ### single-node placements -/

theorem placeSnBody_ir {s s' : State} {m m' : List WUpdate} {v : Nat} {r : Rq} {id : TaskId} {w i : Nat}
    (hi : IRD s) (hg : Good s i id) (hr : s.rq i v = .ok r)
    (hns : ∀ wk A F P, findWorker s.workers w = some wk → wk.assign = .sn A F P → NoSat wk.total F r.entries)
    (h : s.placeSnBody m v r id w = .ok (s', m')) : IRD s' := by
  have hinv := hi.ir.inv
  have hres := hi.ir.res
  have hinv' := (placeSnBody_inv hinv hg h).1
  suffices hh : Res s' ∧ RdIn s' from ⟨⟨hinv', hh.1⟩, hh.2⟩
  simp only [State.placeSnBody] at h
  split at h
  · cases h
  · rename_i s1 hw1
    obtain ⟨wk1, wk1', hfw1, hf1, rfl⟩ := withWorker_spec hw1
    obtain ⟨A, F, P, F', ha, hfr, hnm, rfl⟩ := insertSn_spec hf1
    have hwid : wk1.id = w := findWorker_some_id hfw1
    have hnosat := hns wk1 A F P hfw1 ha
    split at h
    · cases h
    · rename_i task hgt
      have ht : findTask s.tasks id = some task := getTask_spec hgt
      have hid : task.id = id := findTask_some_id ht
      have hst := stOf_of_find ht
      have hrq : task.rq = i := (hg task ht).1
      have hent : rqEntries s.rqs task.rq v = some r.entries := by rw [hrq]; exact rqEntries_of_rq hr
      have ht' : ∀ st, findTask s.tasks ({ task with state := st } : Task).id = some task := by
        intro st; simpa [hid] using ht
      have hfw1' : findWorker s.workers ({ wk1 with assign := .sn (A ++ [id]) F' P } : Worker).id = some wk1 := by
        simpa [hwid] using hfw1
      have hA0 : asgW s.workers w = A := by rw [asgW_of_find hfw1]; simp [wAsg, ha]
      have m1 := mem_asgW_put_insert (ws := s.workers) (wk := wk1) (wk' := { wk1 with assign := .sn (A ++ [id]) F' P })
        (t := id) hfw1' (by simp [wAsg, ha])
      split at h
      · -- Waiting → Assigned
        rename_i n hs
        cases h
        have hfree : Free3 s.workers s.redirects id := hinv.ls.free_of_state (Or.inr (Or.inl ⟨n, by rw [hst, hs]⟩))
        constructor
        · show Res4 (putTask s.tasks _) (putWorker s.workers _) s.redirects s.rqs
          refine hres.mv_insert (t := id) (es := r.entries) (wk := wk1) hfw1' ha rfl rfl hfr hnosat hfree.na ?_ ?_
          · intro u hu; exact resvOf_put_ne (by simpa [hid] using hu)
          · rw [resvOf_put_self' (ht' (.assigned w v)) hid]
            simp only [variantOf, Option.bind_some]; exact hent
        · intro t x v' hm
          change t ∈ asgW (putWorker s.workers _) x
          rw [m1]; exact Or.inr (hi.rd t x v' hm)
      · -- Retracting
        rename_i old hs
        split at h
        · rename_i t0 ot ov hfind
          change List.find? (fun x => decide (x.1 = id)) s.redirects = some (t0, ot, ov) at hfind
          have hmem := rd_mem_of_find hfind
          have ht0 : t0 = id := by simpa using hmem.2
          subst ht0
          split at h
          · cases h
          · rename_i r' hr'
            split at h
            · cases h
            · rename_i s3 hw2
              cases h
              obtain ⟨wk2, wk2', hfw2, hf2, rfl⟩ := withWorker_spec hw2
              obtain ⟨A2, F2, P2, F2', ha2, hfa2, hm2, rfl⟩ := removeSn_spec hf2
              change findWorker (putWorker s.workers _) ot = some wk2 at hfw2
              have hwid2 : wk2.id = ot := findWorker_some_id hfw2
              -- the old target is another worker: it holds the task, `w` does not
              have hne : ot ≠ w := by
                intro e
                have := hi.rd t0 ot ov hmem.1
                rw [e, hA0] at this
                exact hnm this
              have hfw2o : findWorker s.workers ot = some wk2 := by
                rw [findWorker_putWorker] at hfw2
                simpa [hwid, hne] using hfw2
              have hr'' : s.rq task.rq ov = .ok r' := by
                simp only [State.rq] at hr' ⊢; exact hr'
              have hnd2 : A2.Nodup := by
                have := hinv.ls.nda ot; rw [asgW_of_find hfw2o] at this; simpa [wAsg, ha2] using this
              have hfw2' : findWorker s.workers ({ wk2 with assign := .sn (A2.erase t0) F2' P2 } : Worker).id = some wk2 := by
                simpa [hwid2] using hfw2o
              -- step 1 (virtual order): the old reservation is given back, the redirect dropped
              have st1 : Res4 s.tasks (putWorker s.workers { wk2 with assign := .sn (A2.erase t0) F2' P2 })
                  (s.redirects.filter (·.1 ≠ t0)) s.rqs := by
                refine hres.mv_erase (t := t0) (es := r'.entries) (wk := wk2) hfw2' ha2 rfl rfl hfa2 hm2 hnd2 ?_ ?_
                  (resvOf_retracting ht hs hfind hr'')
                · intro x hx hmem'
                  obtain ⟨st, h1, h2⟩ := hinv.ls.a1 x t0 hmem'
                  rw [hst, hs] at h1; cases h1
                  obtain ⟨v', hv'⟩ := h2
                  apply hx
                  simp only [hwid2]
                  exact (rd_unique hinv.ls.d2 hv' hmem.1).1
                · intro u hu; exact resvOf_rd_congr (find_filter_ne hu)
              have fr1 : Free3 (putWorker s.workers { wk2 with assign := .sn (A2.erase t0) F2' P2 })
                  (s.redirects.filter (·.1 ≠ t0)) t0 :=
                hinv.ls.free_after_unredirect (v := ov) (wk := wk2) (by rw [hst, hs]) (by simpa [hwid2] using hmem.1)
                  hfw2' (by simp [wAsg, ha2]) (by simp [wPre, ha2]) (by simp [wMn, ha2])
              -- step 2: the new reservation on `w`, the new redirect
              have hfw1b : findWorker (putWorker s.workers { wk2 with assign := .sn (A2.erase t0) F2' P2 })
                  ({ wk1 with assign := .sn (A ++ [t0]) F' P } : Worker).id = some wk1 := by
                rw [findWorker_putWorker]
                have : ¬ w = ot := fun e => hne e.symm
                simpa [hwid, hwid2, this] using hfw1
              have st2 : Res4 s.tasks (putWorker (putWorker s.workers { wk2 with assign := .sn (A2.erase t0) F2' P2 })
                  { wk1 with assign := .sn (A ++ [t0]) F' P }) (s.redirects.filter (·.1 ≠ t0) ++ [(t0, w, v)]) s.rqs := by
                refine st1.mv_insert (t := t0) (es := r.entries) (wk := wk1) hfw1b ha rfl rfl hfr hnosat fr1.na ?_ ?_
                · intro u hu; exact resvOf_rd_congr (find_append_ne hu)
                · rw [resvOf_of_find ht, hs]
                  simp only [variantOf, find_filter_append_self, Option.map_some, Option.bind_some]; exact hent
              rw [putWorker_comm _ (a := { wk2 with assign := .sn (A2.erase t0) F2' P2 })
                (b := { wk1 with assign := .sn (A ++ [t0]) F' P }) (by simp [hwid, hwid2, hne])] at st2
              constructor
              · show Res4 (putTask s.tasks _) (putWorker (putWorker s.workers _) _) (s.redirects.filter _ ++ [(t0, w, v)]) s.rqs
                exact st2.put_same_resv (ht' (.retracting old)) (fun _ _ => rfl) (by simp [hs])
              · intro t x v' hm
                change (t, x, v') ∈ s.redirects.filter _ ++ [(t0, w, v)] at hm
                change t ∈ asgW (putWorker (putWorker s.workers _) _) x
                have nd1 := nodup_asgW_put_insert hfw1' (t := t0) (by simp [wAsg, ha]) (by simp [wAsg, ha]; exact hnm) hinv.ls.nda
                rw [mem_asgW_put_erase (wk := wk2) (wk' := { wk2 with assign := .sn (A2.erase t0) F2' P2 }) (t := t0)
                  (by simpa [hwid2] using hfw2) (by simp [wAsg, ha2]) (nd1 _), m1]
                rcases List.mem_append.mp hm with h1 | h1
                · obtain ⟨h2, h3⟩ := rd_filter_mem.mp h1
                  exact ⟨Or.inr (hi.rd t x v' h2), fun e => h3 e.2⟩
                · simp only [List.mem_singleton, Prod.mk.injEq] at h1
                  obtain ⟨rfl, rfl, rfl⟩ := h1
                  exact ⟨Or.inl ⟨hwid.symm, rfl⟩, fun e => hne (by simpa [hwid2] using e.1.symm)⟩
        · rename_i hnone
          change List.find? (fun x => decide (x.1 = id)) s.redirects = none at hnone
          cases h
          have hfree : Free3 s.workers s.redirects id :=
            hinv.ls.free_of_retracting (w0 := old) (by rw [hst, hs]) (fun x v' => rd_find_none hnone x v')
          constructor
          · show Res4 s.tasks (putWorker s.workers _) (s.redirects.filter _ ++ [(id, w, v)]) s.rqs
            refine hres.mv_insert (t := id) (es := r.entries) (wk := wk1) hfw1' ha rfl rfl hfr hnosat hfree.na ?_ ?_
            · intro u hu
              exact resvOf_rd_congr ((find_append_ne hu).trans (find_filter_ne hu))
            · rw [resvOf_of_find ht, hs]
              simp only [variantOf, find_filter_append_self, Option.map_some, Option.bind_some]; exact hent
          · intro t x v' hm
            change (t, x, v') ∈ s.redirects.filter _ ++ [(id, w, v)] at hm
            change t ∈ asgW (putWorker s.workers _) x
            rw [m1]
            rcases List.mem_append.mp hm with h1 | h1
            · exact Or.inr (hi.rd t x v' (rd_filter_mem.mp h1).1)
            · simp only [List.mem_singleton, Prod.mk.injEq] at h1
              obtain ⟨rfl, rfl, rfl⟩ := h1
              exact Or.inl ⟨hwid.symm, rfl⟩
      · -- Prefilled elsewhere → Retracting with a redirect
        rename_i old hs
        split at h
        · cases h
        · rename_i s2 hw2
          split at h
          · cases h
          · rename_i hany
            cases h
            obtain ⟨wk2, wk2', hfw2, hf2, rfl⟩ := withWorker_spec hw2
            obtain ⟨A2, F2, P2, ha2, hm2, rfl⟩ := removePrefill_spec hf2
            change findWorker (putWorker s.workers _) old = some wk2 at hfw2
            have hwid2 : wk2.id = old := findWorker_some_id hfw2
            change ¬ (s.redirects.any (fun x => decide (x.1 = id)) = true) at hany
            have hnr : ∀ x v', (id, x, v') ∉ s.redirects := by
              intro x v' hmem
              apply hany
              exact List.any_eq_true.mpr ⟨_, hmem, by simp⟩
            have hna : ∀ x, id ∉ asgW s.workers x :=
              hinv.ls.not_asg_of_state (st := .prefilled old) (by rw [hst, hs]) (by simp)
            have st1 : Res4 (putTask s.tasks { task with state := .retracting old })
                (putWorker s.workers { wk1 with assign := .sn (A ++ [id]) F' P }) (s.redirects ++ [(id, w, v)]) s.rqs := by
              refine hres.mv_insert (t := id) (es := r.entries) (wk := wk1) hfw1' ha rfl rfl hfr hnosat hna ?_ ?_
              · intro u hu
                rw [resvOf_put_ne (by simpa [hid] using hu)]
                exact resvOf_rd_congr (find_append_ne hu)
              · rw [resvOf_put_self' (ht' (.retracting old)) hid]
                simp only [variantOf, find_append_self_of_none hnr, Option.map_some, Option.bind_some]; exact hent
            constructor
            · show Res4 (putTask s.tasks _) (putWorker (putWorker s.workers _) _) (s.redirects ++ [(id, w, v)]) s.rqs
              refine st1.put_same (wk := wk2) (by simpa [hwid2] using hfw2) rfl ?_
              intro A' F0 P' ha'; cases ha'; exact ⟨P2, ha2⟩
            · intro t x v' hm
              change (t, x, v') ∈ s.redirects ++ [(id, w, v)] at hm
              change t ∈ asgW (putWorker (putWorker s.workers _) _) x
              rw [asgW_put_same (wk := wk2) (by simpa [hwid2] using hfw2) (by simp [wAsg, ha2]), m1]
              rcases List.mem_append.mp hm with h1 | h1
              · exact Or.inr (hi.rd t x v' h1)
              · simp only [List.mem_singleton, Prod.mk.injEq] at h1
                obtain ⟨rfl, rfl, rfl⟩ := h1
                exact Or.inl ⟨hwid.symm, rfl⟩
      · cases h

theorem placeSn_ir {s s' : State} {m m' : List WUpdate} {v : Nat} {r : Rq} {id : TaskId} {w i : Nat}
    (hi : IRD s) (hg : Good s i id) (hr : s.rq i v = .ok r) (hrq : RqsOk s.rqs)
    (h : s.placeSn m v r id w = .ok (s', m')) : IRD s' := by
  obtain ⟨hb, hfit⟩ := placeSn_ok h
  refine placeSnBody_ir hi hg hr ?_ hb
  intro wk A F P hfw ha
  exact fitsNow_noSat wk.total r.entries F (hfit wk A F P hfw ha) (hrq.of_rq hr)

theorem placeAll_ir (l : List (TaskId × Nat)) (s0 s s' : State) (m m' : List WUpdate) (v : Nat) (r : Rq) (i : Nat)
    (hi : IRD s) (ht : Trk s0 s) (hg : ∀ p ∈ l, Good s0 i p.1) (hr : s0.rq i v = .ok r) (hrq : RqsOk s0.rqs)
    (h : s.placeAll m v r l = .ok (s', m')) : IRD s' ∧ Trk s0 s' := by
  induction l generalizing s m with
  | nil => simp only [State.placeAll] at h; cases h; exact ⟨hi, ht⟩
  | cons p rest ih =>
    obtain ⟨id, w⟩ := p
    simp only [State.placeAll] at h
    split at h
    · cases h
    · rename_i s1 m1 h1
      have hg1 := ht.good (hg (id, w) (by simp))
      have hr1 : s.rq i v = .ok r := by simp only [State.rq] at hr ⊢; rw [ht.rqs]; exact hr
      have a := placeSn_ir hi hg1 hr1 (by rw [ht.rqs]; exact hrq) h1
      obtain ⟨_, b⟩ := placeSn_inv hi.ir.inv hg1 h1
      exact ih _ _ a (ht.trans b) (fun p hp => hg p (by simp [hp])) h

theorem mapSn_ir (es : List SnEntry) (s0 s s' : State) (now : Nat) (m m' : List WUpdate)
    (hq0 : QueueOk s0) (hrq : RqsOk s0.rqs) (hi : IRD s) (ht : Trk s0 s)
    (h : s.mapSn now m es = .ok (s', m')) : IRD s' ∧ Trk s0 s' := by
  induction es generalizing s m with
  | nil => simp only [State.mapSn] at h; cases h; exact ⟨hi, ht⟩
  | cons e rest ih =>
    simp only [State.mapSn] at h
    split at h
    · cases h
    · rename_i r hr
      split at h
      · cases h
      · split at h
        · cases h
        · rename_i q hq
          split at h
          · cases h
          · rename_i q' htk
            obtain ⟨a, b⟩ := takeTasks_sub htk
            have ht1 : Trk s { s with queues := s.queues.set e.rq q' } := Trk.of_queue_set hq a
            split at h
            · cases h
            · rename_i s2 m2 hp
              have hgood : ∀ p ∈ deal (e.taken.length + 1) e.counts e.taken [], Good s0 e.rq p.1 := by
                intro p hp
                rcases deal_sub _ _ _ _ p hp with h1 | h1
                · cases h1
                · obtain ⟨q0, hq0', hid0⟩ := ht.qsub e.rq q hq p.1 (b _ h1)
                  exact hq0 e.rq q0 hq0' p.1 hid0
              have hi1 : IRD { s with queues := s.queues.set e.rq q' } := ⟨⟨hi.ir.inv, hi.ir.res⟩, hi.rd⟩
              have hr0 : s0.rq e.rq e.v = .ok r := by simp only [State.rq] at hr ⊢; rw [← ht.rqs]; exact hr
              obtain ⟨c, d⟩ := placeAll_ir _ s0 _ _ _ _ _ _ e.rq hi1 (ht.trans ht1) hgood hr0 hrq hp
              exact ih _ _ c d h

/-! ### multi-node placements -/

theorem setMnAll_res (l : List Nat) (s s' : State) (id : TaskId) (first : Bool) {ts : List Task}
    (hr : Res4 ts s.workers s.redirects s.rqs) (h : setMnAll s id l first = .ok s') :
    Res4 ts s'.workers s'.redirects s.rqs := by
  induction l generalizing s first with
  | nil => simp only [setMnAll] at h; cases h; exact hr
  | cons w rest ih =>
    simp only [setMnAll] at h
    split at h
    · cases h
    · rename_i s1 hw
      obtain ⟨wk, wk', hfw, hf, rfl⟩ := withWorker_spec hw
      obtain ⟨_, rfl⟩ := setMn_spec hf
      have hwid : wk.id = w := findWorker_some_id hfw
      refine ih (s.setWorker _) false ?_ h
      refine hr.put_worker (wk := wk) (by simpa [hwid] using hfw) (fun _ _ _ _ => rfl) ?_
      intro A F P ha; cases ha

theorem mapMnSets_ir (sets : List (List Nat)) (s0 s s' : State) (rq : Nat) (acc acc' : List TaskId)
    (hq0 : QueueOk s0) (hmn : isMultiNodeRq s0.rqs rq = true) (hi : IRD s) (ht : Trk s0 s)
    (h : s.mapMnSets rq sets acc = .ok (s', acc')) : IRD s' ∧ Trk s0 s' := by
  induction sets generalizing s acc with
  | nil => simp only [State.mapMnSets] at h; cases h; exact ⟨hi, ht⟩
  | cons ws rest ih =>
    -- one iteration as a list of one set
    have hone : ∀ s1 acc1, s.mapMnSets rq [ws] acc = .ok (s1, acc1) → IRD s1 := by
      intro s1 acc1 h1
      have hinv1 := (mapMnSets_inv [ws] s0 s s1 rq acc acc1 hq0 hmn hi.ir.inv ht h1).1
      simp only [State.mapMnSets] at h1
      split at h1
      · cases h1
      · rename_i q hq
        split at h1
        · cases h1
        · rename_i p ids more hready
          split at h1
          · cases h1
          · rename_i id ids'
            split at h1
            · cases h1
            · rename_i s2 hset
              obtain ⟨a, b, c, d, e, f, g, k⟩ := setMnAll_spec _ _ _ _ _ hset
              split at h1
              · cases h1
              · rename_i task hgt
                split at h1
                · cases h1
                · rename_i hst0
                  simp only [ne_eq, Decidable.not_not] at hst0
                  cases h1
                  have hft2 : findTask s2.tasks id = some task := getTask_spec hgt
                  have hft : findTask s.tasks id = some task := by rw [a] at hft2; exact hft2
                  have hid : task.id = id := findTask_some_id hft
                  have hfree : Free3 s.workers s.redirects id :=
                    hi.ir.inv.ls.free_of_state (Or.inr (Or.inl ⟨0, by rw [stOf_of_find hft, hst0]⟩))
                  have hr2 := @setMnAll_res _ _ _ _ _ s.tasks (by exact hi.ir.res) hset
                  refine ⟨⟨hinv1, ?_⟩, ?_⟩
                  · show Res4 (putTask s2.tasks _) s2.workers s2.redirects s2.rqs
                    rw [a, c]
                    refine Res4.put_free hr2 ?_ (fun _ _ => rfl)
                    intro x
                    show task.id ∉ _
                    rw [e, hid]; exact hfree.na x
                  · intro t x v' hm
                    change (t, x, v') ∈ s2.redirects at hm
                    change t ∈ asgW s2.workers x
                    rw [b] at hm
                    rw [e]; exact hi.rd t x v' hm
    simp only [State.mapMnSets] at h hone
    split at h
    · cases h
    · rename_i q hq
      simp only [hq] at hone
      split at h
      · cases h
      · rename_i p ids more hready
        simp only [hready] at hone
        split at h
        · cases h
        · rename_i id ids'
          split at h
          · cases h
          · rename_i s2 hset
            simp only [hset] at hone
            split at h
            · cases h
            · rename_i task hgt
              simp only [hgt] at hone
              split at h
              · cases h
              · rename_i hst0
                simp only [hst0, if_false] at hone
                have hird := hone _ _ rfl
                have hone' : s.mapMnSets rq [ws] acc = .ok (s2.setTask { task with state := .runningMN ws }, acc ++ [id]) := by
                  simp only [State.mapMnSets, hq, hready, hset, hgt, hst0, if_false]
                obtain ⟨_, b1⟩ := mapMnSets_inv [ws] s0 s _ rq acc _ hq0 hmn hi.ir.inv ht hone'
                exact ih _ _ hird b1 h

theorem mapMn_ir (es : List MnEntry) (s0 s s' : State) (acc acc' : List TaskId)
    (hq0 : QueueOk s0) (hmn : ∀ e ∈ es, isMultiNodeRq s0.rqs e.rq = true) (hi : IRD s) (ht : Trk s0 s)
    (h : s.mapMn es acc = .ok (s', acc')) : IRD s' ∧ Trk s0 s' := by
  induction es generalizing s acc with
  | nil => simp only [State.mapMn] at h; cases h; exact ⟨hi, ht⟩
  | cons e rest ih =>
    simp only [State.mapMn] at h
    split at h
    · cases h
    · rename_i s1 acc1 h1
      obtain ⟨a, b⟩ := mapMnSets_ir _ s0 _ _ _ _ _ hq0 (hmn e (by simp)) hi ht h1
      exact ih _ _ (fun e' he' => hmn e' (by simp [he'])) a b h

/-! ### proactive filling -/

theorem prefillMark_ir (w : Nat) (l : List TaskId) (s0 s s' : State) (i : Nat)
    (hi : IRD s) (ht : Trk s0 s) (hg : ∀ id ∈ l, Good s0 i id)
    (h : State.prefillWorker.mark w s l = .ok s') : IRD s' ∧ Trk s0 s' := by
  induction l generalizing s with
  | nil => simp only [State.prefillWorker.mark] at h; cases h; exact ⟨hi, ht⟩
  | cons id rest ih =>
    have hinv := hi.ir.inv
    simp only [State.prefillWorker.mark] at h
    split at h
    · cases h
    · rename_i task hgt
      have hft : findTask s.tasks id = some task := getTask_spec hgt
      have hid : task.id = id := findTask_some_id hft
      split at h
      · rename_i n hs
        split at h
        · cases h
        · rename_i s2 hw
          obtain ⟨wk, wk', hfw, hf, rfl⟩ := withWorker_spec hw
          obtain ⟨A, F, P, ha, hnm, rfl⟩ := insertPrefill_spec hf
          change findWorker s.workers w = some wk at hfw
          have hwid : wk.id = w := findWorker_some_id hfw
          have ht' : findTask s.tasks ({ task with state := .prefilled w } : Task).id = some task := by
            rw [hid]; exact hft
          have hfree : Free3 s.workers s.redirects id :=
            hinv.ls.free_of_state (Or.inr (Or.inl ⟨n, by rw [stOf_of_find hft, hs]⟩))
          obtain ⟨g1, g2⟩ := ht.good (hg id (by simp)) task hft
          have hfw' : findWorker s.workers ({ wk with assign := .sn A F (P ++ [id]) } : Worker).id = some wk := by
            simpa [hwid] using hfw
          refine ih _ ⟨⟨?_, ?_⟩, ?_⟩ ?_ (fun x hx => hg x (by simp [hx])) h
          · show Inv4 (putTask s.tasks _) (putWorker s.workers _) s.redirects s.rqs
            refine hinv.put_dispatch ht' rfl rfl (by simp only [hid]; exact g2) (by simp) ?_
            exact hinv.ls.mv_prefill (wk := wk) ht' (by show Free3 _ _ task.id; rw [hid]; exact hfree) (by simp [hwid])
              hfw' (by simp [wAsg, ha]) (by simp [wPre, ha, hid]) (by simp [wMn, ha])
          · show Res4 (putTask s.tasks _) (putWorker s.workers _) s.redirects s.rqs
            have r1 : Res4 (putTask s.tasks { task with state := .prefilled w }) s.workers s.redirects s.rqs :=
              hi.ir.res.put_free (by show ∀ x, task.id ∉ _; rw [hid]; exact hfree.na) (fun _ _ => rfl)
            refine r1.put_same (wk := wk) hfw' rfl ?_
            intro A' F' P' ha'; cases ha'; exact ⟨P, ha⟩
          · intro t x v' hm
            change (t, x, v') ∈ s.redirects at hm
            change t ∈ asgW (putWorker s.workers _) x
            rw [asgW_put_same (wk := wk) hfw' (by simp [wAsg, ha])]
            exact hi.rd t x v' hm
          · exact ht.trans (Trk.of_put ht' rfl rfl rfl rfl rfl)
      · cases h

theorem prefillWorker_ir {s0 s s' : State} {m m' : List WUpdate} {rq size w : Nat}
    (hq0 : QueueOk s0) (hi : IRD s) (ht : Trk s0 s)
    (h : s.prefillWorker m rq size w = .ok (s', m')) : IRD s' ∧ Trk s0 s' := by
  simp only [State.prefillWorker] at h
  split at h
  · cases h
  · rename_i q hq
    split at h
    · cases h
    · rename_i p ids0 more hready
      split at h
      · cases h
      · rename_i pf hpf
        have hsub : ∀ x ∈ qIds ({ ready := (takeFromFirst q.ready size).1, prefill := some pf } : Queue), x ∈ qIds q := by
          intro x hx
          rw [qIds_eq] at hx ⊢
          simp only [List.mem_append] at hx ⊢
          rcases hx with h1 | h1
          · exact Or.inl ((takeFromFirst_sub q.ready size x).1 h1)
          · split at hpf
            · rename_i pp ts hpre
              split at hpf
              · cases hpf
              · cases hpf
                simp only [hpre]
                rcases List.mem_append.mp h1 with h2 | h2
                · exact Or.inr h2
                · exact Or.inl ((takeFromFirst_sub q.ready size x).2 h2)
            · cases hpf
              exact Or.inl ((takeFromFirst_sub q.ready size x).2 h1)
        have ht1 := Trk.of_queue_set (q' := { ready := (takeFromFirst q.ready size).1, prefill := some pf }) hq hsub
        split at h
        · cases h
        · rename_i s2 keep hb
          obtain ⟨a, b, c⟩ := prefillBack_spec _ _ _ _ _ _ hb
          split at h
          · cases h
          · rename_i s3 hm
            cases h
            have hi1 : IRD { s with queues := s.queues.set rq { ready := (takeFromFirst q.ready size).1, prefill := some pf } } :=
              ⟨⟨hi.ir.inv, hi.ir.res⟩, hi.rd⟩
            have hi2 : IRD s2 := a.ird hi1
            refine prefillMark_ir w keep s0 s2 _ rq hi2 ((ht.trans ht1).trans b) ?_ hm
            intro id hid
            rcases c id hid with h1 | h1
            · cases h1
            · have : id ∈ qIds q := by
                rw [qIds_eq]; exact List.mem_append.mpr (Or.inl ((takeFromFirst_sub q.ready size id).2 h1))
              obtain ⟨q0, hq0', hid0⟩ := ht.qsub rq q hq id this
              exact hq0 rq q0 hq0' id hid0

theorem prefillWorkers_ir (ws : List Nat) (s0 s s' : State) (m m' : List WUpdate) (rq size : Nat)
    (hq0 : QueueOk s0) (hi : IRD s) (ht : Trk s0 s)
    (h : s.prefillWorkers m rq size ws = .ok (s', m')) : IRD s' ∧ Trk s0 s' := by
  induction ws generalizing s m with
  | nil => simp only [State.prefillWorkers] at h; cases h; exact ⟨hi, ht⟩
  | cons w rest ih =>
    simp only [State.prefillWorkers] at h
    split at h
    · cases h
    · rename_i s1 m1 h1
      obtain ⟨a, b⟩ := prefillWorker_ir hq0 hi ht h1
      exact ih _ _ a b h

theorem proactive_ir (n : Nat) (s0 s s' : State) (m m' : List WUpdate) (orders : List (Nat × List Nat)) (top : Int)
    (rq : Nat) (hq0 : QueueOk s0) (hi : IRD s) (ht : Trk s0 s)
    (h : s.proactive m orders top n rq = .ok (s', m')) : IRD s' ∧ Trk s0 s' := by
  induction n generalizing s m rq with
  | zero => simp only [State.proactive] at h; cases h; exact ⟨hi, ht⟩
  | succ k ih =>
    simp only [State.proactive] at h
    repeat' (split at h)
    all_goals first
      | (cases h; done)
      | (cases h; exact ⟨hi, ht⟩)
      | exact ih _ _ _ hi ht h
      | (rename_i s1 m1 h1
         obtain ⟨a, b⟩ := prefillWorkers_ir _ s0 _ _ _ _ _ _ hq0 hi ht h1
         exact ih _ _ _ a b h)

/-! ### one scheduling round -/

theorem schedule_ir {s s' : State} {sol : Solution} {o : Out} (hi : IR s) (hrd : RdIn s) (hrq : RqsOk s.rqs)
    (hq : QueueOk s) (hm : SolMnOk s sol) (h : s.schedule sol = .ok (s', o)) : IR s' := by
  simp only [State.schedule] at h
  split at h
  · cases h
  · rename_i s1 m1 h1
    obtain ⟨a1, b1⟩ := mapSn_ir _ s _ _ _ _ _ hq hrq ⟨hi, hrd⟩ (Trk.refl s) h1
    split at h
    · cases h
    · rename_i s2 mnTasks h2
      obtain ⟨a2, b2⟩ := mapMn_ir _ s _ _ _ _ hq hm a1 b1 h2
      split at h
      · cases h
      · rename_i s3 m3 h3
        have a3 : IRD s3 := by
          split at h3
          · cases h3; exact a2
          · exact (proactive_ir _ s _ _ _ _ _ _ _ hq a2 b2 h3).1
        split at h
        · cases h
        · split at h
          · cases h
          · cases h
            exact ⟨a3.ir.inv, a3.ir.res⟩

end HqModel.Core
