import HqModel.Lemmas.AllocBasic
/-!
Releasing entries that are held (i.e. counted in the pool invariant) never panics and preserves the invariant with
the released entries removed from the held list.
-/
namespace HqModel.Alloc

theorem count_eq_zero_of_mul {c x : Nat} (h : FPU * c + x = 0) : c = 0 := by
  unfold FPU at h; omega

theorem not_mem_of_count_zero {l : List Nat} {i : Nat} (h : l.count i = 0) : i ∉ l :=
  List.count_eq_zero.mp h

/-- one iteration of the release loop on a held entry -/
theorem releaseIdx_inv {gs : List Group} {U : Nat → List Nat} {e : AIdx} {rest : List AIdx}
    (h : PoolInv gs U (e :: rest)) : ∃ gs', releaseIdx gs e = .ok gs' ∧ PoolInv gs' U rest := by
  have hk := h.keys e (by simp)
  obtain ⟨g, hg⟩ : ∃ g, gs[e.group]? = some g := ⟨gs[e.group]'hk.1, by simp [hk.1]⟩
  have hlt := hk.1
  have hwf := h.wf _ g hg
  have hc := h.conserve e.group e.index
  have hU := count_le_one_of_nodup (h.univ e.group) e.index
  rw [freeAmt_of_get hg, heldBy_cons] at hc
  simp only [and_self, if_true, Group.freeAmt] at hc
  have hU' : FPU * (U e.group).count e.index ≤ FPU := by
    have := Nat.mul_le_mul_left FPU hU
    simpa using this
  unfold releaseIdx
  rw [hg]
  by_cases hf : e.fractions = 0
  · -- a whole index comes back
    simp only [hf, if_true]
    have hamt : e.amt = FPU := by simp [AIdx.amt, hf]
    rw [hamt] at hc
    have hcnt : g.free.count e.index = 0 := by
      rcases Nat.eq_zero_or_pos (g.free.count e.index) with h0 | h0
      · exact h0
      · have : FPU ≤ FPU * g.free.count e.index := Nat.le_mul_of_pos_right FPU h0
        have := FPU_pos
        omega
    have hfr0 : fracOf g.fracs e.index = 0 := by rw [hcnt] at hc; omega
    have hrest0 : heldBy rest e.group e.index = 0 := by rw [hcnt] at hc; omega
    have hvals := vals_set (g' := { g with free := e.index :: g.free }) h.vals hg (fun j => h.vals _ g hg j)
    refine ⟨_, rfl, h.univ, ?_, ?_, ?_, hvals⟩
    · intro gid' g' hg'
      by_cases hgid : gid' = e.group
      · subst hgid
        simp [hlt] at hg'
        subst hg'
        refine ⟨List.nodup_cons.mpr ⟨not_mem_of_count_zero hcnt, hwf.1⟩, fun j hj => ?_⟩
        rcases List.mem_cons.mp hj with rfl | hj
        · exact hfr0
        · exact hwf.2 j hj
      · rw [List.getElem?_set_ne (by omega)] at hg'
        exact h.wf gid' g' hg'
    · intro gid' j
      have hc' := h.conserve gid' j
      rw [heldBy_cons] at hc'
      by_cases hgid : gid' = e.group
      · subst hgid
        rw [freeAmt_set_same _ _ _ _ hlt]
        rw [freeAmt_of_get hg] at hc'
        simp only [Group.freeAmt] at hc' ⊢
        rw [List.count_cons]
        by_cases hj : e.index = j
        · subst hj
          simp [hamt] at hc' ⊢
          unfold FPU at hc' ⊢
          omega
        · have : ¬ (e.group = e.group ∧ e.index = j) := fun h => hj h.2
          simp [hj] at hc' ⊢
          omega
      · rw [freeAmt_set_other _ _ _ _ _ hgid]
        have : ¬ (e.group = gid' ∧ e.index = j) := fun h => hgid h.1.symm
        simp [this] at hc'
        exact hc'
    · intro e' he'
      exact (h.keys e' (List.mem_cons_of_mem _ he')).set hg (fun _ hs => hs)
  · -- a fraction comes back
    simp only [hf, if_false]
    have hamt : e.amt = e.fractions := by simp [AIdx.amt, hf]
    rw [hamt] at hc
    obtain ⟨g₀, hg₀, hs⟩ := hk.2 hf
    rw [hg] at hg₀; cases hg₀
    obtain ⟨f, hget⟩ := Option.isSome_iff_exists.mp hs
    have hff : fracOf g.fracs e.index = f := fracOf_of_fget hget
    rw [hff] at hc
    have hcnt : g.free.count e.index = 0 := by
      rcases Nat.eq_zero_or_pos (g.free.count e.index) with h0 | h0
      · exact h0
      · have : FPU ≤ FPU * g.free.count e.index := Nat.le_mul_of_pos_right FPU h0
        omega
    have hnotfree : e.index ∉ g.free := not_mem_of_count_zero hcnt
    rw [hget]
    by_cases hfull : f + e.fractions = FPU
    · simp only [hfull, if_true]
      have hrest0 : heldBy rest e.group e.index = 0 := by rw [hcnt] at hc; omega
      have hcU : FPU * (U e.group).count e.index = FPU := by rw [hcnt] at hc; omega
      have hvals := vals_set (g' := { free := e.index :: g.free, fracs := ferase g.fracs e.index }) h.vals hg
        (fun j => by
          show fracOf (ferase g.fracs e.index) j < FPU
          rw [fracOf_ferase]
          split
          · exact FPU_pos
          · exact h.vals _ g hg j)
      refine ⟨_, rfl, h.univ, ?_, ?_, ?_, hvals⟩
      · intro gid' g' hg'
        by_cases hgid : gid' = e.group
        · subst hgid
          simp [hlt] at hg'
          subst hg'
          refine ⟨List.nodup_cons.mpr ⟨hnotfree, hwf.1⟩, fun j hj => ?_⟩
          show fracOf (ferase g.fracs e.index) j = 0
          rw [fracOf_ferase]
          rcases List.mem_cons.mp hj with rfl | hj
          · simp
          · by_cases hji : j = e.index
            · simp [hji]
            · simp [hji, hwf.2 j hj]
        · rw [List.getElem?_set_ne (by omega)] at hg'
          exact h.wf gid' g' hg'
      · intro gid' j
        have hc' := h.conserve gid' j
        rw [heldBy_cons] at hc'
        by_cases hgid : gid' = e.group
        · subst hgid
          rw [freeAmt_set_same _ _ _ _ hlt]
          rw [freeAmt_of_get hg] at hc'
          simp only [Group.freeAmt] at hc' ⊢
          rw [List.count_cons, fracOf_ferase]
          by_cases hj : e.index = j
          · subst hj
            simp [hcnt, hrest0, hcU]
          · have h2 : ¬ j = e.index := fun h => hj h.symm
            simp [hj, h2] at hc' ⊢
            omega
        · rw [freeAmt_set_other _ _ _ _ _ hgid]
          have : ¬ (e.group = gid' ∧ e.index = j) := fun h => hgid h.1.symm
          simp [this] at hc'
          exact hc'
      · intro e' he'
        refine (h.keys e' (List.mem_cons_of_mem _ he')).set hg (fun hgrp hs' => ?_)
        show (fget (ferase g.fracs e.index) e'.index).isSome
        rw [fget_ferase]
        have hne : e'.index ≠ e.index := by
          intro heq
          have := heldBy_ge_of_mem he'
          rw [hgrp, heq, hrest0] at this
          have := e'.amt_pos
          omega
        simp [hne, hs']
    · simp only [hfull, if_false]
      have hvals := vals_set (g' := { g with fracs := fset g.fracs e.index (f + e.fractions) }) h.vals hg
        (fun j => by
          show fracOf (fset g.fracs e.index (f + e.fractions)) j < FPU
          rw [fracOf_fset]
          split
          · omega
          · exact h.vals _ g hg j)
      refine ⟨_, rfl, h.univ, ?_, ?_, ?_, hvals⟩
      · intro gid' g' hg'
        by_cases hgid : gid' = e.group
        · subst hgid
          simp [hlt] at hg'
          subst hg'
          refine ⟨hwf.1, fun j hj => ?_⟩
          show fracOf (fset g.fracs e.index (f + e.fractions)) j = 0
          rw [fracOf_fset]
          have hji : j ≠ e.index := fun h => hnotfree (h ▸ hj)
          simp [hji, hwf.2 j hj]
        · rw [List.getElem?_set_ne (by omega)] at hg'
          exact h.wf gid' g' hg'
      · intro gid' j
        have hc' := h.conserve gid' j
        rw [heldBy_cons] at hc'
        by_cases hgid : gid' = e.group
        · subst hgid
          rw [freeAmt_set_same _ _ _ _ hlt]
          rw [freeAmt_of_get hg] at hc'
          simp only [Group.freeAmt] at hc' ⊢
          rw [fracOf_fset]
          by_cases hj : e.index = j
          · subst hj
            simp [hamt, hff] at hc' ⊢
            omega
          · have h2 : ¬ j = e.index := fun h => hj h.symm
            simp [hj, h2] at hc' ⊢
            omega
        · rw [freeAmt_set_other _ _ _ _ _ hgid]
          have : ¬ (e.group = gid' ∧ e.index = j) := fun h => hgid h.1.symm
          simp [this] at hc'
          exact hc'
      · intro e' he'
        refine (h.keys e' (List.mem_cons_of_mem _ he')).set hg (fun _ hs' => ?_)
        show (fget (fset g.fracs e.index (f + e.fractions)) e'.index).isSome
        rw [fget_fset]
        by_cases hki : e'.index = e.index <;> simp [hki, hs']

theorem releaseIdx_length {gs gs' : List Group} {e : AIdx} (h : releaseIdx gs e = .ok gs') :
    gs'.length = gs.length := by
  unfold releaseIdx at h
  split at h
  · cases h
  · split at h
    · cases h; simp
    · split at h
      · cases h
      · split at h <;> (cases h; simp)

/-- releasing a list of held entries -/
theorem releaseList_inv {gs : List Group} {U : Nat → List Nat} {l others : List AIdx}
    (h : PoolInv gs U (l ++ others)) :
    ∃ gs', releaseList gs l = .ok gs' ∧ PoolInv gs' U others ∧ gs'.length = gs.length := by
  induction l generalizing gs with
  | nil => exact ⟨gs, rfl, h, rfl⟩
  | cons e es ih =>
    obtain ⟨gs₁, h₁, inv₁⟩ := releaseIdx_inv (rest := es ++ others) (by simpa using h)
    obtain ⟨gs₂, h₂, inv₂, len₂⟩ := ih inv₁
    refine ⟨gs₂, ?_, inv₂, by rw [len₂, releaseIdx_length h₁]⟩
    simp [releaseList, h₁, h₂]

end HqModel.Alloc
