import HqModel.Lemmas.JobInv
/-!
`StateWF` is preserved by every `step` of the job layer and therefore holds after every run.
-/
namespace HqModel.Job

theorem findJob_some {jobs : List Job} {j : Nat} {job : Job} (h : findJob jobs j = some job) :
    job ∈ jobs ∧ job.id = j := by
  induction jobs with
  | nil => simp [findJob] at h
  | cons x rest ih =>
    simp only [findJob] at h
    split at h
    · cases h; rename_i hx; exact ⟨by simp, hx⟩
    · have := ih h; exact ⟨by simp [this.1], this.2⟩

theorem findJob_none_of_not_mem {jobs : List Job} {j : Nat} (h : j ∉ jobs.map (·.id)) :
    findJob jobs j = none := by
  induction jobs with
  | nil => rfl
  | cons x rest ih =>
    simp only [List.map_cons, List.mem_cons, not_or] at h
    have : ¬ x.id = j := fun e => h.1 e.symm
    simp only [findJob, this, if_false]
    exact ih h.2

theorem replaceJob_ids (jobs : List Job) (job : Job) :
    (replaceJob jobs job).map (·.id) = jobs.map (·.id) := by
  induction jobs with
  | nil => rfl
  | cons x rest ih =>
    simp only [replaceJob]
    split
    · rename_i hx; simp [ih, hx]
    · simp [ih]

theorem mem_replaceJob {jobs : List Job} {job x : Job} (h : x ∈ replaceJob jobs job) :
    x = job ∨ x ∈ jobs := by
  induction jobs with
  | nil => simp [replaceJob] at h
  | cons y rest ih =>
    simp only [replaceJob] at h
    split at h
    · simp only [List.mem_cons] at h
      rcases h with h | h
      · exact .inl h
      · rcases ih h with h | h
        · exact .inl h
        · exact .inr (by simp [h])
    · simp only [List.mem_cons] at h
      rcases h with h | h
      · exact .inr (by simp [h])
      · rcases ih h with h | h
        · exact .inl h
        · exact .inr (by simp [h])

/-- replacing a job by a well-formed job with the same id keeps the state well-formed -/
theorem StateWF.putJob {s : State} {job job' : Job} (h : StateWF s) (hj : s.getJob job.id = some job)
    (hid : job'.id = job.id) (hw : JobWF job') : StateWF (s.putJob job') := by
  have hmem := (findJob_some hj).1
  refine ⟨?_, ?_, ?_⟩
  · intro x hx
    rcases mem_replaceJob hx with rfl | hx
    · exact hw
    · exact h.jobs x hx
  · simp only [State.putJob, replaceJob_ids]; exact h.ids
  · intro x hx
    rcases mem_replaceJob hx with rfl | hx
    · simp only [State.putJob]; rw [hid]; exact h.below job hmem
    · exact h.below x hx

theorem StateWF.withSent {s : State} (h : StateWF s) (l : List TaskId) : StateWF { s with sent := l } :=
  ⟨h.jobs, h.ids, h.below⟩

theorem getJob_id {s : State} {j : Nat} {job : Job} (h : s.getJob j = some job) : job.id = j :=
  (findJob_some h).2

theorem getJob_wf {s : State} {j : Nat} {job : Job} (hs : StateWF s) (h : s.getJob j = some job) : JobWF job :=
  hs.jobs job (findJob_some h).1

/-- adding a fresh job with id `jobCtr` -/
theorem StateWF.addJob {s : State} {job : Job} (h : StateWF s) (hid : job.id = s.jobCtr) (hw : JobWF job)
    (l : List TaskId) :
    StateWF { s with jobs := s.jobs ++ [job], jobCtr := s.jobCtr + 1, sent := l } := by
  refine ⟨?_, ?_, ?_⟩
  · intro x hx
    simp only [List.mem_append, List.mem_singleton] at hx
    rcases hx with hx | rfl
    · exact h.jobs x hx
    · exact hw
  · simp only [List.map_append, List.map_cons, List.map_nil]
    rw [List.nodup_append]
    refine ⟨h.ids, by simp, ?_⟩
    intro a ha b hb
    simp at hb; subst hb
    simp only [List.mem_map] at ha
    obtain ⟨x, hx, rfl⟩ := ha
    have := h.below x hx
    omega
  · intro x hx
    simp only [List.mem_append, List.mem_singleton] at hx
    rcases hx with hx | rfl
    · have := h.below x hx; simp only []; omega
    · simp only []; omega

theorem emptyJob_wf (j : Nat) (o : Bool) (mf : Option Nat) :
    JobWF { id := j, isOpen := o, maxFails := mf } :=
  ⟨by simp [keys], rfl, rfl, rfl, rfl, rfl⟩

theorem attach_id : ∀ (ids : List Nat) {job job' : Job}, job.attach ids = .ok job' → job'.id = job.id
  | [], job, job', e => by simp only [Job.attach] at e; cases e; rfl
  | t :: rest, job, job', e => by
    simp only [Job.attach] at e
    split at e
    · cases e
    · exact (attach_id rest e).trans rfl

theorem setWaitingAll_wf : ∀ (ts : List TaskId) {s s' : State}, StateWF s → s.setWaitingAll ts = .ok s' → StateWF s'
  | [], s, s', h, e => by simp only [State.setWaitingAll] at e; cases e; exact h
  | t :: rest, s, s', h, e => by
    simp only [State.setWaitingAll] at e
    split at e
    · cases e
    · rename_i job hj
      split at e
      · cases e
      · rename_i job' hw
        have hid : job'.id = job.id := by
          unfold Job.setWaiting at hw
          split at hw <;> cases hw; rfl
        have hjid := getJob_id hj
        exact setWaitingAll_wf rest
          (StateWF.putJob h (by rw [hjid]; exact hj) hid ((getJob_wf h hj).setWaiting hw)) e

/-- every operation of the job layer preserves `StateWF` -/
theorem step_wf {s s' : State} {op : Op} {evs : List Ev} (h : StateWF s) (e : step s op = .ok (s', evs)) :
    StateWF s' := by
  cases op with
  | openJob mf =>
    simp only [step, State.openJob] at e
    split at e
    · cases e
    · simp only [Except.map] at e
      cases e
      exact StateWF.addJob (s := s) h rfl (emptyJob_wf _ _ _) s.sent
  | submit j mf d =>
    simp only [step, State.submit] at e
    split at e
    · simp only [Except.map] at e; cases e; exact h
    · split at e
      · -- into an existing job
        rename_i jid
        split at e
        · simp only [Except.map] at e; cases e; exact h
        · rename_i job hj
          split at e
          · simp only [Except.map] at e; cases e; exact h
          · split at e
            · simp only [Except.map] at e; cases e; exact h
            · split at e
              · simp only [Except.map] at e; cases e
              · rename_i job' ha
                simp only [Except.map] at e
                cases e
                have hjid := getJob_id hj
                exact (StateWF.putJob h (by rw [hjid]; exact hj) (attach_id _ ha)
                  (JobWF.attach _ (getJob_wf h hj) ha)).withSent _
      · -- a new closed job
        split at e
        · simp only [Except.map] at e; cases e
        · split at e
          · simp only [Except.map] at e; cases e
          · rename_i job' ha
            simp only [Except.map] at e
            cases e
            have hid := attach_id _ ha
            exact StateWF.addJob (s := s) h hid (JobWF.attach _ (emptyJob_wf _ _ _) ha) _
  | close j =>
    simp only [step, State.closeJob] at e
    split at e
    · cases e; exact h
    · rename_i job hj
      split at e
      · cases e
        have w := getJob_wf h hj
        have hjid := getJob_id hj
        exact StateWF.putJob (job := job) h (by rw [hjid]; exact hj) rfl
          ⟨w.nodup, w.running, w.finished, w.failed, w.canceled, w.aborted⟩
      · cases e; exact h
  | cancel j =>
    simp only [step, State.cancelJob] at e
    split at e
    · simp only [Except.map] at e; cases e; exact h
    · rename_i job hj
      split at e
      · simp only [Except.map] at e; cases e; exact h
      · split at e
        · simp only [Except.map] at e; cases e
        · rename_i job' evs' hc
          simp only [Except.map] at e
          cases e
          have hid : job'.id = job.id := by
            unfold Job.setCancel at hc
            split at hc
            · cases hc; rfl
            · split at hc
              · cases hc
              · rename_i job1 hm
                cases hc
                exact (markAll_spec .canceled _ (by decide) (by decide) (by decide) (by decide) _ _ _
                  (getJob_wf h hj).nodup (getJob_wf h hj).running hm).id
          have hjid := getJob_id hj
          exact (StateWF.putJob h (by rw [hjid]; exact hj) hid ((getJob_wf h hj).setCancel hc)).withSent _
  | forget j allowed =>
    simp only [step, State.forgetJob] at e
    split at e
    · simp only [Except.map] at e; cases e; exact h
    · split at e
      · simp only [Except.map] at e; cases e; exact h
      · split at e
        · simp only [Except.map] at e; cases e
        · split at e
          · simp only [Except.map] at e
            cases e
            refine ⟨fun x hx => h.jobs x (List.mem_filter.mp hx).1, ?_, fun x hx => h.below x (List.mem_filter.mp hx).1⟩
            exact (List.filter_sublist.map _).nodup h.ids
          · simp only [Except.map] at e; cases e; exact h
  | started t i ws rv =>
    simp only [step, State.taskStarted] at e
    split at e
    · cases e
    · rename_i job hj
      split at e
      · cases e
      · rename_i job' hr
        cases e
        have hid : job'.id = job.id := by
          unfold Job.setRunning at hr
          split at hr <;> cases hr <;> rfl
        have hjid := getJob_id hj
        exact StateWF.putJob h (by rw [hjid]; exact hj) hid ((getJob_wf h hj).setRunning hr)
  | finished t =>
    simp only [step, State.taskFinished] at e
    split at e
    · cases e
    · rename_i job hj
      split at e
      · cases e
      · rename_i job' evs' hr
        cases e
        have hid : job'.id = job.id := by
          unfold Job.setFinished at hr
          split at hr <;> cases hr; rfl
        have hjid := getJob_id hj
        exact (StateWF.putJob h (by rw [hjid]; exact hj) hid ((getJob_wf h hj).setFinished hr)).withSent _
  | failed t cons =>
    simp only [step, State.taskFailed] at e
    split at e
    · simp only [Except.map] at e; cases e
    · rename_i job hj
      have hjid := getJob_id hj
      have w0 := getJob_wf h hj
      split at e
      · simp only [Except.map] at e; cases e
      · rename_i job1 ev1 ha
        have w1 := w0.abortTasks ha
        have id1 : job1.id = job.id := by
          unfold Job.abortTasks at ha
          split at ha
          · cases ha; rfl
          · split at ha
            · cases ha
            · rename_i jobm hm
              cases ha
              exact (markAll_spec .aborted _ (by decide) (by decide) (by decide) (by decide) _ _ _
                w0.nodup w0.running hm).id
        split at e
        · simp only [Except.map] at e; cases e
        · rename_i job2 ev2 hf
          have w2 := w1.setFailed hf
          have id2 : job2.id = job1.id := by
            unfold Job.setFailed at hf
            split at hf <;> cases hf <;> rfl
          have hs2 : StateWF ({ s.putJob job2 with sent := removeAll s.sent (t :: cons) } : State) :=
            (StateWF.putJob h (by rw [hjid]; exact hj) (id2.trans id1) w2).withSent _
          split at e
          · split at e
            · split at e
              · simp only [Except.map] at e; cases e
              · rename_i job3 ev3 ha3
                simp only [Except.map] at e
                cases e
                have w3 := w2.abortTasks ha3
                have id3 : job3.id = job2.id := by
                  unfold Job.abortTasks at ha3
                  split at ha3
                  · cases ha3; rfl
                  · split at ha3
                    · cases ha3
                    · rename_i jobm hm
                      cases ha3
                      exact (markAll_spec .aborted _ (by decide) (by decide) (by decide) (by decide) _ _ _
                        w2.nodup w2.running hm).id
                -- job2 is what the intermediate state holds under this id
                have hget : ({ s.putJob job2 with sent := removeAll s.sent (t :: cons) } : State).getJob job2.id
                    = some job2 := by
                  have : ∀ (jobs : List Job), job ∈ jobs → (jobs.map (·.id)).Nodup →
                      findJob (replaceJob jobs job2) job2.id = some job2 := by
                    intro jobs
                    induction jobs with
                    | nil => intro hm; cases hm
                    | cons x rest ih =>
                      intro hm hnd
                      simp only [replaceJob]
                      split
                      · simp [findJob]
                      · rename_i hx
                        simp only [findJob, hx, if_false]
                        simp only [List.mem_cons] at hm
                        rcases hm with rfl | hm
                        · exact absurd (id2.trans id1).symm hx
                        · exact ih hm (List.nodup_cons.mp hnd).2
                  exact this s.jobs (findJob_some hj).1 h.ids
                exact (StateWF.putJob hs2 hget id3 w3).withSent _
            · simp only [Except.map] at e; cases e; exact hs2
          · simp only [Except.map] at e; cases e; exact hs2
  | workerNew w =>
    simp only [step, State.workerNew] at e
    split at e
    · cases e
    · cases e; exact ⟨h.jobs, h.ids, h.below⟩
  | workerLost w running reason =>
    simp only [step, State.workerLost] at e
    split at e
    · cases e
    · rename_i s1 hs
      split at e
      · cases e
      · cases e; exact setWaitingAll_wf _ h hs

theorem init_wf : StateWF ({} : State) := by
  refine ⟨?_, ?_, ?_⟩
  · intro j hj; simp at hj
  · simp
  · intro j hj; simp at hj

/-- the invariant holds after every run that does not stop with a panic -/
theorem run_wf : ∀ (ops : List Op) {s s' : State} {evs : List Ev}, StateWF s → run s ops = .ok (s', evs) → StateWF s'
  | [], s, s', evs, h, e => by simp only [run] at e; cases e; exact h
  | op :: ops, s, s', evs, h, e => by
    simp only [run] at e
    split at e
    · cases e
    · rename_i s1 ev1 hs
      split at e
      · cases e
      · rename_i s2 ev2 hr
        cases e
        exact run_wf ops (step_wf h hs) hr

end HqModel.Job
