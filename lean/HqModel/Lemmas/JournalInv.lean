import HqModel.Journal.Spec
import HqModel.Lemmas.JournalAL
/-!
The simulation invariant between the restorer state (`restorerFold`) and the abstract state (`meaning`) along a
producible journal, and its preservation by every record.
-/
namespace HqModel.Journal
open HqModel.Job

def outcomeOpt : Option RTask → Outcome
  | none => .waiting
  | some ti => ti.state.outcome

/-- every submit of the sequence was acceptable when it was made -/
def submitsOk : List Nat → List TaskDesc → Bool
  | _, [] => true
  | have_, d :: ds => submitOk have_ d && submitsOk (have_ ++ d.ids) ds

def pairOf (a : ATask) : Nat × List Nat := (a.id, a.deps)

structure JobRel (rj : RJob) (aj : AJob) : Prop where
  isOpen : rj.isOpen = aj.isOpen
  maxFails : rj.maxFails = aj.maxFails
  tasks : aj.tasks.map pairOf = rj.submits.flatMap (fun d => d.specTasks.map pairOf)
  nSubmits : aj.nSubmits = rj.submits.length
  outcome : ∀ a ∈ aj.tasks, a.st = outcomeOpt (alGet rj.tasks a.id)
  inst : ∀ a ∈ aj.tasks, a.inst = (alGet rj.tasks a.id).bind (·.inst)
  shape : ∀ t ti, alGet rj.tasks t = some ti →
    (∃ sd, ti.state = .running sd ∧ ti.inst.isSome = true) ∨ ti.state.isCompleted = true
  known : ∀ t, (alGet rj.tasks t).isSome = true → t ∈ aj.tasks.map (·.id)
  valid : submitsOk [] rj.submits = true

theorem specTasks_ids (d : TaskDesc) : d.specTasks.map (·.id) = d.ids := by
  cases d <;> simp [TaskDesc.specTasks, TaskDesc.ids, List.map_map, Function.comp_def]

theorem map_id_eq_of_pairOf {l : List ATask} {m : List (Nat × List Nat)} (h : l.map pairOf = m) :
    l.map (·.id) = m.map (·.1) := by
  subst h; simp [List.map_map, Function.comp_def, pairOf]

/-- the task ids of a job in terms of its submits -/
theorem JobRel.ids {rj : RJob} {aj : AJob} (h : JobRel rj aj) : aj.tasks.map (·.id) = rj.submits.flatMap (·.ids) := by
  rw [map_id_eq_of_pairOf h.tasks]
  simp only [List.map_flatMap, List.map_map]
  congr 1
  funext d
  rw [← specTasks_ids d]
  simp [Function.comp_def, pairOf]

theorem find_some {aj : AJob} {t : Nat} {a : ATask} (h : aj.find t = some a) : a ∈ aj.tasks ∧ a.id = t := by
  unfold AJob.find at h
  exact ⟨List.mem_of_find?_eq_some h, by simpa using List.find?_some h⟩

theorem taskIs_elim {s : AState} {j t : Nat} {p : ATask → Bool} (h : taskIs s (j, t) p = true) :
    ∃ aj a, alGet s.jobs j = some aj ∧ a ∈ aj.tasks ∧ a.id = t ∧ p a = true := by
  unfold taskIs at h
  simp only at h
  split at h
  · rename_i aj haj
    split at h
    · rename_i a ha
      exact ⟨aj, a, haj, (find_some ha).1, (find_some ha).2, h⟩
    · simp at h
  · simp at h

/-- generic "one task changes" step of the job relation -/
theorem JobRel.updTask {rj : RJob} {aj : AJob} (h : JobRel rj aj) (t : Nat) (f : ATask → ATask) (ti' : RTask)
    (hmem : t ∈ aj.tasks.map (·.id))
    (hf : ∀ a, pairOf (f a) = pairOf a)
    (hst : ∀ a ∈ aj.tasks, a.id = t → (f a).st = ti'.state.outcome ∧ (f a).inst = ti'.inst)
    (hshape : (∃ sd, ti'.state = .running sd ∧ ti'.inst.isSome = true) ∨ ti'.state.isCompleted = true) :
    JobRel { rj with tasks := alSet rj.tasks t ti' }
      { aj with tasks := aj.tasks.map fun a => if a.id = t then f a else a } := by
  have hpair : ∀ a : ATask, pairOf (if a.id = t then f a else a) = pairOf a := by
    intro a; split <;> simp [hf]
  have hid : ∀ a : ATask, (if a.id = t then f a else a).id = a.id := by
    intro a; have := hpair a; simp only [pairOf, Prod.mk.injEq] at this; exact this.1
  refine ⟨h.isOpen, h.maxFails, ?_, h.nSubmits, ?_, ?_, ?_, ?_, h.valid⟩
  · simp only [List.map_map]
    rw [← h.tasks]
    apply List.map_congr_left
    intro a _
    exact hpair a
  · intro a' ha'
    simp only [List.mem_map] at ha'
    obtain ⟨a, ha, rfl⟩ := ha'
    rw [hid a]
    by_cases hat : a.id = t
    · simp only [hat, if_true, alGet_set_self, outcomeOpt]
      exact (hst a ha hat).1
    · have : t ≠ a.id := fun e => hat e.symm
      simp only [hat, if_false, alGet_set_ne _ _ this]
      exact h.outcome a ha
  · intro a' ha'
    simp only [List.mem_map] at ha'
    obtain ⟨a, ha, rfl⟩ := ha'
    rw [hid a]
    by_cases hat : a.id = t
    · simp only [hat, if_true, alGet_set_self, Option.bind_some]
      exact (hst a ha hat).2
    · have : t ≠ a.id := fun e => hat e.symm
      simp only [hat, if_false, alGet_set_ne _ _ this]
      exact h.inst a ha
  · intro t' ti hti
    simp only [alGet_set] at hti
    split at hti
    · cases hti; exact hshape
    · exact h.shape t' ti hti
  · intro t' ht'
    have hids : (aj.tasks.map fun a => if a.id = t then f a else a).map (·.id) = aj.tasks.map (·.id) := by
      simp only [List.map_map]
      apply List.map_congr_left
      intro a _
      exact hid a
    simp only [hids]
    simp only [alGet_set] at ht'
    split at ht'
    · rename_i e; subst e; exact hmem
    · exact h.known t' ht'


/-- the job relation does not read crash counters (restorer) nor `run`/`crashes` (spec) -/
theorem JobRel.congr {rj rj' : RJob} {aj : AJob} (h : JobRel rj aj) (g : RTask → RTask) (k : ATask → ATask)
    (h1 : rj'.isOpen = rj.isOpen) (h2 : rj'.maxFails = rj.maxFails) (h3 : rj'.submits = rj.submits)
    (h4 : ∀ t, alGet rj'.tasks t = (alGet rj.tasks t).map g)
    (hg : ∀ ti, (g ti).state = ti.state ∧ (g ti).inst = ti.inst)
    (hk : ∀ a, (k a).id = a.id ∧ (k a).deps = a.deps ∧ (k a).st = a.st ∧ (k a).inst = a.inst) :
    JobRel rj' { aj with tasks := aj.tasks.map k } := by
  have hpair : ∀ a, pairOf (k a) = pairOf a := fun a => by simp [pairOf, (hk a).1, (hk a).2.1]
  refine ⟨by rw [h1, h.isOpen], by rw [h2, h.maxFails], ?_, by rw [h3]; exact h.nSubmits, ?_, ?_, ?_, ?_, by rw [h3]; exact h.valid⟩
  · rw [h3, ← h.tasks]
    simp only [List.map_map]
    apply List.map_congr_left
    intro a _; exact hpair a
  · intro a' ha'
    simp only [List.mem_map] at ha'
    obtain ⟨a, ha, rfl⟩ := ha'
    rw [(hk a).1, (hk a).2.2.1, h4, h.outcome a ha]
    cases alGet rj.tasks a.id with
    | none => rfl
    | some ti => simp [outcomeOpt, (hg ti).1]
  · intro a' ha'
    simp only [List.mem_map] at ha'
    obtain ⟨a, ha, rfl⟩ := ha'
    rw [(hk a).1, (hk a).2.2.2, h4, h.inst a ha]
    cases alGet rj.tasks a.id with
    | none => rfl
    | some ti => simp [(hg ti).2]
  · intro t ti hti
    rw [h4] at hti
    cases hget : alGet rj.tasks t with
    | none => simp [hget] at hti
    | some ti0 =>
      simp [hget] at hti
      subst hti
      rw [(hg ti0).1, (hg ti0).2]
      exact h.shape t ti0 hget
  · intro t ht
    rw [h4] at ht
    have : (alGet rj.tasks t).isSome = true := by cases hget : alGet rj.tasks t <;> simp_all
    have := h.known t this
    simpa [List.map_map, Function.comp_def, (fun a => (hk a).1)] using this

theorem lose_fields (w : Nat) (b : Bool) (a : ATask) :
    (a.lose w b).id = a.id ∧ (a.lose w b).deps = a.deps ∧ (a.lose w b).st = a.st ∧ (a.lose w b).inst = a.inst := by
  unfold ATask.lose
  split
  · split <;> simp
  · simp

theorem JobRel.workerLost {rj : RJob} {aj : AJob} (h : JobRel rj aj) (w : Nat) (b : Bool) :
    JobRel (rj.increaseCrash w) { aj with tasks := aj.tasks.map (ATask.lose w b) } ∧
    JobRel rj { aj with tasks := aj.tasks.map (ATask.lose w b) } := by
  constructor
  · refine h.congr _ _ rfl rfl rfl (fun t => by simp only [RJob.increaseCrash]; exact alGet_map _ _ t) ?_ (lose_fields w b)
    intro ti
    split
    · split <;> simp
    · simp
  · exact h.congr id _ rfl rfl rfl (fun t => by simp) (fun _ => ⟨rfl, rfl⟩) (lose_fields w b)

end HqModel.Journal
