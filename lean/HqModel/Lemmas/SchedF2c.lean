import HqModel.Lemmas.SchedF2b
/-!
Lemmas for C15, part 8 (fragment F2): arithmetic of the gap and of the limit on one worker, the ready classes
of a two-class instance, `blockersAt` for two classes, dispatched ⇔ placed on the single worker.
-/
namespace HqModel.Sched

theorem foldl_sub_le (g : Nat → Nat) (high : Nat) : ∀ (l : List Nat) (base : Nat),
    l.foldl (fun f a => if a ≠ high then f - g a else f) base ≤ base
  | [], base => by simp
  | a :: rest, base => by
    simp only [List.foldl_cons]
    split
    · exact Nat.le_trans (foldl_sub_le g high rest _) (Nat.sub_le _ _)
    · exact foldl_sub_le g high rest _

/-- a class that asks for cpus only: capability and immediate fit are the cpu comparisons -/
theorem capable_cpu {inst : Instance} {c : Nat} (hc2 : inst.need2 c = 0) (w : Worker) :
    capable inst c w = decide (inst.need c ≤ w.total) := by
  simp [capable, hc2]

theorem fitsNow_cpu {inst : Instance} {c : Nat} (hc2 : inst.need2 c = 0) (w : Worker) :
    fitsNow inst c w = decide (inst.need c ≤ w.free) := by
  simp [fitsNow, hc2]

/-- the gap between two cpu-only classes is the cpu-only gap: the second resource kind plays no part -/
theorem gap_cpu {inst : Instance} {high low : Nat} (hh : inst.need2 high = 0) (hl : inst.need2 low = 0) (w : Worker) :
    gap inst high low w =
      gapLeft inst.need high w.assigned (w.total - inst.need high * (w.total / inst.need high)) / inst.need low := by
  simp [gap, fitCount, hh, hl]

/-- the gap, in cpus of the lower class, never exceeds what the higher class cannot use of the worker (cpu-only
classes; with a second resource kind this is false, see `c15_counterexample_two_resources`) -/
theorem gap_mul_lt (inst : Instance) (high low : Nat) (w : Worker) (hpos : 0 < inst.need high)
    (hh : inst.need2 high = 0) (hl : inst.need2 low = 0) :
    inst.need low * gap inst high low w < inst.need high := by
  have h1 : inst.need low * gap inst high low w ≤
      w.total - inst.need high * (w.total / inst.need high) := by
    rw [gap_cpu hh hl]
    unfold gapLeft
    exact Nat.le_trans (Nat.mul_div_le _ _) (foldl_sub_le _ _ _ _)
  have h2 : w.total - inst.need high * (w.total / inst.need high) < inst.need high := by
    rw [← Nat.mod_def]; exact Nat.mod_lt _ hpos
  omega

theorem limitOf_one {inst : Instance} {w : Worker} (hw : inst.workers = [w]) {c : Nat}
    (hc2 : inst.need2 c = 0) (hcap : inst.need c ≤ w.total) : inst.limitOf c = max 1 (w.free / inst.need c) := by
  simp [Instance.limitOf, hw, capable_cpu hc2, hcap, fitCount, hc2]

/-- on one worker that can run the class, a count that fits into the free cpus is within the limit -/
theorem le_limitOf_one {inst : Instance} {w : Worker} (hw : inst.workers = [w]) {c n : Nat}
    (hc2 : inst.need2 c = 0) (hcap : inst.need c ≤ w.total) (hpos : 0 < inst.need c)
    (hfit : inst.need c * n ≤ w.free) :
    n ≤ inst.limitOf c := by
  rw [limitOf_one hw hc2 hcap]
  have : n ≤ w.free / inst.need c := by
    rw [Nat.le_div_iff_mul_le hpos, Nat.mul_comm]; exact hfit
  omega

theorem two_of_length_le_two {a b : Nat} : ∀ {l : List Nat}, l.length ≤ 2 → a ∈ l → b ∈ l → a ≠ b →
    l = [a, b] ∨ l = [b, a]
  | [], _, ha, _, _ => by simp at ha
  | [x], _, ha, hb, hne => by simp at ha hb; omega
  | [x, y], _, ha, hb, hne => by
    simp only [List.mem_cons, List.not_mem_nil, or_false] at ha hb
    rcases ha with rfl | rfl <;> rcases hb with rfl | rfl
    · exact absurd rfl hne
    · left; rfl
    · right; rfl
    · exact absurd rfl hne
  | _ :: _ :: _ :: _, hlen, _, _, _ => by simp at hlen

theorem cls_mem_readyClasses {inst : Instance} {t : TaskInfo} (ht : t ∈ inst.tasks) :
    t.cls ∈ inst.readyClasses ∧ t.cls < inst.queues.length := by
  obtain ⟨c, hc, htc⟩ := mem_tasks.mp ht
  rw [cls_of_mem_flatten htc]
  refine ⟨?_, hc⟩
  simp only [Instance.readyClasses, List.mem_filter, List.mem_range]
  refine ⟨hc, ?_⟩
  cases hq : inst.queue c with
  | nil => rw [hq] at htc; simp [flatten] at htc
  | cons _ _ => rfl

/-- `blockersAt` when exactly the classes `c`, `c'` have ready tasks -/
theorem blockersAt_two {inst : Instance} {c c' : Nat} (hne : c ≠ c')
    (hr : inst.readyClasses = [c, c'] ∨ inst.readyClasses = [c', c]) (p : Int) :
    blockersAt inst c p =
      if above inst c' p > 0 then
        [(c', if above inst c' p > inst.limitOf c' then none else some (above inst c' p))]
      else [] := by
  have hne' : ¬ c' = c := fun e => hne e.symm
  unfold blockersAt
  rcases hr with e | e <;> rw [e] <;> by_cases ha : above inst c' p > 0 <;>
    simp [hne', ha]

theorem on_dispatched {pl : Placement} {t : HqModel.Core.TaskId} {w : Nat} (h : pl.on t w = true) :
    pl.dispatched t = true := by
  simp only [Placement.on, List.contains_iff_mem] at h
  simp only [Placement.dispatched, List.any_eq_true, decide_eq_true_eq]
  exact ⟨_, h, rfl⟩

theorem dispatched_on_one {inst : Instance} {w : Worker} (hw : inst.workers = [w]) {x : Assign} {pl : Placement}
    (hv : ValidPlacement inst x pl) {t : HqModel.Core.TaskId} (h : pl.dispatched t = true) :
    pl.on t w.id = true := by
  simp only [Placement.dispatched, List.any_eq_true, decide_eq_true_eq] at h
  obtain ⟨e, he, rfl⟩ := h
  obtain ⟨w', hw', hid⟩ := hv.workers e he
  rw [hw] at hw'
  simp only [List.mem_singleton] at hw'
  subst hw'
  simp only [Placement.on, List.contains_iff_mem]
  rw [hid]
  exact he

/-- the weight of a cpu-only class on the single worker: its cpus, times a factor common to all such classes (the
free amount of the second resource kind enters only through the common denominator) -/
theorem weightP_one {inst : Instance} {w : Worker} (hw : inst.workers = [w]) (hfree : 0 < w.free) {c : Nat}
    (hc2 : inst.need2 c = 0) (hwt : inst.weight c = 10000) :
    weightP inst 0 c = (max w.free2 1 * 1000000) * inst.need c := by
  have hs : inst.freeSum = w.free := by simp [Instance.freeSum, hw]
  have hs2 : inst.freeSum2 = w.free2 := by simp [Instance.freeSum2, hw]
  have : ¬ w.free = 0 := by omega
  simp only [weightP, shareP, hs, hs2, this, ↓reduceIte, hw, List.length_cons, List.length_nil, hwt, hc2,
    Nat.zero_mul, Nat.sub_zero]
  split
  · simp only [Nat.add_zero]
    rw [Nat.mul_comm (inst.need c), Nat.mul_assoc, Nat.mul_assoc, Nat.mul_assoc, Nat.mul_assoc]
    congr 1
    omega
  · simp only [Nat.add_zero]
    rw [Nat.mul_comm (inst.need c), Nat.mul_assoc, Nat.mul_assoc, Nat.mul_assoc, Nat.mul_assoc]
    congr 1
    omega

theorem weight_of_classes {inst : Instance} (hwt : ∀ k ∈ inst.classes, k.weight = 10000) {c : Nat}
    (hc : c < inst.classes.length) : inst.weight c = 10000 := by
  simp only [Instance.weight, List.getElem?_eq_getElem hc]
  exact hwt _ (List.getElem_mem hc)

theorem need_pos_of_classes {inst : Instance} (hwf : inst.WF) {c : Nat} (hc : c < inst.classes.length) :
    0 < inst.need c := by
  simp only [Instance.need, List.getElem?_eq_getElem hc]
  exact hwf.needPos _ (List.getElem_mem hc)

/-- a positive factor common to all objective weights cancels -/
theorem obj_cancel {K a b c d f g : Nat} (hK : 0 < K) (hle : K * a * b + K * c * d ≤ K * a * f + K * c * g) :
    a * b + c * d ≤ a * f + c * g := by
  have : K * (a * b + c * d) ≤ K * (a * f + c * g) := by
    rw [Nat.mul_add, Nat.mul_add, ← Nat.mul_assoc, ← Nat.mul_assoc, ← Nat.mul_assoc, ← Nat.mul_assoc]
    exact hle
  exact Nat.le_of_mul_le_mul_left this hK

end HqModel.Sched
