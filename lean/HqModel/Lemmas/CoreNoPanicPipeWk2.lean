import HqModel.Lemmas.CoreNoPanicPipeWk
/-!
`WKeys` (the worker ids are unchanged) for the rest of `Reactor.lean`: `task_failed`, `task_running`,
`task_finished`, `task_reject`, `request_enabled`, `on_retract_response`, and the parts of `on_remove_worker` after
the `filter` that drops the lost worker.
-/
namespace HqModel.SysW.NPP
open HqModel HqModel.Core

theorem taskFailed_wk {s s' : Core.State} {worker : Option Nat} {id : Core.TaskId} {ret : List Core.TaskId}
    {o : Core.Out} (h : s.taskFailed worker id ret = .ok (s', o)) : WKeys s s' := by
  simp only [Core.State.taskFailed] at h
  split at h
  · cases h; exact WKeys.refl _
  · rename_i task ht
    split at h
    · cases h
    · rename_i s1 hpre
      have f1 : WKeys s s1 := by
        clear h
        repeat' split at hpre
        all_goals first
          | (cases hpre; done)
          | (cases hpre; exact WKeys.refl _)
          | exact resetMnAll_wk _ _ _ hpre
          | exact tryRemoveRedirection_wk hpre
          | (rename_i hrp; exact (WKeys.core (removePrefilled_core hrp)).trans (WKeys.withWorker hpre))
          | exact WKeys.withWorker hpre
      split at h
      · cases h
      · rename_i consumers hc
        split at h
        · cases h
        · rename_i s2 h2
          have f2 := removeWaitingAll_wk _ _ _ h2
          split at h
          · cases h
          · rename_i s3 st h3
            have f123 : WKeys s s3 := (f1.trans f2).trans (removeTask_wk h3)
            clear hpre f1 f2 h2 h3 hc ht
            repeat' split at h
            all_goals first
              | (cases h; done)
              | (cases h; exact f123)
              | (cases h; exact f123.trans (cancelTasks_wk (by assumption)))

theorem wakeConsumers_wk (cs : List Core.TaskId) (s s' : Core.State) (r r' : List Core.TaskId)
    (h : s.wakeConsumers cs r = .ok (s', r')) : WKeys s s' := by
  induction cs generalizing s r with
  | nil => simp only [Core.State.wakeConsumers] at h; cases h; exact WKeys.refl _
  | cons c rest ih =>
    simp only [Core.State.wakeConsumers] at h
    split at h
    · cases h
    · rename_i t hg
      split at h
      · rename_i n hs
        have f1 : WKeys s (s.setTask { t with state := .waiting n }) := WKeys.setTask _ _
        split at h
        · split at h
          · cases h
          · rename_i s2 r2 ha
            exact (f1.trans (WKeys.core (addReady_core ha))).trans (ih _ _ h)
        · exact f1.trans (ih _ _ h)
      · cases h

theorem taskFinished_wk {s s' : Core.State} {w : Nat} {id : Core.TaskId} {o : Core.Out} {b : Bool}
    (h : s.taskFinished w id = .ok (s', o, b)) : WKeys s s' := by
  simp only [Core.State.taskFinished] at h
  split at h
  · cases h; exact WKeys.refl _
  · rename_i task ht
    split at h
    · cases h
    · rename_i s1 hpre
      have f1 : WKeys s s1 := by
        clear h
        repeat' split at hpre
        all_goals first
          | (cases hpre; done)
          | exact resetMnChecked_wk _ _ _ _ hpre
          | exact tryRemoveRedirection_wk hpre
          | exact WKeys.withWorker hpre
      have f2 : WKeys s1 (s1.setTask { task with state := .finished }) := WKeys.setTask _ _
      split at h
      · cases h
      · rename_i s3 retracted h3
        have f3 := wakeConsumers_wk _ _ _ _ _ h3
        split at h
        · cases h
        · rename_i s4 out h4
          have f4 := retract_wk h4
          split at h
          · cases h
          · rename_i s5 st h5
            have f5 := removeTask_wk h5
            split at h
            · cases h
            · cases h
              exact (((f1.trans f2).trans f3).trans f4).trans f5

theorem requestEnabled_wk {s s' : Core.State} {w rq rv : Nat} (h : s.requestEnabled w rq rv = .ok s') :
    WKeys s s' := by
  simp only [Core.State.requestEnabled] at h
  exact WKeys.withWorker h

theorem taskReject_wk {s s' : Core.State} {w : Nat} {id : Core.TaskId} {rv : Option Nat} {o : Core.Out} {b : Bool}
    (h : s.taskReject w id rv = .ok (s', o, b)) : WKeys s s' := by
  simp only [Core.State.taskReject] at h
  split at h
  · cases h; exact WKeys.refl _
  · rename_i task ht
    split at h
    · cases h
    · rename_i wk0 hg
      have W : ∀ wk : Core.Worker, WKeys s (s.setWorker wk) := fun wk => WKeys.setWorker s wk
      have requeue : ∀ (s1 : Core.State), WKeys s s1 →
          (match (s1.setTask { task with state := .waiting 0 }).addReady { task with state := .waiting 0 } with
            | .error e => (.error e : Core.M (Core.State × Core.Out × Bool))
            | .ok (s2, retracted) =>
              match s2.retract retracted with
              | .error e => .error e
              | .ok (s3, out) => .ok (s3, out, true)) = .ok (s', o, b) → WKeys s s' := by
        intro s1 fs h
        have f1 : WKeys s1 (s1.setTask { task with state := .waiting 0 }) := WKeys.setTask _ _
        split at h
        · cases h
        · rename_i s2 retracted ha
          split at h
          · cases h
          · rename_i s3 out hr
            cases h
            exact ((fs.trans f1).trans (WKeys.core (addReady_core ha))).trans (retract_wk hr)
      split at h
      · split at h
        · exact requeue _ (W _) h
        · split at h
          · exact requeue _ (W _) h
          · split at h
            · cases h
            · split at h
              · cases h
              · rename_i s1 hw
                exact requeue _ ((W _).trans (WKeys.withWorker hw)) h
      · split at h
        · cases h
        · rename_i s1 hw
          split at h
          · cases h
          · rename_i s2 hp
            exact requeue _ (((W _).trans (WKeys.withWorker hw)).trans (WKeys.core (removePrefilled_core hp))) h
      · split at h
        · cases h; exact W _
        · split at h
          · rename_i target trv hfind
            cases h
            exact (W _).trans (WKeys.of_eq rfl)
          · exact requeue _ (W _) h
      · -- multi-node: refused by its root before the start was reported
        split at h
        · cases h
        · split at h
          · cases h; exact W _
          · split at h
            · cases h; exact W _
            · split at h
              · cases h; exact W _
              · split at h
                · cases h
                · rename_i s1 hr
                  exact requeue _ ((W _).trans (resetMnChecked_wk _ _ _ _ hr)) h
      all_goals cases h

/-- `task_running` (the traversal of `taskRunning_frw`) -/
theorem taskRunning_wk {s s' : Core.State} {w : Nat} {id : Core.TaskId} {rv : Nat} {o : Core.Out}
    (h : s.taskRunning w id rv = .ok (s', o)) : WKeys s s' := by
  simp only [Core.State.taskRunning] at h
  split at h
  · cases h; exact WKeys.refl _
  · rename_i task ht
    have fset : WKeys s (s.setTask { task with state := .running w rv }) := WKeys.setTask _ _
    split at h
    · -- assigned
      split at h
      · cases h
      · split at h
        · cases h
        · cases h; exact fset
    · -- prefilled
      split at h
      · cases h
      · split at h
        · cases h
        · split at h
          · cases h
          · rename_i s1 hw
            split at h
            · cases h
            · rename_i s2 hq
              cases h
              exact (fset.trans (WKeys.withWorker hw)).trans (WKeys.core (queueRemove_core hq))
    · -- retracting
      split at h
      · cases h
      · split at h
        · cases h
        · rename_i s1 hq
          split at h
          · cases h
          · rename_i s2 hr
            split at h
            · cases h
            · split at h
              · cases h
              · rename_i s3 hw
                cases h
                have f0 : WKeys s (Core.ask (s.setTask { task with state := .running w rv })) :=
                  fset.trans (WKeys.ask _)
                exact ((f0.trans (WKeys.core (queueRemove_core hq))).trans (tryRemoveRedirection_wk hr)).trans
                  (WKeys.withWorker hw)
    · -- multi node
      split at h
      · split at h
        · cases h
        · split at h
          · cases h
          · rename_i s1 hw
            cases h
            exact WKeys.withWorker hw
      · cases h
    all_goals cases h

theorem retractResponse_wk {s s' : Core.State} {w : Nat} {ids : List Core.TaskId} {o : Core.Out}
    (h : s.retractResponse w ids = .ok (s', o)) : WKeys s s' := by
  simp only [Core.State.retractResponse] at h
  split at h
  · cases h
  · rename_i s1 items h1
    split at h
    · cases h
    · cases h
      obtain ⟨_, _, hw, _⟩ := retractLoop_spec _ _ _ _ _ _ h1
      exact WKeys.of_eq hw

/-! ### `on_remove_worker` -/

theorem lostPrefilled_wk (ids : List Core.TaskId) (s s' : Core.State) (h : s.lostPrefilled ids = .ok s') :
    WKeys s s' := by
  induction ids generalizing s with
  | nil => simp only [Core.State.lostPrefilled] at h; cases h; exact WKeys.refl _
  | cons id rest ih =>
    simp only [Core.State.lostPrefilled] at h
    split at h
    · cases h
    · rename_i task hg
      have f1 : WKeys s (s.setTask { task with inst := task.inst + 1, state := .waiting 0 }) := WKeys.setTask _ _
      split at h
      · cases h
      · rename_i s2 hm
        exact (f1.trans (WKeys.core (movePrefilledToReady_core hm))).trans (ih _ h)

theorem lostAssigned_wk (ids : List Core.TaskId) (s s' : Core.State) (ru ru' re re' : List Core.TaskId)
    (h : s.lostAssigned ids ru re = .ok (s', ru', re')) : WKeys s s' := by
  induction ids generalizing s ru re with
  | nil => simp only [Core.State.lostAssigned] at h; cases h; exact WKeys.refl _
  | cons id rest ih =>
    simp only [Core.State.lostAssigned] at h
    split at h
    · cases h
    · rename_i task hg
      have step : ∀ (s0 : Core.State) (t0 : Core.Task) (ru0 : List Core.TaskId), WKeys s s0 →
          (match (s0.setTask { t0 with inst := t0.inst + 1 }).addReady { t0 with inst := t0.inst + 1 } with
            | .error e => (.error e : Core.M (Core.State × List Core.TaskId × List Core.TaskId))
            | .ok (s2, r) => Core.State.lostAssigned s2 rest ru0 (re ++ r)) = .ok (s', ru', re') → WKeys s s' := by
        intro s0 t0 ru0 f0 h
        have f1 : WKeys s0 (s0.setTask { t0 with inst := t0.inst + 1 }) := WKeys.setTask _ _
        split at h
        · cases h
        · rename_i s2 r ha
          exact ((f0.trans f1).trans (WKeys.core (addReady_core ha))).trans (ih _ _ _ h)
      split at h
      · exact step s { task with state := .waiting 0 } _ (WKeys.refl _) h
      · split at h
        · cases h
        · exact step { s with redirects := s.redirects.filter (·.1 ≠ id) } task _ (WKeys.of_eq rfl) h
      · exact step s { task with state := .waiting 0 } _ (WKeys.refl _) h

theorem lostRetracting_wk {l : List Core.Task} {s s' : Core.State} {w : Nat} {o o' : Core.Out}
    (h : s.lostRetracting w l o = .ok (s', o')) : WKeys s s' := by
  obtain ⟨_, _, hw, _⟩ := lostRetracting_spec _ _ _ _ _ _ h
  exact WKeys.of_eq hw

theorem crashLoop_wk (ids : List Core.TaskId) (s s' : Core.State) (f : Bool) (rets : List (List Core.TaskId))
    (o o' : Core.Out) (h : s.crashLoop f ids rets o = .ok (s', o')) : WKeys s s' := by
  induction ids generalizing s rets o with
  | nil => simp only [Core.State.crashLoop] at h; cases h; exact WKeys.refl _
  | cons id rest ih =>
    simp only [Core.State.crashLoop] at h
    split at h
    · exact ih _ _ _ h
    · rename_i task ht
      have f1 : WKeys s (s.setTask { task with crashes := (crashOutcome task.crashLimit f task.crashes).1 }) :=
        WKeys.setTask _ _
      split at h
      · split at h
        · cases h
        · rename_i s2 o2 h2
          exact (f1.trans (taskFailed_wk h2)).trans (ih _ _ _ h)
      · exact f1.trans (ih _ _ _ h)

/-- `on_remove_worker` after the lost worker's record is dropped: the other ids are kept -/
theorem removeWorker_wk {s s' : Core.State} {w : Nat} {reason : String} {f : Bool} {order : List Core.TaskId}
    {rets : List (List Core.TaskId)} {o : Core.Out}
    (h : s.removeWorker w reason f order rets = .ok (s', o)) :
    WKeys { s with workers := s.workers.filter (·.id ≠ w) } s' := by
  simp only [Core.State.removeWorker] at h
  split at h
  · cases h
  · rename_i wk hw
    split at h
    · cases h
    · rename_i s1 running retracted hp1
      have f1 : WKeys { s with workers := s.workers.filter (·.id ≠ w) } s1 := by
        clear h
        split at hp1
        · split at hp1
          · cases hp1
          · split at hp1
            · cases hp1
            · rename_i s01 hlp
              exact (lostPrefilled_wk _ _ _ hlp).trans (lostAssigned_wk _ _ _ _ _ _ _ hp1)
        · split at hp1
          · cases hp1
          · rename_i task hg
            split at hp1
            · split at hp1
              · split at hp1
                · split at hp1
                  · cases hp1
                  · rename_i s01 hr
                    split at hp1
                    · cases hp1
                    · rename_i s3 r3 ha
                      cases hp1
                      have f2 := resetMnAll_wk _ _ _ hr
                      have f3 : WKeys s01 (s01.setTask { task with state := .waiting 0, inst := task.inst + 1 }) :=
                        WKeys.setTask _ _
                      exact (f2.trans f3).trans (WKeys.core (addReady_core ha))
                · cases hp1
                  exact WKeys.setTask _ _
              · cases hp1
            · cases hp1
      split at h
      · cases h
      · rename_i s2 out1 h2
        have f2 := lostRetracting_wk h2
        split at h
        · cases h
        · rename_i s3 out2 h3
          have f3 := retract_wk h3
          split at h
          · cases h
          · rename_i s4 out h4
            cases h
            exact (((f1.trans f2).trans f3).trans (crashLoop_wk _ _ _ _ _ _ _ h4)).trans (WKeys.ask s4)

end HqModel.SysW.NPP
