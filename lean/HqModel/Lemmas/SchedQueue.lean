import HqModel.Sched.Priority
/-!
Lemmas for C15, part 1: `take_tasks` (`HqModel.Core.takeFromQueue` / `Queue.takeTasks`) pops the first `count`
tasks of the queue in queue order, for every queue content and every count; a queue kept by `readyAdd` is
sorted by descending priority, then ascending id.
-/
namespace HqModel.Sched
open HqModel.Core

/-- the (priority, id) pairs of a ready list in list order -/
def flat (ready : List (Int × List TaskId)) : List (Int × TaskId) :=
  ready.flatMap fun e => e.2.map fun t => (e.1, t)

/-- "descending priority, then ascending id" -/
def Before (a b : Int × TaskId) : Prop := b.1 < a.1 ∨ (a.1 = b.1 ∧ tidLt a.2 b.2 = true)

/-- the shape `TaskQueue` keeps: priorities strictly descending, ids of a level strictly ascending, no empty level -/
structure QueueSorted (ready : List (Int × List TaskId)) : Prop where
  levels : ready.Pairwise fun a b => b.1 < a.1
  ids : ∀ e ∈ ready, e.2.Pairwise fun a b => tidLt a b = true
  nonempty : ∀ e ∈ ready, e.2 ≠ []

theorem flat_cons (e : Int × List TaskId) (rest : List (Int × List TaskId)) :
    flat (e :: rest) = e.2.map (fun t => (e.1, t)) ++ flat rest := by
  simp [flat]

theorem flat_takeFromFirst (ready : List (Int × List TaskId)) (count : Nat) :
    (takeFromFirst ready count).2 = ((flat ready).take (min count (match ready with | [] => 0 | e :: _ => e.2.length))).map (·.2) ∧
    flat (takeFromFirst ready count).1 = (flat ready).drop (min count (match ready with | [] => 0 | e :: _ => e.2.length)) := by
  cases ready with
  | nil => simp [takeFromFirst, flat]
  | cons e rest =>
    obtain ⟨p, ids⟩ := e
    simp only [takeFromFirst, flat_cons]
    constructor
    · by_cases h : count ≤ ids.length
      · rw [Nat.min_eq_left h, List.take_append_of_le_length (by simpa using h)]
        simp [← List.map_take, Function.comp_def]
      · have h' : ids.length ≤ count := by omega
        rw [Nat.min_eq_right h', List.take_append_of_le_length (by simp)]
        simp [List.take_of_length_le h', Function.comp_def]
    · by_cases h : count < ids.length
      · have hne : (ids.drop count).isEmpty = false := by
          cases hd : ids.drop count with
          | nil => have := congrArg List.length hd; simp at this; omega
          | cons _ _ => rfl
        simp only [hne, Bool.false_eq_true, ↓reduceIte, flat_cons]
        rw [Nat.min_eq_left (by omega), List.drop_append_of_le_length (by simp; omega)]
        simp [List.map_drop]
      · have h' : ids.length ≤ count := by omega
        have he : (ids.drop count).isEmpty = true := by simp [List.drop_of_length_le h']
        simp only [he, ↓reduceIte]
        rw [Nat.min_eq_right h', List.drop_append_of_le_length (by simp)]
        simp

/-- `take_tasks` on a queue without prefill: whatever the queue content, the count and the fuel, a successful
call returns the first `count` tasks in queue order and leaves the rest -/
theorem takeFromQueue_spec : ∀ (fuel : Nat) (ready : List (Int × List TaskId)) (count : Nat) (acc : List TaskId)
    (ready' : List (Int × List TaskId)) (res : List TaskId),
    takeFromQueue fuel ready count acc = .ok (ready', res) →
    res = acc ++ ((flat ready).take count).map (·.2) ∧ flat ready' = (flat ready).drop count ∧ count ≤ (flat ready).length := by
  intro fuel
  induction fuel with
  | zero =>
    intro ready count acc ready' res h
    cases count with
    | zero => simp [takeFromQueue] at h; obtain ⟨rfl, rfl⟩ := h; simp
    | succ n => simp [takeFromQueue] at h
  | succ fuel ih =>
    intro ready count acc ready' res h
    cases count with
    | zero => simp [takeFromQueue] at h; obtain ⟨rfl, rfl⟩ := h; simp
    | succ n =>
      cases ready with
      | nil => simp [takeFromQueue] at h
      | cons e rest =>
        simp only [takeFromQueue] at h
        have hs := flat_takeFromFirst (e :: rest) (n + 1)
        generalize hk : min (n + 1) e.2.length = k at hs
        obtain ⟨h1, h2⟩ := hs
        have hklen : k ≤ e.2.length := by omega
        have hkflat : k ≤ (flat (e :: rest)).length := by
          rw [flat_cons, List.length_append, List.length_map]; omega
        have hlen : (takeFromFirst (e :: rest) (n + 1)).2.length = k := by
          rw [h1]; simp; omega
        obtain ⟨r1, r2, r3⟩ := ih _ _ _ _ _ h
        rw [hlen] at r1 r3
        rw [h2] at r2 r3
        rw [h1, h2] at r1
        have hkn : k ≤ n + 1 := by omega
        refine ⟨?_, ?_, ?_⟩
        · rw [r1, List.append_assoc, ← List.map_append]
          congr 2
          rw [List.take_drop]
          have : k + (n + 1 - k) = n + 1 := by omega
          rw [this]
          conv => rhs; rw [← List.take_append_drop k (List.take (n + 1) (flat (e :: rest)))]
          rw [List.take_take, Nat.min_eq_left hkn, List.drop_take]
        · rw [r2, List.drop_drop]; congr 1; omega
        · rw [List.length_drop] at r3; omega

/-! ### sortedness -/

theorem tidLt_trans {a b c : TaskId} (h1 : tidLt a b = true) (h2 : tidLt b c = true) : tidLt a c = true := by
  obtain ⟨a1, a2⟩ := a; obtain ⟨b1, b2⟩ := b; obtain ⟨c1, c2⟩ := c
  simp only [tidLt, Bool.or_eq_true, decide_eq_true_eq, Bool.and_eq_true, beq_iff_eq] at *
  omega

theorem tidLt_irrefl (a : TaskId) : tidLt a a = false := by
  simp [tidLt]

theorem tidLt_total {a b : TaskId} (h : a ≠ b) (h1 : tidLt a b = false) : tidLt b a = true := by
  obtain ⟨a1, a2⟩ := a; obtain ⟨b1, b2⟩ := b
  have : a1 ≠ b1 ∨ a2 ≠ b2 := by
    by_cases h' : a1 = b1
    · right; intro h''; exact h (by simp_all)
    · left; exact h'
  simp only [tidLt, Bool.or_eq_true, decide_eq_true_eq, Bool.and_eq_true, beq_iff_eq, Bool.or_eq_false_iff,
    decide_eq_false_iff_not, Bool.and_eq_false_iff, beq_eq_false_iff_ne] at *
  omega

/-- a sorted queue lists its tasks by descending priority, then ascending id -/
theorem flat_sorted {ready : List (Int × List TaskId)} (h : QueueSorted ready) : (flat ready).Pairwise Before := by
  induction ready with
  | nil => simp [flat]
  | cons e rest ih =>
    rw [flat_cons, List.pairwise_append]
    have hl := List.pairwise_cons.mp h.levels
    refine ⟨?_, ?_, ?_⟩
    · rw [List.pairwise_map]
      exact (h.ids e (by simp)).imp fun hab => Or.inr ⟨rfl, hab⟩
    · exact ih ⟨hl.2, fun e' he' => h.ids e' (by simp [he']), fun e' he' => h.nonempty e' (by simp [he'])⟩
    · intro a ha b hb
      simp only [List.mem_map] at ha
      obtain ⟨t, _, rfl⟩ := ha
      simp only [flat, List.mem_flatMap, List.mem_map] at hb
      obtain ⟨e', he', t', _, rfl⟩ := hb
      exact Or.inl (hl.1 e' he')

theorem insertTid_mem {x y : TaskId} {l : List TaskId} : y ∈ insertTid x l ↔ y = x ∨ y ∈ l := by
  induction l with
  | nil => simp [insertTid]
  | cons z zs ih =>
    simp only [insertTid]
    split
    · rename_i h; subst h; simp
    · split
      · simp
      · simp only [List.mem_cons, ih]
        constructor
        · rintro (h | h | h) <;> simp [h]
        · rintro (h | h | h) <;> simp [h]

theorem insertTid_sorted {x : TaskId} {l : List TaskId} (h : l.Pairwise fun a b => tidLt a b = true) :
    (insertTid x l).Pairwise fun a b => tidLt a b = true := by
  induction l with
  | nil => simp [insertTid]
  | cons z zs ih =>
    have hz := List.pairwise_cons.mp h
    simp only [insertTid]
    split
    · exact h
    · rename_i hne
      split
      · rename_i hlt
        refine List.pairwise_cons.mpr ⟨?_, h⟩
        intro b hb
        rcases List.mem_cons.mp hb with rfl | hb
        · exact hlt
        · exact tidLt_trans hlt (hz.1 b hb)
      · rename_i hnlt
        refine List.pairwise_cons.mpr ⟨?_, ih hz.2⟩
        intro b hb
        rcases insertTid_mem.mp hb with rfl | hb
        · exact tidLt_total hne (by simpa using hnlt)
        · exact hz.1 b hb

theorem insertTid_ne_nil (x : TaskId) (l : List TaskId) : insertTid x l ≠ [] := by
  cases l with
  | nil => simp [insertTid]
  | cons z zs =>
    simp only [insertTid]
    split
    · simp
    · split <;> simp

theorem readyAdd_prio_mem {ready : List (Int × List TaskId)} {t : TaskId} {p : Int} {e : Int × List TaskId}
    (he : e ∈ readyAdd ready t p) : e.1 = p ∨ ∃ e' ∈ ready, e'.1 = e.1 := by
  induction ready with
  | nil => simp [readyAdd] at he; simp [he]
  | cons a rest ih =>
    obtain ⟨q, ids⟩ := a
    simp only [readyAdd] at he
    split at he
    · rename_i hpq
      rcases List.mem_cons.mp he with rfl | he
      · left; exact hpq.symm
      · right; exact ⟨e, by simp [he], rfl⟩
    · split at he
      · rcases List.mem_cons.mp he with rfl | he
        · left; rfl
        · right; exact ⟨e, he, rfl⟩
      · rcases List.mem_cons.mp he with rfl | he
        · right; exact ⟨(q, ids), by simp, rfl⟩
        · rcases ih he with h | ⟨e', he', h⟩
          · left; exact h
          · right; exact ⟨e', by simp [he'], h⟩

/-- `TaskQueue::add` keeps the queue sorted: every queue content the core can reach is sorted -/
theorem readyAdd_sorted {ready : List (Int × List TaskId)} (h : QueueSorted ready) (t : TaskId) (p : Int) :
    QueueSorted (readyAdd ready t p) := by
  induction ready with
  | nil =>
    refine ⟨by simp [readyAdd], ?_, ?_⟩ <;> simp [readyAdd]
  | cons a rest ih =>
    obtain ⟨q, ids⟩ := a
    have hl := List.pairwise_cons.mp h.levels
    have hrest : QueueSorted rest :=
      ⟨hl.2, fun e he => h.ids e (by simp [he]), fun e he => h.nonempty e (by simp [he])⟩
    simp only [readyAdd]
    split
    · refine ⟨?_, ?_, ?_⟩
      · exact List.pairwise_cons.mpr ⟨hl.1, hl.2⟩
      · intro e he
        rcases List.mem_cons.mp he with rfl | he
        · exact insertTid_sorted (h.ids (q, ids) (by simp))
        · exact h.ids e (by simp [he])
      · intro e he
        rcases List.mem_cons.mp he with rfl | he
        · exact insertTid_ne_nil _ _
        · exact h.nonempty e (by simp [he])
    · rename_i hne
      split
      · rename_i hgt
        refine ⟨?_, ?_, ?_⟩
        · refine List.pairwise_cons.mpr ⟨?_, h.levels⟩
          intro b hb
          rcases List.mem_cons.mp hb with rfl | hb
          · exact hgt
          · have := hl.1 b hb; simp only at this; omega
        · intro e he
          rcases List.mem_cons.mp he with rfl | he
          · simp
          · exact h.ids e he
        · intro e he
          rcases List.mem_cons.mp he with rfl | he
          · simp
          · exact h.nonempty e he
      · rename_i hngt
        have ih' := ih hrest
        refine ⟨?_, ?_, ?_⟩
        · refine List.pairwise_cons.mpr ⟨?_, ih'.levels⟩
          intro b hb
          rcases readyAdd_prio_mem hb with hb | ⟨e', he', hb⟩
          · simp only; omega
          · have := hl.1 e' he'; simp only at this ⊢; omega
        · intro e he
          rcases List.mem_cons.mp he with rfl | he
          · exact h.ids (q, ids) (by simp)
          · exact ih'.ids e he
        · intro e he
          rcases List.mem_cons.mp he with rfl | he
          · exact h.nonempty (q, ids) (by simp)
          · exact ih'.nonempty e he

end HqModel.Sched
