import HqModel.Lemmas.SysWStep
/-!
`WInv` is inductive over `SysW.step`, part 2: the pipelines through the server actions that are not a `TaskUpdate`
(`srv`, `addWorker`, `loseWorker`, the delivery of a `RetractResponse`).
-/
namespace HqModel.SysW
open HqModel HqModel.Core

theorem OpOk.sys {s : State} {sop : Sys.Op} (h : OpOk s (.srv sop)) : Sys.OpOk s.sys sop := by
  cases sop <;> first | exact h.1 | exact h

theorem coreStep_core {s s' : Sys.State} {cop : Core.Op} {rets : List (List TaskId)} {evs0 : List Job.Ev}
    {resp : Sys.Resp} {o : Sys.Out} (h : Sys.coreStep s cop rets evs0 resp = .ok (s', o)) :
    Core.step s.core cop = .ok (s'.core, o.core) := by
  simp only [Sys.coreStep] at h
  split at h
  · cases h
  · rename_i c' out hs
    split at h
    · cases h
    · split at h
      · cases h; exact hs
      · cases h

/-- a submit either leaves the core alone or hands exactly `nts` to it (and then the ghost records their ids) -/
theorem step_submit_cases {s s' : Sys.State} {job mf : Option Nat} {desc : Job.TaskDesc} {nts : List Core.NewTask}
    {o : Sys.Out} (h : Sys.step s (.submit job mf desc nts) = .ok (s', o)) :
    (s'.core = s.core ∧ o.core.msgs = []) ∨
    (Core.step s.core (.newTasks nts) = .ok (s'.core, o.core) ∧ newIds (.submit job mf desc nts) o = nts.map (·.id)) := by
  simp only [Sys.step] at h
  split at h
  · cases h
  · rename_i j' evs resp core hj
    split at h
    · split at h
      · split at h
        · cases h; exact .inl ⟨rfl, rfl⟩
        · right
          simp only [Sys.coreStep] at h
          split at h
          · cases h
          · rename_i c' out hs
            split at h
            · cases h
            · split at h
              · cases h; exact ⟨hs, rfl⟩
              · cases h
      · cases h
    all_goals (cases h; exact .inl ⟨rfl, rfl⟩)

theorem ids_sub_of_idsSub {a b : Core.State} (h : IdsSub a b) : ∀ t ∈ taskIds b.tasks, t ∈ taskIds a.tasks :=
  fun _ ht => h.subset ht

/-- the core did nothing: every pipeline stays -/
theorem pipes_same {s : State} (hi : WInv s) {c' : Core.State} (e : c' = s.sys.core) {msgs : List Core.Msg}
    (em : msgs = []) {U' : List TaskId} (hsubU : ∀ u ∈ s.submitted, u ∈ U') {ws : List WState}
    (hall : ∀ x ∈ ws, ∀ t, Pipe s.sys.core s.submitted x t) :
    (∀ t ∈ taskIds c'.tasks, t ∈ U') ∧ ∀ x ∈ ws, ∀ t, Pipe c' U' (route1 x msgs) t := by
  subst e em
  refine ⟨fun t ht => hsubU t (hi.sub t ht), ?_⟩
  exact pipes_srv hall hi.sub hsubU (fun x _ t _ => by rw [cfor_nil]; exact Foreign.same _)
    (fun x _ t hnone => ⟨.inr (view_none hnone), cfor_nil _ _⟩)

/-- the pipelines through `Op.srv` -/
theorem srv_pipes {s : State} {sop : Sys.Op} (hi : WInv s) (hal : srvAllowed sop = true) (hok : OpOk s (.srv sop))
    {sys' : Sys.State} {so : Sys.Out} (hs : Sys.step s.sys sop = .ok (sys', so)) (hc' : Sys.Coupled sys') :
    (∀ t ∈ taskIds sys'.core.tasks, t ∈ s.submitted ++ newIds sop so) ∧
    ∀ x ∈ s.workers, ∀ t, Pipe sys'.core (s.submitted ++ newIds sop so) (route1 x so.core.msgs) t := by
  have hn : (taskIds s.sys.core.tasks).Nodup := hi.coupled.c0.nd
  have hm' : MnOk sys'.core := MnOk.of_invF hc'.inv
  have hsubU : ∀ u ∈ s.submitted, u ∈ s.submitted ++ newIds sop so := fun u hu => List.mem_append_left _ hu
  have same : sys'.core = s.sys.core → so.core.msgs = [] → _ := fun e em => pipes_same hi e em hsubU hi.pipe
  cases sop with
  | submit job mf desc nts =>
    rcases step_submit_cases hs with ⟨e, em⟩ | ⟨hcs, hnew⟩
    · exact same e em
    · rw [hnew]
      have hfr : ∀ nt ∈ nts, nt.id ∉ s.submitted := hok.2
      obtain ⟨v1, v2, nc, v3⟩ := newTasks_views hn hm' (by simpa only [Core.step] using hcs)
      constructor
      · intro t ht
        cases hst : stOf sys'.core.tasks t with
        | none => exact absurd ht (fun hm => by
            have := mem_ids_iff.mp hm
            unfold stOf at hst
            cases hf : findTask sys'.core.tasks t with
            | none => rw [hf] at this; cases this
            | some x => rw [hf] at hst; cases hst)
        | some st' =>
          rcases v3 t st' hst with a | a
          · exact List.mem_append_left _ (hi.sub t (mem_ids_stOf a))
          · exact List.mem_append_right _ a
      · refine pipes_srv hi.pipe hi.sub (fun u hu => List.mem_append_left _ hu) (fun x _ t hu => ?_)
          (fun x _ t hnone => ⟨v2 x.id t hnone, cfor_noCompute nc⟩)
        rw [cfor_noCompute nc]
        refine v1 x.id t ?_
        intro hm
        obtain ⟨nt, hnt, e⟩ := List.mem_map.mp hm
        exact hfr nt hnt (e ▸ hu)
  | cancel j ids =>
    rcases Sys.step_core_step hs with ⟨e, _, em⟩ | ⟨cop, hcop, hcs⟩
    · exact same e em
    · simp only [Sys.coreOp, Option.some.injEq] at hcop
      subst hcop
      have hcs' : s.sys.core.cancelTasks ids = .ok (sys'.core, so.core) := by simpa only [Core.step] using hcs
      obtain ⟨v1, nc⟩ := cancelTasks_views hn hm' hcs'
      refine ⟨fun t ht => hsubU t (hi.sub t (ids_sub_of_idsSub (cancelTasks_sub hcs') t ht)), ?_⟩
      exact pipes_srv hi.pipe hi.sub hsubU (fun x _ t _ => v1 x.id t)
        (fun x _ t hnone => ⟨fresh_of_foreign (v1 x.id t) hnone, cfor_noCompute nc⟩)
  | newRq rqv =>
    rcases Sys.step_core_step hs with ⟨e, _, em⟩ | ⟨cop, hcop, hcs⟩
    · exact same e em
    · simp only [Sys.coreOp, Option.some.injEq] at hcop
      subst hcop
      simp only [Core.step, Except.ok.injEq, Prod.mk.injEq] at hcs
      obtain ⟨e1, e2⟩ := hcs
      rw [← e1, ← e2]
      refine ⟨fun t ht => hsubU t (hi.sub t ht), ?_⟩
      exact pipes_srv hi.pipe hi.sub hsubU
        (fun x _ t _ => by rw [newRq_views]; exact Foreign.same _)
        (fun x _ t hnone => ⟨by rw [newRq_views]; exact .inr (view_none hnone), rfl⟩)
  | schedule sol =>
    rcases Sys.step_core_step hs with ⟨e, _, em⟩ | ⟨cop, hcop, hcs⟩
    · exact same e em
    · simp only [Sys.coreOp, Option.some.injEq] at hcop
      subst hcop
      have hcs' : s.sys.core.schedule sol = .ok (sys'.core, so.core) := by simpa only [Core.step] using hcs
      obtain ⟨v1, v2⟩ := schedule_views hi.coupled.inv.inv hm' hcs'
      refine ⟨fun t ht => hsubU t (hi.sub t ?_), ?_⟩
      · have := schedule_stable hcs'
        unfold IdsStable at this
        rw [← this]; exact ht
      · exact pipes_srv hi.pipe hi.sub hsubU (fun x _ t _ => v1 x.id t)
          (fun x _ t hnone => ⟨fresh_of_foreign (v1 x.id t) hnone, v2 x.id t hnone⟩)
  | openJob mf =>
    rcases Sys.step_core_step hs with ⟨e, _, em⟩ | ⟨cop, hcop, _⟩
    · exact same e em
    · cases hcop
  | close j =>
    rcases Sys.step_core_step hs with ⟨e, _, em⟩ | ⟨cop, hcop, _⟩
    · exact same e em
    · cases hcop
  | forget j allowed =>
    rcases Sys.step_core_step hs with ⟨e, _, em⟩ | ⟨cop, hcop, _⟩
    · exact same e em
    · cases hcop
  | newWorker w => cases hal
  | removeWorker w reason f order rets => cases hal
  | update w us rets => cases hal
  | retracted w ids => cases hal

/-- the side condition of `addWorker`: a fresh record, an id the job layer has not seen, and no task of the core
refers to the id (worker ids come from a counter) -/
def AddOk (s : State) (wk : Core.Worker) : Prop :=
  Sys.OpOk s.sys (.newWorker wk) ∧ ∀ task ∈ s.sys.core.tasks, owner task.state ≠ some wk.id

theorem view_unowned {c : Core.State} {w : Nat} (h : ∀ task ∈ c.tasks, owner task.state ≠ some w) (t : TaskId) :
    view c w t = .quiet ∨ view c w t = .hot := by
  cases hs : stOf c.tasks t with
  | none => exact .inr (view_none hs)
  | some st =>
    obtain ⟨task, hf, rfl⟩ := stOf_some hs
    exact .inl (view_quiet_of_owner hs (h task (findTask_some_mem hf)))

/-- the pipelines through `Op.addWorker` -/
theorem addWorker_pipes {s : State} {wk : Core.Worker} {rqs : List (List Nat)} {rem : Option Nat} (hi : WInv s)
    (hok : AddOk s wk) {sys' : Sys.State} {so : Sys.Out} (hs : Sys.step s.sys (.newWorker wk) = .ok (sys', so)) :
    (∀ t ∈ taskIds sys'.core.tasks, t ∈ s.submitted ++ newIds (.newWorker wk) so) ∧
    ∀ x ∈ s.workers ++ [{ id := wk.id, w := Worker.init rqs rem }], ∀ t,
      Pipe sys'.core (s.submitted ++ newIds (.newWorker wk) so) (route1 x so.core.msgs) t := by
  have hU : s.submitted ++ newIds (.newWorker wk) so = s.submitted := by simp [newIds]
  rw [hU]
  have hcs : Core.step s.sys.core (.newWorker wk) = .ok (sys'.core, so.core) :=
    coreStep_core (by simpa only [Sys.step] using hs)
  · obtain ⟨hv, em⟩ := newWorker_views hok.1.1 (by simpa only [Core.step] using hcs)
    have hids : taskIds sys'.core.tasks = taskIds s.sys.core.tasks := by
      have := hcs
      simp only [Core.step, State.newWorker, Except.ok.injEq, Prod.mk.injEq] at this
      rw [← this.1]; rfl
    have hst : ∀ t, stOf sys'.core.tasks t = stOf s.sys.core.tasks t := by
      have := hcs
      simp only [Core.step, State.newWorker, Except.ok.injEq, Prod.mk.injEq] at this
      intro t; rw [← this.1]; rfl
    refine ⟨fun t ht => hi.sub t (hids ▸ ht), fun x hx t => ?_⟩
    rw [em]
    rcases List.mem_append.mp hx with hx | hx
    · exact (hi.pipe x hx t).srv (fun u hu => hu) (fun hne => hi.sub t (mem_ids_stOf hne))
        (fun _ => by rw [cfor_nil, hv]; exact Foreign.same _)
        (fun hnone => ⟨by rw [hv]; exact .inr (view_none hnone), cfor_nil _ _⟩)
    · simp only [List.mem_singleton] at hx
      subst hx
      have hq : Quiet (comps t []) (pend t []) (Worker.init rqs rem) (enc t) := ⟨rfl, rfl, free_init _ _ _⟩
      refine ⟨fun _ => ?_, fun _ => hq⟩
      show PipeOk (view sys'.core wk.id t) _ _ _ _
      rw [hv]
      rcases view_unowned hok.2 t with e | e <;> rw [e]
      · exact hq
      · trivial

/-- the pipelines through `Op.loseWorker` -/
theorem loseWorker_pipes {s : State} {w0 : Nat} {reason : String} {f : Bool} {order : List TaskId}
    {rets : List (List TaskId)} (hi : WInv s) {sys' : Sys.State} {so : Sys.Out}
    (hs : Sys.step s.sys (.removeWorker w0 reason f order rets) = .ok (sys', so)) (hc' : Sys.Coupled sys') :
    (∀ t ∈ taskIds sys'.core.tasks, t ∈ s.submitted ++ newIds (.removeWorker w0 reason f order rets) so) ∧
    ∀ x ∈ s.workers.filter (fun x => x.id ≠ w0), ∀ t,
      Pipe sys'.core (s.submitted ++ newIds (.removeWorker w0 reason f order rets) so) (route1 x so.core.msgs) t := by
  have hU : s.submitted ++ newIds (.removeWorker w0 reason f order rets) so = s.submitted := by simp [newIds]
  rw [hU]
  have hall : ∀ x ∈ s.workers.filter (fun x => x.id ≠ w0), ∀ t, Pipe s.sys.core s.submitted x t :=
    fun x hx t => hi.pipe x (List.mem_filter.mp hx).1 t
  have hcs : Core.step s.sys.core (.removeWorker w0 reason f order rets) = .ok (sys'.core, so.core) :=
    coreStep_core (by simpa only [Sys.step] using hs)
  · have hcs' : s.sys.core.removeWorker w0 reason f order rets = .ok (sys'.core, so.core) := by
      simpa only [Core.step] using hcs
    obtain ⟨v1, v2⟩ := removeWorker_views hi.coupled.inv.inv (MnOk.of_invF hc'.inv) hcs'
    refine ⟨fun t ht => hi.sub t (ids_sub_of_idsSub (removeWorker_sub hcs') t ht), ?_⟩
    have hne : ∀ x ∈ s.workers.filter (fun x => x.id ≠ w0), x.id ≠ w0 := fun x hx => by
      simpa using (List.mem_filter.mp hx).2
    exact pipes_srv hall hi.sub (fun u hu => hu) (fun x hx t _ => v1 x.id t (hne x hx))
      (fun x hx t hnone => ⟨fresh_of_foreign (v1 x.id t (hne x hx)) hnone, v2 x.id t hnone⟩)

/-- the pipelines through the delivery of a `RetractResponse` -/
theorem retracted_pipes {s : State} {w : Nat} {ids : List TaskId} {x : WState} {rest : List W2S} (hi : WInv s)
    (hx : x ∈ s.workers) (hxid : x.id = w) (hq : x.w2s = .retracted ids :: rest) {sys' : Sys.State} {so : Sys.Out}
    (hs : Sys.step s.sys (.retracted w ids) = .ok (sys', so)) :
    (∀ t ∈ taskIds sys'.core.tasks, t ∈ s.submitted ++ newIds (.retracted w ids) so) ∧
    ∀ y ∈ setW s.workers { x with w2s := rest }, ∀ t,
      Pipe sys'.core (s.submitted ++ newIds (.retracted w ids) so) (route1 y so.core.msgs) t := by
  have hU : s.submitted ++ newIds (.retracted w ids) so = s.submitted := by simp [newIds]
  rw [hU]
  have hcs : Core.step s.sys.core (.retracted w ids) = .ok (sys'.core, so.core) :=
    coreStep_core (by simpa only [Sys.step] using hs)
  have hcs' : s.sys.core.retractResponse w ids = .ok (sys'.core, so.core) := by simpa only [Core.step] using hcs
  obtain ⟨v1, v2, v3⟩ := retractResponse_views hcs'
  refine ⟨fun t ht => hi.sub t ?_, fun y hy t => ?_⟩
  · have := retractResponse_stable hcs'
    unfold IdsStable at this
    rw [← this]; exact ht
  · rcases mem_setW hy with rfl | ⟨hm, hne⟩
    · -- the responding worker
      by_cases ht : t ∈ ids
      · refine Pipe.own (x := x) (e := .resp) (hi.pipe x hx t) rfl rfl rfl ?_ ?_
        · rw [hq, pend_cons]; simp [evsOfMsg, ht]
        · rw [hxid]; exact v2 t
      · have hp : Pipe s.sys.core s.submitted { x with w2s := rest } t :=
          (hi.pipe x hx t).congr rfl rfl (by rw [hq, pend_cons]; simp [evsOfMsg, ht]) rfl
        refine hp.srv (fun u hu => hu) (fun hne => hi.sub t (mem_ids_stOf hne)) (fun _ => ?_) (fun hnone => ?_)
        · show Foreign (view s.sys.core x.id t) (cfor x.id t so.core.msgs) (view sys'.core x.id t)
          exact v1 x.id t (.inr ht)
        · exact ⟨fresh_of_foreign (v1 x.id t (.inr ht)) hnone, v3 x.id t hnone⟩
    · have hne' : y.id ≠ w := by rw [← hxid]; exact hne
      exact (hi.pipe y hm t).srv (fun u hu => hu) (fun hne => hi.sub t (mem_ids_stOf hne))
        (fun _ => v1 y.id t (.inl hne'))
        (fun hnone => ⟨fresh_of_foreign (v1 y.id t (.inl hne')) hnone, v3 y.id t hnone⟩)

end HqModel.SysW
