import HqModel.Lemmas.CoreNoPanicQ5
/-!
C09 progress, queue correspondence, part 6: `task_running`, `wakeConsumers`, `task_finished`, `task_reject`,
`request_enabled`.
-/
namespace HqModel.Core.NPC

open HqModel.Core.NP

theorem not_rstate {R rd id} {st : TS} (h1 : st ≠ .waiting 0) (h2 : ∀ w, st ≠ .retracting w)
    (h3 : ∀ w, st ≠ .prefilled w) : ¬ RState R rd id st := by
  rintro (e | ⟨⟨w, e⟩, _⟩ | ⟨⟨w, e⟩, _⟩)
  · exact h1 e
  · exact h2 w e
  · exact h3 w e

theorem task?_setTask_self {s : State} {t' told : Task} (hf : s.task? t'.id = some told) :
    (s.setTask t').task? t'.id = some t' := by
  rw [task?_setTask, if_pos rfl, hf]; rfl

/-- `queueRemove` on a state with the same queues -/
theorem queueRemove_transport {s1 s2 s : State} {rq : Nat} {id : TaskId} {p : Int}
    (hq : s1.queueRemove rq id p = .ok s2) (he : s1.queues = s.queues) :
    ∃ sA, s.queueRemove rq id p = .ok sA ∧ s2.queues = sA.queues ∧ sA.tasks = s.tasks ∧
      sA.redirects = s.redirects ∧ s2.tasks = s1.tasks ∧ s2.redirects = s1.redirects := by
  simp only [State.queueRemove] at hq
  split at hq
  · cases hq
  · rename_i hlt
    cases hq
    refine ⟨{ s with queues := modifyQueue s.queues rq fun q => q.remove id p }, ?_, ?_, rfl, rfl, rfl, rfl⟩
    · simp only [State.queueRemove]
      rw [← he, if_neg hlt]
    · show modifyQueue s1.queues _ _ = modifyQueue s.queues _ _
      rw [he]

/-- the record of `task.id` leaves the queue of its request and gets a state that is not Prefilled -/
theorem remove_then_set {D R} {s sA : State} {task t' : Task} (h : NpQ D R s) (hf : s.task? task.id = some task)
    (hid : t'.id = task.id) (hrq : t'.rq = task.rq) (hp : t'.prio = task.prio) (hnew : ∀ w, t'.state ≠ .prefilled w)
    (hR : task.id ∉ R) (hA : s.queueRemove task.rq task.id task.prio = .ok sA) : NpQ D R (sA.setTask t') := by
  have a := queueRemove_npq h hA
  have b := queueRemove_noQ h hf hA
  have hfA : sA.task? t'.id = some task := by
    rw [hid, task?_congr (queueRemove_tasks hA)]; exact hf
  refine setTask_npq a hfA hrq hp (fun ⟨i, q, hq, hm⟩ => absurd hm (hid ▸ (b i q hq).1))
    (fun ⟨i, q, hq, hm⟩ => absurd hm (hid ▸ (b i q hq).2)) (fun hr => absurd (hid ▸ hr) hR)
    (fun ⟨w, hw⟩ => absurd hw (hnew w)) ?_
  intro x hx hd
  rcases hd with hd | hd
  · exact hd
  · exact absurd (hd.trans hid.symm) hx

/-! ### `task_running` -/

theorem taskRunning_npq {D R} {s s' : State} {w : Nat} {id : TaskId} {rv : Nat} {o : Out} (h : NpQ D R s)
    (hR : id ∉ R) (heq : s.taskRunning w id rv = .ok (s', o)) : NpQ D R s' := by
  simp only [State.taskRunning] at heq
  split at heq
  · cases heq; exact h
  · rename_i task ht
    have hid : task.id = id := findTask_some_id ht
    have ht' : s.task? task.id = some task := by rw [hid]; exact ht
    split at heq
    · -- assigned
      rename_i w' rv' hs
      split at heq
      · cases heq
      · split at heq
        · cases heq
        · cases heq
          exact setTask_npq_unq (t' := { task with state := .running w rv }) h ht' rfl rfl
            (not_rstate (by rw [hs]; intro e; cases e) (by rw [hs]; intro w e; cases e)
              (by rw [hs]; intro w e; cases e)) (by rw [hs]; intro w e; cases e) (by intro w e; cases e)
    · -- prefilled
      rename_i w' hs
      split at heq
      · cases heq
      · split at heq
        · cases heq
        · split at heq
          · cases heq
          · rename_i s1 hw
            split at heq
            · cases heq
            · rename_i s2 hq
              cases heq
              have e1 : s1.queues = s.queues :=
                (withWorker_queues hw : s1.queues = (s.setTask { task with state := .running w rv }).queues)
              obtain ⟨sA, hA, q2, tA, rA, t2, r2⟩ := queueRemove_transport (s := s) hq e1
              have a := remove_then_set (t' := { task with state := .running w rv }) h ht' rfl rfl rfl
                (by intro w e; cases e) (hid ▸ hR) (hid ▸ hA)
              refine a.frame ?_ q2 ?_
              · rw [t2, withWorker_tasks hw]
                show putTask s.tasks _ = putTask sA.tasks _
                rw [tA]
              · rw [r2, withWorker_redirects hw]
                show ∀ x ∈ s.redirects, x ∈ sA.redirects
                rw [rA]; exact fun _ hx => hx
    · -- retracting
      rename_i w' hs
      split at heq
      · cases heq
      · split at heq
        · cases heq
        · rename_i s1 hq
          split at heq
          · cases heq
          · rename_i s2 hr
            split at heq
            · cases heq
            · split at heq
              · cases heq
              · rename_i s3 hw
                cases heq
                obtain ⟨sA, hA, q2, tA, rA, t2, r2⟩ := queueRemove_transport (s := s) hq rfl
                have a := remove_then_set (t' := { task with state := .running w rv }) h ht' rfl rfl rfl
                  (by intro w e; cases e) (hid ▸ hR) (hid ▸ hA)
                have b : NpQ D R s1 := by
                  refine a.frame ?_ q2 ?_
                  · rw [t2]
                    show putTask s.tasks _ = putTask sA.tasks _
                    rw [tA]
                  · rw [r2]
                    show ∀ x ∈ s.redirects, x ∈ sA.redirects
                    rw [rA]; exact fun _ hx => hx
                exact withWorker_npq (tryRemoveRedirection_npq b hr) hw
    · -- multi-node
      split at heq
      · split at heq
        · cases heq
        · split at heq
          · cases heq
          · rename_i s1 hw
            cases heq
            exact withWorker_npq h hw
      · cases heq
    all_goals cases heq

/-! ### `wakeConsumers` -/

theorem wakeConsumers_npq {D} (cs : List TaskId) (s s' : State) (R R' : List TaskId) (h : NpQ D R s)
    (heq : s.wakeConsumers cs R = .ok (s', R')) : NpQ D R' s' := by
  induction cs generalizing s R with
  | nil => simp only [State.wakeConsumers] at heq; cases heq; exact h
  | cons c rest ih =>
    simp only [State.wakeConsumers] at heq
    split at heq
    · cases heq
    · rename_i t hg
      have ht : s.task? c = some t := getTask_spec hg
      have hid : t.id = c := findTask_some_id ht
      have ht' : s.task? t.id = some t := by rw [hid]; exact ht
      split at heq
      · rename_i n hs
        have h1 : NpQ D R (s.setTask { t with state := .waiting n }) :=
          setTask_npq_unq (t' := { t with state := .waiting n }) h ht' rfl rfl
            (not_rstate (by rw [hs]; intro e; cases e) (by rw [hs]; intro w e; cases e)
              (by rw [hs]; intro w e; cases e)) (by rw [hs]; intro w e; cases e) (by intro w e; cases e)
        split at heq
        · rename_i hn
          subst hn
          split at heq
          · cases heq
          · rename_i s2 r2 ha
            refine ih _ _ (addReady_npq h1 (task?_setTask_self (t' := { t with state := .waiting 0 }) ht')
              rfl rfl (Or.inl rfl) ha) heq
        · exact ih _ _ h1 heq
      · cases heq

theorem wakeConsumers_rdRetr (cs : List TaskId) (s s' : State) (R R' : List TaskId) (h : RdRetr s)
    (heq : s.wakeConsumers cs R = .ok (s', R')) : RdRetr s' := by
  induction cs generalizing s R with
  | nil => simp only [State.wakeConsumers] at heq; cases heq; exact h
  | cons c rest ih =>
    simp only [State.wakeConsumers] at heq
    split at heq
    · cases heq
    · rename_i t hg
      have ht : s.task? c = some t := getTask_spec hg
      have hid : t.id = c := findTask_some_id ht
      have ht' : s.task? t.id = some t := by rw [hid]; exact ht
      split at heq
      · rename_i n hs
        have h1 : RdRetr (s.setTask { t with state := .waiting n }) :=
          h.setTask (t' := { t with state := .waiting n }) ht'
            (Or.inr (h.none_of_state ht' (by rw [hs]; intro w e; cases e)))
        split at heq
        · split at heq
          · cases heq
          · rename_i s2 r2 ha
            exact ih _ _ (addReady_rdRetr h1 ha) heq
        · exact ih _ _ h1 heq
      · cases heq

/-! ### `task_finished` -/

/-- **`task_finished`** for a task that is not Retracting (the protocol condition `UpdNP` says: Running on `w` or
RunningMultiNode with root `w`; a task that finishes while Retracting without a redirect would leave a stale entry
in the ready list) -/
theorem taskFinished_npq {D} {s s' : State} {w : Nat} {id : TaskId} {o : Out} {b : Bool} (h : NpQ D [] s)
    (hn : (taskIds s.tasks).Nodup) (hd : RdRetr s)
    (hst : ∀ task w0, s.task? id = some task → task.state ≠ .retracting w0)
    (heq : s.taskFinished w id = .ok (s', o, b)) : NpQ D [] s' := by
  simp only [State.taskFinished] at heq
  split at heq
  · cases heq; exact h
  · rename_i task ht
    have hid : task.id = id := findTask_some_id ht
    split at heq
    · cases heq
    · rename_i s1 hpre
      have hnr : ∀ w0, task.state ≠ .retracting w0 := fun w0 => hst task w0 ht
      -- the first part only touches workers
      have e1 : NpQ D [] s1 ∧ RdRetr s1 ∧ s1.tasks = s.tasks ∧
          (∀ n, task.state ≠ .waiting n) ∧ (∀ w, task.state ≠ .prefilled w) := by
        clear heq
        repeat' (split at hpre)
        all_goals first
          | cases hpre
          | exact ⟨withWorker_npq h hpre, withWorker_rdRetr hd hpre, withWorker_tasks hpre, by simp_all, by simp_all⟩
          | exact ⟨resetMnChecked_npq h hpre, resetMnChecked_rdRetr hd hpre, resetMnChecked_tasks _ _ _ _ hpre,
              by simp_all, by simp_all⟩
          | (exfalso; simp_all)
      obtain ⟨a1, d1, t1, hnw, hnp⟩ := e1
      have ht1 : s1.task? task.id = some task := by rw [hid, task?_congr t1]; exact ht
      have a2 : NpQ D [] (s1.setTask { task with state := .finished }) :=
        setTask_npq_unq (t' := { task with state := .finished }) a1 ht1 rfl rfl
          (not_rstate (hnw 0) hnr hnp) hnp (by intro w e; cases e)
      have d2 : RdRetr (s1.setTask { task with state := .finished }) :=
        d1.setTask (t' := { task with state := .finished }) ht1 (Or.inr (d1.none_of_state ht1 hnr))
      split at heq
      · cases heq
      · rename_i s3 retracted h3
        have a3 := wakeConsumers_npq _ _ _ _ _ a2 h3
        have d3 := wakeConsumers_rdRetr _ _ _ _ _ d2 h3
        split at heq
        · cases heq
        · rename_i s4 out h4
          have a4 := retract_npq a3 d3 h4
          split at heq
          · cases heq
          · rename_i s5 st h5
            split at heq
            · cases heq
            · rename_i hfin
              cases heq
              have hst5 := (removeTask_spec h5).1
              have hn4 : (taskIds s4.tasks).Nodup := by
                have e4 : taskIds s4.tasks = taskIds s3.tasks := retract_stable h4
                have e3 := wakeConsumers_ids _ _ _ _ _ h3
                rw [e4, e3, setTask_ids, t1]; exact hn
              have a5 := removeTask_npq a4 hn4 (fun tk w hf hs => by
                rw [stOf_of_find hf, hs] at hst5
                simp only [Option.some.injEq] at hst5
                rw [← hst5] at hfin
                simp at hfin) h5
              exact a5.mono (fun _ hx => hx.1)

/-! ### `task_reject`, `request_enabled` -/

/-- the tail of `task_reject`: the record is `Waiting 0` already, `add_ready_task`, `retract` -/
theorem requeue_npq {D} {s' s3 : State} {task told : Task} {out : Out} {b : Bool}
    (h1 : NpQ D [] (s'.setTask { task with state := .waiting 0 }))
    (hd1 : RdRetr (s'.setTask { task with state := .waiting 0 }))
    (ht : s'.task? task.id = some told)
    (h : (match (s'.setTask { task with state := .waiting 0 }).addReady { task with state := .waiting 0 } with
          | .error e => Except.error e
          | .ok (s2, retracted) =>
            match s2.retract retracted with
            | .error e => Except.error e
            | .ok (s3, out) => (Except.ok (s3, out, true) : M (State × Out × Bool))) = .ok (s3, out, b)) :
    NpQ D [] s3 := by
  split at h
  · cases h
  · rename_i s2 retracted ha
    split at h
    · cases h
    · rename_i s4 out4 hr
      cases h
      have a := addReady_npq h1 (task?_setTask_self (t' := { task with state := .waiting 0 }) ht) rfl rfl
        (Or.inl rfl) ha
      rw [List.nil_append] at a
      exact retract_npq a (addReady_rdRetr hd1 ha) hr

theorem requestEnabled_npq {D R} {s s' : State} {w rq rv : Nat} (h : NpQ D R s)
    (heq : s.requestEnabled w rq rv = .ok s') : NpQ D R s' := withWorker_npq h heq

end HqModel.Core.NPC
