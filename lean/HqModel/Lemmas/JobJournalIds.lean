import HqModel.Lemmas.JobJournalInst
import HqModel.Lemmas.JobJournalStep
/-!
# The journal the job layer writes never creates a job id after a task of that id started

`journalOf_noStartBeforeCreate`: the hypothesis `NoStartBeforeCreate` of `C06.c06_restart` holds of every emitted
journal (job ids come from `job_id_counter`; a started task belongs to a stored job, whose id is below the counter).
No side condition is needed.
-/
namespace HqModel.Emit
open HqModel.Job HqModel.Journal

/-- events that neither create a job nor report a start -/
def evPlain : Ev → Bool
  | .jobOpen _ | .submit _ true | .started _ _ _ _ => false
  | _ => true

theorem plain_checkTermination (job : Job) : ∀ ev ∈ job.checkTermination, evPlain ev = true := by
  intro ev h
  rcases mem_checkTermination h with rfl | rfl <;> rfl

theorem plain_abort {job job' : Job} {ids : List TaskId} {evs : List Ev} (h : job.abortTasks ids = .ok (job', evs)) :
    ∀ ev ∈ evs, evPlain ev = true := by
  unfold Job.abortTasks at h
  split at h
  · cases h; intro ev hm; cases hm
  · split at h
    · cases h
    · cases h
      intro ev hm
      simp only [List.mem_append, List.mem_singleton] at hm
      rcases hm with rfl | hm
      · rfl
      · exact plain_checkTermination _ ev hm

theorem plain_cancel {job job' : Job} {ids : List TaskId} {evs : List Ev} (h : job.setCancel ids = .ok (job', evs)) :
    ∀ ev ∈ evs, evPlain ev = true := by
  unfold Job.setCancel at h
  split at h
  · cases h; intro ev hm; cases hm
  · split at h
    · cases h
    · cases h
      intro ev hm
      simp only [List.mem_append, List.mem_cons, List.mem_nil_iff, or_false] at hm
      rcases hm with (rfl | rfl) | hm
      · rfl
      · rfl
      · exact plain_checkTermination _ ev hm

theorem plain_finished {job job' : Job} {t : Nat} {evs : List Ev} (h : job.setFinished t = .ok (job', evs)) :
    ∀ ev ∈ evs, evPlain ev = true := by
  obtain ⟨-, -, -, -, -, rfl⟩ := setFinished_spec h
  intro ev hm
  simp only [List.mem_append, List.mem_singleton] at hm
  rcases hm with rfl | hm
  · rfl
  · exact plain_checkTermination _ ev hm

theorem plain_failed {job job' : Job} {t : Nat} {evs : List Ev} (h : job.setFailed t = .ok (job', evs)) :
    ∀ ev ∈ evs, evPlain ev = true := by
  obtain ⟨x, -, -, -, -, -, -, -, rfl⟩ := setFailed_spec h
  intro ev hm
  simp only [List.mem_append, List.mem_singleton] at hm
  rcases hm with rfl | hm
  · rfl
  · exact plain_checkTermination _ ev hm

theorem plain_taskFailed {s s' : State} {t : TaskId} {cons ret : List TaskId} {evs : List Ev}
    (e : s.taskFailed t cons = .ok (s', evs, ret)) : (∀ ev ∈ evs, evPlain ev = true) ∧ s'.jobCtr = s.jobCtr := by
  simp only [State.taskFailed] at e
  split at e
  · cases e
  · split at e
    · cases e
    · rename_i job1 ev1 ha
      split at e
      · cases e
      · rename_i job2 ev2 hf
        have p1 := plain_abort ha
        have p2 := plain_failed hf
        have p12 : ∀ ev ∈ ev1 ++ ev2, evPlain ev = true := by
          intro ev hm
          rcases List.mem_append.mp hm with hm | hm
          · exact p1 ev hm
          · exact p2 ev hm
        split at e
        · split at e
          · split at e
            · cases e
            · rename_i job3 ev3 ha3
              cases e
              refine ⟨?_, rfl⟩
              intro ev hm
              rcases List.mem_append.mp hm with hm | hm
              · exact p12 ev hm
              · exact plain_abort ha3 ev hm
          · cases e; exact ⟨p12, rfl⟩
        · cases e; exact ⟨p12, rfl⟩

/-- the events of one operation: one creating event carrying the current counter, or one start report of a stored
job, or only events that neither create nor start -/
theorem step_events {s s' : State} {op : Op} {evs : List Ev} (e : step s op = .ok (s', evs)) :
    ((evs = [.jobOpen s.jobCtr] ∨ evs = [.submit s.jobCtr true]) ∧ s'.jobCtr = s.jobCtr + 1) ∨
    (∃ t i ws rv job, evs = [.started t i ws rv] ∧ s.getJob t.1 = some job ∧ s'.jobCtr = s.jobCtr) ∨
    ((∀ ev ∈ evs, evPlain ev = true) ∧ s'.jobCtr = s.jobCtr) := by
  have nil : ∀ {s0 : State}, s0.jobCtr = s.jobCtr →
      ((([] : List Ev) = [.jobOpen s.jobCtr] ∨ ([] : List Ev) = [.submit s.jobCtr true]) ∧ s0.jobCtr = s.jobCtr + 1) ∨
      (∃ t i ws rv job, ([] : List Ev) = [.started t i ws rv] ∧ s.getJob t.1 = some job ∧ s0.jobCtr = s.jobCtr) ∨
      ((∀ ev ∈ ([] : List Ev), evPlain ev = true) ∧ s0.jobCtr = s.jobCtr) :=
    fun h => .inr (.inr ⟨fun _ hm => (by cases hm), h⟩)
  cases op with
  | openJob mf =>
    simp only [step, State.openJob] at e
    split at e
    · cases e
    · simp only [Except.map] at e; cases e; exact .inl ⟨.inl rfl, rfl⟩
  | submit j mf d =>
    simp only [step, State.submit] at e
    split at e
    · simp only [Except.map] at e; cases e; exact nil rfl
    · split at e
      · split at e
        · simp only [Except.map] at e; cases e; exact nil rfl
        · split at e
          · simp only [Except.map] at e; cases e; exact nil rfl
          · split at e
            · simp only [Except.map] at e; cases e; exact nil rfl
            · split at e
              · simp only [Except.map] at e; cases e
              · simp only [Except.map] at e
                cases e
                exact .inr (.inr ⟨fun ev hm => (by simp only [List.mem_singleton] at hm; subst hm; rfl), rfl⟩)
      · split at e
        · simp only [Except.map] at e; cases e
        · split at e
          · simp only [Except.map] at e; cases e
          · simp only [Except.map] at e; cases e; exact .inl ⟨.inr rfl, rfl⟩
  | close j =>
    simp only [step, State.closeJob] at e
    split at e
    · cases e; exact nil rfl
    · split at e
      · cases e
        refine .inr (.inr ⟨?_, rfl⟩)
        intro ev hm
        simp only [List.mem_append, List.mem_singleton] at hm
        rcases hm with rfl | hm
        · rfl
        · exact plain_checkTermination _ ev hm
      · cases e; exact nil rfl
  | cancel j =>
    simp only [step, State.cancelJob] at e
    split at e
    · simp only [Except.map] at e; cases e; exact nil rfl
    · split at e
      · simp only [Except.map] at e; cases e; exact nil rfl
      · split at e
        · simp only [Except.map] at e; cases e
        · rename_i job' evs' hc
          simp only [Except.map] at e
          cases e
          exact .inr (.inr ⟨plain_cancel hc, rfl⟩)
  | forget j allowed =>
    simp only [step, State.forgetJob] at e
    split at e
    · simp only [Except.map] at e; cases e; exact nil rfl
    · split at e
      · simp only [Except.map] at e; cases e; exact nil rfl
      · split at e
        · simp only [Except.map] at e; cases e
        · split at e
          · simp only [Except.map] at e; cases e; exact nil rfl
          · simp only [Except.map] at e; cases e; exact nil rfl
  | started t i ws rv =>
    simp only [step, State.taskStarted] at e
    split at e
    · cases e
    · rename_i job hg
      split at e
      · cases e
      · cases e
        exact .inr (.inl ⟨t, i, ws, rv, job, rfl, hg, rfl⟩)
  | finished t =>
    simp only [step, State.taskFinished] at e
    split at e
    · cases e
    · split at e
      · cases e
      · rename_i job' evs' hr
        cases e
        exact .inr (.inr ⟨plain_finished hr, rfl⟩)
  | failed t cons =>
    simp only [step] at e
    cases hr : s.taskFailed t cons with
    | error x => rw [hr] at e; cases e
    | ok r =>
      rw [hr] at e
      obtain ⟨s1, evs1, ret⟩ := r
      simp only [Except.map] at e
      cases e
      exact .inr (.inr (plain_taskFailed hr))
  | workerNew w =>
    simp only [step, State.workerNew] at e
    split at e
    · cases e
    · cases e
      exact .inr (.inr ⟨fun ev hm => (by simp only [List.mem_singleton] at hm; subst hm; rfl), rfl⟩)
  | workerLost w running reason =>
    simp only [step, State.workerLost] at e
    split at e
    · cases e
    · rename_i s1 hs1
      split at e
      · cases e
      · cases e
        exact .inr (.inr ⟨fun ev hm => (by simp only [List.mem_singleton] at hm; subst hm; rfl),
          (setWaitingAll_puts _ hs1).2⟩)

/-! ### the records -/

theorem rec_plain (s : State) (op : Op) (ev : Ev) (h : evPlain ev = true) :
    ∀ r ∈ recOfEv s op ev, createdJob r = none ∧ startedJob r = none := by
  intro r hr
  cases ev with
  | jobOpen _ => cases h
  | started _ _ _ _ => cases h
  | submit j closed =>
    cases closed with
    | true => cases h
    | false =>
      cases op <;> simp only [recOfEv, List.mem_singleton, List.mem_nil_iff] at hr
      subst hr; exact ⟨rfl, rfl⟩
  | jobIdle _ => simp [recOfEv] at hr
  | _ =>
    simp only [recOfEv, List.mem_singleton] at hr
    subst hr; exact ⟨rfl, rfl⟩

theorem nsbc_plain (seen : List Nat) (M : List Record) : ∀ (L : List Record),
    (∀ r ∈ L, createdJob r = none ∧ startedJob r = none) →
    noStartBeforeCreate seen (L ++ M) = noStartBeforeCreate seen M
  | [], _ => rfl
  | r :: L, h => by
    obtain ⟨h1, h2⟩ := h r (by simp)
    simp only [List.cons_append, noStartBeforeCreate, h1, h2, Bool.true_and]
    exact nsbc_plain seen M L (fun r' hr' => h r' (by simp [hr']))

theorem nsbc_mono : ∀ (J : List Record) {seen seen' : List Nat}, (∀ j ∈ seen', j ∈ seen) →
    noStartBeforeCreate seen J = true → noStartBeforeCreate seen' J = true
  | [], _, _, _, _ => rfl
  | r :: J, seen, seen', hs, h => by
    simp only [noStartBeforeCreate, Bool.and_eq_true] at h ⊢
    refine ⟨?_, nsbc_mono J ?_ h.2⟩
    · cases hc : createdJob r with
      | none => rfl
      | some j =>
        have := h.1
        rw [hc] at this
        simp only [Bool.not_eq_true', List.contains_eq_mem, decide_eq_false_iff_not] at this ⊢
        exact fun hm => this (hs j hm)
    · intro j hj
      cases hst : startedJob r with
      | none => rw [hst] at hj; simpa [hst] using hs j hj
      | some k =>
        rw [hst] at hj
        simp only [List.mem_cons] at hj ⊢
        rcases hj with rfl | hj
        · exact .inl rfl
        · exact .inr (hs j hj)

theorem nsbc_prefix : ∀ (K M : List Record) (seen : List Nat),
    noStartBeforeCreate seen (K ++ M) = true → noStartBeforeCreate seen K = true
  | [], _, _, _ => rfl
  | r :: K, M, seen, h => by
    simp only [List.cons_append, noStartBeforeCreate, Bool.and_eq_true] at h ⊢
    exact ⟨h.1, nsbc_prefix K M _ h.2⟩

theorem journalFrom_nsbc : ∀ (ops : List Op) {s : State} {seen : List Nat}, StateWF s →
    (∀ j ∈ seen, j < s.jobCtr) → noStartBeforeCreate seen (journalFrom s ops) = true
  | [], _, _, _, _ => rfl
  | op :: ops, s, seen, wf, hs => by
    simp only [journalFrom]
    cases he : step s op with
    | error x => rfl
    | ok r =>
      obtain ⟨s', evs⟩ := r
      simp only
      have wf' := step_wf wf he
      rcases step_events he with ⟨hev, hc⟩ | ⟨t, i, ws, rv, job, rfl, hg, hc⟩ | ⟨hpl, hc⟩
      · -- one creating event with the current counter
        have ih := journalFrom_nsbc ops (s := s') (seen := seen) wf' (fun j hj => by have := hs j hj; omega)
        have hfresh : (!seen.contains s.jobCtr) = true := by
          simp only [Bool.not_eq_true', List.contains_eq_mem, decide_eq_false_iff_not]
          intro hm; exact absurd (hs _ hm) (Nat.lt_irrefl _)
        rcases hev with rfl | rfl
        · simp only [recordsOf, List.flatMap_cons, List.flatMap_nil, recOfEv, List.append_nil, List.singleton_append,
            noStartBeforeCreate, createdJob, startedJob, hfresh, Bool.true_and]
          exact ih
        · cases op <;>
            simp only [recordsOf, List.flatMap_cons, List.flatMap_nil, recOfEv, List.append_nil, List.nil_append,
              List.singleton_append, noStartBeforeCreate, createdJob, startedJob, hfresh, Bool.true_and] <;>
            exact ih
      · -- one start report of a stored job
        have hlt : t.1 < s.jobCtr := by
          have := wf.below job (findJob_some hg).1
          rw [(findJob_some hg).2] at this; exact this
        simp only [recordsOf, List.flatMap_cons, List.flatMap_nil, recOfEv, List.append_nil, List.singleton_append,
          noStartBeforeCreate, createdJob, startedJob, Bool.true_and]
        refine journalFrom_nsbc ops wf' ?_
        intro j hj
        simp only [List.mem_cons] at hj
        rcases hj with rfl | hj
        · omega
        · have := hs j hj; omega
      · rw [recordsOf, nsbc_plain seen _ _ (by
          intro r hr
          obtain ⟨ev, hev, hr'⟩ := List.mem_flatMap.mp hr
          exact rec_plain s op ev (hpl ev hev) r hr')]
        exact journalFrom_nsbc ops wf' (fun j hj => by have := hs j hj; omega)

theorem journalOf_noStartBeforeCreate (uid : String) (ops : List Op) : NoStartBeforeCreate (journalOf uid ops) := by
  unfold NoStartBeforeCreate journalOf
  simp only [noStartBeforeCreate, createdJob, startedJob, Bool.true_and]
  exact journalFrom_nsbc ops init_wf (fun j hj => by cases hj)

end HqModel.Emit
