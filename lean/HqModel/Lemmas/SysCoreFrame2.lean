import HqModel.Lemmas.SysCoreFrame
/-!
`Fr calm` for the functions of `Model.lean` and `Reactor.lean` other than `task_running` and `on_new_tasks`: none of
them puts a task into Running / RunningMultiNode, sets the `started` flag of a multi-node assignment or registers a
consumer.
-/
namespace HqModel.Core

abbrev Frc (s s' : State) : Prop := Fr False s s'

theorem Frc.refl (s : State) : Frc s s := Fr.refl _ _
theorem Frc.ask (s : State) : Frc s (ask s) := Fr.of_eq rfl rfl
theorem CoreEq.frc {s s' : State} (h : CoreEq s s') : Frc s s' := Fr.of_eq h.t h.w

theorem task?_congr {s s1 : State} {id : TaskId} {task : Task} (e : s1.tasks = s.tasks) (h : s.task? id = some task) :
    s1.task? id = some task := by
  simp only [State.task?, e]; exact h

theorem task?_of_get {s : State} {id : TaskId} {task : Task} (h : s.getTask id = .ok task) : s.task? id = some task :=
  getTask_spec h

/-! ### `Model.lean` -/

theorem processRetracted_frc (l : List TaskId) (s s' : State) (acc acc' : List (Nat × TaskId))
    (h : s.processRetracted l acc = .ok (s', acc')) : Frc s s' := by
  induction l generalizing s acc with
  | nil => simp only [State.processRetracted] at h; cases h; exact Frc.refl _
  | cons t rest ih =>
    simp only [State.processRetracted] at h
    split at h
    · cases h
    · rename_i task hg
      split at h
      · rename_i w hs
        split at h
        · cases h
        · rename_i s1 hw
          have f1 : Frc s s1 := Fr.withWorker (removePrefill_wrel t) hw
          have ht := task?_congr (withWorker_tasks hw) (task?_of_get hg)
          have f2 : Frc s1 (s1.setTask { task with state := .retracting w }) :=
            Fr.setState ht rfl rfl trivial
          exact (f1.trans f2).trans (ih _ _ h)
      · cases h

theorem retract_frc {s s' : State} {l : List TaskId} {o : Out} (h : s.retract l = .ok (s', o)) : Frc s s' := by
  simp only [State.retract] at h
  split at h
  · cases h
  · rename_i s1 pairs hp
    cases h
    exact processRetracted_frc _ _ _ _ _ hp

theorem tryRemoveRedirection_frc {s s' : State} {t : TaskId} {rq : Nat}
    (h : s.tryRemoveRedirection t rq = .ok s') : Frc s s' := by
  simp only [State.tryRemoveRedirection] at h
  split at h
  · cases h; exact Frc.refl _
  · split at h
    · cases h
    · have f1 : Frc s { s with redirects := s.redirects.filter (·.1 ≠ t) } := Fr.of_eq rfl rfl
      exact f1.trans (Fr.withWorker (removeSn_wrel t _) h)

theorem removeConsumer_tfr {ts ts' : List Task} {d c : TaskId} (h : removeConsumer ts d c = .ok ts') :
    TFr False ts ts' := by
  simp only [removeConsumer] at h
  split at h
  · cases h; exact TFr.refl _ _
  · rename_i dt hd
    split at h
    · cases h
    · cases h
      apply TFr.put (told := dt)
      · show findTask ts dt.id = some dt
        rw [findTask_some_id hd]; exact hd
      · intro x hx; exact List.mem_of_mem_erase hx
      · exact stOk.refl _ _

theorem removeConsumers_tfr (deps : List TaskId) (ts ts' : List Task) (c : TaskId)
    (h : removeConsumers ts c deps = .ok ts') : TFr False ts ts' := by
  induction deps generalizing ts with
  | nil => simp only [removeConsumers] at h; cases h; exact TFr.refl _ _
  | cons d rest ih =>
    simp only [removeConsumers] at h
    split at h
    · cases h
    · rename_i ts1 h1
      exact (removeConsumer_tfr h1).trans (ih _ h)

theorem removeTask_frc {s s' : State} {id : TaskId} {st : TS} (h : s.removeTask id = .ok (s', st)) : Frc s s' := by
  simp only [State.removeTask] at h
  split at h
  · cases h
  · rename_i task ht
    have f0 : Frc s { s with tasks := eraseTask s.tasks id } := ⟨TFr.erase _ _ _, fun _ wk h => ⟨wk, h, WRel.refl _⟩⟩
    split at h
    · split at h
      · cases h
      · rename_i s1 hq
        have f1 : Frc { s with tasks := eraseTask s.tasks id } s1 := (queueRemove_core hq).frc
        split at h
        · split at h
          · cases h
          · rename_i ts hc
            cases h
            have f2 : Frc s1 { s1 with tasks := ts } :=
              ⟨removeConsumers_tfr _ _ _ _ hc, fun _ wk h => ⟨wk, h, WRel.refl _⟩⟩
            exact (f0.trans f1).trans f2
        · cases h; exact f0.trans f1
    · split at h
      · cases h
      · rename_i s1 hq
        cases h
        exact f0.trans (queueRemove_core hq).frc
    · cases h; exact f0

theorem removeTasksBatched_frc (ids : List TaskId) (s s' : State) (h : s.removeTasksBatched ids = .ok s') : Frc s s' := by
  induction ids generalizing s with
  | nil => simp only [State.removeTasksBatched] at h; cases h; exact Frc.refl _
  | cons t rest ih =>
    simp only [State.removeTasksBatched] at h
    split at h
    · cases h
    · rename_i s1 st h1
      exact (removeTask_frc h1).trans (ih _ h)

theorem removeWaitingAll_frc (ids : List TaskId) (s s' : State) (h : s.removeWaitingAll ids = .ok s') : Frc s s' := by
  induction ids generalizing s with
  | nil => simp only [State.removeWaitingAll] at h; cases h; exact Frc.refl _
  | cons t rest ih =>
    simp only [State.removeWaitingAll] at h
    split at h
    · cases h
    · rename_i s1 st h1
      split at h
      · exact (removeTask_frc h1).trans (ih _ h)
      · cases h

/-! ### `Reactor.lean` -/

theorem resetMnAll_frc (l : List Nat) (s s' : State) (h : resetMnAll s l = .ok s') : Frc s s' := by
  induction l generalizing s with
  | nil => simp only [resetMnAll] at h; cases h; exact Frc.refl _
  | cons w rest ih =>
    simp only [resetMnAll] at h
    split at h
    · cases h
    · rename_i wk hg
      have hf := getWorker_spec hg
      have hid := findWorker_some_id hf
      have f1 : Frc s (s.setWorker wk.emptySn) :=
        Fr.setWorker (wk := wk) (by rw [hid]; exact hf) (emptySn_wrel wk)
      exact f1.trans (ih _ h)

theorem resetMnChecked_frc (l : List Nat) (s s' : State) (id : TaskId) (h : resetMnChecked s id l = .ok s') :
    Frc s s' := by
  induction l generalizing s with
  | nil => simp only [resetMnChecked] at h; cases h; exact Frc.refl _
  | cons w rest ih =>
    simp only [resetMnChecked] at h
    split at h
    · cases h
    · rename_i wk hg
      have hf := getWorker_spec hg
      have hid := findWorker_some_id hf
      have f1 : Frc s (s.setWorker wk.emptySn) :=
        Fr.setWorker (wk := wk) (by rw [hid]; exact hf) (emptySn_wrel wk)
      split at h
      · split at h
        · cases h
        · exact f1.trans (ih _ h)
      · cases h

theorem cancelLoop_frc (ids : List TaskId) (s s' : State) (u u' : List TaskId) (r r' : List (Nat × List TaskId))
    (h : s.cancelLoop ids u r = .ok (s', u', r')) : Frc s s' := by
  induction ids generalizing s u r with
  | nil => simp only [State.cancelLoop] at h; cases h; exact Frc.refl _
  | cons id rest ih =>
    simp only [State.cancelLoop] at h
    split at h
    · exact ih _ _ _ h
    · rename_i task ht
      split at h
      · cases h
      · rename_i cons hc
        have sn : ∀ (w rv : Nat), (match s.rq task.rq rv with
            | .error e => (.error e : M (State × List TaskId × List (Nat × List TaskId)))
            | .ok r0 =>
              match s.withWorker w (·.removeSn id r0) with
              | .error e => .error e
              | .ok s1 => State.cancelLoop (ask s1) rest (unionTids (unionTids u [id]) cons) (addTo r w id)) =
              .ok (s', u', r') → Frc s s' := by
          intro w rv h
          split at h
          · cases h
          · split at h
            · cases h
            · rename_i s1 hw
              exact ((Fr.withWorker (removeSn_wrel id _) hw).trans (Frc.ask s1)).trans (ih _ _ _ h)
        split at h
        · exact (Frc.ask s).trans (ih _ _ _ h)
        · exact sn _ _ h
        · exact sn _ _ h
        · split at h
          · cases h
          · rename_i s1 hr
            split at h
            · cases h
            · exact ((resetMnAll_frc _ _ _ hr).trans (Frc.ask s1)).trans (ih _ _ _ h)
        · split at h
          · cases h
          · rename_i s1 hr
            exact ((tryRemoveRedirection_frc hr).trans (Frc.ask s1)).trans (ih _ _ _ h)
        · split at h
          · cases h
          · rename_i s1 hr
            split at h
            · cases h
            · rename_i s2 hw
              exact ((removePrefilled_core hr).frc.trans (Fr.withWorker (removePrefill_wrel id) hw)).trans (ih _ _ _ h)
        · cases h

theorem cancelTasks_frc {s s' : State} {ids : List TaskId} {o : Out} (h : s.cancelTasks ids = .ok (s', o)) :
    Frc s s' := by
  simp only [State.cancelTasks] at h
  split at h
  · cases h
  · rename_i s1 unreg running h1
    split at h
    · cases h
    · rename_i s2 h2
      cases h
      exact (cancelLoop_frc _ _ _ _ _ _ _ h1).trans (removeTasksBatched_frc _ _ _ h2)

end HqModel.Core
