import HqModel.Lemmas.CoreNoPanicQ6
/-!
C09 progress, queue correspondence, part 7: `task_reject` (with the multi-node arm of the F32 fix), `updateState` /
`updateLoop` / `taskUpdate`, `retractLoop` / `retractResponse`.
-/
namespace HqModel.Core.NPC

open HqModel.Core.NP

/-- **`task_reject`** (every state the function accepts: Assigned, Prefilled, Retracting, RunningMultiNode) -/
theorem taskReject_npq {D} {s s' : State} {w : Nat} {id : TaskId} {rv : Option Nat} {o : Out} {b : Bool}
    (h : NpQ D [] s) (hd : RdRetr s) (heq : s.taskReject w id rv = .ok (s', o, b)) : NpQ D [] s' := by
  unfold State.taskReject at heq
  split at heq
  · cases heq; exact h
  · rename_i task ht
    split at heq
    · cases heq
    · rename_i wk0 hg
      extract_lets wk s0 tw requeue s1r at heq
      have h0 : NpQ D [] s0 := setWorker_npq wk h
      have d0 : RdRetr s0 := hd.frame rfl (fun _ hx => hx)
      have hid : task.id = id := findTask_some_id ht
      have ht0 : s0.task? task.id = some task := by rw [hid]; exact ht
      -- requeue of a record that is stored nowhere
      have rq_unq : ∀ s1 : State, NpQ D [] s1 → RdRetr s1 → s1.task? task.id = some task →
          ¬ RState [] s1.redirects task.id task.state → (∀ w, task.state ≠ .prefilled w) →
          (∀ w, task.state ≠ .retracting w) → requeue s1 = .ok (s', o, b) → NpQ D [] s' := by
        intro s1 a d f hns hnp hnr hq
        simp only [requeue] at hq
        exact requeue_npq (task := task)
          (setTask_npq_unq (t' := { task with state := .waiting 0 }) a f rfl rfl hns hnp (by intro w e; cases e))
          (d.setTask (t' := { task with state := .waiting 0 }) f (Or.inr (d.none_of_state f hnr))) f hq
      split at heq
      · -- assigned
        rename_i w' rv' hs
        have hns : ∀ rd, ¬ RState [] rd task.id task.state := fun rd =>
          not_rstate (by rw [hs]; intro e; cases e) (by rw [hs]; intro w e; cases e) (by rw [hs]; intro w e; cases e)
        have hnp : ∀ w, task.state ≠ .prefilled w := by rw [hs]; intro w e; cases e
        have hnr : ∀ w, task.state ≠ .retracting w := by rw [hs]; intro w e; cases e
        split at heq
        · exact rq_unq s0 h0 d0 ht0 (hns _) hnp hnr heq
        · split at heq
          · exact rq_unq s0 h0 d0 ht0 (hns _) hnp hnr heq
          · split at heq
            · cases heq
            · split at heq
              · cases heq
              · rename_i s1 hw
                exact rq_unq s1 (withWorker_npq h0 hw) (withWorker_rdRetr d0 hw)
                  (by rw [task?_congr (withWorker_tasks hw)]; exact ht0) (hns _) hnp hnr heq
      · -- prefilled
        rename_i w' hs
        split at heq
        · cases heq
        · rename_i s1 hw
          split at heq
          · cases heq
          · rename_i s2 hq
            simp only [requeue] at heq
            obtain ⟨a, nq⟩ := removePrefilled_npq (withWorker_npq h0 hw) hq
            obtain ⟨t2, r2, _⟩ := removePrefilled_spec hq
            have f2 : s2.task? task.id = some task := by
              rw [task?_congr t2, task?_congr (withWorker_tasks hw)]; exact ht0
            have d2 : RdRetr s2 := (withWorker_rdRetr d0 hw).frame t2 (by rw [r2]; exact fun _ hx => hx)
            refine requeue_npq (task := task) ?_
              (d2.setTask (t' := { task with state := .waiting 0 }) f2
                (Or.inr (d2.none_of_state f2 (by rw [hs]; intro w e; cases e)))) f2 heq
            refine setTask_npq (t' := { task with state := .waiting 0 }) a f2 rfl rfl
              (fun ⟨i, q, hq', hm⟩ => absurd hm (hid ▸ (nq i q hq').1))
              (fun ⟨i, q, hq', hm⟩ => absurd hm (hid ▸ (nq i q hq').2)) (fun hr => by cases hr)
              (fun ⟨w, e⟩ => by cases e) ?_
            intro x hx hdx
            rcases hdx with hdx | hdx
            · exact hdx
            · exact absurd (hdx.trans hid.symm) hx
      · -- retracting
        rename_i w' hs
        have hnp : ∀ w, task.state ≠ .prefilled w := by rw [hs]; intro w e; cases e
        split at heq
        · (simp only [Except.ok.injEq, Prod.mk.injEq] at heq; rw [← heq.1]; exact h0)
        · split at heq
          · rename_i t0 target trv hfind
            cases heq
            have hmem : (t0, target, trv) ∈ s0.redirects := List.mem_of_find?_eq_some hfind
            have ht0' : t0 = id := by simpa using List.find?_some hfind
            have a := setTask_npq_unq (t' := { task with state := .assigned target trv }) h0 ht0 rfl rfl
              (by
                rintro (e | ⟨_, e⟩ | ⟨⟨w, e⟩, _⟩)
                · rw [hs] at e; cases e
                · exact e _ hmem (by simp [ht0', hid])
                · exact hnp w e) hnp (by intro w e; cases e)
            exact a.frame (s' := s1r.setTask _) rfl rfl (fun x hx => (List.mem_filter.mp hx).1)
          · rename_i hnone
            simp only [requeue] at heq
            have hno : ∀ x ∈ s0.redirects, x.1 ≠ task.id := by
              intro x hx
              have := List.find?_eq_none.mp hnone x hx
              rw [hid]; simpa using this
            refine requeue_npq (task := task) ?_
              (d0.setTask (t' := { task with state := .waiting 0 }) ht0 (Or.inr hno)) ht0 heq
            refine setTask_npq (t' := { task with state := .waiting 0 }) h0 ht0 rfl rfl (fun _ => Or.inl rfl)
              (fun ⟨i, q, hq', hm⟩ => absurd hm (h0.not_pf ht0 hnp hq')) (fun hr => by cases hr)
              (fun ⟨w, e⟩ => by cases e) (fun _ _ hdx => hdx)
      · -- multi-node
        rename_i ws hs
        have hns : ∀ rd, ¬ RState [] rd task.id task.state := fun rd =>
          not_rstate (by rw [hs]; intro e; cases e) (by rw [hs]; intro w e; cases e) (by rw [hs]; intro w e; cases e)
        have hnp : ∀ w, task.state ≠ .prefilled w := by rw [hs]; intro w e; cases e
        have hnr : ∀ w, task.state ≠ .retracting w := by rw [hs]; intro w e; cases e
        split at heq
        · cases heq
        · split at heq
          · (simp only [Except.ok.injEq, Prod.mk.injEq] at heq; rw [← heq.1]; exact h0)
          · split at heq
            · (simp only [Except.ok.injEq, Prod.mk.injEq] at heq; rw [← heq.1]; exact h0)
            · split at heq
              · (simp only [Except.ok.injEq, Prod.mk.injEq] at heq; rw [← heq.1]; exact h0)
              · split at heq
                · cases heq
                · rename_i s1 hr
                  exact rq_unq s1 (resetMnChecked_npq h0 hr) (resetMnChecked_rdRetr d0 hr)
                    (by rw [task?_congr (resetMnChecked_tasks _ _ _ _ hr)]; exact ht0) (hns _) hnp hnr heq
      all_goals cases heq

/-! ### `on_task_update` -/

/-- what the protocol condition says about a Finished message: the task is not Retracting -/
theorem updNP_fin_not_retracting {s : State} {w : Nat} {t : TaskId} (h : UpdNP s w (.finished t)) {task : Task}
    (ht : s.task? t = some task) (w0 : Nat) : task.state ≠ .retracting w0 := by
  intro e
  have h2 := h.2
  simp only [ht, e] at h2

/-- one update of the loop of `on_task_update` -/
theorem updateState_npq {D} {s s1 : State} {w : Nat} {u : Update} {rets rets' : List (List TaskId)}
    (h : NpQ D [] s) (hi : Inv s) (hnp : UpdNP s w u) (heq : s.updateState w u rets = .ok (s1, rets')) :
    NpQ D [] s1 := by
  cases u with
  | finished t =>
    simp only [State.updateState] at heq
    split at heq
    · cases heq
    · rename_i h1; cases heq
      exact taskFinished_npq h hi.nd hi.rdRetr (fun task w0 ht => updNP_fin_not_retracting hnp ht w0) h1
  | failed t =>
    simp only [State.updateState] at heq
    split at heq
    · cases heq
    · rename_i h1; cases heq; exact (taskFailed_npq h hi.nd hi.cw h1).1
  | running t rv =>
    simp only [State.updateState] at heq
    split at heq
    · cases heq
    · rename_i h1; cases heq; exact taskRunning_npq h (by intro e; cases e) h1
  | runningPrefilled t rv =>
    simp only [State.updateState] at heq
    split at heq
    · cases heq
    · rename_i h1; cases heq; exact taskRunning_npq h (by intro e; cases e) h1
  | reject t rv =>
    simp only [State.updateState] at heq
    split at heq
    · cases heq
    · rename_i h1; cases heq; exact taskReject_npq h hi.rdRetr h1
  | enable rq rv =>
    simp only [State.updateState] at heq
    split at heq
    · cases heq
    · rename_i h1; cases heq; exact requestEnabled_npq h h1

theorem updateLoop_npq {D} (us : List Update) (s s' : State) (w : Nat) (rets rets' : List (List TaskId))
    (o o' : Out) (n n' : Bool) (h : NpQ D [] s) (hi : Inv s) (hok : UpdatesOk UpdProto s w us rets)
    (hnp : UpdatesOk UpdNP s w us rets) (heq : s.updateLoop w us rets o n = .ok (s', o', n', rets')) :
    NpQ D [] s' := by
  induction us generalizing s rets o n with
  | nil => simp only [State.updateLoop] at heq; cases heq; exact h
  | cons u rest ih =>
    obtain ⟨s1, rets1, out1, need1, h1, h2⟩ := updateLoop_cons heq
    simp only [UpdatesOk, h1] at hok hnp
    exact ih _ _ _ _ (updateState_npq h hi hnp.1 h1) (updateState_inv hi hok.1 h1) hok.2 hnp.2 h2

/-- **`on_task_update`** -/
theorem taskUpdate_npq {D} {s s' : State} {w : Nat} {us : List Update} {rets : List (List TaskId)} {o : Out}
    (h : NpQ D [] s) (hi : Inv s) (hok : UpdatesOk UpdProto s w us rets) (hnp : UpdatesOk UpdNP s w us rets)
    (heq : s.taskUpdate w us rets = .ok (s', o)) : NpQ D [] s' := by
  simp only [State.taskUpdate] at heq
  split at heq
  · cases heq
  · rename_i s1 out need rets' h1
    cases heq
    have := updateLoop_npq _ _ _ _ _ _ _ _ _ _ h hi hok hnp h1
    split
    · exact ask_npq this
    · exact this

/-! ### `on_retract_response` -/

/-- a Retracting task with a redirect is resolved: the redirect is dropped, the record gets a state that is not
Prefilled (Assigned to the target) -/
theorem resolve_redirect_npq {D R} {s : State} {told t' : Task} (h : NpQ D R s)
    (hf : s.task? t'.id = some told) (hrq : t'.rq = told.rq) (hp : t'.prio = told.prio)
    (hs : ∃ w, told.state = .retracting w) (hx : ∃ x ∈ s.redirects, x.1 = t'.id)
    (hnew : ∀ w, t'.state ≠ .prefilled w) :
    NpQ D R (({ s with redirects := s.redirects.filter (·.1 ≠ t'.id) } : State).setTask t') := by
  obtain ⟨w0, hw0⟩ := hs
  obtain ⟨x, hxm, hxe⟩ := hx
  have hnp : ∀ w, told.state ≠ .prefilled w := by rw [hw0]; intro w e; cases e
  have a := setTask_npq_unq h hf hrq hp
    (by
      rintro (e | ⟨_, e⟩ | ⟨⟨w, e⟩, _⟩)
      · rw [hw0] at e; cases e
      · exact e x hxm hxe
      · exact hnp w e) hnp hnew
  exact a.frame rfl rfl (fun y hy => (List.mem_filter.mp hy).1)

/-- a Retracting task becomes `Waiting 0` (it stays in the ready list if it is there) -/
theorem retracted_to_waiting_npq {D R} {s : State} {told t' : Task} (h : NpQ D R s)
    (hf : s.task? t'.id = some told) (hrq : t'.rq = told.rq) (hp : t'.prio = told.prio)
    (hs : ∃ w, told.state = .retracting w) (hnew : t'.state = .waiting 0) : NpQ D R (s.setTask t') := by
  obtain ⟨w0, hw0⟩ := hs
  have hnp : ∀ w, told.state ≠ .prefilled w := by rw [hw0]; intro w e; cases e
  refine setTask_npq h hf hrq hp (fun _ => Or.inl hnew)
    (fun ⟨i, q, hq', hm⟩ => absurd hm (h.not_pf hf hnp hq')) ?_ (fun ⟨w, e⟩ => by rw [hnew] at e; cases e)
    (fun _ _ hdx => hdx)
  intro hr
  obtain ⟨t, w, a, b⟩ := isPrefilled_iff.mp (h.rpre _ hr)
  rw [hf] at a; cases a
  exact absurd b (hnp w)

theorem retractLoop_npq {D R} (ids : List TaskId) (s s' : State) (w : Nat) (acc acc' : List (Nat × TaskId × Nat))
    (h : NpQ D R s) (heq : s.retractLoop w ids acc = .ok (s', acc')) : NpQ D R s' := by
  induction ids generalizing s acc with
  | nil => simp only [State.retractLoop] at heq; cases heq; exact h
  | cons id rest ih =>
    simp only [State.retractLoop] at heq
    split at heq
    · exact ih _ _ h heq
    · rename_i task ht
      have hid : task.id = id := findTask_some_id ht
      have ht' : s.task? task.id = some task := by rw [hid]; exact ht
      split at heq
      · exact ih _ _ h heq
      · rename_i hs
        simp only [ne_eq, Decidable.not_not] at hs
        split at heq
        · rename_i t0 target trv hfind
          have hmem := rd_mem_of_find hfind
          refine ih _ _ ?_ heq
          have := resolve_redirect_npq (t' := { task with state := .assigned target trv }) h ht' rfl rfl
            ⟨w, hs⟩ ⟨_, hmem.1, by rw [hid]; exact hmem.2⟩ (by intro w e; cases e)
          simpa only [hid] using this
        · exact ih _ _ (retracted_to_waiting_npq (t' := { task with state := .waiting 0 }) h ht' rfl rfl
            ⟨w, hs⟩ rfl) heq

/-- **`on_retract_response`** -/
theorem retractResponse_npq {D R} {s s' : State} {w : Nat} {ids : List TaskId} {o : Out} (h : NpQ D R s)
    (heq : s.retractResponse w ids = .ok (s', o)) : NpQ D R s' := by
  simp only [State.retractResponse] at heq
  split at heq
  · cases heq
  · rename_i s1 items h1
    split at heq
    · cases heq
    · cases heq; exact retractLoop_npq _ _ _ _ _ _ h h1

end HqModel.Core.NPC
