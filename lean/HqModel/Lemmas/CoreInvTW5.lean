import HqModel.Lemmas.CoreInvTW4
/-!
Stage 2c, part 5: `TW3`/`MNU` under one scheduling round, and the step / run theorems for the full structural
invariant (list → state, state → list).
-/
namespace HqModel.Core

theorem placeSnBody_tw {s s' : State} {m m' : List WUpdate} {v : Nat} {r : Rq} {id : TaskId} {w : Nat}
    (hi : TWI noD s) (h : s.placeSnBody m v r id w = .ok (s', m')) : TWI noD s' := by
  simp only [State.placeSnBody] at h
  split at h
  · cases h
  · rename_i s1 hw1
    obtain ⟨wk1, wk1', hfw1, hf1, rfl⟩ := withWorker_spec hw1
    obtain ⟨A, F, P, F', ha, _, hnm, rfl⟩ := insertSn_spec hf1
    have hwid : wk1.id = w := findWorker_some_id hfw1
    split at h
    · cases h
    · rename_i task hgt
      have ht : findTask s.tasks id = some task := getTask_spec hgt
      have hid : task.id = id := findTask_some_id ht
      have hst := stOf_of_find ht
      have ht' : ∀ st, findTask s.tasks ({ task with state := st } : Task).id = some task := by
        intro st; simpa [hid] using ht
      have hfw1' : findWorker s.workers ({ wk1 with assign := .sn (A ++ [id]) F' P } : Worker).id = some wk1 := by
        simpa [hwid] using hfw1
      have hA0 : asgW s.workers w = A := by rw [asgW_of_find hfw1]; simp [wAsg, ha]
      have hin1 : id ∈ asgW (putWorker s.workers { wk1 with assign := .sn (A ++ [id]) F' P }) w := by
        rw [asgW_put hfw1']; simp [hwid, wAsg]
      have hAmono : ∀ u, u ≠ id → u ∈ wAsg wk1 → u ∈ wAsg ({ wk1 with assign := .sn (A ++ [id]) F' P } : Worker) := by
        intro u _ hu; simp only [wAsg, ha] at hu ⊢; exact List.mem_append.mpr (Or.inl hu)
      have hPmono : ∀ u, u ≠ id → u ∈ wPre wk1 → u ∈ wPre ({ wk1 with assign := .sn (A ++ [id]) F' P } : Worker) := by
        intro u _ hu; simpa [wPre, ha] using hu
      split at h
      · -- Waiting → Assigned
        rename_i n hs
        cases h
        have hnr := hi.tw.no_rd_of_state hst (by simp [hs])
        obtain ⟨a, b⟩ := hi.tw.mv_sn hi.mnu (t' := { task with state := .assigned w v }) (wk := wk1)
          (wk' := { wk1 with assign := .sn (A ++ [id]) F' P }) (rd' := s.redirects) (ht' _) hfw1'
          (by simp [wMn, ha]) (by simp [wMn]) (by simpa [hid] using hAmono) (by simpa [hid] using hPmono)
          (fun _ _ _ _ h => h) (by simp)
          (by
            intro w0 v0 hs'
            simp only [TS.assigned.injEq, TS.running.injEq, or_false, reduceCtorEq] at hs'
            rw [← hs'.1]; simpa [hid] using hin1)
          (by intro w0 hs'; simp at hs')
          (by intro w0 v0 hm'; exact absurd hm' (by simpa [hid] using hnr w0 v0))
        exact ⟨a, b⟩
      · -- Retracting
        rename_i old hs
        split at h
        · rename_i t0 ot ov hfind
          change List.find? (fun x => decide (x.1 = id)) s.redirects = some (t0, ot, ov) at hfind
          have hmem := rd_mem_of_find hfind
          have ht0 : t0 = id := by simpa using hmem.2
          subst ht0
          split at h
          · cases h
          · split at h
            · cases h
            · rename_i s3 hw2
              cases h
              obtain ⟨wk2, wk2', hfw2, hf2, rfl⟩ := withWorker_spec hw2
              obtain ⟨A2, F2, P2, F2', ha2, _, hm2, rfl⟩ := removeSn_spec hf2
              change findWorker (putWorker s.workers _) ot = some wk2 at hfw2
              have hwid2 : wk2.id = ot := findWorker_some_id hfw2
              have hne : ot ≠ w := by
                intro e
                have := hi.tw.d1 t0 ot ov (fun e => e) hmem.1
                rw [e, hA0] at this
                exact hnm this
              -- step 1: the reservation on `w` and the new redirect
              obtain ⟨a1, b1⟩ := hi.tw.mv_sn_same hi.mnu (t := t0) (told := task) (wk := wk1)
                (wk' := { wk1 with assign := .sn (A ++ [t0]) F' P })
                (rd' := s.redirects.filter (·.1 ≠ t0) ++ [(t0, w, v)]) ht hfw1'
                (by simp [wMn, ha]) (by simp [wMn]) hAmono hPmono
                (by
                  intro u x v' hu hm'
                  rcases List.mem_append.mp hm' with h1 | h1
                  · exact (rd_filter_mem.mp h1).1
                  · simp only [List.mem_singleton, Prod.mk.injEq] at h1; exact absurd h1.1 hu)
                (by intro w0 v0 hs'; rw [hs] at hs'; simp at hs')
                (by intro w0 hs'; rw [hs] at hs'; simp at hs')
                (by
                  intro w0 v0 hm'
                  refine ⟨⟨old, hs⟩, ?_⟩
                  rcases List.mem_append.mp hm' with h1 | h1
                  · exact absurd rfl (rd_filter_mem.mp h1).2
                  · simp only [List.mem_singleton, Prod.mk.injEq] at h1
                    rw [h1.2.1]; exact hin1)
              -- step 2: the old target gives the task back
              have hfw2' : findWorker (putWorker s.workers { wk1 with assign := .sn (A ++ [t0]) F' P })
                  ({ wk2 with assign := .sn (A2.erase t0) F2' P2 } : Worker).id = some wk2 := by
                simpa [hwid2] using hfw2
              obtain ⟨a2, b2⟩ := a1.mv_sn_same b1 (t := t0) (told := task) (wk := wk2)
                (wk' := { wk2 with assign := .sn (A2.erase t0) F2' P2 })
                (rd' := s.redirects.filter (·.1 ≠ t0) ++ [(t0, w, v)]) ht hfw2'
                (by simp [wMn, ha2]) (by simp [wMn])
                (by intro u hu hu'; simp only [wAsg, ha2] at hu' ⊢; exact (List.mem_erase_of_ne hu).mpr hu')
                (by intro u _ hu; simpa [wPre, ha2] using hu)
                (fun _ _ _ _ h => h)
                (by intro w0 v0 hs'; rw [hs] at hs'; simp at hs')
                (by intro w0 hs'; rw [hs] at hs'; simp at hs')
                (by
                  intro w0 v0 hm'
                  refine ⟨⟨old, hs⟩, ?_⟩
                  rcases List.mem_append.mp hm' with h1 | h1
                  · exact absurd rfl (rd_filter_mem.mp h1).2
                  · simp only [List.mem_singleton, Prod.mk.injEq] at h1
                    rw [h1.2.1, asgW_put hfw2', if_neg (by simp [hwid2]; exact fun e => hne e.symm)]
                    exact hin1)
              have hst2 : ∀ u, stOf (putTask s.tasks { task with state := .retracting old }) u = stOf s.tasks u := by
                intro u; rw [stOf_put (ht' _)]; split
                · rename_i e; rw [e]; simp [hid, hst, hs]
                · rfl
              exact ⟨a2.congr_tasks hst2, b2.congr_tasks hst2⟩
        · rename_i hnone
          change List.find? (fun x => decide (x.1 = id)) s.redirects = none at hnone
          cases h
          obtain ⟨a1, b1⟩ := hi.tw.mv_sn_same hi.mnu (t := id) (told := task) (wk := wk1)
            (wk' := { wk1 with assign := .sn (A ++ [id]) F' P })
            (rd' := s.redirects.filter (·.1 ≠ id) ++ [(id, w, v)]) ht hfw1'
            (by simp [wMn, ha]) (by simp [wMn]) hAmono hPmono
            (by
              intro u x v' hu hm'
              rcases List.mem_append.mp hm' with h1 | h1
              · exact (rd_filter_mem.mp h1).1
              · simp only [List.mem_singleton, Prod.mk.injEq] at h1; exact absurd h1.1 hu)
            (by intro w0 v0 hs'; rw [hs] at hs'; simp at hs')
            (by intro w0 hs'; rw [hs] at hs'; simp at hs')
            (by
              intro w0 v0 hm'
              refine ⟨⟨old, hs⟩, ?_⟩
              rcases List.mem_append.mp hm' with h1 | h1
              · exact absurd rfl (rd_filter_mem.mp h1).2
              · simp only [List.mem_singleton, Prod.mk.injEq] at h1
                rw [h1.2.1]; exact hin1)
          exact ⟨a1, b1⟩
      · -- Prefilled elsewhere → Retracting with a redirect
        rename_i old hs
        split at h
        · cases h
        · rename_i s2 hw2
          split at h
          · cases h
          · cases h
            obtain ⟨wk2, wk2', hfw2, hf2, rfl⟩ := withWorker_spec hw2
            obtain ⟨A2, F2, P2, ha2, hm2, rfl⟩ := removePrefill_spec hf2
            change findWorker (putWorker s.workers _) old = some wk2 at hfw2
            have hwid2 : wk2.id = old := findWorker_some_id hfw2
            have hnr := hi.tw.no_rd_of_state hst (by simp [hs])
            obtain ⟨a1, b1⟩ := hi.tw.mv_sn hi.mnu (t' := { task with state := .retracting old }) (wk := wk1)
              (wk' := { wk1 with assign := .sn (A ++ [id]) F' P }) (rd' := s.redirects ++ [(id, w, v)]) (ht' _) hfw1'
              (by simp [wMn, ha]) (by simp [wMn]) (by simpa [hid] using hAmono) (by simpa [hid] using hPmono)
              (by
                intro u x v' hu hm'
                rcases List.mem_append.mp hm' with h1 | h1
                · exact h1
                · simp only [List.mem_singleton, Prod.mk.injEq] at h1; exact absurd (by simpa [hid] using h1.1) hu)
              (by simp) (by intro w0 v0 hs'; simp at hs') (by intro w0 hs'; simp at hs')
              (by
                intro w0 v0 hm'
                refine ⟨⟨old, rfl⟩, ?_⟩
                rcases List.mem_append.mp hm' with h1 | h1
                · exact absurd h1 (by simpa [hid] using hnr w0 v0)
                · simp only [List.mem_singleton, Prod.mk.injEq] at h1
                  rw [h1.2.1]; simpa [hid] using hin1)
            have hfw2' : findWorker (putWorker s.workers { wk1 with assign := .sn (A ++ [id]) F' P })
                ({ wk2 with assign := .sn A2 F2 (P2.erase id) } : Worker).id = some wk2 := by
              simpa [hwid2] using hfw2
            have ht2 : findTask (putTask s.tasks { task with state := .retracting old }) id =
                some { task with state := .retracting old } := by
              rw [findTask_putTask]; simp [hid, ht]
            obtain ⟨a2, b2⟩ := a1.mv_sn_same b1 (t := id) (told := { task with state := .retracting old }) (wk := wk2)
              (wk' := { wk2 with assign := .sn A2 F2 (P2.erase id) }) (rd' := s.redirects ++ [(id, w, v)]) ht2 hfw2'
              (by simp [wMn, ha2]) (by simp [wMn])
              (by intro u _ hu; simpa [wAsg, ha2] using hu)
              (by intro u hu hu'; simp only [wPre, ha2] at hu' ⊢; exact (List.mem_erase_of_ne hu).mpr hu')
              (fun _ _ _ _ h => h) (by intro w0 v0 hs'; simp at hs') (by intro w0 hs'; simp at hs')
              (by
                intro w0 v0 hm'
                refine ⟨⟨old, rfl⟩, ?_⟩
                rcases List.mem_append.mp hm' with h1 | h1
                · exact absurd h1 (hnr w0 v0)
                · simp only [List.mem_singleton, Prod.mk.injEq] at h1
                  rw [h1.2.1, asgW_put_same hfw2' (by simp [wAsg, ha2])]
                  exact hin1)
            exact ⟨a2, b2⟩
      · cases h

theorem placeAll_tw (l : List (TaskId × Nat)) (s s' : State) (m m' : List WUpdate) (v : Nat) (r : Rq)
    (hi : TWI noD s) (h : s.placeAll m v r l = .ok (s', m')) : TWI noD s' := by
  induction l generalizing s m with
  | nil => simp only [State.placeAll] at h; cases h; exact hi
  | cons p rest ih =>
    obtain ⟨id, w⟩ := p
    simp only [State.placeAll] at h
    split at h
    · cases h
    · rename_i s1 m1 h1
      exact ih _ _ (placeSnBody_tw hi (placeSn_ok h1).1) h

theorem mapSn_tw (es : List SnEntry) (s s' : State) (now : Nat) (m m' : List WUpdate)
    (hi : TWI noD s) (h : s.mapSn now m es = .ok (s', m')) : TWI noD s' := by
  induction es generalizing s m with
  | nil => simp only [State.mapSn] at h; cases h; exact hi
  | cons e rest ih =>
    simp only [State.mapSn] at h
    repeat' (split at h)
    all_goals first | (cases h; done) | skip
    rename_i s2 m2 hp
    have hi1 : TWI noD { s with queues := s.queues.set e.rq ‹Queue› } := ⟨hi.tw, hi.mnu⟩
    exact ih _ _ (placeAll_tw _ _ _ _ _ _ _ hi1 hp) h

theorem mapMnSets_tw (sets : List (List Nat)) (s s' : State) (rq : Nat) (acc acc' : List TaskId)
    (hi : TWI noD s) (h : s.mapMnSets rq sets acc = .ok (s', acc')) : TWI noD s' := by
  induction sets generalizing s acc with
  | nil => simp only [State.mapMnSets] at h; cases h; exact hi
  | cons ws rest ih =>
    simp only [State.mapMnSets] at h
    split at h
    · cases h
    · rename_i q hq
      split at h
      · cases h
      · rename_i p ids more hready
        split at h
        · cases h
        · rename_i id ids'
          split at h
          · cases h
          · rename_i s2 hset
            obtain ⟨a, b, c, d, e, f, g, k⟩ := setMnAll_spec _ _ _ _ _ hset
            split at h
            · cases h
            · rename_i task hgt
              split at h
              · cases h
              · rename_i hst0
                simp only [ne_eq, Decidable.not_not] at hst0
                have hft2 : findTask s2.tasks id = some task := getTask_spec hgt
                have hft : findTask s.tasks id = some task := by rw [a] at hft2; exact hft2
                have hid : task.id = id := findTask_some_id hft
                have hst := stOf_of_find hft
                have hnr := hi.tw.no_rd_of_state hst (by simp [hst0])
                have ht1 : findTask s.tasks ({ task with state := .runningMN ws } : Task).id = some task := by
                  rw [hid]; exact hft
                have hst1 := stOf_put (ts := s.tasks) ht1
                refine ih _ _ ⟨?_, ?_⟩ h
                · show TW3 noD (putTask s2.tasks _) s2.workers s2.redirects
                  rw [a, b]
                  change TW3 noD (putTask s.tasks _) s2.workers s.redirects
                  refine hi.tw.frame id (fun u _ => Or.inr (fun e => e)) (fun u hu => by rw [hst1, if_neg (by simpa [hid] using hu)])
                    (fun x u _ hx => by rw [e]; exact hx) (fun x u _ hx => by rw [f]; exact hx) ?_ (fun _ _ _ _ h => h)
                    ?_ ?_ ?_ ?_ ?_
                  · intro x u _ hx
                    rw [g]; split
                    · rename_i hxl; rw [k x hxl] at hx; cases hx
                    · exact hx
                  · intro w' v _ hs'
                    rw [hst1] at hs'
                    simp only [hid, if_true, Option.some.injEq] at hs'
                    rcases hs' with e' | e' <;> cases e'
                  · intro w' _ hs'
                    rw [hst1] at hs'
                    simp only [hid, if_true, Option.some.injEq] at hs'; cases hs'
                  · intro l _ hs' x hx
                    rw [hst1] at hs'
                    simp only [hid, if_true, Option.some.injEq, TS.runningMN.injEq] at hs'
                    subst hs'
                    rw [g, if_pos hx]
                  · intro w' v _ hm; exact absurd hm (hnr w' v)
                  · intro w' v hm; exact absurd hm (hnr w' v)
                · show MNU (putTask s2.tasks _) s2.workers
                  rw [a]
                  change MNU (putTask s.tasks _) s2.workers
                  intro t l hs' x hx
                  rw [hst1] at hs'
                  split at hs'
                  · rename_i e'
                    simp only [Option.some.injEq, TS.runningMN.injEq] at hs'
                    subst hs'
                    left; rw [g, if_pos hx, e', hid]
                  · -- another multi-node task: its workers are reserved for it, hence not among the free ones
                    have hxl : x ∉ ws := by
                      intro hxl
                      have := hi.tw.t3 t l (fun e => e) hs' x hx
                      rw [k x hxl] at this; cases this
                    rw [e, f, g, if_neg hxl]
                    exact hi.mnu t l hs' x hx

theorem mapMn_tw (es : List MnEntry) (s s' : State) (acc acc' : List TaskId)
    (hi : TWI noD s) (h : s.mapMn es acc = .ok (s', acc')) : TWI noD s' := by
  induction es generalizing s acc with
  | nil => simp only [State.mapMn] at h; cases h; exact hi
  | cons e rest ih =>
    simp only [State.mapMn] at h
    split at h
    · cases h
    · rename_i s1 acc1 h1
      exact ih _ _ (mapMnSets_tw _ _ _ _ _ _ hi h1) h

theorem prefillMark_tw (w : Nat) (l : List TaskId) (s s' : State)
    (hi : TWI noD s) (h : State.prefillWorker.mark w s l = .ok s') : TWI noD s' := by
  induction l generalizing s with
  | nil => simp only [State.prefillWorker.mark] at h; cases h; exact hi
  | cons id rest ih =>
    simp only [State.prefillWorker.mark] at h
    split at h
    · cases h
    · rename_i task hgt
      have hft : findTask s.tasks id = some task := getTask_spec hgt
      have hid : task.id = id := findTask_some_id hft
      have hst := stOf_of_find hft
      split at h
      · rename_i n hs
        split at h
        · cases h
        · rename_i s2 hw
          obtain ⟨wk, wk', hfw, hf, rfl⟩ := withWorker_spec hw
          obtain ⟨A, F, P, ha, hnm, rfl⟩ := insertPrefill_spec hf
          change findWorker s.workers w = some wk at hfw
          have hwid : wk.id = w := findWorker_some_id hfw
          have ht' : findTask s.tasks ({ task with state := .prefilled w } : Task).id = some task := by
            rw [hid]; exact hft
          have hfw' : findWorker s.workers ({ wk with assign := .sn A F (P ++ [id]) } : Worker).id = some wk := by
            simpa [hwid] using hfw
          have hnr := hi.tw.no_rd_of_state hst (by simp [hs])
          refine ih _ ?_ h
          obtain ⟨a, b⟩ := hi.tw.mv_sn hi.mnu (t' := { task with state := .prefilled w }) (wk := wk)
            (wk' := { wk with assign := .sn A F (P ++ [id]) }) (rd' := s.redirects) ht' hfw'
            (by simp [wMn, ha]) (by simp [wMn])
            (by intro u _ hu; simpa [wAsg, ha] using hu)
            (by intro u _ hu; simp only [wPre, ha] at hu ⊢; exact List.mem_append.mpr (Or.inl hu))
            (fun _ _ _ _ h => h) (by simp) (by intro w0 v0 hs'; simp at hs')
            (by
              intro w0 hs'
              simp only [TS.prefilled.injEq] at hs'
              rw [← hs', preW_put hfw']; simp [hwid, wPre, hid])
            (by intro w0 v0 hm'; exact absurd hm' (by simpa [hid] using hnr w0 v0))
          exact ⟨a, b⟩
      · cases h

theorem prefillWorker_tw {s s' : State} {m m' : List WUpdate} {rq size w : Nat}
    (hi : TWI noD s) (h : s.prefillWorker m rq size w = .ok (s', m')) : TWI noD s' := by
  simp only [State.prefillWorker] at h
  repeat' (split at h)
  all_goals first | (cases h; done) | skip
  rename_i s2 keep hb _ s3 hm
  cases h
  obtain ⟨a, _, _⟩ := prefillBack_spec _ _ _ _ _ _ hb
  exact prefillMark_tw _ _ _ _ (a.twi ⟨hi.tw, hi.mnu⟩) hm

theorem prefillWorkers_tw (ws : List Nat) (s s' : State) (m m' : List WUpdate) (rq size : Nat)
    (hi : TWI noD s) (h : s.prefillWorkers m rq size ws = .ok (s', m')) : TWI noD s' := by
  induction ws generalizing s m with
  | nil => simp only [State.prefillWorkers] at h; cases h; exact hi
  | cons w rest ih =>
    simp only [State.prefillWorkers] at h
    split at h
    · cases h
    · rename_i s1 m1 h1
      exact ih _ _ (prefillWorker_tw hi h1) h

theorem proactive_tw (n : Nat) (s s' : State) (m m' : List WUpdate) (orders : List (Nat × List Nat)) (top : Int)
    (rq : Nat) (hi : TWI noD s) (h : s.proactive m orders top n rq = .ok (s', m')) : TWI noD s' := by
  induction n generalizing s m rq with
  | zero => simp only [State.proactive] at h; cases h; exact hi
  | succ k ih =>
    simp only [State.proactive] at h
    repeat' (split at h)
    all_goals first
      | (cases h; done)
      | (cases h; exact hi)
      | exact ih _ _ _ hi h
      | (rename_i s1 m1 h1
         exact ih _ _ _ (prefillWorkers_tw _ _ _ _ _ _ _ hi h1) h)

theorem schedule_tw {s s' : State} {sol : Solution} {o : Out} (hi : TWI noD s)
    (h : s.schedule sol = .ok (s', o)) : TWI noD s' := by
  simp only [State.schedule] at h
  split at h
  · cases h
  · rename_i s1 m1 h1
    have a1 := mapSn_tw _ _ _ _ _ _ hi h1
    split at h
    · cases h
    · rename_i s2 mnTasks h2
      have a2 := mapMn_tw _ _ _ _ _ a1 h2
      split at h
      · cases h
      · rename_i s3 m3 h3
        have a3 : TWI noD s3 := by
          split at h3
          · cases h3; exact a2
          · exact proactive_tw _ _ _ _ _ _ _ _ a2 h3
        split at h
        · cases h
        · split at h
          · cases h
          · cases h
            exact ⟨a3.tw, a3.mnu⟩

end HqModel.Core
