import HqModel.Lemmas.SysWCore
/-!
The `ComputeTasks` items of the messages of a core operation: `cfor w t msgs` = the items for task `t` in the messages
addressed to worker `w` (what `routeMsgs` appends to `comps t` of that worker's queue). Most reactor functions send
no `ComputeTasks` at all (`NoCompute`): `retract`, `on_cancel_tasks`, `task_failed`, `task_finished`, `task_running`,
`on_new_tasks`, the crash loop.
-/
namespace HqModel.SysW
open HqModel HqModel.Core

def isCompute : Core.Msg → Bool
  | .compute .. => true
  | _ => false

def NoCompute (msgs : List Core.Msg) : Prop := ∀ m ∈ msgs, isCompute m = false

theorem NoCompute.nil : NoCompute [] := fun _ h => by cases h

theorem NoCompute.append {a b : List Core.Msg} (ha : NoCompute a) (hb : NoCompute b) : NoCompute (a ++ b) := by
  intro m hm
  rcases List.mem_append.mp hm with h | h
  · exact ha m h
  · exact hb m h

theorem NoCompute.map_retract {α : Type} (l : List α) (f : α → Nat) (g : α → List TaskId) :
    NoCompute (l.map fun p => Core.Msg.retract (f p) (g p)) := by
  intro m hm
  obtain ⟨p, _, rfl⟩ := List.mem_map.mp hm
  rfl

theorem NoCompute.map_cancel {α : Type} (l : List α) (f : α → Nat) (g : α → List TaskId) :
    NoCompute (l.map fun p => Core.Msg.cancel (f p) (g p)) := by
  intro m hm
  obtain ⟨p, _, rfl⟩ := List.mem_map.mp hm
  rfl

/-- the items for `t` in the messages for `w` -/
def cfor (w : Nat) (t : TaskId) (msgs : List Core.Msg) : List (Option Nat) := comps t (msgs.filterMap (msgFor w))

theorem comps_append (t : TaskId) (a b : List S2W) : comps t (a ++ b) = comps t a ++ comps t b := by
  simp [comps]

theorem pend_append (t : TaskId) (a b : List W2S) : pend t (a ++ b) = pend t a ++ pend t b := by
  simp [pend]

theorem cfor_nil (w : Nat) (t : TaskId) : cfor w t [] = [] := rfl

theorem cfor_append (w : Nat) (t : TaskId) (a b : List Core.Msg) : cfor w t (a ++ b) = cfor w t a ++ cfor w t b := by
  simp [cfor, comps_append]

theorem cfor_cons (w : Nat) (t : TaskId) (m : Core.Msg) (ms : List Core.Msg) :
    cfor w t (m :: ms) = cfor w t [m] ++ cfor w t ms := cfor_append w t [m] ms

theorem cfor_noCompute {w : Nat} {t : TaskId} {msgs : List Core.Msg} (h : NoCompute msgs) : cfor w t msgs = [] := by
  induction msgs with
  | nil => rfl
  | cons m ms ih =>
    rw [cfor_cons, ih (fun x hx => h x (List.mem_cons_of_mem _ hx)), List.append_nil]
    have := h m List.mem_cons_self
    cases m with
    | compute w' items => cases this
    | retract w' ids => by_cases hw : w' = w <;> simp [cfor, msgFor, hw, comps, compsOfMsg]
    | cancel w' ids => by_cases hw : w' = w <;> simp [cfor, msgFor, hw, comps, compsOfMsg]

/-- one `ComputeTasks` message -/
theorem cfor_compute (w : Nat) (t : TaskId) (w' : Nat) (items : List (TaskId × Nat × Option Nat × List Nat)) :
    cfor w t [.compute w' items] = if w' = w then (items.filter fun it => it.1 = t).map (·.2.2.1) else [] := by
  by_cases hw : w' = w <;> simp [cfor, msgFor, hw, comps, compsOfMsg]

theorem Out.add_msgs (a b : Core.Out) : (a.add b).msgs = a.msgs ++ b.msgs := rfl

/-! ### functions that send no `ComputeTasks` -/

theorem retract_noCompute {s s' : Core.State} {l : List TaskId} {o : Core.Out} (h : s.retract l = .ok (s', o)) :
    NoCompute o.msgs := by
  simp only [State.retract] at h
  split at h
  · cases h
  · cases h; exact NoCompute.map_retract _ _ _

theorem cancelTasks_noCompute {s s' : Core.State} {ids : List TaskId} {o : Core.Out}
    (h : s.cancelTasks ids = .ok (s', o)) : NoCompute o.msgs := by
  simp only [State.cancelTasks] at h
  split at h
  · cases h
  · split at h
    · cases h
    · cases h; exact NoCompute.map_cancel _ _ _

theorem taskFailed_noCompute {s s' : Core.State} {worker : Option Nat} {id : TaskId} {ret : List TaskId} {o : Core.Out}
    (h : s.taskFailed worker id ret = .ok (s', o)) : NoCompute o.msgs := by
  simp only [State.taskFailed] at h
  split at h
  · cases h; exact NoCompute.nil
  · split at h
    · cases h
    · rename_i s1 hpre
      split at h
      · cases h
      · split at h
        · cases h
        · split at h
          · cases h
          · clear hpre
            repeat' split at h
            all_goals first
              | (cases h; done)
              | (cases h; exact NoCompute.nil)
              | (cases h; rw [Out.add_msgs]; exact NoCompute.nil.append (cancelTasks_noCompute (by assumption)))

theorem taskRunning_msgs {s s' : Core.State} {w : Nat} {id : TaskId} {rv : Nat} {o : Core.Out}
    (h : s.taskRunning w id rv = .ok (s', o)) : o.msgs = [] := by
  simp only [State.taskRunning] at h
  repeat' split at h
  all_goals first
    | (cases h; done)
    | (cases h; rfl)

theorem taskFinished_noCompute {s s' : Core.State} {w : Nat} {id : TaskId} {o : Core.Out} {b : Bool}
    (h : s.taskFinished w id = .ok (s', o, b)) : NoCompute o.msgs := by
  simp only [State.taskFinished] at h
  split at h
  · cases h; exact NoCompute.nil
  · split at h
    · cases h
    · split at h
      · cases h
      · split at h
        · cases h
        · rename_i s4 out h4
          split at h
          · cases h
          · split at h
            · cases h
            · cases h
              rw [Out.add_msgs]
              exact NoCompute.nil.append (retract_noCompute h4)

theorem newTasks_noCompute {s s' : Core.State} {nts : List NewTask} {o : Core.Out}
    (h : s.newTasks nts = .ok (s', o)) : NoCompute o.msgs := by
  simp only [State.newTasks] at h
  split at h
  · cases h
  · split at h
    · cases h
    · split at h
      · cases h
      · rename_i s2 out hr
        cases h
        exact retract_noCompute hr

theorem crashLoop_msgs (ids : List TaskId) (s s' : Core.State) (f : Bool) (rets : List (List TaskId)) (o o' : Core.Out)
    (h : s.crashLoop f ids rets o = .ok (s', o')) : ∃ extra, o'.msgs = o.msgs ++ extra ∧ NoCompute extra := by
  induction ids generalizing s rets o with
  | nil => simp only [State.crashLoop] at h; cases h; exact ⟨[], by simp, NoCompute.nil⟩
  | cons id rest ih =>
    simp only [State.crashLoop] at h
    split at h
    · exact ih _ _ _ h
    · split at h
      · split at h
        · cases h
        · rename_i s2 o2 h2
          obtain ⟨extra, e1, e2⟩ := ih _ _ _ h
          refine ⟨o2.msgs ++ extra, ?_, (taskFailed_noCompute h2).append e2⟩
          rw [e1, Out.add_msgs, List.append_assoc]
      · exact ih _ _ _ h

end HqModel.SysW
