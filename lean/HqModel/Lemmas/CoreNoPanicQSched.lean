import HqModel.Lemmas.CoreNoPanicQTake
/-!
C09 progress, queue correspondence `NpQ`, part B1: index forms of `NpQ`, the two frame lemmas
(`npq_out`: a task that is in no queue changes; `npq_queue_set`: one queue shrinks) and the single-node half of a
scheduling round (`placeSn`, `placeAll`, `mapSn`).

Status (everything below is proved, no `sorry`; `R = []` throughout):

* `NoQ s id` — `id` is in no queue (ready list or prefill set) of `s`.
* `NpQ.wf'`, `NpQ.rgp`, `NpQ.pnd'`, `NpQ.pin'`, `NpQ.qIds_nodup`, `npq_mk` — index / lookup forms of the clauses.
* `ReadyGood.of_eq`, `PfGood.of_eq`, `InPrefill.of_queues` — what the clauses depend on.
* `npq_out` : `NpQ D [] s`, `id` in no queue, `s'` differs from `s` only in the record of `id` (not Prefilled in `s'`),
  the workers and redirects for `id` → `NpQ (fun x => D x ∧ x ≠ id) [] s'`.
* `npq_queue_set` : `NpQ D [] s`, queue `i` replaced by `q'` with pairs ⊆ pairs, prefill ⊆ prefill (same `pp`), the
  lost prefill ids are in `D'` ⊇ `D` → `NpQ D' [] { s with queues := s.queues.set i q' }`.
* `noQ_of_set` : ids of `q` that are not in `q'` are in no queue after the replacement.
* `placeSnBody_frame`, `placeSn_npq`, `placeAll_npq`, `mapSnEntry_npq`, `mapSn_npq` (no `SnOk` needed: a successful
  `take_tasks` returns exactly `Σ counts` ids, so `deal` places every one of them).
-/
namespace HqModel.Core.NPD

open NP

/-- `id` is in no queue -/
def NoQ (s : State) (id : TaskId) : Prop := ∀ q ∈ s.queues, id ∉ qIds q

theorem NoQ.of_queues {s s' : State} {id : TaskId} (h : NoQ s id) (hq : s'.queues = s.queues) : NoQ s' id := by
  unfold NoQ; rw [hq]; exact h

/-! ### index forms -/

theorem _root_.HqModel.Core.NpQ.wf' {D R} {s : State} (h : NpQ D R s) {i : Nat} {q : Queue}
    (hq : s.queues[i]? = some q) : ReadyWf q.ready := h.wf q (mem_of_get hq)

theorem _root_.HqModel.Core.NpQ.pnd' {D R} {s : State} (h : NpQ D R s) {i : Nat} {q : Queue}
    (hq : s.queues[i]? = some q) : (pfIds q).Nodup := h.pnd q (mem_of_get hq)

theorem _root_.HqModel.Core.NpQ.rgp {D R} {s : State} (h : NpQ D R s) {i : Nat} {q : Queue}
    (hq : s.queues[i]? = some q) {x : Int × TaskId} (hx : x ∈ rPairs q.ready) : ReadyGood R s i x.1 x.2 := by
  obtain ⟨p, id⟩ := x
  obtain ⟨e, he, rfl, hm⟩ := mem_rPairs.mp hx
  exact h.rg' hq he hm

theorem _root_.HqModel.Core.NpQ.pin' {D R} {s : State} (h : NpQ D R s) {id : TaskId} {t : Task}
    (ht : s.task? id = some t) (hp : ∃ w, t.state = .prefilled w) (hr : id ∉ R) (hd : ¬ D id) : InPrefill s t := by
  have hid : t.id = id := findTask_some_id ht
  exact h.pin t (findTask_some_mem ht) hp (by rw [hid]; exact hr) (by rw [hid]; exact hd)

/-- all ids of a queue are distinct -/
theorem _root_.HqModel.Core.NpQ.qIds_nodup {D R} {s : State} (h : NpQ D R s) {i : Nat} {q : Queue}
    (hq : s.queues[i]? = some q) : (qIds q).Nodup := by
  rw [qIds_eq', List.nodup_append]
  refine ⟨h.ready_nodup hq, h.pnd' hq, ?_⟩
  intro a ha b hb e
  subst e
  exact h.ready_prefill_disjoint hq ha hb

theorem npq_mk {D : TaskId → Prop} {s : State} (hn : (taskIds s.tasks).Nodup)
    (wf : ∀ (i : Nat) (q : Queue), s.queues[i]? = some q → ReadyWf q.ready)
    (rg : ∀ (i : Nat) (q : Queue), s.queues[i]? = some q → ∀ x ∈ rPairs q.ready, ReadyGood [] s i x.1 x.2)
    (pnd : ∀ (i : Nat) (q : Queue), s.queues[i]? = some q → (pfIds q).Nodup)
    (pg : ∀ (i : Nat) (q : Queue), s.queues[i]? = some q → ∀ pp ts, q.prefill = some (pp, ts) → ∀ id ∈ ts, PfGood [] s i pp id)
    (pin : ∀ id t, s.task? id = some t → (∃ w, t.state = .prefilled w) → ¬ D id → InPrefill s t) : NpQ D [] s := by
  refine ⟨?_, ?_, ?_, ?_, ?_, List.nodup_nil, fun _ h => by cases h⟩
  · intro q hq
    obtain ⟨i, hi⟩ := List.mem_iff_getElem?.mp hq
    exact wf i q hi
  · intro p hp e he id hid
    exact rg p.2 p.1 (List.mem_zipIdx_iff_getElem?.mp hp) (e.1, id) (mem_rPairs.mpr ⟨e, he, rfl, hid⟩)
  · intro q hq
    obtain ⟨i, hi⟩ := List.mem_iff_getElem?.mp hq
    exact pnd i q hi
  · intro p hp pp ts hpf id hid
    exact pg p.2 p.1 (List.mem_zipIdx_iff_getElem?.mp hp) pp ts hpf id hid
  · intro t ht hp _ hd
    exact pin t.id t (mem_find_of_nodup hn ht) hp hd

/-! ### what the clauses depend on -/

theorem _root_.HqModel.Core.ReadyGood.of_eq {R} {s s' : State} {i : Nat} {p : Int} {id : TaskId}
    (h : ReadyGood R s i p id) (ht : s'.task? id = s.task? id)
    (hrd : ∀ x ∈ s'.redirects, x.1 = id → x ∈ s.redirects) : ReadyGood R s' i p id := by
  obtain ⟨t, ht0, hrq, hp, hs⟩ := h.elim
  refine ReadyGood.intro (ht.trans ht0) hrq hp ?_
  rcases hs with hs | ⟨hs, h2⟩ | hs
  · exact Or.inl hs
  · exact Or.inr (Or.inl ⟨hs, fun x hx e => h2 x (hrd x hx e) e⟩)
  · exact Or.inr (Or.inr hs)

theorem _root_.HqModel.Core.PfGood.of_eq {R} {s s' : State} {i : Nat} {pp : Int} {id : TaskId}
    (h : PfGood R s i pp id) (ht : s'.task? id = s.task? id) : PfGood R s' i pp id := by
  obtain ⟨t, w, ht0, hrq, hp, hr, hs⟩ := h.elim
  exact PfGood.intro (ht.trans ht0) hrq hp hr hs

theorem _root_.HqModel.Core.InPrefill.of_queues {s s' : State} {t : Task} (h : InPrefill s t)
    (hq : s'.queues = s.queues) : InPrefill s' t := by
  unfold InPrefill at h ⊢; rw [hq]; exact h

/-- `InPrefill` looks only at the request and the id of the record -/
theorem _root_.HqModel.Core.InPrefill.of_rec {s : State} {t t' : Task} (h : InPrefill s t)
    (hr : t'.rq = t.rq) (hi : t'.id = t.id) : InPrefill s t' := by
  unfold InPrefill at h ⊢; rw [hr, hi]; exact h

/-! ### frame 1: a task that is in no queue changes -/

theorem npq_out {D : TaskId → Prop} {s s' : State} {id : TaskId} (h : NpQ D [] s) (hn' : (taskIds s'.tasks).Nodup)
    (hq : s'.queues = s.queues) (hno : NoQ s id)
    (ht : ∀ x, x ≠ id → s'.task? x = s.task? x)
    (hid : ∀ t, s'.task? id = some t → ¬ ∃ w, t.state = .prefilled w)
    (hrd : ∀ x ∈ s'.redirects, x.1 ≠ id → x ∈ s.redirects) :
    NpQ (fun x => D x ∧ x ≠ id) [] s' := by
  have hne : ∀ (i : Nat) (q : Queue), s.queues[i]? = some q → ∀ x ∈ qIds q, x ≠ id := by
    intro i q hi x hx e
    subst e
    exact hno q (mem_of_get hi) hx
  refine npq_mk hn' ?_ ?_ ?_ ?_ ?_
  · intro i q hi; rw [hq] at hi; exact h.wf' hi
  · intro i q hi x hx
    rw [hq] at hi
    have hx' : x.2 ∈ qIds q := by
      rw [qIds_eq']; exact List.mem_append.mpr (Or.inl (mem_rIds_iff_pairs.mpr ⟨x.1, hx⟩))
    have hxne := hne i q hi x.2 hx'
    exact (h.rgp hi hx).of_eq (ht _ hxne) (fun y hy e => hrd y hy (by rw [e]; exact hxne))
  · intro i q hi; rw [hq] at hi; exact h.pnd' hi
  · intro i q hi pp ts hpf x hx
    rw [hq] at hi
    have hx' : x ∈ qIds q := by
      rw [qIds_eq']; exact List.mem_append.mpr (Or.inr (by simp only [pfIds, hpf]; exact hx))
    exact (h.pg' hi hpf hx).of_eq (ht _ (hne i q hi x hx'))
  · intro x t hxt hp hd
    by_cases e : x = id
    · subst e; exact absurd hp (hid t hxt)
    · rw [ht x e] at hxt
      exact (h.pin' hxt hp (by simp) (fun hD => hd ⟨hD, e⟩)).of_queues hq

/-! ### frame 2: one queue shrinks -/

theorem npq_queue_set {D D' : TaskId → Prop} {s : State} {i : Nat} {q q' : Queue} (h : NpQ D [] s)
    (hn : (taskIds s.tasks).Nodup) (hq : s.queues[i]? = some q)
    (wf : ReadyWf q'.ready) (pairs : ∀ x ∈ rPairs q'.ready, x ∈ rPairs q.ready) (pnd : (pfIds q').Nodup)
    (pf : ∀ pp ts, q'.prefill = some (pp, ts) → ∃ ts0, q.prefill = some (pp, ts0) ∧ ∀ id ∈ ts, id ∈ ts0)
    (cov : ∀ id ∈ pfIds q, id ∈ pfIds q' ∨ D' id) (hD : ∀ x, D x → D' x) :
    NpQ D' [] { s with queues := s.queues.set i q' } := by
  have hlt : i < s.queues.length := by
    obtain ⟨hl, _⟩ := List.getElem?_eq_some_iff.mp hq; exact hl
  have hget : ∀ (j : Nat) (qq : Queue), (s.queues.set i q')[j]? = some qq → (j = i ∧ qq = q') ∨ (j ≠ i ∧ s.queues[j]? = some qq) := by
    intro j qq hj
    rw [List.getElem?_set] at hj
    split at hj
    · rename_i e
      simp only [Option.some.injEq] at hj
      exact Or.inl ⟨e.symm, hj.symm⟩
    · rename_i e
      exact Or.inr ⟨fun e' => e e'.symm, hj⟩
  refine npq_mk hn ?_ ?_ ?_ ?_ ?_
  · intro j qq hj
    rcases hget j qq hj with ⟨_, rfl⟩ | ⟨_, hj'⟩
    · exact wf
    · exact h.wf' hj'
  · intro j qq hj x hx
    rcases hget j qq hj with ⟨rfl, rfl⟩ | ⟨_, hj'⟩
    · exact (h.rgp hq (pairs x hx)).of_eq rfl (fun _ hy _ => hy)
    · exact (h.rgp hj' hx).of_eq rfl (fun _ hy _ => hy)
  · intro j qq hj
    rcases hget j qq hj with ⟨_, rfl⟩ | ⟨_, hj'⟩
    · exact pnd
    · exact h.pnd' hj'
  · intro j qq hj pp ts hpf x hx
    rcases hget j qq hj with ⟨rfl, rfl⟩ | ⟨_, hj'⟩
    · obtain ⟨ts0, h0, hs⟩ := pf pp ts hpf
      exact (h.pg' hq h0 (hs x hx)).of_eq rfl
    · exact (h.pg' hj' hpf hx).of_eq rfl
  · intro x t hxt hp hd
    have hin := h.pin' (s := s) hxt hp (by simp) (fun e => hd (hD x e))
    obtain ⟨q0, pp, ts, hq0, hp0, hm⟩ := hin.elim
    have hid : t.id = x := findTask_some_id hxt
    by_cases e : t.rq = i
    · rw [e, hq] at hq0
      cases hq0
      have hmem : t.id ∈ pfIds q := by simp only [pfIds, hp0]; exact hm
      rcases cov t.id hmem with c | c
      · unfold InPrefill
        show (match (s.queues.set i q')[t.rq]? with | some q => t.id ∈ pfIds q | none => False)
        rw [e, List.getElem?_set_self hlt]
        exact c
      · rw [hid] at c; exact absurd c hd
    · unfold InPrefill
      show (match (s.queues.set i q')[t.rq]? with | some q => t.id ∈ pfIds q | none => False)
      rw [List.getElem?_set_ne (fun e' => e e'.symm), hq0]
      simp only [pfIds, hp0]; exact hm

/-- the ids of queue `i` that are not in the new queue are in no queue after the replacement -/
theorem noQ_of_set {D : TaskId → Prop} {s : State} {i : Nat} {q q' : Queue} (h : NpQ D [] s)
    (hq : s.queues[i]? = some q) {id : TaskId} (hin : id ∈ qIds q) (hout : id ∉ qIds q') :
    NoQ { s with queues := s.queues.set i q' } id := by
  intro qq hqq hm
  obtain ⟨j, hj⟩ := List.mem_iff_getElem?.mp hqq
  change (s.queues.set i q')[j]? = some qq at hj
  rw [List.getElem?_set] at hj
  split at hj
  · split at hj
    · cases hj; exact hout hm
    · cases hj
  · rename_i e
    exact e (h.queue_unique hq hj hin hm)

/-! ### `placeSn` -/

theorem withWorker_frame {s s' : State} {w : Nat} {f : Worker → M Worker} (h : s.withWorker w f = .ok s') :
    s'.tasks = s.tasks ∧ s'.queues = s.queues ∧ s'.redirects = s.redirects := by
  obtain ⟨wk, wk', _, _, rfl⟩ := withWorker_spec h
  exact ⟨rfl, rfl, rfl⟩

theorem task?_setTask (s : State) (t' : Task) (x : TaskId) :
    (s.setTask t').task? x = if x = t'.id then (s.task? x).map (fun _ => t') else s.task? x :=
  findTask_putTask s.tasks t' x

theorem placeSnBody_frame {s s' : State} {m m' : List WUpdate} {v : Nat} {r : Rq} {id : TaskId} {w : Nat}
    (h : s.placeSnBody m v r id w = .ok (s', m')) :
    s'.queues = s.queues ∧ (∀ x, x ≠ id → s'.task? x = s.task? x) ∧
    (∀ t, s'.task? id = some t → ¬ ∃ w, t.state = .prefilled w) ∧
    (∀ x ∈ s'.redirects, x.1 ≠ id → x ∈ s.redirects) := by
  simp only [State.placeSnBody] at h
  split at h
  · cases h
  · rename_i s1 hw1
    obtain ⟨t1, q1, r1⟩ := withWorker_frame hw1
    split at h
    · cases h
    · rename_i task hgt
      have ht : s1.task? id = some task := getTask_spec hgt
      have hid : task.id = id := findTask_some_id ht
      have hts : ∀ x, s1.task? x = s.task? x := fun x => by simp only [State.task?, t1]
      split at h
      · -- Waiting → Assigned
        cases h
        refine ⟨q1, ?_, ?_, ?_⟩
        · intro x hx
          rw [task?_setTask]
          simp only [hid, hx, if_false]; exact hts x
        · intro t ht'
          rw [task?_setTask] at ht'
          simp only [hid, if_true, ht, Option.map_some, Option.some.injEq] at ht'
          subst ht'
          rintro ⟨w0, e⟩; cases e
        · intro x hx _; exact r1 ▸ hx
      · rename_i old hs
        split at h
        · split at h
          · cases h
          · split at h
            · cases h
            · rename_i s3 hw2
              cases h
              obtain ⟨t3, q3, r3⟩ := withWorker_frame hw2
              refine ⟨q3.trans q1, ?_, ?_, ?_⟩
              · intro x hx
                rw [task?_setTask]
                simp only [hid, hx, if_false]
                simp only [State.task?, t3]; exact hts x
              · intro t ht'
                rw [task?_setTask] at ht'
                simp only [hid, if_true] at ht'
                have : (s3.task? id) = some task := by simp only [State.task?, t3]; exact ht
                rw [this] at ht'
                simp only [Option.map_some, Option.some.injEq] at ht'
                subst ht'
                rintro ⟨w0, e⟩; cases e
              · intro x hx hne
                change x ∈ s3.redirects at hx
                rw [r3] at hx
                rcases List.mem_append.mp hx with a | a
                · rw [← r1]; exact (List.mem_filter.mp a).1
                · simp only [List.mem_singleton] at a; subst a; exact absurd rfl hne
        · cases h
          refine ⟨q1, fun x _ => hts x, ?_, ?_⟩
          · intro t ht'
            change s1.task? id = some t at ht'
            rw [ht] at ht'; cases ht'
            rintro ⟨w0, e⟩; rw [hs] at e; cases e
          · intro x hx hne
            rcases List.mem_append.mp hx with a | a
            · rw [← r1]; exact (List.mem_filter.mp a).1
            · simp only [List.mem_singleton] at a; subst a; exact absurd rfl hne
      · rename_i old hs
        split at h
        · cases h
        · rename_i s2 hw2
          obtain ⟨t2, q2, r2⟩ := withWorker_frame hw2
          split at h
          · cases h
          · cases h
            refine ⟨q2.trans q1, ?_, ?_, ?_⟩
            · intro x hx
              rw [task?_setTask]
              simp only [hid, hx, if_false]
              simp only [State.task?, t2]; exact hts x
            · intro t ht'
              rw [task?_setTask] at ht'
              simp only [hid, if_true] at ht'
              have : (State.task? { s2 with redirects := s2.redirects ++ [(id, w, v)] } id) = some task := by
                simp only [State.task?, t2]; exact ht
              rw [this] at ht'
              simp only [Option.map_some, Option.some.injEq] at ht'
              subst ht'
              rintro ⟨w0, e⟩; cases e
            · intro x hx hne
              change x ∈ s2.redirects ++ [(id, w, v)] at hx
              rcases List.mem_append.mp hx with a | a
              · rw [← r1, ← r2]; exact a
              · simp only [List.mem_singleton] at a; subst a; exact absurd rfl hne
      · cases h

theorem placeSn_npq {D : TaskId → Prop} {s s' : State} {m m' : List WUpdate} {v : Nat} {r : Rq} {id : TaskId} {w : Nat}
    (h : NpQ D [] s) (hn : (taskIds s.tasks).Nodup) (hno : NoQ s id)
    (hp : s.placeSn m v r id w = .ok (s', m')) :
    NpQ (fun x => D x ∧ x ≠ id) [] s' ∧ s'.queues = s.queues := by
  have hb := (placeSn_ok hp).1
  obtain ⟨a, b, c, d⟩ := placeSnBody_frame hb
  have hn' : (taskIds s'.tasks).Nodup := by rw [placeSnBody_stable hb]; exact hn
  exact ⟨npq_out h hn' a hno b c d, a⟩

theorem placeAll_npq (l : List (TaskId × Nat)) {D : TaskId → Prop} (s s' : State) (m m' : List WUpdate) (v : Nat)
    (r : Rq) (h : NpQ D [] s) (hn : (taskIds s.tasks).Nodup) (hno : ∀ p ∈ l, NoQ s p.1)
    (hp : s.placeAll m v r l = .ok (s', m')) :
    NpQ (fun x => D x ∧ x ∉ l.map (·.1)) [] s' ∧ s'.queues = s.queues := by
  induction l generalizing s m D with
  | nil =>
    simp only [State.placeAll] at hp; cases hp
    exact ⟨h.mono (fun x hx => ⟨hx, by simp⟩), rfl⟩
  | cons p rest ih =>
    obtain ⟨id, w⟩ := p
    simp only [State.placeAll] at hp
    split at hp
    · cases hp
    · rename_i s1 m1 h1
      obtain ⟨a, b⟩ := placeSn_npq h hn (hno (id, w) List.mem_cons_self) h1
      have hn1 : (taskIds s1.tasks).Nodup := by rw [placeSn_stable h1]; exact hn
      obtain ⟨c, d⟩ := ih s1 m1 a hn1 (fun p hp => (hno p (List.mem_cons_of_mem _ hp)).of_queues b) hp
      refine ⟨c.mono ?_, d.trans b⟩
      intro x hx
      simp only [List.map_cons, List.mem_cons, not_or]
      exact ⟨hx.1.1, hx.1.2, hx.2⟩

/-! ### `mapSn` -/

/-- one `sn_counts` entry: `take_tasks`, then the placements of `deal` -/
theorem mapSnEntry_npq {D : TaskId → Prop} {s s2 : State} {m m2 : List WUpdate} {e : SnEntry} {r : Rq} {q q' : Queue}
    (h : NpQ D [] s) (hn : (taskIds s.tasks).Nodup) (hq : s.queues[e.rq]? = some q)
    (htk : q.takeTasks (e.counts.map (·.2)).sum e.taken = .ok q')
    (hp : State.placeAll { s with queues := s.queues.set e.rq q' } m e.v r
      (deal (e.taken.length + 1) e.counts e.taken []) = .ok (s2, m2)) : NpQ D [] s2 := by
  have hqn := h.qIds_nodup hq
  have sp := takeTasks_spec (h.wf' hq) hqn htk
  have h1 : NpQ (fun x => D x ∨ x ∈ e.taken) [] { s with queues := s.queues.set e.rq q' } :=
    npq_queue_set h hn hq sp.wf sp.pairs (sp.pnd hqn) sp.pf
      (fun id hid => (sp.coverP id hid).imp (fun a => a) (fun a => Or.inr a)) (fun x hx => Or.inl hx)
  have hno : ∀ p ∈ deal (e.taken.length + 1) e.counts e.taken [],
      NoQ { s with queues := s.queues.set e.rq q' } p.1 := by
    intro p hp
    have hm := (deal_mem hp).1
    exact noQ_of_set h hq (sp.tsub _ hm) (sp.disj hqn _ hm)
  obtain ⟨a, _⟩ := placeAll_npq _ _ _ _ _ _ _ h1 hn hno hp
  refine a.mono ?_
  intro x hx
  rw [deal_complete (by rw [sp.len]; exact Nat.le_refl _) (Nat.lt_succ_self _)] at hx
  rcases hx.1 with c | c
  · exact c
  · exact absurd c hx.2

theorem mapSn_npq (es : List SnEntry) {D : TaskId → Prop} (s s' : State) (now : Nat) (m m' : List WUpdate)
    (h : NpQ D [] s) (hn : (taskIds s.tasks).Nodup) (hp : s.mapSn now m es = .ok (s', m')) : NpQ D [] s' := by
  induction es generalizing s m with
  | nil => simp only [State.mapSn] at hp; cases hp; exact h
  | cons e rest ih =>
    simp only [State.mapSn] at hp
    split at hp
    · cases hp
    · rename_i r hr
      split at hp
      · cases hp
      · split at hp
        · cases hp
        · rename_i q hq
          split at hp
          · cases hp
          · rename_i q' htk
            split at hp
            · cases hp
            · rename_i s2 m2 hpl
              have h2 := mapSnEntry_npq h hn hq htk hpl
              have hn2 : (taskIds s2.tasks).Nodup := by
                rw [placeAll_ids _ _ _ _ _ _ _ hpl]; exact hn
              exact ih s2 m2 h2 hn2 hp

end HqModel.Core.NPD
