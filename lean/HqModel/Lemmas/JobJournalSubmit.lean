import HqModel.Lemmas.JobJournalRec
/-!
# Submits: what `validate_submit` + `attach_submit` + the id filling guarantee is what `submitOk` asks for
-/
namespace HqModel.Emit
open HqModel.Job HqModel.Journal

/-! ### `attach_submit` -/

theorem not_mem_keys_of_lookup_none {ts : List (Nat × Job.TState)} {t : Nat} (h : lookup ts t = none) :
    t ∉ keys ts := by
  induction ts with
  | nil => simp [keys]
  | cons p ps ih =>
    obtain ⟨k, v⟩ := p
    by_cases hk : k = t
    · simp [lookup, hk] at h
    · simp only [lookup, hk, if_false] at h
      simp only [keys, List.map_cons, List.mem_cons, not_or]
      exact ⟨fun e => hk e.symm, ih h⟩

theorem lookup_append_list (l m : List (Nat × Job.TState)) (k : Nat) :
    lookup (l ++ m) k = match lookup l k with
      | some x => some x
      | none => lookup m k := by
  induction l with
  | nil => simp [lookup]
  | cons p ps ih =>
    obtain ⟨q, w⟩ := p
    by_cases hq : q = k
    · simp [lookup, hq]
    · simp only [List.cons_append, lookup, hq, if_false, ih]

theorem lookup_map_waiting {ids : List Nat} {k : Nat} (h : k ∈ ids) :
    lookup (ids.map (·, Job.TState.waiting)) k = some .waiting := by
  induction ids with
  | nil => cases h
  | cons i is ih =>
    by_cases hi : i = k
    · simp [lookup, hi]
    · simp only [List.mem_cons] at h
      rcases h with h | h
      · exact absurd h.symm hi
      · simp only [List.map_cons, lookup, hi, if_false]
        exact ih h

theorem attach_spec : ∀ (ids : List Nat) {job job' : Job}, job.attach ids = .ok job' →
    ids.Nodup ∧ (∀ i ∈ ids, lookup job.tasks i = none) ∧ job'.tasks = job.tasks ++ ids.map (·, .waiting)
  | [], job, job', e => by simp only [Job.attach] at e; cases e; simp
  | t :: rest, job, job', e => by
    simp only [Job.attach] at e
    split at e
    · cases e
    · rename_i hl
      obtain ⟨hnd, hnone, htasks⟩ := attach_spec rest e
      simp only at hnone htasks
      have hfree : ∀ i ∈ rest, i ≠ t ∧ lookup job.tasks i = none := by
        intro i hi
        have := hnone i hi
        rw [lookup_append] at this
        cases hli : lookup job.tasks i with
        | some x => rw [hli] at this; cases this
        | none =>
          rw [hli] at this
          simp only at this
          refine ⟨fun e => ?_, rfl⟩
          rw [if_pos e.symm] at this; cases this
      refine ⟨List.nodup_cons.mpr ⟨fun hm => (hfree t hm).1 rfl, hnd⟩, ?_, ?_⟩
      · intro i hi
        simp only [List.mem_cons] at hi
        rcases hi with rfl | hi
        · exact hl
        · exact (hfree i hi).2
      · rw [htasks]; simp

/-! ### the tasks a submit adds to the meaning -/

theorem specTasks_ids (d : Job.TaskDesc) : (descOf d).specTasks.map (·.id) = d.jobIds := by
  cases d with
  | array ids entries => simp [descOf, TaskDesc.specTasks, Job.TaskDesc.jobIds, List.map_map, Function.comp_def]
  | graph g => simp [descOf, TaskDesc.specTasks, Job.TaskDesc.jobIds, List.map_map, Function.comp_def]

theorem specTasks_new {d : Job.TaskDesc} {a : ATask} (h : a ∈ (descOf d).specTasks) :
    a.st = .waiting ∧ a.inst = none := by
  cases d with
  | array ids entries =>
    simp only [descOf, TaskDesc.specTasks, List.mem_map] at h
    obtain ⟨_, _, rfl⟩ := h; exact ⟨rfl, rfl⟩
  | graph g =>
    simp only [descOf, TaskDesc.specTasks, List.mem_map] at h
    obtain ⟨_, _, rfl⟩ := h; exact ⟨rfl, rfl⟩

/-- dependencies of the added tasks are dependencies of the submitted graph -/
theorem specTasks_deps {d : Job.TaskDesc} {a : ATask} (h : a ∈ (descOf d).specTasks) {x : Nat} (hx : x ∈ a.deps) :
    ∃ g, d = .graph g ∧ ∃ p ∈ g, x ∈ p.2 := by
  cases d with
  | array ids entries =>
    simp only [descOf, TaskDesc.specTasks, List.mem_map] at h
    obtain ⟨_, _, rfl⟩ := h; cases hx
  | graph g =>
    simp only [descOf, TaskDesc.specTasks, List.mem_map] at h
    obtain ⟨t, ⟨p, hp, rfl⟩, rfl⟩ := h
    exact ⟨g, rfl, p, hp, List.mem_eraseDups.mp hx⟩

theorem JSim.attach {job job' : Job} {aj : AJob} (h : JSim job aj) (d : Job.TaskDesc) (n : Nat)
    (ha : job.attach d.jobIds = .ok job') :
    JSim job' { aj with tasks := aj.tasks ++ (descOf d).specTasks, nSubmits := n } := by
  obtain ⟨-, hnone, htasks⟩ := attach_spec _ ha
  refine ⟨by simp [h.isOpen, attach_isOpen _ ha], ?_, ?_⟩
  · simp only [List.map_append, specTasks_ids, h.ids, htasks, keys, List.map_map]
    congr 1
    simp [Function.comp_def]
  · intro a ha'
    simp only [List.mem_append] at ha'
    rw [htasks, lookup_append_list]
    rcases ha' with ha' | ha'
    · obtain ⟨x, hx, hs, hi⟩ := h.st a ha'
      exact ⟨x, by rw [hx], hs, hi⟩
    · have hid : a.id ∈ d.jobIds := by
        rw [← specTasks_ids]; exact List.mem_map.mpr ⟨a, ha', rfl⟩
      obtain ⟨hst, -⟩ := specTasks_new ha'
      refine ⟨.waiting, ?_, hst, fun e => by cases e⟩
      rw [hnone _ hid]
      exact lookup_map_waiting hid

theorem JDep.attach {aj : AJob} (h : JDep aj) (extra : List ATask) (n : Nat)
    (hw : ∀ a ∈ extra, a.st = .waiting)
    (hd : ∀ a ∈ extra, ∀ d ∈ a.deps, ∀ b, aj.find d = some b → b.st = .waiting ∨ b.st = .finished) :
    JDep { aj with tasks := aj.tasks ++ extra, nSubmits := n } := by
  intro a ha hwa d hdm b hb
  rw [find_append] at hb
  simp only [List.mem_append] at ha
  cases hf : aj.find d with
  | some b0 =>
    rw [hf] at hb
    simp only [Option.some.injEq] at hb
    subst hb
    rcases ha with ha | ha
    · exact h a ha hwa d hdm b0 hf
    · exact hd a ha d hdm b0 hf
  | none =>
    rw [hf] at hb
    exact .inl (hw b (List.mem_of_find?_eq_some hb))

/-! ### `submitOk` -/

/-- the array shape the journal's `submitOk` asks for: positive steps, entries (if any) = number of ids -/
def shapeStrict : Job.TaskDesc → Bool
  | .array ids entries =>
    ids.all (fun r => decide (1 ≤ r.step)) && (match entries with | none => true | some n => n == ids.iter.length)
  | .graph _ => true

theorem fillIdsNew_shape {d : Job.TaskDesc} (h : arrayShapeOk d = true) : shapeStrict (fillIdsNew d) = true := by
  cases d with
  | graph g => rfl
  | array ids entries =>
    simp only [fillIdsNew]
    split
    · cases entries with
      | none => simp [shapeStrict, IntArray.fromId]
      | some n => simp [shapeStrict, fromRange_iter]; simp [IntArray.fromRange]
    · rename_i hne
      simp only [arrayShapeOk, Bool.and_eq_true, Bool.or_eq_true] at h
      simp only [shapeStrict, Bool.and_eq_true]
      refine ⟨h.1, ?_⟩
      rcases h.2 with h2 | h2
      · exact absurd h2 hne
      · exact h2

theorem fillIdsOpen_shape (job : Job) {d : Job.TaskDesc} (h : arrayShapeOk d = true) :
    shapeStrict (fillIdsOpen job d) = true := by
  cases d with
  | graph g => rfl
  | array ids entries =>
    simp only [fillIdsOpen]
    split
    · cases entries with
      | none => simp [shapeStrict, IntArray.fromId]
      | some n => simp [shapeStrict, fromRange_iter]; simp [IntArray.fromRange]
    · rename_i hne
      simp only [arrayShapeOk, Bool.and_eq_true, Bool.or_eq_true] at h
      simp only [shapeStrict, Bool.and_eq_true]
      refine ⟨h.1, ?_⟩
      rcases h.2 with h2 | h2
      · exact absurd h2 hne
      · exact h2

theorem firstSome_none {f : α → Option β} {l : List α} (h : firstSome f l = none) : ∀ x ∈ l, f x = none := by
  induction l with
  | nil => intro x hx; cases hx
  | cons y ys ih =>
    intro x hx
    simp only [firstSome] at h
    cases hy : f y with
    | some z => rw [hy] at h; cases h
    | none =>
      rw [hy] at h
      simp only [List.mem_cons] at hx
      rcases hx with rfl | hx
      · exact hy
      · exact ih h x hx

/-- "the job has task `d`", as `validate_submit` asks it -/
def jobHas (jo : Option Job) (d : Nat) : Bool :=
  match jo with
  | some j => (lookup j.tasks d).isSome
  | none => false

theorem graphDepsOk_of_validate (jo : Option Job) (have_ : List Nat)
    (hh : ∀ d, jobHas jo d = true → d ∈ have_) :
    ∀ (g : List (Nat × List Nat)) (seen : List Nat), validateGraph jo g seen = none →
      graphDepsOk have_ seen (g.map fun p => ⟨p.1, p.2, true⟩) = true
  | [], _, _ => rfl
  | (t, deps) :: rest, seen, h => by
    simp only [validateGraph] at h
    split at h
    · cases h
    · split at h
      · cases h
      · rename_i hfs
        have ih := graphDepsOk_of_validate jo have_ hh rest (t :: seen) h
        simp only [List.map_cons, graphDepsOk, Bool.and_eq_true, List.all_eq_true]
        refine ⟨?_, ih⟩
        intro d hd
        have := firstSome_none hfs d hd
        change (if (d == t || !(t :: seen).contains d && !jobHas jo d) = true then some d else none) = none at this
        by_cases hc : (d == t || !(t :: seen).contains d && !jobHas jo d) = true
        · rw [if_pos hc] at this; cases this
        · simp only [Bool.or_eq_true, beq_iff_eq, Bool.and_eq_true, Bool.not_eq_true', not_or, not_and,
            Bool.not_eq_false, List.contains_cons] at hc
          obtain ⟨hne, hc2⟩ := hc
          simp only [bne_iff_ne, ne_eq, Bool.or_eq_true, List.contains_eq_mem, decide_eq_true_eq]
          refine ⟨hne, ?_⟩
          by_cases hs : d ∈ seen
          · exact .inl hs
          · right
            refine hh d (hc2 ?_)
            simp [hne, hs]

theorem submitOk_of_attach {job job' : Job} (jo : Option Job) (d : Job.TaskDesc)
    (hh : ∀ x, jobHas jo x = true → x ∈ keys job.tasks)
    (hshape : shapeStrict d = true)
    (hv : ∀ g, d = .graph g → validateGraph jo g [] = none)
    (ha : job.attach d.jobIds = .ok job') : submitOk (keys job.tasks) (descOf d) = true := by
  obtain ⟨hnd, hnone, -⟩ := attach_spec _ ha
  have hfresh : ∀ i ∈ d.jobIds, i ∉ keys job.tasks := fun i hi => not_mem_keys_of_lookup_none (hnone i hi)
  cases d with
  | array ids entries =>
    simp only [shapeStrict, Bool.and_eq_true] at hshape
    simp only [Job.TaskDesc.jobIds] at hnd hfresh
    simp only [descOf, submitOk, Bool.and_eq_true, hshape.1, List.all_eq_true, decide_eq_true_eq,
      hnd, and_true, true_and]
    exact ⟨fun i hi => by simpa using hfresh i hi, hshape.2⟩
  | graph g =>
    simp only [Job.TaskDesc.jobIds] at hnd hfresh
    simp only [descOf, submitOk, Bool.and_eq_true, List.all_eq_true, decide_eq_true_eq, List.map_map]
    refine ⟨⟨?_, ?_⟩, graphDepsOk_of_validate jo _ hh g [] (hv g rfl)⟩
    · intro t ht
      obtain ⟨p, hp, rfl⟩ := List.mem_map.mp ht
      simpa using hfresh p.1 (List.mem_map.mpr ⟨p, hp, rfl⟩)
    · have : ((fun (t : GraphTask) => t.id) ∘ fun (p : Nat × List Nat) => (⟨p.1, p.2, true⟩ : GraphTask)) = (·.1) := rfl
      rw [this]; exact hnd

/-- `validate_submit` accepted the description: its graph part passed -/
theorem validateSubmit_graph {jo : Option Job} {g : List (Nat × List Nat)}
    (h : Job.validateSubmit jo (.graph g) = none) : validateGraph jo g [] = none := by
  simp only [Job.validateSubmit] at h
  split at h
  · cases h
  · exact h

/-- the dependency check of `handle_submit` (fix of F16): no dependency on a failed / canceled / aborted task -/
theorem badDep_none {job : Job} {g : List (Nat × List Nat)} (h : badDep job (.graph g) = none) :
    ∀ p ∈ g, ∀ d ∈ p.2, ∀ x, lookup job.tasks d = some x → oc x = .waiting ∨ oc x = .finished := by
  intro p hp d hd x hx
  simp only [badDep] at h
  have h1 := firstSome_none h p hp
  have h2 := firstSome_none h1 d hd
  simp only [hx] at h2
  cases x <;> simp [oc] at h2 ⊢

end HqModel.Emit
