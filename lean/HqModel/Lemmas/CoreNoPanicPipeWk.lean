import HqModel.Lemmas.SysWStep4
/-!
The FORWARD frame fact for the worker table of the core model (M1): no operation except `removeWorker` drops a
worker record.  `WKeys s s'` — the list of worker ids is unchanged — holds for every function of the model except
`newWorker` (appends one id) and `removeWorker` (filters one id out at its start; everything after keeps the ids).

Every write to `State.workers` is `setWorker` / `withWorker` (`putWorker` keeps the id list unconditionally), the
`++ [w]` of `newWorker`, or the `filter` of `removeWorker`; the traversals are those of `SysCoreFrame2/3/4.lean`.

This file: the relation, its leaves, `Model.lean` / `Reactor.lean` up to `on_cancel_tasks`.
-/
namespace HqModel.SysW.NPP
open HqModel HqModel.Core

/-- the worker ids are unchanged -/
def WKeys (s s' : Core.State) : Prop := s'.workers.map (·.id) = s.workers.map (·.id)

theorem WKeys.refl (s : Core.State) : WKeys s s := rfl

theorem WKeys.trans {a b c : Core.State} (h1 : WKeys a b) (h2 : WKeys b c) : WKeys a c := by
  unfold WKeys at *; rw [h2, h1]

theorem WKeys.of_eq {s s' : Core.State} (hw : s'.workers = s.workers) : WKeys s s' := by
  unfold WKeys; rw [hw]

theorem WKeys.ask (s : Core.State) : WKeys s (Core.ask s) := WKeys.of_eq rfl

theorem WKeys.setTask (s : Core.State) (t : Core.Task) : WKeys s (s.setTask t) := WKeys.of_eq rfl

theorem WKeys.core {s s' : Core.State} (h : Core.CoreEq s s') : WKeys s s' := WKeys.of_eq h.w

theorem putWorker_map_id (ws : List Core.Worker) (w : Core.Worker) :
    (Core.putWorker ws w).map (·.id) = ws.map (·.id) := by
  induction ws with
  | nil => rfl
  | cons y ys ih =>
    simp only [Core.putWorker]
    split
    · rename_i e; simp [ih, e]
    · simp [ih]

/-- `setWorker` keeps the ids whatever the record is (it replaces the records with the same id) -/
theorem WKeys.setWorker (s : Core.State) (wk : Core.Worker) : WKeys s (s.setWorker wk) :=
  putWorker_map_id _ _

/-- `withWorker` keeps the ids whatever the record operation is -/
theorem WKeys.withWorker {s s' : Core.State} {w : Nat} {f : Core.Worker → Core.M Core.Worker}
    (h : s.withWorker w f = .ok s') : WKeys s s' := by
  obtain ⟨wk, wk', _, _, rfl⟩ := withWorker_spec h
  exact WKeys.setWorker _ _

theorem findWorker_isSome_iff (ws : List Core.Worker) (x : Nat) :
    (Core.findWorker ws x).isSome = true ↔ x ∈ ws.map (·.id) := by
  induction ws with
  | nil => simp [Core.findWorker]
  | cons y ys ih =>
    simp only [Core.findWorker, List.map_cons, List.mem_cons]
    split
    · rename_i e; simp [e]
    · rename_i e
      rw [ih]
      constructor
      · exact .inr
      · rintro (h | h)
        · exact (e h.symm).elim
        · exact h

theorem WKeys.worker_keep {s s' : Core.State} (h : WKeys s s') (x : Nat) (hx : (s.worker? x).isSome = true) :
    (s'.worker? x).isSome = true := by
  unfold Core.State.worker? at *
  rw [findWorker_isSome_iff] at *
  rw [h]; exact hx

/-! ### `Model.lean` -/

theorem processRetracted_wk (l : List Core.TaskId) (s s' : Core.State) (acc acc' : List (Nat × Core.TaskId))
    (h : s.processRetracted l acc = .ok (s', acc')) : WKeys s s' := by
  induction l generalizing s acc with
  | nil => simp only [Core.State.processRetracted] at h; cases h; exact WKeys.refl _
  | cons t rest ih =>
    simp only [Core.State.processRetracted] at h
    split at h
    · cases h
    · rename_i task hg
      split at h
      · rename_i w hs
        split at h
        · cases h
        · rename_i s1 hw
          exact ((WKeys.withWorker hw).trans (WKeys.setTask _ _)).trans (ih _ _ h)
      · cases h

theorem retract_wk {s s' : Core.State} {l : List Core.TaskId} {o : Core.Out} (h : s.retract l = .ok (s', o)) :
    WKeys s s' := by
  simp only [Core.State.retract] at h
  split at h
  · cases h
  · rename_i s1 pairs hp
    cases h
    exact processRetracted_wk _ _ _ _ _ hp

theorem tryRemoveRedirection_wk {s s' : Core.State} {t : Core.TaskId} {rq : Nat}
    (h : s.tryRemoveRedirection t rq = .ok s') : WKeys s s' := by
  simp only [Core.State.tryRemoveRedirection] at h
  split at h
  · cases h; exact WKeys.refl _
  · split at h
    · cases h
    · have f1 : WKeys s { s with redirects := s.redirects.filter (·.1 ≠ t) } := WKeys.of_eq rfl
      exact f1.trans (WKeys.withWorker h)

theorem removeTask_wk {s s' : Core.State} {id : Core.TaskId} {st : Core.TS} (h : s.removeTask id = .ok (s', st)) :
    WKeys s s' := by
  simp only [Core.State.removeTask] at h
  split at h
  · cases h
  · rename_i task ht
    have f0 : WKeys s { s with tasks := eraseTask s.tasks id } := WKeys.of_eq rfl
    split at h
    · split at h
      · cases h
      · rename_i s1 hq
        have f1 : WKeys { s with tasks := eraseTask s.tasks id } s1 := WKeys.core (queueRemove_core hq)
        split at h
        · split at h
          · cases h
          · rename_i ts hc
            cases h
            have f2 : WKeys s1 { s1 with tasks := ts } := WKeys.of_eq rfl
            exact (f0.trans f1).trans f2
        · cases h; exact f0.trans f1
    · split at h
      · cases h
      · rename_i s1 hq
        cases h
        exact f0.trans (WKeys.core (queueRemove_core hq))
    · cases h; exact f0

theorem removeTasksBatched_wk (ids : List Core.TaskId) (s s' : Core.State) (h : s.removeTasksBatched ids = .ok s') :
    WKeys s s' := by
  induction ids generalizing s with
  | nil => simp only [Core.State.removeTasksBatched] at h; cases h; exact WKeys.refl _
  | cons t rest ih =>
    simp only [Core.State.removeTasksBatched] at h
    split at h
    · cases h
    · rename_i s1 st h1
      exact (removeTask_wk h1).trans (ih _ h)

theorem removeWaitingAll_wk (ids : List Core.TaskId) (s s' : Core.State) (h : s.removeWaitingAll ids = .ok s') :
    WKeys s s' := by
  induction ids generalizing s with
  | nil => simp only [Core.State.removeWaitingAll] at h; cases h; exact WKeys.refl _
  | cons t rest ih =>
    simp only [Core.State.removeWaitingAll] at h
    split at h
    · cases h
    · rename_i s1 st h1
      split at h
      · exact (removeTask_wk h1).trans (ih _ h)
      · cases h

/-! ### `Reactor.lean` -/

theorem resetMnAll_wk (l : List Nat) (s s' : Core.State) (h : Core.resetMnAll s l = .ok s') : WKeys s s' := by
  induction l generalizing s with
  | nil => simp only [Core.resetMnAll] at h; cases h; exact WKeys.refl _
  | cons w rest ih =>
    simp only [Core.resetMnAll] at h
    split at h
    · cases h
    · rename_i wk hg
      exact (WKeys.setWorker s wk.emptySn).trans (ih _ h)

theorem resetMnChecked_wk (l : List Nat) (s s' : Core.State) (id : Core.TaskId)
    (h : Core.resetMnChecked s id l = .ok s') : WKeys s s' := by
  induction l generalizing s with
  | nil => simp only [Core.resetMnChecked] at h; cases h; exact WKeys.refl _
  | cons w rest ih =>
    simp only [Core.resetMnChecked] at h
    split at h
    · cases h
    · rename_i wk hg
      split at h
      · split at h
        · cases h
        · exact (WKeys.setWorker s wk.emptySn).trans (ih _ h)
      · cases h

theorem cancelLoop_wk (ids : List Core.TaskId) (s s' : Core.State) (u u' : List Core.TaskId)
    (r r' : List (Nat × List Core.TaskId))
    (h : s.cancelLoop ids u r = .ok (s', u', r')) : WKeys s s' := by
  induction ids generalizing s u r with
  | nil => simp only [Core.State.cancelLoop] at h; cases h; exact WKeys.refl _
  | cons id rest ih =>
    simp only [Core.State.cancelLoop] at h
    split at h
    · exact ih _ _ _ h
    · rename_i task ht
      split at h
      · cases h
      · rename_i cons hc
        have sn : ∀ (w rv : Nat), (match s.rq task.rq rv with
            | .error e => (.error e : Core.M (Core.State × List Core.TaskId × List (Nat × List Core.TaskId)))
            | .ok r0 =>
              match s.withWorker w (·.removeSn id r0) with
              | .error e => .error e
              | .ok s1 => Core.State.cancelLoop (Core.ask s1) rest (unionTids (unionTids u [id]) cons) (addTo r w id)) =
              .ok (s', u', r') → WKeys s s' := by
          intro w rv h
          split at h
          · cases h
          · split at h
            · cases h
            · rename_i s1 hw
              exact ((WKeys.withWorker hw).trans (WKeys.ask s1)).trans (ih _ _ _ h)
        split at h
        · exact (WKeys.ask s).trans (ih _ _ _ h)
        · exact sn _ _ h
        · exact sn _ _ h
        · split at h
          · cases h
          · rename_i s1 hr
            split at h
            · cases h
            · exact ((resetMnAll_wk _ _ _ hr).trans (WKeys.ask s1)).trans (ih _ _ _ h)
        · split at h
          · cases h
          · rename_i s1 hr
            exact ((tryRemoveRedirection_wk hr).trans (WKeys.ask s1)).trans (ih _ _ _ h)
        · split at h
          · cases h
          · rename_i s1 hr
            split at h
            · cases h
            · rename_i s2 hw
              exact ((WKeys.core (removePrefilled_core hr)).trans (WKeys.withWorker hw)).trans (ih _ _ _ h)
        · cases h

theorem cancelTasks_wk {s s' : Core.State} {ids : List Core.TaskId} {o : Core.Out}
    (h : s.cancelTasks ids = .ok (s', o)) : WKeys s s' := by
  simp only [Core.State.cancelTasks] at h
  split at h
  · cases h
  · rename_i s1 unreg running h1
    split at h
    · cases h
    · rename_i s2 h2
      cases h
      exact (cancelLoop_wk _ _ _ _ _ _ _ h1).trans (removeTasksBatched_wk _ _ _ h2)

end HqModel.SysW.NPP
