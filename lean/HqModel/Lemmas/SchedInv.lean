import HqModel.Sched.Spec
/-!
Lemmas for C15, part 10: the loop invariant of `batches` (`stepLevel` folded over the priorities), in terms of
prefix sums `N inst c done` of the per-level counts.
-/
namespace HqModel.Sched

/-- tasks of class `c` at the priorities `ps` -/
def N (inst : Instance) (c : Nat) (ps : List Int) : Nat := (ps.map (cnt (inst.queue c))).sum

theorem N_append (inst : Instance) (c : Nat) (ps qs : List Int) : N inst c (ps ++ qs) = N inst c ps + N inst c qs := by
  simp [N, List.map_append, List.sum_append]

theorem N_snoc (inst : Instance) (c : Nat) (ps : List Int) (p : Int) :
    N inst c (ps ++ [p]) = N inst c ps + cnt (inst.queue c) p := by
  simp [N_append, N]

/-- `blockersAt` with prefix sums instead of counts above a priority -/
def blockersAtN (inst : Instance) (c : Nat) (ps : List Int) : List (Nat × Option Nat) :=
  (inst.readyClasses.filter fun c' => c' != c && N inst c' ps > 0).map fun c' =>
    (c', if N inst c' ps > inst.limitOf c' then none else some (N inst c' ps))

/-- a level that adds nothing to the other classes, or only to classes beyond their limit, keeps the blockers -/
theorem blockersAtN_stable {inst : Instance} {c : Nat} {done : List Int} {p : Int}
    (h : ∀ c' ∈ inst.readyClasses, c' ≠ c → cnt (inst.queue c') p = 0 ∨ N inst c' done > inst.limitOf c') :
    blockersAtN inst c (done ++ [p]) = blockersAtN inst c done := by
  unfold blockersAtN
  generalize inst.readyClasses = l at h
  induction l with
  | nil => rfl
  | cons a rest ih =>
    have ih' := ih fun c' hc' => h c' (by simp [hc'])
    by_cases hac : a = c
    · subst hac
      simpa [List.filter_cons] using ih'
    · have hne : (a != c) = true := by simpa using hac
      rcases h a (by simp) hac with h0 | hlim
      · simp only [List.filter_cons, hne, Bool.true_and, N_snoc, h0, Nat.add_zero] at ih' ⊢
        split <;> simp_all
      · have h1 : N inst a (done ++ [p]) > inst.limitOf a := by rw [N_snoc]; omega
        have h2 : N inst a (done ++ [p]) > 0 := by omega
        have h3 : N inst a done > 0 := by omega
        simp only [List.filter_cons, hne, Bool.true_and, h2, h3, decide_true, ↓reduceIte, List.map_cons,
          h1, hlim, List.cons.injEq, true_and]
        exact ih'

structure Inv (inst : Instance) (done : List Int) (s : MState) : Prop where
  rqs : s.bs.map (·.rq) = inst.readyClasses
  limit : ∀ b ∈ s.bs, b.limit = inst.limitOf b.rq
  open_ : ∀ b ∈ s.bs, b.reached = false → b.size = N inst b.rq done ∧ b.size ≤ b.limit
  closed : ∀ b ∈ s.bs, b.reached = true → b.size = b.limit ∧ b.limit < N inst b.rq done
  sound : ∀ b ∈ s.bs, ∀ cut ∈ b.cuts, ∃ pre p post, done = pre ++ p :: post ∧ cnt (inst.queue b.rq) p > 0 ∧
      cut.size = N inst b.rq pre ∧ cut.size ≤ b.limit ∧ cut.blockers = blockersAtN inst b.rq pre
  exists_ : ∀ b ∈ s.bs, ∀ pre p post, done = pre ++ p :: post → cnt (inst.queue b.rq) p > 0 →
      N inst b.rq pre ≤ b.limit → blockersAtN inst b.rq pre ≠ [] →
      ∃ cut ∈ b.cuts, cut.size ≤ N inst b.rq pre ∧ cut.blockers = blockersAtN inst b.rq pre
  sizes : ∀ b ∈ s.bs, (∀ cut ∈ b.cuts, cut.size ≤ b.size) ∧ (b.cuts.Pairwise fun c1 c2 => c1.size ≤ c2.size) ∧
      b.cuts.length ≤ done.length
  uniq : ∀ c, s.unique = some c → ∀ b ∈ s.bs, b.rq = c → b.reached = false →
      blockersAtN inst c done = [] ∨ ∃ cut ∈ b.cuts, cut.size ≤ b.size ∧ cut.blockers = blockersAtN inst c done

/-- the batches of a list are identified by their class -/
theorem rq_inj {inst : Instance} {done : List Int} {s : MState} (h : Inv inst done s)
    (hnd : inst.readyClasses.Nodup) {b b' : Batch} (hb : b ∈ s.bs) (hb' : b' ∈ s.bs) (e : b.rq = b'.rq) : b = b' := by
  have : (s.bs.map (·.rq)).Nodup := by rw [h.rqs]; exact hnd
  clear h
  generalize s.bs = bs at hb hb' this
  induction bs with
  | nil => simp at hb
  | cons a rest ih =>
    simp only [List.map_cons, List.nodup_cons, List.mem_map, not_exists, not_and] at this
    rcases List.mem_cons.mp hb with hb1 | hb1
    · rcases List.mem_cons.mp hb' with hb2 | hb2
      · rw [hb1, hb2]
      · subst hb1; exact absurd e.symm (this.1 b' hb2)
    · rcases List.mem_cons.mp hb' with hb2 | hb2
      · subst hb2; exact absurd e (this.1 b hb1)
      · exact ih hb1 hb2 this.2

theorem readyClasses_nodup (inst : Instance) : inst.readyClasses.Nodup := by
  unfold Instance.readyClasses
  exact List.Nodup.sublist List.filter_sublist List.nodup_range

theorem filterMap_eq_map_filter {α β γ} (r : α → β) (f : α → Option γ) (g : β → Bool) (k : β → γ) :
    ∀ (l : List α), (∀ a ∈ l, f a = if g (r a) then some (k (r a)) else none) →
    l.filterMap f = ((l.map r).filter g).map k
  | [], _ => rfl
  | a :: rest, h => by
    have ih := filterMap_eq_map_filter r f g k rest fun a' ha' => h a' (by simp [ha'])
    have ha := h a (by simp)
    simp only [List.filterMap_cons, List.map_cons, List.filter_cons, ha]
    cases hg : g (r a) <;> simp [ih]

/-- under the invariant `blockersOf` is the closed form -/
theorem blockersOf_eq {inst : Instance} {done : List Int} {s : MState} (h : Inv inst done s) (c : Nat) :
    blockersOf s.bs c = blockersAtN inst c done := by
  unfold blockersOf blockersAtN
  rw [← h.rqs]
  apply filterMap_eq_map_filter (fun b : Batch => b.rq)
  intro b hb
  have hlb := h.limit b hb
  cases hre : b.reached with
  | true =>
    obtain ⟨h1, h2⟩ := h.closed b hb hre
    have hpos : N inst b.rq done > 0 := by omega
    have hgt : N inst b.rq done > inst.limitOf b.rq := by omega
    by_cases hbc : b.rq = c
    · simp [hbc]
    · have hne : (b.rq != c) = true := by simpa using hbc
      simp [hbc, hne, Batch.live, hre, hpos, hgt]
  | false =>
    obtain ⟨h1, h2⟩ := h.open_ b hb hre
    by_cases hbc : b.rq = c
    · simp [hbc]
    · have hne : (b.rq != c) = true := by simpa using hbc
      have hngt : ¬ N inst b.rq done > inst.limitOf b.rq := by omega
      by_cases hpos : N inst b.rq done > 0
      · have hsz : b.size > 0 := by omega
        simp [hbc, hne, Batch.live, hre, hpos, hngt, hsz, h1]
      · have hsz : ¬ b.size > 0 := by omega
        simp [hbc, hne, Batch.live, hre, hpos, hsz]

theorem snoc_split {α} {done pre post : List α} {p q : α} (h : done ++ [p] = pre ++ q :: post) :
    (post = [] ∧ pre = done ∧ q = p) ∨ ∃ post0, post = post0 ++ [p] ∧ done = pre ++ q :: post0 := by
  rcases List.eq_nil_or_concat post with rfl | ⟨post0, x, rfl⟩
  · left
    have := List.append_inj' h (by simp)
    simp only [List.cons.injEq, and_true] at this
    exact ⟨rfl, this.1.symm, this.2.symm⟩
  · right
    have h' : done ++ [p] = (pre ++ q :: post0) ++ [x] := by simpa using h
    have := List.append_inj' h' (by simp)
    simp only [List.cons.injEq, and_true] at this
    exact ⟨post0, by rw [this.2]; simp, this.1⟩

theorem addLevel_rq (b : Batch) (n : Nat) : (b.addLevel n).rq = b.rq ∧ (b.addLevel n).limit = b.limit ∧
    (b.addLevel n).cuts = b.cuts := by
  unfold Batch.addLevel; split <;> simp

theorem addLevel_spec (b : Batch) (n : Nat) :
    (b.size + n > b.limit ∧ (b.addLevel n).size = b.limit ∧ (b.addLevel n).reached = true) ∨
    (b.size + n ≤ b.limit ∧ (b.addLevel n).size = b.size + n ∧ (b.addLevel n).reached = b.reached) := by
  unfold Batch.addLevel
  split
  · left; exact ⟨by assumption, rfl, rfl⟩
  · right; exact ⟨by omega, rfl, rfl⟩

/-- one level of the loop, for any per-batch update `f` that grows exactly the found batches and appends at most the
cut of this level -/
theorem Inv.step {inst : Instance} {done : List Int} {s : MState} (h : Inv inst done s) (p : Int)
    (f : Batch → Batch) (u : Option Nat)
    (hrq : ∀ b ∈ s.bs, (f b).rq = b.rq ∧ (f b).limit = b.limit)
    (hgrow : ∀ b ∈ s.bs,
      (b.reached = false ∧ cnt (inst.queue b.rq) p > 0 ∧
        (f b).size = (b.addLevel (cnt (inst.queue b.rq) p)).size ∧
        (f b).reached = (b.addLevel (cnt (inst.queue b.rq) p)).reached) ∨
      ((b.reached = true ∨ cnt (inst.queue b.rq) p = 0) ∧ (f b).size = b.size ∧ (f b).reached = b.reached))
    (hcuts : ∀ b ∈ s.bs, (f b).cuts = b.cuts ∨
      (b.reached = false ∧ cnt (inst.queue b.rq) p > 0 ∧
        (f b).cuts = b.cuts ++ [{ size := b.size, blockers := blockersOf s.bs b.rq }]))
    (hnew : ∀ b ∈ s.bs, b.reached = false → cnt (inst.queue b.rq) p > 0 → blockersAtN inst b.rq done ≠ [] →
      ∃ cut ∈ (f b).cuts, cut.size ≤ N inst b.rq done ∧ cut.blockers = blockersAtN inst b.rq done)
    (huniq : ∀ c, u = some c → ∀ b ∈ s.bs, b.rq = c → (f b).reached = false →
      blockersAtN inst c (done ++ [p]) = [] ∨
        ∃ cut ∈ (f b).cuts, cut.size ≤ (f b).size ∧ cut.blockers = blockersAtN inst c (done ++ [p])) :
    Inv inst (done ++ [p]) { bs := s.bs.map f, unique := u } := by
  have hbo := blockersOf_eq h
  -- size facts of an updated batch
  have hsz : ∀ b ∈ s.bs, b.size ≤ (f b).size ∨ ((f b).size = b.limit ∧ b.size ≤ b.limit ∧ b.reached = false) := by
    intro b hb
    rcases hgrow b hb with ⟨hre, _, e1, _⟩ | ⟨_, e1, _⟩
    · obtain ⟨_, h2⟩ := h.open_ b hb hre
      rw [e1]
      rcases addLevel_spec b (cnt (inst.queue b.rq) p) with ⟨_, a2, _⟩ | ⟨_, a2, _⟩
      · right; exact ⟨a2, h2, hre⟩
      · left; omega
    · left; omega
  refine ⟨?_, ?_, ?_, ?_, ?_, ?_, ?_, ?_⟩
  · -- rqs
    simp only [List.map_map]
    rw [← h.rqs]
    exact List.map_congr_left fun b hb => (hrq b hb).1
  · intro b' hb'
    obtain ⟨b, hb, rfl⟩ := List.mem_map.mp hb'
    rw [(hrq b hb).1, (hrq b hb).2]; exact h.limit b hb
  · -- open
    intro b' hb' hre'
    obtain ⟨b, hb, rfl⟩ := List.mem_map.mp hb'
    rw [(hrq b hb).1, (hrq b hb).2, N_snoc]
    rcases hgrow b hb with ⟨hre, _, e1, e2⟩ | ⟨hc, e1, e2⟩
    · obtain ⟨h1, h2⟩ := h.open_ b hb hre
      rw [e2] at hre'
      rw [e1]
      rcases addLevel_spec b (cnt (inst.queue b.rq) p) with ⟨_, _, a3⟩ | ⟨a1, a2, _⟩
      · rw [a3] at hre'; cases hre'
      · omega
    · rw [e2] at hre'
      obtain ⟨h1, h2⟩ := h.open_ b hb hre'
      rcases hc with hc | hc
      · rw [hc] at hre'; cases hre'
      · rw [e1, hc]; omega
  · -- closed
    intro b' hb' hre'
    obtain ⟨b, hb, rfl⟩ := List.mem_map.mp hb'
    rw [(hrq b hb).1, (hrq b hb).2, N_snoc]
    rcases hgrow b hb with ⟨hre, _, e1, e2⟩ | ⟨_, e1, e2⟩
    · obtain ⟨h1, h2⟩ := h.open_ b hb hre
      rw [e2] at hre'
      rw [e1]
      rcases addLevel_spec b (cnt (inst.queue b.rq) p) with ⟨a1, a2, _⟩ | ⟨_, _, a3⟩
      · omega
      · rw [a3, hre] at hre'; cases hre'
    · rw [e2] at hre'
      obtain ⟨h1, h2⟩ := h.closed b hb hre'
      rw [e1]; omega
  · -- sound
    intro b' hb' cut hcut
    obtain ⟨b, hb, rfl⟩ := List.mem_map.mp hb'
    rw [(hrq b hb).1, (hrq b hb).2]
    have hold : cut ∈ b.cuts → ∃ pre p' post, done ++ [p] = pre ++ p' :: post ∧ cnt (inst.queue b.rq) p' > 0 ∧
        cut.size = N inst b.rq pre ∧ cut.size ≤ b.limit ∧ cut.blockers = blockersAtN inst b.rq pre := by
      intro hc
      obtain ⟨pre, p', post, e, h1, h2, h3, h4⟩ := h.sound b hb cut hc
      exact ⟨pre, p', post ++ [p], by rw [e]; simp, h1, h2, h3, h4⟩
    rcases hcuts b hb with e | ⟨hre, hcnt, e⟩
    · rw [e] at hcut; exact hold hcut
    · rw [e] at hcut
      rcases List.mem_append.mp hcut with hc | hc
      · exact hold hc
      · simp only [List.mem_singleton] at hc
        subst hc
        obtain ⟨h1, h2⟩ := h.open_ b hb hre
        exact ⟨done, p, [], rfl, hcnt, h1, h2, hbo b.rq⟩
  · -- exists
    intro b' hb' pre p' post hsplit hcnt hle hne
    obtain ⟨b, hb, rfl⟩ := List.mem_map.mp hb'
    rw [(hrq b hb).1] at hcnt hle hne ⊢
    rw [(hrq b hb).2] at hle
    have hsub : ∀ cut ∈ b.cuts, cut ∈ (f b).cuts := by
      intro cut hc
      rcases hcuts b hb with e | ⟨_, _, e⟩ <;> rw [e]
      · exact hc
      · exact List.mem_append_left _ hc
    rcases snoc_split hsplit with ⟨_, rfl, rfl⟩ | ⟨post0, _, e⟩
    · cases hre : b.reached with
      | true =>
        obtain ⟨h1, h2⟩ := h.closed b hb hre
        omega
      | false => exact hnew b hb hre hcnt hne
    · obtain ⟨cut, hc, h1, h2⟩ := h.exists_ b hb pre p' post0 e hcnt hle hne
      exact ⟨cut, hsub cut hc, h1, h2⟩
  · -- sizes
    intro b' hb'
    obtain ⟨b, hb, rfl⟩ := List.mem_map.mp hb'
    obtain ⟨s1, s2, s3⟩ := h.sizes b hb
    have hcutlim : ∀ cut ∈ b.cuts, cut.size ≤ b.limit := by
      intro cut hc
      obtain ⟨_, _, _, _, _, _, h3, _⟩ := h.sound b hb cut hc
      exact h3
    have hle_new : ∀ cut ∈ b.cuts, cut.size ≤ (f b).size := by
      intro cut hc
      rcases hsz b hb with h1 | ⟨h1, _, _⟩
      · exact Nat.le_trans (s1 cut hc) h1
      · rw [h1]; exact hcutlim cut hc
    rcases hcuts b hb with e | ⟨hre, _, e⟩
    · rw [e]
      exact ⟨hle_new, s2, by simp; omega⟩
    · rw [e]
      refine ⟨?_, ?_, by simp; omega⟩
      · intro cut hc
        rcases List.mem_append.mp hc with hc | hc
        · exact hle_new cut hc
        · simp only [List.mem_singleton] at hc
          subst hc
          rcases hsz b hb with h1 | ⟨h1, h2, _⟩
          · exact h1
          · simp only; omega
      · rw [List.pairwise_append]
        refine ⟨s2, by simp, ?_⟩
        intro c1 hc1 c2 hc2
        simp only [List.mem_singleton] at hc2
        subst hc2
        exact s1 c1 hc1
  · -- unique
    intro c hu b' hb' hrqc hre'
    obtain ⟨b, hb, rfl⟩ := List.mem_map.mp hb'
    rw [(hrq b hb).1] at hrqc
    exact huniq c hu b hb hrqc hre'

/-! ### the three branches of `stepLevel` -/

theorem mem_found {inst : Instance} {done : List Int} {s : MState} (h : Inv inst done s) {p : Int} {b : Batch}
    (hb : b ∈ s.bs) : b.rq ∈ found inst s.bs p ↔ (b.reached = false ∧ cnt (inst.queue b.rq) p > 0) := by
  simp only [found, List.mem_map, List.mem_filter, Bool.and_eq_true, Bool.not_eq_true', decide_eq_true_eq]
  constructor
  · rintro ⟨b', ⟨hb', h1, h2⟩, e⟩
    have := rq_inj h (readyClasses_nodup inst) hb' hb e
    subst this
    exact ⟨h1, h2⟩
  · rintro ⟨h1, h2⟩
    exact ⟨b, ⟨hb, h1, h2⟩, rfl⟩

/-- the classes that are not found add nothing or are beyond their limit -/
theorem others_stable {inst : Instance} {done : List Int} {s : MState} (h : Inv inst done s) {p : Int} {c : Nat}
    (hf : ∀ c' ∈ found inst s.bs p, c' = c) :
    ∀ c' ∈ inst.readyClasses, c' ≠ c → cnt (inst.queue c') p = 0 ∨ N inst c' done > inst.limitOf c' := by
  intro c' hc' hne
  rw [← h.rqs] at hc'
  obtain ⟨b, hb, rfl⟩ := List.mem_map.mp hc'
  cases hre : b.reached with
  | true =>
    right
    obtain ⟨_, h2⟩ := h.closed b hb hre
    rw [← h.limit b hb]; exact h2
  | false =>
    left
    cases hc : cnt (inst.queue b.rq) p with
    | zero => rfl
    | succ n => exact absurd (hf _ ((mem_found h hb).mpr ⟨hre, by omega⟩)) hne

theorem step_nil {inst : Instance} {done : List Int} {s : MState} (h : Inv inst done s) {p : Int}
    (hf : found inst s.bs p = []) : Inv inst (done ++ [p]) s := by
  have hnf : ∀ b ∈ s.bs, ¬ (b.reached = false ∧ cnt (inst.queue b.rq) p > 0) := by
    intro b hb hc
    have := (mem_found h hb).mpr hc
    rw [hf] at this; cases this
  have key := Inv.step h p id s.unique (fun b _ => ⟨rfl, rfl⟩)
    (fun b hb => Or.inr ⟨by
      cases hre : b.reached with
      | true => left; rfl
      | false =>
        right
        cases hc : cnt (inst.queue b.rq) p with
        | zero => rfl
        | succ n => exact absurd ⟨hre, by omega⟩ (hnf b hb), rfl, rfl⟩)
    (fun b _ => Or.inl rfl)
    (fun b hb hre hc _ => absurd ⟨hre, hc⟩ (hnf b hb))
    (fun c hu b hb hrq hre => by
      have hst := blockersAtN_stable (done := done) (p := p) (others_stable h (c := c) (by rw [hf]; simp))
      rw [hst]
      exact h.uniq c hu b hb hrq hre)
  simpa using key

/-- the per-batch update of the `else` branch, in three stages -/
def fC1 (bs : List Batch) (fnd : List Nat) (b : Batch) : Batch :=
  if fnd.contains b.rq then
    if (blockersOf bs b.rq).isEmpty then b
    else { b with cuts := b.cuts ++ [{ size := b.size, blockers := blockersOf bs b.rq }] }
  else b

def fC2 (bs : List Batch) (fnd : List Nat) (b : Batch) : Batch :=
  if b.live && fnd.any (· != b.rq) then { fC1 bs fnd b with blocker := true } else fC1 bs fnd b

def fC (inst : Instance) (bs : List Batch) (fnd : List Nat) (p : Int) (b : Batch) : Batch :=
  if fnd.contains b.rq then (fC2 bs fnd b).addLevel (cnt (inst.queue b.rq) p) else fC2 bs fnd b

theorem cutAndAdd_eq (inst : Instance) (bs : List Batch) (fnd : List Nat) (p : Int) :
    cutAndAdd inst bs fnd p = bs.map (fC inst bs fnd p) := rfl

theorem fC1_spec (bs : List Batch) (fnd : List Nat) (b : Batch) :
    (fC1 bs fnd b).rq = b.rq ∧ (fC1 bs fnd b).limit = b.limit ∧ (fC1 bs fnd b).size = b.size ∧
    (fC1 bs fnd b).reached = b.reached ∧
    (fC1 bs fnd b).cuts =
      if fnd.contains b.rq then
        if (blockersOf bs b.rq).isEmpty then b.cuts
        else b.cuts ++ [{ size := b.size, blockers := blockersOf bs b.rq }]
      else b.cuts := by
  unfold fC1
  split
  · split <;> simp
  · simp

theorem fC2_spec (bs : List Batch) (fnd : List Nat) (b : Batch) :
    (fC2 bs fnd b).rq = b.rq ∧ (fC2 bs fnd b).limit = b.limit ∧ (fC2 bs fnd b).size = b.size ∧
    (fC2 bs fnd b).reached = b.reached ∧ (fC2 bs fnd b).cuts = (fC1 bs fnd b).cuts := by
  obtain ⟨h1, h2, h3, h4, _⟩ := fC1_spec bs fnd b
  unfold fC2
  split
  · exact ⟨h1, h2, h3, h4, rfl⟩
  · exact ⟨h1, h2, h3, h4, rfl⟩

theorem addLevel_congr (b b2 : Batch) (n : Nat) (h1 : b2.size = b.size) (h2 : b2.limit = b.limit)
    (h3 : b2.reached = b.reached) :
    (b2.addLevel n).size = (b.addLevel n).size ∧ (b2.addLevel n).reached = (b.addLevel n).reached := by
  rcases addLevel_spec b n with ⟨a1, a2, a3⟩ | ⟨a1, a2, a3⟩ <;>
    rcases addLevel_spec b2 n with ⟨c1, c2, c3⟩ | ⟨c1, c2, c3⟩
  · rw [a2, a3, c2, c3, h2]; exact ⟨rfl, rfl⟩
  · omega
  · omega
  · rw [a2, a3, c2, c3, h1, h3]; exact ⟨rfl, rfl⟩

theorem fC_spec (inst : Instance) (bs : List Batch) (fnd : List Nat) (p : Int) (b : Batch) :
    (fC inst bs fnd p b).rq = b.rq ∧ (fC inst bs fnd p b).limit = b.limit ∧
    (fnd.contains b.rq = true →
      (fC inst bs fnd p b).size = (b.addLevel (cnt (inst.queue b.rq) p)).size ∧
      (fC inst bs fnd p b).reached = (b.addLevel (cnt (inst.queue b.rq) p)).reached ∧
      (fC inst bs fnd p b).cuts =
        if (blockersOf bs b.rq).isEmpty then b.cuts
        else b.cuts ++ [{ size := b.size, blockers := blockersOf bs b.rq }]) ∧
    (fnd.contains b.rq = false →
      (fC inst bs fnd p b).size = b.size ∧ (fC inst bs fnd p b).reached = b.reached ∧
      (fC inst bs fnd p b).cuts = b.cuts) := by
  obtain ⟨g1, g2, g3, g4, g5⟩ := fC2_spec bs fnd b
  obtain ⟨_, _, _, _, k5⟩ := fC1_spec bs fnd b
  cases hc : fnd.contains b.rq with
  | true =>
    have e : fC inst bs fnd p b = (fC2 bs fnd b).addLevel (cnt (inst.queue b.rq) p) := by
      unfold fC; rw [hc]; rfl
    rw [hc] at k5
    rw [e]
    obtain ⟨a1, a2, a3⟩ := addLevel_rq (fC2 bs fnd b) (cnt (inst.queue b.rq) p)
    obtain ⟨c1, c2⟩ := addLevel_congr b (fC2 bs fnd b) (cnt (inst.queue b.rq) p) g3 g2 g4
    refine ⟨by rw [a1, g1], by rw [a2, g2], ?_, ?_⟩
    · intro _
      refine ⟨c1, c2, ?_⟩
      rw [a3, g5, k5]; rfl
    · intro h; cases h
  | false =>
    have e : fC inst bs fnd p b = fC2 bs fnd b := by
      unfold fC; rw [hc]; rfl
    rw [hc] at k5
    rw [e]
    refine ⟨g1, g2, ?_, ?_⟩
    · intro h; cases h
    · intro _
      refine ⟨g3, g4, ?_⟩
      rw [g5, k5]; rfl

theorem step_cut {inst : Instance} {done : List Int} {s : MState} (h : Inv inst done s) {p : Int}
    (u : Option Nat) (hu : ∀ c, u = some c → found inst s.bs p = [c]) :
    Inv inst (done ++ [p]) { bs := cutAndAdd inst s.bs (found inst s.bs p) p, unique := u } := by
  rw [cutAndAdd_eq]
  have hbo := blockersOf_eq h
  have hcont : ∀ b ∈ s.bs, (found inst s.bs p).contains b.rq = true ↔
      (b.reached = false ∧ cnt (inst.queue b.rq) p > 0) := by
    intro b hb
    rw [List.contains_iff_mem]; exact mem_found h hb
  apply Inv.step h p
  · intro b _
    obtain ⟨h1, h2, _⟩ := fC_spec inst s.bs (found inst s.bs p) p b
    exact ⟨h1, h2⟩
  · intro b hb
    obtain ⟨_, _, h3, h4⟩ := fC_spec inst s.bs (found inst s.bs p) p b
    cases hc : (found inst s.bs p).contains b.rq with
    | true =>
      obtain ⟨hre, hcnt⟩ := (hcont b hb).mp hc
      obtain ⟨e1, e2, _⟩ := h3 hc
      exact Or.inl ⟨hre, hcnt, e1, e2⟩
    | false =>
      obtain ⟨e1, e2, _⟩ := h4 hc
      refine Or.inr ⟨?_, e1, e2⟩
      cases hre : b.reached with
      | true => left; rfl
      | false =>
        right
        cases hcn : cnt (inst.queue b.rq) p with
        | zero => rfl
        | succ n =>
          have := (hcont b hb).mpr ⟨hre, by omega⟩
          rw [hc] at this; cases this
  · intro b hb
    obtain ⟨_, _, h3, h4⟩ := fC_spec inst s.bs (found inst s.bs p) p b
    cases hc : (found inst s.bs p).contains b.rq with
    | true =>
      obtain ⟨hre, hcnt⟩ := (hcont b hb).mp hc
      obtain ⟨_, _, e3⟩ := h3 hc
      cases he : (blockersOf s.bs b.rq).isEmpty with
      | true => left; rw [e3, he]; rfl
      | false => right; exact ⟨hre, hcnt, by rw [e3, he]; rfl⟩
    | false => left; exact (h4 hc).2.2
  · intro b hb hre hcnt hne
    obtain ⟨_, _, h3, _⟩ := fC_spec inst s.bs (found inst s.bs p) p b
    obtain ⟨_, _, e3⟩ := h3 ((hcont b hb).mpr ⟨hre, hcnt⟩)
    have he : (blockersOf s.bs b.rq).isEmpty = false := by
      rw [hbo]
      cases hh : (blockersAtN inst b.rq done).isEmpty with
      | false => rfl
      | true => exact absurd (List.isEmpty_iff.mp hh) hne
    rw [e3, he]
    refine ⟨{ size := b.size, blockers := blockersOf s.bs b.rq }, by simp, ?_, hbo b.rq⟩
    obtain ⟨h1, _⟩ := h.open_ b hb hre
    simp only; omega
  · intro c huc b hb hrqc hre'
    have hfc := hu c huc
    have hst := blockersAtN_stable (done := done) (p := p) (others_stable h (c := c) (by rw [hfc]; simp))
    rw [hst]
    by_cases hne : blockersAtN inst c done = []
    · left; exact hne
    · right
      obtain ⟨_, _, h3, _⟩ := fC_spec inst s.bs (found inst s.bs p) p b
      have hc : (found inst s.bs p).contains b.rq = true := by
        rw [List.contains_iff_mem, hfc, hrqc]; simp
      obtain ⟨hre, hcnt⟩ := (hcont b hb).mp hc
      obtain ⟨e1, e2, e3⟩ := h3 hc
      have he : (blockersOf s.bs b.rq).isEmpty = false := by
        rw [hbo, hrqc]
        cases hh : (blockersAtN inst c done).isEmpty with
        | false => rfl
        | true => exact absurd (List.isEmpty_iff.mp hh) hne
      rw [e3, he]
      refine ⟨{ size := b.size, blockers := blockersOf s.bs b.rq }, by simp, ?_, by rw [hbo, hrqc]⟩
      rw [e2] at hre'
      rw [e1]
      rcases addLevel_spec b (cnt (inst.queue b.rq) p) with ⟨_, _, a3⟩ | ⟨_, a2, _⟩
      · rw [a3] at hre'; cases hre'
      · simp only; omega

theorem step_same {inst : Instance} {done : List Int} {s : MState} (h : Inv inst done s) {p : Int} {c : Nat}
    (hf : found inst s.bs p = [c]) (hu : s.unique = some c) :
    Inv inst (done ++ [p])
      { s with bs := s.bs.map fun b => if b.rq = c then b.addLevel (cnt (inst.queue c) p) else b } := by
  have hcond : ∀ b ∈ s.bs, b.rq = c ↔ (b.reached = false ∧ cnt (inst.queue b.rq) p > 0) := by
    intro b hb
    rw [← mem_found h hb, hf]; simp
  have hst := blockersAtN_stable (done := done) (p := p) (others_stable h (c := c) (by rw [hf]; simp))
  apply Inv.step h p
  · intro b _
    split
    · exact ⟨(addLevel_rq b _).1, (addLevel_rq b _).2.1⟩
    · simp
  · intro b hb
    by_cases hbc : b.rq = c
    · obtain ⟨hre, hcnt⟩ := (hcond b hb).mp hbc
      left
      rw [if_pos hbc, ← hbc]
      exact ⟨hre, hcnt, rfl, rfl⟩
    · right
      rw [if_neg hbc]
      refine ⟨?_, rfl, rfl⟩
      cases hre : b.reached with
      | true => left; rfl
      | false =>
        right
        cases hcn : cnt (inst.queue b.rq) p with
        | zero => rfl
        | succ n => exact absurd ((hcond b hb).mpr ⟨hre, by omega⟩) hbc
  · intro b _
    left
    split
    · exact (addLevel_rq b _).2.2
    · rfl
  · intro b hb hre hcnt hne
    have hbc := (hcond b hb).mpr ⟨hre, hcnt⟩
    rcases h.uniq c hu b hb hbc hre with h0 | ⟨cut, hc, h1, h2⟩
    · rw [hbc] at hne; exact absurd h0 hne
    · obtain ⟨e1, _⟩ := h.open_ b hb hre
      refine ⟨cut, ?_, by omega, by rw [hbc]; exact h2⟩
      simp only [hbc, ↓reduceIte, (addLevel_rq b _).2.2]
      exact hc
  · intro c' hu' b hb hbc hre'
    have hcc : c' = c := by rw [hu] at hu'; cases hu'; rfl
    subst hcc
    rw [hst]
    obtain ⟨hre, _⟩ := (hcond b hb).mp hbc
    rcases h.uniq c' hu b hb hbc hre with h0 | ⟨cut, hc, h1, h2⟩
    · left; exact h0
    · right
      simp only [hbc, ↓reduceIte] at hre' ⊢
      refine ⟨cut, by rw [(addLevel_rq b _).2.2]; exact hc, ?_, h2⟩
      rcases addLevel_spec b (cnt (inst.queue c') p) with ⟨_, _, a3⟩ | ⟨_, a2, _⟩
      · rw [a3] at hre'; cases hre'
      · omega

theorem stepLevel_inv {inst : Instance} {done : List Int} {s : MState} (h : Inv inst done s) (p : Int) :
    Inv inst (done ++ [p]) (stepLevel inst s p) := by
  unfold stepLevel
  split
  · rename_i hf; exact step_nil h hf
  · rename_i c hf
    split
    · rename_i hu; exact step_same h hf hu
    · have := step_cut h (p := p) (some c) (fun c' hc' => by cases hc'; exact hf)
      rw [hf] at this; exact this
  · rename_i fnd h1 h2
    have := step_cut h (p := p) none (fun c' hc' => by cases hc')
    exact this

theorem foldl_inv {inst : Instance} : ∀ (ps done : List Int) (s : MState), Inv inst done s →
    Inv inst (done ++ ps) (ps.foldl (stepLevel inst) s)
  | [], done, s, h => by simpa using h
  | p :: rest, done, s, h => by
    have := foldl_inv rest (done ++ [p]) (stepLevel inst s p) (stepLevel_inv h p)
    simpa using this

end HqModel.Sched
