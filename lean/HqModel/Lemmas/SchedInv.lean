import HqModel.Sched.Spec
/-!
Lemmas for C15, part 10: the loop invariant of `batches` (`stepLevel` folded over the priorities), in terms of
prefix sums `N inst c done` of the per-level counts.
-/
namespace HqModel.Sched

/-- tasks of class `c` at the priorities `ps` -/
def N (inst : Instance) (c : Nat) (ps : List Int) : Nat := (ps.map (cnt (inst.queue c))).sum

theorem N_append (inst : Instance) (c : Nat) (ps qs : List Int) : N inst c (ps ++ qs) = N inst c ps + N inst c qs := by
  simp [N, List.map_append, List.sum_append]

theorem N_snoc (inst : Instance) (c : Nat) (ps : List Int) (p : Int) :
    N inst c (ps ++ [p]) = N inst c ps + cnt (inst.queue c) p := by
  simp [N_append, N]

/-- `blockersAt` with prefix sums instead of counts above a priority -/
def blockersAtN (inst : Instance) (c : Nat) (ps : List Int) : List (Nat × Option Nat) :=
  (inst.readyClasses.filter fun c' => c' != c && N inst c' ps > 0).map fun c' =>
    (c', if N inst c' ps > inst.limitOf c' then none else some (N inst c' ps))

/-- a level that adds nothing to the other classes, or only to classes beyond their limit, keeps the blockers -/
theorem blockersAtN_stable {inst : Instance} {c : Nat} {done : List Int} {p : Int}
    (h : ∀ c' ∈ inst.readyClasses, c' ≠ c → cnt (inst.queue c') p = 0 ∨ N inst c' done > inst.limitOf c') :
    blockersAtN inst c (done ++ [p]) = blockersAtN inst c done := by
  unfold blockersAtN
  generalize inst.readyClasses = l at h
  induction l with
  | nil => rfl
  | cons a rest ih =>
    have ih' := ih fun c' hc' => h c' (by simp [hc'])
    by_cases hac : a = c
    · subst hac
      simpa [List.filter_cons] using ih'
    · have hne : (a != c) = true := by simpa using hac
      rcases h a (by simp) hac with h0 | hlim
      · simp only [List.filter_cons, hne, Bool.true_and, N_snoc, h0, Nat.add_zero] at ih' ⊢
        split <;> simp_all
      · have h1 : N inst a (done ++ [p]) > inst.limitOf a := by rw [N_snoc]; omega
        have h2 : N inst a (done ++ [p]) > 0 := by omega
        have h3 : N inst a done > 0 := by omega
        simp only [List.filter_cons, hne, Bool.true_and, h2, h3, decide_true, ↓reduceIte, List.map_cons,
          h1, hlim, List.cons.injEq, true_and]
        exact ih'

structure Inv (inst : Instance) (done : List Int) (s : MState) : Prop where
  rqs : s.bs.map (·.rq) = inst.readyClasses
  limit : ∀ b ∈ s.bs, b.limit = inst.limitOf b.rq
  open_ : ∀ b ∈ s.bs, b.reached = false → b.size = N inst b.rq done ∧ b.size ≤ b.limit
  closed : ∀ b ∈ s.bs, b.reached = true → b.size = b.limit ∧ b.limit < N inst b.rq done
  sound : ∀ b ∈ s.bs, ∀ cut ∈ b.cuts, ∃ pre p post, done = pre ++ p :: post ∧ cnt (inst.queue b.rq) p > 0 ∧
      cut.size = N inst b.rq pre ∧ cut.size ≤ b.limit ∧ cut.blockers = blockersAtN inst b.rq pre
  exists_ : ∀ b ∈ s.bs, ∀ pre p post, done = pre ++ p :: post → cnt (inst.queue b.rq) p > 0 →
      N inst b.rq pre ≤ b.limit → blockersAtN inst b.rq pre ≠ [] →
      ∃ cut ∈ b.cuts, cut.size ≤ N inst b.rq pre ∧ cut.blockers = blockersAtN inst b.rq pre
  sizes : ∀ b ∈ s.bs, (∀ cut ∈ b.cuts, cut.size ≤ b.size) ∧ (b.cuts.Pairwise fun c1 c2 => c1.size ≤ c2.size) ∧
      b.cuts.length ≤ done.length
  uniq : ∀ c, s.unique = some c → ∀ b ∈ s.bs, b.rq = c → b.reached = false →
      blockersAtN inst c done = [] ∨ ∃ cut ∈ b.cuts, cut.size ≤ b.size ∧ cut.blockers = blockersAtN inst c done

/-- the batches of a list are identified by their class -/
theorem rq_inj {inst : Instance} {done : List Int} {s : MState} (h : Inv inst done s)
    (hnd : inst.readyClasses.Nodup) {b b' : Batch} (hb : b ∈ s.bs) (hb' : b' ∈ s.bs) (e : b.rq = b'.rq) : b = b' := by
  have : (s.bs.map (·.rq)).Nodup := by rw [h.rqs]; exact hnd
  clear h
  generalize s.bs = bs at hb hb' this
  induction bs with
  | nil => simp at hb
  | cons a rest ih =>
    simp only [List.map_cons, List.nodup_cons, List.mem_map, not_exists, not_and] at this
    rcases List.mem_cons.mp hb with hb1 | hb1
    · rcases List.mem_cons.mp hb' with hb2 | hb2
      · rw [hb1, hb2]
      · subst hb1; exact absurd e.symm (this.1 b' hb2)
    · rcases List.mem_cons.mp hb' with hb2 | hb2
      · subst hb2; exact absurd e (this.1 b hb1)
      · exact ih hb1 hb2 this.2

theorem readyClasses_nodup (inst : Instance) : inst.readyClasses.Nodup := by
  unfold Instance.readyClasses
  exact List.Nodup.sublist List.filter_sublist List.nodup_range

theorem filterMap_eq_map_filter {α β γ} (r : α → β) (f : α → Option γ) (g : β → Bool) (k : β → γ) :
    ∀ (l : List α), (∀ a ∈ l, f a = if g (r a) then some (k (r a)) else none) →
    l.filterMap f = ((l.map r).filter g).map k
  | [], _ => rfl
  | a :: rest, h => by
    have ih := filterMap_eq_map_filter r f g k rest fun a' ha' => h a' (by simp [ha'])
    have ha := h a (by simp)
    simp only [List.filterMap_cons, List.map_cons, List.filter_cons, ha]
    cases hg : g (r a) <;> simp [ih]

/-- under the invariant `blockersOf` is the closed form -/
theorem blockersOf_eq {inst : Instance} {done : List Int} {s : MState} (h : Inv inst done s) (c : Nat) :
    blockersOf s.bs c = blockersAtN inst c done := by
  unfold blockersOf blockersAtN
  rw [← h.rqs]
  apply filterMap_eq_map_filter (fun b : Batch => b.rq)
  intro b hb
  have hlb := h.limit b hb
  cases hre : b.reached with
  | true =>
    obtain ⟨h1, h2⟩ := h.closed b hb hre
    have hpos : N inst b.rq done > 0 := by omega
    have hgt : N inst b.rq done > inst.limitOf b.rq := by omega
    by_cases hbc : b.rq = c
    · simp [hbc]
    · have hne : (b.rq != c) = true := by simpa using hbc
      simp [hbc, hne, Batch.live, hre, hpos, hgt]
  | false =>
    obtain ⟨h1, h2⟩ := h.open_ b hb hre
    by_cases hbc : b.rq = c
    · simp [hbc]
    · have hne : (b.rq != c) = true := by simpa using hbc
      have hngt : ¬ N inst b.rq done > inst.limitOf b.rq := by omega
      by_cases hpos : N inst b.rq done > 0
      · have hsz : b.size > 0 := by omega
        simp [hbc, hne, Batch.live, hre, hpos, hngt, hsz, h1]
      · have hsz : ¬ b.size > 0 := by omega
        simp [hbc, hne, Batch.live, hre, hpos, hsz]

theorem snoc_split {α} {done pre post : List α} {p q : α} (h : done ++ [p] = pre ++ q :: post) :
    (post = [] ∧ pre = done ∧ q = p) ∨ ∃ post0, post = post0 ++ [p] ∧ done = pre ++ q :: post0 := by
  rcases List.eq_nil_or_concat post with rfl | ⟨post0, x, rfl⟩
  · left
    have := List.append_inj' h (by simp)
    simp only [List.cons.injEq, and_true] at this
    exact ⟨rfl, this.1.symm, this.2.symm⟩
  · right
    have h' : done ++ [p] = (pre ++ q :: post0) ++ [x] := by simpa using h
    have := List.append_inj' h' (by simp)
    simp only [List.cons.injEq, and_true] at this
    exact ⟨post0, by rw [this.2], this.1⟩

theorem addLevel_rq (b : Batch) (n : Nat) : (b.addLevel n).rq = b.rq ∧ (b.addLevel n).limit = b.limit ∧
    (b.addLevel n).cuts = b.cuts := by
  unfold Batch.addLevel; split <;> simp

/-- one level of the loop, for any per-batch update `f` that grows exactly the found batches and appends at most the
cut of this level -/
theorem Inv.step {inst : Instance} {done : List Int} {s : MState} (h : Inv inst done s) (p : Int)
    (f : Batch → Batch) (u : Option Nat)
    (hrq : ∀ b ∈ s.bs, (f b).rq = b.rq ∧ (f b).limit = b.limit)
    (hgrow : ∀ b ∈ s.bs,
      (b.reached = false ∧ cnt (inst.queue b.rq) p > 0 ∧
        (f b).size = (b.addLevel (cnt (inst.queue b.rq) p)).size ∧
        (f b).reached = (b.addLevel (cnt (inst.queue b.rq) p)).reached) ∨
      ((b.reached = true ∨ cnt (inst.queue b.rq) p = 0) ∧ (f b).size = b.size ∧ (f b).reached = b.reached))
    (hcuts : ∀ b ∈ s.bs, (f b).cuts = b.cuts ∨
      (b.reached = false ∧ cnt (inst.queue b.rq) p > 0 ∧
        (f b).cuts = b.cuts ++ [{ size := b.size, blockers := blockersOf s.bs b.rq }]))
    (hnew : ∀ b ∈ s.bs, b.reached = false → cnt (inst.queue b.rq) p > 0 → blockersAtN inst b.rq done ≠ [] →
      ∃ cut ∈ (f b).cuts, cut.size ≤ N inst b.rq done ∧ cut.blockers = blockersAtN inst b.rq done)
    (huniq : ∀ c, u = some c → ∀ b ∈ s.bs, b.rq = c → (f b).reached = false →
      blockersAtN inst c (done ++ [p]) = [] ∨
        ∃ cut ∈ (f b).cuts, cut.size ≤ (f b).size ∧ cut.blockers = blockersAtN inst c (done ++ [p])) :
    Inv inst (done ++ [p]) { bs := s.bs.map f, unique := u } := by
  have hbo := blockersOf_eq h
  -- size facts of an updated batch
  have hsz : ∀ b ∈ s.bs, b.size ≤ (f b).size ∨ ((f b).size = b.limit ∧ b.size ≤ b.limit ∧ b.reached = false) := by
    intro b hb
    rcases hgrow b hb with ⟨hre, _, e1, _⟩ | ⟨_, e1, _⟩
    · obtain ⟨_, h2⟩ := h.open_ b hb hre
      rw [e1]; unfold Batch.addLevel; split
      · right; exact ⟨rfl, h2, hre⟩
      · left; simp
    · left; omega
  refine ⟨?_, ?_, ?_, ?_, ?_, ?_, ?_, ?_⟩
  · -- rqs
    simp only [List.map_map]
    rw [← h.rqs]
    exact List.map_congr_left fun b hb => (hrq b hb).1
  · intro b' hb'
    obtain ⟨b, hb, rfl⟩ := List.mem_map.mp hb'
    rw [(hrq b hb).1, (hrq b hb).2]; exact h.limit b hb
  · -- open
    intro b' hb' hre'
    obtain ⟨b, hb, rfl⟩ := List.mem_map.mp hb'
    rw [(hrq b hb).1, (hrq b hb).2, N_snoc]
    rcases hgrow b hb with ⟨hre, _, e1, e2⟩ | ⟨hc, e1, e2⟩
    · obtain ⟨h1, h2⟩ := h.open_ b hb hre
      rw [e2] at hre'
      rw [e1]
      unfold Batch.addLevel at hre' ⊢
      split at hre'
      · simp at hre'
      · rename_i hle
        simp only [if_neg hle]
        omega
    · rw [e2] at hre'
      obtain ⟨h1, h2⟩ := h.open_ b hb hre'
      rcases hc with hc | hc
      · rw [hc] at hre'; cases hre'
      · rw [e1, hc]; omega
  · -- closed
    intro b' hb' hre'
    obtain ⟨b, hb, rfl⟩ := List.mem_map.mp hb'
    rw [(hrq b hb).1, (hrq b hb).2, N_snoc]
    rcases hgrow b hb with ⟨hre, _, e1, e2⟩ | ⟨_, e1, e2⟩
    · obtain ⟨h1, h2⟩ := h.open_ b hb hre
      rw [e2] at hre'
      rw [e1]
      unfold Batch.addLevel at hre' ⊢
      split at hre'
      · rename_i hgt
        simp only [if_pos hgt]
        omega
      · rw [hre] at hre'; cases hre'
    · rw [e2] at hre'
      obtain ⟨h1, h2⟩ := h.closed b hb hre'
      rw [e1]; omega
  · -- sound
    intro b' hb' cut hcut
    obtain ⟨b, hb, rfl⟩ := List.mem_map.mp hb'
    rw [(hrq b hb).1, (hrq b hb).2]
    have hold : cut ∈ b.cuts → ∃ pre p' post, done ++ [p] = pre ++ p' :: post ∧ cnt (inst.queue b.rq) p' > 0 ∧
        cut.size = N inst b.rq pre ∧ cut.size ≤ b.limit ∧ cut.blockers = blockersAtN inst b.rq pre := by
      intro hc
      obtain ⟨pre, p', post, e, h1, h2, h3, h4⟩ := h.sound b hb cut hc
      exact ⟨pre, p', post ++ [p], by rw [e]; simp, h1, h2, h3, h4⟩
    rcases hcuts b hb with e | ⟨hre, hcnt, e⟩
    · rw [e] at hcut; exact hold hcut
    · rw [e] at hcut
      rcases List.mem_append.mp hcut with hc | hc
      · exact hold hc
      · simp only [List.mem_singleton] at hc
        subst hc
        obtain ⟨h1, h2⟩ := h.open_ b hb hre
        exact ⟨done, p, [], rfl, hcnt, h1, h2, hbo b.rq⟩
  · -- exists
    intro b' hb' pre p' post hsplit hcnt hle hne
    obtain ⟨b, hb, rfl⟩ := List.mem_map.mp hb'
    rw [(hrq b hb).1] at hcnt hle hne ⊢
    rw [(hrq b hb).2] at hle
    have hsub : ∀ cut ∈ b.cuts, cut ∈ (f b).cuts := by
      intro cut hc
      rcases hcuts b hb with e | ⟨_, _, e⟩ <;> rw [e]
      · exact hc
      · exact List.mem_append_left _ hc
    rcases snoc_split hsplit with ⟨_, rfl, rfl⟩ | ⟨post0, _, e⟩
    · cases hre : b.reached with
      | true =>
        obtain ⟨h1, h2⟩ := h.closed b hb hre
        omega
      | false => exact hnew b hb hre hcnt hne
    · obtain ⟨cut, hc, h1, h2⟩ := h.exists_ b hb pre p' post0 e hcnt hle hne
      exact ⟨cut, hsub cut hc, h1, h2⟩
  · -- sizes
    intro b' hb'
    obtain ⟨b, hb, rfl⟩ := List.mem_map.mp hb'
    obtain ⟨s1, s2, s3⟩ := h.sizes b hb
    have hcutlim : ∀ cut ∈ b.cuts, cut.size ≤ b.limit := by
      intro cut hc
      obtain ⟨_, _, _, _, _, _, h3, _⟩ := h.sound b hb cut hc
      exact h3
    have hle_new : ∀ cut ∈ b.cuts, cut.size ≤ (f b).size := by
      intro cut hc
      rcases hsz b hb with h1 | ⟨h1, _, _⟩
      · exact Nat.le_trans (s1 cut hc) h1
      · rw [h1]; exact hcutlim cut hc
    rcases hcuts b hb with e | ⟨hre, _, e⟩
    · rw [e]
      exact ⟨hle_new, s2, by simp; omega⟩
    · rw [e]
      refine ⟨?_, ?_, by simp; omega⟩
      · intro cut hc
        rcases List.mem_append.mp hc with hc | hc
        · exact hle_new cut hc
        · simp only [List.mem_singleton] at hc
          subst hc
          rcases hsz b hb with h1 | ⟨h1, h2, _⟩
          · exact h1
          · simp only; omega
      · rw [List.pairwise_append]
        refine ⟨s2, by simp, ?_⟩
        intro c1 hc1 c2 hc2
        simp only [List.mem_singleton] at hc2
        subst hc2
        exact s1 c1 hc1
  · -- unique
    intro c hu b' hb' hrqc hre'
    obtain ⟨b, hb, rfl⟩ := List.mem_map.mp hb'
    rw [(hrq b hb).1] at hrqc
    exact huniq c hu b hb hrqc hre'

end HqModel.Sched
