import HqModel.Lemmas.AllocNoStop
/-!
The round-robin loop of `claim_scatter_from_groups` (scatter, and compact inside a chosen group set) terminates and
never indexes out of range, provided the groups of the round contain the amount (`ScatterOk`).
-/
namespace HqModel.Alloc

/-- the group indices the round robin visits, in order -/
def positions (set : Option (List Nat)) (n : Nat) : List Nat :=
  match set with
  | some s => s
  | none => List.range n

theorem setLen_eq (set : Option (List Nat)) (n : Nat) : setLen set n = (positions set n).length := by
  cases set <;> simp [setLen, positions]

theorem setGet_eq (set : Option (List Nat)) (n index : Nat) (h : index < (positions set n).length) :
    setGet set index = (positions set n)[index]? := by
  cases set with
  | some s => rfl
  | none =>
    simp only [positions, List.length_range] at h
    simp [setGet, positions, h]

def freeLen (gs : List Group) (p : Nat) : Nat := (gs[p]?.map (·.free.length)).getD 0

/-- free whole indices in the groups of the round -/
def totalFreeP (gs : List Group) (P : List Nat) : Nat := (P.map (freeLen gs)).sum

/-- the groups of the round contain the amount -/
def ScatterOk (gs : List Group) (P : List Nat) (units fr : Nat) : Prop :=
  units ≤ totalFreeP gs P ∧
    (fr = 0 ∨ units < totalFreeP gs P ∨ ∃ p ∈ P, ∃ g, gs[p]? = some g ∧ bestVal g.fracs fr ≠ none)

theorem sum_map_update {P : List Nat} (hnd : P.Nodup) {p : Nat} (hp : p ∈ P) {f f' : Nat → Nat}
    (hsame : ∀ q, q ≠ p → f' q = f q) (hdec : f' p + 1 = f p) : (P.map f').sum + 1 = (P.map f).sum := by
  induction P with
  | nil => cases hp
  | cons x xs ih =>
    obtain ⟨hx, hxs⟩ := List.nodup_cons.mp hnd
    simp only [List.map_cons, List.sum_cons]
    rcases List.mem_cons.mp hp with rfl | hp'
    · have : xs.map f' = xs.map f := by
        apply List.map_congr_left
        intro q hq
        exact hsame q (fun h => hx (h ▸ hq))
      rw [this]; omega
    · have hne : x ≠ p := fun h => hx (h ▸ hp')
      rw [hsame x hne]
      have := ih hxs hp'
      omega

theorem totalFreeP_pop {gs : List Group} {P : List Nat} (hnd : P.Nodup) {p : Nat} (hp : p ∈ P) {g : Group}
    {i : Nat} {rest : List Nat} (hg : gs[p]? = some g) (hfree : g.free = i :: rest) (fracs : FMap) :
    totalFreeP (gs.set p { free := rest, fracs := fracs }) P + 1 = totalFreeP gs P := by
  unfold totalFreeP
  apply sum_map_update hnd hp
  · intro q hq
    unfold freeLen
    rw [List.getElem?_set_ne (fun h => hq h.symm)]
  · unfold freeLen
    rw [List.getElem?_set_self (lt_length_of_getElem? hg), hg]
    simp [hfree]

theorem pos_of_totalFree {gs : List Group} {P : List Nat} (h : 0 < totalFreeP gs P) :
    ∃ p ∈ P, ∃ g, gs[p]? = some g ∧ g.free ≠ [] := by
  unfold totalFreeP at h
  induction P with
  | nil => simp at h
  | cons x xs ih =>
    simp only [List.map_cons, List.sum_cons] at h
    by_cases hx : 0 < freeLen gs x
    · unfold freeLen at hx
      cases hg : gs[x]? with
      | none => simp [hg] at hx
      | some g =>
        simp only [hg, Option.map_some, Option.getD_some] at hx
        exact ⟨x, by simp, g, hg, fun h => by rw [h] at hx; simp at hx⟩
    · obtain ⟨p, hp, r⟩ := ih (by omega)
      exact ⟨p, List.mem_cons_of_mem _ hp, r⟩

theorem cyclic_dist {n index j : Nat} (hi : index < n) (hj : j < n) : (index + (j + n - index) % n) % n = j := by
  rcases Nat.lt_or_ge j index with h | h
  · have h1 : (j + n - index) % n = j + n - index := Nat.mod_eq_of_lt (by omega)
    rw [h1]
    have h2 : index + (j + n - index) = j + n := by omega
    rw [h2, Nat.add_mod_right, Nat.mod_eq_of_lt hj]
  · have h1 : j + n - index = (j - index) + n := by omega
    have e1 : (j + n - index) % n = j - index := by
      rw [h1, Nat.add_mod_right]
      exact Nat.mod_eq_of_lt (by omega)
    have h2 : index + (j - index) = j := by omega
    rw [e1, h2, Nat.mod_eq_of_lt hj]

theorem idx_of_mem {P : List Nat} {p : Nat} (h : p ∈ P) : ∃ j, j < P.length ∧ P[j]? = some p := by
  obtain ⟨j, hj⟩ := List.getElem?_of_mem h
  exact ⟨j, lt_length_of_getElem? hj, hj⟩

/-- what one iteration does to the groups: lengths and fraction maps of untouched groups are kept -/
def FracsKept (gs gs' : List Group) : Prop :=
  gs'.length = gs.length ∧ ∀ (p : Nat) (g : Group), gs[p]? = some g → ∃ g', gs'[p]? = some g' ∧ g'.fracs = g.fracs

theorem FracsKept.refl (gs : List Group) : FracsKept gs gs := ⟨rfl, fun _ g h => ⟨g, h, rfl⟩⟩

theorem FracsKept.trans {a b c : List Group} (h₁ : FracsKept a b) (h₂ : FracsKept b c) : FracsKept a c := by
  refine ⟨by rw [h₂.1, h₁.1], fun p g hg => ?_⟩
  obtain ⟨g', hg', hf'⟩ := h₁.2 p g hg
  obtain ⟨g'', hg'', hf''⟩ := h₂.2 p g' hg'
  exact ⟨g'', hg'', by rw [hf'', hf']⟩

theorem FracsKept.pop {gs : List Group} {p : Nat} {g : Group} (hg : gs[p]? = some g) (rest : List Nat) :
    FracsKept gs (gs.set p { g with free := rest }) := by
  refine ⟨by simp, fun q g₁ hq => ?_⟩
  by_cases h : q = p
  · subst h
    rw [hg] at hq; cases hq
    exact ⟨{ g with free := rest }, by simp [lt_length_of_getElem? hg], rfl⟩
  · exact ⟨g₁, by rw [List.getElem?_set_ne (fun h' => h h'.symm)]; exact hq, rfl⟩

section loop
variable (set : Option (List Nat)) (pick : Option Nat)

theorem scatter_done (f : Nat) (gs : List Group) (index : Nat) (acc : List AIdx) :
    scatterLoop set pick (f + 1) gs 0 0 index acc = .ok (gs, acc) := by
  simp [scatterLoop]

/-- one iteration of the units phase -/
theorem scatter_step_unit {gs : List Group} {f fr index units p : Nat} {g : Group} {acc : List AIdx}
    (hu : 0 < units) (hidx : index < (positions set gs.length).length)
    (hp : (positions set gs.length)[index]? = some p) (hg : gs[p]? = some g) :
    scatterLoop set pick (f + 1) gs units fr index acc =
      match g.free with
      | i :: rest =>
        scatterLoop set pick f (gs.set p { g with free := rest }) (units - 1) fr
          ((index + 1) % (positions set gs.length).length) (acc ++ [⟨i, p, 0⟩])
      | [] => scatterLoop set pick f gs units fr ((index + 1) % (positions set gs.length).length) acc := by
  have hnz : ¬ (units = 0 ∧ fr = 0) := fun h => by omega
  simp only [scatterLoop, hnz, if_false, setGet_eq set gs.length index hidx, hp, hg, hu, if_true, setLen_eq]
  cases g.free <;> rfl

/-- one iteration of the fraction phase -/
theorem scatter_step_frac {gs : List Group} {f fr index p : Nat} {g : Group} {acc : List AIdx}
    (hfr : 0 < fr) (hidx : index < (positions set gs.length).length)
    (hp : (positions set gs.length)[index]? = some p) (hg : gs[p]? = some g) :
    scatterLoop set pick (f + 1) gs 0 fr index acc =
      match bestMatch g.fracs fr pick with
      | .error e => .error e
      | .ok (some (i, fv)) =>
        scatterLoop set pick f (gs.set p { g with fracs := fset g.fracs i (fv - fr) }) 0 0
          ((index + 1) % (positions set gs.length).length) (acc ++ [⟨i, p, fr⟩])
      | .ok none =>
        match g.free with
        | i :: rest =>
          scatterLoop set pick f (gs.set p { free := rest, fracs := fset g.fracs i (FPU - fr) }) 0 0
            ((index + 1) % (positions set gs.length).length) (acc ++ [⟨i, p, fr⟩])
        | [] => scatterLoop set pick f gs 0 fr ((index + 1) % (positions set gs.length).length) acc := by
  have hfr0 : fr ≠ 0 := by omega
  simp only [scatterLoop, hfr0, and_false, if_false, setGet_eq set gs.length index hidx, hp, hg, Nat.lt_irrefl,
    setLen_eq]
  cases bestMatch g.fracs fr pick with
  | error e => rfl
  | ok v =>
    cases v with
    | some kv => rfl
    | none => cases g.free <;> rfl

theorem mod_succ_add (index d n : Nat) : ((index + 1) % n + d) % n = (index + (d + 1)) % n := by
  rw [Nat.add_mod, Nat.mod_mod, ← Nat.add_mod]
  congr 1
  omega

/-- units phase: a whole index is taken within `dist + 1` iterations, where `dist` is the cyclic distance to a
non-empty group of the round -/
theorem scatter_progress {gs : List Group} {fr units : Nat} (hu : 0 < units)
    (hP : ∀ p ∈ positions set gs.length, p < gs.length) (hnd : (positions set gs.length).Nodup) :
    ∀ (dist fuel index : Nat) (acc : List AIdx), index < (positions set gs.length).length → dist + 1 ≤ fuel →
      (∃ p g, (positions set gs.length)[(index + dist) % (positions set gs.length).length]? = some p ∧
        gs[p]? = some g ∧ g.free ≠ []) →
      ∃ fuel' gs' index' acc', fuel ≤ fuel' + dist + 1 ∧
        scatterLoop set pick fuel gs units fr index acc = scatterLoop set pick fuel' gs' (units - 1) fr index' acc' ∧
        FracsKept gs gs' ∧ totalFreeP gs' (positions set gs.length) + 1 = totalFreeP gs (positions set gs.length) ∧
        index' < (positions set gs.length).length := by
  intro dist
  induction dist with
  | zero =>
    intro fuel index acc hidx hfuel hw
    obtain ⟨p, g, hp, hg, hne⟩ := hw
    simp only [Nat.add_zero, Nat.mod_eq_of_lt hidx] at hp
    obtain ⟨f, rfl⟩ : ∃ f, fuel = f + 1 := ⟨fuel - 1, by omega⟩
    have hnext : (index + 1) % (positions set gs.length).length < (positions set gs.length).length :=
      Nat.mod_lt _ (by omega)
    cases hfree : g.free with
    | nil => exact absurd hfree hne
    | cons i rest =>
      refine ⟨f, gs.set p { g with free := rest }, (index + 1) % (positions set gs.length).length,
        acc ++ [⟨i, p, 0⟩], by omega, ?_, FracsKept.pop hg rest, ?_, hnext⟩
      · rw [scatter_step_unit set pick hu hidx hp hg, hfree]
      · exact totalFreeP_pop hnd (List.mem_of_getElem? hp) hg hfree g.fracs
  | succ d ih =>
    intro fuel index acc hidx hfuel hw
    obtain ⟨f, rfl⟩ : ∃ f, fuel = f + 1 := ⟨fuel - 1, by omega⟩
    have hlenpos : 0 < (positions set gs.length).length := by omega
    have hnext : (index + 1) % (positions set gs.length).length < (positions set gs.length).length :=
      Nat.mod_lt _ hlenpos
    obtain ⟨p, hp⟩ : ∃ p, (positions set gs.length)[index]? = some p :=
      ⟨(positions set gs.length)[index], by simp [hidx]⟩
    have hplt := hP p (List.mem_of_getElem? hp)
    obtain ⟨g, hg⟩ : ∃ g, gs[p]? = some g := ⟨gs[p], by simp [hplt]⟩
    cases hfree : g.free with
    | cons i rest =>
      refine ⟨f, gs.set p { g with free := rest }, (index + 1) % (positions set gs.length).length,
        acc ++ [⟨i, p, 0⟩], by omega, ?_, FracsKept.pop hg rest, ?_, hnext⟩
      · rw [scatter_step_unit set pick hu hidx hp hg, hfree]
      · exact totalFreeP_pop hnd (List.mem_of_getElem? hp) hg hfree g.fracs
    | nil =>
      have hw' : ∃ p g, (positions set gs.length)[((index + 1) % (positions set gs.length).length + d) %
          (positions set gs.length).length]? = some p ∧ gs[p]? = some g ∧ g.free ≠ [] := by
        rw [mod_succ_add]
        exact hw
      obtain ⟨fuel', gs', index', acc', h1, h2, h3, h4, h5⟩ := ih f _ acc hnext (by omega) hw'
      refine ⟨fuel', gs', index', acc', by omega, ?_, h3, h4, h5⟩
      rw [← h2, scatter_step_unit set pick hu hidx hp hg, hfree]

theorem bestVal_none_of_bestMatch {m : FMap} {fr : Nat} {pick : Option Nat} (hb : bestMatch m fr pick = .ok none) :
    bestVal m fr = none := by
  unfold bestMatch at hb
  split at hb
  · assumption
  · split at hb
    · split at hb
      · split at hb <;> cases hb
      · cases hb
    · split at hb <;> cases hb

/-- fraction phase: within `dist + 1` iterations the fraction is taken (or a recorded pick is rejected), and the
iteration after that returns -/
theorem scatter_fraction {gs : List Group} {fr : Nat} (hfr : 0 < fr)
    (hP : ∀ p ∈ positions set gs.length, p < gs.length) :
    ∀ (dist fuel index : Nat) (acc : List AIdx), index < (positions set gs.length).length → dist + 2 ≤ fuel →
      (∃ p g, (positions set gs.length)[(index + dist) % (positions set gs.length).length]? = some p ∧
        gs[p]? = some g ∧ (bestVal g.fracs fr ≠ none ∨ g.free ≠ [])) →
      NoStop (scatterLoop set pick fuel gs 0 fr index acc) := by
  intro dist
  induction dist with
  | zero =>
    intro fuel index acc hidx hfuel hw
    obtain ⟨p, g, hp, hg, hne⟩ := hw
    simp only [Nat.add_zero, Nat.mod_eq_of_lt hidx] at hp
    obtain ⟨f, rfl⟩ : ∃ f, fuel = f + 2 := ⟨fuel - 2, by omega⟩
    rw [scatter_step_frac set pick hfr hidx hp hg]
    cases hb : bestMatch g.fracs fr pick with
    | error e =>
      intro er herr
      simp only [Except.error.injEq] at herr
      subst herr
      exact bestMatch_nostop _ _ _ _ hb
    | ok v =>
      cases v with
      | some kv =>
        obtain ⟨i, fv⟩ := kv
        dsimp only
        rw [scatter_done]
        exact NoStop.ok _
      | none =>
        dsimp only
        cases hfree : g.free with
        | cons i rest =>
          dsimp only
          rw [scatter_done]
          exact NoStop.ok _
        | nil =>
          exfalso
          rcases hne with h | h
          · exact h (bestVal_none_of_bestMatch hb)
          · exact h hfree
  | succ d ih =>
    intro fuel index acc hidx hfuel hw
    obtain ⟨f, rfl⟩ : ∃ f, fuel = f + 2 := ⟨fuel - 2, by omega⟩
    have hlenpos : 0 < (positions set gs.length).length := by omega
    have hnext : (index + 1) % (positions set gs.length).length < (positions set gs.length).length :=
      Nat.mod_lt _ hlenpos
    obtain ⟨p, hp⟩ : ∃ p, (positions set gs.length)[index]? = some p :=
      ⟨(positions set gs.length)[index], by simp [hidx]⟩
    have hplt := hP p (List.mem_of_getElem? hp)
    obtain ⟨g, hg⟩ : ∃ g, gs[p]? = some g := ⟨gs[p], by simp [hplt]⟩
    have hw' : ∃ p g, (positions set gs.length)[((index + 1) % (positions set gs.length).length + d) %
        (positions set gs.length).length]? = some p ∧ gs[p]? = some g ∧
        (bestVal g.fracs fr ≠ none ∨ g.free ≠ []) := by
      rw [mod_succ_add]
      exact hw
    rw [scatter_step_frac set pick hfr hidx hp hg]
    cases hb : bestMatch g.fracs fr pick with
    | error e =>
      intro er herr
      simp only [Except.error.injEq] at herr
      subst herr
      exact bestMatch_nostop _ _ _ _ hb
    | ok v =>
      cases v with
      | some kv =>
        obtain ⟨i, fv⟩ := kv
        dsimp only
        rw [scatter_done]
        exact NoStop.ok _
      | none =>
        dsimp only
        cases hfree : g.free with
        | cons i rest =>
          dsimp only
          rw [scatter_done]
          exact NoStop.ok _
        | nil =>
          dsimp only
          exact ih (f + 1) _ acc hnext (by omega) hw'

end loop

/-- **the round-robin loop does not stop** when the groups of the round contain the amount -/
theorem scatterLoop_nostop (set : Option (List Nat)) (pick : Option Nat) (n fr : Nat)
    (hP : ∀ p ∈ positions set n, p < n) (hnd : (positions set n).Nodup) :
    ∀ (units fuel : Nat) (gs : List Group) (index : Nat) (acc : List AIdx), gs.length = n →
      ScatterOk gs (positions set n) units fr →
      (index < (positions set n).length ∨ (units = 0 ∧ fr = 0)) →
      units * (positions set n).length + (positions set n).length + 2 ≤ fuel →
      NoStop (scatterLoop set pick fuel gs units fr index acc) := by
  intro units
  induction units with
  | zero =>
    intro fuel gs index acc hlen hok hidx hfuel
    obtain ⟨f, rfl⟩ : ∃ f, fuel = f + 1 := ⟨fuel - 1, by omega⟩
    rcases Nat.eq_zero_or_pos fr with h0 | hfr
    · subst h0
      rw [scatter_done]
      exact NoStop.ok _
    · have hidx' : index < (positions set n).length := by
        rcases hidx with h | ⟨-, h⟩
        · exact h
        · omega
      -- a position of the round where the fraction can be taken
      have hw : ∃ p ∈ positions set n, ∃ g, gs[p]? = some g ∧ (bestVal g.fracs fr ≠ none ∨ g.free ≠ []) := by
        rcases hok.2 with h | h | ⟨p, hp, g, hg, hb⟩
        · omega
        · obtain ⟨p, hp, g, hg, hne⟩ := pos_of_totalFree h
          exact ⟨p, hp, g, hg, .inr hne⟩
        · exact ⟨p, hp, g, hg, .inl hb⟩
      obtain ⟨p, hp, g, hg, hcond⟩ := hw
      obtain ⟨j, hj, hpj⟩ := idx_of_mem hp
      have hd := cyclic_dist hidx' hj
      have hdlt : (j + (positions set n).length - index) % (positions set n).length <
          (positions set n).length := Nat.mod_lt _ (by omega)
      have := scatter_fraction set pick (gs := gs) hfr (by rw [hlen]; exact hP)
        ((j + (positions set n).length - index) % (positions set n).length) (f + 1) index acc
        (by rw [hlen]; exact hidx') (by first | omega | (rw [hlen]; omega))
        ⟨p, g, by rw [hlen, hd]; exact hpj, hg, hcond⟩
      exact this
  | succ u ih =>
    intro fuel gs index acc hlen hok hidx hfuel
    have hidx' : index < (positions set n).length := by
      rcases hidx with h | ⟨h, -⟩
      · exact h
      · omega
    have hpos : 0 < totalFreeP gs (positions set n) := by have := hok.1; omega
    obtain ⟨p, hp, g, hg, hne⟩ := pos_of_totalFree hpos
    obtain ⟨j, hj, hpj⟩ := idx_of_mem hp
    have hd := cyclic_dist hidx' hj
    have hdlt : (j + (positions set n).length - index) % (positions set n).length <
        (positions set n).length := Nat.mod_lt _ (by omega)
    obtain ⟨fuel', gs', index', acc', h1, h2, h3, h4, h5⟩ :=
      scatter_progress set pick (gs := gs) (fr := fr) (units := u + 1) (by omega) (by rw [hlen]; exact hP)
        (by rw [hlen]; exact hnd)
        ((j + (positions set n).length - index) % (positions set n).length) fuel index acc
        (by rw [hlen]; exact hidx')
        (by
          have : (u + 1) * (positions set n).length = u * (positions set n).length + (positions set n).length :=
            Nat.succ_mul _ _
          omega)
        ⟨p, g, by rw [hlen, hd]; exact hpj, hg, hne⟩
    rw [hlen] at h4 h5
    rw [h2]
    simp only [Nat.add_sub_cancel]
    have hlen' : gs'.length = n := by rw [h3.1, hlen]
    apply ih fuel' gs' index' acc' hlen'
    · refine ⟨by have := hok.1; omega, ?_⟩
      rcases hok.2 with h | h | ⟨p', hp', g', hg', hb'⟩
      · exact .inl h
      · right; left; omega
      · obtain ⟨g'', hg'', hf''⟩ := h3.2 p' g' hg'
        exact .inr (.inr ⟨p', hp', g'', hg'', by rw [hf'']; exact hb'⟩)
    · exact .inl h5
    · have : (u + 1) * (positions set n).length = u * (positions set n).length + (positions set n).length :=
        Nat.succ_mul _ _
      omega

/-- `claim_scatter_from_groups` does not stop when the groups of the round contain the amount -/
theorem claimScatter_nostop {amount : Nat} {gs : List Group} {set : Option (List Nat)} {pick : Option Nat}
    (hP : ∀ p ∈ positions set gs.length, p < gs.length) (hnd : (positions set gs.length).Nodup)
    (hok : ScatterOk gs (positions set gs.length) (amount / FPU) (amount % FPU)) :
    NoStop (claimScatter amount gs set pick) := by
  unfold claimScatter
  generalize amount / FPU = u at hok ⊢
  generalize amount % FPU = fr at hok ⊢
  have hloop : NoStop (scatterLoop set pick (scatterFuel set gs.length u) gs u fr 0 []) := by
    apply scatterLoop_nostop set pick gs.length fr hP hnd _ _ gs 0 [] rfl hok
    · rcases Nat.eq_zero_or_pos (positions set gs.length).length with h0 | h0
      · right
        have hnil : positions set gs.length = [] := List.length_eq_zero_iff.mp h0
        rw [hnil] at hok
        obtain ⟨h1, h2⟩ := hok
        simp only [totalFreeP, List.map_nil, List.sum_nil] at h1 h2
        refine ⟨by omega, ?_⟩
        rcases h2 with h | h | ⟨p, hp, -⟩
        · exact h
        · omega
        · cases hp
      · exact .inl h0
    · unfold scatterFuel
      rw [setLen_eq]
      generalize (positions set gs.length).length = L
      have : (u + 2) * (L + 1) = u * L + u + 2 * L + 2 := by
        rw [Nat.add_mul, Nat.mul_add, Nat.mul_add]
        omega
      omega
  intro er herr
  split at herr
  · rename_i er' hl
    simp only [Except.error.injEq] at herr
    subst herr
    exact hloop _ hl
  · cases herr

/-! ### admission ⇒ `ScatterOk` for the `scatter` policy (all groups in the round) -/

theorem range_positions (n : Nat) : (∀ p ∈ positions none n, p < n) ∧ (positions none n).Nodup := by
  simp only [positions]
  exact ⟨fun p hp => List.mem_range.mp hp, List.nodup_range⟩

theorem admitted_scatter {U} {s : State} (hinv : Inv2 U s) {e : Entry} {full : Nat} {gs : List Group}
    (hp : s.pools[e.rid]? = some (.groups full gs)) (hpol : e.policy = .scatter)
    (hadm : entryHasResources s.pools s.concise e = true) :
    ScatterOk gs (positions none gs.length) (e.amount / FPU) (e.amount % FPU) := by
  have hr : e.rid < s.concise.length := by rw [hinv.concise.len]; exact lt_length_of_getElem? hp
  obtain ⟨c, hc⟩ := exists_get hr
  have hpc := hinv.concise.pc e.rid _ c hp hc
  have hpool := hinv.inv.pools.pool e.rid _ hp
  have hlt := concise_vals_lt hinv e.rid _ c hp hc
  rcases hpc with ⟨ht, -⟩ | ⟨-, hci⟩ | ⟨ht, -⟩
  · simp [Pool.tag] at ht
  · simp only [Pool.ngroups, Pool.groupsOf] at hci hpool
    -- units per group agree
    have hunits : ∀ (p : Nat) (cg : CGroup), c[p]? = some cg → ∃ g : Group, gs[p]? = some g ∧
        cg.units = g.free.length ∧
        ∀ i, fracOf cg.fracs i = fracOf g.fracs i := by
      intro p cg hcg
      have hplt : p < gs.length := by rw [← hci.len]; exact lt_length_of_getElem? hcg
      obtain ⟨g, hg⟩ := exists_get hplt
      obtain ⟨hlen, hfr⟩ := group_summary hpool hg
      exact ⟨g, hg, by rw [hci.units p cg hcg, hlen], fun i => by rw [hci.fracs p cg hcg i, hfr i]⟩
    have htotal : totalFreeP gs (positions none gs.length) = totalUnits c := by
      unfold totalFreeP totalUnits positions
      congr 1
      apply List.ext_getElem?
      intro p
      simp only [List.getElem?_map, List.getElem?_range]
      by_cases hplt : p < gs.length
      · have hpc' : p < c.length := by rw [hci.len]; exact hplt
        obtain ⟨cg, hcg⟩ := exists_get hpc'
        obtain ⟨g, hg, hu, -⟩ := hunits p cg hcg
        have hgg : gs[p] = g := by
          have := List.getElem?_eq_getElem hplt
          rw [hg] at this
          exact (Option.some.inj this).symm
        simp [hplt, hcg, freeLen, hu, hgg]
      · have hpc' : ¬ p < c.length := by rw [hci.len]; exact hplt
        simp [hplt, List.getElem?_eq_none (Nat.le_of_not_lt hpc')]
    have hle : e.amount ≤ c.maxAlloc := by
      unfold entryHasResources at hadm
      rw [hp] at hadm
      simp only [hc, Option.getD_some, hpol] at hadm
      exact of_decide_eq_true hadm
    have hF := maxFrac_lt c hlt
    rw [maxAlloc_eq, le_maxAlloc_iff _ _ _ hF, ← htotal] at hle
    refine ⟨by rcases hle with h | ⟨h, -⟩ <;> omega, ?_⟩
    rcases hle with h1 | ⟨h1, h2⟩
    · exact .inr (.inl h1)
    · rcases Nat.eq_zero_or_pos (e.amount % FPU) with h0 | hpos
      · exact .inl h0
      · right; right
        obtain ⟨cg, hcg, kv, hkv, hle'⟩ := (le_maxFrac_iff c _ hpos).mp h2
        obtain ⟨p, hpidx⟩ := List.getElem?_of_mem hcg
        obtain ⟨g, hg, -, hfr⟩ := hunits p cg hpidx
        have h3 := fget_of_mem (hci.nodup p cg hpidx) hkv
        have h4 : fracOf g.fracs kv.1 = kv.2 := by rw [← hfr, fracOf_of_fget h3]
        have hplt := lt_length_of_getElem? hg
        exact ⟨p, by simp [positions, hplt], g, hg, bestVal_ne_none (fget_of_fracOf_pos h4 (by omega)) hle'⟩
  · simp [Pool.tag] at ht

theorem claim_groups_scatter_nostop {U} {s : State} (hinv : Inv2 U s) {e : Entry} {full : Nat} {gs : List Group}
    {pick : Option Nat} (hp : s.pools[e.rid]? = some (.groups full gs)) (hpol : e.policy = .scatter)
    (hadm : entryHasResources s.pools s.concise e = true) : NoStop ((Pool.groups full gs).claim e pick) := by
  have hok := admitted_scatter hinv hp hpol hadm
  obtain ⟨hP, hnd⟩ := range_positions gs.length
  have := claimScatter_nostop (amount := e.amount) (pick := pick) hP hnd hok
  intro er herr
  simp only [Pool.claim, hpol] at herr
  split at herr
  · rename_i er' hc
    simp only [Except.error.injEq] at herr
    subst herr
    exact this _ hc
  · cases herr

/-- `try_allocate` does not stop: list / range / sum resources with any policy, grouped resources with `all` or
`scatter` -/
theorem tryAllocate_nostop_scatter {U} {s : State} (hinv : Inv2 U s) (hU : ∀ r g, (U r g).Nodup) (h : Nat)
    (rq : Request) (ch : Choices) (hnd : (rq.map (·.rid)).Nodup)
    (hplain : ∀ e ∈ rq, ∀ full gs, s.pools[e.rid]? = some (.groups full gs) →
      e.policy = .all ∨ e.policy = .scatter)
    (hcap : ∀ e ∈ rq, s.pools[e.rid]? ≠ some .empty) : NoStop (tryAllocate s h rq ch) := by
  apply tryAllocate_nostop hinv hU h rq ch hnd hplain _ hcap
  intro e he full gs hp hadm
  rcases hplain e he full gs hp with hpol | hpol
  · exact claim_groups_all_nostop hpol
  · exact claim_groups_scatter_nostop hinv hp hpol hadm

end HqModel.Alloc
