import HqModel.Lemmas.CoreNoPanicDefs
/-!
C09 progress for the core model, part 1: shared small lemmas.

* `NoCorePanic` through a `match … with | .error e => .error e | .ok x => …` chain;
* forward ("it succeeds") lemmas for the worker-record operations and the primitive state wrappers
  (`withWorker_ok`, `removeSn_ok`, `insertSn_ok`, …) — the existing `*_spec` lemmas are the backward direction;
* decomposition of the scheduling folds (`mapSn_cons`, `mapMnSets_cons`, `mapMn_cons`) matching the shape of
  `SnOk` / `MnSetsOk` / `MnOk`;
* index forms of the `zipIdx` clauses of `NpQ`.
-/
namespace HqModel.Core

/-! ### outcome -/

theorem NoCorePanic.bind {α β : Type} {r : M α} {f : α → M β} (h1 : NoCorePanic r)
    (h2 : ∀ x, r = .ok x → NoCorePanic (f x)) :
    NoCorePanic (match r with | .error e => .error e | .ok x => f x) := by
  cases r with
  | error e =>
    intro site hs
    simp only at hs
    cases hs
    exact h1 site rfl
  | ok x => exact h2 x rfl

theorem noCorePanic_iff {α : Type} (r : M α) :
    NoCorePanic r ↔ (∃ x, r = .ok x) ∨ ∃ site, r = .error (.panic site) ∧ site.startsWith "!" = true := by
  constructor
  · intro h
    cases r with
    | ok x => exact Or.inl ⟨x, rfl⟩
    | error e => cases e with | panic site => exact Or.inr ⟨site, rfl, h site rfl⟩
  · rintro (⟨x, rfl⟩ | ⟨site, rfl, h⟩)
    · exact NoCorePanic.ok x
    · exact NoCorePanic.bang h

namespace NP

/-! ### resource vectors -/

theorem setAt_length (l : List Nat) (i v : Nat) : (setAt l i v).length = l.length := by
  simp [setAt]

theorem freeAdd_ok (total : List Nat) : ∀ (es : List RqEntry) (F : List Nat), (∀ e ∈ es, e.res < F.length) →
    ∃ F', freeAdd F total es = .ok F' ∧ F'.length = F.length
  | [], F, _ => ⟨F, rfl, rfl⟩
  | e :: rest, F, h => by
    have he : ¬ e.res ≥ F.length := by have := h e (List.mem_cons_self); omega
    simp only [freeAdd, he, if_false]
    cases e.pol with
    | amount a =>
      simp only
      obtain ⟨F', h1, h2⟩ := freeAdd_ok total rest (setAt F e.res (getD F e.res + a))
        (fun x hx => by rw [setAt_length]; exact h x (List.mem_cons_of_mem _ hx))
      exact ⟨F', h1, by rw [h2, setAt_length]⟩
    | all =>
      simp only
      obtain ⟨F', h1, h2⟩ := freeAdd_ok total rest (setAt F e.res (getD total e.res))
        (fun x hx => by rw [setAt_length]; exact h x (List.mem_cons_of_mem _ hx))
      exact ⟨F', h1, by rw [h2, setAt_length]⟩

theorem freeRemove_ok : ∀ (es : List RqEntry) (F : List Nat), (∀ e ∈ es, e.res < F.length) →
    ∃ F', freeRemove F es = .ok F' ∧ F'.length = F.length
  | [], F, _ => ⟨F, rfl, rfl⟩
  | e :: rest, F, h => by
    have he : ¬ e.res ≥ F.length := by have := h e (List.mem_cons_self); omega
    simp only [freeRemove, he, if_false]
    cases e.pol with
    | amount a =>
      simp only
      obtain ⟨F', h1, h2⟩ := freeRemove_ok rest (setAt F e.res (getD F e.res - a))
        (fun x hx => by rw [setAt_length]; exact h x (List.mem_cons_of_mem _ hx))
      exact ⟨F', h1, by rw [h2, setAt_length]⟩
    | all =>
      simp only
      obtain ⟨F', h1, h2⟩ := freeRemove_ok rest (setAt F e.res 0)
        (fun x hx => by rw [setAt_length]; exact h x (List.mem_cons_of_mem _ hx))
      exact ⟨F', h1, by rw [h2, setAt_length]⟩

theorem freeAdd_length {total : List Nat} : ∀ {es : List RqEntry} {F F' : List Nat},
    freeAdd F total es = .ok F' → F'.length = F.length
  | [], F, F', h => by simp only [freeAdd] at h; cases h; rfl
  | e :: rest, F, F', h => by
    simp only [freeAdd] at h
    split at h
    · cases h
    · split at h
      · rw [freeAdd_length h, setAt_length]
      · rw [freeAdd_length h, setAt_length]

theorem freeRemove_length : ∀ {es : List RqEntry} {F F' : List Nat},
    freeRemove F es = .ok F' → F'.length = F.length
  | [], F, F', h => by simp only [freeRemove] at h; cases h; rfl
  | e :: rest, F, F', h => by
    simp only [freeRemove] at h
    split at h
    · cases h
    · split at h
      · rw [freeRemove_length h, setAt_length]
      · rw [freeRemove_length h, setAt_length]

/-- `fitsNow` implies that every entry names a slot of the free vector -/
theorem fitsNow_idx {free total : List Nat} {es : List RqEntry} (h : fitsNow free total es = true) :
    ∀ e ∈ es, e.res < free.length := by
  intro e he
  simp only [fitsNow, List.all_eq_true, Bool.and_eq_true, decide_eq_true_eq] at h
  exact (h e he).1

/-! ### worker-record operations, forward -/

theorem removeSn_ok {wk : Worker} {A F P} {t : TaskId} {r : Rq} (ha : wk.assign = .sn A F P) (ht : t ∈ A)
    (hidx : ∀ e ∈ r.entries, e.res < F.length) :
    ∃ F', wk.removeSn t r = .ok { wk with assign := .sn (A.erase t) F' P } ∧ F'.length = F.length := by
  obtain ⟨F', h1, h2⟩ := freeAdd_ok wk.total r.entries F hidx
  refine ⟨F', ?_, h2⟩
  simp [Worker.removeSn, ha, ht, h1]

theorem insertSn_ok {wk : Worker} {A F P} {t : TaskId} {r : Rq} (ha : wk.assign = .sn A F P) (ht : t ∉ A)
    (hidx : ∀ e ∈ r.entries, e.res < F.length) :
    ∃ F', wk.insertSn t r = .ok { wk with assign := .sn (A ++ [t]) F' P } ∧ F'.length = F.length := by
  obtain ⟨F', h1, h2⟩ := freeRemove_ok r.entries F hidx
  refine ⟨F', ?_, h2⟩
  simp [Worker.insertSn, ha, h1, ht]

theorem removePrefill_ok {wk : Worker} {A F P} {t : TaskId} (ha : wk.assign = .sn A F P) (ht : t ∈ P) :
    wk.removePrefill t = .ok { wk with assign := .sn A F (P.erase t) } := by
  simp [Worker.removePrefill, ha, ht]

theorem insertPrefill_ok {wk : Worker} {A F P} {t : TaskId} (ha : wk.assign = .sn A F P) (ht : t ∉ P) :
    wk.insertPrefill t = .ok { wk with assign := .sn A F (P ++ [t]) } := by
  simp [Worker.insertPrefill, ha, ht]

theorem prefilledToStarted_ok {wk : Worker} {A F P} {t : TaskId} {r : Rq} (ha : wk.assign = .sn A F P)
    (hp : t ∈ P) (hna : t ∉ A) (hidx : ∀ e ∈ r.entries, e.res < F.length) :
    ∃ F', wk.prefilledToStarted t r = .ok { wk with assign := .sn (A ++ [t]) F' (P.erase t) } ∧
      F'.length = F.length := by
  obtain ⟨F', h1, h2⟩ := freeRemove_ok r.entries F hidx
  refine ⟨F', ?_, h2⟩
  simp [Worker.prefilledToStarted, ha, h1, hp, hna]

theorem setMn_ok {wk : Worker} {t : TaskId} {root : Bool} (hf : wk.isFree = true) :
    wk.setMn t root = .ok { wk with assign := .mn t root false } := by
  simp [Worker.setMn, hf]

theorem withWorker_ok {s : State} {w : Nat} {wk wk' : Worker} {f : Worker → M Worker} (hw : s.worker? w = some wk)
    (hf : f wk = .ok wk') : s.withWorker w f = .ok (s.setWorker wk') := by
  simp [State.withWorker, State.getWorker, hw, hf]

theorem getWorker_ok {s : State} {w : Nat} {wk : Worker} (hw : s.worker? w = some wk) : s.getWorker w = .ok wk := by
  simp [State.getWorker, hw]

theorem getTask_ok {s : State} {t : TaskId} {task : Task} (ht : s.task? t = some task) : s.getTask t = .ok task := by
  simp [State.getTask, ht]

theorem worker?_eq (s : State) (w : Nat) : s.worker? w = findWorker s.workers w := rfl
theorem task?_eq (s : State) (t : TaskId) : s.task? t = findTask s.tasks t := rfl

/-! ### worker lists -/

theorem mem_putWorker {ws : List Worker} {w x : Worker} (h : x ∈ putWorker ws w) : x = w ∨ x ∈ ws := by
  induction ws with
  | nil => simp [putWorker] at h
  | cons y ys ih =>
    simp only [putWorker] at h
    split at h
    · rcases List.mem_cons.mp h with e | e
      · exact .inl e
      · rcases ih e with e' | e'
        · exact .inl e'
        · exact .inr (List.mem_cons_of_mem _ e')
    · rcases List.mem_cons.mp h with e | e
      · exact .inr (e ▸ List.mem_cons_self)
      · rcases ih e with e' | e'
        · exact .inl e'
        · exact .inr (List.mem_cons_of_mem _ e')

theorem putWorker_ids (ws : List Worker) (w : Worker) : (putWorker ws w).map (·.id) = ws.map (·.id) := by
  induction ws with
  | nil => rfl
  | cons y ys ih =>
    simp only [putWorker]
    split
    · rename_i e; simp [ih, e]
    · simp [ih]

theorem findWorker_some_mem {ws : List Worker} {w : Nat} {wk : Worker} (h : findWorker ws w = some wk) : wk ∈ ws := by
  induction ws with
  | nil => simp [findWorker] at h
  | cons y ys ih =>
    simp only [findWorker] at h
    split at h
    · cases h; exact List.mem_cons_self
    · exact List.mem_cons_of_mem _ (ih h)

/-- with unique ids, membership determines the lookup -/
theorem findWorker_of_mem {ws : List Worker} (hn : (ws.map (·.id)).Nodup) {wk : Worker} (h : wk ∈ ws) :
    findWorker ws wk.id = some wk := by
  induction ws with
  | nil => cases h
  | cons y ys ih =>
    simp only [List.map_cons, List.nodup_cons] at hn
    simp only [findWorker]
    rcases List.mem_cons.mp h with e | e
    · subst e; simp
    · have : y.id ≠ wk.id := fun e' => hn.1 (e' ▸ List.mem_map_of_mem e)
      simp only [this, if_false]
      exact ih hn.2 e

/-! ### decomposition of the scheduling folds -/

theorem mapSn_cons (s : State) (now : Nat) (m : List WUpdate) (e : SnEntry) (rest : List SnEntry) :
    s.mapSn now m (e :: rest) =
      match s.mapSn now m [e] with
      | .error err => .error err
      | .ok (s1, m1) => s1.mapSn now m1 rest := by
  simp only [State.mapSn]
  repeat' split
  all_goals first | rfl | simp_all

theorem mapMnSets_cons (s : State) (rq : Nat) (ws : List Nat) (rest : List (List Nat)) (acc : List TaskId) :
    s.mapMnSets rq (ws :: rest) acc =
      match s.mapMnSets rq [ws] acc with
      | .error err => .error err
      | .ok (s1, acc1) => s1.mapMnSets rq rest acc1 := by
  simp only [State.mapMnSets]
  repeat' split
  all_goals first | rfl | simp_all

theorem mapMn_cons (s : State) (e : MnEntry) (rest : List MnEntry) (acc : List TaskId) :
    s.mapMn (e :: rest) acc =
      match s.mapMnSets e.rq e.sets acc with
      | .error err => .error err
      | .ok (s1, acc1) => s1.mapMn rest acc1 := rfl

end NP

open NP

/-! ### index forms of the queue clauses -/

theorem NP.mem_zipIdx_of_get {qs : List Queue} {i : Nat} {q : Queue} (h : qs[i]? = some q) : (q, i) ∈ qs.zipIdx :=
  List.mem_zipIdx_iff_getElem?.mpr h

theorem NP.mem_of_get {qs : List Queue} {i : Nat} {q : Queue} (h : qs[i]? = some q) : q ∈ qs :=
  List.mem_of_getElem? h

theorem NpQ.rg' {D R} {s : State} (h : NpQ D R s) {i : Nat} {q : Queue} (hq : s.queues[i]? = some q)
    {e : Int × List TaskId} (he : e ∈ q.ready) {id : TaskId} (hid : id ∈ e.2) : ReadyGood R s i e.1 id :=
  h.rg (q, i) (mem_zipIdx_of_get hq) e he id hid

theorem NpQ.pg' {D R} {s : State} (h : NpQ D R s) {i : Nat} {q : Queue} (hq : s.queues[i]? = some q)
    {pp : Int} {ts : List TaskId} (hp : q.prefill = some (pp, ts)) {id : TaskId} (hid : id ∈ ts) : PfGood R s i pp id :=
  h.pg (q, i) (mem_zipIdx_of_get hq) pp ts hp id hid

theorem NpQ.mono {D D' : TaskId → Prop} {R} {s : State} (h : NpQ D R s) (hd : ∀ x, D x → D' x) : NpQ D' R s :=
  ⟨h.wf, h.rg, h.pnd, h.pg, fun t ht hp hr hn => h.pin t ht hp hr (fun e => hn (hd _ e)), h.rnd, h.rpre⟩

/-- what `ReadyGood` says, as an existential -/
theorem ReadyGood.elim {R} {s : State} {i : Nat} {p : Int} {id : TaskId} (h : ReadyGood R s i p id) :
    ∃ t, s.task? id = some t ∧ t.rq = i ∧ t.prio = p ∧
      (t.state = .waiting 0 ∨ ((∃ w, t.state = .retracting w) ∧ ∀ x ∈ s.redirects, x.1 ≠ id) ∨
       ((∃ w, t.state = .prefilled w) ∧ id ∈ R)) := by
  unfold ReadyGood at h
  split at h
  · exact h.elim
  · rename_i t ht
    refine ⟨t, ht, h.1, h.2.1, ?_⟩
    have h3 := h.2.2
    split at h3
    · rename_i n hs; subst h3; exact .inl hs
    · rename_i w hs; exact .inr (.inl ⟨⟨w, hs⟩, h3⟩)
    · rename_i w hs; exact .inr (.inr ⟨⟨w, hs⟩, h3⟩)
    · exact h3.elim

theorem ReadyGood.intro {R} {s : State} {i : Nat} {p : Int} {id : TaskId} {t : Task} (ht : s.task? id = some t)
    (hrq : t.rq = i) (hp : t.prio = p)
    (hs : t.state = .waiting 0 ∨ ((∃ w, t.state = .retracting w) ∧ ∀ x ∈ s.redirects, x.1 ≠ id) ∨
       ((∃ w, t.state = .prefilled w) ∧ id ∈ R)) : ReadyGood R s i p id := by
  unfold ReadyGood
  rw [ht]
  refine ⟨hrq, hp, ?_⟩
  rcases hs with hs | ⟨⟨w, hs⟩, h2⟩ | ⟨⟨w, hs⟩, h2⟩ <;> rw [hs] <;> simp only
  · exact h2
  · exact h2

theorem PfGood.elim {R} {s : State} {i : Nat} {pp : Int} {id : TaskId} (h : PfGood R s i pp id) :
    ∃ t w, s.task? id = some t ∧ t.rq = i ∧ t.prio = pp ∧ id ∉ R ∧ t.state = .prefilled w := by
  unfold PfGood at h
  split at h
  · exact h.elim
  · rename_i t ht
    have h3 := h.2.2.2
    split at h3
    · rename_i w hs; exact ⟨t, w, ht, h.1, h.2.1, h.2.2.1, hs⟩
    · exact h3.elim

theorem PfGood.intro {R} {s : State} {i : Nat} {pp : Int} {id : TaskId} {t : Task} {w : Nat} (ht : s.task? id = some t)
    (hrq : t.rq = i) (hp : t.prio = pp) (hr : id ∉ R) (hs : t.state = .prefilled w) : PfGood R s i pp id := by
  unfold PfGood
  rw [ht]
  refine ⟨hrq, hp, hr, ?_⟩
  rw [hs]; trivial

theorem IsPrefilled.elim {s : State} {id : TaskId} (h : IsPrefilled s id) :
    ∃ t w, s.task? id = some t ∧ t.state = .prefilled w := by
  unfold IsPrefilled at h
  split at h
  · rename_i t ht
    split at h
    · rename_i w hs; exact ⟨t, w, ht, hs⟩
    · exact h.elim
  · exact h.elim

theorem IsPrefilled.intro {s : State} {id : TaskId} {t : Task} {w : Nat} (ht : s.task? id = some t)
    (hs : t.state = .prefilled w) : IsPrefilled s id := by
  unfold IsPrefilled; rw [ht]; simp only; rw [hs]; trivial

theorem InPrefill.elim {s : State} {t : Task} (h : InPrefill s t) :
    ∃ q pp ts, s.queues[t.rq]? = some q ∧ q.prefill = some (pp, ts) ∧ t.id ∈ ts := by
  unfold InPrefill at h
  split at h
  · rename_i q hq
    unfold pfIds at h
    split at h
    · rename_i pp ts hp; exact ⟨q, pp, ts, hq, hp, h⟩
    · cases h
  · exact h.elim

theorem InPrefill.intro {s : State} {t : Task} {q : Queue} {pp : Int} {ts : List TaskId}
    (hq : s.queues[t.rq]? = some q) (hp : q.prefill = some (pp, ts)) (hm : t.id ∈ ts) : InPrefill s t := by
  unfold InPrefill; rw [hq]; simp only [pfIds, hp]; exact hm

theorem IdxOk.elim {s : State} {w rq v : Nat} (h : IdxOk s w rq v) :
    ∃ r, s.rq rq v = .ok r ∧ ∀ wk, s.worker? w = some wk → ∀ e ∈ r.entries, e.res < wk.total.length := by
  unfold IdxOk at h
  split at h
  · rename_i r hr; exact ⟨r, hr, h⟩
  · exact h.elim

theorem IdxOk.intro {s : State} {w rq v : Nat} {r : Rq} (hr : s.rq rq v = .ok r)
    (h : ∀ wk, s.worker? w = some wk → ∀ e ∈ r.entries, e.res < wk.total.length) : IdxOk s w rq v := by
  unfold IdxOk; rw [hr]; exact h

theorem RunIdx.elim {s : State} {w rq rv : Nat} (h : RunIdx s w rq rv) :
    ∃ r wk, s.rq rq rv = .ok r ∧ s.worker? w = some wk ∧ ∀ e ∈ r.entries, e.res < wk.total.length := by
  unfold RunIdx at h
  split at h
  · rename_i r wk hr hw; exact ⟨r, wk, hr, hw, h⟩
  · exact h.elim

end HqModel.Core
