import HqModel.Lemmas.SysWSched
/-!
The invariant of the composed system `SysW` and the lemmas that move ONE pipeline (`Pipe c U x t`) through the three
kinds of world action:

* a step of the worker (`Pipe.worker`: the lemmas of `Lemmas/SysWWorker*.lean`);
* a server action that is foreign to the worker / the task (`Pipe.srv`);
* the server processing the head event of the worker's own stream (`Pipe.own`).
-/
namespace HqModel.SysW
open HqModel HqModel.Core

structure WInv (s : State) : Prop where
  coupled : Sys.Coupled s.sys
  /-- every task of the core map was submitted -/
  sub : ∀ t ∈ Core.taskIds s.sys.core.tasks, t ∈ s.submitted
  nodup : (s.workers.map (·.id)).Nodup
  bkeys : ∀ x ∈ s.workers, x.w.bkeys.Nodup
  pipe : ∀ x ∈ s.workers, ∀ t, Pipe s.sys.core s.submitted x t

/-- the side conditions of a world action: those of the `Sys` action it performs that are NOT about what a worker
sends (`Sys.OpOk` minus `UpdatesOk`), "no task id is submitted twice", and "a new worker id is new" (no task of
the core refers to it: worker ids come from a counter) -/
def OpOk (s : State) : Op → Prop
  | .srv (.submit job mf desc nts) => Sys.OpOk s.sys (.submit job mf desc nts) ∧ ∀ nt ∈ nts, nt.id ∉ s.submitted
  | .srv op => Sys.OpOk s.sys op
  | .addWorker wk _ _ => Sys.OpOk s.sys (.newWorker wk) ∧ ∀ task ∈ s.sys.core.tasks, Core.owner task.state ≠ some wk.id
  | _ => True

/-! ### plumbing -/

def route1 (x : WState) (msgs : List Core.Msg) : WState := { x with s2w := x.s2w ++ msgs.filterMap (msgFor x.id) }

theorem routeMsgs_eq (ws : List WState) (msgs : List Core.Msg) : routeMsgs ws msgs = ws.map fun x => route1 x msgs := rfl

theorem mem_routeMsgs {ws : List WState} {msgs : List Core.Msg} {y : WState} (h : y ∈ routeMsgs ws msgs) :
    ∃ x ∈ ws, y = route1 x msgs := by
  rw [routeMsgs_eq] at h
  obtain ⟨x, hx, rfl⟩ := List.mem_map.mp h
  exact ⟨x, hx, rfl⟩

theorem routeMsgs_ids (ws : List WState) (msgs : List Core.Msg) : (routeMsgs ws msgs).map (·.id) = ws.map (·.id) := by
  rw [routeMsgs_eq, List.map_map]; rfl

theorem findW_some {ws : List WState} {w : Nat} {x : WState} (h : findW ws w = some x) : x ∈ ws ∧ x.id = w := by
  unfold findW at h
  exact ⟨List.mem_of_find?_eq_some h, by simpa using List.find?_some h⟩

theorem mem_setW {ws : List WState} {x' y : WState} (h : y ∈ setW ws x') : y = x' ∨ (y ∈ ws ∧ y.id ≠ x'.id) := by
  unfold setW at h
  obtain ⟨z, hz, rfl⟩ := List.mem_map.mp h
  split
  · exact .inl rfl
  · rename_i hne; exact .inr ⟨hz, hne⟩

theorem setW_ids (ws : List WState) (x' : WState) : (setW ws x').map (·.id) = ws.map (·.id) := by
  unfold setW
  rw [List.map_map]
  apply List.map_congr_left
  intro y _
  simp only [Function.comp]
  split
  · rename_i e; rw [e]
  · rfl

theorem comps_cons (t : TaskId) (m : S2W) (q : List S2W) : comps t (m :: q) = compsOfMsg t m ++ comps t q := rfl
theorem pend_cons (t : TaskId) (m : W2S) (q : List W2S) : pend t (m :: q) = evsOfMsg t m ++ pend t q := rfl

theorem comps_route1 (t : TaskId) (x : WState) (msgs : List Core.Msg) :
    comps t (route1 x msgs).s2w = comps t x.s2w ++ cfor x.id t msgs := by
  simp only [route1, comps_append]; rfl

/-! ### events of the worker's outputs in the queue -/

theorem evsOfUpd_dec (t : TaskId) (u : Worker.Update) : evsOfUpd t (decUpd u) = evsW (enc t) u := by
  cases u <;> simp only [decUpd, evsOfUpd, evsW, dec_eq_iff]

theorem pend_outs (t : TaskId) (outs : List Worker.Out) : pend t (outs.filterMap outMsg) = evsOuts (enc t) outs := by
  induction outs with
  | nil => rfl
  | cons o rest ih =>
    simp only [List.filterMap_cons, evsOuts, List.flatMap_cons]
    cases o with
    | updates us =>
      simp only [outMsg, pend_cons, ih, evsOuts, evsOfMsg, evsOut, List.flatMap_map, evsOfUpd_dec]
    | retractResponse ids =>
      simp only [outMsg, pend_cons, ih, evsOuts, evsOfMsg, evsOut, List.mem_map]
      congr 1
      have : (∃ a, a ∈ ids ∧ dec a = t) ↔ enc t ∈ ids := by
        constructor
        · rintro ⟨a, ha, e⟩; rw [← dec_eq_iff.mp e]; exact ha
        · intro h; exact ⟨enc t, h, dec_enc t⟩
      by_cases h : enc t ∈ ids
      · rw [if_pos h, if_pos (this.mpr h)]
      · rw [if_neg h, if_neg (fun e => h (this.mp e))]
    | launch a b c d e => simpa [outMsg, evsOut, evsOuts] using ih
    | release h => simpa [outMsg, evsOut, evsOuts] using ih
    | stop a k => simpa [outMsg, evsOut, evsOuts] using ih
    | stopped => simpa [outMsg, evsOut, evsOuts] using ih

/-- the items of the M2 operation a message is delivered as -/
theorem itemsW_zip (t : TaskId) : ∀ (items : List (TaskId × Nat × Option Nat × List Nat)) (extras : List Extra),
    items.length = extras.length →
    itemsW (enc t) (List.zipWith mkEntry items extras) = compsOfMsg t (.compute items)
  | [], [], _ => rfl
  | [], _ :: _, h => by simp at h
  | _ :: _, [], h => by simp at h
  | it :: items, x :: extras, h => by
    have ih := itemsW_zip t items extras (by simpa using h)
    simp only [List.zipWith_cons_cons, itemsW_cons, compsOfMsg, List.filter_cons] at ih ⊢
    by_cases he : it.1 = t
    · have : (mkEntry it x).task.id = enc t := by simp [mkEntry, he]
      simp only [this, if_true, he, decide_true, List.map_cons]
      rw [ih]; rfl
    · have : (mkEntry it x).task.id ≠ enc t := by
        simp only [mkEntry]; intro e; exact he (enc_inj e)
      simp only [this, if_false, he, decide_false]
      exact ih

theorem toWorkerOp_items {m : S2W} {extras : List Extra} {op : Worker.Op} (t : TaskId) (h : toWorkerOp m extras = some op) :
    (∀ es, op = .compute es → itemsW (enc t) es = compsOfMsg t m) ∧ ((∀ es, op ≠ .compute es) → compsOfMsg t m = []) := by
  cases m with
  | compute items =>
    simp only [toWorkerOp] at h
    split at h
    · rename_i hl
      cases h
      exact ⟨fun es e => by cases e; exact itemsW_zip t items extras hl, fun hn => (hn _ rfl).elim⟩
    · cases h
  | retract ids => simp only [toWorkerOp] at h; cases h; exact ⟨fun es e => (by cases e), fun _ => rfl⟩
  | cancel ids => simp only [toWorkerOp] at h; cases h; exact ⟨fun es e => (by cases e), fun _ => rfl⟩

/-! ### one pipeline through a step of the worker -/

/-- what the delivery lemmas of `SysWWorker*.lean` say about a step, for the items `cm` of the delivered message -/
structure WStep (cm : List (Option Nat)) (E : List Ev) (ws ws' : Worker.State) (n : Nat) : Prop where
  free : Free ws n → cm = [] → E = [] ∧ Free ws' n
  asg : ∀ rv, Free ws n → cm = [some rv] → AsgDone rv E ws' n
  pre : Free ws n → cm = [none] → PreDone E ws' n
  back : Back ws n → cm = [] → PreDone E ws' n

theorem wstep_of_step {n : Nat} {s s' : Worker.State} {op : Worker.Op} {outs : List Worker.Out} {cm : List (Option Nat)}
    (hk : s.bkeys.Nodup)
    (hcm : match op with
      | .compute es => itemsW n es = cm
      | _ => cm = [])
    (hs : Worker.step s op = .ok (s', outs)) : WStep cm (evsOuts n outs) s s' n := by
  refine ⟨fun hf e => ?_, fun rv hf e => ?_, fun hf e => ?_, fun hb e => ?_⟩
  · have : NoItem n op := by cases op <;> first | trivial | (simp only [NoItem]; rw [hcm, e])
    obtain ⟨a, b⟩ := step_free hf this hs
    exact ⟨b, a⟩
  · cases op with
    | compute es => exact step_asg hf (by rw [hcm, e]) hs
    | _ => simp only at hcm; rw [hcm] at e; cases e
  · cases op with
    | compute es => exact step_pre hf (by rw [hcm, e]) hs
    | _ => simp only at hcm; rw [hcm] at e; cases e
  · have : NoItem n op := by cases op <;> first | trivial | (simp only [NoItem]; rw [hcm, e])
    exact step_back hb hk this hs

theorem D_append_run {P : List Ev} {rv : Nat} {rest X : List Ev} (h : P = .run rv :: rest) : P ++ X = .run rv :: (rest ++ X) := by
  rw [h]; rfl

theorem PipeOk.deliver {v : V} {cm cs' : List (Option Nat)} {P E : List Ev} {ws ws' : Worker.State} {n : Nat}
    (h : PipeOk v (cm ++ cs') P ws n) (st : WStep cm E ws ws' n) : PipeOk v cs' (P ++ E) ws' n := by
  cases v with
  | hot => trivial
  | quiet =>
    obtain ⟨h1, h2, h3⟩ := h
    obtain ⟨e1, e2⟩ := List.append_eq_nil_iff.mp h1
    obtain ⟨a, b⟩ := st.free h3 e1
    exact ⟨e2, by rw [h2, a]; rfl, b⟩
  | asg rv =>
    rcases h with ⟨h1, h2, h3⟩ | ⟨h1, hd⟩
    · rcases List.append_eq_singleton_iff.mp h1 with ⟨e1, e2⟩ | ⟨e1, e2⟩
      · obtain ⟨a, b⟩ := st.free h3 e1
        exact .inl ⟨e2, by rw [h2, a]; rfl, b⟩
      · exact .inr ⟨e2, by rw [h2]; exact st.asg rv h3 e1⟩
    · obtain ⟨e1, e2⟩ := List.append_eq_nil_iff.mp h1
      refine .inr ⟨e2, ?_⟩
      rcases hd with ⟨rv', rest, hp⟩ | ⟨rest, hp⟩ | ⟨hp, hf⟩
      · exact .inl ⟨rv', rest ++ E, by rw [hp]; rfl⟩
      · exact .inr (.inl ⟨rest ++ E, by rw [hp]; rfl⟩)
      · obtain ⟨a, b⟩ := st.free hf e1
        exact .inr (.inr ⟨by rw [hp, a]; rfl, b⟩)
  | pre =>
    rcases h with ⟨h1, h2, h3⟩ | ⟨h1, hd⟩
    · rcases List.append_eq_singleton_iff.mp h1 with ⟨e1, e2⟩ | ⟨e1, e2⟩
      · obtain ⟨a, b⟩ := st.free h3 e1
        exact .inl ⟨e2, by rw [h2, a]; rfl, b⟩
      · exact .inr ⟨e2, by rw [h2]; exact st.pre h3 e1⟩
    · obtain ⟨e1, e2⟩ := List.append_eq_nil_iff.mp h1
      refine .inr ⟨e2, ?_⟩
      rcases hd with ⟨hp, hb | hf⟩ | ⟨rv', rest, hp⟩ | ⟨rest, hp⟩ | ⟨o, hp, hf⟩ | ⟨hp, hf⟩
      · rw [hp]; exact st.back hb e1
      · obtain ⟨a, b⟩ := st.free hf e1
        exact .inl ⟨by rw [hp, a]; rfl, .inr b⟩
      · exact .inr (.inl ⟨rv', rest ++ E, by rw [hp]; rfl⟩)
      · exact .inr (.inr (.inl ⟨rest ++ E, by rw [hp]; rfl⟩))
      · obtain ⟨a, b⟩ := st.free hf e1
        exact .inr (.inr (.inr (.inl ⟨o, by rw [hp, a]; rfl, b⟩)))
      · obtain ⟨a, b⟩ := st.free hf e1
        exact .inr (.inr (.inr (.inr ⟨by rw [hp, a]; rfl, b⟩)))

theorem Quiet.deliver {cm cs' : List (Option Nat)} {P E : List Ev} {ws ws' : Worker.State} {n : Nat}
    (h : Quiet (cm ++ cs') P ws n) (st : WStep cm E ws ws' n) : Quiet cs' (P ++ E) ws' n :=
  PipeOk.deliver (v := .quiet) h st

/-- **a step of the worker** (`x'` = the record after the step): the message with items `cm` left the queue, the
outputs `outs` were appended -/
theorem Pipe.worker {c : Core.State} {U : List TaskId} {x x' : WState} {t : TaskId} {cm : List (Option Nat)}
    {outs : List Worker.Out} (h : Pipe c U x t) (hid : x'.id = x.id)
    (hs2w : comps t x.s2w = cm ++ comps t x'.s2w) (hw2s : x'.w2s = x.w2s ++ outs.filterMap outMsg)
    (st : WStep cm (evsOuts (enc t) outs) x.w x'.w (enc t)) : Pipe c U x' t := by
  have hp : pend t x'.w2s = pend t x.w2s ++ evsOuts (enc t) outs := by rw [hw2s, pend_append, pend_outs]
  constructor
  · intro hu
    have := h.1 hu
    rw [hs2w] at this
    rw [hid, hp]
    exact this.deliver st
  · intro hu
    have := h.2 hu
    rw [hs2w] at this
    rw [hp]
    exact this.deliver st

/-! ### one pipeline through a server action -/

/-- **a foreign server action**: the views change as `Foreign` allows, the messages are routed; `U'` = the ids
submitted afterwards -/
theorem Pipe.srv {c c' : Core.State} {U U' : List TaskId} {x : WState} {t : TaskId} {msgs : List Core.Msg}
    (h : Pipe c U x t) (hsubU : ∀ u ∈ U, u ∈ U')
    (hknown : stOf c.tasks t ≠ none → t ∈ U)
    (hf : t ∈ U → Foreign (view c x.id t) (cfor x.id t msgs) (view c' x.id t))
    (hfresh : stOf c.tasks t = none → (view c' x.id t = .quiet ∨ view c' x.id t = .hot) ∧ cfor x.id t msgs = []) :
    Pipe c' U' (route1 x msgs) t := by
  have hid : (route1 x msgs).id = x.id := rfl
  have hw2s : (route1 x msgs).w2s = x.w2s := rfl
  have hw : (route1 x msgs).w = x.w := rfl
  by_cases hu : t ∈ U
  · refine ⟨fun _ => ?_, fun hn => (hn (hsubU t hu)).elim⟩
    rw [hid, comps_route1, hw2s, hw]
    exact (h.1 hu).foreign (hf hu)
  · have hnone : stOf c.tasks t = none := by
      apply Classical.byContradiction
      intro e; exact hu (hknown e)
    obtain ⟨hv, hc⟩ := hfresh hnone
    have hq := h.2 hu
    have hq' : Quiet (comps t (route1 x msgs).s2w) (pend t (route1 x msgs).w2s) (route1 x msgs).w (enc t) := by
      rw [comps_route1, hc, List.append_nil, hw2s, hw]; exact hq
    refine ⟨fun _ => ?_, fun _ => hq'⟩
    rw [hid]
    rcases hv with e | e <;> rw [e]
    · exact hq'
    · trivial

/-- **the server processes the head event of the worker's own stream about `t`** (`x'` = the record with that event
removed from the queue) -/
theorem Pipe.own {c c' : Core.State} {U : List TaskId} {x x' : WState} {t : TaskId} {e : Ev} {msgs : List Core.Msg}
    (h : Pipe c U x t) (hid : x'.id = x.id) (hw : x'.w = x.w) (hs2w : x'.s2w = x.s2w)
    (hw2s : pend t x.w2s = e :: pend t x'.w2s)
    (hf : Own e (view c x.id t) (cfor x.id t msgs) (view c' x.id t)) :
    Pipe c' U (route1 x' msgs) t := by
  have hu : t ∈ U := by
    apply Classical.byContradiction
    intro hn
    have := (h.2 hn).2.1
    rw [hw2s] at this; cases this
  refine ⟨fun _ => ?_, fun hn => (hn hu).elim⟩
  have := h.1 hu
  rw [hw2s] at this
  show PipeOk (view c' x'.id t) (comps t (route1 x' msgs).s2w) (pend t x'.w2s) x'.w (enc t)
  rw [comps_route1, hid, hw, hs2w]
  exact this.own hf

end HqModel.SysW
