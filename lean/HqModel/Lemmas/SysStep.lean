import HqModel.Lemmas.SysLock
import HqModel.Lemmas.SysJobOk
/-!
**The coupling invariant is inductive over `Sys.step`, and no step panics in the job layer**, for every world action
that satisfies the side condition `OpOk`: `step_good`.
-/
namespace HqModel.Sys
open HqModel

/-- what a composed step may do: succeed and re-establish `Coupled`, or stop for a reason other than a panic of the
job layer (a panic / `!bad-choice` refusal of the core, or one of the consistency checks `badRets` / `badSubmit` /
`badCancel`) -/
def StepGood : Except Stop (State × Out) → Prop
  | .ok (s', _) => Coupled s'
  | .error (.job _) => False
  | .error _ => True

theorem GoodR.mono {c1 c2 : Core.State} {rets' : List (List TaskId)}
    {x : Except Stop (Job.State × List Job.Ev × List (List TaskId))} (h : GoodR c1 rets' x)
    (hm : ∀ js, Coupled0 js c1 → Coupled0 js c2) : GoodR c2 rets' x := by
  cases x with
  | error e => cases e <;> exact h
  | ok r => obtain ⟨a, b, c⟩ := r; exact ⟨h.1, hm _ h.2⟩

/-- a core operation followed by the delivery of its callbacks -/
theorem coreStep_good {js : Job.State} {c : Core.State} {cop : Core.Op} {rets : List (List TaskId)}
    {evs0 : List Job.Ev} {resp : Resp} (hi : Core.InvF c) (hok2 : Core.OpOk2 c cop)
    (hd : ∀ c' out, Core.step c cop = .ok (c', out) → ∃ rets', GoodR c' rets' (route js rets out.cbs)) :
    StepGood (coreStep { job := js, core := c } cop rets evs0 resp) := by
  simp only [coreStep]
  cases hs : Core.step c cop with
  | error e => cases e; trivial
  | ok r =>
    obtain ⟨c', out⟩ := r
    obtain ⟨rets', g⟩ := hd c' out hs
    simp only
    cases hr : route js rets out.cbs with
    | error e =>
      rw [hr] at g
      cases e <;> first | exact g | trivial
    | ok r2 =>
      obtain ⟨j', evs, left⟩ := r2
      rw [hr] at g
      simp only
      split
      · exact ⟨g.2, Core.step_invF hi hok2 hs⟩
      · trivial

/-! ### the deliveries of the core-driven actions -/

theorem deliver_removeWorker {js : Job.State} {c c' : Core.State} {w : Nat} {reason : String} {f : Bool}
    {order : List TaskId} {rets : List (List TaskId)} {out : Core.Out} (h0 : Coupled0 js c)
    (h : c.removeWorker w reason f order rets = .ok (c', out)) : ∃ rets', GoodR c' rets' (route js rets out.cbs) := by
  obtain ⟨s3, s4, running, out0, hw, f3, e3, nd, hh, hc, hcb0, hcl, rfl⟩ := Core.removeWorker_spec h0.nd h
  obtain ⟨cbs, rets', ecb, g⟩ := lock_crash f running _ _ _ _ _ hcl
  refine ⟨rets', ?_⟩
  rw [ecb, hcb0]
  apply GoodR.mono (c1 := s4)
  · exact GoodR.append (pair_workerLost h0 hw f3 e3 nd hh hc) g
  · intro js1 h1; exact h1.core_eq rfl rfl

theorem deliver_update {js : Job.State} {c c' : Core.State} {w : Nat} {us : List Core.Update}
    {rets : List (List TaskId)} {out : Core.Out} (h0 : Coupled0 js c) (hi : Core.InvF c)
    (hok : Core.UpdatesOk UpdOk c w us rets) (h : c.taskUpdate w us rets = .ok (c', out)) :
    ∃ rets', GoodR c' rets' (route js rets out.cbs) := by
  simp only [Core.State.taskUpdate] at h
  split at h
  · cases h
  · rename_i s1 out1 need rets1 h1
    cases h
    obtain ⟨cbs, ecb, g⟩ := lock_update w us _ _ _ _ _ _ _ _ hi hok h1
    refine ⟨rets1, ?_⟩
    rw [ecb]
    change GoodR _ _ (route js rets cbs)
    apply GoodR.mono (g js h0)
    intro js1 hc1
    split
    · exact hc1.core_eq rfl rfl
    · exact hc1

/-! ### client requests that reach the core -/

theorem deps_of_ntsOk {desc : Job.TaskDesc} {core : List TaskId} {nts : List Core.NewTask} (h : ntsOk desc core nts = true) :
    nts.map (·.id) = core ∧ ∀ nt ∈ nts, ∀ d ∈ nt.deps, d.1 = nt.id.1 := by
  simp only [ntsOk, Bool.and_eq_true, decide_eq_true_eq, List.all_eq_true] at h
  refine ⟨h.1, ?_⟩
  intro nt hnt d hd
  have := (sameSet_iff (h.2 nt hnt).1.1 d).mp hd
  obtain ⟨x, _, rfl⟩ := List.mem_map.mp this
  rfl

theorem wf_of_step {js js' : Job.State} {evs : List Job.Ev} (op : Job.Op) (h : Job.StateWF js)
    (e : Job.step js op = .ok (js', evs)) : Job.StateWF js' := Job.step_wf h e

/-- an accepted submit: the job layer's new tasks and `on_new_tasks` -/
theorem submit_coupled {js js' : Job.State} {c c' : Core.State} {core : List TaskId} {nts : List Core.NewTask}
    {o : Core.Out} {j : Nat} (h0 : Coupled0 js c) (hwf' : Job.StateWF js') (hw : js'.workers = js.workers)
    (hsent : js'.sent = js.sent ++ core) (hnew : ∀ x ∈ core, x.1 = j ∧ tst js x = none)
    (hv : ∀ x, tst js' x = if x ∈ core then some .waiting else tst js x)
    (hids : nts.map (·.id) = core) (hdeps : ∀ nt ∈ nts, ∀ d ∈ nt.deps, d.1 = nt.id.1)
    (h : c.newTasks nts = .ok (c', o)) : o.cbs = [] ∧ Coupled0 js' c' := by
  obtain ⟨hcb, hi, hcj, hwfr, hhot⟩ := Core.newTasks_spec h0.nd hdeps h0.cons h
  refine ⟨hcb, hwf', Core.newTasks_nodup h0.nd h, ?_, ?_, ?_, hcj, ?_⟩
  · intro t
    rw [hi t, hids, hv t, h0.ids t]
    by_cases hm : t ∈ core
    · simp [hm, live, Job.TState.terminal]
    · simp [hm]
  · intro t
    rw [hsent, List.mem_append, hv t, h0.sent t]
    by_cases hm : t ∈ core
    · simp [hm, live, Job.TState.terminal]
    · simp [hm]
  · intro t ht
    have hr := h0.started t (hhot t ht)
    have hm : t ∉ core := fun hm => by rw [(hnew t hm).2] at hr; cases hr
    rw [hv t]; simp only [hm, if_false]; exact hr
  · intro x wk' hx
    obtain ⟨wk, hw0, _⟩ := hwfr x wk' hx
    rw [hw]; exact h0.workers x wk hw0

/-- a cancel: the job layer's cancelled tasks and `on_cancel_tasks` of the same ids -/
theorem cancel_coupled {js js' : Job.State} {c c' : Core.State} {j : Nat} {ids : List TaskId} {o : Core.Out}
    (h0 : Coupled0 js c) (hwf' : Job.StateWF js') (hw : js'.workers = js.workers)
    (hv : ∀ x, tst js' x = if x.1 = j ∧ live (tst js x) = true then some .canceled else tst js x)
    (hsent : ∀ x, x ∈ js'.sent ↔ x ∈ js.sent ∧ ¬ (x.1 = j ∧ live (tst js x) = true))
    (hids : ∀ x, x ∈ ids ↔ x.1 = j ∧ live (tst js x) = true)
    (h : c.cancelTasks ids = .ok (c', o)) : o.cbs = [] ∧ Coupled0 js' c' := by
  have fr := Core.cancelTasks_frc h
  obtain ⟨hcb, hgone, hsub, hjob⟩ := Core.cancelTasks_spec h0.nd h0.cons h
  have hkeep : ∀ t, t ∈ Core.taskIds c'.tasks → ¬ (t.1 = j ∧ live (tst js t) = true) := by
    intro t ht hc
    exact hgone t ((hids t).mpr hc) ht
  refine ⟨hcb, hwf', (Core.cancelTasks_sub h).nodup h0.nd, ?_, ?_, ?_, Core.ConsJob.of_tfr h0.cons fr.t, ?_⟩
  · intro t
    rw [hv t]
    constructor
    · intro ht
      have := hkeep t ht
      simp only [this, if_false]
      exact (h0.ids t).mp (hsub t ht)
    · intro hl
      by_cases hc : t.1 = j ∧ live (tst js t) = true
      · rw [if_pos hc] at hl; exact absurd hl (by decide)
      · simp only [hc, if_false] at hl
        have hm := (h0.ids t).mpr hl
        apply Classical.byContradiction
        intro hn
        obtain ⟨x, hx, hjx⟩ := hjob t hm hn
        exact hc ⟨hjx.trans ((hids x).mp hx).1, hl⟩
  · intro t
    rw [hsent t, hv t, h0.sent t]
    by_cases hc : t.1 = j ∧ live (tst js t) = true
    · rw [if_pos hc]
      constructor
      · intro h; exact absurd hc h.2
      · intro h; exact absurd h (by decide)
    · rw [if_neg hc]
      exact ⟨fun h => h.1, fun h => ⟨h, hc⟩⟩
  · intro t ht
    have := hkeep t (Core.hot_mem ht)
    rw [hv t]; simp only [this, if_false]
    exact h0.started t (Core.hot_of_frc fr h0.nd ht)
  · intro x wk' hx
    obtain ⟨wk, hw0, _⟩ := fr.w x wk' hx
    rw [hw]; exact h0.workers x wk hw0

/-- a job-layer request that changes no non-terminal task -/
theorem job_only_coupled {js js' : Job.State} {c : Core.State} (h0 : Coupled0 js c) (hwf' : Job.StateWF js')
    (hw : js'.workers = js.workers) (hsent : ∀ x, x ∈ js'.sent ↔ x ∈ js.sent)
    (hv : ∀ x, live (tst js x) = true → tst js' x = tst js x) (hv2 : ∀ x, live (tst js' x) = true → live (tst js x) = true) :
    Coupled0 js' c := by
  have hl : ∀ x, live (tst js' x) = live (tst js x) := by
    intro x
    cases h1 : live (tst js x) with
    | true => rw [hv x h1]; exact h1
    | false =>
      cases h2 : live (tst js' x) with
      | false => rfl
      | true => rw [hv2 x h2] at h1; cases h1
  refine ⟨hwf', h0.nd, ?_, ?_, ?_, h0.cons, ?_⟩
  · intro t; rw [hl]; exact h0.ids t
  · intro t; rw [hsent, hl]; exact h0.sent t
  · intro t ht
    have := h0.started t ht
    rw [hv t (by rw [this]; rfl)]; exact this
  · intro x wk hx; rw [hw]; exact h0.workers x wk hx

end HqModel.Sys
