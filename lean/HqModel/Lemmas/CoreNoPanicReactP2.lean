import HqModel.Lemmas.CoreNoPanicReactP
/-!
C09 progress, part 2 of the reactor: the removal loops (`remove_task` for a list of ids) and **`on_cancel_tasks`**.

* `Lt U s` — the light bundle (`QInv U none [] s`, `NpIdx s`, `NpDeps U s`): all `remove_task` needs, and `remove_task`
  keeps it without any side condition;
* `removeTask_ok_lt`, `removeTasksBatched_ok`, `removeWaitingAll_ok`;
* `unionTids_nodup`;
* `CLI U s u rest` — the loop invariant of `cancelLoop`; `cancelLoop_one_ok` (one iteration succeeds), `CLI.step`,
  `cancelLoop_ok`;
* **`cancelTasks_ok`**.
-/
namespace HqModel.Core.NPR

open HqModel.Core.NP

/-! ### `remove_task` -/

/-- what `remove_task` needs (and keeps) -/
structure Lt (U : List TaskId) (s : State) : Prop where
  q : QInv U none [] s
  idx : NpIdx s
  deps : NpDeps U s

theorem Bd.lt {U D R} {s : State} (hb : Bd U D R s) : Lt U s := ⟨hb.q, hb.idx, hb.deps⟩

theorem stOf_eraseTask {ts : List Task} (hn : (taskIds ts).Nodup) {id x : TaskId} (hx : x ≠ id) :
    stOf (eraseTask ts id) x = stOf ts x := by
  unfold stOf
  rw [findTask_eraseTask hn, if_neg hx]

theorem stOf_isSome {s : State} {x : TaskId} (h : (s.task? x).isSome = true) : ∃ st, stOf s.tasks x = some st := by
  cases hf : s.task? x with
  | none => rw [hf] at h; cases h
  | some t => exact ⟨t.state, stOf_of_find hf⟩

theorem removeTask_ok_lt {U} {s : State} {id : TaskId} {task : Task} (hl : Lt U s) (ht : s.task? id = some task) :
    ∃ s', s.removeTask id = .ok (s', task.state) ∧ Lt U s' ∧ ∀ x, x ≠ id → stOf s'.tasks x = stOf s.tasks x := by
  have hmem : task ∈ s.tasks := findTask_some_mem ht
  have hid : task.id = id := findTask_some_id ht
  obtain ⟨s', h⟩ := removeTask_ok ht hl.q.nd (by rw [hl.idx.ql]; exact hl.idx.rq task hmem) (hl.deps.dnd task hmem)
    (fun d hd dt hdt => by rw [← hid]; exact hl.deps.reg task hmem d hd dt hdt)
  refine ⟨s', h, ⟨removeTask_safe h U none [] hl.q, NPA.removeTask_npidx hl.idx h,
    NPB.removeTask_npdeps_q hl.deps hl.q (Or.inl rfl) h⟩, ?_⟩
  intro x hx
  rw [(removeTask_spec h).2.2.2.2.stOf x, stOf_eraseTask hl.q.nd hx]

theorem removeTasksBatched_ok {U} : ∀ (ids : List TaskId) (s : State), Lt U s → ids.Nodup →
    (∀ x ∈ ids, ∃ st, stOf s.tasks x = some st) → ∃ s', s.removeTasksBatched ids = .ok s'
  | [], s, _, _, _ => ⟨s, rfl⟩
  | t :: rest, s, hl, hnd, hin => by
    obtain ⟨st, hst⟩ := hin t List.mem_cons_self
    obtain ⟨task, ht, _⟩ := stOf_some hst
    obtain ⟨s1, h1, hl1, hk⟩ := removeTask_ok_lt hl (show s.task? t = some task from ht)
    simp only [State.removeTasksBatched, h1]
    apply removeTasksBatched_ok rest s1 hl1 (List.nodup_cons.mp hnd).2
    intro x hx
    have hne : x ≠ t := fun e => (List.nodup_cons.mp hnd).1 (e ▸ hx)
    rw [hk x hne]
    exact hin x (List.mem_cons_of_mem _ hx)

theorem removeWaitingAll_ok {U} : ∀ (ids : List TaskId) (s : State), Lt U s → ids.Nodup →
    (∀ x ∈ ids, ∃ n, stOf s.tasks x = some (.waiting n)) →
    ∃ s', s.removeWaitingAll ids = .ok s' ∧ Lt U s' ∧ ∀ x, x ∉ ids → stOf s'.tasks x = stOf s.tasks x
  | [], s, hl, _, _ => ⟨s, rfl, hl, fun _ _ => rfl⟩
  | t :: rest, s, hl, hnd, hin => by
    obtain ⟨n, hst⟩ := hin t List.mem_cons_self
    obtain ⟨task, ht, hs⟩ := stOf_some hst
    obtain ⟨s1, h1, hl1, hk⟩ := removeTask_ok_lt hl (show s.task? t = some task from ht)
    rw [hs] at h1
    simp only [State.removeWaitingAll, h1]
    obtain ⟨s', h2, hl2, hk2⟩ := removeWaitingAll_ok rest s1 hl1 (List.nodup_cons.mp hnd).2 (by
      intro x hx
      have hne : x ≠ t := fun e => (List.nodup_cons.mp hnd).1 (e ▸ hx)
      rw [hk x hne]
      exact hin x (List.mem_cons_of_mem _ hx))
    refine ⟨s', h2, hl2, ?_⟩
    intro x hx
    simp only [List.mem_cons, not_or] at hx
    rw [hk2 x hx.2, hk x hx.1]

/-! ### `unionTids` never adds a duplicate -/

theorem unionTids_nodup : ∀ (b a : List TaskId), a.Nodup → (unionTids a b).Nodup
  | [], a, h => h
  | x :: b, a, h => by
    show (unionTids (if a.contains x then a else a ++ [x]) b).Nodup
    apply unionTids_nodup b
    split
    · exact h
    · rename_i hx
      rw [List.nodup_append]
      refine ⟨h, by simp, ?_⟩
      intro y hy z hz e
      simp only [List.mem_singleton] at hz
      subst hz; subst e
      exact hx (by simpa using hy)

/-! ### the per-task loop of `on_cancel_tasks` -/

section
variable {U : List TaskId} {s : State}

/-- one iteration succeeds: the task is not in repair (`id ∉ u`) unless it is Waiting -/
theorem cancelLoop_one_ok {u : List TaskId} {id : TaskId} (hb : Bd U (· ∈ u) [] s)
    (hw : ∀ t, s.task? id = some t → id ∈ u → isWaiting t.state) (r : List (Nat × List TaskId)) :
    ∃ x, s.cancelLoop [id] u r = .ok x := by
  simp only [State.cancelLoop]
  cases ht : s.task? id with
  | none => exact ⟨_, rfl⟩
  | some task =>
    simp only
    have hmem : task ∈ s.tasks := findTask_some_mem ht
    have hid : task.id = id := findTask_some_id ht
    obtain ⟨cons, hc⟩ := recursiveConsumers_ok hb.deps hmem
    simp only [hc]
    have hnd : ¬ isWaiting task.state → ¬ id ∈ u := fun h1 h2 => h1 (hw task ht h2)
    have hst := stOf_of_find (show findTask s.tasks id = some task from ht)
    cases hs : task.state with
    | waiting n => exact ⟨_, rfl⟩
    | assigned w rv =>
      have hd := hnd (by rw [hs]; exact fun h => h)
      obtain ⟨rq, wk, A, F, P, hr, hfw, ha, hm, hidx⟩ := held_removable hb.tw hb.idx hb.w ht hd (Or.inl hs)
      obtain ⟨F', hrem, _⟩ := removeSn_ok (wk := wk) (t := id) (r := rq) ha hm hidx
      simp only [hr, withWorker_ok (f := fun x => x.removeSn id rq) hfw hrem]
      exact ⟨_, rfl⟩
    | running w rv =>
      have hd := hnd (by rw [hs]; exact fun h => h)
      obtain ⟨rq, wk, A, F, P, hr, hfw, ha, hm, hidx⟩ := held_removable hb.tw hb.idx hb.w ht hd (Or.inr (Or.inl hs))
      obtain ⟨F', hrem, _⟩ := removeSn_ok (wk := wk) (t := id) (r := rq) ha hm hidx
      simp only [hr, withWorker_ok (f := fun x => x.removeSn id rq) hfw hrem]
      exact ⟨_, rfl⟩
    | runningMN ws =>
      have hd := hnd (by rw [hs]; exact fun h => h)
      obtain ⟨s1, h1⟩ := resetMnAll_ok ws s (fun x hx => by
        obtain ⟨wk, _, _, hfw, _⟩ := mn_workers_of hb.tw ht hd hs x hx
        rw [hfw]; rfl)
      simp only [h1]
      have hne := (hb.mn.ne task hmem ws hs).1
      cases ws with
      | nil => exact absurd rfl hne
      | cons root rest => exact ⟨_, rfl⟩
    | retracting w =>
      have hd := hnd (by rw [hs]; exact fun h => h)
      obtain ⟨s1, h1⟩ := tryRemoveRedirection_ok' hb.tw hb.idx hb.w ht hd ⟨w, hs⟩
      simp only [h1]
      exact ⟨_, rfl⟩
    | prefilled w =>
      have hd := hnd (by rw [hs]; exact fun h => h)
      obtain ⟨q, pp, ts, hq, hp, hm⟩ := (hb.nq.pin task hmem ⟨w, hs⟩ (by simp) (by rw [hid]; exact hd)).elim
      rw [hid] at hm
      obtain ⟨s1, h1⟩ := removePrefilled_ok hq hp hm
      simp only [h1]
      have hpre := hb.tw.tw.t2 id w hd (by rw [hst, hs])
      obtain ⟨wk, A, F, P, hfw, ha, hmp⟩ := mem_preW_elim hpre
      have hfw1 : s1.worker? w = some wk := by rw [worker?_eq, (removePrefilled_core h1).w]; exact hfw
      simp only [withWorker_ok (f := fun x => x.removePrefill id) hfw1 (removePrefill_ok ha hmp)]
      exact ⟨_, rfl⟩
    | finished =>
      have := hb.q.fin task hmem hs
      cases this

/-- what one iteration does to the `unreg` list -/
theorem cancelLoop_one_u {u u1 : List TaskId} {id : TaskId} {r r1 : List (Nat × List TaskId)} {s1 : State}
    (h : s.cancelLoop [id] u r = .ok (s1, u1, r1)) :
    (s.task? id = none ∧ u1 = u) ∨
    ∃ task cons, s.task? id = some task ∧ s.recursiveConsumers task = .ok cons ∧
      u1 = unionTids (unionTids u [id]) cons := by
  simp only [State.cancelLoop] at h
  split at h
  · rename_i hn
    cases h
    exact Or.inl ⟨hn, rfl⟩
  · rename_i task ht
    split at h
    · cases h
    · rename_i cons hc
      refine Or.inr ⟨task, cons, ht, hc, ?_⟩
      repeat' split at h
      all_goals first | (cases h; rfl) | cases h

/-- the loop invariant of `cancelLoop` (state `s`, list `u` of tasks to unregister, remaining ids `rest`) -/
structure CLI (U : List TaskId) (s : State) (u rest : List TaskId) : Prop where
  bd : Bd U (· ∈ u) [] s
  pfd : NPC.PfD [] s u
  free : ∀ x ∈ u, Free s x
  rnd : rest.Nodup
  uin : ∀ x ∈ u, ∃ st, stOf s.tasks x = some st
  und : u.Nodup
  /-- an id still to be processed that is in `u` already got there as a recursive consumer: it is Waiting -/
  uw : ∀ x ∈ rest, x ∈ u → ∀ st, stOf s.tasks x = some st → isWaiting st

theorem CLI.step {u u1 rest : List TaskId} {id : TaskId} {r r1 : List (Nat × List TaskId)} {s1 : State}
    (hc : CLI U s u (id :: rest)) (h : s.cancelLoop [id] u r = .ok (s1, u1, r1)) : CLI U s1 u1 rest := by
  obtain ⟨b1, p1, f1⟩ := hc.bd.cancelLoop hc.pfd hc.free h
  have ht1 : s1.tasks = s.tasks := cancelLoop_tasks _ _ _ _ _ _ _ h
  have hnd := List.nodup_cons.mp hc.rnd
  rcases cancelLoop_one_u h with ⟨_, e⟩ | ⟨task, cons, ht, hcons, e⟩
  · subst e
    exact ⟨b1, p1, f1, hnd.2, by rw [ht1]; exact hc.uin, hc.und,
      by rw [ht1]; exact fun x hx => hc.uw x (List.mem_cons_of_mem _ hx)⟩
  · have hmemc := recursiveConsumers_mem (show findTask s.tasks id = some task from ht) hcons
    refine ⟨b1, p1, f1, hnd.2, ?_, ?_, ?_⟩
    · rw [ht1, e]
      intro x hx
      rcases mem_unionTids.mp hx with h1 | h1
      · rcases mem_unionTids.mp h1 with h2 | h2
        · exact hc.uin x h2
        · simp only [List.mem_singleton] at h2
          subst h2
          exact ⟨_, stOf_of_find (show findTask s.tasks x = some task from ht)⟩
      · obtain ⟨d, dt, hd, hx'⟩ := hmemc x h1
        exact stOf_isSome (hc.bd.deps.cin dt (findTask_some_mem hd) x hx')
    · rw [e]
      exact unionTids_nodup _ _ (unionTids_nodup _ _ hc.und)
    · rw [ht1, e]
      intro x hx hu st hst
      rcases mem_unionTids.mp hu with h1 | h1
      · rcases mem_unionTids.mp h1 with h2 | h2
        · exact hc.uw x (List.mem_cons_of_mem _ hx) h2 st hst
        · simp only [List.mem_singleton] at h2
          subst h2
          exact absurd hx hnd.1
      · obtain ⟨d, dt, hd, hx'⟩ := hmemc x h1
        exact hc.bd.inv.cw d dt hd x hx' st hst

theorem cancelLoop_ok : ∀ (rest : List TaskId) (s : State) (u : List TaskId) (r : List (Nat × List TaskId)),
    CLI U s u rest → ∃ s' u' r', s.cancelLoop rest u r = .ok (s', u', r') ∧ CLI U s' u' []
  | [], s, u, r, h => ⟨s, u, r, rfl, h⟩
  | id :: rest, s, u, r, h => by
    obtain ⟨⟨s1, u1, r1⟩, h1⟩ := cancelLoop_one_ok h.bd
      (fun t ht hu => h.uw id List.mem_cons_self hu t.state (stOf_of_find ht)) r
    rw [cancelLoop_cons, h1]
    exact cancelLoop_ok rest s1 u1 r1 (h.step h1)

/-- **`on_cancel_tasks` does not panic** -/
theorem cancelTasks_ok {ids : List TaskId} (hb : Bd U noD [] s) (hnd : ids.Nodup) :
    ∃ r, s.cancelTasks ids = .ok r := by
  have h0 : CLI U s [] ids :=
    ⟨hb.mono (fun _ h => h.elim), fun _ h => (by cases h), fun _ h => (by cases h), hnd, fun _ h => (by cases h),
      List.nodup_nil, fun _ _ h => (by cases h)⟩
  obtain ⟨s1, unreg, running, h1, c1⟩ := cancelLoop_ok ids s [] [] h0
  obtain ⟨s2, h2⟩ := removeTasksBatched_ok unreg s1 c1.bd.lt c1.und c1.uin
  simp only [State.cancelTasks, h1, h2]
  exact ⟨_, rfl⟩

end

end HqModel.Core.NPR
