import HqModel.Lemmas.WorkerSteps
/-!
The flag `stopSent` of a running task is faithful: it is only ever set by a step that emits a stop signal for
that task id (`step_stopSent`), hence in a run from the initial state a running task with `stopSent = true` was
sent a stop signal earlier in the run (`run_stopSent`).
-/
namespace HqModel.Worker

/-- every running entry is an entry of `R0` or has no stop signal recorded -/
def SMono (R0 : List Running) (a : Acc) : Prop := ∀ r' ∈ a.s.running, r' ∈ R0 ∨ r'.stopSent = false

theorem tryStart_SMono {R0 : List Running} {a a' : Acc} {x : Task} {rv h : Nat} {p c : Bool}
    (hm : SMono R0 a) (hs : tryStart a x rv p h = .ok (a', c)) : SMono R0 a' := by
  obtain ⟨_, hc⟩ := tryStart_cases hs
  rcases hc with ⟨_, h1, _⟩ | ⟨_, h1, _⟩ | ⟨_, _, h1, _⟩
  · intro r' hr'; rw [h1] at hr'; exact hm r' hr'
  · intro r' hr'; rw [h1] at hr'; exact hm r' hr'
  · intro r' hr'
    rw [h1] at hr'
    simp only [started, List.mem_append, List.mem_singleton] at hr'
    rcases hr' with hr' | rfl
    · exact hm r' hr'
    · exact Or.inr rfl

theorem prefillLoop_SMono {R0 : List Running} {rq rv h : Nat} : ∀ (bl : List Task) {a a' : Acc} {c : Bool},
    SMono R0 a → prefillLoop rq rv h bl a = .ok (a', c) → SMono R0 a'
  | [], a, a', c, hm, hs => by
    simp only [prefillLoop] at hs
    cases hs
    exact hm
  | x :: rest, a, a', c, hm, hs => by
    simp only [prefillLoop] at hs
    have hm1 : SMono R0 { a with s := setBacklog a.s rq rest } := hm
    split at hs
    · cases hs
    · rename_i a1 hts
      cases hs
      exact tryStart_SMono hm1 hts
    · rename_i a1 hts
      exact prefillLoop_SMono rest (tryStart_SMono hm1 hts) hs

theorem computeEntry_SMono {R0 : List Running} {a a' : Acc} {e : Entry}
    (hm : SMono R0 a) (hs : computeEntry a e = .ok a') : SMono R0 a' := by
  unfold computeEntry at hs
  split at hs
  · cases hs; exact hm
  · split at hs
    · cases hs
    · split at hs
      · cases hs
        intro r' hr'
        apply hm r'
        revert hr'
        unfold insertBlocked
        split <;> exact fun h => h
      · rename_i h _
        split at hs
        · cases hs
        · have hm1 : SMono R0 { a with s := { a.s with live := h :: a.s.live } } := hm
          split at hs
          · cases hs
          · rename_i a1 hts
            cases hs
            exact tryStart_SMono hm1 hts
          · rename_i a1 hts
            split at hs
            · cases hs
            · rename_i a2 _ hpl
              cases hs
              exact prefillLoop_SMono _ (tryStart_SMono hm1 hts) hpl

theorem computeEntries_SMono {R0 : List Running} : ∀ (es : List Entry) {a a' : Acc},
    SMono R0 a → computeEntries es a = .ok a' → SMono R0 a'
  | [], a, a', hm, hs => by simp only [computeEntries] at hs; cases hs; exact hm
  | e :: es, a, a', hm, hs => by
    simp only [computeEntries] at hs
    split at hs
    · cases hs
    · rename_i a1 h1
      exact computeEntries_SMono es (computeEntry_SMono hm h1) hs

theorem cancelOne_outs_mono (a : State × List Out) (c : Nat) : ∀ o ∈ a.2, o ∈ (cancelOne a c).2 := by
  obtain ⟨s, outs⟩ := a
  intro o ho
  simp only [cancelOne]
  split
  · exact ho
  · split
    · exact ho
    · exact List.mem_append_left _ ho

theorem cancel_fold_outs_mono : ∀ (ids : List Nat) (a : State × List Out),
    ∀ o ∈ a.2, o ∈ (ids.foldl cancelOne a).2
  | [], _, _, ho => ho
  | c :: ids, a, o, ho => cancel_fold_outs_mono ids (cancelOne a c) o (cancelOne_outs_mono a c o ho)

theorem cancelOne_ss (a : State × List Out) (c : Nat) :
    ∀ r' ∈ (cancelOne a c).1.running, r'.stopSent = true →
      (∃ r ∈ a.1.running, r.task.id = r'.task.id ∧ r.stopSent = true) ∨
      Out.stop r'.task.id .cancel ∈ (cancelOne a c).2 := by
  obtain ⟨s, outs⟩ := a
  simp only [cancelOne]
  split
  · intro r' hr' hf; exact Or.inl ⟨r', hr', rfl, hf⟩
  · split
    · intro r' hr' hf; exact Or.inl ⟨r', hr', rfl, hf⟩
    · intro r' hr' hf
      simp only [List.mem_map] at hr'
      obtain ⟨x, hx, rfl⟩ := hr'
      split at hf
      · rename_i hid
        right
        simp only [hid, if_true]
        exact List.mem_append_right _ (by simp)
      · rename_i hid
        left
        simp only [hid, if_false]
        exact ⟨x, hx, rfl, hf⟩

theorem cancel_fold_ss : ∀ (ids : List Nat) (a : State × List Out),
    ∀ r' ∈ (ids.foldl cancelOne a).1.running, r'.stopSent = true →
      (∃ r ∈ a.1.running, r.task.id = r'.task.id ∧ r.stopSent = true) ∨
      Out.stop r'.task.id .cancel ∈ (ids.foldl cancelOne a).2
  | [], _, r', hr', hf => Or.inl ⟨r', hr', rfl, hf⟩
  | c :: ids, a, r', hr', hf => by
    rcases cancel_fold_ss ids (cancelOne a c) r' hr' hf with ⟨r1, hr1, hid1, hf1⟩ | h
    · rcases cancelOne_ss a c r1 hr1 hf1 with ⟨r0, hr0, hid0, hf0⟩ | h
      · exact Or.inl ⟨r0, hr0, by rw [hid0, hid1], hf0⟩
      · right
        rw [hid1] at h
        exact cancel_fold_outs_mono ids (cancelOne a c) _ h
    · exact Or.inr h

/-- `stopSent` is set only by a step that emits a stop signal for that task id. -/
theorem step_stopSent {s s' : State} {op : Op} {outs : List Out}
    (hs : step s op = .ok (s', outs)) :
    ∀ r' ∈ s'.running, r'.stopSent = true →
      (∃ r ∈ s.running, r.task.id = r'.task.id ∧ r.stopSent = true) ∨ ∃ k, Out.stop r'.task.id k ∈ outs := by
  have fromMono : ∀ {s1 : State}, (∀ r' ∈ s1.running, r' ∈ s.running ∨ r'.stopSent = false) →
      ∀ r' ∈ s1.running, r'.stopSent = true →
        (∃ r ∈ s.running, r.task.id = r'.task.id ∧ r.stopSent = true) ∨ ∃ k, Out.stop r'.task.id k ∈ outs := by
    intro s1 hm r' hr' hf
    rcases hm r' hr' with h | h
    · exact Or.inl ⟨r', h, rfl, hf⟩
    · rw [h] at hf; cases hf
  cases op with
  | compute es =>
    simp only [step, compute] at hs
    split at hs
    · cases hs
    · rename_i a ha
      cases hs
      exact fromMono (computeEntries_SMono (R0 := s.running) es (a := { s := s }) (fun r' hr' => Or.inl hr') ha)
  | retract ids =>
    simp only [step, retract] at hs
    cases hs
    exact fromMono (s1 := { s with backlog := _ }) (fun r' hr' => Or.inl hr')
  | cancel ids =>
    simp only [step, cancel] at hs
    have hs := Except.ok.inj hs
    intro r' hr' hf
    have := cancel_fold_ss ids (s, []) r' (by rw [hs]; exact hr') hf
    rcases this with h | h
    · exact Or.inl h
    · exact Or.inr ⟨.cancel, by rw [hs] at h; exact h⟩
  | taskEnd t res en =>
    simp only [step, taskEnd] at hs
    split at hs
    · cases hs
    · split at hs
      · cases hs
      · rename_i a used hpl
        have hm := prefillLoop_SMono (R0 := s.running) _
          (a := { s := { s with running := s.running.filter (fun x => x.task.id != t) }, upd := resultUpdates t res })
          (fun r' hr' => Or.inl (List.mem_filter.mp hr').1) hpl
        split at hs
        · split at hs
          · cases hs
            exact fromMono (s1 := { a.s with blocked := _ }) hm
          · cases hs
        · cases hs
          exact fromMono hm
  | timeoutFire t =>
    simp only [step, timeoutFire] at hs
    split at hs
    · cases hs
    · rename_i r hr
      split at hs
      · cases hs
      · cases hs
        intro r' hr' hf
        simp only [List.mem_map] at hr'
        obtain ⟨x, hx, rfl⟩ := hr'
        split at hf
        · rename_i hid
          simp only [hid, if_true]
          cases hss : r.stopSent
          · right
            exact ⟨.timeout, by simp⟩
          · left
            have hrmem := List.mem_of_find?_eq_some hr
            have hrid : r.task.id = t := by simpa using List.find?_some hr
            exact ⟨r, hrmem, hrid, hss⟩
        · rename_i hid
          simp only [hid, if_false]
          exact Or.inl ⟨x, hx, rfl, hf⟩
  | retractCheck order =>
    obtain ⟨h1, _⟩ := retractCheck_frame (by simpa only [step] using hs)
    exact fromMono (fun r' hr' => Or.inl (by rw [h1] at hr'; exact hr'))
  | newRq id mts =>
    simp only [step, newRq] at hs
    split at hs
    · cases hs
      exact fromMono (s1 := { s with rqs := _ }) (fun r' hr' => Or.inl hr')
    · cases hs
  | stop =>
    simp only [step] at hs
    cases hs
    exact fromMono (fun r' hr' => Or.inl hr')

theorem run_stopSent : ∀ (ops : List Op) {s0 s : State} {os : List (List Out)},
    run s0 ops = .ok (s, os) → ∀ r ∈ s.running, r.stopSent = true →
      (∃ r0 ∈ s0.running, r0.task.id = r.task.id ∧ r0.stopSent = true) ∨
      ∃ o ∈ os, ∃ k, Out.stop r.task.id k ∈ o
  | [], s0, s, os, hr, r, hrm, hf => by
    simp only [run] at hr; cases hr
    exact Or.inl ⟨r, hrm, rfl, hf⟩
  | op :: ops, s0, s, os, hr, r, hrm, hf => by
    simp only [run] at hr
    split at hr
    · cases hr
    · rename_i s1 o1 h1
      split at hr
      · cases hr
      · rename_i s2 os2 h2
        cases hr
        rcases run_stopSent ops h2 r hrm hf with ⟨r1, hr1, hid1, hf1⟩ | ⟨o, ho, k, hk⟩
        · rcases step_stopSent h1 r1 hr1 hf1 with ⟨r0, hr0, hid0, hf0⟩ | ⟨k, hk⟩
          · exact Or.inl ⟨r0, hr0, by rw [hid0, hid1], hf0⟩
          · exact Or.inr ⟨o1, List.mem_cons_self, k, by rw [← hid1]; exact hk⟩
        · exact Or.inr ⟨o, List.mem_cons_of_mem _ ho, k, hk⟩

end HqModel.Worker
