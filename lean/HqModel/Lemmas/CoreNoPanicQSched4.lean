import HqModel.Lemmas.CoreNoPanicQSched3
/-!
C09 progress, queue correspondence `NpQ`, part B4: proactive filling and the whole scheduling round.

Status (everything below is proved, no `sorry`):

* `prefillWorker_npq`, `prefillWorkers_npq`, `proactive_npq` : `NpQ noD [] s → NpQ noD [] s'` (task ids unique).
* `schedule_npq'` : the round from `NpQ noD [] s` and unique task ids alone.
* `schedule_npq` : the statement asked for (hypotheses `InvF`, `QInv`, `NpInv`, `SolMnOk`, `SolOk`; only `NpInv.q` and the
  uniqueness of the task ids are used — a successful round never needs `SolOk` for the *preservation* of `NpQ`, because
  a successful `take_tasks` returns exactly `Σ counts` ids and `deal` places all of them).
-/
namespace HqModel.Core.NPD

open NP

theorem prefillWorker_npq {s s' : State} {m m' : List WUpdate} {rq size w : Nat} (h : NpQ noD [] s)
    (hn : (taskIds s.tasks).Nodup) (hp : s.prefillWorker m rq size w = .ok (s', m')) : NpQ noD [] s' := by
  have hn' : (taskIds s'.tasks).Nodup := by rw [prefillWorker_stable hp]; exact hn
  simp only [State.prefillWorker] at hp
  split at hp
  · cases hp
  · rename_i q hq
    split at hp
    · cases hp
    · rename_i p ids0 more hready
      split at hp
      · cases hp
      · rename_i pf hpf
        have hJ := npj_start (size := size) h hq hready hpf
        split at hp
        · cases hp
        · rename_i s2 keep hb
          have hJ2 := prefillBack_npj _ _ _ _ _ _ (by simpa using hJ) hb
          split at hp
          · cases hp
          · rename_i s3 hm
            cases hp
            exact (prefillMark_npj _ _ _ _ hJ2 hm).npq hn'

theorem prefillWorkers_npq (ws : List Nat) (s s' : State) (m m' : List WUpdate) (rq size : Nat) (h : NpQ noD [] s)
    (hn : (taskIds s.tasks).Nodup) (hp : s.prefillWorkers m rq size ws = .ok (s', m')) : NpQ noD [] s' := by
  induction ws generalizing s m with
  | nil => simp only [State.prefillWorkers] at hp; cases hp; exact h
  | cons w rest ih =>
    simp only [State.prefillWorkers] at hp
    split at hp
    · cases hp
    · rename_i s1 m1 h1
      have hn1 : (taskIds s1.tasks).Nodup := by rw [prefillWorker_stable h1]; exact hn
      exact ih _ _ (prefillWorker_npq h hn h1) hn1 hp

theorem proactive_npq (n : Nat) (s s' : State) (m m' : List WUpdate) (orders : List (Nat × List Nat)) (top : Int)
    (rq : Nat) (h : NpQ noD [] s) (hn : (taskIds s.tasks).Nodup)
    (hp : s.proactive m orders top n rq = .ok (s', m')) : NpQ noD [] s' := by
  induction n generalizing s m rq with
  | zero => simp only [State.proactive] at hp; cases hp; exact h
  | succ k ih =>
    simp only [State.proactive] at hp
    repeat' (split at hp)
    all_goals first
      | (cases hp; done)
      | (cases hp; exact h)
      | exact ih _ _ _ h hn hp
      | (rename_i s1 m1 h1
         have hn1 : (taskIds s1.tasks).Nodup := by rw [prefillWorkers_ids _ _ _ _ _ _ _ h1]; exact hn
         exact ih _ _ _ (prefillWorkers_npq _ _ _ _ _ _ _ h hn h1) hn1 hp)

/-- the scheduling round preserves the queue ↔ state correspondence -/
theorem schedule_npq' {s s' : State} {sol : Solution} {out : Out} (h : NpQ noD [] s) (hn : (taskIds s.tasks).Nodup)
    (hp : s.schedule sol = .ok (s', out)) : NpQ noD [] s' := by
  simp only [State.schedule] at hp
  split at hp
  · cases hp
  · rename_i s1 m1 h1
    have a1 := mapSn_npq _ _ _ _ _ _ h hn h1
    have n1 : (taskIds s1.tasks).Nodup := by rw [mapSn_ids _ _ _ _ _ _ h1]; exact hn
    split at hp
    · cases hp
    · rename_i s2 mnTasks h2
      have a2 := mapMn_npq _ _ _ _ _ a1 n1 h2
      have n2 : (taskIds s2.tasks).Nodup := by rw [mapMn_ids _ _ _ _ _ h2]; exact n1
      split at hp
      · cases hp
      · rename_i s3 m3 h3
        have a3 : NpQ noD [] s3 := by
          split at h3
          · cases h3; exact a2
          · exact proactive_npq _ _ _ _ _ _ _ _ a2 n2 h3
        split at hp
        · cases hp
        · split at hp
          · cases hp
          · cases hp
            exact npq_frame a3 rfl rfl rfl

set_option linter.unusedVariables false in
/-- the statement in the vocabulary of the step theorem -/
theorem schedule_npq {U : List TaskId} {s s' : State} {sol : Solution} {out : Out} (hi : InvF s)
    (hq : QInv U none [] s) (hn : NpInv U [] s) (hm : SolMnOk s sol) (hsol : SolOk s sol)
    (h : s.schedule sol = .ok (s', out)) : NpQ noD [] s' :=
  schedule_npq' hn.q hi.inv.nd h

end HqModel.Core.NPD
