import HqModel.Lemmas.SchedF2c
/-!
Lemmas for C15 with two resource kinds: what `fitCount` (`task_max_count_for_request`) and `gap`
(`GapCache::get_gap`) mean per resource kind.

* `fitCount_fits1/2`, `le_fitCount`: `fitCount` is the largest number of tasks that fit in both kinds.
* `gap_fits`: the `gap` tasks of the lower class fit, in BOTH kinds, beside a maximal packing of the higher class
  into the worker's total resources (whatever is reserved there).
* `gap_lt_some_kind`: in SOME kind the higher class asks for, the gap tasks take less than one task of the higher
  class. With cpu-only classes that kind is the cpus and this is `gap_mul_lt`, the inequality the exchange argument of
  F2 rests on (the objective counts cpus only). With two kinds the objective adds the shares of both kinds, and the
  gap tasks may weigh more than one task of the higher class through the OTHER kind — that is the mechanism of
  `c15_counterexample_two_resources`, and why `CpuOnly` cannot be dropped from the F2 part of `c15_partial_F`.
-/
namespace HqModel.Sched

theorem fitCount_fits1 (a1 a2 n1 n2 : Nat) : n1 * fitCount a1 a2 n1 n2 ≤ a1 := by
  unfold fitCount
  split
  · exact Nat.mul_div_le _ _
  · exact Nat.le_trans (Nat.mul_le_mul_left _ (Nat.min_le_left _ _)) (Nat.mul_div_le _ _)

theorem fitCount_fits2 (a1 a2 n1 n2 : Nat) : n2 * fitCount a1 a2 n1 n2 ≤ a2 := by
  unfold fitCount
  split
  · rename_i h; simp [h]
  · exact Nat.le_trans (Nat.mul_le_mul_left _ (Nat.min_le_right _ _)) (Nat.mul_div_le _ _)

/-- maximality: a count that fits in both kinds is at most `fitCount` -/
theorem le_fitCount {a1 a2 n1 n2 k : Nat} (h1 : 0 < n1) (hk1 : n1 * k ≤ a1) (hk2 : n2 * k ≤ a2) :
    k ≤ fitCount a1 a2 n1 n2 := by
  have e1 : k ≤ a1 / n1 := by rw [Nat.le_div_iff_mul_le h1, Nat.mul_comm]; exact hk1
  unfold fitCount
  split
  · exact e1
  · rename_i h
    have h2 : 0 < n2 := Nat.pos_of_ne_zero h
    have e2 : k ≤ a2 / n2 := by rw [Nat.le_div_iff_mul_le h2, Nat.mul_comm]; exact hk2
    exact Nat.le_min.mpr ⟨e1, e2⟩

theorem gapLeft_le (g : Nat → Nat) (high : Nat) (l : List Nat) (base : Nat) : gapLeft g high l base ≤ base :=
  foldl_sub_le g high l base

/-- the tasks of `low` the gap counts fit, in both kinds, beside as many tasks of `high` as the worker can hold -/
theorem gap_fits (inst : Instance) (high low : Nat) (w : Worker) :
    inst.need low * gap inst high low w +
        inst.need high * fitCount w.total w.total2 (inst.need high) (inst.need2 high) ≤ w.total ∧
      inst.need2 low * gap inst high low w +
        inst.need2 high * fitCount w.total w.total2 (inst.need high) (inst.need2 high) ≤ w.total2 := by
  have a1 := fitCount_fits1 w.total w.total2 (inst.need high) (inst.need2 high)
  have a2 := fitCount_fits2 w.total w.total2 (inst.need high) (inst.need2 high)
  constructor
  · have := fitCount_fits1
      (gapLeft inst.need high w.assigned
        (w.total - inst.need high * fitCount w.total w.total2 (inst.need high) (inst.need2 high)))
      (gapLeft inst.need2 high w.assigned
        (w.total2 - inst.need2 high * fitCount w.total w.total2 (inst.need high) (inst.need2 high)))
      (inst.need low) (inst.need2 low)
    have hl := gapLeft_le inst.need high w.assigned
      (w.total - inst.need high * fitCount w.total w.total2 (inst.need high) (inst.need2 high))
    unfold gap
    simp only
    omega
  · have := fitCount_fits2
      (gapLeft inst.need high w.assigned
        (w.total - inst.need high * fitCount w.total w.total2 (inst.need high) (inst.need2 high)))
      (gapLeft inst.need2 high w.assigned
        (w.total2 - inst.need2 high * fitCount w.total w.total2 (inst.need high) (inst.need2 high)))
      (inst.need low) (inst.need2 low)
    have hl := gapLeft_le inst.need2 high w.assigned
      (w.total2 - inst.need2 high * fitCount w.total w.total2 (inst.need high) (inst.need2 high))
    unfold gap
    simp only
    omega

/-- in some kind the higher class asks for, the gap tasks of the lower class take less than ONE task of the higher
class (one more task of the higher class does not fit into the worker's total resources in that kind) -/
theorem gap_lt_some_kind (inst : Instance) (high low : Nat) (w : Worker) (hpos : 0 < inst.need high) :
    inst.need low * gap inst high low w < inst.need high ∨
      (inst.need2 high ≠ 0 ∧ inst.need2 low * gap inst high low w < inst.need2 high) := by
  obtain ⟨f1, f2⟩ := gap_fits inst high low w
  generalize hn : fitCount w.total w.total2 (inst.need high) (inst.need2 high) = n at f1 f2
  -- n + 1 tasks of `high` do not fit
  have hmax : ¬ (inst.need high * (n + 1) ≤ w.total ∧ inst.need2 high * (n + 1) ≤ w.total2) := by
    rintro ⟨h1, h2⟩
    have := le_fitCount hpos h1 h2
    omega
  by_cases h1 : inst.need high * (n + 1) ≤ w.total
  · right
    have h2 : ¬ inst.need2 high * (n + 1) ≤ w.total2 := fun h2 => hmax ⟨h1, h2⟩
    rw [Nat.mul_add, Nat.mul_one] at h2
    refine ⟨fun h0 => ?_, by omega⟩
    rw [h0] at h2
    simp at h2
  · left
    rw [Nat.mul_add, Nat.mul_one] at h1
    omega

end HqModel.Sched
