import HqModel.Lemmas.CoreInvRes2
/-!
Stage 3, part 3: the resource equation under the task-update half of the reactor. `task_running` for a Prefilled
or Retracting task books resources on the reporting worker with the saturating `remove`: the equation survives
only under the per-message non-saturation condition `RunNoSat` (finding F29 shows it can fail).
-/
namespace HqModel.Core

/-! ### `task_failed` -/

theorem removeWaitingAll_ir (ids : List TaskId) (s s' : State) (hi : IR s)
    (h : s.removeWaitingAll ids = .ok s') : IR s' ∧ ∀ x, Free s x → Free s' x := by
  induction ids generalizing s with
  | nil => simp only [State.removeWaitingAll] at h; cases h; exact ⟨hi, fun _ hx => hx⟩
  | cons t rest ih =>
    simp only [State.removeWaitingAll] at h
    split at h
    · cases h
    · rename_i s1 st h1
      split at h
      · rename_i n
        have hs := (removeTask_spec h1).1
        have hf : Free s t := hi.inv.free_of_state (Or.inr (Or.inl ⟨n, hs⟩))
        obtain ⟨a, b⟩ := ih _ (removeTask_ir hi hf h1) h
        exact ⟨a, fun x hx => b x (removeTask_free hx h1)⟩
      · cases h

theorem taskFailed_pre_ir {s s1 : State} {worker : Option Nat} {id : TaskId} {task : Task}
    (hi : IR s) (ht : findTask s.tasks id = some task)
    (h : (match worker with
      | some w =>
        if s.isMultiNode task.rq then
          match task.state with
          | .runningMN ws =>
            match ws with
            | root :: _ => if root ≠ w then .error (.panic "task_failed.assert_root") else resetMnAll s ws
            | [] => .error (.panic "task_failed.ws0")
          | _ => .error (.panic "task_failed.mn_placement_unwrap")
        else
          match task.state with
          | .assigned w' rv | .running w' rv =>
            if w ≠ w' then .error (.panic "task_failed.assert_worker") else
            match s.rq task.rq rv with
            | .error e => .error e
            | .ok r => s.withWorker w (·.removeSn id r)
          | .prefilled w' =>
            if w ≠ w' then .error (.panic "task_failed.assert_worker") else
            match s.removePrefilled task.rq id with
            | .error e => .error e
            | .ok s1 => s1.withWorker w (·.removePrefill id)
          | .retracting w' =>
            if w ≠ w' then .error (.panic "task_failed.assert_worker") else
            s.tryRemoveRedirection id task.rq
          | _ => .ok s
      | none =>
        match task.state with
        | .waiting _ => .ok s
        | _ => .error (.panic "task_failed.assert_waiting") : M State) = .ok s1) :
    Res s1 := by
  have hinv := hi.inv
  split at h
  · rename_i w
    split at h
    · split at h
      · split at h
        · split at h
          · cases h
          · obtain ⟨a, b, c, d, e, f⟩ := resetMnAll_ls _ _ _ hinv.ls h
            unfold Res; rw [c, e]; exact resetMnAll_res _ _ _ hi.res h
        · cases h
      · cases h
    · split at h
      · rename_i w' rv hs
        split at h
        · cases h
        · rename_i hw; simp only [ne_eq, Decidable.not_not] at hw; subst hw
          split at h
          · cases h
          · rename_i r hrq
            obtain ⟨a, b, c, d, e, f⟩ := removeSn_detach hinv.ls h
            unfold Res; rw [c, e]; exact removeSn_res hinv.ls hi.res ht (Or.inl hs) hrq h
      · rename_i w' rv hs
        split at h
        · cases h
        · rename_i hw; simp only [ne_eq, Decidable.not_not] at hw; subst hw
          split at h
          · cases h
          · rename_i r hrq
            obtain ⟨a, b, c, d, e, f⟩ := removeSn_detach hinv.ls h
            unfold Res; rw [c, e]; exact removeSn_res hinv.ls hi.res ht (Or.inr hs) hrq h
      · split at h
        · cases h
        · split at h
          · cases h
          · rename_i s0 hq
            have hc := removePrefilled_core hq
            have hi0 := hc.ir hi
            obtain ⟨a, b, c, d, e, f, _⟩ := removePrefill_detach hi0.inv.ls h
            unfold Res; rw [c, e]; exact removePrefill_res hi0.res h
      · rename_i w' hs
        split at h
        · cases h
        · obtain ⟨c, e, _⟩ := tryRemoveRedirection_spec h
          unfold Res; rw [c, e]; exact tryRemoveRedirection_res hinv.ls hi.res ht hs h
      · cases h; exact hi.res
  · split at h
    · cases h; exact hi.res
    · cases h

theorem taskFailed_ir {s s' : State} {worker : Option Nat} {id : TaskId} {ret : List TaskId} {o : Out}
    (hi : IR s) (h : s.taskFailed worker id ret = .ok (s', o)) : IR s' := by
  simp only [State.taskFailed, State.task?] at h
  split at h
  · cases h; exact hi
  · rename_i task ht
    split at h
    · cases h
    · rename_i s1 hpre
      obtain ⟨hi1, hf1, _⟩ := taskFailed_pre_inv hi.inv ht hpre
      have hr1 := taskFailed_pre_ir hi ht hpre
      have hir1 : IR s1 := ⟨hi1, hr1⟩
      split at h
      · cases h
      · split at h
        · cases h
        · rename_i s2 h2
          obtain ⟨hi2, hf2⟩ := removeWaitingAll_ir _ _ _ hir1 h2
          split at h
          · cases h
          · rename_i s3 st h3
            have hi3 := removeTask_ir hi2 (hf2 _ hf1) h3
            clear hpre
            repeat' (split at h)
            all_goals first | (cases h; done) | (cases h; exact hi3) | (cases h; exact cancelTasks_ir hi3 ‹_›)

/-! ### `task_running` -/

/-- the request `(rq, rv)` fits into what worker `w` has free, entry by entry, without saturation -/
def FitsAt (s : State) (w rq rv : Nat) : Prop :=
  ∀ r wk A F P, s.rq rq rv = .ok r → s.worker? w = some wk → wk.assign = .sn A F P → NoSat wk.total F r.entries

instance (s : State) (w rq rv : Nat) : Decidable (FitsAt s w rq rv) := by
  unfold FitsAt
  cases hr : s.rq rq rv with
  | error e => exact isTrue (fun _ _ _ _ _ h => by cases h)
  | ok r =>
    cases hw : s.worker? w with
    | none => exact isTrue (fun _ _ _ _ _ _ h => by cases h)
    | some wk =>
      cases ha : wk.assign with
      | mn a b c => exact isTrue (fun _ _ _ _ _ _ h1 h2 => by cases h1; rw [ha] at h2; cases h2)
      | sn A F P =>
        by_cases hn : NoSat wk.total F r.entries
        · exact isTrue (fun _ _ _ _ _ h0 h1 h2 => by cases h0; cases h1; rw [ha] at h2; cases h2; exact hn)
        · exact isFalse (fun hh => hn (hh r wk A F P rfl rfl ha))

/-- **non-saturation side condition of a Running / RunningPrefilled message**: when the task is Prefilled (the
worker started it from its backlog) or Retracting (the worker started it before the retraction arrived) the
server books the request on the reporting worker with the saturating `remove`; the condition says the request
fits into what that worker has free at that moment (for Retracting: after the redirect's reservation was given
back). Finding F29: the protocol does not guarantee it. -/
def RunNoSat (s : State) (w : Nat) (t : TaskId) (rv : Nat) : Prop :=
  match s.task? t with
  | none => True
  | some task =>
    match task.state with
    | .prefilled _ => FitsAt s w task.rq rv
    | .retracting _ =>
      match s.tryRemoveRedirection t task.rq with
      | .ok s2 => FitsAt s2 w task.rq rv
      | .error _ => True
    | _ => True

instance (s : State) (w : Nat) (t : TaskId) (rv : Nat) : Decidable (RunNoSat s w t rv) := by
  unfold RunNoSat
  cases s.task? t with
  | none => exact isTrue trivial
  | some task =>
    simp only
    cases task.state <;> simp only <;> try infer_instance
    cases s.tryRemoveRedirection t task.rq <;> simp only <;> infer_instance

/-- `try_remove_redirection` reads only workers, redirects and requests -/
theorem tryRemoveRedirection_congr {s s1 s2 : State} {t : TaskId} {rq : Nat} (hw : s1.workers = s.workers)
    (hr : s1.redirects = s.redirects) (hq : s1.rqs = s.rqs) (h : s1.tryRemoveRedirection t rq = .ok s2) :
    ∃ s2', s.tryRemoveRedirection t rq = .ok s2' ∧ s2'.workers = s2.workers ∧ s2'.redirects = s2.redirects ∧
      s2'.rqs = s2.rqs := by
  obtain ⟨_, hq2, hc⟩ := tryRemoveRedirection_spec h
  rcases hc with ⟨hn, hw2, hr2⟩ | ⟨w, v, r, wk, A, F, P, F', hsome, hrq, hfw, ha, hm, hfa, hw2, hr2⟩
  · refine ⟨s, ?_, by rw [hw2, hw], by rw [hr2, hr], by rw [hq2, hq]⟩
    simp only [State.tryRemoveRedirection]
    rw [hr] at hn
    rw [hn]
  · rw [hr] at hsome hr2
    rw [hw] at hfw hw2
    have hrq' : ({ s with redirects := s.redirects.filter (·.1 ≠ t) } : State).rq rq v = .ok r := by
      simp only [State.rq] at hrq ⊢
      rw [hq] at hrq; exact hrq
    have hrem : wk.removeSn t r = .ok { wk with assign := .sn (A.erase t) F' P } := by
      simp only [Worker.removeSn, ha]
      have : A.contains t = true := by simpa using hm
      simp only [this, Bool.not_true, Bool.false_eq_true, if_false, hfa]
    refine ⟨({ s with redirects := s.redirects.filter (·.1 ≠ t) } : State).setWorker
      { wk with assign := .sn (A.erase t) F' P }, ?_, by rw [hw2]; rfl, by rw [hr2]; rfl, by rw [hq2, hq]; rfl⟩
    simp only [State.tryRemoveRedirection, hsome, hrq']
    simp only [State.withWorker, State.getWorker, State.worker?, hfw, hrem]

theorem resvOf_put_self' {ts : List Task} {t' told : Task} {rd rqs} {t : TaskId} (ht : findTask ts t'.id = some told)
    (hid : t'.id = t) :
    resvOf (putTask ts t') rd rqs t = (variantOf rd t t'.state).bind (rqEntries rqs t'.rq) := by
  subst hid; exact resvOf_put_self ht

theorem FitsAt.congr {s s' : State} {w rq rv : Nat} (hw : s'.workers = s.workers) (hq : s'.rqs = s.rqs)
    (h : FitsAt s w rq rv) : FitsAt s' w rq rv := by
  intro r wk A F P h1 h2 h3
  refine h r wk A F P ?_ ?_ h3
  · simp only [State.rq] at h1 ⊢; rw [hq] at h1; exact h1
  · simp only [State.worker?] at h2 ⊢; rw [hw] at h2; exact h2

theorem taskRunning_ir {s s' : State} {w : Nat} {id : TaskId} {rv : Nat} {o : Out}
    (hi : IR s) (hns : RunNoSat s w id rv) (h : s.taskRunning w id rv = .ok (s', o)) : IR s' := by
  refine ⟨taskRunning_inv hi.inv h, ?_⟩
  have hinv := hi.inv
  simp only [State.taskRunning, State.task?] at h
  split at h
  · cases h; exact hi.res
  · rename_i task ht
    have hid : task.id = id := findTask_some_id ht
    have hst := stOf_of_find ht
    have ht' : ∀ st, findTask s.tasks ({ task with state := st } : Task).id = some task := by
      intro st; simpa [hid] using ht
    unfold RunNoSat at hns
    simp only [State.task?, ht] at hns
    split at h
    · -- assigned: same variant, same reservation
      rename_i w' rv' hs
      split at h
      · cases h
      · rename_i hw; simp only [ne_eq, Decidable.not_not] at hw; subst hw
        split at h
        · cases h
        · rename_i hv; simp only [ne_eq, Decidable.not_not] at hv; subst hv
          cases h
          show Res4 (putTask s.tasks _) s.workers s.redirects s.rqs
          exact hi.res.put_same_resv (ht' (.running w' rv')) (fun _ _ => rfl) (by simp [hs, variantOf])
    · -- prefilled: the request is booked now
      rename_i w' hs
      simp only [hs] at hns
      split at h
      · cases h
      · rename_i hw; simp only [ne_eq, Decidable.not_not] at hw; subst hw
        split at h
        · cases h
        · rename_i r hr
          split at h
          · cases h
          · rename_i s1 hww
            split at h
            · cases h
            · rename_i s2 hq
              cases h
              refine (queueRemove_core hq).res ?_
              obtain ⟨wk, wk', hfw, hf, rfl⟩ := withWorker_spec hww
              obtain ⟨A, F, P, F', ha, hfr, hm, hnm, rfl⟩ := prefilledToStarted_spec hf
              change findWorker s.workers w' = some wk at hfw
              have hwid : wk.id = w' := findWorker_some_id hfw
              show Res4 (putTask s.tasks _) (putWorker s.workers _) s.redirects s.rqs
              refine hi.res.mv_insert (t := id) (es := r.entries) (wk := wk) (by simpa [hwid] using hfw) ha rfl rfl hfr
                (hns r wk A F P hr hfw ha) ?_ ?_ ?_
              · exact hinv.ls.not_asg_of_state (st := .prefilled w') (by rw [hst, hs]) (by simp)
              · intro u hu
                exact resvOf_put_ne (by simpa [hid] using hu)
              · rw [resvOf_put_self' (ht' (.running w' rv)) hid]
                simp only [variantOf, Option.bind_some]
                exact rqEntries_of_rq hr
    · -- retracting: the redirect's reservation is given back, the request is booked on the reporting worker
      rename_i w' hs
      simp only [hs] at hns
      split at h
      · cases h
      · rename_i hw; simp only [ne_eq, Decidable.not_not] at hw; subst hw
        split at h
        · cases h
        · rename_i s1 hq
          have hc1 := queueRemove_core hq
          split at h
          · cases h
          · rename_i s2 hr
            split at h
            · cases h
            · rename_i r hrq
              split at h
              · cases h
              · rename_i s3 hww
                cases h
                have e1w : s1.workers = s.workers := hc1.w
                have e1r : s1.redirects = s.redirects := hc1.r
                have e1q : s1.rqs = s.rqs := hc1.q
                have hl1 : LS3 s.tasks s1.workers s1.redirects := by rw [e1w, e1r]; exact hinv.ls
                have hr1 : Res4 s.tasks s1.workers s1.redirects s1.rqs := by rw [e1w, e1r, e1q]; exact hi.res
                obtain ⟨a, b, _, f⟩ := tryRemoveRedirection_ls hl1 hr
                obtain ⟨c, e, _⟩ := tryRemoveRedirection_spec hr
                have hr2 := tryRemoveRedirection_res hl1 hr1 ht hs hr
                have hfree := f w' (by rw [hst, hs])
                -- the side condition speaks about this state
                obtain ⟨s2', hs2', g1, g2, g3⟩ := tryRemoveRedirection_congr e1w e1r e1q hr
                rw [hs2'] at hns
                have hfit : FitsAt s2 w' task.rq rv := FitsAt.congr g1.symm g3.symm hns
                obtain ⟨wk, wk', hfw, hf, rfl⟩ := withWorker_spec hww
                obtain ⟨A, F, P, F', ha, hfr, hnm, rfl⟩ := insertSn_spec hf
                have hwid : wk.id = w' := findWorker_some_id hfw
                have e2t : s2.tasks = putTask s.tasks { task with state := .running w' rv } := by rw [c, hc1.t]; rfl
                have e2q : s2.rqs = s.rqs := by rw [e, e1q]
                show Res4 s2.tasks (putWorker s2.workers _) s2.redirects s2.rqs
                rw [e2t]
                rw [e1q] at hr2
                rw [e2q]
                refine hr2.mv_insert (t := id) (es := r.entries) (wk := wk) (by simpa [hwid] using hfw) ha rfl rfl hfr
                  (hfit r wk A F P hrq hfw ha) hfree.na ?_ ?_
                · intro u hu
                  exact resvOf_put_ne (by simpa [hid] using hu)
                · rw [resvOf_put_self' (ht' (.running w' rv)) hid]
                  simp only [variantOf, Option.bind_some]
                  have := rqEntries_of_rq hrq
                  rw [e2q] at this; exact this
    · -- multi-node: only the started flag
      rename_i ws hs
      split at h
      · split at h
        · cases h
        · split at h
          · cases h
          · rename_i s1 hww
            cases h
            obtain ⟨wk, wk', hfw, hf, rfl⟩ := withWorker_spec hww
            have hwid := findWorker_some_id hfw
            show Res4 s.tasks (putWorker s.workers wk') s.redirects s.rqs
            split at hf
            · rename_i t r st ha
              cases hf
              refine hi.res.put_same (wk := wk) (by simpa [hwid] using hfw) rfl ?_
              intro A F P ha'; cases ha'
            · cases hf
              refine hi.res.put_same (wk := wk) (by simpa [hwid] using hfw) rfl ?_
              intro A F P ha'; exact ⟨P, ha'⟩
      · cases h
    · cases h
    · cases h
    · cases h

/-! ### `task_finished` -/

theorem wakeConsumers_ir (cs : List TaskId) (s s' : State) (r r' : List TaskId) (hi : IR s)
    (h : s.wakeConsumers cs r = .ok (s', r')) : IR s' := by
  induction cs generalizing s r with
  | nil => simp only [State.wakeConsumers] at h; cases h; exact hi
  | cons c rest ih =>
    have hinv := hi.inv
    simp only [State.wakeConsumers] at h
    split at h
    · cases h
    · rename_i t hg
      have ht := getTask_spec hg
      have hid : t.id = c := findTask_some_id ht
      split at h
      · rename_i n hs
        have ht' : findTask s.tasks ({ t with state := .waiting n } : Task).id = some t := by simpa [hid] using ht
        have hfree : Free3 s.workers s.redirects c :=
          hinv.free_of_state (Or.inr (Or.inl ⟨n + 1, by simp [stOf_of_find ht, hs]⟩))
        have hi1 : IR (s.setTask { t with state := .waiting n }) := by
          constructor
          · show Inv4 (putTask s.tasks _) s.workers s.redirects s.rqs
            refine hinv.put ht' rfl rfl (by simp [isWaiting]) (by simp) ?_
            exact hinv.ls.mv_free ht' (by show Free3 _ _ t.id; rw [hid]; exact hfree)
          · show Res4 (putTask s.tasks _) s.workers s.redirects s.rqs
            exact hi.res.put_free (by show ∀ x, t.id ∉ _; rw [hid]; exact hfree.na) (fun _ _ => rfl)
        split at h
        · split at h
          · cases h
          · rename_i s2 r2 ha
            exact ih _ _ ((addReady_core ha).ir hi1) h
        · exact ih _ _ hi1 h
      · cases h

theorem taskFinished_ir {s s' : State} {w : Nat} {id : TaskId} {o : Out} {b : Bool}
    (hi : IR s) (h : s.taskFinished w id = .ok (s', o, b)) : IR s' := by
  have hinv := hi.inv
  simp only [State.taskFinished, State.task?] at h
  split at h
  · cases h; exact hi
  · rename_i task ht
    have hst := stOf_of_find ht
    have hid : task.id = id := findTask_some_id ht
    split at h
    · cases h
    · rename_i s1 hpre
      have hd : IR s1 ∧ Free s1 id ∧ s1.tasks = s.tasks ∧ ¬ isWaiting task.state := by
        clear h
        split at hpre
        · rename_i w' rv hs
          split at hpre
          · cases hpre
          · rename_i hw; simp only [ne_eq, Decidable.not_not] at hw; subst hw
            split at hpre
            · cases hpre
            · rename_i r hrq
              obtain ⟨a, b, c, d, e, f⟩ := removeSn_detach hinv.ls hpre
              have hr1 := removeSn_res hinv.ls hi.res ht (Or.inl hs) hrq hpre
              exact ⟨⟨by unfold Inv; rw [c, e]; exact hinv.workers a, by unfold Res; rw [c, e]; exact hr1⟩,
                f _ (by rw [hst, hs]) (Or.inl ⟨rv, rfl⟩), c, by simp [hs, isWaiting]⟩
        · rename_i w' rv hs
          split at hpre
          · cases hpre
          · rename_i hw; simp only [ne_eq, Decidable.not_not] at hw; subst hw
            split at hpre
            · cases hpre
            · rename_i r hrq
              obtain ⟨a, b, c, d, e, f⟩ := removeSn_detach hinv.ls hpre
              have hr1 := removeSn_res hinv.ls hi.res ht (Or.inr hs) hrq hpre
              exact ⟨⟨by unfold Inv; rw [c, e]; exact hinv.workers a, by unfold Res; rw [c, e]; exact hr1⟩,
                f _ (by rw [hst, hs]) (Or.inr ⟨rv, rfl⟩), c, by simp [hs, isWaiting]⟩
        · rename_i ws hs
          split at hpre
          · split at hpre
            · cases hpre
            · obtain ⟨a, b, c, d, e, f⟩ := resetMnChecked_ls _ _ _ _ hinv.ls hpre
              have hr1 := resetMnChecked_res _ _ _ _ hi.res hpre
              refine ⟨⟨by unfold Inv; rw [c, e]; exact hinv.workers a, by unfold Res; rw [c, e]; exact hr1⟩, ?_, c,
                by simp [hs, isWaiting]⟩
              unfold Free
              rw [d] at a b ⊢
              exact free_after_reset hinv.ls a (by rw [hst, hs]) b f
          · cases hpre
        · rename_i w' hs
          split at hpre
          · cases hpre
          · obtain ⟨a, b, _, f⟩ := tryRemoveRedirection_ls hinv.ls hpre
            obtain ⟨c, e, _⟩ := tryRemoveRedirection_spec hpre
            have hr1 := tryRemoveRedirection_res hinv.ls hi.res ht hs hpre
            exact ⟨⟨by unfold Inv; rw [c, e]; exact hinv.workers a, by unfold Res; rw [c, e]; exact hr1⟩,
              f w' (by rw [hst, hs]), c, by simp [hs, isWaiting]⟩
        · cases hpre
        · cases hpre
        · cases hpre
      obtain ⟨hi1, hf1, ht1, hnw⟩ := hd
      clear hpre
      have ht1' : findTask s1.tasks ({ task with state := .finished } : Task).id = some task := by
        rw [ht1]; simpa [hid] using ht
      have hi2 : IR (s1.setTask { task with state := .finished }) := by
        constructor
        · show Inv4 (putTask s1.tasks _) s1.workers s1.redirects s1.rqs
          refine hi1.inv.put ht1' rfl rfl (fun hw => absurd hw hnw) (by simp) ?_
          exact hi1.inv.ls.mv_free ht1' (by show Free3 _ _ task.id; rw [hid]; exact hf1)
        · show Res4 (putTask s1.tasks _) s1.workers s1.redirects s1.rqs
          exact hi1.res.put_free (by show ∀ x, task.id ∉ _; rw [hid]; exact hf1.na) (fun _ _ => rfl)
      split at h
      · cases h
      · rename_i s3 retracted h3
        have hi3 := wakeConsumers_ir _ _ _ _ _ hi2 h3
        split at h
        · cases h
        · rename_i s4 out h4
          have hi4 := retract_ir hi3 h4
          split at h
          · cases h
          · rename_i s5 st h5
            split at h
            · cases h
            · rename_i hfin
              simp only [ne_eq, Decidable.not_not] at hfin
              cases h
              have hs5 := (removeTask_spec h5).1
              exact removeTask_ir hi4 (hi4.inv.free_of_state (Or.inr (Or.inr (by rw [hs5, hfin])))) h5

/-! ### `task_reject` -/

theorem requeue_ir {s' s3 : State} {task : Task} {out : Out} {b : Bool} (hi : IR s')
    (ht : findTask s'.tasks task.id = some task) (hf : Free s' task.id)
    (h : (match (s'.setTask { task with state := .waiting 0 }).addReady { task with state := .waiting 0 } with
          | .error e => Except.error e
          | .ok (s2, retracted) =>
            match s2.retract retracted with
            | .error e => Except.error e
            | .ok (s3, out) => (Except.ok (s3, out, true) : M (State × Out × Bool))) = .ok (s3, out, b)) : IR s3 := by
  have hi1 : IR (s'.setTask { task with state := .waiting 0 }) := by
    constructor
    · show Inv4 (putTask s'.tasks _) s'.workers s'.redirects s'.rqs
      exact hi.inv.put (told := task) ht rfl rfl (by simp [isWaiting]) (by simp) (hi.inv.ls.mv_free (told := task) ht hf)
    · show Res4 (putTask s'.tasks _) s'.workers s'.redirects s'.rqs
      exact hi.res.put_free hf.na (fun _ _ => rfl)
  split at h
  · cases h
  · rename_i s2 retracted ha
    split at h
    · cases h
    · rename_i s4 out4 hr
      cases h
      exact retract_ir ((addReady_core ha).ir hi1) hr

theorem IR.setWorker_same {s : State} (hi : IR s) {wk wk' : Worker} (hfw : findWorker s.workers wk'.id = some wk)
    (e1 : wAsg wk' = wAsg wk) (e2 : wPre wk' = wPre wk) (e3 : wMn wk' = wMn wk)
    (ht : wk'.total = wk.total) (hs : ∀ A F P, wk'.assign = .sn A F P → ∃ P0, wk.assign = .sn A F P0) :
    IR (s.setWorker wk') :=
  ⟨hi.inv.setWorker_same hfw e1 e2 e3, hi.res.put_same hfw ht hs⟩

/-- resolving the redirect of a Retracting task keeps its reservation -/
theorem resolve_redirect_ir {s : State} (hi : IR s) {task : Task} {id : TaskId} {w0 target trv : Nat} {inst : Nat}
    (ht : findTask s.tasks id = some task) (hs : task.state = .retracting w0)
    (hfind : s.redirects.find? (·.1 = id) = some (id, target, trv)) :
    Inv4 (putTask s.tasks { task with inst := inst, state := .assigned target trv }) s.workers
        (s.redirects.filter (·.1 ≠ id)) s.rqs ∧
    Res4 (putTask s.tasks { task with inst := inst, state := .assigned target trv }) s.workers
        (s.redirects.filter (·.1 ≠ id)) s.rqs := by
  have hid : task.id = id := findTask_some_id ht
  have hmem := rd_mem_of_find hfind
  have ht1 : findTask s.tasks ({ task with inst := inst, state := .assigned target trv } : Task).id = some task := by
    rw [hid]; exact ht
  constructor
  · refine hi.inv.put ht1 rfl rfl (by simp [hs, isWaiting]) (by simp) ?_
    have := hi.inv.ls.mv_resolve_redirect (t' := { task with inst := inst, state := .assigned target trv }) ht1 hs
      (by simpa [hid] using hmem.1) rfl
    simpa [hid] using this
  · refine hi.res.put_same_resv ht1 ?_ ?_
    · intro u hu
      exact find_filter_ne (by simpa [hid] using hu)
    · show (variantOf _ task.id (.assigned target trv)).bind _ = (variantOf s.redirects task.id task.state).bind _
      rw [hs, hid]
      simp [variantOf, hfind]

theorem taskReject_ir {s s' : State} {w : Nat} {id : TaskId} {rv : Option Nat} {o : Out} {b : Bool}
    (hi : IR s) (hok : RejectOk s w id rv) (h : s.taskReject w id rv = .ok (s', o, b)) : IR s' := by
  unfold State.taskReject at h
  split at h
  · cases h; exact hi
  · rename_i task ht
    have hok' := fun a b => hok task a b ht
    simp only [State.task?] at ht
    have hid : task.id = id := findTask_some_id ht
    have hst := stOf_of_find ht
    split at h
    · cases h
    · rename_i wk0 hg
      have hfw0 := getWorker_spec hg
      extract_lets wk s0 tw requeue s1r at h
      have hv : wk.id = wk0.id ∧ wAsg wk = wAsg wk0 ∧ wPre wk = wPre wk0 ∧ wMn wk = wMn wk0 ∧ wk.total = wk0.total ∧
          wk.assign = wk0.assign := by
        cases rv <;> exact ⟨rfl, rfl, rfl, rfl, rfl, rfl⟩
      clear_value wk
      obtain ⟨b0, b1, b2, b3, b4, b5⟩ := hv
      have hi0 : IR s0 :=
        hi.setWorker_same (wk := wk0) (by rw [b0, findWorker_some_id hfw0]; exact hfw0) b1 b2 b3 b4
          (fun A F P ha => ⟨P, by rw [← b5]; exact ha⟩)
      have ht0 : findTask s0.tasks task.id = some task := by rw [hid]; exact ht
      split at h
      · -- assigned
        rename_i w' rv' hs
        obtain ⟨e1, e2⟩ := hok' w' rv' hs
        subst e1
        simp only [ne_eq, not_true_eq_false, if_false, e2] at h
        split at h
        · cases h
        · rename_i r hr
          split at h
          · cases h
          · rename_i s1 hw
            obtain ⟨a, b', c, d, e, f⟩ := removeSn_detach hi0.inv.ls hw
            have hr1 := removeSn_res hi0.inv.ls hi0.res (ts := s0.tasks) (by rw [← hid]; exact ht0) (Or.inl hs) hr hw
            have hi1 : IR s1 := ⟨by unfold Inv; rw [c, e]; exact hi0.inv.workers a, by unfold Res; rw [c, e]; exact hr1⟩
            simp only [requeue] at h
            refine requeue_ir hi1 (by rw [c]; exact ht0) ?_ h
            rw [hid]
            exact f _ (by show stOf s.tasks id = _; rw [hst, hs]) (Or.inl ⟨rv', rfl⟩)
      · -- prefilled
        rename_i w' hs
        split at h
        · cases h
        · rename_i s1 hw
          obtain ⟨a, b', c, d, e, f, _⟩ := removePrefill_detach hi0.inv.ls hw
          have hr1 := removePrefill_res hi0.res hw
          have hi1 : IR s1 := ⟨by unfold Inv; rw [c, e]; exact hi0.inv.workers a, by unfold Res; rw [c, e]; exact hr1⟩
          split at h
          · cases h
          · rename_i s2 hq
            have hc := removePrefilled_core hq
            simp only [requeue] at h
            refine requeue_ir (hc.ir hi1) (by rw [hc.t, c]; exact ht0) ?_ h
            rw [hid]; exact hc.free f
      · -- retracting
        rename_i w' hs
        split at h
        · simp only [Except.ok.injEq, Prod.mk.injEq] at h
          rw [← h.1]; exact hi0
        · split at h
          · rename_i t0 target trv hfind
            simp only [Except.ok.injEq, Prod.mk.injEq] at h
            rw [← h.1]
            have hmem := rd_mem_of_find hfind
            have ht0' : t0 = id := by simpa using hmem.2
            subst ht0'
            obtain ⟨k1, k2⟩ := resolve_redirect_ir (inst := task.inst) hi0 (by rw [← hid]; exact ht0) hs hfind
            exact ⟨k1, k2⟩
          · rename_i hnone
            simp only [requeue] at h
            refine requeue_ir hi0 ht0 ?_ h
            rw [hid]
            exact hi0.inv.ls.free_of_retracting (w0 := w') (by show stOf s.tasks id = _; rw [hst, hs])
              (fun x v => rd_find_none hnone x v)
      · -- multi-node: refused by its root worker before the start was reported
        rename_i ws hs
        split at h
        · cases h
        · split at h
          · simp only [Except.ok.injEq, Prod.mk.injEq] at h
            rw [← h.1]; exact hi0
          · split at h
            · simp only [Except.ok.injEq, Prod.mk.injEq] at h
              rw [← h.1]; exact hi0
            · split at h
              · simp only [Except.ok.injEq, Prod.mk.injEq] at h
                rw [← h.1]; exact hi0
              · split at h
                · cases h
                · rename_i s1 hr
                  have hst0 : stOf s0.tasks id = some task.state := hst
                  rw [hs] at hst0
                  obtain ⟨a, b', c, d, e, f⟩ := resetMnChecked_ls _ _ _ _ hi0.inv.ls hr
                  have hr1 := resetMnChecked_res _ _ _ _ hi0.res hr
                  have hi1 : IR s1 := ⟨by unfold Inv; rw [c, e]; exact hi0.inv.workers a, by unfold Res; rw [c, e]; exact hr1⟩
                  simp only [requeue] at h
                  refine requeue_ir hi1 (by rw [c]; exact ht0) ?_ h
                  rw [hid]
                  unfold Free
                  rw [d] at a b' ⊢
                  exact free_after_reset hi0.inv.ls a hst0 b' f
      · cases h
      · cases h
      · cases h

theorem requestEnabled_ir {s s' : State} {w rq rv : Nat} (hi : IR s) (h : s.requestEnabled w rq rv = .ok s') :
    IR s' := by
  obtain ⟨wk, wk', hfw, hf, rfl⟩ := withWorker_spec h
  cases hf
  exact hi.setWorker_same (wk := wk) (by simpa [findWorker_some_id hfw] using hfw) rfl rfl rfl rfl
    (fun A F P ha => ⟨P, ha⟩)

/-! ### `on_task_update` -/

/-- the stage-3 side condition on one update: the protocol condition of stage 2 and non-saturation of the
bookings `task_running` makes -/
def UpdOk3 (s : State) (w : Nat) : Update → Prop
  | .reject t rv => RejectOk s w t rv
  | .running t rv => RunNoSat s w t rv
  | .runningPrefilled t rv => RunNoSat s w t rv
  | _ => True

instance (s : State) (w : Nat) (u : Update) : Decidable (UpdOk3 s w u) := by
  cases u <;> simp only [UpdOk3] <;> infer_instance

theorem UpdOk3.proto {s : State} {w : Nat} {u : Update} (h : UpdOk3 s w u) : UpdProto s w u := by
  cases u <;> simp only [UpdOk3, UpdProto] at h ⊢ <;> first | exact h | trivial

theorem updateState_ir {s s1 : State} {w : Nat} {u : Update} {rets rets' : List (List TaskId)}
    (hi : IR s) (hok : UpdOk3 s w u) (h : s.updateState w u rets = .ok (s1, rets')) : IR s1 := by
  cases u with
  | finished t =>
    simp only [State.updateState] at h
    split at h
    · cases h
    · rename_i h1; cases h; exact taskFinished_ir hi h1
  | failed t =>
    simp only [State.updateState] at h
    split at h
    · cases h
    · rename_i h1; cases h; exact taskFailed_ir hi h1
  | running t rv =>
    simp only [State.updateState] at h
    split at h
    · cases h
    · rename_i h1; cases h; exact taskRunning_ir hi hok h1
  | runningPrefilled t rv =>
    simp only [State.updateState] at h
    split at h
    · cases h
    · rename_i h1; cases h; exact taskRunning_ir hi hok h1
  | reject t rv =>
    simp only [State.updateState] at h
    split at h
    · cases h
    · rename_i h1; cases h; exact taskReject_ir hi hok h1
  | enable rq rv =>
    simp only [State.updateState] at h
    split at h
    · cases h
    · rename_i h1; cases h; exact requestEnabled_ir hi h1

theorem updateLoop_ir (us : List Update) (s s' : State) (w : Nat) (rets rets' : List (List TaskId)) (o o' : Out)
    (n n' : Bool) (hi : IR s) (hok : UpdatesOk UpdOk3 s w us rets)
    (h : s.updateLoop w us rets o n = .ok (s', o', n', rets')) : IR s' := by
  induction us generalizing s rets o n with
  | nil => simp only [State.updateLoop] at h; cases h; exact hi
  | cons u rest ih =>
    obtain ⟨s1, rets1, out1, need1, h1, h2⟩ := updateLoop_cons h
    simp only [UpdatesOk, h1] at hok
    exact ih _ _ _ _ (updateState_ir hi hok.1 h1) hok.2 h2

theorem taskUpdate_ir {s s' : State} {w : Nat} {us : List Update} {rets : List (List TaskId)} {o : Out}
    (hi : IR s) (hok : UpdatesOk UpdOk3 s w us rets) (h : s.taskUpdate w us rets = .ok (s', o)) : IR s' := by
  simp only [State.taskUpdate] at h
  split at h
  · cases h
  · rename_i s1 out need rets' h1
    cases h
    have := updateLoop_ir _ _ _ _ _ _ _ _ _ _ hi hok h1
    split
    · exact (CoreEq.ask s1).ir this
    · exact this

/-! ### `on_retract_response` -/

theorem retractLoop_ir (ids : List TaskId) (s s' : State) (w : Nat) (acc acc' : List (Nat × TaskId × Nat))
    (hi : IR s) (h : s.retractLoop w ids acc = .ok (s', acc')) : IR s' := by
  induction ids generalizing s acc with
  | nil => simp only [State.retractLoop] at h; cases h; exact hi
  | cons id rest ih =>
    simp only [State.retractLoop, State.task?] at h
    split at h
    · exact ih _ _ hi h
    · rename_i task ht
      have hid : task.id = id := findTask_some_id ht
      have hst := stOf_of_find ht
      split at h
      · exact ih _ _ hi h
      · rename_i hs
        simp only [ne_eq, Decidable.not_not] at hs
        split at h
        · rename_i t0 target trv hfind
          refine ih _ _ ?_ h
          have hmem := rd_mem_of_find hfind
          have ht0' : t0 = id := by simpa using hmem.2
          subst ht0'
          obtain ⟨k1, k2⟩ := resolve_redirect_ir (inst := task.inst) hi ht hs hfind
          exact ⟨k1, k2⟩
        · rename_i hnone
          refine ih _ _ ?_ h
          have ht1 : findTask s.tasks ({ task with state := .waiting 0 } : Task).id = some task := by
            rw [hid]; exact ht
          have hfree : Free3 s.workers s.redirects id :=
            hi.inv.ls.free_of_retracting (w0 := w) (by rw [hst, hs]) (fun x v => rd_find_none hnone x v)
          constructor
          · show Inv4 (putTask s.tasks _) s.workers s.redirects s.rqs
            refine hi.inv.put ht1 rfl rfl (by simp [isWaiting]) (by simp) (hi.inv.ls.mv_free ht1 ?_)
            show Free3 _ _ task.id
            rw [hid]; exact hfree
          · show Res4 (putTask s.tasks _) s.workers s.redirects s.rqs
            exact hi.res.put_free (by show ∀ x, task.id ∉ _; rw [hid]; exact hfree.na) (fun _ _ => rfl)

theorem retractResponse_ir {s s' : State} {w : Nat} {ids : List TaskId} {o : Out}
    (hi : IR s) (h : s.retractResponse w ids = .ok (s', o)) : IR s' := by
  simp only [State.retractResponse] at h
  split at h
  · cases h
  · rename_i s1 items h1
    split at h
    · cases h
    · cases h; exact retractLoop_ir _ _ _ _ _ _ hi h1

end HqModel.Core
