import HqModel.Lemmas.SysWStep4
/-!
Runs of the composed system `SysW`: the side conditions (`RunOk`), the invariant in every reachable state (`run_winv`),
and the projection to a run of `Sys` whose actions satisfy ALL side conditions of `Sys` — including the
worker-protocol ones, which are consequences here (`run_sys_run`).
-/
namespace HqModel.SysW
open HqModel HqModel.Core

instance (s : State) (op : Op) : Decidable (OpOk s op) := by
  cases op with
  | srv sop => cases sop <;> simp only [OpOk] <;> infer_instance
  | addWorker wk a b => simp only [OpOk]; infer_instance
  | loseWorker w r f o rets => exact isTrue trivial
  | deliverS2W w e => exact isTrue trivial
  | deliverW2S w r => exact isTrue trivial
  | wlocal w op => exact isTrue trivial

/-- the side conditions hold for every action of a run, each evaluated in the state it is applied to -/
def RunOk (s : State) : List Op → Prop
  | [] => True
  | op :: ops =>
    OpOk s op ∧
    match step s op with
    | .ok (s1, _) => RunOk s1 ops
    | .error _ => True

instance RunOk.decidable : ∀ (ops : List Op) (s : State), Decidable (RunOk s ops)
  | [], _ => isTrue trivial
  | op :: ops, s => by
    simp only [RunOk]
    cases h : step s op with
    | error e => simp only; infer_instance
    | ok r =>
      obtain ⟨s1, o⟩ := r
      simp only
      have := RunOk.decidable ops s1
      infer_instance

theorem winv_init (reserve max : Nat) : WInv (initState reserve max) :=
  ⟨Sys.coupled_initState reserve max, fun t ht => (by cases ht), List.nodup_nil, fun x hx => (by cases hx),
    fun x hx => (by cases hx)⟩

theorem run_winv : ∀ (ops : List Op) {s s' : State} {outs : List Out}, WInv s → RunOk s ops →
    run s ops = .ok (s', outs) → WInv s' := by
  intro ops
  induction ops with
  | nil => intro s s' outs hi _ h; simp only [run] at h; cases h; exact hi
  | cons op rest ih =>
    intro s s' outs hi hok h
    simp only [run] at h
    split at h
    · cases h
    · rename_i s1 o1 h1
      simp only [RunOk, h1] at hok
      split at h
      · cases h
      · rename_i s2 os h2
        cases h
        exact ih (step_inv hi hok.1 h1) hok.2 h2

/-! ### the `Sys` action of a world action -/

theorem sysStep_sys {s s' : State} {sop : Sys.Op} {ws : List WState} {o : Out} (h : sysStep s sop ws = .ok (s', o)) :
    ∃ so, o.sysOp = some sop ∧ o.sys = some so ∧ Sys.step s.sys sop = .ok (s'.sys, so) := by
  simp only [sysStep] at h
  split at h
  · cases h
  · rename_i sys' so hs
    cases h
    exact ⟨so, rfl, rfl, hs⟩

theorem workerStep_sys {s s' : State} {x : WState} {op : Worker.Op} {o : Out} (h : workerStep s x op = .ok (s', o)) :
    o.sysOp = none ∧ o.sys = none ∧ s'.sys = s.sys := by
  simp only [workerStep] at h
  split at h
  · cases h
  · cases h; exact ⟨rfl, rfl, rfl⟩

/-- a world action performs at most one `Sys` action, and — in a state satisfying the invariant — that action
satisfies the side condition `Sys.OpOk` (for a delivered `TaskUpdate`: BECAUSE the worker model sent it) -/
theorem step_sys {s s' : State} {op : Op} {o : Out} (h : step s op = .ok (s', o)) :
    (o.sysOp = none ∧ o.sys = none ∧ s'.sys = s.sys) ∨
    (∃ sop so, o.sysOp = some sop ∧ o.sys = some so ∧ Sys.step s.sys sop = .ok (s'.sys, so) ∧
      (WInv s → OpOk s op → Sys.OpOk s.sys sop)) := by
  cases op with
  | srv sop =>
    simp only [step] at h
    split at h
    · obtain ⟨so, a, b, c⟩ := sysStep_sys h
      exact .inr ⟨sop, so, a, b, c, fun _ hok => hok.sys⟩
    · cases h
  | addWorker wk rqs rem =>
    simp only [step] at h
    split at h
    · cases h
    · obtain ⟨so, a, b, c⟩ := sysStep_sys h
      exact .inr ⟨_, so, a, b, c, fun _ hok => hok.1⟩
  | loseWorker w reason f order rets =>
    simp only [step] at h
    split at h
    · cases h
    · obtain ⟨so, a, b, c⟩ := sysStep_sys h
      exact .inr ⟨_, so, a, b, c, fun _ _ => trivial⟩
  | deliverW2S w rets =>
    simp only [step] at h
    split at h
    · cases h
    · rename_i x hf
      split at h
      · cases h
      · rename_i m rest hq
        split at h
        · obtain ⟨so, a, b, c⟩ := sysStep_sys h
          exact .inr ⟨_, so, a, b, c, fun hi _ => deliver_updOk hi hf hq rets⟩
        · obtain ⟨so, a, b, c⟩ := sysStep_sys h
          exact .inr ⟨_, so, a, b, c, fun _ _ => trivial⟩
  | deliverS2W w extras =>
    simp only [step] at h
    split at h
    · cases h
    · split at h
      · cases h
      · split at h
        · cases h
        · exact .inl (workerStep_sys h)
  | wlocal w op =>
    simp only [step] at h
    split at h
    · split at h
      · cases h
      · exact .inl (workerStep_sys h)
    · cases h

/-- the outputs of the `Sys` actions of a run -/
def sysOuts (outs : List Out) : List Sys.Out := outs.filterMap (·.sys)

/-- **the server part of a composed run is a run of `Sys`**, and all its actions satisfy `Sys.OpOk` -/
theorem run_sys_run : ∀ (ops : List Op) (s s' : State) (outs : List Out), run s ops = .ok (s', outs) →
    Sys.run s.sys (sysOps outs) = .ok (s'.sys, sysOuts outs) ∧
    (WInv s → RunOk s ops → Sys.RunOk s.sys (sysOps outs)) := by
  intro ops
  induction ops with
  | nil =>
    intro s s' outs h
    simp only [run] at h; cases h
    exact ⟨rfl, fun _ _ => trivial⟩
  | cons op rest ih =>
    intro s s' outs h
    simp only [run] at h
    split at h
    · cases h
    · rename_i s1 o1 h1
      split at h
      · cases h
      · rename_i s2 os h2
        cases h
        obtain ⟨r1, r2⟩ := ih _ _ _ h2
        rcases step_sys h1 with ⟨a, b, c⟩ | ⟨sop, so, a, b, c, d⟩
        · simp only [sysOps, sysOuts, List.filterMap_cons, a, b]
          rw [← c]
          refine ⟨r1, fun hi hok => ?_⟩
          simp only [RunOk, h1] at hok
          exact r2 (step_inv hi hok.1 h1) hok.2
        · simp only [sysOps, sysOuts, List.filterMap_cons, a, b]
          refine ⟨by simp only [Sys.run, c]; rw [show List.filterMap (fun x => x.sysOp) os = sysOps os from rfl, r1]; rfl,
            fun hi hok => ?_⟩
          simp only [RunOk, h1] at hok
          simp only [Sys.RunOk, c]
          exact ⟨d hi hok.1, r2 (step_inv hi hok.1 h1) hok.2⟩

end HqModel.SysW
