import HqModel.Auth.Model
/-! Function-level facts about the three `Authenticator` functions (no trace system yet). -/
namespace HqModel.Auth

/-- The AEAD premise in the form it is used: a ciphertext opens under `(k, n)` to `p` iff it IS the
seal of `p` under exactly `(k, n)`. -/
theorem openC_eq_some {k n : Nat} {ct : Cipher} {p : Bytes} :
    openC k n ct = some p ↔ ct = .seal k n p := by
  cases ct with
  | junk id => simp [openC]
  | «seal» k' n' p' =>
    simp only [openC, Cipher.seal.injEq]
    constructor
    · intro h
      split at h
      · rename_i hk; cases h; exact ⟨hk.1, hk.2, rfl⟩
      · cases h
    · rintro ⟨rfl, rfl, rfl⟩; simp

/-- `role ++ challenge` is concatenated without a separator; it is still injective because both
challenges have the same length (16: the responder checks it, the requester generated it). -/
theorem role_chal_inj {r₁ c₁ r₂ c₂ : Bytes} (h : r₁ ++ c₁ = r₂ ++ c₂) (hl : c₁.length = c₂.length) :
    r₁ = r₂ ∧ c₁ = c₂ := by
  have hlen : r₁.length = r₂.length := by
    have := congrArg List.length h
    simp only [List.length_append] at this
    omega
  exact List.append_inj h hlen

/-! ### makeRequest -/

@[simp] theorem makeRequest_config (a : Authenticator) (c : Bytes) :
    (makeRequest a c).1.config = a.config := by
  unfold makeRequest; split <;> rfl

@[simp] theorem makeRequest_error (a : Authenticator) (c : Bytes) :
    (makeRequest a c).1.error = a.error := by
  unfold makeRequest; split <;> rfl

theorem makeRequest_challenge_keyed {a : Authenticator} {c : Bytes} {k : Nat} (hk : a.key = some k) :
    (makeRequest a c).1.challenge = c := by
  unfold makeRequest; rw [hk]

theorem makeRequest_key (a : Authenticator) (c : Bytes) : (makeRequest a c).1.key = a.key := by
  unfold makeRequest; split <;> rfl

theorem makeRequest_myRole (a : Authenticator) (c : Bytes) : (makeRequest a c).1.myRole = a.myRole := by
  unfold makeRequest; split <;> rfl

theorem makeRequest_peerRole (a : Authenticator) (c : Bytes) :
    (makeRequest a c).1.peerRole = a.peerRole := by
  unfold makeRequest; split <;> rfl

/-! ### makeResponse only ever touches the latch -/

theorem makeResponse_frame (a : Authenticator) (req : Request) (n : Nat) :
    (makeResponse a req n).1 = a ∨ (makeResponse a req n).1 = { a with error := true } := by
  unfold makeResponse Authenticator.fail
  repeat' split
  all_goals simp

theorem makeResponse_key (a : Authenticator) (req : Request) (n : Nat) :
    (makeResponse a req n).1.key = a.key := by
  rcases makeResponse_frame a req n with h | h <;> rw [h]

theorem makeResponse_myRole (a : Authenticator) (req : Request) (n : Nat) :
    (makeResponse a req n).1.myRole = a.myRole := by
  rcases makeResponse_frame a req n with h | h <;> rw [h]

theorem makeResponse_peerRole (a : Authenticator) (req : Request) (n : Nat) :
    (makeResponse a req n).1.peerRole = a.peerRole := by
  rcases makeResponse_frame a req n with h | h <;> rw [h]

theorem makeResponse_challenge (a : Authenticator) (req : Request) (n : Nat) :
    (makeResponse a req n).1.challenge = a.challenge := by
  rcases makeResponse_frame a req n with h | h <;> rw [h]

/-- What an `Encryption` reply of an honest endpoint looks like: sealed under its own key, with the nonce
it announces, over `my_role ++ challenge` for a 16-byte challenge taken from the request. -/
theorem makeResponse_encryption {a : Authenticator} {req : Request} {n n' : Nat} {ct : Cipher}
    (h : (makeResponse a req n).2 = .encryption n' ct) :
    ∃ k c, a.key = some k ∧ req.mode = .encryption c ∧ c.length = challengeLength ∧ n' = n ∧
      ct = .seal k n (a.myRole ++ c) ∧ req.protocol = a.protocol ∧ req.role = a.peerRole := by
  unfold makeResponse Authenticator.fail at h
  split at h
  · cases h
  · split at h
    · cases h
    · rename_i hp hr
      split at h
      · cases h
      · rename_i c k hm hk
        split at h
        · cases h
        · rename_i hl
          cases h
          exact ⟨k, c, hk, hm, by simpa using hl, rfl, rfl, by simpa using hp, by simpa using hr⟩
      · cases h
      · cases h

/-! ### finish -/

/-- A keyed endpoint accepts exactly the seal, under its key and the announced nonce, of
`peer_role ++ its own challenge` — and only when its latch is clear. -/
theorem finish_keyed {a : Authenticator} {k : Nat} (hk : a.key = some k) (resp : Response) :
    finish a resp = true ↔
      a.error = false ∧ ∃ n, resp = .encryption n (.seal k n (a.peerRole ++ a.challenge)) := by
  unfold finish
  cases he : a.error
  · simp only [Bool.false_eq_true, if_false, true_and]
    cases resp with
    | noAuth => simp [hk]
    | error => simp
    | encryption n ct =>
      simp only [hk]
      cases ho : openC k n ct with
      | none =>
        simp only [Bool.false_eq_true, false_iff]
        rintro ⟨n', h⟩
        cases h
        simp [openC] at ho
      | some p =>
        have := openC_eq_some.mp ho
        subst this
        simp only [decide_eq_true_eq]
        constructor
        · intro hp; exact ⟨n, by rw [hp]⟩
        · rintro ⟨n', h⟩; cases h; rfl
  · simp

/-- A key-less endpoint accepts exactly `NoAuth` (when its latch is clear): configured behaviour. -/
theorem finish_keyless {a : Authenticator} (hk : a.key = none) (resp : Response) :
    finish a resp = true ↔ a.error = false ∧ resp = .noAuth := by
  unfold finish
  cases he : a.error
  · cases resp <;> simp [hk]
  · simp

theorem finish_latched {a : Authenticator} (h : a.error = true) (resp : Response) :
    finish a resp = false := by
  simp [finish, h]

theorem finish_error (a : Authenticator) : finish a .error = false := by
  unfold finish; split <;> simp

end HqModel.Auth
