import HqModel.Lemmas.CoreNoPanicPipeInv
/-!
C09 compose, Stage 4b — the strengthened invariant `WInv2 = WInv ∧ XInv` of the composed system `SysW`:

* `XInv.known` — the core knows every worker that has a record;
* `XInv.pipe`  — `PipeX` (= `PX` of `Lemmas/CoreNoPanicPipeInv.lean`) for every worker record and every task;

and its induction over the world actions that are not the delivery of a `TaskUpdate` batch (worker steps, `srv`,
`addWorker`, `loseWorker`, delivery of a `RetractResponse`). The `WInv` half is `step_inv`; only the `XInv` half is
proved here (given `WInv` before and after).
-/
namespace HqModel.SysW.NPP
open HqModel HqModel.Core

/-- the extra pipeline predicate of a worker record and a task -/
def PipeX (c : Core.State) (x : WState) (t : TaskId) : Prop :=
  PX (runsOn c x.id t) (view c x.id t) (comps t x.s2w) (pend t x.w2s) x.w (enc t)

/-- **the extra invariant** -/
structure XInv (s : State) : Prop where
  /-- the core knows every worker that has a record -/
  known : ∀ x ∈ s.workers, (s.sys.core.worker? x.id).isSome = true
  pipe : ∀ x ∈ s.workers, ∀ t, PipeX s.sys.core x t

/-- **the strengthened invariant** -/
structure WInv2 (s : State) : Prop where
  winv : WInv s
  xinv : XInv s

/-! ### one record through the three kinds of action -/

theorem PipeX.congr {c c' : Core.State} {x x' : WState} {t : TaskId} (h : PipeX c x t)
    (hr : runsOn c' x'.id t ↔ runsOn c x.id t) (hv : view c' x'.id t = view c x.id t)
    (hs : comps t x'.s2w = comps t x.s2w) (hp : pend t x'.w2s = pend t x.w2s) (hw : x'.w = x.w) : PipeX c' x' t := by
  unfold PipeX at h ⊢
  rw [hv, hs, hp, hw]
  exact ⟨fun r => h.run (hr.mp r), h.head⟩

theorem PipeX.worker {c : Core.State} {U : List TaskId} {x x' : WState} {t : TaskId} {cm : List (Option Nat)}
    {outs : List Worker.Out} (hp : Pipe c U x t) (hx : PipeX c x t) (hid : x'.id = x.id)
    (hs2w : comps t x.s2w = cm ++ comps t x'.s2w) (hw2s : x'.w2s = x.w2s ++ outs.filterMap outMsg)
    (st : WStep cm (evsOuts (enc t) outs) x.w x'.w (enc t))
    (st2 : WStep2 cm (evsOuts (enc t) outs) x.w x'.w (enc t)) : PipeX c x' t := by
  have hpe : pend t x'.w2s = pend t x.w2s ++ evsOuts (enc t) outs := by rw [hw2s, pend_append, pend_outs]
  by_cases hu : t ∈ U
  · unfold PipeX at hx ⊢
    rw [hid, hpe]
    have h1 := hp.1 hu
    rw [hs2w] at hx h1
    exact hx.deliver h1 st st2
  · have hq := hp.2 hu
    rw [hs2w] at hq
    have := hq.deliver st
    rw [← hpe] at this
    exact PX.of_quiet this

theorem PipeX.srv {c c' : Core.State} {U : List TaskId} {x : WState} {t : TaskId} {msgs : List Core.Msg}
    (hp : Pipe c U x t) (hx : PipeX c x t)
    (hf : t ∈ U → Foreign (view c x.id t) (cfor x.id t msgs) (view c' x.id t))
    (hr : RunKeep c c' x.id t (cfor x.id t msgs)) : PipeX c' (route1 x msgs) t := by
  unfold PipeX at hx ⊢
  show PX _ (view c' x.id t) (comps t (route1 x msgs).s2w) (pend t x.w2s) x.w (enc t)
  rw [comps_route1]
  have hnil : t ∉ U → pend t x.w2s = [] := fun hu => (hp.2 hu).2.1
  refine hx.foreign ?_ ?_ ?_
  · intro hv
    by_cases hu : t ∈ U
    · have := hp.1 hu
      rw [hv] at this
      exact this.2.1
    · exact hnil hu
  · intro hne
    apply hf
    apply Classical.byContradiction
    intro hu
    exact hne (hnil hu)
  · rintro ⟨rv, h⟩
    obtain ⟨a, b⟩ := hr rv h
    exact ⟨⟨rv, a⟩, b⟩

theorem PipeX.own {c c' : Core.State} {U : List TaskId} {x x' : WState} {t : TaskId} {e : Ev} {msgs : List Core.Msg}
    (hp : Pipe c U x t) (hx : PipeX c x t) (hid : x'.id = x.id) (hw : x'.w = x.w) (hs2w : x'.s2w = x.s2w)
    (hw2s : pend t x.w2s = e :: pend t x'.w2s)
    (hf : Own e (view c x.id t) (cfor x.id t msgs) (view c' x.id t))
    (hr : RunOwn e c c' x.id t (cfor x.id t msgs)) : PipeX c' (route1 x' msgs) t := by
  have hu : t ∈ U := by
    apply Classical.byContradiction
    intro hn
    have := (hp.2 hn).2.1
    rw [hw2s] at this; cases this
  have h1 := hp.1 hu
  unfold PipeX at hx ⊢
  rw [hw2s] at h1 hx
  show PX (runsOn c' x'.id t) (view c' x'.id t) (comps t (route1 x' msgs).s2w) (pend t x'.w2s) x'.w (enc t)
  rw [comps_route1, hid, hw, hs2w]
  refine hx.own h1 hf ?_
  rintro ⟨rv, h⟩
  exact hr rv h

/-- nothing happened to the core and nothing was sent -/
theorem PipeX.same {c : Core.State} {U : List TaskId} {x : WState} {t : TaskId} (hp : Pipe c U x t) (hx : PipeX c x t) :
    PipeX c (route1 x []) t :=
  hx.srv hp (fun _ => by rw [cfor_nil]; exact Foreign.same _) (by rw [cfor_nil]; exact RunKeep.refl _ _ _)

/-! ### a step of a worker -/

theorem workerStep_xinv {s s' : State} {x0 x : WState} {op : Worker.Op} {o : Out} (hi : WInv s) (hxi : XInv s)
    (hx0 : x0 ∈ s.workers) (hid : x.id = x0.id) (hw : x.w = x0.w) (hw2s : x.w2s = x0.w2s)
    (hcm : ∀ t, ∃ cm, comps t x0.s2w = cm ++ comps t x.s2w ∧
      match op with
      | .compute es => itemsW (enc t) es = cm
      | _ => cm = [])
    (h : workerStep s x op = .ok (s', o)) : XInv s' := by
  simp only [workerStep] at h
  split at h
  · cases h
  · rename_i w' outs hs
    cases h
    have hk : x.w.bkeys.Nodup := by rw [hw]; exact hi.bkeys x0 hx0
    constructor
    · intro y hy
      rcases mem_setW hy with rfl | ⟨hm, _⟩
      · show (s.sys.core.worker? x.id).isSome = true
        rw [hid]; exact hxi.known x0 hx0
      · exact hxi.known y hm
    · intro y hy t
      rcases mem_setW hy with rfl | ⟨hm, _⟩
      · obtain ⟨cm, hc1, hc2⟩ := hcm t
        refine PipeX.worker (x := x0) (cm := cm) (outs := outs) (hi.pipe x0 hx0 t) (hxi.pipe x0 hx0 t)
          (by show x.id = _; exact hid) hc1 (by show x.w2s ++ _ = _; rw [hw2s]) ?_ ?_
        · show WStep cm _ x0.w w' (enc t)
          rw [← hw]
          exact wstep_of_step hk hc2 hs
        · show WStep2 cm _ x0.w w' (enc t)
          rw [← hw]
          exact wstep2_of_step hk hc2 hs
      · exact hxi.pipe y hm t

/-! ### a server action -/

/-- the generic form: `ws` = the worker records the action leaves -/
theorem sysStep_xinv {s s' : State} {sop : Sys.Op} {ws : List WState} {o : Out}
    (hpipe : ∀ sys' so, Sys.step s.sys sop = .ok (sys', so) →
      ∀ x ∈ ws, (sys'.core.worker? x.id).isSome = true ∧ ∀ t, PipeX sys'.core (route1 x so.core.msgs) t)
    (h : sysStep s sop ws = .ok (s', o)) : XInv s' := by
  simp only [sysStep] at h
  split at h
  · cases h
  · rename_i sys' so hs
    cases h
    have := hpipe sys' so hs
    constructor
    · intro y hy
      obtain ⟨x, hx, rfl⟩ := mem_routeMsgs hy
      exact (this x hx).1
    · intro y hy t
      obtain ⟨x, hx, rfl⟩ := mem_routeMsgs hy
      exact (this x hx).2 t

/-- the `Sys` state a successful `sysStep` leaves -/
theorem sysStep_sys' {s s' : State} {sop : Sys.Op} {ws : List WState} {o : Out} (h : sysStep s sop ws = .ok (s', o)) :
    ∀ sys' so, Sys.step s.sys sop = .ok (sys', so) → sys' = s'.sys := by
  intro sys' so hs
  simp only [sysStep, hs] at h
  cases h
  rfl

theorem tasks_runkeep {c c' : Core.State} (e : c'.tasks = c.tasks) (w : Nat) (t : TaskId) : RunKeep c c' w t [] :=
  fun _ h => ⟨by rw [← e]; exact h, rfl⟩

/-- the core did nothing -/
theorem xpipes_same {s : State} (hi : WInv s) (hxi : XInv s) {c' : Core.State} (e : c' = s.sys.core)
    {msgs : List Core.Msg} (em : msgs = []) :
    ∀ x ∈ s.workers, (c'.worker? x.id).isSome = true ∧ ∀ t, PipeX c' (route1 x msgs) t := by
  subst e em
  exact fun x hx => ⟨hxi.known x hx, fun t => (hxi.pipe x hx t).same (hi.pipe x hx t)⟩

/-- the pipelines through `Op.srv` -/
theorem srv_xpipes {s : State} {sop : Sys.Op} (hi : WInv s) (hxi : XInv s) (hal : srvAllowed sop = true)
    (hok : OpOk s (.srv sop)) {sys' : Sys.State} {so : Sys.Out} (hs : Sys.step s.sys sop = .ok (sys', so))
    (hc' : Sys.Coupled sys') :
    ∀ x ∈ s.workers, (sys'.core.worker? x.id).isSome = true ∧ ∀ t, PipeX sys'.core (route1 x so.core.msgs) t := by
  have hn : (taskIds s.sys.core.tasks).Nodup := hi.coupled.c0.nd
  have hm' : MnOk sys'.core := MnOk.of_invF hc'.inv
  have same : sys'.core = s.sys.core → so.core.msgs = [] → _ := fun e em => xpipes_same hi hxi e em
  -- the worker records of the core survive every `srv` action
  have known : ∀ x ∈ s.workers, (sys'.core.worker? x.id).isSome = true := by
    intro x hx
    rcases Sys.step_core_step hs with ⟨e, _, _⟩ | ⟨cop, hcop, hcs⟩
    · rw [e]; exact hxi.known x hx
    · refine step_worker_keep hcs x.id (hxi.known x hx) ?_
      intro w r f ord rets e
      subst e
      cases sop <;> first | (cases hal; done) | (cases hcop; done)
  intro x hx
  refine ⟨known x hx, fun t => ?_⟩
  have hp := hi.pipe x hx t
  have hxp := hxi.pipe x hx t
  cases sop with
  | submit job mf desc nts =>
    rcases step_submit_cases hs with ⟨e, em⟩ | ⟨hcs, _⟩
    · exact ((same e em) x hx).2 t
    · have hfr : ∀ nt ∈ nts, nt.id ∉ s.submitted := hok.2
      have hcs' : s.sys.core.newTasks nts = .ok (sys'.core, so.core) := by simpa only [Core.step] using hcs
      obtain ⟨v1, _, nc, _⟩ := newTasks_views hn hm' hcs'
      refine hxp.srv hp (fun hu => ?_) (newTasks_runkeep hn hcs' x.id t)
      rw [cfor_noCompute nc]
      refine v1 x.id t ?_
      intro hm
      obtain ⟨nt, hnt, e⟩ := List.mem_map.mp hm
      exact hfr nt hnt (e ▸ hu)
  | cancel j ids =>
    rcases Sys.step_core_step hs with ⟨e, _, em⟩ | ⟨cop, hcop, hcs⟩
    · exact ((same e em) x hx).2 t
    · simp only [Sys.coreOp, Option.some.injEq] at hcop
      subst hcop
      have hcs' : s.sys.core.cancelTasks ids = .ok (sys'.core, so.core) := by simpa only [Core.step] using hcs
      obtain ⟨v1, _⟩ := cancelTasks_views hn hm' hcs'
      exact hxp.srv hp (fun _ => v1 x.id t) (cancelTasks_runkeep hn hcs' x.id t)
  | newRq rqv =>
    rcases Sys.step_core_step hs with ⟨e, _, em⟩ | ⟨cop, hcop, hcs⟩
    · exact ((same e em) x hx).2 t
    · simp only [Sys.coreOp, Option.some.injEq] at hcop
      subst hcop
      simp only [Core.step, Except.ok.injEq, Prod.mk.injEq] at hcs
      obtain ⟨e1, e2⟩ := hcs
      rw [← e1, ← e2]
      refine hxp.srv hp (fun _ => ?_) ?_
      · rw [newRq_views]; exact Foreign.same _
      · exact tasks_runkeep rfl _ _
  | schedule sol =>
    rcases Sys.step_core_step hs with ⟨e, _, em⟩ | ⟨cop, hcop, hcs⟩
    · exact ((same e em) x hx).2 t
    · simp only [Sys.coreOp, Option.some.injEq] at hcop
      subst hcop
      have hcs' : s.sys.core.schedule sol = .ok (sys'.core, so.core) := by simpa only [Core.step] using hcs
      obtain ⟨v1, _⟩ := schedule_views hi.coupled.inv.inv hm' hcs'
      exact hxp.srv hp (fun _ => v1 x.id t) (schedule_runkeep hn hcs' x.id t)
  | openJob mf =>
    rcases Sys.step_core_step hs with ⟨e, _, em⟩ | ⟨cop, hcop, _⟩
    · exact ((same e em) x hx).2 t
    · cases hcop
  | close j =>
    rcases Sys.step_core_step hs with ⟨e, _, em⟩ | ⟨cop, hcop, _⟩
    · exact ((same e em) x hx).2 t
    · cases hcop
  | forget j allowed =>
    rcases Sys.step_core_step hs with ⟨e, _, em⟩ | ⟨cop, hcop, _⟩
    · exact ((same e em) x hx).2 t
    · cases hcop
  | newWorker w => cases hal
  | removeWorker w reason f order rets => cases hal
  | update w us rets => cases hal
  | retracted w ids => cases hal

/-- the pipelines through `Op.addWorker` -/
theorem addWorker_xpipes {s : State} {wk : Core.Worker} {rqs : List (List Nat)} {rem : Option Nat} (hi : WInv s)
    (hxi : XInv s) (hok : AddOk s wk) {sys' : Sys.State} {so : Sys.Out}
    (hs : Sys.step s.sys (.newWorker wk) = .ok (sys', so)) :
    ∀ x ∈ s.workers ++ [{ id := wk.id, w := Worker.init rqs rem }],
      (sys'.core.worker? x.id).isSome = true ∧ ∀ t, PipeX sys'.core (route1 x so.core.msgs) t := by
  have hcs : Core.step s.sys.core (.newWorker wk) = .ok (sys'.core, so.core) :=
    coreStep_core (by simpa only [Sys.step] using hs)
  obtain ⟨hv, em⟩ := newWorker_views hok.1.1 (by simpa only [Core.step] using hcs)
  have htasks : sys'.core.tasks = s.sys.core.tasks := by
    have := hcs
    simp only [Core.step, State.newWorker, Except.ok.injEq, Prod.mk.injEq] at this
    rw [← this.1]; rfl
  intro x hx
  rw [em]
  rcases List.mem_append.mp hx with hx | hx
  · refine ⟨step_worker_keep hcs x.id (hxi.known x hx) (fun _ _ _ _ _ e => by cases e), fun t => ?_⟩
    refine (hxi.pipe x hx t).srv (hi.pipe x hx t) (fun _ => ?_) ?_
    · rw [cfor_nil, hv]; exact Foreign.same _
    · rw [cfor_nil]; exact tasks_runkeep htasks _ _
  · simp only [List.mem_singleton] at hx
    subst hx
    refine ⟨newWorker_worker_new hcs, fun t => ?_⟩
    exact PX.of_quiet (cs := comps t []) (P := pend t []) ⟨rfl, rfl, free_init _ _ _⟩

/-- the pipelines through `Op.loseWorker` -/
theorem loseWorker_xpipes {s : State} {w0 : Nat} {reason : String} {f : Bool} {order : List TaskId}
    {rets : List (List TaskId)} (hi : WInv s) (hxi : XInv s) {sys' : Sys.State} {so : Sys.Out}
    (hs : Sys.step s.sys (.removeWorker w0 reason f order rets) = .ok (sys', so)) (hc' : Sys.Coupled sys') :
    ∀ x ∈ s.workers.filter (fun x => x.id ≠ w0),
      (sys'.core.worker? x.id).isSome = true ∧ ∀ t, PipeX sys'.core (route1 x so.core.msgs) t := by
  have hcs : Core.step s.sys.core (.removeWorker w0 reason f order rets) = .ok (sys'.core, so.core) :=
    coreStep_core (by simpa only [Sys.step] using hs)
  have hcs' : s.sys.core.removeWorker w0 reason f order rets = .ok (sys'.core, so.core) := by
    simpa only [Core.step] using hcs
  obtain ⟨v1, _⟩ := removeWorker_views hi.coupled.inv.inv (MnOk.of_invF hc'.inv) hcs'
  intro x hx
  obtain ⟨hxm, hne⟩ := List.mem_filter.mp hx
  have hne : x.id ≠ w0 := by simpa using hne
  refine ⟨step_worker_keep hcs x.id (hxi.known x hxm) (fun _ _ _ _ _ e => by cases e; exact hne), fun t => ?_⟩
  exact (hxi.pipe x hxm t).srv (hi.pipe x hxm t) (fun _ => v1 x.id t hne)
    (removeWorker_runkeep hi.coupled.inv.inv hcs' x.id hne t)

/-- the pipelines through the delivery of a `RetractResponse` -/
theorem retracted_xpipes {s : State} {w : Nat} {ids : List TaskId} {x : WState} {rest : List W2S} (hi : WInv s)
    (hxi : XInv s) (hx : x ∈ s.workers) (hxid : x.id = w) (hq : x.w2s = .retracted ids :: rest) {sys' : Sys.State}
    {so : Sys.Out} (hs : Sys.step s.sys (.retracted w ids) = .ok (sys', so)) :
    ∀ y ∈ setW s.workers { x with w2s := rest },
      (sys'.core.worker? y.id).isSome = true ∧ ∀ t, PipeX sys'.core (route1 y so.core.msgs) t := by
  have hn : (taskIds s.sys.core.tasks).Nodup := hi.coupled.c0.nd
  have hcs : Core.step s.sys.core (.retracted w ids) = .ok (sys'.core, so.core) :=
    coreStep_core (by simpa only [Sys.step] using hs)
  have hcs' : s.sys.core.retractResponse w ids = .ok (sys'.core, so.core) := by simpa only [Core.step] using hcs
  obtain ⟨v1, v2, _⟩ := retractResponse_views hcs'
  have rk := retractResponse_runkeep hn hcs'
  have keep : ∀ y ∈ s.workers, (sys'.core.worker? y.id).isSome = true := fun y hy =>
    step_worker_keep hcs y.id (hxi.known y hy) (fun _ _ _ _ _ e => by cases e)
  intro y hy
  rcases mem_setW hy with rfl | ⟨hm, hne⟩
  · refine ⟨keep x hx, fun t => ?_⟩
    by_cases ht : t ∈ ids
    · refine PipeX.own (x := x) (e := .resp) (hi.pipe x hx t) (hxi.pipe x hx t) rfl rfl rfl ?_ ?_ ?_
      · rw [hq, pend_cons]; simp [evsOfMsg, ht]
      · rw [hxid]; exact v2 t
      · intro rv hr
        obtain ⟨a, b⟩ := rk x.id t rv hr
        exact .inl ⟨⟨rv, a⟩, b⟩
    · have hpe : pend t rest = pend t x.w2s := by rw [hq, pend_cons]; simp [evsOfMsg, ht]
      have hp : Pipe s.sys.core s.submitted { x with w2s := rest } t := (hi.pipe x hx t).congr rfl rfl hpe rfl
      have hxp : PipeX s.sys.core { x with w2s := rest } t := (hxi.pipe x hx t).congr Iff.rfl rfl rfl hpe rfl
      exact hxp.srv hp (fun _ => v1 x.id t (.inr ht)) (rk x.id t)
  · have hne' : y.id ≠ w := by rw [← hxid]; exact hne
    exact ⟨keep y hm, fun t => (hxi.pipe y hm t).srv (hi.pipe y hm t) (fun _ => v1 y.id t (.inl hne')) (rk y.id t)⟩

end HqModel.SysW.NPP
