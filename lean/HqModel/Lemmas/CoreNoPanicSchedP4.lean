import HqModel.Lemmas.CoreNoPanicSchedP3
/-!
C09 progress, the scheduling round, part 4: proactive filling, the messages, and the round.

* `prefillWorkers_np` (the counting argument: `HeadOk s rq p (pfs * |remaining workers|)`), `prefillWorkers_bd`;
* `headOk_of_top`, `snw_of_cand`; **`proactive_np`**;
* `mh_isSome` (every id of the update list is in the map); **`schedule_np`**.
-/
namespace HqModel.Core.NPS

open HqModel.Core.NP HqModel.Core.NPD HqModel.Core.NPA

theorem np_of_error {α β : Type} {r : M α} {e : Stop} (h : NoCorePanic r) (he : r = .error e) :
    NoCorePanic (Except.error e : M β) := by
  subst he; exact np_error_cast h

/-! ### the loop over the candidate workers -/

theorem prefillWorkers_bd {s0 s s' : State} {m m' : List WUpdate} {rq size : Nat} {ws : List Nat}
    (hb : Bd s0 s) (hq0 : QueueOk s0) (hmn : s.isMultiNode rq = false)
    (h : s.prefillWorkers m rq size ws = .ok (s', m')) : Bd s0 s' := by
  obtain ⟨a, b⟩ := prefillWorkers_inv _ s0 _ _ _ _ _ _ hq0 hb.inv hb.trk h
  have f : FrQ False s s' := prefillWorkers_fr _ _ _ _ _ _ _ hb.qrq hmn h
  exact ⟨a, prefillWorkers_tw _ _ _ _ _ _ _ hb.tw h, b, f.fr.np3 hb.np3,
    prefillWorkers_npq _ _ _ _ _ _ _ hb.q hb.nd h, f.qrq hb.qrq⟩

theorem prefillWorkers_np {s0 : State} (hq0 : QueueOk s0) {rq pfs : Nat} {p : Int} (hpfs : 1 ≤ pfs) :
    ∀ (ws : List Nat) (s : State) (m : List WUpdate), Bd s0 s → MH s m → s.isMultiNode rq = false →
    HeadOk s rq p (pfs * ws.length) → (∀ w ∈ ws, SnW s w) → NoCorePanic (s.prefillWorkers m rq pfs ws)
  | [], _, _, _, _, _, _, _ => NoCorePanic.ok _
  | w :: rest, s, m, hb, hm, hmn, hh, hws => by
    rw [prefillWorkers_cons]
    obtain ⟨⟨s1, m1⟩, h1⟩ := prefillWorker_ok (m := m) (size := pfs) hb.inv hb.q hh (hws w List.mem_cons_self)
    rw [h1]
    simp only
    by_cases hrest : rest = []
    · subst hrest; exact NoCorePanic.ok _
    · have hlen : 1 ≤ rest.length := by
        cases rest with
        | nil => exact absurd rfl hrest
        | cons a b => simp
      have hb1 := prefillWorker_bd hb hq0 hmn h1
      have hrqs : s1.rqs = s.rqs := hb1.trk.rqs.trans hb.trk.rqs.symm
      refine prefillWorkers_np hq0 (p := p) hpfs rest s1 m1 hb1 (prefillWorker_s hb.nd hm h1).2
        (by rw [isMultiNode_congr hrqs]; exact hmn) ?_
        (fun x hx => prefillWorker_snw h1 (hws x (List.mem_cons_of_mem _ hx)))
      refine prefillWorker_head h1 (hh.mono ?_) (Nat.le_trans hlen (Nat.le_mul_of_pos_left _ hpfs))
      simp only [List.length_cons, Nat.mul_succ]
      omega

/-! ### one queue of `process_proactive_filling` -/

theorem headOk_of_top {s : State} {rq : Nat} {q : Queue} (hq : s.queues[rq]? = some q) {reserve c pfs : Nat}
    (hsize : ¬ q.topSizeNoPrefill - reserve = 0) (hpfs : pfs ≤ (q.topSizeNoPrefill - reserve) / c) :
    ∃ p, HeadOk s rq p (pfs * c) := by
  have hle : pfs * c ≤ q.topSizeNoPrefill :=
    calc pfs * c ≤ ((q.topSizeNoPrefill - reserve) / c) * c := Nat.mul_le_mul_right _ hpfs
      _ ≤ q.topSizeNoPrefill - reserve := Nat.div_mul_le_self _ _
      _ ≤ q.topSizeNoPrefill := Nat.sub_le _ _
  have hpos : 0 < q.topSizeNoPrefill := by omega
  unfold Queue.topSizeNoPrefill at hle hpos
  cases hr : q.ready with
  | nil => rw [hr] at hpos; simp at hpos
  | cons e rest =>
    obtain ⟨p, ids⟩ := e
    rw [hr] at hle hpos
    simp only at hle hpos
    refine ⟨p, q, ids, rest, hq, hr, ?_, ?_⟩
    · split at hle
      · split at hle
        · omega
        · exact hle
      · exact hle
    · intro pp ts hp
      rw [hp] at hpos
      simp only at hpos
      split at hpos
      · omega
      · rename_i hne; simpa using hne

theorem snw_of_cand {s : State} {m : List WUpdate} {rq w : Nat} (hw : NpW s) (h : w ∈ s.prefillCandidates m rq) :
    SnW s w := by
  unfold State.prefillCandidates at h
  obtain ⟨wk, hwk, rfl⟩ := List.mem_map.mp h
  obtain ⟨hmem, hp⟩ := List.mem_filter.mp hwk
  split at hp
  · cases hp
  · rename_i A F P ha
    exact ⟨wk, A, F, P, findWorker_of_mem hw.nd hmem, ha⟩

/-- **stage 3: `process_proactive_filling`** -/
theorem proactive_np {s0 : State} (hq0 : QueueOk s0) {orders : List (Nat × List Nat)} {top : Int} :
    ∀ (n : Nat) (s : State) (m : List WUpdate) (rq : Nat), Bd s0 s → MH s m →
    NoCorePanic (s.proactive m orders top n rq)
  | 0, _, _, _, _, _ => by simp only [State.proactive]; exact NoCorePanic.ok _
  | n + 1, s, m, rq, hb, hm => by
    simp only [State.proactive]
    split
    · exact NoCorePanic.ok _
    · rename_i q hq
      split
      · split
        · exact proactive_np hq0 n s m (rq + 1) hb hm
        · split
          · exact proactive_np hq0 n s m (rq + 1) hb hm
          · rename_i hsize
            split
            · exact proactive_np hq0 n s m (rq + 1) hb hm
            · rename_i hc
              split
              · exact proactive_np hq0 n s m (rq + 1) hb hm
              · rename_i hpfs
                have hne : s.prefillCandidates m rq ≠ [] := by
                  intro e; rw [e] at hc; simp at hc
                have hmn := isMultiNode_of_cands hb.np3.2.2 hm hne
                obtain ⟨p, hh⟩ := headOk_of_top (c := (s.prefillCandidates m rq).length) hq hsize
                  (Nat.min_le_left _ s.prefillMax)
                -- the recorded visiting order: `split` on the lookup, both cases alike
                split
                all_goals
                  split
                  · exact NoCorePanic.bang (by simp)
                  · rename_i hord
                    simp only [Bool.not_eq_true', Bool.not_eq_false, Bool.and_eq_true, decide_eq_true_eq] at hord
                    obtain ⟨⟨ho1, _⟩, holen⟩ := hord
                    split
                    · rename_i e he
                      refine np_of_error (prefillWorkers_np hq0 (p := p) (Nat.pos_of_ne_zero hpfs) _ s m hb hm hmn ?_ ?_) he
                      · exact hh.mono (by rw [holen]; exact Nat.le_refl _)
                      · intro w hw
                        exact snw_of_cand hb.np3.1 (by simpa using List.all_eq_true.mp ho1 w hw)
                    · rename_i s1 m1 h1
                      exact proactive_np hq0 n s1 m1 (rq + 1) (prefillWorkers_bd hb hq0 hmn h1)
                        (prefillWorkers_s _ _ _ _ _ _ _ hb.nd hm h1).2
      · rw [if_pos rfl]
        exact proactive_np hq0 n s m (rq + 1) hb hm

/-! ### the messages -/

/-- every id of the update list is a task of the map -/
theorem mh_isSome {s : State} {m : List WUpdate} (h : MH s m) :
    ∀ u ∈ m, (∀ id ∈ u.prefills, (s.task? id).isSome = true) ∧ ∀ a ∈ u.assigned, (s.task? a.1).isSome = true := by
  intro u hu
  have hsub : ∀ x ∈ uIds u, x ∈ mIds m := by
    intro x hx
    simp only [mIds, List.mem_flatten, List.mem_map]
    exact ⟨uIds u, ⟨u, hu, rfl⟩, hx⟩
  constructor
  · intro id hid
    obtain ⟨t, ht, _⟩ := h id (hsub id (List.mem_append.mpr (Or.inr hid)))
    show (findTask s.tasks id).isSome = true
    rw [ht]; rfl
  · intro a ha
    obtain ⟨t, ht, _⟩ := h a.1 (hsub a.1 (List.mem_append.mpr (Or.inl (List.mem_map_of_mem ha))))
    show (findTask s.tasks a.1).isSome = true
    rw [ht]; rfl

/-- **stage 4: `send_messages`** (`m` = the update list, `mnTasks` = the multi-node accumulator) -/
theorem messages_np {s : State} {m : List WUpdate} {mnTasks : List TaskId} (hmn : NpMn s) (hm : MH s m)
    (hacc : ∀ id ∈ mnTasks, IsMN s id) :
    ∃ msgs mm, msgsOfAll s m = .ok msgs ∧ mnMsgs s mnTasks = .ok mm := by
  obtain ⟨msgs, hmsgs⟩ := msgsOfAll_ok s m (mh_isSome hm)
  obtain ⟨mm, hmm⟩ := mnMsgs_ok s mnTasks (fun id hid => (hacc id hid).cons hmn)
  exact ⟨msgs, mm, hmsgs, hmm⟩

/-! ### the round -/

/-- **PROGRESS of a scheduling round**: from the invariants and the conditions on the recorded solution,
`create_task_mapping` + `send_messages` never reach a panic site of the code -/
theorem schedule_np {U : List TaskId} {s : State} {sol : Solution} (hi : InvF s) (hq : QInv U none [] s)
    (hn : NpInv U [] s) (hm : SolMnOk s sol) (hsol : SolOk s sol) : NoCorePanic (s.schedule sol) := by
  have hq0 : QueueOk s := hq.queueOk
  have hb : Bd s s := ⟨hi.inv, hi.tw, Trk.refl s, ⟨hn.w, hn.idx, hn.mn⟩, hn.q, QRq.of_queueOk hi.inv.nd hq0⟩
  obtain ⟨hsn, hmnok⟩ := hsol
  simp only [State.schedule]
  cases h1 : s.mapSn sol.now [] sol.sn with
  | error err => exact np_of_error (mapSn_np _ _ _ hb hq0 hsn) h1
  | ok x =>
    obtain ⟨s1, m1⟩ := x
    simp only
    rw [h1] at hmnok
    simp only at hmnok
    have hb1 := mapSn_bd _ _ _ _ _ hb hq0 hsn h1
    obtain ⟨_, mh1⟩ := mapSn_s _ _ _ _ _ _ hb.nd (MH.nil s) h1
    cases h2 : s1.mapMn sol.mn [] with
    | error err => exact np_of_error (mapMn_np hq0 _ _ _ hm hb1 hmnok (fun _ h => by cases h)) h2
    | ok y =>
      obtain ⟨s2, mnTasks⟩ := y
      simp only
      obtain ⟨hb2, hacc2⟩ := mapMn_post hq0 _ _ _ _ _ hm hb1 hmnok (fun _ h => by cases h) h2
      obtain ⟨e2, _⟩ := mapMn_s _ _ _ _ _ hb1.nd h2
      have id2 := mapMn_ids _ _ _ _ _ h2
      have mh2 : ∀ prio : TaskId → Int, MH s2 (m1.map fun u => { u with assigned := sortByPrio prio u.assigned }) :=
        fun prio x hx => (mh1 x (mIds_sorted prio _ _ hx)).fwd e2 hb1.nd id2
      split
      · rename_i e he
        split at he
        · cases he
        · exact np_of_error (proactive_np hq0 _ _ _ _ hb2 (mh2 _)) he
      · rename_i s3 m3 h3
        have h3' : NpMn s3 ∧ MH s3 m3 ∧ ∀ id ∈ mnTasks, IsMN s3 id := by
          split at h3
          · cases h3; exact ⟨hb2.np3.2.2, mh2 _, hacc2⟩
          · obtain ⟨e3, mh3⟩ := proactive_s _ _ _ _ _ _ _ _ hb2.nd (mh2 _) h3
            have hnp := proactive_np3 _ _ _ _ _ _ _ _ hb2.np3 hb2.nd hb2.qrq (mh2 _) h3
            exact ⟨hnp.2.2, mh3, fun id hid => (hacc2 id hid).fwd e3 hb2.nd (proactive_ids _ _ _ _ _ _ _ _ h3)⟩
        obtain ⟨msgs, mm, hmsgs, hmm⟩ := messages_np h3'.1 h3'.2.1 h3'.2.2
        rw [hmsgs]
        simp only
        rw [hmm]
        exact NoCorePanic.ok _

end HqModel.Core.NPS
