import HqModel.Lemmas.CoreInvStep
/-!
Stage 2c of the structural invariant of the core model (M1): the **state → list** half of the sanity check
(`TW3`): a task Assigned/Running/Prefilled on `w` is in the corresponding set of worker `w`, every worker of a
RunningMultiNode task is reserved for it, every redirect target holds the task.

Three procedures drop the worker side first and repair the task side later (`on_cancel_tasks`, `task_failed`,
`on_remove_worker`): inside them the clauses hold for all tasks outside a set `D` of tasks "in repair"
(`TW3 D`); at operation boundaries `D` is empty. `MNU` is the clause that also holds for tasks in repair:
every worker of a RunningMultiNode task is reserved for it or idle.
-/
namespace HqModel.Core

structure TW3 (D : TaskId → Prop) (ts : List Task) (ws : List Worker) (rd : List (TaskId × Nat × Nat)) : Prop where
  /-- a task Assigned / Running on `w` is in `assigned_tasks` of `w` -/
  t1 : ∀ t w v, ¬ D t → (stOf ts t = some (.assigned w v) ∨ stOf ts t = some (.running w v)) → t ∈ asgW ws w
  /-- a task Prefilled on `w` is in `prefilled_tasks` of `w` -/
  t2 : ∀ t w, ¬ D t → stOf ts t = some (.prefilled w) → t ∈ preW ws w
  /-- every worker of a RunningMultiNode task is in a multi-node assignment for it -/
  t3 : ∀ t l, ¬ D t → stOf ts t = some (.runningMN l) → ∀ x ∈ l, mnW ws x = some t
  /-- every redirect target holds the task -/
  d1 : ∀ t w v, ¬ D t → (t, w, v) ∈ rd → t ∈ asgW ws w
  /-- redirects exist only for Retracting tasks (as in `LS3`; repeated here so that this half is self-contained) -/
  d0 : ∀ t w v, (t, w, v) ∈ rd → ∃ w0, stOf ts t = some (.retracting w0)

/-- every worker of a RunningMultiNode task is reserved for it or idle (also while the task is in repair) -/
def MNU (ts : List Task) (ws : List Worker) : Prop :=
  ∀ t l, stOf ts t = some (.runningMN l) → ∀ x ∈ l,
    mnW ws x = some t ∨ (asgW ws x = [] ∧ preW ws x = [] ∧ mnW ws x = none)

def noD : TaskId → Prop := fun _ => False

theorem TW3.mono {D D' ts ws rd} (h : TW3 D ts ws rd) (hd : ∀ u, D u → D' u) : TW3 D' ts ws rd :=
  ⟨fun t w v hn => h.t1 t w v (fun e => hn (hd t e)), fun t w hn => h.t2 t w (fun e => hn (hd t e)),
   fun t l hn => h.t3 t l (fun e => hn (hd t e)), fun t w v hn => h.d1 t w v (fun e => hn (hd t e)), h.d0⟩

theorem TW3.no_rd_of_state {D ts ws rd} (h : TW3 D ts ws rd) {t : TaskId} {st : TS} (hs : stOf ts t = some st)
    (hn : ∀ w0, st ≠ .retracting w0) : ∀ x v, (t, x, v) ∉ rd := by
  intro x v hm
  obtain ⟨w0, h1⟩ := h.d0 t x v hm
  rw [hs] at h1
  simp only [Option.some.injEq] at h1
  exact hn w0 h1

/-- **frame lemma** (state → list direction): the state, the memberships and the redirects of ONE task `t`
change; every other task keeps its state, loses no membership and gains no redirect -/
theorem TW3.frame {D D' ts ws rd ts' ws' rd'} (h : TW3 D ts ws rd) (t : TaskId)
    (hD : ∀ u, u ≠ t → D' u ∨ ¬ D u)
    (hst : ∀ u, u ≠ t → stOf ts' u = stOf ts u)
    (hasg : ∀ x u, u ≠ t → u ∈ asgW ws x → u ∈ asgW ws' x)
    (hpre : ∀ x u, u ≠ t → u ∈ preW ws x → u ∈ preW ws' x)
    (hmn : ∀ x u, u ≠ t → mnW ws x = some u → mnW ws' x = some u)
    (hrd : ∀ u x v, u ≠ t → (u, x, v) ∈ rd' → (u, x, v) ∈ rd)
    (h1 : ∀ w v, ¬ D' t → (stOf ts' t = some (.assigned w v) ∨ stOf ts' t = some (.running w v)) → t ∈ asgW ws' w)
    (h2 : ∀ w, ¬ D' t → stOf ts' t = some (.prefilled w) → t ∈ preW ws' w)
    (h3 : ∀ l, ¬ D' t → stOf ts' t = some (.runningMN l) → ∀ x ∈ l, mnW ws' x = some t)
    (h4 : ∀ w v, ¬ D' t → (t, w, v) ∈ rd' → t ∈ asgW ws' w)
    (h5 : ∀ w v, (t, w, v) ∈ rd' → ∃ w0, stOf ts' t = some (.retracting w0)) :
    TW3 D' ts' ws' rd' := by
  have hnd : ∀ u, u ≠ t → ¬ D' u → ¬ D u := fun u hu hn => by
    rcases hD u hu with h1 | h1
    · exact absurd h1 hn
    · exact h1
  refine ⟨?_, ?_, ?_, ?_, ?_⟩
  · intro u w v hn hs
    by_cases e : u = t
    · subst e; exact h1 w v hn hs
    · rw [hst u e] at hs; exact hasg w u e (h.t1 u w v (hnd u e hn) hs)
  · intro u w hn hs
    by_cases e : u = t
    · subst e; exact h2 w hn hs
    · rw [hst u e] at hs; exact hpre w u e (h.t2 u w (hnd u e hn) hs)
  · intro u l hn hs x hx
    by_cases e : u = t
    · subst e; exact h3 l hn hs x hx
    · rw [hst u e] at hs; exact hmn x u e (h.t3 u l (hnd u e hn) hs x hx)
  · intro u w v hn hm
    by_cases e : u = t
    · subst e; exact h4 w v hn hm
    · exact hasg w u e (h.d1 u w v (hnd u e hn) (hrd u w v e hm))
  · intro u w v hm
    by_cases e : u = t
    · subst e; exact h5 w v hm
    · rw [hst u e]; exact h.d0 u w v (hrd u w v e hm)

/-- the task map gains or loses nothing relevant: every state is kept -/
theorem TW3.congr_tasks {D ts ts' ws rd} (h : TW3 D ts ws rd) (hst : ∀ u, stOf ts' u = stOf ts u) : TW3 D ts' ws rd :=
  ⟨fun t w v hn hs => h.t1 t w v hn (by rw [← hst]; exact hs), fun t w hn hs => h.t2 t w hn (by rw [← hst]; exact hs),
   fun t l hn hs => h.t3 t l hn (by rw [← hst]; exact hs), h.d1, fun t w v hm => by rw [hst]; exact h.d0 t w v hm⟩

theorem MNU.congr_tasks {ts ts' ws} (h : MNU ts ws) (hst : ∀ u, stOf ts' u = stOf ts u) : MNU ts' ws :=
  fun t l hs => h t l (by rw [← hst]; exact hs)

/-- a task record is replaced by one that is not RunningMultiNode -/
theorem MNU.put_nonmn {ts ws} (h : MNU ts ws) {t' told : Task} (ht : findTask ts t'.id = some told)
    (hs : ∀ l, t'.state ≠ .runningMN l) : MNU (putTask ts t') ws := by
  intro t l hst
  rw [stOf_put ht] at hst
  split at hst
  · simp only [Option.some.injEq] at hst; exact absurd hst (hs l)
  · exact h t l hst

/-- one worker record is replaced: if the worker belongs to a multi-node task the new record is reserved for it
or idle -/
theorem MNU.put_worker {ts ws} (h : MNU ts ws) {wk wk' : Worker} (hw : findWorker ws wk'.id = some wk)
    (hc : ∀ t l, stOf ts t = some (.runningMN l) → wk'.id ∈ l →
      wMn wk' = some t ∨ (wAsg wk' = [] ∧ wPre wk' = [] ∧ wMn wk' = none)) : MNU ts (putWorker ws wk') := by
  intro t l hst x hx
  rw [asgW_put hw, preW_put hw, mnW_put hw]
  split
  · rename_i e; subst e; exact hc t l hst hx
  · exact h t l hst x hx

/-- a single-node worker that holds a task does not belong to any multi-node task -/
theorem MNU.not_in_list {ts ws} (h : MNU ts ws) {x : Nat} (hne : asgW ws x ≠ [] ∨ preW ws x ≠ [])
    {t : TaskId} {l : List Nat} (hst : stOf ts t = some (.runningMN l)) : x ∉ l := by
  intro hx
  rcases h t l hst x hx with h1 | ⟨h1, h2, _⟩
  · -- reserved: its sets are empty by definition of the views
    unfold mnW at h1
    unfold asgW preW at hne
    cases hf : findWorker ws x with
    | none => simp [hf] at h1
    | some wk =>
      simp only [hf] at h1 hne
      unfold wMn at h1
      unfold wAsg wPre at hne
      cases ha : wk.assign with
      | sn a b c => simp [ha] at h1
      | mn a b c => simp [ha] at hne
  · rcases hne with e | e
    · exact e h1
    · exact e h2

/-! ### detaching -/

theorem removeSn_tw {D : TaskId → Prop} {s s1 : State} {ts : List Task} (h : TW3 D ts s.workers s.redirects)
    (hm : MNU ts s.workers) {w : Nat} {id : TaskId} {r : Rq} (hw : s.withWorker w (·.removeSn id r) = .ok s1) :
    TW3 (fun u => D u ∨ u = id) ts s1.workers s1.redirects ∧ MNU ts s1.workers := by
  obtain ⟨wk, wk', hfw, hf, rfl⟩ := withWorker_spec hw
  obtain ⟨A, F, P, F', ha, _, hmem, rfl⟩ := removeSn_spec hf
  have hwid : wk.id = w := findWorker_some_id hfw
  have hfw' : findWorker s.workers ({ wk with assign := .sn (A.erase id) F' P } : Worker).id = some wk := by
    simpa [hwid] using hfw
  have hA : asgW s.workers w = A := by rw [asgW_of_find hfw]; simp [wAsg, ha]
  constructor
  · refine h.frame id (fun u hu => ?_) (fun _ _ => rfl) ?_ ?_ ?_ (fun _ _ _ _ hm => hm) ?_ ?_ ?_ ?_ ?_
    · by_cases hd : D u
      · exact Or.inl (Or.inl hd)
      · exact Or.inr hd
    · intro x u hu hx
      change u ∈ asgW (putWorker s.workers _) x
      rw [asgW_put hfw']
      split
      · rename_i e
        simp only [wAsg]
        rw [e] at hx
        simp only [hwid, hA] at hx
        exact (List.mem_erase_of_ne hu).mpr hx
      · exact hx
    · intro x u _ hx
      change u ∈ preW (putWorker s.workers _) x
      rw [preW_put_same hfw' (by simp [wPre, ha])]; exact hx
    · intro x u _ hx
      change mnW (putWorker s.workers _) x = some u
      rw [mnW_put_same hfw' (by simp [wMn, ha])]; exact hx
    · intro w' v hn; exact absurd (Or.inr rfl) hn
    · intro w' hn; exact absurd (Or.inr rfl) hn
    · intro l hn; exact absurd (Or.inr rfl) hn
    · intro w' v hn; exact absurd (Or.inr rfl) hn
    · intro w' v hm'; exact h.d0 id w' v hm'
  · refine hm.put_worker hfw' ?_
    intro t l hst hx
    exfalso
    refine hm.not_in_list (x := w) (Or.inl ?_) hst (by simpa [hwid] using hx)
    rw [hA]; intro e; rw [e] at hmem; cases hmem

theorem removePrefill_tw {D : TaskId → Prop} {s s1 : State} {ts : List Task} (h : TW3 D ts s.workers s.redirects)
    (hm : MNU ts s.workers) {w : Nat} {id : TaskId} (hw : s.withWorker w (·.removePrefill id) = .ok s1) :
    TW3 (fun u => D u ∨ u = id) ts s1.workers s1.redirects ∧ MNU ts s1.workers := by
  obtain ⟨wk, wk', hfw, hf, rfl⟩ := withWorker_spec hw
  obtain ⟨A, F, P, ha, hmem, rfl⟩ := removePrefill_spec hf
  have hwid : wk.id = w := findWorker_some_id hfw
  have hfw' : findWorker s.workers ({ wk with assign := .sn A F (P.erase id) } : Worker).id = some wk := by
    simpa [hwid] using hfw
  have hP : preW s.workers w = P := by rw [preW_of_find hfw]; simp [wPre, ha]
  constructor
  · refine h.frame id (fun u hu => ?_) (fun _ _ => rfl) ?_ ?_ ?_ (fun _ _ _ _ hm => hm) ?_ ?_ ?_ ?_ ?_
    · by_cases hd : D u
      · exact Or.inl (Or.inl hd)
      · exact Or.inr hd
    · intro x u _ hx
      change u ∈ asgW (putWorker s.workers _) x
      rw [asgW_put_same hfw' (by simp [wAsg, ha])]; exact hx
    · intro x u hu hx
      change u ∈ preW (putWorker s.workers _) x
      rw [preW_put hfw']
      split
      · rename_i e
        simp only [wPre]
        rw [e] at hx
        simp only [hwid, hP] at hx
        exact (List.mem_erase_of_ne hu).mpr hx
      · exact hx
    · intro x u _ hx
      change mnW (putWorker s.workers _) x = some u
      rw [mnW_put_same hfw' (by simp [wMn, ha])]; exact hx
    · intro w' v hn; exact absurd (Or.inr rfl) hn
    · intro w' hn; exact absurd (Or.inr rfl) hn
    · intro l hn; exact absurd (Or.inr rfl) hn
    · intro w' v hn; exact absurd (Or.inr rfl) hn
    · intro w' v hm'; exact h.d0 id w' v hm'
  · refine hm.put_worker hfw' ?_
    intro t l hst hx
    exfalso
    refine hm.not_in_list (x := w) (Or.inr ?_) hst (by simpa [hwid] using hx)
    rw [hP]; intro e; rw [e] at hmem; cases hmem

/-- `try_remove_redirection` for a Retracting task: it has no state → list obligations, its redirect is gone -/
theorem tryRemoveRedirection_tw {D : TaskId → Prop} {s s' : State} {t : TaskId} {rq : Nat} {ts : List Task} {w0 : Nat}
    (h : TW3 D ts s.workers s.redirects) (hm : MNU ts s.workers) (hs : stOf ts t = some (.retracting w0))
    (hr : s.tryRemoveRedirection t rq = .ok s') :
    TW3 D ts s'.workers s'.redirects ∧ MNU ts s'.workers := by
  obtain ⟨_, _, hc⟩ := tryRemoveRedirection_spec hr
  rcases hc with ⟨_, hw, hrd⟩ | ⟨w, v, r, wk, A, F, P, F', hsome, _, hfw, ha, hmem, _, hw, hrd⟩
  · rw [hw, hrd]; exact ⟨h, hm⟩
  · rw [hw, hrd]
    have hwid : wk.id = w := findWorker_some_id hfw
    have hfw' : findWorker s.workers ({ wk with assign := .sn (A.erase t) F' P } : Worker).id = some wk := by
      simpa [hwid] using hfw
    have hA : asgW s.workers w = A := by rw [asgW_of_find hfw]; simp [wAsg, ha]
    constructor
    · refine h.frame t (fun u hu => ?_) (fun _ _ => rfl) ?_ ?_ ?_ ?_ ?_ ?_ ?_ ?_ ?_
      · by_cases hd : D u
        · exact Or.inl hd
        · exact Or.inr hd
      · intro x u hu hx
        rw [asgW_put hfw']
        split
        · rename_i e
          simp only [wAsg]
          rw [e] at hx
          simp only [hwid, hA] at hx
          exact (List.mem_erase_of_ne hu).mpr hx
        · exact hx
      · intro x u _ hx
        rw [preW_put_same hfw' (by simp [wPre, ha])]; exact hx
      · intro x u _ hx
        rw [mnW_put_same hfw' (by simp [wMn, ha])]; exact hx
      · intro u x v' _ hm'; exact (rd_filter_mem.mp hm').1
      · intro w' v' _ hs'; rcases hs' with e | e <;> rw [hs] at e <;> cases e
      · intro w' _ hs'; rw [hs] at hs'; cases hs'
      · intro l _ hs'; rw [hs] at hs'; cases hs'
      · intro w' v' _ hm'; exact absurd rfl (rd_filter_mem.mp hm').2
      · intro w' v' hm'; exact absurd rfl (rd_filter_mem.mp hm').2
    · refine hm.put_worker hfw' ?_
      intro t' l hst hx
      exfalso
      refine hm.not_in_list (x := w) (Or.inl ?_) hst (by simpa [hwid] using hx)
      rw [hA]; intro e; rw [e] at hmem; cases hmem

/-- resetting the workers of a multi-node task -/
theorem resetMnAll_tw (l : List Nat) {D : TaskId → Prop} (s s' : State) {ts : List Task} {id : TaskId} {l0 : List Nat}
    (h : TW3 D ts s.workers s.redirects) (hm : MNU ts s.workers) (hs : stOf ts id = some (.runningMN l0))
    (hsub : ∀ x ∈ l, x ∈ l0) (hr : resetMnAll s l = .ok s') :
    TW3 (fun u => D u ∨ u = id) ts s'.workers s'.redirects ∧ MNU ts s'.workers := by
  induction l generalizing s D with
  | nil =>
    simp only [resetMnAll] at hr; cases hr
    exact ⟨h.mono (fun u hu => Or.inl hu), hm⟩
  | cons w rest ih =>
    simp only [resetMnAll] at hr
    split at hr
    · cases hr
    · rename_i wk hg
      have hfw := getWorker_spec hg
      have hwid : wk.id = w := findWorker_some_id hfw
      have hfw' : findWorker s.workers wk.emptySn.id = some wk := by simpa [Worker.emptySn, hwid] using hfw
      have hwl : w ∈ l0 := hsub w (by simp)
      -- the worker is reserved for `id` or idle: nothing but `id` loses a membership
      have hcase := hm id l0 hs w hwl
      have hmid : MNU ts (putWorker s.workers wk.emptySn) :=
        hm.put_worker hfw' (fun _ _ _ _ => Or.inr ⟨rfl, rfl, rfl⟩)
      have htw : TW3 (fun u => D u ∨ u = id) ts (putWorker s.workers wk.emptySn) s.redirects := by
        refine h.frame id (fun u hu => ?_) (fun _ _ => rfl) ?_ ?_ ?_ (fun _ _ _ _ hm => hm) ?_ ?_ ?_ ?_ ?_
        · by_cases hd : D u
          · exact Or.inl (Or.inl hd)
          · exact Or.inr hd
        · intro x u _ hx
          rw [asgW_put hfw']
          split
          · rename_i e; rw [e] at hx
            simp only [Worker.emptySn, hwid] at hx
            rcases hcase with h1 | ⟨h1, _, _⟩
            · unfold mnW at h1; unfold asgW at hx
              rw [hfw] at h1 hx; simp only at h1 hx
              unfold wMn at h1; unfold wAsg at hx
              cases ha : wk.assign with
              | sn a b c => simp [ha] at h1
              | mn a b c => simp [ha] at hx
            · rw [h1] at hx; cases hx
          · exact hx
        · intro x u _ hx
          rw [preW_put hfw']
          split
          · rename_i e; rw [e] at hx
            simp only [Worker.emptySn, hwid] at hx
            rcases hcase with h1 | ⟨_, h1, _⟩
            · unfold mnW at h1; unfold preW at hx
              rw [hfw] at h1 hx; simp only at h1 hx
              unfold wMn at h1; unfold wPre at hx
              cases ha : wk.assign with
              | sn a b c => simp [ha] at h1
              | mn a b c => simp [ha] at hx
            · rw [h1] at hx; cases hx
          · exact hx
        · intro x u hu hx
          rw [mnW_put hfw']
          split
          · rename_i e; rw [e] at hx
            simp only [Worker.emptySn, hwid] at hx
            rcases hcase with h1 | ⟨_, _, h1⟩
            · rw [h1] at hx; cases hx; exact absurd rfl hu
            · rw [h1] at hx; cases hx
          · exact hx
        · intro w' v hn; exact absurd (Or.inr rfl) hn
        · intro w' hn; exact absurd (Or.inr rfl) hn
        · intro l' hn; exact absurd (Or.inr rfl) hn
        · intro w' v hn; exact absurd (Or.inr rfl) hn
        · intro w' v hm'; exact h.d0 id w' v hm'
      obtain ⟨a, b⟩ := ih (s.setWorker wk.emptySn) htw hmid (fun x hx => hsub x (by simp [hx])) hr
      refine ⟨a.mono (fun u hu => ?_), b⟩
      rcases hu with (h1 | h1) | h1
      · exact Or.inl h1
      · exact Or.inr h1
      · exact Or.inr h1

end HqModel.Core
