import HqModel.Lemmas.JobHistory
import HqModel.Lemmas.IntArray
/-!
History invariant for `jobCompleted` events: over every run of the job layer the number of
`Ev.jobCompleted j` events equals 1 if job `j` is terminated (closed and without active tasks) and 0 otherwise.
Basis of `c13_completed_once` (C13). Uses the step decomposition (`JobOp`, `Puts`, `Shape`) of `JobHistory.lean`.
-/
namespace HqModel.Job

/-! ### "no active tasks" in terms of task states -/

theorem nWaiting_eq {a : Job} (w : JobWF a) : a.nWaiting = countS a.tasks .waiting := by
  have hs := countS_sum_le a.tasks
  simp only [Job.nWaiting, Counters.sum, Job.nTasks, w.running, w.finished, w.failed, w.canceled, w.aborted]
  omega

/-- a job with a Waiting or Running task has active tasks -/
theorem hasNoActive_false {a : Job} {k : Nat} {st : TState} (w : JobWF a) (hl : lookup a.tasks k = some st)
    (hst : st.terminal = false) : a.hasNoActiveTasks = false := by
  have hm := lookup_mem hl
  simp only [Job.hasNoActiveTasks, nWaiting_eq w, w.running]
  cases st with
  | running =>
    have : 0 < countS a.tasks .running := List.countP_pos_iff.mpr ⟨_, hm, by simp⟩
    have : ¬ countS a.tasks .running = 0 := by omega
    simp [this]
  | waiting =>
    have : 0 < countS a.tasks .waiting := List.countP_pos_iff.mpr ⟨_, hm, by simp⟩
    have : ¬ countS a.tasks .waiting = 0 := by omega
    simp [this]
  | _ => cases hst

theorem isTerminated_false {a : Job} {k : Nat} {st : TState} (w : JobWF a) (hl : lookup a.tasks k = some st)
    (hst : st.terminal = false) : a.isTerminated = false := by
  simp [Job.isTerminated, hasNoActive_false w hl hst]

theorem isTerminated_of_open {a : Job} (h : a.isOpen = true) : a.isTerminated = false := by
  simp [Job.isTerminated, h]

/-- with matching counters, "no active tasks" says that every task is terminal -/
theorem hasNoActive_iff {a : Job} (w : JobWF a) : a.hasNoActiveTasks = true ↔ a.allTerminal := by
  constructor
  · intro h p hp
    cases ht : p.2.terminal with
    | true => rfl
    | false =>
      have := hasNoActive_false w (lookup_of_mem w.nodup (t := p.1) (a := p.2) hp) ht
      rw [h] at this; cases this
  · intro h
    have h1 : countS a.tasks .running = 0 := by
      refine List.countP_eq_zero.mpr ?_
      intro p hp
      have := h p hp
      intro hr
      simp only [decide_eq_true_eq] at hr
      rw [hr] at this; cases this
    have h2 : countS a.tasks .waiting = 0 := by
      refine List.countP_eq_zero.mpr ?_
      intro p hp
      have := h p hp
      intro hr
      simp only [decide_eq_true_eq] at hr
      rw [hr] at this; cases this
    simp [Job.hasNoActiveTasks, nWaiting_eq w, w.running, h1, h2]

/-! ### `attach_submit` -/

theorem attach_isOpen : ∀ (ids : List Nat) {a b : Job}, a.attach ids = .ok b → b.isOpen = a.isOpen
  | [], a, b, e => by simp only [Job.attach] at e; cases e; rfl
  | t :: rest, a, b, e => by
    simp only [Job.attach] at e
    split at e
    · cases e
    · exact (attach_isOpen rest e).trans rfl

/-- a non-empty submit leaves a Waiting task behind -/
theorem attach_nonempty {ids : List Nat} {a b : Job} (hne : ids ≠ []) (e : a.attach ids = .ok b) :
    ∃ k, lookup b.tasks k = some .waiting := by
  cases ids with
  | nil => exact absurd rfl hne
  | cons t rest =>
    simp only [Job.attach] at e
    split at e
    · cases e
    · rename_i hl
      refine ⟨t, ?_⟩
      have h1 : lookup (a.tasks ++ [(t, TState.waiting)]) t = some .waiting := by
        rw [lookup_append, hl]; simp
      rcases attach_lookup rest e t with h | h
      · rw [h]; exact h1
      · exact h.2

/-! ### submits that create at least one task -/

/-- the submit describes at least one task when it creates a new job (explicit id arrays: at least one id;
no ids: anything but `entries = Some(0)`; graphs: at least one task) -/
def TaskDesc.nonEmpty : TaskDesc → Bool
  | .array ids entries => if ids.isEmpty then entries != some 0 else !ids.iter.isEmpty
  | .graph tasks => !tasks.isEmpty

theorem fillIdsNew_nonempty {d : TaskDesc} (h : d.nonEmpty = true) : (fillIdsNew d).jobIds ≠ [] := by
  cases d with
  | graph tasks =>
    simp only [TaskDesc.nonEmpty] at h
    simp only [fillIdsNew, TaskDesc.jobIds]
    cases tasks with
    | nil => simp at h
    | cons x xs => simp
  | array ids entries =>
    simp only [TaskDesc.nonEmpty] at h
    simp only [fillIdsNew]
    split at h
    · rename_i hemp
      simp only [hemp, if_true]
      cases entries with
      | none => simp [TaskDesc.jobIds, fromId_iter]
      | some n =>
        simp only [TaskDesc.jobIds, fromRange_iter]
        have : n ≠ 0 := by intro e; subst e; simp at h
        cases n with
        | zero => exact absurd rfl this
        | succ m => simp [List.range'_succ]
    · rename_i hemp
      have hemp' : ids.isEmpty = false := by simpa using hemp
      simp only [hemp', Bool.false_eq_true, if_false, TaskDesc.jobIds]
      intro e
      rw [e] at h
      simp at h

/-- no operation creates a new job without tasks (a submit into an existing open job may be empty) -/
def Op.submitsTask : Op → Bool
  | .submit none _ d => d.nonEmpty
  | _ => true

def NoEmptySubmit (ops : List Op) : Bool := ops.all Op.submitsTask

/-! ### what an elementary job transition does to the `jobCompleted` events -/

abbrev completed (j : Nat) (evs : List Ev) : Nat := evs.count (Ev.jobCompleted j)

theorem completed_checkTermination (job : Job) (j : Nat) :
    completed j job.checkTermination = if j = job.id then job.isTerminated.toNat else 0 := by
  unfold Job.checkTermination Job.isTerminated
  by_cases hn : job.hasNoActiveTasks = true
  · by_cases ho : job.isOpen = true
    · simp [hn, ho, completed]
    · by_cases hj : j = job.id
      · subst hj; simp [hn, ho, completed]
      · have : ¬ job.id = j := fun e => hj e.symm
        simp [hn, ho, completed, hj, this]
  · simp [hn, completed]

structure JC (a b : Job) (e : List Ev) : Prop where
  other : ∀ j, j ≠ a.id → completed j e = 0
  cnt : a.isTerminated.toNat + completed a.id e = b.isTerminated.toNat

theorem JC.of_eq {a b : Job} {e : List Ev} (h : b.isTerminated = a.isTerminated) (he : ∀ j, completed j e = 0) :
    JC a b e := ⟨fun j _ => he j, by rw [he, h]; rfl⟩

/-- the transition ends with `check_termination` of the new job and the job was not terminated before -/
theorem JC.check {a b : Job} {e : List Ev} (ha : a.isTerminated = false) (hid : b.id = a.id)
    (he : ∀ j, completed j e = completed j b.checkTermination) : JC a b e := by
  refine ⟨?_, ?_⟩
  · intro j hj
    rw [he, completed_checkTermination, hid, if_neg hj]
  · rw [he, completed_checkTermination, hid, if_pos rfl, ha]; simp

theorem JobOp.jc {a b : Job} {e : List Ev} (h : JobOp a b e) (w : JobWF a) : JC a b e := by
  have wb := h.wf w
  have hid := h.id_eq
  cases h with
  | @running _ t i ws rv hr =>
    unfold Job.setRunning at hr
    split at hr
    · cases hr
    · rename_i hl
      cases hr
      have hlb : lookup (setState a.tasks t .running) t = some .running := by
        rw [lookup_setState, hl]; simp
      refine JC.of_eq ?_ (fun j => by simp [completed])
      rw [isTerminated_false w hl rfl, isTerminated_false wb hlb rfl]
    · cases hr; exact JC.of_eq rfl (fun j => by simp [completed])
  | @finished _ t _ hr =>
    have hl := setFinished_ok_running hr
    refine JC.check (isTerminated_false w hl rfl) hid ?_
    unfold Job.setFinished at hr
    split at hr
    · cases hr
    · cases hr; intro j; simp [completed]
    · cases hr
  | @failed _ t _ hr =>
    unfold Job.setFailed at hr
    split at hr
    · cases hr
    · rename_i hl; cases hr
      exact JC.check (isTerminated_false w hl rfl) hid (fun j => by simp [completed])
    · rename_i hl; cases hr
      exact JC.check (isTerminated_false w hl rfl) hid (fun j => by simp [completed])
    · cases hr
  | @waiting _ t hr =>
    unfold Job.setWaiting at hr
    split at hr
    · cases hr
    · rename_i hl
      cases hr
      have hlb : lookup (setState a.tasks t .waiting) t = some .waiting := by
        rw [lookup_setState, hl]; simp
      refine JC.of_eq ?_ (fun j => by simp [completed])
      rw [isTerminated_false w hl rfl, isTerminated_false wb hlb rfl]
    · cases hr
  | @cancel _ ids _ hr =>
    unfold Job.setCancel at hr
    split at hr
    · cases hr; exact JC.of_eq rfl (fun j => by simp [completed])
    · rename_i hne
      split at hr
      · cases hr
      · rename_i job1 hm
        cases hr
        have mh := markAll_hist .canceled _ rfl _ _ _ hm
        cases ids with
        | nil => simp at hne
        | cons p rest =>
          obtain ⟨st, hl, hst⟩ := mh.before p (by simp)
          exact JC.check (isTerminated_false w hl hst) hid (fun j => by simp [completed])
  | @abort _ ids _ hr =>
    unfold Job.abortTasks at hr
    split at hr
    · cases hr; exact JC.of_eq rfl (fun j => by simp [completed])
    · rename_i hne
      split at hr
      · cases hr
      · rename_i job1 hm
        cases hr
        have mh := markAll_hist .aborted _ rfl _ _ _ hm
        cases ids with
        | nil => simp at hne
        | cons p rest =>
          obtain ⟨st, hl, hst⟩ := mh.before p (by simp)
          exact JC.check (isTerminated_false w hl hst) hid (fun j => by simp [completed])
  | attach ho hr =>
    refine JC.of_eq ?_ (fun j => by simp [completed])
    rw [isTerminated_of_open ho, isTerminated_of_open ((attach_isOpen _ hr).trans ho)]
  | close ho =>
    exact JC.check (isTerminated_of_open ho) rfl (fun j => by simp [completed])

/-! ### the invariant -/

/-- The invariant, over the job list, the job-id counter and ALL events emitted so far. -/
structure Comp (jobs : List Job) (ctr : Nat) (evs : List Ev) : Prop where
  below : ∀ j a, findJob jobs j = some a → j < ctr
  wf : ∀ j a, findJob jobs j = some a → JobWF a
  /-- stored jobs: completed exactly once iff terminated -/
  cnt : ∀ j a, findJob jobs j = some a → completed j evs = a.isTerminated.toNat
  /-- job ids not yet handed out: never completed -/
  fresh : ∀ j, ctr ≤ j → completed j evs = 0
  /-- **at most one `jobCompleted` per job id**, also for forgotten jobs -/
  once : ∀ j, completed j evs ≤ 1

theorem Comp.init : Comp [] 1 [] := by
  refine ⟨?_, ?_, ?_, fun _ _ => rfl, fun _ => by simp [completed]⟩
  · intro _ _ h; cases h
  · intro _ _ h; cases h
  · intro _ _ h; cases h

theorem completed_append (j : Nat) (a b : List Ev) : completed j (a ++ b) = completed j a + completed j b := by
  simp [completed, List.count_append]

theorem completed_quiet {e : List Ev} (hq : ∀ x ∈ e, x.quiet = true) (j : Nat) : completed j e = 0 := by
  refine List.count_eq_zero.mpr ?_
  intro hm
  have := hq _ hm
  simp [Ev.quiet] at this

theorem Comp.quiet {jobs : List Job} {ctr : Nat} {evs e : List Ev} (h : Comp jobs ctr evs)
    (hq : ∀ x ∈ e, x.quiet = true) : Comp jobs ctr (evs ++ e) := by
  have h0 := completed_quiet hq
  refine ⟨h.below, h.wf, ?_, ?_, ?_⟩
  · intro j a hj; rw [completed_append, h0, h.cnt j a hj]; rfl
  · intro j hj; rw [completed_append, h0, h.fresh j hj]
  · intro j; rw [completed_append, h0]; exact h.once j

theorem toNat_le_one (b : Bool) : b.toNat ≤ 1 := by cases b <;> simp

theorem Comp.put {jobs : List Job} {ctr : Nat} {evs e : List Ev} {a b : Job} (h : Comp jobs ctr evs)
    (hj : findJob jobs a.id = some a) (hop : JobOp a b e) : Comp (replaceJob jobs b) ctr (evs ++ e) := by
  have hid := hop.id_eq
  have wa := h.wf _ _ hj
  have jc := hop.jc wa
  have hlt := h.below _ _ hj
  have hfind : ∀ j x, findJob (replaceJob jobs b) j = some x →
      (j = a.id ∧ x = b) ∨ (j ≠ a.id ∧ findJob jobs j = some x) := by
    intro j x hx
    rw [findJob_replaceJob, hid] at hx
    by_cases hja : j = a.id
    · subst hja
      rw [if_pos rfl, hj] at hx
      exact .inl ⟨rfl, (Option.some.inj hx).symm⟩
    · rw [if_neg hja] at hx; exact .inr ⟨hja, hx⟩
  refine ⟨?_, ?_, ?_, ?_, ?_⟩
  · intro j x hx
    rcases hfind j x hx with ⟨rfl, _⟩ | ⟨_, hx⟩
    · exact hlt
    · exact h.below j x hx
  · intro j x hx
    rcases hfind j x hx with ⟨rfl, rfl⟩ | ⟨_, hx⟩
    · exact hop.wf wa
    · exact h.wf j x hx
  · intro j x hx
    rw [completed_append]
    rcases hfind j x hx with ⟨rfl, rfl⟩ | ⟨hne, hx⟩
    · rw [h.cnt _ _ hj]; exact jc.cnt
    · rw [h.cnt j x hx, jc.other j hne]; rfl
  · intro j hj'
    rw [completed_append, h.fresh j hj', jc.other j (by omega)]
  · intro j
    rw [completed_append]
    by_cases hja : j = a.id
    · subst hja
      rw [h.cnt _ _ hj, jc.cnt]
      exact toNat_le_one _
    · rw [jc.other j hja]; exact h.once j

theorem Comp.puts {jobs jobs' : List Job} {ctr : Nat} {evs e : List Ev} (hp : Puts jobs jobs' e) :
    Comp jobs ctr evs → Comp jobs' ctr (evs ++ e) := by
  induction hp generalizing evs with
  | nil _ => intro h; simpa using h
  | cons hj hop _ ih =>
    intro h
    rw [← List.append_assoc]
    exact ih (h.put hj hop)

/-- a new job that is not terminated (open, or with a Waiting task) gets the next id -/
theorem Comp.add {jobs : List Job} {ctr : Nat} {evs : List Ev} {job : Job} (h : Comp jobs ctr evs)
    (hid : job.id = ctr) (hw : JobWF job) (ht : job.isTerminated = false) :
    Comp (jobs ++ [job]) (ctr + 1) evs := by
  have hfind : ∀ j x, findJob (jobs ++ [job]) j = some x →
      findJob jobs j = some x ∨ (j = ctr ∧ x = job) := by
    intro j x hx
    rw [findJob_append] at hx
    cases hf : findJob jobs j with
    | some y => rw [hf] at hx; exact .inl hx
    | none =>
      rw [hf] at hx
      simp only at hx
      split at hx
      · rename_i hjj; exact .inr ⟨by rw [← hid, hjj], (Option.some.inj hx).symm⟩
      · cases hx
  refine ⟨?_, ?_, ?_, ?_, h.once⟩
  · intro j x hx
    rcases hfind j x hx with hx | ⟨rfl, _⟩
    · have := h.below j x hx; omega
    · omega
  · intro j x hx
    rcases hfind j x hx with hx | ⟨rfl, rfl⟩
    · exact h.wf j x hx
    · exact hw
  · intro j x hx
    rcases hfind j x hx with hx | ⟨rfl, rfl⟩
    · exact h.cnt j x hx
    · rw [h.fresh j (Nat.le_refl _), ht]; rfl
  · intro j hj; exact h.fresh j (by omega)

theorem Comp.forget {jobs : List Job} {ctr : Nat} {evs : List Ev} (h : Comp jobs ctr evs) (j : Nat) :
    Comp (jobs.filter (·.id != j)) ctr evs := by
  have hfind : ∀ k x, findJob (jobs.filter (·.id != j)) k = some x → findJob jobs k = some x := by
    intro k x hx
    rw [findJob_filter] at hx
    split at hx
    · cases hx
    · exact hx
  exact ⟨fun k x hx => h.below k x (hfind k x hx), fun k x hx => h.wf k x (hfind k x hx),
    fun k x hx => h.cnt k x (hfind k x hx), h.fresh, h.once⟩

theorem Comp.step {s s' : State} {op : Op} {acc e : List Ev} (hop : op.submitsTask = true)
    (h : Comp s.jobs s.jobCtr acc) (hs : step s op = .ok (s', e)) : Comp s'.jobs s'.jobCtr (acc ++ e) := by
  cases step_shape hs with
  | same hj hc hq => rw [hj, hc]; exact h.quiet hq
  | add o mf ids job ha hj hc hq ho =>
    rw [hj, hc]
    have wj : JobWF job := JobWF.attach _ (emptyJob_wf _ _ _) ha
    refine (h.add (attach_id _ ha) wj ?_).quiet hq
    rcases ho with rfl | ⟨mf', d, rfl, rfl⟩
    · exact isTerminated_of_open (attach_isOpen _ ha)
    · obtain ⟨k, hk⟩ := attach_nonempty (fillIdsNew_nonempty hop) ha
      exact isTerminated_false wj hk rfl
  | puts e1 tail hp hc he hq =>
    rw [hc, he, ← List.append_assoc]
    exact (h.puts hp).quiet hq
  | forget j job hj ht hjobs hc he =>
    rw [hjobs, hc, he, List.append_nil]
    exact h.forget j

/-- the invariant holds after every run from the empty server state in which no submit creates an empty job -/
theorem run_comp {ops : List Op} {s : State} {evs : List Ev} (hne : NoEmptySubmit ops = true)
    (h : run {} ops = .ok (s, evs)) : Comp s.jobs s.jobCtr evs := by
  have := run_invariant Comp (fun op => op.submitsTask = true)
    (fun s s' op acc e hp _ hs hi => hi.step hp hs) ops {} s [] evs
    (fun op ho => by
      simp only [NoEmptySubmit, List.all_eq_true] at hne
      exact hne op ho) init_wf h Comp.init
  simpa using this

/-! ### prefixes of runs -/

theorem run_append : ∀ (a b : List Op) {s s' : State} {evs : List Ev}, run s (a ++ b) = .ok (s', evs) →
    ∃ s1 e1 e2, run s a = .ok (s1, e1) ∧ run s1 b = .ok (s', e2) ∧ evs = e1 ++ e2
  | [], b, s, s', evs, h => ⟨s, [], evs, rfl, h, rfl⟩
  | op :: a, b, s, s', evs, h => by
    simp only [List.cons_append, run] at h ⊢
    split at h
    · cases h
    · rename_i s1 ev1 hs
      split at h
      · cases h
      · rename_i s2 ev2 hr
        cases h
        obtain ⟨s3, e1, e2, h1, h2, h3⟩ := run_append a b hr
        refine ⟨s3, ev1 ++ e1, e2, ?_, h2, by rw [h3, List.append_assoc]⟩
        simp only [h1]

theorem NoEmptySubmit_append {a b : List Op} (h : NoEmptySubmit (a ++ b) = true) : NoEmptySubmit a = true := by
  simp only [NoEmptySubmit, List.all_append, Bool.and_eq_true] at h ⊢
  exact h.1

/-- the state-level reading of `Comp` after a run -/
theorem run_completed {ops : List Op} {s : State} {evs : List Ev} (hne : NoEmptySubmit ops = true)
    (h : run {} ops = .ok (s, evs)) :
    (∀ j, evs.count (Ev.jobCompleted j) ≤ 1) ∧
    ∀ job ∈ s.jobs,
      evs.count (Ev.jobCompleted job.id) = (if !job.isOpen && job.hasNoActiveTasks then 1 else 0) := by
  have c := run_comp hne h
  have wf := run_wf ops init_wf h
  refine ⟨c.once, ?_⟩
  intro job hj
  have := c.cnt _ _ (findJob_of_mem wf.ids hj)
  simp only [completed] at this
  rw [this, Job.isTerminated]
  cases (!job.isOpen && job.hasNoActiveTasks) <;> rfl

end HqModel.Job
