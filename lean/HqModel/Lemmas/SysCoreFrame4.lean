import HqModel.Lemmas.SysCoreFrame3
/-!
`Fr True` for one scheduling round (`Sched.lean`): it places multi-node tasks (RunningMultiNode, `started` flag
false) but never makes a task Running and never sets a `started` flag.
-/
namespace HqModel.Core

abbrev Frs (s s' : State) : Prop := Fr True s s'

theorem Frs.refl (s : State) : Frs s s := Fr.refl _ _
theorem Frc.frs {s s' : State} (h : Frc s s') : Frs s s' := Fr.mono (fun h => h.elim) h
theorem CoreEq.frs {s s' : State} (h : CoreEq s s') : Frs s s' := Fr.of_eq h.t h.w

theorem placeSnBody_frs {s s' : State} {m m' : List WUpdate} {v : Nat} {r : Rq} {id : TaskId} {w : Nat}
    (h : s.placeSnBody m v r id w = .ok (s', m')) : Frs s s' := by
  simp only [State.placeSnBody] at h
  split at h
  · cases h
  · rename_i s1 hw
    have f1 : Frs s s1 := Fr.withWorker (insertSn_wrel id r) hw
    have e1 := withWorker_tasks hw
    split at h
    · cases h
    · rename_i task hg
      have ht := task?_of_get hg
      split at h
      · cases h
        exact f1.trans (Fr.setState ht rfl rfl trivial)
      · rename_i old hs
        split at h
        · split at h
          · cases h
          · rename_i r' hr
            split at h
            · cases h
            · rename_i s3 hw3
              cases h
              have f2 : Frs s1 { s1 with redirects := (s1.redirects.filter (·.1 ≠ id)) ++ [(id, w, v)] } := Fr.of_eq rfl rfl
              have f3 : Frs { s1 with redirects := (s1.redirects.filter (·.1 ≠ id)) ++ [(id, w, v)] } s3 :=
                Fr.withWorker (removeSn_wrel id _) hw3
              have e3 : s3.tasks = s1.tasks := by have := withWorker_tasks hw3; exact this
              exact ((f1.trans f2).trans f3).trans (Fr.setState (task?_congr e3 ht) rfl rfl trivial)
        · cases h
          exact f1.trans (Fr.of_eq rfl rfl)
      · rename_i old hs
        split at h
        · cases h
        · rename_i s2 hw2
          split at h
          · cases h
          · cases h
            have f2 : Frs s1 s2 := Fr.withWorker (removePrefill_wrel id) hw2
            have e2 := withWorker_tasks hw2
            exact (f1.trans f2).trans (Fr.setState_rd _ (task?_congr e2 ht) rfl rfl trivial)
      · cases h

theorem placeSn_frs {s s' : State} {m m' : List WUpdate} {v : Nat} {r : Rq} {id : TaskId} {w : Nat}
    (h : s.placeSn m v r id w = .ok (s', m')) : Frs s s' :=
  placeSnBody_frs (placeSn_ok h).1

theorem placeAll_frs (l : List (TaskId × Nat)) (s s' : State) (m m' : List WUpdate) (v : Nat) (r : Rq)
    (h : s.placeAll m v r l = .ok (s', m')) : Frs s s' := by
  induction l generalizing s m with
  | nil => simp only [State.placeAll] at h; cases h; exact Frs.refl _
  | cons p rest ih =>
    obtain ⟨id, w⟩ := p
    simp only [State.placeAll] at h
    split at h
    · cases h
    · rename_i s1 m1 h1
      exact (placeSn_frs h1).trans (ih _ _ h)

theorem mapSn_frs (es : List SnEntry) (s s' : State) (now : Nat) (m m' : List WUpdate)
    (h : s.mapSn now m es = .ok (s', m')) : Frs s s' := by
  induction es generalizing s m with
  | nil => simp only [State.mapSn] at h; cases h; exact Frs.refl _
  | cons e rest ih =>
    simp only [State.mapSn] at h
    split at h
    · cases h
    · split at h
      · cases h
      · split at h
        · cases h
        · rename_i q hq
          split at h
          · cases h
          · rename_i q' hq'
            split at h
            · cases h
            · rename_i s2 m2 hp
              have f1 : Frs s { s with queues := s.queues.set e.rq q' } := Fr.of_eq rfl rfl
              exact (f1.trans (placeAll_frs _ _ _ _ _ _ _ hp)).trans (ih _ _ h)

theorem setMnAll_frs (ws : List Nat) (s s' : State) (id : TaskId) (first : Bool)
    (h : setMnAll s id ws first = .ok s') : Frs s s' := by
  induction ws generalizing s first with
  | nil => simp only [setMnAll] at h; cases h; exact Frs.refl _
  | cons w rest ih =>
    simp only [setMnAll] at h
    split at h
    · cases h
    · rename_i s1 hw
      exact (Fr.withWorker (setMn_wrel id first) hw).trans (ih _ _ h)

theorem mapMnSets_frs (sets : List (List Nat)) (s s' : State) (rq : Nat) (acc acc' : List TaskId)
    (h : s.mapMnSets rq sets acc = .ok (s', acc')) : Frs s s' := by
  induction sets generalizing s acc with
  | nil => simp only [State.mapMnSets] at h; cases h; exact Frs.refl _
  | cons ws rest ih =>
    simp only [State.mapMnSets] at h
    split at h
    · cases h
    · rename_i q hq
      split at h
      · cases h
      · rename_i p ids more hr
        split at h
        · cases h
        · rename_i id ids'
          split at h
          · cases h
          · rename_i s2 hm
            split at h
            · cases h
            · rename_i task hg
              split at h
              · cases h
              · have f2 := setMnAll_frs _ _ _ _ _ hm
                have f12 : Frs s s2 := f2.congr rfl rfl rfl rfl
                have f3 : Frs s2 (s2.setTask { task with state := .runningMN ws }) :=
                  Fr.setState (task?_of_get hg) rfl rfl (.inl trivial)
                exact (f12.trans f3).trans (ih _ _ h)

theorem mapMn_frs (es : List MnEntry) (s s' : State) (acc acc' : List TaskId)
    (h : s.mapMn es acc = .ok (s', acc')) : Frs s s' := by
  induction es generalizing s acc with
  | nil => simp only [State.mapMn] at h; cases h; exact Frs.refl _
  | cons e rest ih =>
    simp only [State.mapMn] at h
    split at h
    · cases h
    · rename_i s1 acc1 h1
      exact (mapMnSets_frs _ _ _ _ _ _ h1).trans (ih _ _ h)

theorem prefillBack_frs (rq : Nat) (l : List TaskId) (s s' : State) (keep keep' : List TaskId)
    (h : State.prefillWorker.back rq s l keep = .ok (s', keep')) : Frs s s' := by
  induction l generalizing s keep with
  | nil => simp only [State.prefillWorker.back] at h; cases h; exact Frs.refl _
  | cons id rest ih =>
    simp only [State.prefillWorker.back] at h
    split at h
    · cases h
    · split at h
      · split at h
        · cases h
        · rename_i s2 hm
          exact (movePrefilledToReady_core hm).frs.trans (ih _ _ h)
      · exact ih _ _ h

theorem prefillMark_frs (w : Nat) (l : List TaskId) (s s' : State)
    (h : State.prefillWorker.mark w s l = .ok s') : Frs s s' := by
  induction l generalizing s with
  | nil => simp only [State.prefillWorker.mark] at h; cases h; exact Frs.refl _
  | cons id rest ih =>
    simp only [State.prefillWorker.mark] at h
    split at h
    · cases h
    · rename_i t hg
      split at h
      · split at h
        · cases h
        · rename_i s2 hw
          have f1 : Frs s (s.setTask { t with state := .prefilled w }) :=
            Fr.setState (task?_of_get hg) rfl rfl trivial
          exact (f1.trans (Fr.withWorker (insertPrefill_wrel id) hw)).trans (ih _ h)
      · cases h

theorem prefillWorker_frs {s s' : State} {m m' : List WUpdate} {rq size w : Nat}
    (h : s.prefillWorker m rq size w = .ok (s', m')) : Frs s s' := by
  simp only [State.prefillWorker] at h
  split at h
  · cases h
  · rename_i q hq
    split at h
    · cases h
    · split at h
      · cases h
      · rename_i pf hpf
        split at h
        · cases h
        · rename_i s2 keep hb
          split at h
          · cases h
          · rename_i s3 hmk
            cases h
            have f1 : Frs s { s with queues := s.queues.set rq { ready := (takeFromFirst q.ready size).1, prefill := some pf } } :=
              Fr.of_eq rfl rfl
            exact (f1.trans (prefillBack_frs _ _ _ _ _ _ hb)).trans (prefillMark_frs _ _ _ _ hmk)

theorem prefillWorkers_frs (ws : List Nat) (s s' : State) (m m' : List WUpdate) (rq size : Nat)
    (h : s.prefillWorkers m rq size ws = .ok (s', m')) : Frs s s' := by
  induction ws generalizing s m with
  | nil => simp only [State.prefillWorkers] at h; cases h; exact Frs.refl _
  | cons w rest ih =>
    simp only [State.prefillWorkers] at h
    split at h
    · cases h
    · rename_i s1 m1 h1
      exact (prefillWorker_frs h1).trans (ih _ _ h)

theorem proactive_frs (n : Nat) (s s' : State) (m m' : List WUpdate) (orders : List (Nat × List Nat)) (top : Int)
    (rq : Nat) (h : s.proactive m orders top n rq = .ok (s', m')) : Frs s s' := by
  have hp := prefillWorkers_frs
  have ht := @Fr.trans True
  have hr := Frs.refl
  fun_induction State.proactive s m orders top n rq <;> grind

theorem schedule_frs {s s' : State} {sol : Solution} {o : Out} (h : s.schedule sol = .ok (s', o)) : Frs s s' := by
  simp only [State.schedule] at h
  split at h
  · cases h
  · rename_i s1 m1 h1
    have f1 := mapSn_frs _ _ _ _ _ _ h1
    split at h
    · cases h
    · rename_i s2 mnTasks h2
      have f2 := mapMn_frs _ _ _ _ _ h2
      split at h
      · cases h
      · rename_i s3 m3 h3
        have f3 : Frs s2 s3 := by
          split at h3
          · cases h3; exact Frs.refl _
          · exact proactive_frs _ _ _ _ _ _ _ _ h3
        split at h
        · cases h
        · split at h
          · cases h
          · cases h
            exact ((f1.trans f2).trans f3).trans (Fr.of_eq rfl rfl)

end HqModel.Core
