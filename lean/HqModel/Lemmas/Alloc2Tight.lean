import HqModel.Lemmas.AllocCompact
/-!
`claim_compact_from_groups` (the `tight` / `tight!` claim inside the group set chosen by the solver) never stops:
no failing `max_by_key(..).unwrap()`, `pop().unwrap()`, `units -= size` underflow, index, and the `loop` terminates.

Termination measure: the number of non-zero entries of the local `amounts` vector. Every iteration that does not
`break` drains the group with the largest remaining amount and zeroes its entry; as long as the chosen group set
contains the remaining amount (`ScatterOk`, an invariant of the loop) that largest amount is positive, so the measure
drops by one; `#groups + 2` units of fuel are never exhausted.
-/
namespace HqModel.Alloc

/-! ### the two selections -/

theorem findMinFit_some {set : Option (List Nat)} {rem : Nat} {as : List Nat} {i : Nat} {best : Option (Nat × Nat)}
    {g a : Nat} (h : findMinFit set rem as i best = some (g, a)) :
    best = some (g, a) ∨ ∃ j, g = i + j ∧ as[j]? = some a ∧ rem ≤ a ∧ inSet set g = true := by
  induction as generalizing i best with
  | nil => exact .inl (by simpa [findMinFit] using h)
  | cons x xs ih =>
    simp only [findMinFit] at h
    rcases ih h with h1 | ⟨j, hg, hj, hle, hin⟩
    · by_cases hc : rem ≤ x ∧ inSet set i = true
      · rw [if_pos hc] at h1
        cases best with
        | none =>
          simp only [Option.some.injEq, Prod.mk.injEq] at h1
          obtain ⟨rfl, rfl⟩ := h1
          exact .inr ⟨0, rfl, rfl, hc.1, hc.2⟩
        | some b =>
          obtain ⟨bi, bv⟩ := b
          dsimp only at h1
          by_cases hlt : x < bv
          · rw [if_pos hlt] at h1
            simp only [Option.some.injEq, Prod.mk.injEq] at h1
            obtain ⟨rfl, rfl⟩ := h1
            exact .inr ⟨0, rfl, rfl, hc.1, hc.2⟩
          · rw [if_neg hlt] at h1
            exact .inl h1
      · rw [if_neg hc] at h1
        exact .inl h1
    · exact .inr ⟨j + 1, by omega, by simpa using hj, hle, hin⟩

theorem findMinFit_none {set : Option (List Nat)} {rem : Nat} {as : List Nat} {i : Nat} {best : Option (Nat × Nat)}
    (h : findMinFit set rem as i best = none) :
    best = none ∧ ∀ j a, as[j]? = some a → inSet set (i + j) = true → a < rem := by
  induction as generalizing i best with
  | nil => exact ⟨by simpa [findMinFit] using h, fun j a hj => by simp at hj⟩
  | cons x xs ih =>
    simp only [findMinFit] at h
    obtain ⟨h1, h2⟩ := ih h
    by_cases hc : rem ≤ x ∧ inSet set i = true
    · rw [if_pos hc] at h1
      cases best with
      | none => simp at h1
      | some b =>
        obtain ⟨bi, bv⟩ := b
        dsimp only at h1
        split at h1 <;> simp at h1
    · rw [if_neg hc] at h1
      refine ⟨h1, fun j a hj hin => ?_⟩
      cases j with
      | zero =>
        simp only [List.getElem?_cons_zero, Option.some.injEq] at hj
        subst hj
        rcases Nat.lt_or_ge x rem with hlt | hge
        · exact hlt
        · exact absurd ⟨hge, by simpa using hin⟩ hc
      | succ j =>
        simp only [List.getElem?_cons_succ] at hj
        exact h2 j a hj (by rw [show i + 1 + j = i + (j + 1) by omega]; exact hin)

theorem findMaxLast_some {set : Option (List Nat)} {as : List Nat} {i : Nat} {best : Option (Nat × Nat)}
    {g a : Nat} (h : findMaxLast set as i best = some (g, a)) :
    (best = some (g, a) ∨ ∃ j, g = i + j ∧ as[j]? = some a ∧ inSet set g = true) ∧
      (∀ j a', as[j]? = some a' → inSet set (i + j) = true → a' ≤ a) ∧
      (∀ g' b, best = some (g', b) → b ≤ a) := by
  induction as generalizing i best with
  | nil =>
    have : best = some (g, a) := by simpa [findMaxLast] using h
    exact ⟨.inl this, fun j a' hj => by simp at hj, fun g' b hb => by rw [this] at hb; cases hb; exact Nat.le_refl _⟩
  | cons x xs ih =>
    simp only [findMaxLast] at h
    obtain ⟨h1, h2, h3⟩ := ih h
    by_cases hc : inSet set i = true
    · rw [if_pos hc] at h1 h3
      -- the running best after this element has a value `≥ x`
      have hx : x ≤ a := by
        cases best with
        | none => exact h3 i x rfl
        | some b =>
          obtain ⟨bi, bv⟩ := b
          dsimp only at h3
          by_cases hle : bv ≤ x
          · rw [if_pos hle] at h3
            exact h3 i x rfl
          · rw [if_neg hle] at h3
            have := h3 bi bv rfl
            omega
      refine ⟨?_, ?_, ?_⟩
      · rcases h1 with h1 | ⟨j, hg, hj, hin⟩
        · cases best with
          | none =>
            simp only [Option.some.injEq, Prod.mk.injEq] at h1
            obtain ⟨rfl, rfl⟩ := h1
            exact .inr ⟨0, rfl, rfl, hc⟩
          | some b =>
            obtain ⟨bi, bv⟩ := b
            dsimp only at h1
            by_cases hle : bv ≤ x
            · rw [if_pos hle] at h1
              simp only [Option.some.injEq, Prod.mk.injEq] at h1
              obtain ⟨rfl, rfl⟩ := h1
              exact .inr ⟨0, rfl, rfl, hc⟩
            · rw [if_neg hle] at h1
              exact .inl h1
        · exact .inr ⟨j + 1, by omega, by simpa using hj, hin⟩
      · intro j a' hj hin
        cases j with
        | zero =>
          simp only [List.getElem?_cons_zero, Option.some.injEq] at hj
          subst hj
          exact hx
        | succ j =>
          simp only [List.getElem?_cons_succ] at hj
          exact h2 j a' hj (by rw [show i + 1 + j = i + (j + 1) by omega]; exact hin)
      · intro g' b hb
        subst hb
        dsimp only at h3
        by_cases hle : b ≤ x
        · omega
        · rw [if_neg hle] at h3
          exact h3 g' b rfl
    · rw [if_neg hc] at h1 h3
      refine ⟨?_, ?_, h3⟩
      · rcases h1 with h1 | ⟨j, hg, hj, hin⟩
        · exact .inl h1
        · exact .inr ⟨j + 1, by omega, by simpa using hj, hin⟩
      · intro j a' hj hin
        cases j with
        | zero => exact absurd (by simpa using hin) hc
        | succ j =>
          simp only [List.getElem?_cons_succ] at hj
          exact h2 j a' hj (by rw [show i + 1 + j = i + (j + 1) by omega]; exact hin)

theorem findMaxLast_none {set : Option (List Nat)} {as : List Nat} {i : Nat} {best : Option (Nat × Nat)}
    (h : findMaxLast set as i best = none) :
    best = none ∧ ∀ j, j < as.length → inSet set (i + j) = false := by
  induction as generalizing i best with
  | nil => exact ⟨by simpa [findMaxLast] using h, fun j hj => by simp at hj⟩
  | cons x xs ih =>
    simp only [findMaxLast] at h
    obtain ⟨h1, h2⟩ := ih h
    by_cases hc : inSet set i = true
    · rw [if_pos hc] at h1
      cases best with
      | none => simp at h1
      | some b =>
        obtain ⟨bi, bv⟩ := b
        dsimp only at h1
        split at h1 <;> simp at h1
    · rw [if_neg hc] at h1
      refine ⟨h1, fun j hj => ?_⟩
      cases j with
      | zero => simpa using hc
      | succ j =>
        rw [show i + (j + 1) = i + 1 + j by omega]
        exact h2 j (by simpa using hj)

/-! ### fraction maps: list values -/

theorem mem_freplace {m : FMap} {i x : Nat} {kv : Nat × Nat} (h : kv ∈ freplace m i x) : kv.2 = x ∨ kv ∈ m := by
  induction m with
  | nil => simp [freplace] at h
  | cons y m ih =>
    obtain ⟨k, v⟩ := y
    simp only [freplace] at h
    split at h
    · rcases List.mem_cons.mp h with rfl | h'
      · exact .inl rfl
      · rcases ih h' with h1 | h1
        · exact .inl h1
        · exact .inr (List.mem_cons_of_mem _ h1)
    · rcases List.mem_cons.mp h with rfl | h'
      · exact .inr (by simp)
      · rcases ih h' with h1 | h1
        · exact .inl h1
        · exact .inr (List.mem_cons_of_mem _ h1)

theorem mem_fset {m : FMap} {i x : Nat} {kv : Nat × Nat} (h : kv ∈ fset m i x) : kv.2 = x ∨ kv ∈ m := by
  unfold fset at h
  split at h
  · exact mem_freplace h
  · rcases List.mem_cons.mp h with rfl | h'
    · exact .inl rfl
    · exact .inr h'

theorem mem_of_fget {m : FMap} {i v : Nat} (h : fget m i = some v) : (i, v) ∈ m := by
  induction m with
  | nil => simp at h
  | cons y m ih =>
    obtain ⟨k, w⟩ := y
    simp only [fget] at h
    split at h
    · rename_i hk
      simp only [Option.some.injEq] at h
      subst hk h
      simp
    · exact List.mem_cons_of_mem _ (ih h)

theorem bestVal_ne_none_of_mem {m : FMap} {kv : Nat × Nat} {fr : Nat} (hm : kv ∈ m) (hle : fr ≤ kv.2) :
    bestVal m fr ≠ none := by
  induction m with
  | nil => cases hm
  | cons y m ih =>
    obtain ⟨k, w⟩ := y
    simp only [bestVal]
    rcases List.mem_cons.mp hm with rfl | hm'
    · split <;> simp [hle]
    · have := ih hm'
      split
      · rename_i hn; exact absurd hn this
      · split <;> simp

theorem fmax_lt_of_vals {m : FMap} (h : ∀ kv ∈ m, kv.2 < FPU) : fmax m < FPU := by
  rcases fmax_mem m with h0 | ⟨kv, hkv, he⟩
  · rw [h0]; exact FPU_pos
  · rw [← he]; exact h kv hkv

theorem bestVal_ne_none_of_fmax {m : FMap} {fr : Nat} (hpos : 0 < fr) (hle : fr ≤ fmax m) : bestVal m fr ≠ none := by
  rcases fmax_mem m with h0 | ⟨kv, hkv, he⟩
  · omega
  · exact bestVal_ne_none_of_mem hkv (by omega)

/-! ### `try_take_fraction` -/

theorem tryTakeFrac_nostop (gid fr : Nat) (pick : Option Nat) (g : Group) (acc : List AIdx) :
    NoStop (tryTakeFrac gid fr pick g acc) := by
  intro e he
  unfold tryTakeFrac at he
  split at he
  · cases he
  · split at he
    · rename_i er hb
      simp only [Except.error.injEq] at he
      subst he
      exact bestMatch_nostop _ _ _ _ hb
    · cases he
    · cases he

theorem tryTakeFrac_spec {gid fr : Nat} {pick : Option Nat} {g g2 : Group} {acc acc2 : List AIdx} {b : Bool}
    (h : tryTakeFrac gid fr pick g acc = .ok (g2, acc2, b)) :
    g2.free = g.free ∧ (b = false → g2 = g ∧ (fr ≠ 0 → bestVal g.fracs fr = none)) ∧
      (b = true → ∃ i f, fget g.fracs i = some f ∧ fr ≤ f ∧ g2.fracs = fset g.fracs i (f - fr)) := by
  unfold tryTakeFrac at h
  split at h
  · rename_i h0
    simp only [Except.ok.injEq, Prod.mk.injEq] at h
    obtain ⟨rfl, -, rfl⟩ := h
    exact ⟨rfl, fun _ => ⟨rfl, fun hne => absurd h0 hne⟩, fun hb => by cases hb⟩
  · split at h
    · cases h
    · rename_i i f hb
      simp only [Except.ok.injEq, Prod.mk.injEq] at h
      obtain ⟨rfl, -, rfl⟩ := h
      obtain ⟨hget, hle⟩ := bestMatch_some hb
      exact ⟨rfl, fun hb => (by cases hb), fun _ => ⟨i, f, hget, hle, rfl⟩⟩
    · rename_i hb
      simp only [Except.ok.injEq, Prod.mk.injEq] at h
      obtain ⟨rfl, -, rfl⟩ := h
      exact ⟨rfl, fun _ => ⟨rfl, fun _ => bestVal_none_of_bestMatch hb⟩, fun hb => by cases hb⟩

/-! ### the measure -/

/-- number of non-zero entries of the `amounts` vector -/
def nz (as : List Nat) : Nat := (as.filter (fun a => a != 0)).length

theorem nz_le_length (as : List Nat) : nz as ≤ as.length := List.length_filter_le _ _

theorem nz_cons (x : Nat) (xs : List Nat) : nz (x :: xs) = (if x = 0 then 0 else 1) + nz xs := by
  unfold nz
  rw [List.filter_cons]
  by_cases hx : x = 0
  · simp [hx]
  · simp [hx]; omega

theorem nz_set_zero {as : List Nat} {p a : Nat} (h : as[p]? = some a) (hpos : 0 < a) :
    nz (as.set p 0) + 1 = nz as := by
  induction as generalizing p with
  | nil => simp at h
  | cons x xs ih =>
    cases p with
    | zero =>
      simp only [List.getElem?_cons_zero, Option.some.injEq] at h
      subst h
      have : ¬ x = 0 := by omega
      simp only [List.set_cons_zero, nz_cons, this, if_false, if_true]
      omega
    | succ p =>
      simp only [List.getElem?_cons_succ] at h
      have := ih h
      simp only [List.set_cons_succ, nz_cons]
      omega

/-! ### the loop invariant -/

/-- the local `amounts` vector against the groups: an entry is the amount of its group, or it was zeroed, and then the
group has no free whole index left and cannot serve the fractional part still wanted -/
def AmtOk (gs : List Group) (amounts : List Nat) (fr : Nat) : Prop :=
  amounts.length = gs.length ∧ ∀ (p : Nat) (g : Group), gs[p]? = some g →
    amounts[p]? = some g.amount ∨ (amounts[p]? = some 0 ∧ g.free = [] ∧ (fr ≠ 0 → bestVal g.fracs fr = none))

def GVals (gs : List Group) : Prop := ∀ (p : Nat) (g : Group), gs[p]? = some g → ∀ kv ∈ g.fracs, kv.2 < FPU

theorem sum_map_update' {P : List Nat} (hnd : P.Nodup) {p : Nat} (hp : p ∈ P) {f f' : Nat → Nat}
    (hsame : ∀ q, q ≠ p → f' q = f q) : (P.map f').sum + f p = (P.map f).sum + f' p := by
  induction P with
  | nil => cases hp
  | cons x xs ih =>
    obtain ⟨hx, hxs⟩ := List.nodup_cons.mp hnd
    simp only [List.map_cons, List.sum_cons]
    rcases List.mem_cons.mp hp with rfl | hp'
    · have : xs.map f' = xs.map f := by
        apply List.map_congr_left
        intro q hq
        exact hsame q (fun h => hx (h ▸ hq))
      rw [this]; omega
    · have hne : x ≠ p := fun h => hx (h ▸ hp')
      rw [hsame x hne]
      have := ih hxs hp'
      omega

/-- draining group `p` of the set removes exactly its free indices from the total -/
theorem totalFreeP_drain {gs : List Group} {P : List Nat} (hnd : P.Nodup) {p : Nat} (hp : p ∈ P) {g g' : Group}
    (hg : gs[p]? = some g) (hfree : g'.free = []) :
    totalFreeP (gs.set p g') P + g.free.length = totalFreeP gs P := by
  have := sum_map_update' hnd hp (f := freeLen gs) (f' := freeLen (gs.set p g')) (by
    intro q hq
    unfold freeLen
    rw [List.getElem?_set_ne (fun h => hq h.symm)])
  unfold totalFreeP
  have h1 : freeLen gs p = g.free.length := by simp [freeLen, hg]
  have h2 : freeLen (gs.set p g') p = 0 := by
    simp [freeLen, List.getElem?_set_self (lt_length_of_getElem? hg), hfree]
  omega

theorem amount_lt_imp_len_le {g : Group} {units fr : Nat} (hfr : fr < FPU) (h : g.amount < units * FPU + fr) :
    g.free.length ≤ units := by
  unfold Group.amount at h
  rcases Nat.lt_or_ge units g.free.length with hlt | hge
  · exfalso
    have : (units + 1) * FPU ≤ g.free.length * FPU := Nat.mul_le_mul_right _ hlt
    rw [Nat.add_mul] at this
    omega
  · exact hge

theorem amount_ge_imp {g : Group} {units fr : Nat} (hmax : fmax g.fracs < FPU)
    (h : units * FPU + fr ≤ g.amount) : units < g.free.length ∨ (units = g.free.length ∧ fr ≤ fmax g.fracs) := by
  unfold Group.amount at h
  rcases Nat.lt_trichotomy units g.free.length with hlt | heq | hgt
  · exact .inl hlt
  · right
    refine ⟨heq, ?_⟩
    rw [heq] at h
    omega
  · exfalso
    have : (g.free.length + 1) * FPU ≤ units * FPU := Nat.mul_le_mul_right _ hgt
    rw [Nat.add_mul] at this
    omega

/-- **the `loop` of `claim_compact_from_groups` does not stop** inside a group set that contains the remaining
amount; fuel: one more than the number of non-zero `amounts` -/
theorem tightLoop_nostop (S : List Nat) (pick : Option Nat) :
    ∀ (fuel : Nat) (gs : List Group) (amounts : List Nat) (units fr : Nat) (acc : List AIdx) (fidx : Option Nat),
      fr < FPU → AmtOk gs amounts fr → GVals gs → (∀ p ∈ S, p < gs.length) → S.Nodup → S ≠ [] →
      ScatterOk gs S units fr → nz amounts + 1 ≤ fuel →
      NoStop (tightLoop (some S) pick fuel gs amounts (units * FPU + fr) acc fidx) := by
  intro fuel
  induction fuel with
  | zero => intro gs amounts units fr acc fidx _ _ _ _ _ _ _ hfuel; omega
  | succ fuel ih =>
    intro gs amounts units fr acc fidx hfr hamt hvals hS hnd hne hok hfuel
    obtain ⟨hdiv, hmod⟩ := div_mod_FPU units fr hfr
    simp only [tightLoop, hdiv, hmod]
    cases hfit : findMinFit (some S) (units * FPU + fr) amounts 0 none with
    | some ga =>
      obtain ⟨gidx, a⟩ := ga
      dsimp only
      rcases findMinFit_some hfit with h0 | ⟨j, hj0, hj, hle, hin⟩
      · cases h0
      · simp only [Nat.zero_add] at hj0
        subst hj0
        have hlt : gidx < gs.length := by rw [← hamt.1]; exact lt_length_of_getElem? hj
        obtain ⟨g, hg⟩ := exists_get hlt
        simp only [hg]
        -- enough whole indices, and the fraction is available
        have hmax := fmax_lt_of_vals (hvals gidx g hg)
        have hhas : units ≤ g.free.length ∧
            (fr = 0 ∨ units < g.free.length ∨ bestVal g.fracs fr ≠ none) := by
          rcases hamt.2 gidx g hg with ha | ⟨ha, -, -⟩
          · rw [hj] at ha
            simp only [Option.some.injEq] at ha
            subst ha
            rcases amount_ge_imp hmax hle with h1 | ⟨h1, h2⟩
            · exact ⟨by omega, .inr (.inl h1)⟩
            · refine ⟨by omega, ?_⟩
              rcases Nat.eq_zero_or_pos fr with hz | hpos
              · exact .inl hz
              · exact .inr (.inr (bestVal_ne_none_of_fmax hpos h2))
          · rw [hj] at ha
            simp only [Option.some.injEq] at ha
            subst ha
            have hu : units = 0 := by
              rcases Nat.eq_zero_or_pos units with h | h
              · exact h
              · have := Nat.mul_le_mul_right FPU h
                have := FPU_pos
                omega
            exact ⟨by omega, .inl (by omega)⟩
        obtain ⟨g1, acc1, h1, hf1, hl1⟩ := takeIndices_ok gidx units g acc hhas.1
        rw [h1]
        dsimp only
        have h2 : NoStop (takeFracOrSplit gidx fr pick g1 acc1) := by
          apply takeFracOrSplit_nostop
          rcases hhas.2 with h | h | h
          · exact .inl h
          · right; right
            intro hnil
            rw [hnil] at hl1
            simp at hl1
            omega
          · right; left
            rw [hf1]; exact h
        intro er herr
        split at herr
        · rename_i er' h2'
          simp only [Except.error.injEq] at herr
          subst herr
          exact h2 _ h2'
        · cases herr
    | none =>
      dsimp only
      obtain ⟨-, hnofit⟩ := findMinFit_none hfit
      cases hmaxr : findMaxLast (some S) amounts 0 none with
      | none =>
        -- impossible: the set has an element, and it is in range
        exfalso
        obtain ⟨-, hall⟩ := findMaxLast_none hmaxr
        obtain ⟨p, hp⟩ := List.exists_mem_of_ne_nil S hne
        have := hall p (by rw [hamt.1]; exact hS p hp)
        simp [inSet, hp] at this
      | some ga =>
        obtain ⟨gidx, a⟩ := ga
        dsimp only
        obtain ⟨hsel, hmaxall, -⟩ := findMaxLast_some hmaxr
        rcases hsel with h0 | ⟨j, hj0, hj, hin⟩
        · cases h0
        · simp only [Nat.zero_add] at hj0
          subst hj0
          have hinS : gidx ∈ S := by simpa [inSet] using hin
          have hlt : gidx < gs.length := hS gidx hinS
          obtain ⟨g, hg⟩ := exists_get hlt
          simp only [hg]
          have halt : a < units * FPU + fr := hnofit gidx a hj (by simpa using hin)
          -- the group is no larger than what is still wanted
          have hsize : g.free.length ≤ units := by
            rcases hamt.2 gidx g hg with ha | ⟨-, hfree, -⟩
            · rw [hj] at ha
              simp only [Option.some.injEq] at ha
              subst ha
              exact amount_lt_imp_len_le hfr halt
            · rw [hfree]; exact Nat.zero_le _
          have hnlt : ¬ units < g.free.length := by omega
          rw [if_neg hnlt]
          obtain ⟨g1, acc1, h1, hf1, hl1⟩ := takeIndices_ok gidx g.free.length g acc (Nat.le_refl _)
          rw [h1]
          dsimp only
          have hg1free : g1.free = [] := List.eq_nil_of_length_eq_zero (by omega)
          -- the selected amount is positive: the measure decreases
          have hapos : 0 < a := by
            have hpos : 0 < units * FPU + fr := by omega
            -- a group of the set that is not zeroed and has a positive amount
            have hw : ∃ p ∈ S, ∃ a', amounts[p]? = some a' ∧ 0 < a' := by
              have hfree : 0 < totalFreeP gs S → ∃ p ∈ S, ∃ a', amounts[p]? = some a' ∧ 0 < a' := by
                intro ht
                obtain ⟨p, hp, g', hg', hne'⟩ := pos_of_totalFree ht
                rcases hamt.2 p g' hg' with ha | ⟨-, hf, -⟩
                · refine ⟨p, hp, _, ha, ?_⟩
                  unfold Group.amount
                  have : 0 < g'.free.length := List.length_pos_iff.mpr hne'
                  have := Nat.mul_le_mul_right FPU this
                  have := FPU_pos
                  omega
                · exact absurd hf hne'
              rcases Nat.eq_zero_or_pos units with hu | hu
              · have hfrpos : 0 < fr := by rw [hu] at hpos; omega
                rcases hok.2 with h | h | ⟨p, hp, g', hg', hb⟩
                · omega
                · exact hfree (by omega)
                · rcases hamt.2 p g' hg' with ha | ⟨-, -, hbn⟩
                  · refine ⟨p, hp, _, ha, ?_⟩
                    unfold Group.amount
                    have : fr ≤ fmax g'.fracs := by
                      cases hbv : bestVal g'.fracs fr with
                      | none => exact absurd hbv hb
                      | some b =>
                        -- the value found is a value of the map
                        rcases Nat.lt_or_ge (fmax g'.fracs) fr with hlt' | hge'
                        · exfalso
                          apply hb
                          clear hbv hb ha
                          generalize g'.fracs = m at hlt'
                          induction m with
                          | nil => rfl
                          | cons y m ihm =>
                            obtain ⟨k, w⟩ := y
                            simp only [fmax] at hlt'
                            have hw' : ¬ fr ≤ w := by omega
                            have := ihm (by omega)
                            simp [bestVal, this, hw']
                        · exact hge'
                    omega
                  · exact absurd (hbn (by omega)) hb
              · exact hfree (by have := hok.1; omega)
            obtain ⟨p, hp, a', hpa, hpos'⟩ := hw
            have := hmaxall p a' (by simpa using hpa) (by simp [inSet, hp])
            omega
          cases htf : tryTakeFrac gidx fr pick g1 acc1 with
          | error er =>
            dsimp only
            intro er' herr
            simp only [Except.error.injEq] at herr
            subst herr
            exact tryTakeFrac_nostop _ _ _ _ _ _ htf
          | ok v =>
            obtain ⟨g2, acc2, b⟩ := v
            obtain ⟨hfree2, hbf, hbt⟩ := tryTakeFrac_spec htf
            have hg2free : g2.free = [] := by rw [hfree2, hg1free]
            have hlen' : (gs.set gidx g2).length = gs.length := by simp
            have hS' : ∀ p ∈ S, p < (gs.set gidx g2).length := by rw [hlen']; exact hS
            have hnz : nz (amounts.set gidx 0) + 1 ≤ fuel := by
              have := nz_set_zero hj hapos
              omega
            have htot := totalFreeP_drain hnd hinS hg hg2free
            -- values of the new map
            have hvals' : GVals (gs.set gidx g2) := by
              intro p g' hg' kv hkv
              by_cases hpe : p = gidx
              · subst hpe
                rw [List.getElem?_set_self hlt] at hg'
                simp only [Option.some.injEq] at hg'
                subst hg'
                cases b with
                | false =>
                  rw [(hbf rfl).1, hf1] at hkv
                  exact hvals p g hg kv hkv
                | true =>
                  obtain ⟨i, f, hget, hle, hfr2⟩ := hbt rfl
                  rw [hfr2, hf1] at hkv
                  rw [hf1] at hget
                  rcases mem_fset hkv with h | h
                  · have := hvals p g hg (i, f) (mem_of_fget hget)
                    simp only at this
                    omega
                  · exact hvals p g hg kv h
              · rw [List.getElem?_set_ne (fun h => hpe h.symm)] at hg'
                exact hvals p g' hg' kv hkv
            have hamt' : ∀ fr', (fr' ≠ 0 → fr' = fr ∧ b = false) → AmtOk (gs.set gidx g2) (amounts.set gidx 0) fr' := by
              intro fr' hfr'
              refine ⟨by simp [hamt.1], fun p g' hg' => ?_⟩
              by_cases hpe : p = gidx
              · subst hpe
                rw [List.getElem?_set_self hlt] at hg'
                simp only [Option.some.injEq] at hg'
                subst hg'
                right
                refine ⟨by simp [lt_length_of_getElem? hj], hg2free, fun hne' => ?_⟩
                obtain ⟨rfl, rfl⟩ := hfr' hne'
                obtain ⟨hgg, hbn⟩ := hbf rfl
                rw [hgg, hf1]
                rw [hf1] at hbn
                exact hbn hne'
              · rw [List.getElem?_set_ne (fun h => hpe h.symm)] at hg'
                rw [List.getElem?_set_ne (fun h => hpe h.symm)]
                rcases hamt.2 p g' hg' with ha | ⟨ha, hf, hbn⟩
                · exact .inl ha
                · exact .inr ⟨ha, hf, fun hne' => by
                    obtain ⟨rfl, -⟩ := hfr' hne'
                    exact hbn hne'⟩
            cases b with
            | true =>
              dsimp only
              have := ih (gs.set gidx g2) (amounts.set gidx 0) (units - g.free.length) 0 acc2
                (some (acc2.length - 1)) FPU_pos (hamt' 0 (fun h => absurd rfl h)) hvals' hS' hnd hne
                ⟨by have := hok.1; omega, .inl rfl⟩ hnz
              simpa using this
            | false =>
              dsimp only
              obtain ⟨hgg, -⟩ := hbf rfl
              apply ih (gs.set gidx g2) (amounts.set gidx 0) (units - g.free.length) fr acc2 fidx hfr
                (hamt' fr (fun _ => ⟨rfl, rfl⟩)) hvals' hS' hnd hne _ hnz
              refine ⟨by have := hok.1; omega, ?_⟩
              rcases hok.2 with h | h | ⟨p, hp, g', hg', hb⟩
              · exact .inl h
              · right; left; omega
              · rcases Nat.eq_zero_or_pos fr with hz | hfrpos
                · exact .inl hz
                · right; right
                  have hpne : p ≠ gidx := by
                    intro hpe
                    subst hpe
                    rw [hg] at hg'
                    cases hg'
                    have := (hbf rfl).2 (by omega)
                    rw [hf1] at this
                    exact hb this
                  exact ⟨p, hp, g', by rw [List.getElem?_set_ne (fun h => hpne h.symm)]; exact hg', hb⟩

/-- **`claim_compact_from_groups` does not stop** for a positive amount inside a group set (distinct, existing
groups) that contains the amount -/
theorem claimTight_nostop {amount : Nat} {gs : List Group} {S : List Nat} {pick : Option Nat}
    (hpos : 0 < amount) (hvals : GVals gs) (hS : ∀ p ∈ S, p < gs.length) (hnd : S.Nodup)
    (hok : ScatterOk gs S (amount / FPU) (amount % FPU)) : NoStop (claimTight amount gs (some S) pick) := by
  have hne : S ≠ [] := by
    intro hnil
    subst hnil
    obtain ⟨h1, h2⟩ := hok
    simp only [totalFreeP, List.map_nil, List.sum_nil] at h1 h2
    have hu : amount / FPU = 0 := Nat.le_zero.mp h1
    have hf : amount % FPU = 0 := by
      rcases h2 with h | h | ⟨p, hp, -⟩
      · exact h
      · omega
      · cases hp
    have := Nat.div_add_mod amount FPU
    rw [hu, hf] at this
    omega
  have hamt : AmtOk gs (gs.map Group.amount) (amount % FPU) :=
    ⟨by simp, fun p g hg => .inl (by simp [hg])⟩
  have hloop := tightLoop_nostop S pick (gs.length + 2) gs (gs.map Group.amount) (amount / FPU) (amount % FPU) []
    none (Nat.mod_lt _ FPU_pos) hamt hvals hS hnd hne hok (by
      have := nz_le_length (gs.map Group.amount)
      simp at this
      omega)
  have harith : amount / FPU * FPU + amount % FPU = amount := by
    have := Nat.div_add_mod amount FPU
    rw [Nat.mul_comm] at this
    exact this
  rw [harith] at hloop
  intro er herr
  unfold claimTight at herr
  split at herr
  · rename_i er' hl
    simp only [Except.error.injEq] at herr
    subst herr
    exact hloop _ hl
  · cases herr
  · cases herr

end HqModel.Alloc
