import HqModel.Lemmas.AllocConciseInv
/-!
The full invariant `Inv2 = Inv ∧ ConciseOK ∧ shape of the live allocations`, its preservation by every operation,
and: `release` of a live allocation never stops.
-/
namespace HqModel.Alloc

theorem CInv.congr {c : CState} {n : Nat} {U : Nat → List Nat} {L L' : List AIdx} (h : CInv c n U L)
    (hh : ∀ g i, heldBy L g i = heldBy L' g i) : CInv c n U L' where
  len := h.len
  units := fun g cg hcg => by
    rw [h.units g cg hcg]
    unfold freeCount
    apply filter_length_same
    intro j _
    rw [hh]
  fracs := fun g cg hcg i => by rw [h.fracs g cg hcg i, hh]
  nodup := h.nodup

theorem PC.congr {U : Nat → List Nat} {tag n free : Nat} {c : CState} {L L' : List AIdx}
    (h : PC U tag n free c L) (hp : L.Perm L') : PC U tag n free c L' := by
  rcases h with h | ⟨ht, hc⟩ | h
  · exact .inl h
  · exact .inr (.inl ⟨ht, hc.congr (fun g i => heldBy_perm hp g i)⟩)
  · exact .inr (.inr h)

/-- static side conditions and the shape of what is live -/
structure Shaped (s : State) : Prop where
  /-- no `Groups` pool with exactly one group (the constructor `ResourceDescriptorKind::groups` turns a single
  group into a `List`) -/
  nosingle : ∀ (rid : Nat) (p : Pool), s.pools[rid]? = some p → p.tag = 2 → p.ngroups ≠ 1
  shaped : ∀ x ∈ s.live, ∀ ra ∈ x.2, ∀ p, s.pools[ra.rid]? = some p → p.tag = 1 → Shape ra.amount ra.indices

structure Inv2 (U : Nat → Nat → List Nat) (s : State) : Prop where
  inv : Inv U s
  concise : ConciseOK U s
  shaped : Shaped s

theorem releaseList_length {gs gs' : List Group} {l : List AIdx} (h : releaseList gs l = .ok gs') :
    gs'.length = gs.length := by
  induction l generalizing gs with
  | nil => simp only [releaseList, Except.ok.injEq] at h; rw [h]
  | cons e es ih =>
    simp only [releaseList] at h
    split at h
    · cases h
    · rename_i gs₁ h₁
      rw [ih h, releaseIdx_length h₁]

theorem Pool.release_kind {p p' : Pool} {ra : RAlloc} (h : p.release ra = .ok p') :
    p'.tag = p.tag ∧ p'.fullSize = p.fullSize ∧ p'.ngroups = p.ngroups ∧
      p'.sumFree = p.sumFree + (if p.tag = 3 then ra.amount else 0) := by
  cases p with
  | empty => simp [Pool.release] at h
  | indices full g =>
    simp only [Pool.release] at h
    split at h
    · cases h
    · split at h
      · cases h
      · simp only [Except.ok.injEq] at h; subst h; exact ⟨rfl, rfl, rfl, rfl⟩
      · cases h
  | groups full gs =>
    simp only [Pool.release] at h
    split at h
    · cases h
    · rename_i gs' hr
      simp only [Except.ok.injEq] at h; subst h
      exact ⟨rfl, rfl, releaseList_length hr, rfl⟩
  | sum full free =>
    simp only [Pool.release] at h
    split at h
    · cases h
    · split at h
      · cases h
      · simp only [Except.ok.injEq] at h; subst h; exact ⟨rfl, rfl, rfl, by simp [Pool.sumFree, Pool.tag]⟩

theorem releasePools_kinds {pools pools' : List Pool} {al : Allocation} (h : releasePools pools al = .ok pools') :
    pools.length = pools'.length ∧ ∀ (rid : Nat) (p q : Pool), pools[rid]? = some p → pools'[rid]? = some q →
      q.tag = p.tag ∧ q.fullSize = p.fullSize ∧ q.ngroups = p.ngroups ∧
        q.sumFree = p.sumFree + (if p.tag = 3 then raAmount rid al else 0) := by
  induction al generalizing pools with
  | nil =>
    simp only [releasePools, Except.ok.injEq] at h
    subst h
    exact ⟨rfl, fun _ p q hp hq => by rw [hp] at hq; cases hq; simp⟩
  | cons ra ras ih =>
    simp only [releasePools] at h
    split at h
    · cases h
    · rename_i pool hp
      split at h
      · cases h
      · rename_i pool' hr
        obtain ⟨hl, ht⟩ := ih h
        obtain ⟨t, f, n, sf⟩ := Pool.release_kind hr
        refine ⟨by simpa [setPool] using hl, fun rid p q hp' hq => ?_⟩
        by_cases hrid : rid = ra.rid
        · subst hrid
          rw [hp] at hp'; cases hp'
          have : (setPool pools ra.rid pool')[ra.rid]? = some pool' := by
            simp [setPool, lt_length_of_getElem? hp]
          obtain ⟨t', f', n', sf'⟩ := ht ra.rid pool' q this hq
          refine ⟨by rw [t', t], by rw [f', f], by rw [n', n], ?_⟩
          rw [sf', sf, t, raAmount_cons, if_pos rfl]
          split <;> omega
        · have : (setPool pools ra.rid pool')[rid]? = some p := by
            simp only [setPool]
            rw [List.getElem?_set_ne (by omega)]; exact hp'
          obtain ⟨t', f', n', sf'⟩ := ht rid p q this hq
          have hne : ¬ ra.rid = rid := fun h => hrid h.symm
          exact ⟨t', f', n', by rw [sf', raAmount_cons, if_neg hne, Nat.zero_add]⟩

theorem Pool.tag_ne_zero {p : Pool} (h : p ≠ .empty) : p.tag ≠ 0 := by
  cases p <;> simp [Pool.tag] at h ⊢

theorem Pool.groupsOf_of_tag3 {p : Pool} (h : p.tag = 3) : p.groupsOf = [] := by
  cases p <;> simp [Pool.tag] at h <;> rfl

theorem exists_get {α} {l : List α} {i : Nat} (h : i < l.length) : ∃ x, l[i]? = some x := ⟨l[i], by simp [h]⟩


/-- **`tryAllocate` preserves the full invariant** -/
theorem tryAllocate_inv2 {U} {s s' : State} {h : Nat} {rq : Request} {ch : Choices} {r : Option Allocation}
    (hinv : Inv2 U s) (hU : ∀ r g, (U r g).Nodup) (hstep : tryAllocate s h rq ch = .ok (r, s')) : Inv2 U s' := by
  have hinv' := tryAllocate_inv hinv.inv hstep
  cases r with
  | none =>
    -- nothing but the cache changes
    unfold tryAllocate at hstep
    split at hstep
    · cases hstep
    · simp only [Except.ok.injEq, Prod.mk.injEq] at hstep
      obtain ⟨-, rfl⟩ := hstep
      exact ⟨hinv', ⟨hinv.concise.len, hinv.concise.pc⟩, ⟨hinv.shaped.nosingle, hinv.shaped.shaped⟩⟩
    · cases hstep
    · split at hstep
      · cases hstep
      · cases hstep
      · split at hstep
        · cases hstep
        · simp at hstep
  | some al =>
    obtain ⟨hexact, hkinds⟩ := tryAllocate_exact hstep
    -- expose the successor state
    have hshape : ∃ concise', conciseRemove s.concise al = .ok concise' ∧ s'.concise = concise' ∧
        s'.live = (h, al) :: s.live := by
      unfold tryAllocate at hstep
      split at hstep
      · cases hstep
      · cases hstep
      · cases hstep
      · split at hstep
        · cases hstep
        · cases hstep
        · split at hstep
          · cases hstep
          · rename_i concise' hcr
            simp only [Except.ok.injEq, Prod.mk.injEq, Option.some.injEq] at hstep
            obtain ⟨rfl, rfl⟩ := hstep
            exact ⟨concise', hcr, rfl, rfl⟩
    obtain ⟨concise', hcr, hconc, hlive⟩ := hshape
    -- per-resource data
    let tag : Nat → Nat := fun r => (s.pools[r]?.map Pool.tag).getD 0
    let n : Nat → Nat := fun r => (s.pools[r]?.map Pool.ngroups).getD 0
    let F : Nat → Nat := fun r => (s.pools[r]?.map Pool.sumFree).getD 0
    have hlen := hinv.concise.len
    have hpc0 : ∀ r c, s.concise[r]? = some c → PC (U r) (tag r) (n r) (F r) c (heldOf s.live r) := by
      intro r c hc
      have hr : r < s.pools.length := by rw [← hlen]; exact lt_length_of_getElem? hc
      obtain ⟨p, hp⟩ := exists_get hr
      simpa [tag, n, F, hp] using hinv.concise.pc r p c hp hc
    -- the new allocation's entries are held in s'
    have hheld' : ∀ r, (heldOf s'.live r).Perm (heldOf s.live r ++ raEntries r al) := by
      intro r
      rw [hlive, heldOf_cons]
      exact List.perm_append_comm
    have hra : ∀ ra ∈ al, ra.rid < s.concise.length ∧ RaOk (tag ra.rid) (n ra.rid) ra := by
      intro ra hra
      obtain ⟨p', hp', hne'⟩ := hinv'.rids (h, al) (by rw [hlive]; simp) ra hra
      have hr : ra.rid < s.pools.length := by rw [hkinds.1]; exact lt_length_of_getElem? hp'
      obtain ⟨p, hp⟩ := exists_get hr
      obtain ⟨ht, -, hn⟩ := hkinds.2 ra.rid p p' hp hp'
      have hmem : ∀ e ∈ ra.indices, e ∈ heldOf s'.live ra.rid := by
        intro e he
        rw [hlive, heldOf_cons]
        apply List.mem_append_left
        simp only [raEntries, List.mem_flatMap]
        exact ⟨ra, hra, by simp [he]⟩
      have hkeys := (hinv'.pools.pool ra.rid p' hp').keys
      refine ⟨by rw [hlen]; exact hr, ?_, ?_, ?_, ?_⟩
      · show tag ra.rid ≠ 0
        simp only [tag, hp, Option.map_some, Option.getD_some]
        rw [← ht]
        exact Pool.tag_ne_zero hne'
      · intro e he
        left
        have := (hkeys e (hmem e he)).1
        show e.group < n ra.rid
        simp only [n, hp, Option.map_some, Option.getD_some]
        rw [← hn]; exact this
      · intro ht12 hn1
        simp only [tag, n, hp, Option.map_some, Option.getD_some] at ht12 hn1
        obtain ⟨e, -, p₀, hp₀, hrid, -, hcases⟩ := hexact ra hra
        rw [← hrid, hp] at hp₀
        cases hp₀
        rcases ht12 with h1 | h2
        · rcases hcases with ⟨h3, -⟩ | ⟨-, hs⟩ | ⟨h3, -⟩ | ⟨h3, -⟩
          · omega
          · exact hs
          · omega
          · omega
        · exact absurd hn1 (hinv.shaped.nosingle ra.rid p hp h2)
      · intro ht3
        simp only [tag, hp, Option.map_some, Option.getD_some] at ht3
        match hidx : ra.indices with
        | [] => rfl
        | e :: es =>
          have := (hkeys e (hmem e (by rw [hidx]; simp))).1
          have hp't : p'.tag = 3 := by rw [ht]; exact ht3
          rw [Pool.groupsOf_of_tag3 hp't] at this
          simp at this
    have hb : ∀ r, HeldBound (U r) (heldOf s.live r ++ raEntries r al) := by
      intro r g i
      rw [← heldBy_perm (hheld' r)]
      cases hp' : s'.pools[r]? with
      | none =>
        -- no pool: nothing held
        have hnil : heldOf s'.live r = [] := by
          unfold heldOf raEntries
          simp only [List.flatMap_eq_nil_iff]
          intro x hx ra hra
          split
          · rename_i hrid
            obtain ⟨p, hp, -⟩ := hinv'.rids x hx ra hra
            rw [hrid, hp'] at hp; cases hp
          · rfl
        simp [hnil]
      | some p' =>
        have := (hinv'.pools.pool r p' hp').conserve g i
        omega
    have hsum : ∀ r, tag r = 3 → raAmount r al ≤ F r := by
      intro r ht
      cases hp : s.pools[r]? with
      | none => simp [tag, hp] at ht
      | some p =>
        simp only [tag, hp, Option.map_some, Option.getD_some] at ht
        obtain ⟨p', hp'⟩ := exists_get (show r < s'.pools.length by rw [← hkinds.1]; exact lt_length_of_getElem? hp)
        obtain ⟨ht', hf', -⟩ := hkinds.2 r p p' hp hp'
        cases p with
        | sum full free =>
          cases p' with
          | sum full' free' =>
            simp only [Pool.fullSize] at hf'
            subst hf'
            have h1 := hinv.inv.pools.sum r full' free hp
            have h2 := hinv'.pools.sum r full' free' hp'
            rw [hlive, heldAmount_cons] at h2
            simp only [F, hp, Option.map_some, Option.getD_some, Pool.sumFree]
            omega
          | _ => simp [Pool.tag] at ht'
        | _ => simp [Pool.tag] at ht
    obtain ⟨cs', hcr', hlen', hfin⟩ := conciseRemove_pc hU hpc0 hra hb hsum
    rw [hcr] at hcr'
    simp only [Except.ok.injEq] at hcr'
    subst hcr'
    refine ⟨hinv', ⟨?_, ?_⟩, ⟨?_, ?_⟩⟩
    · rw [hconc, hlen', hlen, hkinds.1]
    · intro r p' c hp' hc
      rw [hconc] at hc
      have hr : r < s.pools.length := by rw [hkinds.1]; exact lt_length_of_getElem? hp'
      obtain ⟨p, hp⟩ := exists_get hr
      obtain ⟨ht, hf, hn⟩ := hkinds.2 r p p' hp hp'
      have := hfin r c hc
      simp only [tag, n, F, hp, Option.map_some, Option.getD_some] at this
      rw [ht, hn]
      refine PC.congr ?_ (hheld' r).symm
      -- the free amount of a sum pool
      rcases this with h0 | h12 | ⟨h3, hs⟩
      · exact .inl h0
      · exact .inr (.inl h12)
      · refine .inr (.inr ⟨h3, ?_⟩)
        cases p with
        | sum full free =>
          cases p' with
          | sum full' free' =>
            simp only [Pool.fullSize] at hf
            subst hf
            have h1 := hinv.inv.pools.sum r full' free hp
            have h2 := hinv'.pools.sum r full' free' hp'
            rw [hlive, heldAmount_cons] at h2
            simp only [Pool.sumFree] at hs ⊢
            have : free - raAmount r al = free' := by omega
            rw [this] at hs
            exact hs
          | _ => simp [Pool.tag] at ht
        | _ => simp [Pool.tag] at h3
    · intro r p' hp' ht2
      have hr : r < s.pools.length := by rw [hkinds.1]; exact lt_length_of_getElem? hp'
      obtain ⟨p, hp⟩ := exists_get hr
      obtain ⟨ht, -, hn⟩ := hkinds.2 r p p' hp hp'
      rw [hn]
      exact hinv.shaped.nosingle r p hp (by rw [← ht]; exact ht2)
    · intro x hx ra hra p' hp' ht1
      have hr : ra.rid < s.pools.length := by rw [hkinds.1]; exact lt_length_of_getElem? hp'
      obtain ⟨p, hp⟩ := exists_get hr
      obtain ⟨ht, -, -⟩ := hkinds.2 ra.rid p p' hp hp'
      rw [hlive] at hx
      rcases List.mem_cons.mp hx with rfl | hx
      · obtain ⟨e, -, p₀, hp₀, hrid, -, hcases⟩ := hexact ra hra
        rw [← hrid, hp] at hp₀
        cases hp₀
        have hpt : p.tag = 1 := by rw [← ht]; exact ht1
        rcases hcases with ⟨h3, -⟩ | ⟨-, hs⟩ | ⟨h3, -⟩ | ⟨h3, -⟩
        · omega
        · exact hs
        · omega
        · omega
      · exact hinv.shaped.shaped x hx ra hra p hp (by rw [← ht]; exact ht1)

theorem isEnabled_inv2 {U} {s s' : State} {rq : Request} {ch : Choices} {b : Bool}
    (hinv : Inv2 U s) (hstep : isEnabled s rq ch = .ok (b, s')) : Inv2 U s' := by
  have hinv' := isEnabled_inv hinv.inv hstep
  unfold isEnabled at hstep
  split at hstep
  · cases hstep
  · simp only [Except.ok.injEq, Prod.mk.injEq] at hstep
    obtain ⟨-, rfl⟩ := hstep
    exact ⟨hinv', ⟨hinv.concise.len, hinv.concise.pc⟩, ⟨hinv.shaped.nosingle, hinv.shaped.shaped⟩⟩
  · cases hstep

/-- **`release` of a live allocation never stops and preserves the full invariant** -/
theorem release_inv2 {U} {s : State} {h : Nat} {al : Allocation} (hinv : Inv2 U s) (hU : ∀ r g, (U r g).Nodup)
    (hg : liveGet s.live h = some al) : ∃ s', release s h = some (.ok s') ∧ Inv2 U s' := by
  have hperm := liveErase_perm hg
  have hmem := liveGet_mem hg
  obtain ⟨pools', hrel, hinv'⟩ := releasePools_live hinv.inv hg
  obtain ⟨hplen, hkinds⟩ := releasePools_kinds hrel
  let tag : Nat → Nat := fun r => (s.pools[r]?.map Pool.tag).getD 0
  let n : Nat → Nat := fun r => (s.pools[r]?.map Pool.ngroups).getD 0
  let F : Nat → Nat := fun r => (s.pools[r]?.map Pool.sumFree).getD 0
  let O : Nat → List AIdx := fun r => heldOf (liveErase s.live h) r
  have hlen := hinv.concise.len
  have hheld : ∀ r, (heldOf s.live r).Perm (raEntries r al ++ O r) := by
    intro r
    have := heldOf_perm hperm r
    rwa [heldOf_cons] at this
  have hpc0 : ∀ r c, s.concise[r]? = some c → PC (U r) (tag r) (n r) (F r) c (raEntries r al ++ O r) := by
    intro r c hc
    have hr : r < s.pools.length := by rw [← hlen]; exact lt_length_of_getElem? hc
    obtain ⟨p, hp⟩ := exists_get hr
    have := hinv.concise.pc r p c hp hc
    simpa [tag, n, F, hp] using this.congr (hheld r)
  have hra : ∀ ra ∈ al, ra.rid < s.concise.length ∧ RaOk (tag ra.rid) (n ra.rid) ra := by
    intro ra hra
    obtain ⟨p, hp, hne⟩ := hinv.inv.rids (h, al) hmem ra hra
    have hr := lt_length_of_getElem? hp
    have hmemE : ∀ e ∈ ra.indices, e ∈ heldOf s.live ra.rid := by
      intro e he
      apply (hheld ra.rid).mem_iff.mpr
      apply List.mem_append_left
      simp only [raEntries, List.mem_flatMap]
      exact ⟨ra, hra, by simp [he]⟩
    have hkeys := (hinv.inv.pools.pool ra.rid p hp).keys
    refine ⟨by rw [hlen]; exact hr, ?_, ?_, ?_, ?_⟩
    · show tag ra.rid ≠ 0
      simp only [tag, hp, Option.map_some, Option.getD_some]
      exact Pool.tag_ne_zero hne
    · intro e he
      left
      show e.group < n ra.rid
      simp only [n, hp, Option.map_some, Option.getD_some]
      exact (hkeys e (hmemE e he)).1
    · intro ht12 hn1
      simp only [tag, n, hp, Option.map_some, Option.getD_some] at ht12 hn1
      rcases ht12 with h1 | h2
      · exact hinv.shaped.shaped (h, al) hmem ra hra p hp h1
      · exact absurd hn1 (hinv.shaped.nosingle ra.rid p hp h2)
    · intro ht3
      simp only [tag, hp, Option.map_some, Option.getD_some] at ht3
      match hidx : ra.indices with
      | [] => rfl
      | e :: es =>
        have := (hkeys e (hmemE e (by rw [hidx]; simp))).1
        rw [Pool.groupsOf_of_tag3 ht3] at this
        simp at this
  have hb : ∀ r, HeldBound (U r) (raEntries r al ++ O r) := by
    intro r g i
    rw [← heldBy_perm (hheld r)]
    cases hp : s.pools[r]? with
    | none =>
      have hnil : heldOf s.live r = [] := by
        unfold heldOf raEntries
        simp only [List.flatMap_eq_nil_iff]
        intro x hx ra hra
        split
        · rename_i hrid
          obtain ⟨p, hp', -⟩ := hinv.inv.rids x hx ra hra
          rw [hrid, hp] at hp'; cases hp'
        · rfl
      simp [hnil]
    | some p =>
      have := (hinv.inv.pools.pool r p hp).conserve g i
      omega
  obtain ⟨cs', hadd, hlen', hfin⟩ := conciseAdd_pc hU hpc0 hra hb
  refine ⟨{ s with pools := pools', concise := cs', live := liveErase s.live h }, ?_, hinv' cs', ⟨?_, ?_⟩, ⟨?_, ?_⟩⟩
  · simp [release, hg, hadd, hrel]
  · show cs'.length = pools'.length
    rw [hlen', hlen, hplen]
  · intro r p' c hp' hc
    have hr : r < s.pools.length := by rw [hplen]; exact lt_length_of_getElem? hp'
    obtain ⟨p, hp⟩ := exists_get hr
    obtain ⟨ht, -, hn, hsf⟩ := hkinds r p p' hp hp'
    have := hfin r c hc
    simp only [tag, n, F, hp, Option.map_some, Option.getD_some] at this
    rw [ht, hn]
    rcases this with h0 | h12 | ⟨h3, hs⟩
    · exact .inl h0
    · exact .inr (.inl h12)
    · refine .inr (.inr ⟨h3, ?_⟩)
      rw [hsf, if_pos h3]
      exact hs
  · intro r p' hp' ht2
    have hr : r < s.pools.length := by rw [hplen]; exact lt_length_of_getElem? hp'
    obtain ⟨p, hp⟩ := exists_get hr
    obtain ⟨ht, -, hn, -⟩ := hkinds r p p' hp hp'
    rw [hn]
    exact hinv.shaped.nosingle r p hp (by rw [← ht]; exact ht2)
  · intro x hx ra hra p' hp' ht1
    have hx' : x ∈ s.live := hperm.mem_iff.mpr (List.mem_cons_of_mem _ hx)
    have hr : ra.rid < s.pools.length := by rw [hplen]; exact lt_length_of_getElem? hp'
    obtain ⟨p, hp⟩ := exists_get hr
    obtain ⟨ht, -, -, -⟩ := hkinds ra.rid p p' hp hp'
    exact hinv.shaped.shaped x hx' ra hra p hp (by rw [← ht]; exact ht1)

/-! ### the initial state -/

theorem freeCount_nil (U : List Nat) (g : Nat) : freeCount U [] g = U.length := by
  simp [freeCount]

theorem init_concise {s : State} (hfresh : ∀ p ∈ s.pools, p.Fresh) (hlive : s.live = [])
    (hconc : s.concise = s.pools.map Pool.conciseState) : ConciseOK (univOf s.pools) s := by
  refine ⟨by simp [hconc], ?_⟩
  intro rid p c hp hc
  have hf := hfresh p (List.mem_of_getElem? hp)
  have hheld : heldOf s.live rid = [] := by simp [hlive, heldOf]
  rw [hheld]
  have hc' : c = p.conciseState := by
    rw [hconc, List.getElem?_map, hp] at hc
    simpa using hc.symm
  subst hc'
  cases p with
  | empty => exact .inl ⟨rfl, rfl⟩
  | indices full g =>
    refine .inr (.inl ⟨.inl rfl, ?_, ?_, ?_, ?_⟩)
    rotate_right
    · intro gi cg hcg
      cases gi with
      | zero =>
        simp only [Pool.conciseState, List.getElem?_cons_zero, Option.some.injEq] at hcg
        subst hcg
        have := (hf.1 g (by simp [Pool.groupsOf])).1
        simp [this, KeysNodup]
      | succ k => simp [Pool.conciseState] at hcg
    · rfl
    · intro gi cg hcg
      cases gi with
      | zero =>
        simp only [Pool.conciseState, List.getElem?_cons_zero, Option.some.injEq] at hcg
        subst hcg
        simp [freeCount_nil, univOf, hp, Pool.groupsOf]
      | succ k => simp [Pool.conciseState] at hcg
    · intro gi cg hcg i
      cases gi with
      | zero =>
        simp only [Pool.conciseState, List.getElem?_cons_zero, Option.some.injEq] at hcg
        subst hcg
        have := (hf.1 g (by simp [Pool.groupsOf])).1
        simp [this, fracOf]
      | succ k => simp [Pool.conciseState] at hcg
  | groups full gs =>
    refine .inr (.inl ⟨.inr rfl, ?_, ?_, ?_, ?_⟩)
    rotate_right
    · intro gi cg hcg
      simp only [Pool.conciseState, List.getElem?_map] at hcg
      cases hg : gs[gi]? with
      | none => simp [hg] at hcg
      | some g =>
        simp only [hg, Option.map_some, Option.some.injEq] at hcg
        subst hcg
        have := (hf.1 g (by simp only [Pool.groupsOf]; exact List.mem_of_getElem? hg)).1
        simp [this, KeysNodup]
    · simp [Pool.conciseState, Pool.ngroups, Pool.groupsOf]
    · intro gi cg hcg
      simp only [Pool.conciseState, List.getElem?_map] at hcg
      cases hg : gs[gi]? with
      | none => simp [hg] at hcg
      | some g =>
        simp only [hg, Option.map_some, Option.some.injEq] at hcg
        subst hcg
        simp [freeCount_nil, univOf, hp, Pool.groupsOf, hg]
    · intro gi cg hcg i
      simp only [Pool.conciseState, List.getElem?_map] at hcg
      cases hg : gs[gi]? with
      | none => simp [hg] at hcg
      | some g =>
        simp only [hg, Option.map_some, Option.some.injEq] at hcg
        subst hcg
        have := (hf.1 g (by simp only [Pool.groupsOf]; exact List.mem_of_getElem? hg)).1
        simp [this, fracOf]
  | sum full free =>
    refine .inr (.inr ⟨rfl, _, rfl, rfl, ?_, ?_⟩)
    rotate_right
    · show KeysNodup (if 0 < free % FPU then [(0, free % FPU)] else [])
      split <;> simp [KeysNodup]
    intro i
    show fracOf (if 0 < free % FPU then [(0, free % FPU)] else []) i = _
    by_cases hpos : 0 < free % FPU
    · by_cases hi : i = 0
      · simp [hpos, hi, fracOf, fget, Pool.sumFree]
      · have : ¬ 0 = i := fun h => hi h.symm
        simp [hpos, hi, fracOf, fget, this]
    · have h0 : free % FPU = 0 := by omega
      by_cases hi : i = 0 <;> simp [hpos, hi, fracOf, h0, Pool.sumFree]

/-- the state `ResourceAllocator::new` builds satisfies the full invariant (provided there is no single-group
`Groups` pool) -/
theorem init_inv2 {d : Descriptor} {s : State} (h : State.init d = some s)
    (hns : ∀ (rid : Nat) (p : Pool), s.pools[rid]? = some p → p.tag = 2 → p.ngroups ≠ 1) :
    Inv2 (univOf s.pools) s ∧ ∀ r g, (univOf s.pools r g).Nodup := by
  have hinv := init_inv h
  have hfacts : (∀ p ∈ s.pools, p.Fresh) ∧ s.live = [] ∧ s.concise = s.pools.map Pool.conciseState := by
    unfold State.init at h
    split at h
    · cases h
    · dsimp only at h
      split at h
      · cases h
      · simp only [Option.some.injEq] at h
        subst h
        refine ⟨?_, rfl, rfl⟩
        apply placeItems_fresh
        intro p hp
        rw [List.eq_of_mem_replicate hp]
        exact Pool.empty_fresh
  obtain ⟨hfresh, hlive, hconc⟩ := hfacts
  refine ⟨⟨hinv, init_concise hfresh hlive hconc, ⟨hns, by simp [hlive]⟩⟩, ?_⟩
  intro r g
  cases hp : s.pools[r]? with
  | none => simp [univOf, hp]
  | some p => exact (hinv.pools.pool r p hp).univ g

end HqModel.Alloc
