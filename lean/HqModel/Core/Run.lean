import HqModel.Core.Sched
/-!
All operations of the tako core model as one `step` function, and runs over arbitrary operation lists.
The driver (`Driver/CoreMain.lean`) applies exactly these functions to the operations recorded from the real code.
-/
namespace HqModel.Core

inductive Op where
  | newWorker (w : Worker)
  | removeWorker (w : Nat) (reason : String) (isFailure : Bool) (order : List TaskId) (rets : List (List TaskId))
  | newRq (rqv : Rqv)
  | newTasks (nts : List NewTask)
  | cancel (ids : List TaskId)
  | update (w : Nat) (us : List Update) (rets : List (List TaskId))
  | retracted (w : Nat) (ids : List TaskId)
  | schedule (sol : Solution)

def step (s : State) : Op → M (State × Out)
  | .newWorker w => s.newWorker w
  | .removeWorker w reason f order rets => s.removeWorker w reason f order rets
  | .newRq rqv => .ok (s.newRq rqv, {})
  | .newTasks nts => s.newTasks nts
  | .cancel ids => s.cancelTasks ids
  | .update w us rets => s.taskUpdate w us rets
  | .retracted w ids => s.retractResponse w ids
  | .schedule sol => s.schedule sol

/-- run a list of operations, collecting outputs; stops at the first panic -/
def run (s : State) : List Op → M (State × Out)
  | [] => .ok (s, {})
  | op :: ops =>
    match step s op with
    | .error e => .error e
    | .ok (s1, o1) =>
      match run s1 ops with
      | .error e => .error e
      | .ok (s2, o2) => .ok (s2, o1.add o2)

end HqModel.Core
