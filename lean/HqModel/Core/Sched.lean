import HqModel.Core.Reactor
/-!
One scheduling round after the solver: `create_task_mapping` (+ `process_proactive_filling`) and
`WorkerTaskMapping::send_messages` of `scheduler/mapping.rs`, `take_tasks*` of `scheduler/taskqueue.rs`.

The MILP solution and every hash-order dependent pick are inputs (`Solution`), checked for being picks the
code could have made (`!bad-choice` otherwise).
-/
namespace HqModel.Core

/-- pop up to `count` ids from the front entry of the ready list -/
def takeFromFirst (ready : List (Int × List TaskId)) (count : Nat) : List (Int × List TaskId) × List TaskId :=
  match ready with
  | [] => ([], [])
  | (p, ids) :: rest =>
    let taken := ids.take count
    let left := ids.drop count
    (if left.isEmpty then rest else (p, left) :: rest, taken)

/-- repeatedly pop from the front entries until `count` ids are taken (`unwrap` on an empty queue panics) -/
def takeFromQueue : Nat → List (Int × List TaskId) → Nat → List TaskId → M (List (Int × List TaskId) × List TaskId)
  | _, ready, 0, acc => .ok (ready, acc)
  | 0, _, _ + 1, _ => .error (.panic "take_tasks.fuel")
  | fuel + 1, ready, count + 1, acc =>
    match ready with
    | [] => .error (.panic "take_tasks.first_entry_unwrap")
    | _ =>
      let (ready', taken) := takeFromFirst ready (count + 1)
      takeFromQueue fuel ready' (count + 1 - taken.length) (acc ++ taken)

/-- `TaskQueue::take_tasks`; `taken` = the observed result (fixes the hash-order picks from the prefill set) -/
def Queue.takeTasks (q : Queue) (count : Nat) (taken : List TaskId) : M Queue :=
  let fuel := count + q.ready.length + 1
  match q.prefill with
  | none =>
    match takeFromQueue fuel q.ready count [] with
    | .error e => .error e
    | .ok (ready', res) =>
      if res ≠ taken then .error (.panic "!bad-choice take_tasks") else .ok { q with ready := ready' }
  | some (pp, pset) =>
    let samePrio := match q.ready with
      | (p, _) :: _ => p = pp
      | [] => false
    -- phase 1 (only when the top of the queue has the prefill's priority): first entry
    let (ready1, res1) := if samePrio && count > 0 then takeFromFirst q.ready count else (q.ready, [])
    let count1 := count - res1.length
    -- phase 2: drain the prefill set, picks in the observed order
    let k := min count1 pset.length
    let picks := (taken.drop res1.length).take k
    if !(picks.all pset.contains) || picks.eraseDups.length ≠ picks.length || picks.length ≠ k then
      .error (.panic "!bad-choice take_tasks.prefill")
    else
      let pset' := pset.filter fun x => !picks.contains x
      let count2 := count1 - k
      match takeFromQueue fuel ready1 count2 [] with
      | .error e => .error e
      | .ok (ready', res3) =>
        if res1 ++ picks ++ res3 ≠ taken then .error (.panic "!bad-choice take_tasks") else
        .ok { ready := ready', prefill := if pset'.isEmpty then none else some (pp, pset') }

/-- one round of dealing: every worker with a positive count gets the next task -/
def dealRound : List (Nat × Nat) → List TaskId → List (TaskId × Nat) → List (Nat × Nat) × List TaskId × List (TaskId × Nat)
  | [], tasks, acc => ([], tasks, acc)
  | (w, c) :: rest, tasks, acc =>
    match tasks with
    | [] => ((w, c) :: rest, [], acc)
    | t :: ts =>
      if c > 0 then
        let (rest', ts', acc') := dealRound rest ts (acc ++ [(t, w)])
        ((w, c - 1) :: rest', ts', acc')
      else
        let (rest', ts', acc') := dealRound rest (t :: ts) acc
        ((w, c) :: rest', ts', acc')

def deal : Nat → List (Nat × Nat) → List TaskId → List (TaskId × Nat) → List (TaskId × Nat)
  | 0, _, _, acc => acc
  | fuel + 1, counts, tasks, acc =>
    if tasks.isEmpty then acc else
    let (counts', tasks', acc') := dealRound counts tasks acc
    deal fuel counts' tasks' acc'

/-- what the mapping accumulates per worker -/
structure WUpdate where
  w : Nat
  assigned : List (TaskId × Nat) := []
  prefills : List TaskId := []
  retracts : List TaskId := []
  deriving Repr

def updAt (m : List WUpdate) (w : Nat) (f : WUpdate → WUpdate) : List WUpdate :=
  if m.any (·.w == w) then m.map fun u => if u.w == w then f u else u else m ++ [f { w := w }]

/-- the creation filter of a single-node placement variable in `solver.rs`: the worker has a single-node
assignment, the (request, variant) is not blocked there, and the worker lives long enough for the time request -/
def State.placementAllowed (s : State) (now : Nat) (rq v : Nat) (r : Rq) (w : Nat) : Bool :=
  match s.worker? w with
  | none => false
  | some wk =>
    (match wk.assign with | .sn .. => true | .mn .. => false) &&
    !wk.blocked.contains (rq, v) &&
    (match wk.termination with
     | some t => now + r.minTime ≤ t
     | none => true)

/-- does the request fit into the free vector without saturation (the per-worker resource rows of the MILP; an
`all` entry has the worker total as its coefficient, so it fits only when the whole resource is free)? -/
def fitsNow (free total : List Nat) (es : List RqEntry) : Bool :=
  es.all fun e => e.res < free.length && (match e.pol with
    | .amount a => a ≤ getD free e.res
    | .all => getD free e.res == getD total e.res)

/-- one placed single-node task of `create_task_mapping` -/
def State.placeSn (s : State) (m : List WUpdate) (v : Nat) (r : Rq) (id : TaskId) (w : Nat) : M (State × List WUpdate) :=
  -- the solver's resource rows: the placement fits into what is free right now (no saturation)
  if (match s.worker? w with
      | some wk => (match wk.assign with | .sn _ free _ => !fitsNow free wk.total r.entries | .mn .. => false)
      | none => false) then .error (.panic "!bad-choice placement-overbooks") else
  match s.withWorker w (·.insertSn id r) with
  | .error e => .error e
  | .ok s1 =>
    match s1.getTask id with
    | .error e => .error e
    | .ok task =>
      match task.state with
      | .waiting _ =>
        .ok (s1.setTask { task with state := .assigned w v }, updAt m w fun u => { u with assigned := u.assigned ++ [(id, v)] })
      | .retracting old =>
        let prev := s1.redirects.find? (·.1 = id)
        let s2 := { s1 with redirects := (s1.redirects.filter (·.1 ≠ id)) ++ [(id, w, v)] }
        match prev with
        | some (_, oldTarget, ov) =>
          match s2.rq task.rq ov with
          | .error e => .error e
          | .ok r' =>
            match s2.withWorker oldTarget (·.removeSn id r') with
            | .error e => .error e
            | .ok s3 => .ok (s3.setTask { task with state := .retracting old }, m)
        | none => .ok (s2, m)
      | .prefilled old =>
        match s1.withWorker old (·.removePrefill id) with
        | .error e => .error e
        | .ok s2 =>
          if s2.redirects.any (·.1 = id) then .error (.panic "create_task_mapping.assert_no_redirect") else
          let s3 := { s2 with redirects := s2.redirects ++ [(id, w, v)] }
          .ok (s3.setTask { task with state := .retracting old },
               updAt m old fun u => { u with retracts := u.retracts ++ [id] })
      | _ => .error (.panic "create_task_mapping.unreachable")

def State.placeAll (s : State) (m : List WUpdate) (v : Nat) (r : Rq) : List (TaskId × Nat) → M (State × List WUpdate)
  | [] => .ok (s, m)
  | (id, w) :: rest =>
    match s.placeSn m v r id w with
    | .error e => .error e
    | .ok (s1, m1) => State.placeAll s1 m1 v r rest

/-- one entry of `solution.sn_counts`: ((rq, variant), [(worker, count)], the ids `take_tasks` returned) -/
structure SnEntry where
  rq : Nat
  v : Nat
  counts : List (Nat × Nat)
  taken : List TaskId
  deriving Repr

def State.mapSn (s : State) (now : Nat) (m : List WUpdate) : List SnEntry → M (State × List WUpdate)
  | [] => .ok (s, m)
  | e :: rest =>
    match s.rq e.rq e.v with
    | .error err => .error err
    | .ok r =>
      if !(e.counts.all fun (p : Nat × Nat) => p.2 == 0 || s.placementAllowed now e.rq e.v r p.1) then
        .error (.panic "!bad-choice placement-not-allowed") else
      let sum := (e.counts.map (·.2)).sum
      match s.queues[e.rq]? with
      | none => .error (.panic "task_queues.index")
      | some q =>
        match q.takeTasks sum e.taken with
        | .error err => .error err
        | .ok q' =>
          let s1 := { s with queues := s.queues.set e.rq q' }
          match s1.placeAll m e.v r (deal (e.taken.length + 1) e.counts e.taken []) with
          | .error err => .error err
          | .ok (s2, m2) => State.mapSn s2 now m2 rest

/-- stable sort of the assigned list by descending priority (`sort_by_key(Reverse(priority))`) -/
def insertByPrio (prio : TaskId → Int) (x : TaskId × Nat) : List (TaskId × Nat) → List (TaskId × Nat)
  | [] => [x]
  | y :: ys => if prio y.1 ≥ prio x.1 then y :: insertByPrio prio x ys else x :: y :: ys

def sortByPrio (prio : TaskId → Int) (l : List (TaskId × Nat)) : List (TaskId × Nat) :=
  l.foldl (fun acc x => insertByPrio prio x acc) []

/-- multi-node placements: (rq, [worker sets]) in map order -/
structure MnEntry where
  rq : Nat
  sets : List (List Nat)
  deriving Repr

def setMnAll (s : State) (id : TaskId) : List Nat → Bool → M State
  | [], _ => .ok s
  | w :: rest, first =>
    match s.withWorker w (·.setMn id first) with
    | .error e => .error e
    | .ok s1 => setMnAll s1 id rest false

def State.mapMnSets (s : State) (rq : Nat) : List (List Nat) → List TaskId → M (State × List TaskId)
  | [], acc => .ok (s, acc)
  | ws :: rest, acc =>
    match s.queues[rq]? with
    | none => .error (.panic "task_queues.index")
    | some q =>
      -- take_one
      match q.ready with
      | [] => .error (.panic "take_one.unwrap")
      | (p, ids) :: more =>
        match ids with
        | [] => .error (.panic "take_one.empty_entry")
        | id :: ids' =>
          let q' := { q with ready := if ids'.isEmpty then more else (p, ids') :: more }
          let s1 := { s with queues := s.queues.set rq q' }
          match setMnAll s1 id ws true with
          | .error e => .error e
          | .ok s2 =>
            match s2.getTask id with
            | .error e => .error e
            | .ok task =>
              if task.state ≠ .waiting 0 then .error (.panic "create_task_mapping.assert_mn_waiting") else
              State.mapMnSets (s2.setTask { task with state := .runningMN ws }) rq rest (acc ++ [id])

def State.mapMn (s : State) : List MnEntry → List TaskId → M (State × List TaskId)
  | [], acc => .ok (s, acc)
  | e :: rest, acc =>
    match s.mapMnSets e.rq e.sets acc with
    | .error err => .error err
    | .ok (s1, acc1) => State.mapMn s1 rest acc1

/-! #### proactive filling -/

def topPriority (qs : List Queue) : Option Int :=
  qs.foldl (fun acc q => match q.ready, acc with
    | (p, _) :: _, none => some p
    | (p, _) :: _, some a => some (max a p)
    | [], a => a) none

def Queue.topSizeNoPrefill (q : Queue) : Nat :=
  match q.ready with
  | [] => 0
  | (p, ids) :: _ =>
    match q.prefill with
    | some (pp, _) => if pp ≠ p then 0 else ids.length
    | none => ids.length

def taskRq (s : State) (id : TaskId) : Option Nat := (s.task? id).map (·.rq)

/-- candidate workers of `process_proactive_filling` for queue `rq` -/
def State.prefillCandidates (s : State) (m : List WUpdate) (rq : Nat) : List Nat :=
  (s.workers.filter fun w =>
    match w.assign with
    | .mn .. => false
    | .sn _ _ pre =>
      (match m.find? (·.w == w.id) with
       | some u => u.assigned.any fun a => taskRq s a.1 == some rq
       | none => false) &&
      !(pre.any fun t => taskRq s t == some rq)).map (·.id)

/-- `take_tasks_for_prefill` followed by the retain of the fix dc58f3d, for one worker -/
def State.prefillWorker (s : State) (m : List WUpdate) (rq : Nat) (size : Nat) (w : Nat) : M (State × List WUpdate) :=
  match s.queues[rq]? with
  | none => .error (.panic "task_queues.index")
  | some q =>
    match q.ready with
    | [] => .error (.panic "take_tasks_for_prefill.unwrap")
    | (p, _) :: _ =>
      let (ready', taken) := takeFromFirst q.ready size
      match (match q.prefill with
        | some (pp, ts) => if pp ≠ p then (.error (.panic "take_tasks_for_prefill.assert_priority") : M (Int × List TaskId)) else .ok (pp, ts ++ taken)
        | none => .ok (p, taken)) with
      | .error e => .error e
      | .ok pf =>
        let s1 := { s with queues := s.queues.set rq { ready := ready', prefill := some pf } }
        -- retracting tasks go back to the ready queue
        let rec back (s' : State) : List TaskId → List TaskId → M (State × List TaskId)
          | [], keep => .ok (s', keep)
          | id :: rest, keep =>
            match s'.getTask id with
            | .error e => .error e
            | .ok t =>
              match t.state with
              | .retracting _ =>
                match s'.movePrefilledToReady rq id with
                | .error e => .error e
                | .ok s'' => back s'' rest keep
              | _ => back s' rest (keep ++ [id])
        match back s1 taken [] with
        | .error e => .error e
        | .ok (s2, keep) =>
          let rec mark (s' : State) : List TaskId → M State
            | [] => .ok s'
            | id :: rest =>
              match s'.getTask id with
              | .error e => .error e
              | .ok t =>
                match t.state with
                | .waiting _ =>
                  match (s'.setTask { t with state := .prefilled w }).withWorker w (·.insertPrefill id) with
                  | .error e => .error e
                  | .ok s'' => mark s'' rest
                | _ => .error (.panic "process_proactive_filling.assert_waiting")
          match mark s2 keep with
          | .error e => .error e
          | .ok s3 => .ok (s3, updAt m w fun u => { u with prefills := u.prefills ++ keep })

def State.prefillWorkers (s : State) (m : List WUpdate) (rq size : Nat) : List Nat → M (State × List WUpdate)
  | [] => .ok (s, m)
  | w :: rest =>
    match s.prefillWorker m rq size w with
    | .error e => .error e
    | .ok (s1, m1) => State.prefillWorkers s1 m1 rq size rest

/-- `orders` : per queue index, the order in which the implementation visited the candidate workers;
`top` = `task_queues.top_priority()` evaluated once before the loop, as the implementation does -/
def State.proactive (s : State) (m : List WUpdate) (orders : List (Nat × List Nat)) (top : Int) : Nat → Nat → M (State × List WUpdate)
  | 0, _ => .ok (s, m)
  | n + 1, rq =>
    let next (s' : State) (m' : List WUpdate) := State.proactive s' m' orders top n (rq + 1)
    match s.queues[rq]? with
    | none => .ok (s, m)
    | some q =>
      if (match q.ready with | (p, _) :: _ => decide (p ≠ top) | [] => true) then next s m else
      let size := q.topSizeNoPrefill - s.prefillReserve
      if size = 0 then next s m else
      let cands := s.prefillCandidates m rq
      if cands.isEmpty then next s m else
      let pfs := min (size / cands.length) s.prefillMax
      if pfs = 0 then next s m else
      let order := match orders.find? (·.1 == rq) with | some o => o.2 | none => []
      if !(order.all cands.contains && cands.all order.contains && order.length = cands.length) then
        .error (.panic "!bad-choice prefill-order")
      else
        match s.prefillWorkers m rq pfs order with
        | .error e => .error e
        | .ok (s1, m1) => next s1 m1

structure Solution where
  /-- `now` of the scheduling round in ms -/
  now : Nat := 0
  sn : List SnEntry := []
  mn : List MnEntry := []
  prefillOrders : List (Nat × List Nat) := []
  deriving Repr

def computeList (s : State) : List (TaskId × Option Nat) → M (List (TaskId × Nat × Option Nat × List Nat))
  | [] => .ok []
  | (id, rv) :: rest =>
    match s.getTask id with
    | .error e => .error e
    | .ok t =>
      match computeList s rest with
      | .error e => .error e
      | .ok l => .ok (computeOne t rv [] :: l)

/-- `send_messages` for the single-node part: per worker retracts, then one compute message with the
prefills followed by the assigned tasks -/
def msgsOfAll (s : State) : List WUpdate → M (List Msg)
  | [] => .ok []
  | u :: rest =>
    let r : List Msg := if u.retracts.isEmpty then [] else [.retract u.w u.retracts]
    match computeList s ((u.prefills.map fun id => (id, none)) ++ (u.assigned.map fun a => (a.1, some a.2))) with
    | .error e => .error e
    | .ok l =>
      match msgsOfAll s rest with
      | .error e => .error e
      | .ok ms => .ok (r ++ (if l.isEmpty then [] else [Msg.compute u.w l]) ++ ms)

def mnMsgs (s : State) : List TaskId → M (List Msg)
  | [] => .ok []
  | id :: rest =>
    match s.getTask id with
    | .error e => .error e
    | .ok t =>
      match t.state with
      | .runningMN (root :: ws) =>
        match mnMsgs s rest with
        | .error e => .error e
        | .ok ms => .ok (Msg.compute root [computeOne t (some 0) (root :: ws)] :: ms)
      | _ => .error (.panic "send_messages.mn_placement_unwrap")

/-- `create_task_mapping` + `send_messages` -/
def State.schedule (s : State) (sol : Solution) : M (State × Out) :=
  match s.mapSn sol.now [] sol.sn with
  | .error e => .error e
  | .ok (s1, m1) =>
    let prio (id : TaskId) : Int := match s1.task? id with | some t => t.prio | none => 0
    let m2 := m1.map fun u => { u with assigned := sortByPrio prio u.assigned }
    match s1.mapMn sol.mn [] with
    | .error e => .error e
    | .ok (s2, mnTasks) =>
      match (match topPriority s2.queues with
        | none => (.ok (s2, m2) : M (State × List WUpdate))
        | some top => s2.proactive m2 sol.prefillOrders top s2.queues.length 0) with
      | .error e => .error e
      | .ok (s3, m3) =>
        match msgsOfAll s3 m3 with
        | .error e => .error e
        | .ok msgs =>
          match mnMsgs s3 mnTasks with
          | .error e => .error e
          | .ok mm => .ok ({ s3 with needSched := false }, { msgs := msgs ++ mm })

end HqModel.Core
