import HqModel.Core.Model
/-!
The reactor of `crates/tako/src/internal/server/reactor.rs`, function by function.
`rets` = the lists returned by the client's `on_task_error` callback, in call order (inputs of this model).
-/
namespace HqModel.Core

def ask (s : State) : State := { s with needSched := true }

/-- `on_new_worker` -/
def State.newWorker (s : State) (w : Worker) : M (State × Out) :=
  .ok (ask { s with workers := s.workers ++ [w] }, { cbs := [.workerNew w.id] })

/-- new resource request (`get_or_create_resource_rq_id` when new) -/
def State.newRq (s : State) (rqv : Rqv) : State :=
  { s with rqs := s.rqs ++ [rqv], queues := s.queues ++ [{}] }

/-! #### `on_new_tasks` -/

structure NewTask where
  id : TaskId
  rq : Nat
  prio : Int
  crashLimit : CrashLimit
  deps : List TaskId
  inst : Nat := 0
  crashes : Nat := 0
  deriving Repr

/-- the dependency loop of one new task: keeps deps that are in the map, registers the consumer,
counts the unfinished ones -/
def registerDeps (tasks : List Task) (id : TaskId) : List TaskId → List Task × List TaskId × Nat
  | [] => (tasks, [], 0)
  | d :: rest =>
    match findTask tasks d with
    | none => registerDeps tasks id rest
    | some dep =>
      let dep' := { dep with consumers := if dep.consumers.contains id then dep.consumers else dep.consumers ++ [id] }
      let (ts, kept, n) := registerDeps (putTask tasks dep') id rest
      (ts, d :: kept, n + (if dep.state = .finished then 0 else 1))

def State.addNewTasks (s : State) : List NewTask → List TaskId → M (State × List TaskId)
  | [], retracted => .ok (s, retracted)
  | nt :: rest, retracted =>
    let (ts, kept, n) := registerDeps s.tasks nt.id nt.deps
    let task : Task := { id := nt.id, state := .waiting n, deps := kept, rq := nt.rq, prio := nt.prio,
                         crashLimit := nt.crashLimit, inst := nt.inst, crashes := nt.crashes }
    let s1 := { s with tasks := ts }
    -- Core::add_task
    if (findTask s1.tasks nt.id).isSome then .error (.panic "add_task.duplicate") else
    if n = 0 then
      match s1.addReady task with
      | .error e => .error e
      | .ok (s2, r) => State.addNewTasks { s2 with tasks := s2.tasks ++ [task] } rest (retracted ++ r)
    else State.addNewTasks { s1 with tasks := s1.tasks ++ [task] } rest retracted

/-- `on_new_tasks` -/
def State.newTasks (s : State) (nts : List NewTask) : M (State × Out) :=
  if nts.isEmpty then .error (.panic "on_new_tasks.assert_nonempty") else
  match s.addNewTasks nts [] with
  | .error e => .error e
  | .ok (s1, retracted) =>
    match s1.retract retracted with
    | .error e => .error e
    | .ok (s2, out) => .ok (ask s2, out)

/-! #### `on_cancel_tasks` -/

def addTo (acc : List (Nat × List TaskId)) (w : Nat) (t : TaskId) : List (Nat × List TaskId) :=
  if acc.any (·.1 == w) then acc.map fun a => if a.1 == w then (a.1, a.2 ++ [t]) else a
  else acc ++ [(w, [t])]

def resetMnAll (s : State) : List Nat → M State
  | [] => .ok s
  | w :: rest =>
    match s.getWorker w with
    | .error e => .error e
    | .ok wk => resetMnAll (s.setWorker wk.emptySn) rest

def unionTids (a b : List TaskId) : List TaskId := b.foldl (fun acc x => if acc.contains x then acc else acc ++ [x]) a

/-- the per-task loop of `on_cancel_tasks` -/
def State.cancelLoop (s : State) : List TaskId → List TaskId → List (Nat × List TaskId) →
    M (State × List TaskId × List (Nat × List TaskId))
  | [], unreg, running => .ok (s, unreg, running)
  | id :: rest, unreg, running =>
    match s.task? id with
    | none => State.cancelLoop s rest unreg running
    | some task =>
      match s.recursiveConsumers task with
      | .error e => .error e
      | .ok cons =>
        let unreg' := unionTids (unionTids unreg [id]) cons
        match task.state with
        | .waiting _ => State.cancelLoop (ask s) rest unreg' running
        | .assigned w rv | .running w rv =>
          match s.rq task.rq rv with
          | .error e => .error e
          | .ok r =>
            match s.withWorker w (·.removeSn id r) with
            | .error e => .error e
            | .ok s1 => State.cancelLoop (ask s1) rest unreg' (addTo running w id)
        | .runningMN ws =>
          match resetMnAll s ws with
          | .error e => .error e
          | .ok s1 =>
            match ws with
            | [] => .error (.panic "on_cancel_tasks.ws0")
            | root :: _ => State.cancelLoop (ask s1) rest unreg' (addTo running root id)
        | .retracting w =>
          match s.tryRemoveRedirection id task.rq with
          | .error e => .error e
          | .ok s1 => State.cancelLoop (ask s1) rest unreg' (addTo running w id)
        | .prefilled w =>
          match s.removePrefilled task.rq id with
          | .error e => .error e
          | .ok s1 =>
            match s1.withWorker w (·.removePrefill id) with
            | .error e => .error e
            | .ok s2 => State.cancelLoop s2 rest unreg' (addTo running w id)
        | .finished => .error (.panic "on_cancel_tasks.unreachable")

def State.removeTasksBatched (s : State) : List TaskId → M State
  | [] => .ok s
  | t :: rest =>
    match s.removeTask t with
    | .error e => .error e
    | .ok (s1, _) => State.removeTasksBatched s1 rest

/-- `on_cancel_tasks` -/
def State.cancelTasks (s : State) (ids : List TaskId) : M (State × Out) :=
  match s.cancelLoop ids [] [] with
  | .error e => .error e
  | .ok (s1, unreg, running) =>
    match s1.removeTasksBatched unreg with
    | .error e => .error e
    | .ok s2 => .ok (s2, { msgs := running.map fun p => .cancel p.1 p.2 })

/-! #### `task_failed` -/

def State.removeWaitingAll (s : State) : List TaskId → M State
  | [] => .ok s
  | t :: rest =>
    match s.removeTask t with
    | .error e => .error e
    | .ok (s1, st) =>
      match st with
      | .waiting _ => State.removeWaitingAll s1 rest
      | _ => .error (.panic "task_failed.assert_consumer_waiting")

/-- `task_failed`; `ret` = what the client's `on_task_error` returned for this call -/
def State.taskFailed (s : State) (worker : Option Nat) (id : TaskId) (ret : List TaskId) : M (State × Out) :=
  match s.task? id with
  | none => .ok (s, {})
  | some task =>
    let pre : M State :=
      match worker with
      | some w =>
        if s.isMultiNode task.rq then
          match task.state with
          | .runningMN ws =>
            match ws with
            | root :: _ => if root ≠ w then .error (.panic "task_failed.assert_root") else resetMnAll s ws
            | [] => .error (.panic "task_failed.ws0")
          | _ => .error (.panic "task_failed.mn_placement_unwrap")
        else
          match task.state with
          | .assigned w' rv | .running w' rv =>
            if w ≠ w' then .error (.panic "task_failed.assert_worker") else
            match s.rq task.rq rv with
            | .error e => .error e
            | .ok r => s.withWorker w (·.removeSn id r)
          | .prefilled w' =>
            if w ≠ w' then .error (.panic "task_failed.assert_worker") else
            match s.removePrefilled task.rq id with
            | .error e => .error e
            | .ok s1 => s1.withWorker w (·.removePrefill id)
          | .retracting w' =>
            if w ≠ w' then .error (.panic "task_failed.assert_worker") else
            s.tryRemoveRedirection id task.rq
          | _ => .ok s
      | none =>
        match task.state with
        | .waiting _ => .ok s
        | _ => .error (.panic "task_failed.assert_waiting")
    match pre with
    | .error e => .error e
    | .ok s1 =>
      match s1.recursiveConsumers task with
      | .error e => .error e
      | .ok consumers =>
        match s1.removeWaitingAll consumers with
        | .error e => .error e
        | .ok s2 =>
          match s2.removeTask id with
          | .error e => .error e
          | .ok (s3, st) =>
            let okState : Bool :=
              match worker, st with
              | some _, .assigned .. | some _, .prefilled .. | some _, .retracting .. | some _, .running ..
              | some _, .runningMN .. => true
              | none, .waiting .. => true
              | _, _ => false
            if !okState then .error (.panic "task_failed.assert_state") else
            let out : Out := { cbs := [.error id consumers] }
            if ret.isEmpty then .ok (s3, out) else
            match s3.cancelTasks ret with
            | .error e => .error e
            | .ok (s4, out2) => .ok (s4, out.add out2)

/-! #### `task_running` -/

def State.taskRunning (s : State) (w : Nat) (id : TaskId) (rv : Nat) : M (State × Out) :=
  match s.task? id with
  | none => .ok (s, {})
  | some task =>
    let started (s' : State) (ws : List Nat) : M (State × Out) :=
      .ok (s', { cbs := [.started id task.inst ws rv] })
    match task.state with
    | .assigned w' rv' =>
      if w' ≠ w then .error (.panic "task_running.assert_worker") else
      if rv' ≠ rv then .error (.panic "task_running.assert_variant") else
      started (s.setTask { task with state := .running w rv }) [w]
    | .prefilled w' =>
      if w' ≠ w then .error (.panic "task_running.assert_worker") else
      match s.rq task.rq rv with
      | .error e => .error e
      | .ok r =>
        match (s.setTask { task with state := .running w rv }).withWorker w (·.prefilledToStarted id r) with
        | .error e => .error e
        | .ok s1 =>
          match s1.queueRemove task.rq id task.prio with
          | .error e => .error e
          | .ok s2 => started s2 [w]
    | .retracting w' =>
      if w' ≠ w then .error (.panic "task_running.assert_worker") else
      let s0 := ask (s.setTask { task with state := .running w rv })
      match s0.queueRemove task.rq id task.prio with
      | .error e => .error e
      | .ok s1 =>
        match s1.tryRemoveRedirection id task.rq with
        | .error e => .error e
        | .ok s2 =>
          match s2.rq task.rq rv with
          | .error e => .error e
          | .ok r =>
            match s2.withWorker w (·.insertSn id r) with
            | .error e => .error e
            | .ok s3 => started s3 [w]
    | .runningMN ws =>
      match ws with
      | root :: _ =>
        if root ≠ w then .error (.panic "task_running.assert_root") else
        match s.withWorker w (fun wk => match wk.assign with
            | .mn t r _ => .ok { wk with assign := .mn t r true }
            | _ => .ok wk) with
        | .error e => .error e
        | .ok s1 => started s1 ws
      | [] => .error (.panic "task_running.ws0")
    | .running .. | .waiting .. | .finished => .error (.panic "task_running.unreachable")

/-! #### `task_finished` -/

def resetMnChecked (s : State) (id : TaskId) : List Nat → M State
  | [] => .ok s
  | w :: rest =>
    match s.getWorker w with
    | .error e => .error e
    | .ok wk =>
      match wk.assign with
      | .mn t _ _ => if t ≠ id then .error (.panic "reset_mn_task_workers.assert") else resetMnChecked (s.setWorker wk.emptySn) id rest
      | _ => .error (.panic "reset_mn_task_workers.unwrap")

def State.wakeConsumers (s : State) : List TaskId → List TaskId → M (State × List TaskId)
  | [], retracted => .ok (s, retracted)
  | c :: rest, retracted =>
    match s.getTask c with
    | .error e => .error e
    | .ok t =>
      match t.state with
      | .waiting (n + 1) =>
        let t' := { t with state := .waiting n }
        let s1 := s.setTask t'
        if n = 0 then
          match s1.addReady t' with
          | .error e => .error e
          | .ok (s2, r) => State.wakeConsumers s2 rest (retracted ++ r)
        else State.wakeConsumers s1 rest retracted
      | _ => .error (.panic "decrease_unfinished_deps.invalid_state")

def State.taskFinished (s : State) (w : Nat) (id : TaskId) : M (State × Out × Bool) :=
  match s.task? id with
  | none => .ok (s, {}, false)
  | some task =>
    let pre : M State :=
      match task.state with
      | .assigned w' rv | .running w' rv =>
        if w' ≠ w then .error (.panic "task_finished.assert_worker") else
        match s.rq task.rq rv with
        | .error e => .error e
        | .ok r => s.withWorker w (·.removeSn id r)
      | .runningMN ws =>
        match ws with
        | root :: _ => if root ≠ w then .error (.panic "task_finished.assert_root") else resetMnChecked s id ws
        | [] => .error (.panic "task_finished.ws0")
      | .retracting w' =>
        if w' ≠ w then .error (.panic "task_finished.assert_worker") else s.tryRemoveRedirection id task.rq
      | .prefilled .. | .waiting .. | .finished => .error (.panic "task_finished.unreachable")
    match pre with
    | .error e => .error e
    | .ok s1 =>
      let s2 := s1.setTask { task with state := .finished }
      match s2.wakeConsumers task.consumers [] with
      | .error e => .error e
      | .ok (s3, retracted) =>
        match s3.retract retracted with
        | .error e => .error e
        | .ok (s4, out) =>
          match s4.removeTask id with
          | .error e => .error e
          | .ok (s5, st) =>
            if st ≠ .finished then .error (.panic "task_finished.assert_finished") else
            .ok (s5, ({ cbs := [.finished id] } : Out).add out, true)

/-! #### `task_reject` -/

def State.taskReject (s : State) (w : Nat) (id : TaskId) (rv : Option Nat) : M (State × Out × Bool) :=
  match s.task? id with
  | none => .ok (s, {}, false)
  | some task =>
    match s.getWorker w with
    | .error e => .error e
    | .ok wk0 =>
      let wk := match rv with
        | some v => { wk0 with blocked := if wk0.blocked.contains (task.rq, v) then wk0.blocked else wk0.blocked ++ [(task.rq, v)] }
        | none => wk0
      let s0 := s.setWorker wk
      let requeue (s' : State) : M (State × Out × Bool) :=
        let t' := { task with state := .waiting 0 }
        let s1 := s'.setTask t'
        match s1.addReady t' with
        | .error e => .error e
        | .ok (s2, retracted) =>
          match s2.retract retracted with
          | .error e => .error e
          | .ok (s3, out) => .ok (s3, out, true)
      match task.state with
      | .assigned w' rv' =>
        if w ≠ w' then requeue s0
        else if rv ≠ some rv' then requeue s0
        else
          match s0.rq task.rq rv' with
          | .error e => .error e
          | .ok r =>
            match s0.withWorker w (·.removeSn id r) with
            | .error e => .error e
            | .ok s1 => requeue s1
      | .prefilled _ =>
        match s0.withWorker w (·.removePrefill id) with
        | .error e => .error e
        | .ok s1 =>
          match s1.removePrefilled task.rq id with
          | .error e => .error e
          | .ok s2 => requeue s2
      | .retracting w' =>
        if w ≠ w' then .ok (s0, {}, false) else
        match s0.redirects.find? (·.1 = id) with
        | some (_, target, trv) =>
          let s1 := { s0 with redirects := s0.redirects.filter (·.1 ≠ id) }
          let t' := { task with state := .assigned target trv }
          .ok (s1.setTask t', { msgs := [.compute target [computeOne t' (some trv) []]] }, false)
        | none => requeue s0
      | .runningMN ws =>
        -- the root worker refuses a multi-node task that was placed on it; it has not started the task
        -- (fix of F32; before it this state was in the `unreachable!()` arm below)
        match ws with
        | [] => .error (.panic "task_reject.ws0")
        | root :: _ =>
          if w ≠ root then .ok (s0, {}, false) else
          match wk.assign with
          | .sn .. => .ok (s0, {}, false)
          | .mn _ _ started =>
            if started then .ok (s0, {}, false) else
            -- `reset_mn_task_workers`
            match resetMnChecked s0 id ws with
            | .error e => .error e
            | .ok s1 => requeue s1
      | .waiting .. | .running .. | .finished => .error (.panic "task_reject.unreachable")

/-- `request_enabled` -/
def State.requestEnabled (s : State) (w rq rv : Nat) : M State :=
  s.withWorker w fun wk => .ok { wk with blocked := wk.blocked.erase (rq, rv) }

/-! #### `on_task_update` -/

inductive Update where
  | finished (t : TaskId)
  | failed (t : TaskId)
  | running (t : TaskId) (rv : Nat)
  | runningPrefilled (t : TaskId) (rv : Nat)
  | reject (t : TaskId) (rv : Option Nat)
  | enable (rq rv : Nat)
  deriving Repr

def isPrefillUpdate : List Update → Bool
  | [.finished _, .runningPrefilled _ _] => true
  | _ => false

def State.updateLoop (s : State) (w : Nat) : List Update → List (List TaskId) → Out → Bool →
    M (State × Out × Bool × List (List TaskId))
  | [], rets, out, need => .ok (s, out, need, rets)
  | u :: rest, rets, out, need =>
    match u with
    | .finished t =>
      match s.taskFinished w t with
      | .error e => .error e
      | .ok (s1, o, n) => State.updateLoop s1 w rest rets (out.add o) (need || n)
    | .failed t =>
      -- the callback is only made when the task is known
      let (ret, rets') := if (s.task? t).isSome then (rets.headD [], rets.tail) else ([], rets)
      match s.taskFailed (some w) t ret with
      | .error e => .error e
      | .ok (s1, o) => State.updateLoop s1 w rest rets' (out.add o) true
    | .running t rv | .runningPrefilled t rv =>
      match s.taskRunning w t rv with
      | .error e => .error e
      | .ok (s1, o) => State.updateLoop s1 w rest rets (out.add o) need
    | .reject t rv =>
      match s.taskReject w t rv with
      | .error e => .error e
      | .ok (s1, o, n) => State.updateLoop s1 w rest rets (out.add o) (need || n)
    | .enable rq rv =>
      match s.requestEnabled w rq rv with
      | .error e => .error e
      | .ok s1 => State.updateLoop s1 w rest rets out true

def State.taskUpdate (s : State) (w : Nat) (us : List Update) (rets : List (List TaskId)) : M (State × Out) :=
  match s.updateLoop w us rets {} false with
  | .error e => .error e
  | .ok (s1, out, need, _) =>
    .ok (if need && !isPrefillUpdate us then ask s1 else s1, out)

/-! #### `on_retract_response` -/

def State.retractLoop (s : State) (w : Nat) : List TaskId → List (Nat × TaskId × Nat) → M (State × List (Nat × TaskId × Nat))
  | [], acc => .ok (s, acc)
  | id :: rest, acc =>
    match s.task? id with
    | none => State.retractLoop s w rest acc
    | some task =>
      if task.state ≠ .retracting w then State.retractLoop s w rest acc else
      match s.redirects.find? (·.1 = id) with
      | some (_, target, rv) =>
        let s1 := { s with redirects := s.redirects.filter (·.1 ≠ id) }
        State.retractLoop (s1.setTask { task with state := .assigned target rv }) w rest (acc ++ [(target, id, rv)])
      | none => State.retractLoop (s.setTask { task with state := .waiting 0 }) w rest acc

def computeItems (s : State) : List (Nat × TaskId × Nat) → M (List (TaskId × Nat × Option Nat × List Nat))
  | [] => .ok []
  | it :: rest =>
    match s.getTask it.2.1 with
    | .error e => .error e
    | .ok t =>
      match computeItems s rest with
      | .error e => .error e
      | .ok l => .ok (computeOne t (some it.2.2) [] :: l)

def groupComputeAux (s : State) (items : List (Nat × TaskId × Nat)) : List Nat → M (List Msg)
  | [] => .ok []
  | target :: rest =>
    match computeItems s (items.filter (·.1 = target)) with
    | .error e => .error e
    | .ok l =>
      match groupComputeAux s items rest with
      | .error e => .error e
      | .ok ms => .ok (Msg.compute target l :: ms)

def groupCompute (s : State) (items : List (Nat × TaskId × Nat)) : M (List Msg) :=
  groupComputeAux s items (items.map (·.1)).eraseDups

def State.retractResponse (s : State) (w : Nat) (ids : List TaskId) : M (State × Out) :=
  match s.retractLoop w ids [] with
  | .error e => .error e
  | .ok (s1, items) =>
    match groupCompute s1 items with
    | .error e => .error e
    | .ok msgs => .ok (s1, { msgs := msgs })

/-! #### `on_remove_worker` -/

/-- the loop over the lost worker's prefilled tasks -/
def State.lostPrefilled (s : State) : List TaskId → M State
  | [] => .ok s
  | id :: rest =>
    match s.getTask id with
    | .error e => .error e
    | .ok task =>
      let s1 := s.setTask { task with inst := task.inst + 1, state := .waiting 0 }
      match s1.movePrefilledToReady task.rq id with
      | .error e => .error e
      | .ok s2 => State.lostPrefilled s2 rest

/-- the loop over the lost worker's assigned tasks (in the order the implementation iterated: `order`) -/
def State.lostAssigned (s : State) : List TaskId → List TaskId → List TaskId → M (State × List TaskId × List TaskId)
  | [], running, retracted => .ok (s, running, retracted)
  | id :: rest, running, retracted =>
    match s.getTask id with
    | .error e => .error e
    | .ok task =>
      let step (s' : State) (t' : Task) (running' : List TaskId) : M (State × List TaskId × List TaskId) :=
        let t'' := { t' with inst := t'.inst + 1 }
        let s1 := s'.setTask t''
        match s1.addReady t'' with
        | .error e => .error e
        | .ok (s2, r) => State.lostAssigned s2 rest running' (retracted ++ r)
      match task.state with
      | .running .. => step s { task with state := .waiting 0 } (running ++ [id])
      | .retracting _ =>
        if !(s.redirects.any (·.1 = id)) then .error (.panic "on_remove_worker.assert_redirect") else
        step { s with redirects := s.redirects.filter (·.1 ≠ id) } task running
      | _ => step s { task with state := .waiting 0 } running

/-- tasks that were being retracted from the lost worker -/
def State.lostRetracting (s : State) (w : Nat) : List Task → Out → M (State × Out)
  | [], out => .ok (s, out)
  | t0 :: rest, out =>
    match s.task? t0.id with
    | none => State.lostRetracting s w rest out
    | some task0 =>
      if task0.state ≠ .retracting w then State.lostRetracting s w rest out else
      let task := { task0 with inst := task0.inst + 1 }
      match s.redirects.find? (·.1 = task.id) with
      | some (_, target, rv) =>
        let s1 := { s with redirects := s.redirects.filter (·.1 ≠ task.id) }
        let t' := { task with state := .assigned target rv }
        State.lostRetracting (s1.setTask t') w rest (out.add { msgs := [.compute target [computeOne t' (some rv) []]] })
      | none => State.lostRetracting (s.setTask { task with state := .waiting 0 }) w rest out

/-- `Task::increment_crash_counter` + the `NeverRestart` test of `on_remove_worker`, as a decision table:
new crash counter and whether the task is failed because of this loss -/
def crashOutcome (limit : CrashLimit) (isFailure : Bool) (crashes : Nat) : Nat × Bool :=
  match limit with
  | .never => (crashes, true)
  | .max n => if isFailure then (crashes + 1, decide (crashes + 1 ≥ n)) else (crashes, false)
  | .unlimited => if isFailure then (crashes + 1, false) else (crashes, false)

/-- the crash-limit loop -/
def State.crashLoop (s : State) (isFailure : Bool) : List TaskId → List (List TaskId) → Out → M (State × Out)
  | [], _, out => .ok (s, out)
  | id :: rest, rets, out =>
    match s.task? id with
    | none => State.crashLoop s isFailure rest rets out
    | some task =>
      let (crashes', fails) := crashOutcome task.crashLimit isFailure task.crashes
      let s1 := s.setTask { task with crashes := crashes' }
      if fails then
        match s1.taskFailed none id (rets.headD []) with
        | .error e => .error e
        | .ok (s2, o) => State.crashLoop s2 isFailure rest rets.tail (out.add o)
      else State.crashLoop s1 isFailure rest rets out

/-- `on_remove_worker`. `order` = iteration order of the lost worker's `assigned_tasks`
(a hash set in the implementation; it fixes the order of the running list and of the crash loop). -/
def State.removeWorker (s : State) (w : Nat) (reason : String) (isFailure : Bool) (order : List TaskId)
    (rets : List (List TaskId)) : M (State × Out) :=
  match s.worker? w with
  | none => .error (.panic "remove_worker.get_worker")
  | some wk =>
    let s0 := { s with workers := s.workers.filter (·.id ≠ w) }
    let part1 : M (State × List TaskId × List TaskId) :=
      match wk.assign with
      | .sn assigned _ prefilled =>
        -- `order` must be a permutation of `assigned`
        if !(order.all assigned.contains && assigned.all order.contains && order.length = assigned.length) then
          .error (.panic "!bad-choice order")
        else
          match s0.lostPrefilled prefilled with
          | .error e => .error e
          | .ok s1 => s1.lostAssigned order [] []
      | .mn tid _ mnStarted =>
        match s0.getTask tid with
        | .error e => .error e
        | .ok task =>
          match task.state with
          | .runningMN ws =>
            match ws with
            | root :: others =>
              if root = w then
                match resetMnAll s0 others with
                | .error e => .error e
                | .ok s1 =>
                  let t' := { task with state := .waiting 0, inst := task.inst + 1 }
                  let s2 := s1.setTask t'
                  match s2.addReady t' with
                  | .error e => .error e
                  | .ok (s3, r) => .ok (s3, if mnStarted then [tid] else [], r)
              else .ok (s0.setTask { task with state := .runningMN (ws.filter (· ≠ w)) }, [], [])
            | [] => .error (.panic "on_remove_worker.ws0")
          | _ => .error (.panic "on_remove_worker.unreachable")
    match part1 with
    | .error e => .error e
    | .ok (s1, running, retracted) =>
      match s1.lostRetracting w s1.tasks {} with
      | .error e => .error e
      | .ok (s2, out1) =>
        match s2.retract retracted with
        | .error e => .error e
        | .ok (s3, out2) =>
          let out3 : Out := { cbs := [.workerLost w running reason] }
          match s3.crashLoop isFailure running rets ((out1.add out2).add out3) with
          | .error e => .error e
          | .ok (s4, out) => .ok (ask s4, out)

end HqModel.Core
