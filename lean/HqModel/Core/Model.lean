/-!
M1 — the tako server core as coded in `crates/tako/src/internal/server/{reactor,core,task,worker,workerload}.rs`
and `scheduler/{taskqueue,mapping}.rs` (pinned tree + the `fix:` commits recorded in KNOWN_FINDINGS.jsonl).

* ids are `Nat`, a task id is `(job, task)`; resource amounts are `Nat` in 1/10000 units;
* hash sets/maps are lists (membership only; printers sort), ordered containers (`BTreeMap`/`BTreeSet`) are
  sorted lists;
* every place where the real code's result depends on hash iteration order or on the MILP solver takes the
  observed choice as an input (`Choice`), validated where a theorem needs it (`Sched.lean`);
* every `panic!/unreachable!/assert!/unwrap/get_task` on these paths is `Stop.panic site`;
* the client callback `on_task_error` returns the list of tasks to cancel (max-fails); in this model the
  returned lists are inputs (`rets`), consumed in call order.
-/
namespace HqModel.Core

abbrev TaskId := Nat × Nat

inductive Policy where
  | amount (a : Nat)
  | all
  deriving DecidableEq, Repr, Inhabited

structure RqEntry where
  res : Nat
  pol : Policy
  deriving DecidableEq, Repr, Inhabited

/-- one resource request variant -/
structure Rq where
  nNodes : Nat := 0
  entries : List RqEntry := []
  minTime : Nat := 0
  deriving DecidableEq, Repr, Inhabited

abbrev Rqv := List Rq

inductive CrashLimit where
  | never | max (n : Nat) | unlimited
  deriving DecidableEq, Repr, Inhabited

/-- `TaskRuntimeState` -/
inductive TS where
  | waiting (deps : Nat)
  | assigned (w rv : Nat)
  | prefilled (w : Nat)
  | retracting (w : Nat)
  | running (w rv : Nat)
  | runningMN (ws : List Nat)
  | finished
  deriving DecidableEq, Repr, Inhabited

structure Task where
  id : TaskId
  state : TS := .waiting 0
  consumers : List TaskId := []
  deps : List TaskId := []
  rq : Nat := 0
  prio : Int := 0
  crashLimit : CrashLimit := .max 5
  inst : Nat := 0
  crashes : Nat := 0
  deriving Repr, Inhabited

/-- `WorkerAssignment` -/
inductive Assign where
  | sn (assigned : List TaskId) (free : List Nat) (prefilled : List TaskId)
  | mn (task : TaskId) (root : Bool) (started : Bool)
  deriving Repr, Inhabited

structure Worker where
  id : Nat
  assign : Assign
  total : List Nat
  blocked : List (Nat × Nat) := []
  group : String := "default"
  /-- `termination_time` in ms relative to the harness epoch -/
  termination : Option Nat := none
  stopping : Bool := false
  deriving Repr, Inhabited

/-- `TaskQueue`: `ready` is sorted by descending priority, every id list is ascending and non-empty -/
structure Queue where
  ready : List (Int × List TaskId) := []
  prefill : Option (Int × List TaskId) := none
  deriving Repr, Inhabited

structure State where
  tasks : List Task := []
  workers : List Worker := []
  rqs : List Rqv := []
  queues : List Queue := []
  redirects : List (TaskId × Nat × Nat) := []
  needSched : Bool := false
  prefillReserve : Nat := 1
  prefillMax : Nat := 1
  deriving Repr, Inhabited

inductive Stop where
  | panic (site : String)
  deriving Repr, DecidableEq

/-- messages to workers that matter for the properties -/
inductive Msg where
  /-- (task, instance, variant or none = prefill, node list) -/
  | compute (w : Nat) (tasks : List (TaskId × Nat × Option Nat × List Nat))
  | retract (w : Nat) (ids : List TaskId)
  | cancel (w : Nat) (ids : List TaskId)
  deriving Repr

/-- client callbacks -/
inductive Cb where
  | started (t : TaskId) (inst : Nat) (ws : List Nat) (rv : Nat)
  | finished (t : TaskId)
  | error (t : TaskId) (consumers : List TaskId)
  | workerNew (w : Nat)
  | workerLost (w : Nat) (running : List TaskId) (reason : String)
  deriving Repr

structure Out where
  msgs : List Msg := []
  cbs : List Cb := []
  deriving Repr

def Out.add (a b : Out) : Out := { msgs := a.msgs ++ b.msgs, cbs := a.cbs ++ b.cbs }

abbrev M := Except Stop

/-! ### ordered ids -/

def tidLt (a b : TaskId) : Bool := a.1 < b.1 || (a.1 == b.1 && a.2 < b.2)

def insertTid (x : TaskId) : List TaskId → List TaskId
  | [] => [x]
  | y :: ys => if x = y then y :: ys else if tidLt x y then x :: y :: ys else y :: insertTid x ys

/-! ### tasks -/

def findTask : List Task → TaskId → Option Task
  | [], _ => none
  | t :: rest, id => if t.id = id then some t else findTask rest id

def putTask : List Task → Task → List Task
  | [], _ => []
  | x :: rest, t => if x.id = t.id then t :: putTask rest t else x :: putTask rest t

def eraseTask : List Task → TaskId → List Task
  | [], _ => []
  | x :: rest, id => if x.id = id then rest else x :: eraseTask rest id

def State.task? (s : State) (id : TaskId) : Option Task := findTask s.tasks id
def State.setTask (s : State) (t : Task) : State := { s with tasks := putTask s.tasks t }

/-- `get_task`/`get_task_mut` -/
def State.getTask (s : State) (id : TaskId) : M Task :=
  match s.task? id with
  | some t => .ok t
  | none => .error (.panic "get_task")

/-! ### workers -/

def findWorker : List Worker → Nat → Option Worker
  | [], _ => none
  | w :: rest, id => if w.id = id then some w else findWorker rest id

def putWorker : List Worker → Worker → List Worker
  | [], _ => []
  | x :: rest, w => if x.id = w.id then w :: putWorker rest w else x :: putWorker rest w

def State.worker? (s : State) (id : Nat) : Option Worker := findWorker s.workers id
def State.setWorker (s : State) (w : Worker) : State := { s with workers := putWorker s.workers w }

def State.getWorker (s : State) (id : Nat) : M Worker :=
  match s.worker? id with
  | some w => .ok w
  | none => .error (.panic "get_worker")

def getD (l : List Nat) (i : Nat) : Nat := l.getD i 0

def setAt (l : List Nat) (i : Nat) (v : Nat) : List Nat := l.set i v

/-- `WorkerResources::remove` (saturating) -/
def freeRemove (free : List Nat) : List RqEntry → M (List Nat)
  | [] => .ok free
  | e :: rest =>
    if e.res ≥ free.length then .error (.panic "workerload.index") else
    match e.pol with
    | .amount a => freeRemove (setAt free e.res (getD free e.res - a)) rest
    | .all => freeRemove (setAt free e.res 0) rest

/-- `WorkerResources::add` -/
def freeAdd (free total : List Nat) : List RqEntry → M (List Nat)
  | [] => .ok free
  | e :: rest =>
    if e.res ≥ free.length then .error (.panic "workerload.index") else
    match e.pol with
    | .amount a => freeAdd (setAt free e.res (getD free e.res + a)) total rest
    | .all => freeAdd (setAt free e.res (getD total e.res)) total rest

def State.rq (s : State) (rq rv : Nat) : M Rq :=
  match s.rqs[rq]? with
  | none => .error (.panic "request_map.get")
  | some rqv =>
    match rqv[rv]? with
    | none => .error (.panic "rqv.get")
    | some r => .ok r

def State.isMultiNode (s : State) (rq : Nat) : Bool :=
  match s.rqs[rq]? with
  | some (r :: _) => r.nNodes > 0
  | _ => false

/-- `Worker::insert_sn_task` -/
def Worker.insertSn (w : Worker) (t : TaskId) (r : Rq) : M Worker :=
  match w.assign with
  | .sn assigned free pre =>
    match freeRemove free r.entries with
    | .error e => .error e
    | .ok free' =>
      if assigned.contains t then .error (.panic "insert_sn_task.assert") else
      .ok { w with assign := .sn (assigned ++ [t]) free' pre }
  | .mn _ _ _ => .error (.panic "insert_sn_task.unreachable")

/-- `Worker::remove_sn_task` -/
def Worker.removeSn (w : Worker) (t : TaskId) (r : Rq) : M Worker :=
  match w.assign with
  | .sn assigned free pre =>
    if !assigned.contains t then .error (.panic "remove_sn_task.assert") else
    match freeAdd free w.total r.entries with
    | .error e => .error e
    | .ok free' => .ok { w with assign := .sn (assigned.erase t) free' pre }
  | .mn _ _ _ => .error (.panic "remove_sn_task.unreachable")

def Worker.insertPrefill (w : Worker) (t : TaskId) : M Worker :=
  match w.assign with
  | .sn assigned free pre =>
    if pre.contains t then .error (.panic "insert_prefill_task.assert") else
    .ok { w with assign := .sn assigned free (pre ++ [t]) }
  | .mn _ _ _ => .error (.panic "insert_prefill_task.unreachable")

def Worker.removePrefill (w : Worker) (t : TaskId) : M Worker :=
  match w.assign with
  | .sn assigned free pre =>
    if !pre.contains t then .error (.panic "remove_prefill_task.assert") else
    .ok { w with assign := .sn assigned free (pre.erase t) }
  | .mn _ _ _ => .error (.panic "remove_prefill_task.unreachable")

/-- `Worker::task_from_prefilled_to_started` -/
def Worker.prefilledToStarted (w : Worker) (t : TaskId) (r : Rq) : M Worker :=
  match w.assign with
  | .sn assigned free pre =>
    if !pre.contains t then .error (.panic "task_from_prefilled_to_started.assert1") else
    if assigned.contains t then .error (.panic "task_from_prefilled_to_started.assert2") else
    match freeRemove free r.entries with
    | .error e => .error e
    | .ok free' => .ok { w with assign := .sn (assigned ++ [t]) free' (pre.erase t) }
  | .mn _ _ _ => .error (.panic "task_from_prefilled_to_started.unreachable")

def Worker.isFree (w : Worker) : Bool :=
  (match w.assign with
   | .sn assigned _ pre => assigned.isEmpty && pre.isEmpty
   | .mn _ _ _ => false) && !w.stopping

def Worker.emptySn (w : Worker) : Worker := { w with assign := .sn [] w.total [] }

/-- `Worker::set_mn_task` -/
def Worker.setMn (w : Worker) (t : TaskId) (root : Bool) : M Worker :=
  if !w.isFree then .error (.panic "set_mn_task.assert") else .ok { w with assign := .mn t root false }

/-- state-level wrappers -/
def State.withWorker (s : State) (id : Nat) (f : Worker → M Worker) : M State :=
  match s.getWorker id with
  | .error e => .error e
  | .ok w =>
    match f w with
    | .error e => .error e
    | .ok w' => .ok (s.setWorker w')

/-! ### task queues (`scheduler/taskqueue.rs`) -/

def readyAdd (ready : List (Int × List TaskId)) (t : TaskId) (p : Int) : List (Int × List TaskId) :=
  match ready with
  | [] => [(p, [t])]
  | (q, ids) :: rest =>
    if p = q then (q, insertTid t ids) :: rest
    else if p > q then (p, [t]) :: (q, ids) :: rest
    else (q, ids) :: readyAdd rest t p

def readyAddMany (ready : List (Int × List TaskId)) (ts : List TaskId) (p : Int) : List (Int × List TaskId) :=
  ts.foldl (fun r t => readyAdd r t p) ready

def readyRemove (ready : List (Int × List TaskId)) (t : TaskId) (p : Int) : List (Int × List TaskId) :=
  match ready with
  | [] => []
  | (q, ids) :: rest =>
    if p = q then
      let ids' := ids.erase t
      if ids'.isEmpty then rest else (q, ids') :: rest
    else (q, ids) :: readyRemove rest t p

/-- `TaskQueue::remove` -/
def Queue.remove (q : Queue) (t : TaskId) (p : Int) : Queue :=
  match q.prefill with
  | some (pp, ts) =>
    if p = pp && ts.contains t then { q with prefill := some (pp, ts.erase t) }
    else { q with ready := readyRemove q.ready t p }
  | none => { q with ready := readyRemove q.ready t p }

/-- `TaskQueue::check_dispose_prefill`: returns the retracted ids -/
def Queue.checkDispose (q : Queue) (p : Int) : Queue × List TaskId :=
  match q.prefill with
  | some (pp, ts) =>
    if pp < p then ({ ready := readyAddMany q.ready ts pp, prefill := none }, ts) else (q, [])
  | none => (q, [])

def disposeAll : List Queue → Int → List Queue × List TaskId
  | [], _ => ([], [])
  | q :: rest, p =>
    let (q', r1) := q.checkDispose p
    let (rest', r2) := disposeAll rest p
    (q' :: rest', r1 ++ r2)

def modifyQueue (qs : List Queue) (i : Nat) (f : Queue → Queue) : List Queue :=
  match qs[i]? with
  | some q => qs.set i (f q)
  | none => qs

/-- `TaskQueues::add_ready_task`: returns the ids whose prefill was disposed (to be retracted) -/
def State.addReady (s : State) (t : Task) : M (State × List TaskId) :=
  if t.rq ≥ s.queues.length then .error (.panic "task_queues.index") else
  let (qs, retracted) := disposeAll s.queues t.prio
  .ok ({ s with queues := modifyQueue qs t.rq fun q => { q with ready := readyAdd q.ready t.id t.prio } }, retracted)

def State.queueRemove (s : State) (rq : Nat) (t : TaskId) (p : Int) : M State :=
  if rq ≥ s.queues.length then .error (.panic "task_queues.index") else
  .ok { s with queues := modifyQueue s.queues rq fun q => q.remove t p }

/-- `TaskQueue::remove_prefilled` -/
def State.removePrefilled (s : State) (rq : Nat) (t : TaskId) : M State :=
  match s.queues[rq]? with
  | none => .error (.panic "task_queues.index")
  | some q =>
    match q.prefill with
    | none => .error (.panic "remove_prefilled.unwrap")
    | some (pp, ts) =>
      if !ts.contains t then .error (.panic "remove_prefilled.assert") else
      let ts' := ts.erase t
      .ok { s with queues := s.queues.set rq { q with prefill := if ts'.isEmpty then none else some (pp, ts') } }

/-- `TaskQueue::move_prefilled_task_to_ready` -/
def State.movePrefilledToReady (s : State) (rq : Nat) (t : TaskId) : M State :=
  match s.queues[rq]? with
  | none => .error (.panic "task_queues.index")
  | some q =>
    match q.prefill with
    | none => .error (.panic "move_prefilled_task_to_ready.unwrap")
    | some (pp, ts) =>
      if !ts.contains t then .error (.panic "move_prefilled_task_to_ready.assert") else
      let ts' := ts.erase t
      let q' : Queue := { ready := readyAdd q.ready t pp, prefill := if ts'.isEmpty then none else some (pp, ts') }
      .ok { s with queues := s.queues.set rq q' }

/-! ### reactor helpers -/

def groupByWorker (pairs : List (Nat × TaskId)) : List (Nat × List TaskId) :=
  pairs.foldl (fun acc (p : Nat × TaskId) =>
    if acc.any (·.1 == p.1) then acc.map fun a => if a.1 == p.1 then (a.1, a.2 ++ [p.2]) else a
    else acc ++ [(p.1, [p.2])]) []

/-- `process_retracted` -/
def State.processRetracted (s : State) : List TaskId → List (Nat × TaskId) → M (State × List (Nat × TaskId))
  | [], acc => .ok (s, acc)
  | t :: rest, acc =>
    match s.getTask t with
    | .error e => .error e
    | .ok task =>
      match task.state with
      | .prefilled w =>
        match s.withWorker w (·.removePrefill t) with
        | .error e => .error e
        | .ok s1 => State.processRetracted (s1.setTask { task with state := .retracting w }) rest (acc ++ [(w, t)])
      | _ => .error (.panic "process_retracted.unreachable")

def State.retract (s : State) (retracted : List TaskId) : M (State × Out) :=
  match s.processRetracted retracted [] with
  | .error e => .error e
  | .ok (s', pairs) => .ok (s', { msgs := (groupByWorker pairs).map fun p => .retract p.1 p.2 })

/-- `try_remove_redirection` -/
def State.tryRemoveRedirection (s : State) (t : TaskId) (rq : Nat) : M State :=
  match s.redirects.find? (·.1 = t) with
  | none => .ok s
  | some (_, w, rv) =>
    let s1 := { s with redirects := s.redirects.filter (·.1 ≠ t) }
    match s1.rq rq rv with
    | .error e => .error e
    | .ok r => s1.withWorker w (·.removeSn t r)

/-- `Core::remove_task` -/
def removeConsumer (tasks : List Task) (dep : TaskId) (c : TaskId) : M (List Task) :=
  match findTask tasks dep with
  | none => .ok tasks
  | some d =>
    if !d.consumers.contains c then .error (.panic "remove_task.assert_consumer")
    else .ok (putTask tasks { d with consumers := d.consumers.erase c })

def removeConsumers (tasks : List Task) (c : TaskId) : List TaskId → M (List Task)
  | [] => .ok tasks
  | d :: rest =>
    match removeConsumer tasks d c with
    | .error e => .error e
    | .ok tasks' => removeConsumers tasks' c rest

def State.removeTask (s : State) (id : TaskId) : M (State × TS) :=
  match s.task? id with
  | none => .error (.panic "remove_task.expect")
  | some task =>
    let s0 := { s with tasks := eraseTask s.tasks id }
    match task.state with
    | .waiting n =>
      match s0.queueRemove task.rq id task.prio with
      | .error e => .error e
      | .ok s1 =>
        if n > 0 then
          match removeConsumers s1.tasks id task.deps with
          | .error e => .error e
          | .ok ts => .ok ({ s1 with tasks := ts }, task.state)
        else .ok (s1, task.state)
    | .retracting _ =>
      match s0.queueRemove task.rq id task.prio with
      | .error e => .error e
      | .ok s1 => .ok (s1, task.state)
    | _ => .ok (s0, task.state)

/-- `Task::collect_recursive_consumers` (fuel = number of tasks: every task is visited at most once) -/
def collectConsumers (tasks : List Task) : Nat → List TaskId → List TaskId → M (List TaskId)
  | 0, _, out => .ok out
  | _, [], out => .ok out
  | fuel + 1, t :: stack, out =>
    match findTask tasks t with
    | none => .error (.panic "get_task")
    | some task =>
      let new := task.consumers.filter fun c => !out.contains c && !stack.contains c
      collectConsumers tasks fuel (stack ++ new) (out ++ new.eraseDups)

def State.recursiveConsumers (s : State) (task : Task) : M (List TaskId) :=
  let first := task.consumers.eraseDups
  collectConsumers s.tasks (s.tasks.length + 1) first first

def computeOne (t : Task) (rv : Option Nat) (nodes : List Nat) : TaskId × Nat × Option Nat × List Nat :=
  (t.id, t.inst, rv, nodes)

end HqModel.Core
