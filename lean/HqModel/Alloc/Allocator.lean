import HqModel.Alloc.Solver
/-!
M3 Alloc — `ResourceAllocator` (`crates/tako/src/internal/worker/resources/allocator.rs`).

The choices the implementation resolved during one operation are an input (`Choices`): the answers of the
`group_solver` calls in call order, and per resource id the index that `best_fraction_match` returned.
-/
namespace HqModel.Alloc

structure Choices where
  sols : List (Option SolRec)
  picks : List (Nat × Nat)
  deriving Repr

def Choices.pick (ch : Choices) (rid : Nat) : Option Nat := fget ch.picks rid

/-- descriptor: items `(resource id, kind)` in descriptor order, coupling items
`(resource1_idx, group1_idx, resource2_idx, group2_idx, weight)` with indices into the item list -/
structure Descriptor where
  items : List (Nat × Kind)
  couplings : List (Nat × Nat × Nat × Nat × Nat)
  deriving Repr

structure State where
  pools : List Pool
  /-- `free_resources` -/
  concise : List CState
  /-- `static_info.all_resources` -/
  allFree : List CState
  /-- `static_info.coupling_weights` -/
  weights : List Weight
  /-- `static_info.optional_objectives` (scaled) -/
  cache : List (Request × Int)
  /-- the allocations handed out and not yet released (kept by the caller of the allocator), by handle -/
  live : List (Nat × Allocation)
  deriving Repr

def placeItems : List Pool → List (Nat × Kind) → List Pool
  | ps, [] => ps
  | ps, (rid, k) :: rest => placeItems (ps.set rid (Pool.new k)) rest

/-- `ResourceAllocator::new`; `none`: "Allocator needs at least one resource" / an item index out of range -/
def State.init (d : Descriptor) : Option State :=
  match d.items with
  | [] => none
  | _ =>
    let maxId := (d.items.map (·.1)).foldl max 0
    let pools := placeItems (List.replicate (maxId + 1) Pool.empty) d.items
    let concise := pools.map Pool.conciseState
    let ws := d.couplings.mapM (fun (i1, g1, i2, g2, w) =>
      match d.items[i1]?, d.items[i2]? with
      | some (r1, _), some (r2, _) => some (⟨r1, g1, r2, g2, w⟩ : Weight)
      | _, _ => none)
    match ws with
    | none => none
    | some ws => some { pools, concise, allFree := concise, weights := ws, cache := [], live := [] }

/-- the per-entry part of `has_resources_for_request` -/
def entryHasResources (pools : List Pool) (free : List CState) (e : Entry) : Bool :=
  match pools[e.rid]? with
  | none => false
  | some pool =>
    let maxAlloc := (free[e.rid]?.getD []).maxAlloc
    match e.policy with
    | .all => maxAlloc == pool.fullSize
    | _ => decide (e.amount ≤ maxAlloc)

/-- entries that go through the group solver -/
def coupledEntries (pools : List Pool) (rq : Request) : List Entry :=
  rq.filter (fun e => ((pools[e.rid]?.map Pool.isGroups).getD false) && e.policy.relevantForCoupling)

def cacheGet : List (Request × Int) → Request → Option Int
  | [], _ => none
  | (k, v) :: m, rq => if k = rq then some v else cacheGet m rq

/-- `has_resources_for_request`; returns the answer, the (possibly extended) cache and the unused solver records -/
def hasResources (s : State) (rq : Request) (sols : List (Option SolRec)) :
    Except Stop (Bool × List (Request × Int) × List (Option SolRec)) :=
  if !rq.all (entryHasResources s.pools s.concise) then .ok (false, s.cache, sols) else
  let coupled := coupledEntries s.pools rq
  if coupled.all (fun e => !e.policy.forced) then .ok (true, s.cache, sols) else
  match sols with
  | [] => .error .badChoice
  | r1 :: sols1 =>
    match groupSolver s.concise coupled s.weights r1 with
    | .error e => .error e
    | .ok none => .ok (false, s.cache, sols1)
    | .ok (some cur) =>
      match cacheGet s.cache rq with
      | some cost => .ok (decide (cost ≤ cur.obj), s.cache, sols1)
      | none =>
        match sols1 with
        | [] => .error .badChoice
        | r2 :: sols2 =>
          match groupSolver s.allFree coupled s.weights r2 with
          | .error e => .error e
          | .ok none => .error (.panic .unwrap)
          | .ok (some best) =>
            let cost := best.obj - strictMargin
            .ok (decide (cost ≤ cur.obj), (rq, cost) :: s.cache, sols2)

def setPool (pools : List Pool) (rid : Nat) (p : Pool) : List Pool := pools.set rid p

/-- first loop of `claim_resources`: the entries that are not coupled are claimed in request order -/
def claimPlain (picks : Choices) : List Pool → Request → Allocation → Except Stop (List Pool × Allocation)
  | pools, [], al => .ok (pools, al)
  | pools, e :: es, al =>
    match pools[e.rid]? with
    | none => .error (.panic .unwrap)
    | some pool =>
      if pool.isGroups && e.policy.relevantForCoupling then claimPlain picks pools es al
      else
        match pool.claim e (picks.pick e.rid) with
        | .error er => .error er
        | .ok (pool', ra) => claimPlain picks (setPool pools e.rid pool') es (al ++ [ra])

/-- second loop: `coupling.into_iter().zip(groups)` -/
def claimCoupled (picks : Choices) : List Pool → List Entry → List (List Nat) → Allocation →
    Except Stop (List Pool × Allocation)
  | pools, e :: es, set :: sets, al =>
    match pools[e.rid]? with
    | none => .error (.panic .oob)
    | some pool =>
      match pool.claimWithMask e set (picks.pick e.rid) with
      | .error er => .error er
      | .ok (pool', ra) => claimCoupled picks (setPool pools e.rid pool') es sets (al ++ [ra])
  | pools, _, _, al => .ok (pools, al)

/-- `normalize_allocation`: sort by resource id (stable insertion sort; ids are unique in valid requests) -/
def insertRa (x : RAlloc) : Allocation → Allocation
  | [] => [x]
  | y :: ys => if x.rid < y.rid then x :: y :: ys else y :: insertRa x ys

def normalize (al : Allocation) : Allocation := al.foldr insertRa []

/-- `claim_resources` -/
def claimResources (s : State) (rq : Request) (ch : Choices) (sols : List (Option SolRec)) :
    Except Stop (List Pool × Allocation × List (Option SolRec)) :=
  match claimPlain ch s.pools rq [] with
  | .error e => .error e
  | .ok (pools1, al1) =>
    let coupled := coupledEntries s.pools rq
    if coupled.isEmpty then .ok (pools1, al1, sols) else
    match sols with
    | [] => .error .badChoice
    | r :: sols' =>
      match groupSolver s.concise coupled s.weights r with
      | .error e => .error e
      | .ok none => .error (.panic .unwrap)
      | .ok (some sol) =>
        match claimCoupled ch pools1 coupled sol.sets al1 with
        | .error e => .error e
        | .ok (pools2, al2) => .ok (pools2, normalize al2, sols')

/-- `is_enabled` (the state changes only in the cache). Every recorded solver answer must be consumed. -/
def isEnabled (s : State) (rq : Request) (ch : Choices) : Except Stop (Bool × State) :=
  match hasResources s rq ch.sols with
  | .error e => .error e
  | .ok (b, cache, []) => .ok (b, { s with cache := cache })
  | .ok (_, _, _ :: _) => .error .badChoice

/-- `try_allocate`; `h` is the handle under which the caller keeps the allocation -/
def tryAllocate (s : State) (h : Nat) (rq : Request) (ch : Choices) : Except Stop (Option Allocation × State) :=
  match hasResources s rq ch.sols with
  | .error e => .error e
  | .ok (false, cache, []) => .ok (none, { s with cache := cache })
  | .ok (false, _, _ :: _) => .error .badChoice
  | .ok (true, cache, sols1) =>
    match claimResources s rq ch sols1 with
    | .error e => .error e
    | .ok (_, _, _ :: _) => .error .badChoice
    | .ok (pools, al, []) =>
      match conciseRemove s.concise al with
      | .error e => .error e
      | .ok concise => .ok (some al, { s with pools, concise, cache, live := (h, al) :: s.live })

def releasePools : List Pool → Allocation → Except Stop (List Pool)
  | pools, [] => .ok pools
  | pools, ra :: ras =>
    match pools[ra.rid]? with
    | none => .error (.panic .oob)
    | some pool =>
      match pool.release ra with
      | .error e => .error e
      | .ok pool' => releasePools (setPool pools ra.rid pool') ras

def liveGet : List (Nat × Allocation) → Nat → Option Allocation
  | [], _ => none
  | (k, v) :: m, h => if k = h then some v else liveGet m h

def liveErase : List (Nat × Allocation) → Nat → List (Nat × Allocation)
  | [], _ => []
  | (k, v) :: m, h => if k = h then m else (k, v) :: liveErase m h

/-- `release_allocation` of the live allocation with handle `h` (`none`: no such live allocation — the operation
is not enabled) -/
def release (s : State) (h : Nat) : Option (Except Stop State) :=
  match liveGet s.live h with
  | none => none
  | some al =>
    some <|
      match conciseAdd s.concise al with
      | .error e => .error e
      | .ok concise =>
        match releasePools s.pools al with
        | .error e => .error e
        | .ok pools => .ok { s with pools, concise, live := liveErase s.live h }

end HqModel.Alloc
