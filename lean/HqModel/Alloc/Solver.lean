import HqModel.Alloc.Concise
/-!
M3 Alloc — the `group_solver` MILP (`crates/tako/src/internal/worker/resources/groups.rs`) as data.

HiGHS is not modelled. The group sets it returned are a choice input; `solverAllowed` checks that they are feasible
for the modelled constraints, that the reported objective value is the objective of these sets, and that it is optimal
up to the solver's termination tolerance (HiGHS default `mip_rel_gap = 1e-4`: an incumbent is returned as soon as
`(bound - incumbent) / |incumbent| ≤ 1e-4`), against the brute-force optimum over all subsets (group counts are small
in generated cases). The tolerance is observable: with a coupling weight of 1024 (= the cost of one group) HiGHS does
return two coupled groups where one uncoupled group is better by 3/32.

Objective values are scaled by `objScale = 20000` so that every coefficient is an integer:
`-1024 - u/32 ↦ -(1024*20000) - 625 u`, `-1024 + f/(10000/16) ↦ -(1024*20000) + 32 f`, coupling weight `w ↦ 20000 w`,
the margin `0.1 ↦ 2000`.
-/
namespace HqModel.Alloc

def objScale : Nat := 20000
def groupCost : Int := 1024 * 20000
/-- the `cost -= 0.1` margin of `optional_objectives`, scaled -/
def strictMargin : Int := 2000

/-- `CouplingWeightItem` (resource ids already resolved) -/
structure Weight where
  r1 : Nat
  g1 : Nat
  r2 : Nat
  g2 : Nat
  weight : Nat
  deriving Repr, DecidableEq

/-- per group of one coupled entry: objective coefficient, coefficient in the first and in the second constraint -/
structure GCoef where
  obj : Int
  c1 : Nat
  c2 : Nat
  deriving Repr, DecidableEq

/-- the variables and constraints `group_solver` creates for one entry -/
structure EntryLp where
  coefs : List GCoef
  /-- right-hand side of the first constraint -/
  rhs1 : Nat
  /-- right-hand side of the second constraint (0 when it is not generated) -/
  rhs2 : Nat
  deriving Repr, DecidableEq

def entryLp (c : CState) (amount : Nat) : EntryLp :=
  let units := amount / FPU
  let fr := amount % FPU
  if fr = 0 then
    { coefs := c.map (fun g => ⟨-groupCost - 625 * (g.units : Int), g.units, 0⟩), rhs1 := units, rhs2 := 0 }
  else
    let need2 := c.any (fun g => fr ≤ fmax g.fracs)
    { coefs := c.map (fun g =>
        let f := fmax g.fracs
        if fr ≤ f then ⟨-groupCost + 32 * (f : Int), g.units + 1, g.units⟩ else ⟨-groupCost, g.units, g.units⟩),
      rhs1 := units + 1,
      rhs2 := if 0 < units ∧ need2 then units else 0 }

def sumSel (f : GCoef → Nat) (coefs : List GCoef) (set : List Nat) : Nat :=
  (set.map (fun j => (coefs[j]?.map f).getD 0)).sum

def objSel (coefs : List GCoef) (set : List Nat) : Int :=
  (set.map (fun j => (coefs[j]?.map (·.obj)).getD 0)).sum

/-- a group set (ascending, duplicate free, in range) satisfies the constraints of the entry -/
def EntryLp.feasible (lp : EntryLp) (set : List Nat) : Bool :=
  set.all (· < lp.coefs.length) && set.Pairwise (· < ·) &&
    decide (lp.rhs1 ≤ sumSel (·.c1) lp.coefs set) && decide (lp.rhs2 ≤ sumSel (·.c2) lp.coefs set)

/-- the whole problem: one `EntryLp` per coupled entry (with its resource id) and the coupling weights -/
structure Lp where
  entries : List (Nat × EntryLp)
  weights : List Weight
  deriving Repr

def mkLp (free : List CState) (coupled : List Entry) (weights : List Weight) : Lp :=
  { entries := coupled.map (fun e => (e.rid, entryLp (free[e.rid]?.getD []) e.amount)), weights := weights }

/-- `entries.iter().position(|e| e.resource_id == r)` -/
def posOf (rids : List Nat) (r : Nat) : Option Nat :=
  let i := rids.idxOf r
  if i < rids.length then some i else none

/-- coupling term of one weight item for a selection: `w * min(v1, v2)`; `none` = the `vars[r][group]` index panics -/
def weightTerm (lp : Lp) (sets : List (List Nat)) (w : Weight) : Option Int :=
  let rids := lp.entries.map (·.1)
  match posOf rids w.r1, posOf rids w.r2 with
  | some p1, some p2 =>
    match lp.entries[p1]?, lp.entries[p2]? with
    | some (_, e1), some (_, e2) =>
      if w.g1 < e1.coefs.length ∧ w.g2 < e2.coefs.length then
        if (sets[p1]?.getD []).contains w.g1 ∧ (sets[p2]?.getD []).contains w.g2 then
          some ((objScale * w.weight : Nat) : Int)
        else some 0
      else none
    | _, _ => some 0
  | _, _ => some 0

/-- some weight item indexes a group that does not exist (`vars[r1][w.group1]` out of bounds) -/
def Lp.weightOob (lp : Lp) : Bool :=
  lp.weights.any (fun w => (weightTerm lp [] w).isNone)

def Lp.objective (lp : Lp) (sets : List (List Nat)) : Int :=
  ((lp.entries.zip sets).map (fun (e, s) => objSel e.2.coefs s)).sum +
    (lp.weights.map (fun w => (weightTerm lp sets w).getD 0)).sum

def Lp.feasible (lp : Lp) (sets : List (List Nat)) : Bool :=
  sets.length == lp.entries.length && (lp.entries.zip sets).all (fun (e, s) => e.2.feasible s)

/-- all ascending sublists of `[0, …, n-1]` (by position) -/
def subsetsFrom : Nat → Nat → List (List Nat)
  | _, 0 => [[]]
  | i, n + 1 => let r := subsetsFrom (i + 1) n; r ++ r.map (i :: ·)

def allSubsets (n : Nat) : List (List Nat) := subsetsFrom 0 n

/-- all feasible selections (cartesian product of the per-entry feasible sets) -/
def Lp.allFeasible (lp : Lp) : List (List (List Nat)) :=
  lp.entries.foldr (fun e acc =>
    let fs := (allSubsets e.2.coefs.length).filter e.2.feasible
    fs.flatMap (fun s => acc.map (s :: ·))) [[]]

def maxInt? : List Int → Option Int
  | [] => none
  | x :: xs => match maxInt? xs with
    | none => some x
    | some m => some (max x m)

/-- optimum by brute force (`none` = infeasible) -/
def Lp.optimum (lp : Lp) : Option Int := maxInt? (lp.allFeasible.map lp.objective)

/-- one recorded `group_solver` call: `none` = it returned `None` -/
structure SolRec where
  obj : Int
  sets : List (List Nat)
  deriving Repr, DecidableEq

/-- `obj` is an objective value a MIP solver with relative gap tolerance `1e-4` may return when the optimum is `opt` -/
def withinGap (opt obj : Int) : Bool := decide (obj ≤ opt) && decide ((opt - obj) * 10000 ≤ (obj.natAbs : Int))

/-- is the recorded solver answer one that the model allows? -/
def solverAllowed (lp : Lp) : Option SolRec → Bool
  | none => lp.optimum.isNone
  | some r =>
    lp.feasible r.sets && r.obj == lp.objective r.sets &&
      (match lp.optimum with
       | some opt => withinGap opt r.obj
       | none => false)

/-- `group_solver`: `panic` for the out-of-bounds weight index, `badChoice` for an answer that is not allowed,
otherwise the (validated) recorded answer. -/
def groupSolver (free : List CState) (coupled : List Entry) (weights : List Weight) (rec : Option SolRec) :
    Except Stop (Option SolRec) :=
  let lp := mkLp free coupled weights
  if lp.weightOob then .error (.panic .oob)
  else if solverAllowed lp rec then .ok rec else .error .badChoice

end HqModel.Alloc
