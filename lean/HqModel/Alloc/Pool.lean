import HqModel.Alloc.Basic
/-!
M3 Alloc — `ResourcePool` (`crates/tako/src/internal/worker/resources/pool.rs`): construction from a descriptor
kind, the claim procedures per policy, release.
-/
namespace HqModel.Alloc

inductive Pool
  | empty
  | indices (full : Nat) (g : Group)
  | groups (full : Nat) (gs : List Group)
  | sum (full free : Nat)
  deriving Repr, DecidableEq

def Pool.fullSize : Pool → Nat
  | .empty => 0
  | .indices f _ => f
  | .groups f _ => f
  | .sum f _ => f

def Pool.isGroups : Pool → Bool
  | .groups _ _ => true
  | _ => false

/-- `ResourceDescriptorKind` (labels are irrelevant for the allocator: `ResourceLabelMap` maps the k-th label of a
list / of the flattened groups to index k) -/
inductive Kind
  | list (n : Nat)
  | range (start stop : Nat)
  | groups (sizes : List Nat)
  | sum (size : Nat)
  deriving Repr, DecidableEq

/-- Rust vector `[a, a+1, …, a+n-1]` as a stack (head = last element) -/
def stackRange (a n : Nat) : List Nat := (List.range' a n).reverse

def groupsFrom : Nat → List Nat → List Group
  | _, [] => []
  | off, n :: ns => ⟨stackRange off n, []⟩ :: groupsFrom (off + n) ns

/-- `ResourcePool::new` -/
def Pool.new : Kind → Pool
  | .list n => .indices (n * FPU) ⟨stackRange 0 n, []⟩
  | .range s e => let n := e + 1 - s; .indices (n * FPU) ⟨stackRange s n, []⟩
  | .groups sizes => .groups (sizes.sum * FPU) (groupsFrom 0 sizes)
  | .sum size => .sum size size

/-! ### scatter (also used for compact inside the chosen group set) -/

def setLen (set : Option (List Nat)) (ngroups : Nat) : Nat :=
  match set with
  | some s => s.length
  | none => ngroups

def setGet (set : Option (List Nat)) (index : Nat) : Option Nat :=
  match set with
  | some s => s[index]?
  | none => some index

/-- the `while units > 0 || fractions > 0` loop of `claim_scatter_from_groups`. One unit of fuel per iteration;
`scatterFuel` is an upper bound for every terminating run, so `hang` = the Rust loop does not terminate. -/
def scatterLoop (set : Option (List Nat)) (pick : Option Nat) :
    Nat → List Group → Nat → Nat → Nat → List AIdx → Except Stop (List Group × List AIdx)
  | 0, _, _, _, _, _ => .error .hang
  | fuel + 1, gs, units, fr, index, acc =>
    if units = 0 ∧ fr = 0 then .ok (gs, acc) else
    match setGet set index with
    | none => .error (.panic .oob)
    | some gidx =>
      match gs[gidx]? with
      | none => .error (.panic .oob)
      | some g =>
        let next := (index + 1) % setLen set gs.length
        if 0 < units then
          match g.free with
          | i :: rest =>
            scatterLoop set pick fuel (gs.set gidx { g with free := rest }) (units - 1) fr next
              (acc ++ [⟨i, gidx, 0⟩])
          | [] => scatterLoop set pick fuel gs units fr next acc
        else
          match bestMatch g.fracs fr pick with
          | .error e => .error e
          | .ok (some (i, f)) =>
            scatterLoop set pick fuel (gs.set gidx { g with fracs := fset g.fracs i (f - fr) }) 0 0 next
              (acc ++ [⟨i, gidx, fr⟩])
          | .ok none =>
            match g.free with
            | i :: rest =>
              scatterLoop set pick fuel (gs.set gidx { free := rest, fracs := fset g.fracs i (FPU - fr) }) 0 0 next
                (acc ++ [⟨i, gidx, fr⟩])
            | [] => scatterLoop set pick fuel gs 0 fr next acc

def scatterFuel (set : Option (List Nat)) (ngroups units : Nat) : Nat :=
  (units + 2) * (setLen set ngroups + 1)

/-- key of `indices.sort_by_key(|i| (i.fractions, i.group_idx, i.index))` -/
def AIdx.keyLt (a b : AIdx) : Bool :=
  a.fractions < b.fractions ||
    (a.fractions = b.fractions && (a.group < b.group || (a.group = b.group && a.index < b.index)))

/-- stable insertion sort -/
def insertIdx (x : AIdx) : List AIdx → List AIdx
  | [] => [x]
  | y :: ys => if AIdx.keyLt x y then x :: y :: ys else y :: insertIdx x ys

def sortIdx (l : List AIdx) : List AIdx := l.foldr insertIdx []

/-- `claim_scatter_from_groups` -/
def claimScatter (amount : Nat) (gs : List Group) (set : Option (List Nat)) (pick : Option Nat) :
    Except Stop (List Group × List AIdx) :=
  match scatterLoop set pick (scatterFuel set gs.length (amount / FPU)) gs (amount / FPU) (amount % FPU) 0 [] with
  | .error e => .error e
  | .ok (gs', acc) => .ok (gs', sortIdx acc)

/-! ### tight (`claim_compact_from_groups`) -/

def inSet (set : Option (List Nat)) (i : Nat) : Bool :=
  match set with
  | none => true
  | some s => s.contains i

/-- `.filter(a >= remaining && in set).min_by_key(a)`: the FIRST minimal element -/
def findMinFit (set : Option (List Nat)) (rem : Nat) : List Nat → Nat → Option (Nat × Nat) → Option (Nat × Nat)
  | [], _, best => best
  | a :: as, i, best =>
    let best' :=
      if rem ≤ a ∧ inSet set i then
        match best with
        | none => some (i, a)
        | some (_, b) => if a < b then some (i, a) else best
      else best
    findMinFit set rem as (i + 1) best'

/-- `.filter(in set).max_by_key(a)`: the LAST maximal element -/
def findMaxLast (set : Option (List Nat)) : List Nat → Nat → Option (Nat × Nat) → Option (Nat × Nat)
  | [], _, best => best
  | a :: as, i, best =>
    let best' :=
      if inSet set i then
        match best with
        | none => some (i, a)
        | some (_, b) => if b ≤ a then some (i, a) else best
      else best
    findMaxLast set as (i + 1) best'

/-- `indices.swap(k, last)` written for the only way it is used: the element at `k` goes to the end, the last
element takes its place. -/
def swapToLast (acc : List AIdx) (k : Nat) : List AIdx :=
  match acc.drop k with
  | [] => acc
  | f :: post =>
    match post.reverse with
    | [] => acc
    | l :: rpost => acc.take k ++ l :: (rpost.reverse ++ [f])

/-- the `loop` of `claim_compact_from_groups`; result `(groups, indices, fraction_idx)` -/
def tightLoop (set : Option (List Nat)) (pick : Option Nat) :
    Nat → List Group → List Nat → Nat → List AIdx → Option Nat →
      Except Stop (List Group × List AIdx × Option Nat)
  | 0, _, _, _, _, _ => .error .hang
  | fuel + 1, gs, amounts, remaining, acc, fidx =>
    let units := remaining / FPU
    let fr := remaining % FPU
    match findMinFit set remaining amounts 0 none with
    | some (gidx, _) =>
      match gs[gidx]? with
      | none => .error (.panic .oob)
      | some g =>
        match takeIndices gidx units g acc with
        | .error e => .error e
        | .ok (g1, acc1) =>
          match takeFracOrSplit gidx fr pick g1 acc1 with
          | .error e => .error e
          | .ok (g2, acc2) => .ok (gs.set gidx g2, acc2, fidx)
    | none =>
      match findMaxLast set amounts 0 none with
      | none => .error (.panic .unwrap)
      | some (gidx, _) =>
        match gs[gidx]? with
        | none => .error (.panic .oob)
        | some g =>
          let size := g.free.length
          if units < size then .error (.panic .overflow) else
          match takeIndices gidx size g acc with
          | .error e => .error e
          | .ok (g1, acc1) =>
            match tryTakeFrac gidx fr pick g1 acc1 with
            | .error e => .error e
            | .ok (g2, acc2, true) =>
              tightLoop set pick fuel (gs.set gidx g2) (amounts.set gidx 0) ((units - size) * FPU) acc2
                (some (acc2.length - 1))
            | .ok (g2, acc2, false) =>
              tightLoop set pick fuel (gs.set gidx g2) (amounts.set gidx 0) ((units - size) * FPU + fr) acc2 fidx

/-- `claim_compact_from_groups` -/
def claimTight (amount : Nat) (gs : List Group) (set : Option (List Nat)) (pick : Option Nat) :
    Except Stop (List Group × List AIdx) :=
  match tightLoop set pick (gs.length + 2) gs (gs.map Group.amount) amount [] none with
  | .error e => .error e
  | .ok (gs', acc, none) => .ok (gs', acc)
  | .ok (gs', acc, some k) => .ok (gs', swapToLast acc k)

/-! ### all -/

/-- `claim_all_from_groups`: every group is emptied front to back (Vec order = reverse stack order) -/
def claimAllAux : Nat → List Group → List Group × List AIdx
  | _, [] => ([], [])
  | gid, g :: gs =>
    let (gs', acc) := claimAllAux (gid + 1) gs
    ({ g with free := [] } :: gs', g.free.reverse.map (fun i => ⟨i, gid, 0⟩) ++ acc)

/-! ### claim / release -/

/-- `claim_resources_with_group_mask` -/
def Pool.claimWithMask (p : Pool) (e : Entry) (set : List Nat) (pick : Option Nat) : Except Stop (Pool × RAlloc) :=
  match p with
  | .groups full gs =>
    match e.policy with
    | .compact | .forceCompact =>
      match claimScatter e.amount gs (some set) pick with
      | .error er => .error er
      | .ok (gs', acc) => .ok (.groups full gs', ⟨e.rid, e.amount, acc⟩)
    | .tight | .forceTight =>
      match claimTight e.amount gs (some set) pick with
      | .error er => .error er
      | .ok (gs', acc) => .ok (.groups full gs', ⟨e.rid, e.amount, acc⟩)
    | .scatter | .all => .error (.panic .unreachable)
  | _ => .error (.panic .unreachable)

/-- `claim_resources` -/
def Pool.claim (p : Pool) (e : Entry) (pick : Option Nat) : Except Stop (Pool × RAlloc) :=
  match p with
  | .empty => .error (.panic .unreachable)
  | .indices full g =>
    let amount := e.amountOr full
    match takeIndices 0 (amount / FPU) g [] with
    | .error er => .error er
    | .ok (g1, acc1) =>
      match takeFracOrSplit 0 (amount % FPU) pick g1 acc1 with
      | .error er => .error er
      | .ok (g2, acc2) => .ok (.indices full g2, ⟨e.rid, amount, acc2⟩)
  | .groups full gs =>
    match e.policy with
    | .compact | .forceCompact | .tight | .forceTight => .error (.panic .unreachable)
    | .scatter =>
      match claimScatter e.amount gs none pick with
      | .error er => .error er
      | .ok (gs', acc) => .ok (.groups full gs', ⟨e.rid, e.amount, acc⟩)
    | .all =>
      let (gs', acc) := claimAllAux 0 gs
      .ok (.groups full gs', ⟨e.rid, full, acc⟩)
  | .sum full free =>
    let amount := e.amountOr full
    -- `pool.free -= amount` on u64
    if free < amount then .error (.panic .overflow) else .ok (.sum full (free - amount), ⟨e.rid, amount, []⟩)

/-- one iteration of the release loops -/
def releaseIdx (gs : List Group) (e : AIdx) : Except Stop (List Group) :=
  match gs[e.group]? with
  | none => .error (.panic .oob)
  | some g =>
    if e.fractions = 0 then .ok (gs.set e.group { g with free := e.index :: g.free })
    else
      match fget g.fracs e.index with
      | none => .error (.panic .unwrap)
      | some f =>
        if f + e.fractions = FPU then
          .ok (gs.set e.group { free := e.index :: g.free, fracs := ferase g.fracs e.index })
        else .ok (gs.set e.group { g with fracs := fset g.fracs e.index (f + e.fractions) })

/-- the entries are processed in the order given (callers pass the reversed list) -/
def releaseList : List Group → List AIdx → Except Stop (List Group)
  | gs, [] => .ok gs
  | gs, e :: es =>
    match releaseIdx gs e with
    | .error er => .error er
    | .ok gs' => releaseList gs' es

/-- `ResourcePool::release_allocation` -/
def Pool.release (p : Pool) (ra : RAlloc) : Except Stop Pool :=
  match p with
  | .empty => .error (.panic .unreachable)
  | .indices full g =>
    if ra.indices.any (fun e => e.group ≠ 0) then
      -- `assert_eq!(index.group_idx, 0)` (a foreign allocation; first offending entry panics)
      .error (.panic .assert)
    else
      match releaseList [g] ra.indices.reverse with
      | .error er => .error er
      | .ok [g'] => .ok (.indices full g')
      | .ok _ => .error (.panic .oob)
  | .sum full free =>
    if full < free + ra.amount then .error (.panic .assert)
    else if !ra.indices.isEmpty then .error (.panic .assert)
    else .ok (.sum full (free + ra.amount))
  | .groups full gs =>
    match releaseList gs ra.indices.reverse with
    | .error er => .error er
    | .ok gs' => .ok (.groups full gs')

end HqModel.Alloc
