import HqModel.Alloc.Allocator
/-!
M3 Alloc — operation sequences: what the correspondence harness drives and what the theorems quantify over.
-/
namespace HqModel.Alloc

inductive Op
  | enabled (rq : Request) (ch : Choices)
  | alloc (h : Nat) (rq : Request) (ch : Choices)
  | release (h : Nat)

/-- One operation. `none`: not enabled (release of a handle that is not live); `some (.error _)`: the operation
stops (panic / non-termination / a choice the model does not allow); `some (.ok s')`: the successor state. -/
def step (s : State) : Op → Option (Except Stop State)
  | .enabled rq ch => some ((isEnabled s rq ch).map (·.2))
  | .alloc h rq ch => some ((tryAllocate s h rq ch).map (·.2))
  | .release h => release s h

/-- states reachable from `s₀` by any sequence of operations with any allowed choices -/
inductive Reach (s₀ : State) : State → Prop
  | init : Reach s₀ s₀
  | step {s s' : State} (op : Op) : Reach s₀ s → step s op = some (.ok s') → Reach s₀ s'

/-- executes a list of operations; `none` as soon as one is not enabled or stops -/
def runOps (s : State) : List Op → Option State
  | [] => some s
  | op :: ops =>
    match step s op with
    | some (.ok s') => runOps s' ops
    | _ => none

theorem reach_of_runOps {s₀ s s' : State} {ops : List Op} (hr : Reach s₀ s) (h : runOps s ops = some s') :
    Reach s₀ s' := by
  induction ops generalizing s with
  | nil => simp only [runOps, Option.some.injEq] at h; exact h ▸ hr
  | cons op ops ih =>
    simp only [runOps] at h
    split at h
    · rename_i s₁ hs
      exact ih (Reach.step op hr hs) h
    · cases h

end HqModel.Alloc
