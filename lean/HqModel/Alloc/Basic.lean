/-!
M3 Alloc — basic types of the worker-side resource allocator model.

Source: `crates/tako/src/internal/common/resources/{amount,allocation,request}.rs`,
`crates/tako/src/internal/worker/resources/pool.rs`.

* amounts are `Nat` in 1/10000 units (`FPU` = `FRACTIONS_PER_UNIT`); `ResourceAmount(u64)` = `units * FPU + fractions`
* a Rust `Vec<ResourceIndex>` used as a stack (`pop()`/`push()`) is a `List Nat` whose **head is the top of the
  stack** (= the last element of the Rust vector); printers reverse it
* a Rust `Map<ResourceIndex, ResourceFractions>` is an association list; its iteration order is never used
  (hash-order dependent picks are choice inputs, printing sorts)
* every `panic!/unwrap/unreachable!/assert!/index` on the modelled paths is `Stop.panic site`; a loop that would not
  terminate in Rust is `Stop.hang`; a recorded choice that the model does not allow is `Stop.badChoice`
-/
namespace HqModel.Alloc

/-- `FRACTIONS_PER_UNIT` -/
def FPU : Nat := 10000

theorem FPU_pos : 0 < FPU := by decide

inductive Site
  | unwrap | unreachable | assert | oob | overflow
  deriving DecidableEq, Repr

def Site.kw : Site → String
  | .unwrap => "unwrap"
  | .unreachable => "unreachable"
  | .assert => "assert"
  | .oob => "oob"
  | .overflow => "overflow"

inductive Stop
  | panic (s : Site)
  | hang
  | badChoice
  deriving DecidableEq, Repr

/-! ### fraction maps (`Map<ResourceIndex, ResourceFractions>`) -/

abbrev FMap := List (Nat × Nat)

def fget : FMap → Nat → Option Nat
  | [], _ => none
  | (k, v) :: m, i => if k = i then some v else fget m i

def freplace : FMap → Nat → Nat → FMap
  | [], _, _ => []
  | (k, v) :: m, i, x => if k = i then (k, x) :: freplace m i x else (k, v) :: freplace m i x

/-- `map.insert(i, x)` / `*map.get_mut(&i).unwrap() = x` -/
def fset (m : FMap) (i x : Nat) : FMap :=
  if (fget m i).isSome then freplace m i x else (i, x) :: m

/-- `map.remove(&i)` -/
def ferase : FMap → Nat → FMap
  | [], _ => []
  | (k, v) :: m, i => if k = i then ferase m i else (k, v) :: ferase m i

/-- free fraction of index `i` according to the map (absent = 0) -/
def fracOf (m : FMap) (i : Nat) : Nat := (fget m i).getD 0

/-- `map.values().max().unwrap_or(0)` -/
def fmax : FMap → Nat
  | [] => 0
  | (_, v) :: m => max v (fmax m)

/-- the value `best_fraction_match` selects: the minimal value among those `≥ fr` (`none`: no candidate) -/
def bestVal : FMap → Nat → Option Nat
  | [], _ => none
  | (_, v) :: m, fr =>
    match bestVal m fr with
    | none => if fr ≤ v then some v else none
    | some b => if fr ≤ v then some (min v b) else some b

/-- keys whose value is `b` -/
def keysWith (m : FMap) (b : Nat) : List Nat := ((m.map Prod.fst).filter (fun k => fget m k == some b)).eraseDups

/-- `best_fraction_match`: `filter(f >= fractions).min_by_key(f)` over a hash map. Which of several indices with the
same minimal value is returned depends on the hash order: the observed index is the choice input `pick`; it is
checked to be one of the minimal candidates. When no pick was recorded — the operation panicked later, so no
allocation was returned to read it from, and no output depends on the pick — the first candidate is taken.
Result: `(index, its current value)`. -/
def bestMatch (m : FMap) (fr : Nat) (pick : Option Nat) : Except Stop (Option (Nat × Nat)) :=
  match bestVal m fr with
  | none => .ok none
  | some b =>
    match pick with
    | none =>
      match keysWith m b with
      | p :: _ => if fget m p = some b then .ok (some (p, b)) else .error .badChoice
      | [] => .error .badChoice
    | some p => if fget m p = some b then .ok (some (p, b)) else .error .badChoice

/-! ### one group of an index pool -/

structure Group where
  /-- free whole indices, head = next `pop()` -/
  free : List Nat
  /-- partially free indices -/
  fracs : FMap
  deriving Repr, DecidableEq

/-- `AllocationIndex` -/
structure AIdx where
  index : Nat
  group : Nat
  fractions : Nat
  deriving Repr, DecidableEq

/-- what an allocation entry holds of its index (whole index = one unit) -/
def AIdx.amt (e : AIdx) : Nat := if e.fractions = 0 then FPU else e.fractions

/-- `ResourceAllocation` -/
structure RAlloc where
  rid : Nat
  amount : Nat
  indices : List AIdx
  deriving Repr, DecidableEq

abbrev Allocation := List RAlloc

inductive Policy
  | compact | tight | scatter | forceCompact | forceTight | all
  deriving DecidableEq, Repr

def Policy.relevantForCoupling : Policy → Bool
  | .compact | .forceCompact | .tight | .forceTight => true
  | .scatter | .all => false

def Policy.forced : Policy → Bool
  | .forceCompact | .forceTight => true
  | _ => false

/-- `ResourceAllocRequest`; `amount` is ignored for `Policy.all` -/
structure Entry where
  rid : Nat
  policy : Policy
  amount : Nat
  deriving DecidableEq, Repr

/-- `AllocationRequest::amount(all)` -/
def Entry.amountOr (e : Entry) (all : Nat) : Nat :=
  match e.policy with
  | .all => all
  | _ => e.amount

abbrev Request := List Entry

/-- `take_indices`: `units` times `pool_indices.pop().unwrap()` -/
def takeIndices (gid : Nat) : Nat → Group → List AIdx → Except Stop (Group × List AIdx)
  | 0, g, acc => .ok (g, acc)
  | n + 1, g, acc =>
    match g.free with
    | [] => .error (.panic .unwrap)
    | i :: rest => takeIndices gid n { g with free := rest } (acc ++ [⟨i, gid, 0⟩])

/-- `take_fraction_index_or_split` -/
def takeFracOrSplit (gid fr : Nat) (pick : Option Nat) (g : Group) (acc : List AIdx) :
    Except Stop (Group × List AIdx) :=
  if fr = 0 then .ok (g, acc) else
  match bestMatch g.fracs fr pick with
  | .error e => .error e
  | .ok (some (i, f)) => .ok ({ g with fracs := fset g.fracs i (f - fr) }, acc ++ [⟨i, gid, fr⟩])
  | .ok none =>
    match g.free with
    | [] => .error (.panic .unwrap)
    | i :: rest => .ok ({ free := rest, fracs := fset g.fracs i (FPU - fr) }, acc ++ [⟨i, gid, fr⟩])

/-- `try_take_fraction`; the Boolean says whether a fraction was taken -/
def tryTakeFrac (gid fr : Nat) (pick : Option Nat) (g : Group) (acc : List AIdx) :
    Except Stop (Group × List AIdx × Bool) :=
  if fr = 0 then .ok (g, acc, false) else
  match bestMatch g.fracs fr pick with
  | .error e => .error e
  | .ok (some (i, f)) => .ok ({ g with fracs := fset g.fracs i (f - fr) }, acc ++ [⟨i, gid, fr⟩], true)
  | .ok none => .ok (g, acc, false)

/-- `GroupsResourcePool::group_amounts` for one group: `ResourceAmount::new(len, max fraction)` -/
def Group.amount (g : Group) : Nat := g.free.length * FPU + fmax g.fracs

end HqModel.Alloc
