import HqModel.Alloc.Pool
/-!
M3 Alloc — `ConciseFreeResources` (`crates/tako/src/internal/worker/resources/concise.rs`): the summary of the pools
that the admission test and the group solver read.
-/
namespace HqModel.Alloc

/-- `ConciseResourceGroup` -/
structure CGroup where
  units : Nat
  fracs : FMap
  deriving Repr, DecidableEq

/-- `ConciseResourceState.free` -/
abbrev CState := List CGroup

/-- `ResourcePool::concise_state` -/
def Pool.conciseState : Pool → CState
  | .empty => []
  | .indices _ g => [⟨g.free.length, g.fracs⟩]
  | .sum _ free => [⟨free / FPU, if 0 < free % FPU then [(0, free % FPU)] else []⟩]
  | .groups _ gs => gs.map (fun g => ⟨g.free.length, g.fracs⟩)

/-- `remove_fractions` -/
def CState.removeFractions (c : CState) (gidx idx fr : Nat) : Except Stop CState :=
  match c[gidx]? with
  | none => .error (.panic .oob)
  | some g =>
    let old := fracOf g.fracs idx        -- `entry(idx).or_insert(0)`
    if old < fr then
      if g.units = 0 then .error (.panic .assert)
      else .ok (c.set gidx ⟨g.units - 1, fset g.fracs idx (FPU + old - fr)⟩)
    else .ok (c.set gidx ⟨g.units, fset g.fracs idx (old - fr)⟩)

/-- `add_fractions` -/
def CState.addFractions (c : CState) (gidx idx fr : Nat) : Except Stop CState :=
  match c[gidx]? with
  | none => .error (.panic .oob)
  | some g =>
    let new := fracOf g.fracs idx + fr
    if FPU ≤ new then
      if FPU ≤ new - FPU then .error (.panic .assert)
      else .ok (c.set gidx ⟨g.units + 1, fset g.fracs idx (new - FPU)⟩)
    else .ok (c.set gidx ⟨g.units, fset g.fracs idx new⟩)

/-- `for idx in indices.iter().rev() { if idx.fractions == 0 { break; } f(idx) }` -/
def trailingFractional : List AIdx → List AIdx
  | [] => []
  | e :: es => if e.fractions = 0 then [] else e :: trailingFractional es

def CState.removeFracList (c : CState) : List AIdx → Except Stop CState
  | [] => .ok c
  | e :: es =>
    match c.removeFractions 0 e.index e.fractions with
    | .error er => .error er
    | .ok c' => c'.removeFracList es

def CState.addFracList (c : CState) : List AIdx → Except Stop CState
  | [] => .ok c
  | e :: es =>
    match c.addFractions 0 e.index e.fractions with
    | .error er => .error er
    | .ok c' => c'.addFracList es

/-- the multi-group branch of `remove` -/
def CState.removeEntries (c : CState) : List AIdx → Except Stop CState
  | [] => .ok c
  | e :: es =>
    if e.fractions = 0 then
      match c[e.group]? with
      | none => .error (.panic .oob)
      | some g =>
        if g.units = 0 then .error (.panic .assert)
        else CState.removeEntries (c.set e.group ⟨g.units - 1, g.fracs⟩) es
    else
      match c.removeFractions e.group e.index e.fractions with
      | .error er => .error er
      | .ok c' => c'.removeEntries es

def CState.addEntries (c : CState) : List AIdx → Except Stop CState
  | [] => .ok c
  | e :: es =>
    if e.fractions = 0 then
      match c[e.group]? with
      | none => .error (.panic .oob)
      | some g => CState.addEntries (c.set e.group ⟨g.units + 1, g.fracs⟩) es
    else
      match c.addFractions e.group e.index e.fractions with
      | .error er => .error er
      | .ok c' => c'.addEntries es

/-- `ConciseResourceState::remove` -/
def CState.remove (c : CState) (ra : RAlloc) : Except Stop CState :=
  match c with
  | [g] =>
    let units := ra.amount / FPU
    let fr := ra.amount % FPU
    if g.units < units then .error (.panic .assert) else
    let c1 : CState := [⟨g.units - units, g.fracs⟩]
    if 0 < fr then
      if ra.indices.isEmpty then c1.removeFractions 0 0 fr
      else c1.removeFracList (trailingFractional ra.indices.reverse)
    else .ok c1
  | _ => c.removeEntries ra.indices

/-- `ConciseResourceState::add` -/
def CState.add (c : CState) (ra : RAlloc) : Except Stop CState :=
  match c with
  | [g] =>
    let units := ra.amount / FPU
    let fr := ra.amount % FPU
    let c1 : CState := [⟨g.units + units, g.fracs⟩]
    if 0 < fr then
      if ra.indices.isEmpty then c1.addFractions 0 0 fr
      else c1.addFracList (trailingFractional ra.indices.reverse)
    else .ok c1
  | _ => c.addEntries ra.indices

/-- `amount_max_alloc` -/
def CState.maxAlloc (c : CState) : Nat :=
  (c.map (·.units)).sum * FPU + (c.map (fun g => fmax g.fracs)).foldl max 0

/-- `ConciseFreeResources::remove` / `add`: `self.resources[ra.resource_id]` -/
def conciseRemove : List CState → Allocation → Except Stop (List CState)
  | cs, [] => .ok cs
  | cs, ra :: ras =>
    match cs[ra.rid]? with
    | none => .error (.panic .oob)
    | some c =>
      match c.remove ra with
      | .error er => .error er
      | .ok c' => conciseRemove (cs.set ra.rid c') ras

def conciseAdd : List CState → Allocation → Except Stop (List CState)
  | cs, [] => .ok cs
  | cs, ra :: ras =>
    match cs[ra.rid]? with
    | none => .error (.panic .oob)
    | some c =>
      match c.add ra with
      | .error er => .error er
      | .ok c' => conciseAdd (cs.set ra.rid c') ras

/-- `strip_zeros` (what `validate()` compares) -/
def CGroup.strip (g : CGroup) : CGroup := ⟨g.units, g.fracs.filter (fun kv => kv.2 ≠ 0)⟩

end HqModel.Alloc
