/-!
# M8 Stream — the integer codec really used by the stream files

`crates/hyperqueue/src/stream/mod.rs`: `StreamSerializationConfig = TrailingAllowedConfig`
= `bincode::DefaultOptions::new().allow_trailing_bytes().with_limit(MAX_FRAME_SIZE)`
→ bincode 1.3.3 **varint** integer encoding, little endian (`bincode-1.3.3/src/config/int.rs`):

* `u ≤ 250`            → 1 byte `u`
* `u < 2^16`           → `251` ++ u16 LE
* `u < 2^32`           → `252` ++ u32 LE
* otherwise (`< 2^64`) → `253` ++ u64 LE
* signed integers: zig-zag (`n ≥ 0 ↦ 2n`, `n < 0 ↦ 2(-n-1)+1`), then as above
* decoding accepts non-minimal encodings, rejects the discriminants 254 (u128) and 255; a target type
  narrower than the decoded `u64` is range-checked afterwards (`cast_u64_to_u32`).

Bytes are `UInt8`. The decoder has three outcomes, because the reader of the stream files
(`OutputLog::read_chunk`) distinguishes exactly them: value, *unexpected end of input* (→ stop reading
the file quietly), any other error (→ the whole `open` fails).
-/
namespace HqModel.Stream

abbrev Bytes := List UInt8

/-- Result of decoding a value from the front of a byte string. -/
inductive Dec (α : Type) where
  /-- value and the unconsumed rest -/
  | ok (v : α) (rest : Bytes)
  /-- the input ended inside the value (`bincode::ErrorKind::Io(UnexpectedEof)`) -/
  | eof
  /-- the bytes are not an encoding of a value of the type (any other bincode error) -/
  | invalid
  deriving Repr, DecidableEq

/-- `k` bytes little endian (value taken modulo `256^k`, as Rust's `as uN` does). -/
def leEnc : Nat → Nat → Bytes
  | 0, _ => []
  | k + 1, n => UInt8.ofNat (n % 256) :: leEnc k (n / 256)

/-- read `k` bytes little endian; `none` = not enough input -/
def leDec : Nat → Bytes → Option (Nat × Bytes)
  | 0, bs => some (0, bs)
  | _ + 1, [] => none
  | k + 1, b :: bs =>
    match leDec k bs with
    | some (v, r) => some (b.toNat + 256 * v, r)
    | none => none

/-- `VarintEncoding::serialize_varint` (argument `< 2^64`). -/
def encVarint (n : Nat) : Bytes :=
  if n ≤ 250 then [UInt8.ofNat n]
  else if n < 65536 then 251 :: leEnc 2 n
  else if n < 4294967296 then 252 :: leEnc 4 n
  else 253 :: leEnc 8 n

/-- `VarintEncoding::deserialize_varint` -/
def decVarint : Bytes → Dec Nat
  | [] => .eof
  | b :: r =>
    if b.toNat ≤ 250 then .ok b.toNat r
    else if b.toNat = 251 then
      match leDec 2 r with
      | some (v, r') => .ok v r'
      | none => .eof
    else if b.toNat = 252 then
      match leDec 4 r with
      | some (v, r') => .ok v r'
      | none => .eof
    else if b.toNat = 253 then
      match leDec 8 r with
      | some (v, r') => .ok v r'
      | none => .eof
    else .invalid

/-- `VarintEncoding::zigzag_encode` (i64 → u64) -/
def zigzag (n : Int) : Nat :=
  if n < 0 then ((-n - 1).toNat) * 2 + 1 else n.toNat * 2

/-- `VarintEncoding::zigzag_decode` (u64 → i64) -/
def unzigzag (u : Nat) : Int :=
  if u % 2 = 0 then ((u / 2 : Nat) : Int) else -((u / 2 : Nat) : Int) - 1

/-- A sequence of varint-encoded fields, each with the acceptance test its Rust type imposes after
decoding (`u32`: `< 2^32`; the time stamp: representable by chrono). Fields are decoded and tested
strictly left to right, so the *first* failure decides between `eof` and `invalid`, as in serde's
derived `Deserialize` for a struct under bincode. -/
def decFields : List (Nat → Bool) → Bytes → Dec (List Nat)
  | [], bs => .ok [] bs
  | p :: ps, bs =>
    match decVarint bs with
    | .ok v r =>
      if p v then
        match decFields ps r with
        | .ok vs r' => .ok (v :: vs) r'
        | .eof => .eof
        | .invalid => .invalid
      else .invalid
    | .eof => .eof
    | .invalid => .invalid

def encFields (vs : List Nat) : Bytes := vs.flatMap encVarint

end HqModel.Stream
