import HqModel.Stream.Header
/-!
# M8 Stream — the writer (`crates/hyperqueue/src/worker/streamer.rs`, `stream_writer`)

One `stream_writer` task per (worker, stream directory) owns one file `<random uid>.hqs` and one queue
(`tokio::sync::mpsc`, capacity 128). Everything a worker streams into that directory goes through this
queue; per `StreamerMessage::Write{header, data}` the writer appends `bincode(header)` and then `data`
(nothing when `data` is empty). `StreamSender::send_data` builds the header with
`size = data.len()`; `resend_stdio` (worker/start/program.rs) sends the chunks of one pipe in read order
and finally one chunk of size 0 per channel — the end marker.

So the file is a pure function of the queue order:
`fileBytes = "hqsf0000" ++ bincode(StreamFileHeader) ++ concat (encHdr hdrᵢ ++ dataᵢ)`.
Not modelled (trusted, exercised by the harness): the queue is FIFO; `BufWriter` + `flush` put exactly
these bytes, in this order, into the file.
-/
namespace HqModel.Stream

/-- one `StreamerMessage::Write` -/
structure Chunk where
  hdr : ChunkHeader
  data : Bytes
  deriving Repr, DecidableEq

/-- `send_data` sets `size = data.len()` -/
def Chunk.WF (c : Chunk) : Prop := c.hdr.size = c.data.length

instance (c : Chunk) : Decidable c.WF := inferInstanceAs (Decidable (_ = _))

def Chunk.bytes (c : Chunk) : Bytes := encHdr c.hdr ++ c.data

def chunksBytes (cs : List Chunk) : Bytes := cs.flatMap Chunk.bytes

/-- what one `stream_writer` was asked to write, in queue order -/
structure FileSpec where
  uid : Bytes
  worker : Nat
  chunks : List Chunk
  deriving Repr

def fileBytes (f : FileSpec) : Bytes := encFileHeader f.uid f.worker ++ chunksBytes f.chunks

end HqModel.Stream
