import HqModel.Stream.Codec
/-!
# M8 Stream — `StreamChunkHeader` and the stream file header, byte level

`crates/hyperqueue/src/transfer/stream.rs`:
```
struct StreamChunkHeader { #[serde(with = "ts_milliseconds")] time: DateTime<Utc>,
                           task: TaskId{job_id: JobId(u32), job_task_id: JobTaskId(u32)},
                           instance: InstanceId(u32), channel: u32, size: u64 }
```
serde newtype structs are transparent under bincode, so the wire form is six varints:
`zigzag(time ms)`, `job`, `task`, `instance`, `channel`, `size`.

`crates/hyperqueue/src/worker/streamer.rs`: a file starts with `STREAM_FILE_HEADER = b"hqsf0000"` followed
by bincode(`StreamFileHeader{server_uid: Cow<str>, worker_id: WorkerId(u32)}`) = varint length ++ utf-8
bytes ++ varint worker id.
-/
namespace HqModel.Stream

structure ChunkHeader where
  /-- milliseconds since the epoch (`chrono::serde::ts_milliseconds`) -/
  time : Int
  job : Nat
  task : Nat
  inst : Nat
  channel : Nat
  /-- `size == 0` indicates the end of the stream -/
  size : Nat
  deriving Repr, DecidableEq

/-- smallest / largest millisecond time stamp `chrono::DateTime::<Utc>::from_timestamp_millis` accepts
(probed on chrono 0.4.45 by `hqv stream probe`: -262143-01-02T00:00:00.000 … +262142-12-31T23:59:59.999); outside → serde custom error. -/
def timeMin : Int := -8334601228800000
def timeMax : Int := 8210266876799999

def timeOk (u : Nat) : Bool := decide (timeMin ≤ unzigzag u) && decide (unzigzag u ≤ timeMax)
def u32Ok (u : Nat) : Bool := decide (u < 4294967296)
def u64Ok (_ : Nat) : Bool := true

/-- field acceptance tests of `StreamChunkHeader`, in declaration order -/
def hdrPreds : List (Nat → Bool) := [timeOk, u32Ok, u32Ok, u32Ok, u32Ok, u64Ok]

def ChunkHeader.fields (h : ChunkHeader) : List Nat :=
  [zigzag h.time, h.job, h.task, h.inst, h.channel, h.size]

/-- what `StreamSerializationConfig::config().serialize_into(&mut buffer, &header)` produces -/
def encHdr (h : ChunkHeader) : Bytes := encFields h.fields

/-- what `StreamSerializationConfig::config().deserialize_from(file)` does on the bytes that remain -/
def decHdr (bs : Bytes) : Dec ChunkHeader :=
  match decFields hdrPreds bs with
  | .ok [t, j, k, i, c, s] r => .ok ⟨unzigzag t, j, k, i, c, s⟩ r
  | .ok _ _ => .invalid   -- unreachable: `decFields` returns as many values as there are tests
  | .eof => .eof
  | .invalid => .invalid

/-- the values a Rust `StreamChunkHeader` can hold -/
structure ChunkHeader.Valid (h : ChunkHeader) : Prop where
  time_lo : timeMin ≤ h.time
  time_hi : h.time ≤ timeMax
  job : h.job < 4294967296
  task : h.task < 4294967296
  inst : h.inst < 4294967296
  channel : h.channel < 4294967296
  size : h.size < 18446744073709551616

instance (h : ChunkHeader) : Decidable h.Valid :=
  if c : timeMin ≤ h.time ∧ h.time ≤ timeMax ∧ h.job < 4294967296 ∧ h.task < 4294967296 ∧
      h.inst < 4294967296 ∧ h.channel < 4294967296 ∧ h.size < 18446744073709551616 then
    isTrue ⟨c.1, c.2.1, c.2.2.1, c.2.2.2.1, c.2.2.2.2.1, c.2.2.2.2.2.1, c.2.2.2.2.2.2⟩
  else isFalse fun v => c ⟨v.time_lo, v.time_hi, v.job, v.task, v.inst, v.channel, v.size⟩

/-! ## file header -/

/-- `STREAM_FILE_HEADER = b"hqsf0000"` -/
def fileMagic : Bytes := [104, 113, 115, 102, 48, 48, 48, 48]

/-- magic ++ bincode(StreamFileHeader) -/
def encFileHeader (uid : Bytes) (worker : Nat) : Bytes :=
  fileMagic ++ encVarint uid.length ++ uid ++ encVarint worker

inductive FileHdr where
  | ok (uid : Bytes) (worker : Nat) (rest : Bytes)
  /-- `check_header` fails (short read, wrong magic, undecodable `StreamFileHeader`); `OutputLog::open`
  skips such a file, `create_index` fails on it -/
  | bad
  deriving Repr, DecidableEq

/-- `tako::MAX_FRAME_SIZE` = 128 MiB: the bincode size limit that a string length must respect -/
def maxFrameSize : Nat := 128 * 1024 * 1024

/-- `OutputLog::check_header`. Restriction of the model: a server uid with a byte ≥ 0x80 is treated as
not decodable (the real code validates UTF-8; server uids are ASCII alphanumeric). -/
def checkHeader (bs : Bytes) : FileHdr :=
  if bs.take 8 = fileMagic then
    match decVarint (bs.drop 8) with
    | .ok len r =>
      if len ≤ maxFrameSize ∧ len ≤ r.length ∧ (r.take len).all (fun b => b.toNat < 128) then
        match decVarint (r.drop len) with
        | .ok w r' => if w < 4294967296 then .ok (r.take len) w r' else .bad
        | _ => .bad
      else .bad
    | _ => .bad
  else .bad

end HqModel.Stream
