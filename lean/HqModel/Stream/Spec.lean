import HqModel.Stream.Reader
/-!
# M8 Stream — vocabulary of the C19 statements (what was written, hypotheses on the schedule)
-/
namespace HqModel.Stream

def Chunk.key (c : Chunk) : Key := (c.hdr.job, c.hdr.task)

/-- A sequence that never *returns* to a value it has left: in `x :: rest`, if `x` occurs again in `rest`
then it is the very next element. (Instance ids of one task along one file: executions of a task do not
overlap in time — property C06 — so their chunks are not interleaved.) -/
def NoReturn : List Nat → Prop
  | [] => True
  | x :: rest => (x ∈ rest → rest.head? = some x) ∧ NoReturn rest

instance : (l : List Nat) → Decidable (NoReturn l)
  | [] => isTrue trivial
  | x :: rest =>
    have := instDecidableNoReturn rest
    inferInstanceAs (Decidable ((x ∈ rest → rest.head? = some x) ∧ NoReturn rest))

/-- instance ids of the chunks of task `t` in a chunk list, in order -/
def instSeq (t : Key) (cs : List Chunk) : List Nat := (cs.filter (fun c => c.key = t)).map (·.hdr.inst)

/-- selector of the chunks of execution `(t, m)` on channel `ch` -/
def isOf (t : Key) (m ch : Nat) (c : Chunk) : Bool :=
  decide (c.key = t) && decide (c.hdr.inst = m) && decide (c.hdr.channel = ch)

/-- selector of the chunks of execution `(t, m)` (any channel) -/
def isInst (t : Key) (m : Nat) (c : Chunk) : Bool := decide (c.key = t) && decide (c.hdr.inst = m)

/-- everything execution `(t, m)` wrote to channel `ch`, in write (= queue) order, over all writers -/
def written (dir : List FileSpec) (t : Key) (m ch : Nat) : Bytes :=
  dir.flatMap fun f => (f.chunks.filter (isOf t m ch)).flatMap (·.data)

/-- an end marker (a chunk of size 0) of execution `(t, m)` was written -/
def endMarked (dir : List FileSpec) (t : Key) (m : Nat) : Bool :=
  dir.any fun f => f.chunks.any fun c => isInst t m c && decide (c.hdr.size = 0)

/-- all instance ids under which task `t` wrote, directory order -/
def instIds (dir : List FileSpec) (t : Key) : List Nat := dir.flatMap fun f => instSeq t f.chunks

/-- what the real writer can produce and the worker really sends -/
structure FileSpec.OK (uid : Bytes) (f : FileSpec) : Prop where
  uid : f.uid = uid
  worker : f.worker < 4294967296
  valid : ∀ c ∈ f.chunks, c.hdr.Valid
  wf : ∀ c ∈ f.chunks, c.WF
  /-- stdout = 0, stderr = 1 (`resend_stdio`) -/
  channel : ∀ c ∈ f.chunks, c.hdr.channel < 2
  /-- `STDIO_BUFFER_SIZE` = 16 KiB in the code; the reader stores `size as u32` -/
  size : ∀ c ∈ f.chunks, c.hdr.size < 4294967296
  /-- executions of one task are not interleaved inside one writer's file -/
  noReturn : ∀ t, NoReturn (instSeq t f.chunks)

/-- the hypotheses on a stream directory (files in the order the reader lists them) -/
structure DirOK (uid : Bytes) (dir : List FileSpec) : Prop where
  /-- the server uid is ASCII and of sane length (it is 12 alphanumeric characters in reality) -/
  uidAscii : uid.all (fun b => b.toNat < 128) = true
  uidLen : uid.length ≤ 250
  files : ∀ f ∈ dir, f.OK uid
  /-- instance ids of one task are distinct across files -/
  distinct : ∀ t, dir.Pairwise fun f g => ∀ i, i ∈ instSeq t f.chunks → i ∉ instSeq t g.chunks

/-- end offsets (relative to `base`) of the chunks of a file body -/
def chunkEnds (base : Nat) : List Chunk → List Nat
  | [] => []
  | c :: cs => (base + c.bytes.length) :: chunkEnds (base + c.bytes.length) cs

/-- absolute end offsets of the chunks of a file -/
def FileSpec.ends (f : FileSpec) : List Nat := chunkEnds (encFileHeader f.uid f.worker).length f.chunks

/-- every chunk of execution `(t, m)` in `f` lies completely inside the first `k` bytes of the file -/
def FileSpec.Keeps (f : FileSpec) (t : Key) (m : Nat) (k : Nat) : Prop :=
  ∀ ce ∈ f.chunks.zip f.ends, isInst t m ce.1 = true → ce.2 ≤ k

end HqModel.Stream
