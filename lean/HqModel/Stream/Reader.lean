import HqModel.Stream.Writer
/-!
# M8 Stream — the reader (`crates/hyperqueue/src/stream/reader/outputlog.rs`)

`OutputLog::open` → `create_index` → `cat` / `export` / `summary`, written from the code as it is:

* a file whose header cannot be read is skipped by `open` (but counts as "found");
* `read_chunk`: bincode `UnexpectedEof` ⇒ stop reading this file quietly; any other decode error ⇒ `open`
  fails;
* per chunk: the task entry is created on demand; a new `InstanceInfo` is pushed **iff the instance id
  differs from the one of the last `InstanceInfo` of that task** (not: iff the id is unknown);
  `size > 0` ⇒ `channels[channel]` gets `(position, size as u32)` (index panic for `channel ≥ 2`) and the
  reader seeks `size` bytes forward (seeking behind the end of a file succeeds); `size = 0` ⇒ `finished`;
* afterwards every task's instances are *stably* sorted by instance id; `last_instance` is the last one,
  `superseded` all others;
* `cat` reads `(position, size)` of every chunk of the selected channel of the last instance from file
  `file_idx` (`read_exact`: a short file is an error).
-/
namespace HqModel.Stream

/-! ## chunk scanner -/

theorem leDec_length {k : Nat} {bs : Bytes} {v : Nat} {r : Bytes} (h : leDec k bs = some (v, r)) :
    r.length + k = bs.length := by
  induction k generalizing bs v r with
  | zero => simp [leDec] at h; simp [h.2]
  | succ k ih =>
    cases bs with
    | nil => simp [leDec] at h
    | cons b bs =>
      simp only [leDec] at h
      split at h
      · rename_i v' r' h'
        have := ih h'
        simp only [Option.some.injEq, Prod.mk.injEq] at h
        simp only [List.length_cons, ← h.2]; omega
      · simp at h

theorem decVarint_length {bs : Bytes} {v : Nat} {r : Bytes} (h : decVarint bs = .ok v r) :
    r.length < bs.length := by
  cases bs with
  | nil => simp [decVarint] at h
  | cons b bs =>
    simp only [decVarint] at h
    repeat' split at h
    all_goals first
      | (simp only [Dec.ok.injEq] at h; simp [← h.2]; done)
      | (rename_i h'; have := leDec_length h'; simp only [Dec.ok.injEq] at h; simp only [List.length_cons, ← h.2]; omega)
      | simp at h

theorem decFields_length {ps : List (Nat → Bool)} {bs : Bytes} {vs : List Nat} {r : Bytes}
    (h : decFields ps bs = .ok vs r) : r.length + ps.length ≤ bs.length ∧ vs.length = ps.length := by
  induction ps generalizing bs vs r with
  | nil => simp [decFields] at h; simp [h.1, h.2]
  | cons p ps ih =>
    simp only [decFields] at h
    split at h
    · rename_i v r1 h1
      have l1 := decVarint_length h1
      split at h
      · split at h
        · rename_i vs' r' h2
          have := ih h2
          simp only [Dec.ok.injEq] at h
          simp only [← h.1, ← h.2, List.length_cons]; omega
        · simp at h
        · simp at h
      · simp at h
    · simp at h
    · simp at h

theorem decHdr_length {bs : Bytes} {h : ChunkHeader} {r : Bytes} (e : decHdr bs = .ok h r) :
    r.length < bs.length := by
  simp only [decHdr] at e
  split at e
  · rename_i h1
    have := (decFields_length h1).1
    simp only [Dec.ok.injEq] at e
    simp only [hdrPreds, List.length_cons, List.length_nil] at this
    rw [← e.2]; omega
  · simp at e
  · simp at e
  · simp at e

/-- one chunk as `create_index` sees it: its header and the absolute file offset of its data -/
structure Rec where
  hdr : ChunkHeader
  pos : Nat
  deriving Repr, DecidableEq

/-- The `while let Some(chunk_header) = read_chunk(file)?` loop of `create_index` on the bytes `bs` that
start at absolute offset `pos`: the chunks seen, and whether the loop ended with a decode error other
than end-of-file. After a header the reader skips `size` bytes (`seek_relative`; past the end is fine). -/
def parseChunks (pos : Nat) (bs : Bytes) : List Rec × Bool :=
  match _h : decHdr bs with
  | .ok hd rest =>
    let p := pos + (bs.length - rest.length)
    let res := parseChunks (p + hd.size) (rest.drop hd.size)
    (⟨hd, p⟩ :: res.1, res.2)
  | .eof => ([], false)
  | .invalid => ([], true)
termination_by bs.length
decreasing_by
  have := decHdr_length _h
  simp only [List.length_drop]; omega

/-! ## index -/

structure ChunkInfo where
  pos : Nat
  /-- `chunk_header.size as u32` -/
  size : Nat
  deriving Repr, DecidableEq

structure InstanceInfo where
  inst : Nat
  ch0 : List ChunkInfo
  ch1 : List ChunkInfo
  fileIdx : Nat
  finished : Bool
  deriving Repr, DecidableEq

def InstanceInfo.chan (i : InstanceInfo) (ch : Nat) : List ChunkInfo := if ch = 0 then i.ch0 else i.ch1

def InstanceInfo.channelSize (i : InstanceInfo) (ch : Nat) : Nat := ((i.chan ch).map (·.size)).sum

/-- (job id, job task id) -/
abbrev Key := Nat × Nat

def Rec.key (r : Rec) : Key := (r.hdr.job, r.hdr.task)

/-- `instance.channels[chunk_header.channel as usize]` with `channels : [_; 2]` panics -/
def Rec.panics (r : Rec) : Bool := decide (r.hdr.size > 0) && decide (r.hdr.channel ≥ 2)

/-- body of the loop after the instance has been selected (for a non-panicking chunk) -/
def addChunk (i : InstanceInfo) (r : Rec) : InstanceInfo :=
  if r.hdr.size > 0 then
    if r.hdr.channel = 0 then { i with ch0 := i.ch0 ++ [⟨r.pos, r.hdr.size % 4294967296⟩] }
    else { i with ch1 := i.ch1 ++ [⟨r.pos, r.hdr.size % 4294967296⟩] }
  else { i with finished := true }

def lastInst? : List InstanceInfo → Option Nat
  | [] => none
  | [i] => some i.inst
  | _ :: is => lastInst? is

def updLast (g : α → α) : List α → List α
  | [] => []
  | [i] => [g i]
  | i :: is => i :: updLast g is

/-- the update of one task's `instances` by one chunk from file `f` -/
def pushRec (insts : List InstanceInfo) (f : Nat) (r : Rec) : List InstanceInfo :=
  let insts' :=
    if lastInst? insts = some r.hdr.inst then insts
    else insts ++ [{ inst := r.hdr.inst, ch0 := [], ch1 := [], fileIdx := f, finished := false }]
  updLast (fun i => addChunk i r) insts'

/-- `BTreeMap<JobId, BTreeMap<JobTaskId, TaskInfo>>` as key list (insertion order; printers sort) plus total
function -/
structure Index where
  keys : List Key
  get : Key → List InstanceInfo

def Index.empty : Index := ⟨[], fun _ => []⟩

def Index.step (idx : Index) (f : Nat) (r : Rec) : Index :=
  { keys := if r.key ∈ idx.keys then idx.keys else idx.keys ++ [r.key]
    get := fun k => if k = r.key then pushRec (idx.get k) f r else idx.get k }

inductive Stop where
  /-- index out of bounds on `channels[channel]` -/
  | panicChannel
  /-- a decode error other than end of file, or an unreadable file header inside `create_index` -/
  | invalid
  deriving Repr, DecidableEq

/-- what `create_index` meets, in order -/
inductive Ev where
  | chunk (f : Nat) (r : Rec)
  | bad
  deriving Repr

def build (idx : Index) : List Ev → Except Stop Index
  | [] => .ok idx
  | .bad :: _ => .error .invalid
  | .chunk f r :: evs => if r.panics then .error .panicChannel else build (idx.step f r) evs

/-- events of one file (`file_idx = f`) -/
def fileEvents (f : Nat) (bs : Bytes) : List Ev :=
  match checkHeader bs with
  | .ok _ _ rest =>
    let res := parseChunks (bs.length - rest.length) rest
    res.1.map (Ev.chunk f) ++ (if res.2 then [Ev.bad] else [])
  | .bad => [Ev.bad]

def dirEventsFrom (f : Nat) : List Bytes → List Ev
  | [] => []
  | b :: bs => fileEvents f b ++ dirEventsFrom (f + 1) bs

def instLe (a b : InstanceInfo) : Bool := decide (a.inst ≤ b.inst)

/-- `task.instances.sort_by_key(|x| x.instance_id)` — stable -/
def sortInsts (l : List InstanceInfo) : List InstanceInfo := l.mergeSort instLe

def Index.sorted (idx : Index) : Index := { idx with get := fun k => sortInsts (idx.get k) }

/-- `OutputLog::create_index(paths)` -/
def createIndex (paths : List Bytes) : Except Stop Index :=
  match build Index.empty (dirEventsFrom 0 paths) with
  | .ok idx => .ok idx.sorted
  | .error e => .error e

/-! ## `OutputLog` -/

structure Log where
  /-- contents of the accepted files, `paths` order -/
  paths : List Bytes
  index : Index

inductive OpenErr where
  | noFiles
  | multiUid
  | stop (s : Stop)
  deriving Repr, DecidableEq

/-- the files `open` keeps: readable header and (if a filter is given) matching server uid -/
def accepted (filter : Option Bytes) (files : List Bytes) : List (Bytes × Bytes) :=
  files.filterMap fun b =>
    match checkHeader b with
    | .ok uid _ _ => if filter.all (· == uid) then some (b, uid) else none
    | .bad => none

/-- `OutputLog::open(path, server_uid)` on the directory listing `files` (contents of the `*.hqs` files
in `read_dir` order) -/
def openDir (files : List Bytes) (filter : Option Bytes) : Except OpenErr Log :=
  if files.isEmpty then .error .noFiles
  else
    let acc := accepted filter files
    -- `server_uids.len() > 1`: two accepted files with different server uids
    if acc.any (fun a => acc.any fun b => a.2 != b.2) then .error .multiUid
    else
      match createIndex (acc.map (·.1)) with
      | .ok idx => .ok ⟨acc.map (·.1), idx⟩
      | .error s => .error (.stop s)

/-- the verification accessor `verif_from_paths`: `create_index` on an explicit path order -/
def openPaths (paths : List Bytes) : Except OpenErr Log :=
  match createIndex paths with
  | .ok idx => .ok ⟨paths, idx⟩
  | .error s => .error (.stop s)

/-- `read_buffer`: `seek` + `read_exact` -/
def readAt (file : Bytes) (pos size : Nat) : Option Bytes :=
  if pos + size ≤ file.length then some ((file.drop pos).take size) else none

def readChunks (file : Bytes) : List ChunkInfo → Option Bytes
  | [] => some []
  | c :: cs =>
    match readAt file c.pos c.size, readChunks file cs with
    | some d, some ds => some (d ++ ds)
    | _, _ => none

/-- `TaskInfo::last_instance` (the entry exists only if it has at least one instance) -/
def Log.lastInstance (log : Log) (k : Key) : Option InstanceInfo := (log.index.get k).getLast?

/-- `TaskInfo::superseded` -/
def Log.superseded (log : Log) (k : Key) : List InstanceInfo := (log.index.get k).dropLast

inductive CatRes where
  | ok (data : Bytes)
  | notFound
  | readErr
  deriving Repr, DecidableEq

/-- bytes that `cat <job> <channel> --task <task> --allow-unfinished` prints -/
def Log.cat (log : Log) (k : Key) (ch : Nat) : CatRes :=
  match log.lastInstance k with
  | none => .notFound
  | some i =>
    match readChunks (log.paths.getD i.fileIdx []) (i.chan ch) with
    | some d => .ok d
    | none => .readErr

/-- the `finished` flag `export` reports / `cat` insists on without `--allow-unfinished` -/
def Log.finished (log : Log) (k : Key) : Option Bool := (log.lastInstance k).map (·.finished)

structure Summary where
  nFiles : Nat
  nJobs : Nat
  nTasks : Nat
  nStreams : Nat
  nOpened : Nat
  stdoutSize : Nat
  stderrSize : Nat
  nSuperseded : Nat
  supStdoutSize : Nat
  supStderrSize : Nat
  deriving Repr, DecidableEq

/-- `OutputLog::summary` -/
def Log.summary (log : Log) : Summary :=
  let ks := log.index.keys
  let lasts := ks.filterMap log.lastInstance
  let sups := ks.flatMap log.superseded
  let nStreams := (ks.map fun k => (log.index.get k).length).sum
  { nFiles := log.paths.length
    nJobs := (ks.map (·.1)).eraseDups.length
    nTasks := ks.length
    nStreams := nStreams
    nOpened := (lasts.filter (fun i => !i.finished)).length
    stdoutSize := (lasts.map (·.channelSize 0)).sum
    stderrSize := (lasts.map (·.channelSize 1)).sum
    nSuperseded := nStreams - ks.length
    supStdoutSize := (sups.map (·.channelSize 0)).sum
    supStderrSize := (sups.map (·.channelSize 1)).sum }

end HqModel.Stream
