import HqModel.Sys.Model
import HqModel.Worker.Model
/-!
The composed system WITH the workers: `Sys` (job layer M4 on the tako core M1) + one copy of the worker-side task
state machine M2 (`HqModel.Worker`) per connected worker + two FIFO queues per worker (server → worker messages,
worker → server messages). It is the world of `harness/src/world.rs`:

| harness (`World`)                  | here                                                                          |
|------------------------------------|-------------------------------------------------------------------------------|
| `client(msg)`, `schedule()`        | `Op.srv op` (`op` = a client request of `Sys`, `newRq`, or `schedule sol`)    |
| `add_worker(config)`               | `Op.addWorker wk rqs remaining`                                               |
| `lose_worker(id, reason)`          | `Op.loseWorker w reason isFailure order rets`: `Sys` `removeWorker` + the worker and BOTH its queues vanish |
| `deliver_to_worker(id)`            | `Op.deliverS2W w extras`: pop the head of `s2w`, run the M2 step, append what the worker sends to `w2s` |
| `deliver_to_server(id)`            | `Op.deliverW2S w rets`: pop the head of `w2s`, run the `Sys` `update` / `retracted` action |
| `end_task`, `advance_time`, retract-check tick, `NewResourceRequest`, `Stop` | `Op.wlocal w op` (`op` = `taskEnd`, `timeoutFire`, `retractCheck`, `newRq`, `stop` of M2) |
| `pump_server_messages()`           | after EVERY `Sys` step the messages of `Out.core.msgs` are appended, in order, to the `s2w` queue of their worker (`routeMsgs`) |
| `pump_worker_messages()`           | after every M2 step its `TaskUpdate` / `RetractResponse` outputs are appended to `w2s` (`emit`) |

What the messages of M1 do not carry and the worker needs (request class of a task, its time limit, whether the
launcher refuses it, the allocator's answers) are inputs of the delivery (`Extra`, one per `ComputeTasks` item), as
they are inputs of M2. Task ids: M2 uses `Nat`, M1 `(job, task)`; `enc` / `dec` is a bijection between them.

`submitted` is a ghost: the ids handed to the core so far (the side condition "no task id is submitted twice" is
stated with it).
-/
namespace HqModel.SysW
open HqModel

abbrev TaskId := Nat × Nat

/-! ### task ids on the worker side: a bijection `Nat × Nat ≃ Nat` -/

/-- `(j, t) ↦ 2^j (2t + 1) - 1` -/
def enc (t : TaskId) : Nat := 2 ^ t.1 * (2 * t.2 + 1) - 1

/-- the inverse on positive numbers: strip the factors 2 (`fuel` ≥ the number) -/
def decF : Nat → Nat → TaskId
  | 0, _ => (0, 0)
  | f + 1, m => if m % 2 = 1 then (0, m / 2) else ((decF f (m / 2)).1 + 1, (decF f (m / 2)).2)

def dec (n : Nat) : TaskId := decF (n + 1) (n + 1)

/-! ### messages and worker records -/

/-- server → worker (`ToWorkerMessage::{ComputeTasks, RetractTasks, CancelTasks}`), as `Core.Msg` without the address -/
inductive S2W where
  | compute (items : List (TaskId × Nat × Option Nat × List Nat))
  | retract (ids : List TaskId)
  | cancel (ids : List TaskId)
  deriving Repr

/-- worker → server (`FromWorkerMessage::{TaskUpdate, RetractResponse}`) -/
inductive W2S where
  | updates (us : List Core.Update)
  | retracted (ids : List TaskId)
  deriving Repr

/-- one connected worker: its M2 state and its two FIFO queues (head = oldest) -/
structure WState where
  id : Nat
  w : Worker.State := {}
  s2w : List S2W := []
  w2s : List W2S := []

structure State where
  sys : Sys.State := {}
  workers : List WState := []
  /-- ghost: every task id handed to the core so far -/
  submitted : List TaskId := []

def initState (reserve max : Nat) : State := { sys := Sys.initState reserve max }

/-- what a `ComputeTasks` item does not say in M1 and M2 needs -/
structure Extra where
  rq : Nat := 0
  timeLimit : Option Nat := none
  launchFails : Bool := false
  /-- the allocator's answer to the `try_allocate` this item causes -/
  alloc : Option Nat := none
  deriving Repr, DecidableEq

inductive Op where
  /-- a server-side action that is not caused by a worker message: client requests, `newRq`, `schedule` -/
  | srv (op : Sys.Op)
  | addWorker (wk : Core.Worker) (rqs : List (List Nat)) (remaining : Option Nat)
  | loseWorker (w : Nat) (reason : String) (isFailure : Bool) (order : List TaskId) (rets : List (List TaskId))
  | deliverS2W (w : Nat) (extras : List Extra)
  | deliverW2S (w : Nat) (rets : List (List TaskId))
  | wlocal (w : Nat) (op : Worker.Op)

inductive Stop where
  | sys (e : Sys.Stop)
  | worker (w : Nat) (e : Worker.Stop)
  /-- the `Sys` / M2 operation cannot be issued through this action (e.g. `srv (update ..)`, `wlocal (compute ..)`) -/
  | notAllowed
  | noWorker
  | emptyQueue
  /-- a worker id added twice, or the number of `Extra`s is not the number of items -/
  | badInput
  deriving Repr

structure Out where
  /-- the `Sys` action this world action performed (if any) and its output -/
  sysOp : Option Sys.Op := none
  sys : Option Sys.Out := none
  /-- the M2 outputs of this world action -/
  wouts : List Worker.Out := []

/-! ### plumbing -/

def findW (ws : List WState) (w : Nat) : Option WState := ws.find? (fun x => x.id == w)

def setW (ws : List WState) (x : WState) : List WState := ws.map fun y => if y.id = x.id then x else y

def msgFor (w : Nat) : Core.Msg → Option S2W
  | .compute w' items => if w' = w then some (.compute items) else none
  | .retract w' ids => if w' = w then some (.retract ids) else none
  | .cancel w' ids => if w' = w then some (.cancel ids) else none

/-- `pump_server_messages`: every worker gets the messages addressed to it, in order -/
def routeMsgs (ws : List WState) (msgs : List Core.Msg) : List WState :=
  ws.map fun x => { x with s2w := x.s2w ++ msgs.filterMap (msgFor x.id) }

def decUpd : Worker.Update → Core.Update
  | .finished t => .finished (dec t)
  | .failed t _ => .failed (dec t)
  | .running t rv => .running (dec t) rv
  | .runningPrefilled t rv => .runningPrefilled (dec t) rv
  | .reject t rv => .reject (dec t) rv
  | .enable rq rv => .enable rq rv

def outMsg : Worker.Out → Option W2S
  | .updates us => some (.updates (us.map decUpd))
  | .retractResponse ids => some (.retracted (ids.map dec))
  | _ => none

/-- `pump_worker_messages` -/
def emit (x : WState) (w' : Worker.State) (outs : List Worker.Out) : WState :=
  { x with w := w', w2s := x.w2s ++ outs.filterMap outMsg }

def mkEntry (it : TaskId × Nat × Option Nat × List Nat) (x : Extra) : Worker.Entry :=
  { task := { id := enc it.1, inst := it.2.1, rq := x.rq, timeLimit := x.timeLimit, launchFails := x.launchFails },
    rv := it.2.2.1, alloc := x.alloc }

def toWorkerOp (m : S2W) (extras : List Extra) : Option Worker.Op :=
  match m with
  | .compute items =>
    if items.length = extras.length then some (.compute (List.zipWith mkEntry items extras)) else none
  | .retract ids => some (.retract (ids.map enc))
  | .cancel ids => some (.cancel (ids.map enc))

/-- the ids a `Sys` action handed to the core -/
def newIds (op : Sys.Op) (o : Sys.Out) : List TaskId :=
  match op, o.resp with
  | .submit _ _ _ nts, .submit (.ok _) => nts.map (·.id)
  | _, _ => []

/-- a `Sys` action; `ws` = the worker records it leaves (before the new messages are routed) -/
def sysStep (s : State) (op : Sys.Op) (ws : List WState) : Except Stop (State × Out) :=
  match Sys.step s.sys op with
  | .error e => .error (.sys e)
  | .ok (sys', o) =>
    .ok ({ sys := sys', workers := routeMsgs ws o.core.msgs, submitted := s.submitted ++ newIds op o },
         { sysOp := some op, sys := some o })

/-- the `Sys` actions of `Op.srv` -/
def srvAllowed : Sys.Op → Bool
  | .newWorker _ | .removeWorker .. | .update .. | .retracted .. => false
  | _ => true

/-- the M2 operations of `Op.wlocal` (the others are messages: they come through `deliverS2W`) -/
def localAllowed : Worker.Op → Bool
  | .compute _ | .retract _ | .cancel _ => false
  | _ => true

def workerStep (s : State) (x : WState) (op : Worker.Op) : Except Stop (State × Out) :=
  match Worker.step x.w op with
  | .error e => .error (.worker x.id e)
  | .ok (w', outs) => .ok ({ s with workers := setW s.workers (emit x w' outs) }, { wouts := outs })

def step (s : State) : Op → Except Stop (State × Out)
  | .srv op => if srvAllowed op then sysStep s op s.workers else .error .notAllowed
  | .addWorker wk rqs remaining =>
    if (findW s.workers wk.id).isSome then .error .badInput
    else sysStep s (.newWorker wk) (s.workers ++ [{ id := wk.id, w := Worker.init rqs remaining }])
  | .loseWorker w reason f order rets =>
    match findW s.workers w with
    | none => .error .noWorker
    | some _ => sysStep s (.removeWorker w reason f order rets) (s.workers.filter fun x => x.id ≠ w)
  | .deliverW2S w rets =>
    match findW s.workers w with
    | none => .error .noWorker
    | some x =>
      match x.w2s with
      | [] => .error .emptyQueue
      | m :: rest =>
        let ws := setW s.workers { x with w2s := rest }
        match m with
        | .updates us => sysStep s (.update w us rets) ws
        | .retracted ids => sysStep s (.retracted w ids) ws
  | .deliverS2W w extras =>
    match findW s.workers w with
    | none => .error .noWorker
    | some x =>
      match x.s2w with
      | [] => .error .emptyQueue
      | m :: rest =>
        match toWorkerOp m extras with
        | none => .error .badInput
        | some op => workerStep s { x with s2w := rest } op
  | .wlocal w op =>
    if localAllowed op then
      match findW s.workers w with
      | none => .error .noWorker
      | some x => workerStep s x op
    else .error .notAllowed

def run (s : State) : List Op → Except Stop (State × List Out)
  | [] => .ok (s, [])
  | op :: ops =>
    match step s op with
    | .error e => .error e
    | .ok (s1, o1) =>
      match run s1 ops with
      | .error e => .error e
      | .ok (s2, os) => .ok (s2, o1 :: os)

/-- the `Sys` actions of a run, in order (the run of the server part: `Lemmas/SysWProj`) -/
def sysOps (outs : List Out) : List Sys.Op := outs.filterMap (·.sysOp)

end HqModel.SysW
