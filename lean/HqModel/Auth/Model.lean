/-!
# M9 Auth — the handshake of `tako/src/internal/transfer/auth.rs` (symbolic, Dolev–Yao)

Written from the Rust code as it is (`Authenticator::{make_auth_request, make_auth_response,
finish_authentication}`, `do_authentication`), branch order preserved.

* bytes are `List UInt8`; roles and challenges are byte strings (the code concatenates
  `my_role.as_bytes() ++ challenge` without a separator);
* ciphertexts are symbolic terms: `Cipher.seal k n p` is *the* first chunk (tag `Message`) of an orion
  XChaCha20-Poly1305 secret stream keyed with `k`, stream nonce `n`, plaintext `p`; `Cipher.junk` is any
  byte string that is not such a chunk.  `openC_eq_some` is the AEAD premise of the whole model:
  a ciphertext opens under `(k, n)` only if it was produced by sealing with exactly `(k, n)`;
* keys and nonces are atoms (`Nat`); the protocol number is a `Nat` (`u32` in the code; no arithmetic on it);
* bincode framing, timeouts and I/O errors are not modelled (a message that does not arrive or does not
  decode makes the receiver refuse: that is `none` in `Scenario.lean`).
-/
namespace HqModel.Auth

abbrev Bytes := List UInt8

/-- `CHALLENGE_LENGTH` -/
def challengeLength : Nat := 16

/-- Symbolic ciphertexts (first chunk of a secret stream, tag `Message`). -/
inductive Cipher where
  | seal (k : Nat) (n : Nat) (p : Bytes)
  | junk (id : Nat)
  deriving DecidableEq, Repr, Inhabited

/-- `StreamOpener::new(k, n)` followed by `open_chunk(ct)`; `none` = any of the three `map_err` arms
(also covers a tag different from `Message`: honest endpoints seal handshake payloads only with that tag). -/
def openC (k n : Nat) : Cipher → Option Bytes
  | .seal k' n' p => if k' = k ∧ n' = n then some p else none
  | .junk _ => none

/-- `AuthenticationMode` -/
inductive Mode where
  | noAuth
  | encryption (challenge : Bytes)
  deriving DecidableEq, Repr, Inhabited

/-- `AuthenticationRequest` -/
structure Request where
  protocol : Nat
  role : Bytes
  mode : Mode
  deriving DecidableEq, Repr, Inhabited

/-- `AuthenticationResponse` (the error text is not modelled). The `nonce` field of
`EncryptionResponse` travels next to the ciphertext and can be rewritten independently of it. -/
inductive Response where
  | noAuth
  | encryption (nonce : Nat) (ct : Cipher)
  | error
  deriving DecidableEq, Repr, Inhabited

/-- The arguments of `do_authentication` / `Authenticator::new`. -/
structure Config where
  protocol : Nat
  myRole : Bytes
  peerRole : Bytes
  key : Option Nat
  deriving DecidableEq, Repr, Inhabited

/-- `Authenticator` (the `sealer` field only matters after the handshake; `error` is the latch,
its text is not modelled). -/
structure Authenticator where
  protocol : Nat
  myRole : Bytes
  peerRole : Bytes
  key : Option Nat
  challenge : Bytes
  error : Bool
  deriving DecidableEq, Repr, Inhabited

/-- `Authenticator::new` -/
def Authenticator.new (c : Config) : Authenticator :=
  { protocol := c.protocol, myRole := c.myRole, peerRole := c.peerRole, key := c.key,
    challenge := [], error := false }

def Authenticator.config (a : Authenticator) : Config :=
  { protocol := a.protocol, myRole := a.myRole, peerRole := a.peerRole, key := a.key }

/-- `_make_error`: latch + error reply. -/
def Authenticator.fail (a : Authenticator) : Authenticator × Response :=
  ({ a with error := true }, .error)

/-- `make_auth_request`; `freshChal` is the output of `secure_rand_bytes` (16 bytes). -/
def makeRequest (a : Authenticator) (freshChal : Bytes) : Authenticator × Request :=
  match a.key with
  | some _ =>
    ({ a with challenge := freshChal },
     { protocol := a.protocol, role := a.myRole, mode := .encryption freshChal })
  | none => (a, { protocol := a.protocol, role := a.myRole, mode := .noAuth })

/-- `make_auth_response`; `freshNonce` is the nonce chosen by `StreamSealer::new`. -/
def makeResponse (a : Authenticator) (req : Request) (freshNonce : Nat) : Authenticator × Response :=
  if req.protocol ≠ a.protocol then a.fail
  else if req.role ≠ a.peerRole then a.fail
  else
    match req.mode, a.key with
    | .noAuth, none => (a, .noAuth)
    | .encryption c, some k =>
      if c.length ≠ challengeLength then a.fail
      else (a, .encryption freshNonce (.seal k freshNonce (a.myRole ++ c)))
    | .encryption _, none => a.fail
    | .noAuth, some _ => a.fail

/-- `finish_authentication`: `true` = `Ok(..)` (accept), `false` = `Err(AuthenticationRejected)`. -/
def finish (a : Authenticator) (resp : Response) : Bool :=
  if a.error then false
  else
    match resp, a.key with
    | .error, _ => false
    | .noAuth, none => true
    | .encryption n ct, some k =>
      match openC k n ct with
      | some p => decide (p = a.peerRole ++ a.challenge)
      | none => false
    | _, _ => false

/-- The undisturbed exchange of two endpoints in wire order:
m1 = A's request → B, m2 = B's request → A, m3 = A's response (to m2) → B, m4 = B's response (to m1) → A.
Result: (A accepts, B accepts). -/
def run2 (cfgA cfgB : Config) (chalA chalB : Bytes) (nA nB : Nat) : Bool × Bool :=
  let (a1, reqA) := makeRequest (.new cfgA) chalA
  let (b1, reqB) := makeRequest (.new cfgB) chalB
  let (a2, respA) := makeResponse a1 reqB nA
  let (b2, respB) := makeResponse b1 reqA nB
  (finish a2 respB, finish b2 respA)

end HqModel.Auth
