import HqModel.Auth.Scenario
/-!
The handshake configurations of the REAL call sites (component `authhq`): `ClientSession::connect_to_server`, `accept_client`
(hyperqueue/src/transfer/connection.rs: roles `hq-client` / `hq-server`), `connect_to_server_and_authenticate` and the server
side of tako (`worker` / `server`); protocol number 0. Role names as UTF-8 bytes (kernel-computable).
-/
namespace HqModel.Auth

inductive Site where
  | hqClient | hqServer | takoWorker
  deriving Repr, DecidableEq

def roleHqClient : Bytes := [104, 113, 45, 99, 108, 105, 101, 110, 116]
def roleHqServer : Bytes := [104, 113, 45, 115, 101, 114, 118, 101, 114]
def roleWorker : Bytes := [119, 111, 114, 107, 101, 114]
def roleServer : Bytes := [115, 101, 114, 118, 101, 114]

/-- (configuration of the endpoint under test, configuration of its honest peer) -/
def siteConfig (site : Site) (key : Option Nat) : Config × Config :=
  let mk (my peer : Bytes) : Config × Config :=
    ({ protocol := 0, myRole := my, peerRole := peer, key := key },
     { protocol := 0, myRole := peer, peerRole := my, key := key })
  match site with
  | .hqClient => mk roleHqClient roleHqServer
  | .hqServer => mk roleHqServer roleHqClient
  | .takoWorker => mk roleWorker roleServer

/-- the honest peer with the same key configuration -/
def siteHonest (site : Site) (key : Option Nat) : Bool :=
  let (cA, cB) := siteConfig site key
  (runRow cA cB [.none]).resA

/-- a peer without the key that sends back every message it receives (message 2 := message 1, message 4 := message 3) -/
def siteEcho (site : Site) (key : Option Nat) : Bool :=
  let (cA, cB) := siteConfig site key
  (runRow cA { cB with key := none } [.reflect 2, .reflect 4]).resA

end HqModel.Auth
