import HqModel.Auth.Model
/-!
# The finite adversary table of `hqv auth` executed on the model

One *session* = two endpoints A, B running `do_authentication` against each other through a
man-in-the-middle who sees every frame and decides what is delivered.  Wire order:
m1 = A→B request, m2 = B→A request, m3 = A→B response (to what A received as m2),
m4 = B→A response (to what B received as m1).  A message that is not delivered (`none`) makes its
receiver refuse (EOF / timeout in the real code) and the receiver sends nothing afterwards.

The symbolic atoms (challenges, nonces) of the main session, of the earlier session and of the
parallel session are pairwise distinct constants (freshness premise of the RNG).
-/
namespace HqModel.Auth

/-- What a session run produced: results and the messages *as sent by the honest endpoints*. -/
structure Outcome where
  resA : Bool
  resB : Bool
  m1 : Request
  m2 : Request
  m3 : Option Response
  m4 : Option Response
  deriving Repr, Inhabited

/-- The man in the middle: `onReq m1 m2` = what is delivered as (m1 to B, m2 to A);
`onResp m1 m2 m3 m4` = what is delivered as (m3 to B, m4 to A). -/
structure Mitm where
  onReq : Request → Request → Option Request × Option Request
  onResp : Request → Request → Option Response → Option Response → Option Response × Option Response

def Mitm.passive : Mitm :=
  { onReq := fun m1 m2 => (some m1, some m2), onResp := fun _ _ m3 m4 => (m3, m4) }

/-- An endpoint that received `req?` (or nothing) answers. -/
def respondTo (a : Authenticator) (req? : Option Request) (nonce : Nat) :
    Option Authenticator × Option Response :=
  match req? with
  | some r => let (a', x) := makeResponse a r nonce; (some a', some x)
  | none => (none, none)

def finishWith (a? : Option Authenticator) (resp? : Option Response) : Bool :=
  match a?, resp? with
  | some a, some r => finish a r
  | _, _ => false

def session (cfgA cfgB : Config) (chalA chalB : Bytes) (nA nB : Nat) (adv : Mitm) : Outcome :=
  let (a1, m1) := makeRequest (.new cfgA) chalA
  let (b1, m2) := makeRequest (.new cfgB) chalB
  let (m1', m2') := adv.onReq m1 m2
  let (a2, m3) := respondTo a1 m2' nA
  let (b2, m4) := respondTo b1 m1' nB
  let (m3', m4') := adv.onResp m1 m2 m3 m4
  { resA := finishWith a2 m4', resB := finishWith b2 m3', m1, m2, m3, m4 }

theorem session_passive (cfgA cfgB : Config) (chalA chalB : Bytes) (nA nB : Nat) :
    let o := session cfgA cfgB chalA chalB nA nB .passive
    (o.resA, o.resB) = run2 cfgA cfgB chalA chalB nA nB := by
  simp [session, run2, Mitm.passive, respondTo, finishWith]

/-! ## Adversary actions of the table -/

inductive ReqMod where
  | proto            -- protocol := 1 - protocol
  | role (r : Bytes) -- role := r
  | chalFlip         -- one bit of the challenge flipped
  | chalTrunc        -- challenge truncated to 15 bytes
  | chalExt          -- challenge extended to 17 bytes
  | modeSwap         -- Encryption → NoAuth, NoAuth → Encryption(16 zero bytes)
  deriving Repr, DecidableEq

inductive RespMod where
  | ctFlip           -- one bit of the ciphertext flipped
  | nonceFlip        -- one bit of the nonce field flipped
  | ctTrunc          -- ciphertext truncated to 10 bytes (shorter than tag + MAC)
  | nonceTrunc       -- nonce field truncated to 23 bytes (`Nonce::from_slice` fails)
  | noAuth           -- replaced by NoAuth
  | error            -- replaced by Error
  deriving Repr, DecidableEq

inductive Adv where
  | none
  | drop (i : Nat)
  | reflect (i : Nat)
  | earlier (i : Nat)
  | parallel (i : Nat)
  | modReq (i : Nat) (m : ReqMod)
  | modResp (i : Nat) (m : RespMod)
  | doubleProto      -- NOT a single-message action: protocol field of both requests rewritten
  deriving Repr, DecidableEq

def flipFirst : Bytes → Bytes
  | [] => []
  | b :: rest => (b ^^^ 1) :: rest

def ReqMod.apply (m : ReqMod) (r : Request) : Request :=
  match m with
  | .proto => { r with protocol := 1 - r.protocol }
  | .role x => { r with role := x }
  | .chalFlip => match r.mode with
    | .encryption c => { r with mode := .encryption (flipFirst c) }
    | .noAuth => r
  | .chalTrunc => match r.mode with
    | .encryption c => { r with mode := .encryption (c.take 15) }
    | .noAuth => r
  | .chalExt => match r.mode with
    | .encryption c => { r with mode := .encryption (c ++ [0]) }
    | .noAuth => r
  | .modeSwap => match r.mode with
    | .encryption _ => { r with mode := .noAuth }
    | .noAuth => { r with mode := .encryption (List.replicate 16 0) }

/-- Bit flips are only applicable to an `Encryption` response; otherwise the message is left alone
(the harness does the same, it cannot know the kind of the response before the endpoint produced it). -/
def RespMod.apply (m : RespMod) (r : Response) : Response :=
  match m, r with
  | .ctFlip, .encryption n _ => .encryption n (.junk 0)
  | .nonceFlip, .encryption n ct => .encryption (n + 100) ct
  | .ctTrunc, .encryption n _ => .encryption n (.junk 1)
  | .nonceTrunc, .encryption n ct => .encryption (n + 200) ct
  | .ctFlip, r => r
  | .nonceFlip, r => r
  | .ctTrunc, r => r
  | .nonceTrunc, r => r
  | .noAuth, _ => .noAuth
  | .error, _ => .error

/-! Symbolic atoms. -/
def chalOf (b : UInt8) : Bytes := List.replicate 16 b
def chalMainA := chalOf 0xA1
def chalMainB := chalOf 0xB1
def chalEarlierA := chalOf 0xA0
def chalEarlierB := chalOf 0xB0
def chalParallel := chalOf 0xC2
def nonceMainA := 1
def nonceMainB := 2
def nonceEarlierA := 3
def nonceEarlierB := 4
def nonceParallel := 5

/-- The earlier, completed, undisturbed session between the same two configurations. -/
def earlierSession (cfgA cfgB : Config) : Outcome :=
  session cfgA cfgB chalEarlierA chalEarlierB nonceEarlierA nonceEarlierB .passive

/-- Parallel session: a second honest endpoint R2 with the receiver's own configuration.
`parallelReq` is R2's own request. -/
def parallelReq (cfgR : Config) : Request := (makeRequest (.new cfgR) chalParallel).2

/-- R2 is fed the receiver's own main-session request with the role field rewritten to what R2
expects; its answer (sealed under the receiver's key, for THIS session's challenge, but in the
receiver's own role) is the substitute. -/
def parallelResp (cfgR : Config) (ownReq : Request) : Response :=
  let r1 := (makeRequest (.new cfgR) chalParallel).1
  (makeResponse r1 { ownReq with role := cfgR.peerRole } nonceParallel).2

def Adv.mitm (cfgA cfgB : Config) (adv : Adv) : Mitm :=
  let e := earlierSession cfgA cfgB
  match adv with
  | .none => .passive
  | .drop i =>
    { onReq := fun m1 m2 => (if i = 1 then .none else some m1, if i = 2 then .none else some m2)
      onResp := fun _ _ m3 m4 => (if i = 3 then .none else m3, if i = 4 then .none else m4) }
  | .reflect i =>
    { onReq := fun m1 m2 => (some (if i = 1 then m2 else m1), some (if i = 2 then m1 else m2))
      onResp := fun _ _ m3 m4 => (if i = 3 then m4 else m3, if i = 4 then m3 else m4) }
  | .earlier i =>
    { onReq := fun m1 m2 => (some (if i = 1 then e.m1 else m1), some (if i = 2 then e.m2 else m2))
      onResp := fun _ _ m3 m4 => (if i = 3 then e.m3 else m3, if i = 4 then e.m4 else m4) }
  | .parallel i =>
    -- receiver of m1, m3 is B; of m2, m4 is A
    { onReq := fun m1 m2 =>
        (some (if i = 1 then parallelReq cfgB else m1), some (if i = 2 then parallelReq cfgA else m2))
      onResp := fun m1 m2 m3 m4 =>
        (if i = 3 then some (parallelResp cfgB m2) else m3,
         if i = 4 then some (parallelResp cfgA m1) else m4) }
  | .modReq i m =>
    { onReq := fun m1 m2 => (some (if i = 1 then m.apply m1 else m1), some (if i = 2 then m.apply m2 else m2))
      onResp := fun _ _ m3 m4 => (m3, m4) }
  | .modResp i m =>
    { onReq := fun m1 m2 => (some m1, some m2)
      onResp := fun _ _ m3 m4 =>
        (if i = 3 then m3.map m.apply else m3, if i = 4 then m4.map m.apply else m4) }
  | .doubleProto =>
    { onReq := fun m1 m2 => (some (ReqMod.proto.apply m1), some (ReqMod.proto.apply m2))
      onResp := fun _ _ m3 m4 => (m3, m4) }

/-- the message (1..4) a single-message action touches; 0 = none -/
def Adv.idx : Adv → Nat
  | .drop i | .reflect i | .earlier i | .parallel i | .modReq i _ | .modResp i _ => i
  | .none | .doubleProto => 0

/-- `x` decides what is delivered as message `i`, `y` everything else. (Every single-message action
computes its substitute from the messages *as sent*, so actions on different messages are independent.) -/
def Mitm.override (i : Nat) (x y : Mitm) : Mitm :=
  { onReq := fun m1 m2 =>
      let a := x.onReq m1 m2
      let b := y.onReq m1 m2
      (if i = 1 then a.1 else b.1, if i = 2 then a.2 else b.2)
    onResp := fun m1 m2 m3 m4 =>
      let a := x.onResp m1 m2 m3 m4
      let b := y.onResp m1 m2 m3 m4
      (if i = 3 then a.1 else b.1, if i = 4 then a.2 else b.2) }

/-- Several single-message actions (on different messages) in one session: thorough-tier pairs table,
outside C20's single-substitution quantifier. -/
def mitmOfList (cfgA cfgB : Config) : List Adv → Mitm
  | [] => .passive
  | [a] => a.mitm cfgA cfgB
  | a :: rest => Mitm.override a.idx (a.mitm cfgA cfgB) (mitmOfList cfgA cfgB rest)

/-- One row of the table: the main session under the adversary action(s) `advs`. -/
def runRow (cfgA cfgB : Config) (advs : List Adv) : Outcome :=
  session cfgA cfgB chalMainA chalMainB nonceMainA nonceMainB (mitmOfList cfgA cfgB advs)

end HqModel.Auth
