import HqModel.Job.Run
import HqModel.Core.Run
/-!
The COMPOSED system: the HyperQueue job layer (M4, `HqModel.Job`) on top of the tako server core (M1,
`HqModel.Core`), wired the way `crates/hyperqueue/src/server/{client/submit.rs, client/mod.rs, tako_events.rs}`
wire them:

* a client `submit` runs M4's `handle_submit`; when it answers `Ok` the server hands the `TaskSubmit` it built
  (`build_tasks_array` / `build_tasks_graph`) to the core (`add_new_tasks` → `on_new_tasks`). The `NewTask` list is
  part of the world action (it carries what M4 does not model: request ids, priorities, crash limits, the hash
  order of the dependency sets); `ntsOk` is the decidable statement of how `submit.rs` builds it (same ids in the
  same order as M4's `core` list, dependencies = the graph's dependencies of that task inside the same job, fresh
  instance id and crash counter);
* a client `cancel` runs M4's `cancel_job` and `on_cancel_tasks` with exactly the ids M4 names (the order in which
  the real hash map listed them is part of the world action, `sameSet` is checked);
* every core-driven action (`newWorker`, `removeWorker`, `newRq`, `update`, `retracted`, `schedule`) runs
  `Core.step` and then routes EVERY callback of `Out.cbs`, in order, to the matching M4 operation
  (`tako_events.rs`: `on_task_started → process_task_started`, …). The lists `on_task_error` returns are no free
  input any more: `route` compares what M4's `taskFailed` returns for the i-th `error` callback with the i-th entry
  of `rets` the core step consumed (as sets: the real list is in hash order) and stops with `badRets` at the FIRST
  callback where they differ, or when entries are left over.

Re-entrancy: in the real server `on_task_error` runs inside `task_failed`, i.e. the job layer sees the i-th error
callback before the core processes the (i+1)-th update. Here `Core.step` runs the whole operation first and the
callbacks are routed afterwards; the two layers share no state except through `rets`, and the core consumes exactly
one entry of `rets` per `error` callback, in order (`Reactor.lean`: `updateLoop` / `crashLoop`), so the composed
result is the same (`Lemmas/SysLock*.lean` prove the interleaved form).

A panic of either layer is a `Stop` (`Stop.job site` / `Stop.core site`; the core's `!bad-choice` refusals are
`Stop.core "!bad-choice …"` as in `Core.step`).
-/
namespace HqModel.Sys
open HqModel

abbrev TaskId := Nat × Nat

structure State where
  job : Job.State := {}
  core : Core.State := {}
  deriving Repr, Inhabited

/-- the empty system; `reserve` / `max` = the two proactive-filling parameters of the core (`{}` = `initState 1 1`) -/
def initState (reserve max : Nat) : State := { core := { prefillReserve := reserve, prefillMax := max } }

inductive Stop where
  /-- a panic site of the job layer (M4) -/
  | job (site : String)
  /-- a panic site of the core (M1), or one of its `!bad-choice` refusals -/
  | core (site : String)
  /-- the `rets` the core step consumed are not what M4's `taskFailed` returned -/
  | badRets
  /-- the `NewTask` list is not what `submit.rs` builds from this submit -/
  | badSubmit
  /-- the id list handed to `on_cancel_tasks` is not the one `cancel_job` computed -/
  | badCancel
  deriving Repr, DecidableEq

/-- the world actions -/
inductive Op where
  | openJob (mf : Option Nat)
  | submit (job : Option Nat) (mf : Option Nat) (desc : Job.TaskDesc) (nts : List Core.NewTask)
  | close (j : Nat)
  /-- `ids` = the list handed to the core, in the order of the real hash map -/
  | cancel (j : Nat) (ids : List TaskId)
  | forget (j : Nat) (allowed : List Job.Status)
  | newWorker (w : Core.Worker)
  | removeWorker (w : Nat) (reason : String) (isFailure : Bool) (order : List TaskId) (rets : List (List TaskId))
  | newRq (rqv : Core.Rqv)
  | update (w : Nat) (us : List Core.Update) (rets : List (List TaskId))
  | retracted (w : Nat) (ids : List TaskId)
  | schedule (sol : Core.Solution)

/-- answers to client requests -/
inductive Resp where
  | none
  | opened (j : Nat)
  | submit (r : Job.SubmitResp)
  | close (r : Job.CloseResp)
  | cancel (r : Job.CancelResp)
  | forget (done : Bool)
  deriving Repr

/-- what one world action produces: the job layer's events, the core's messages and callbacks, the answer -/
structure Out where
  evs : List Job.Ev := []
  core : Core.Out := {}
  resp : Resp := .none
  deriving Repr

def sameSet (a b : List TaskId) : Bool := a.all b.contains && b.all a.contains

def liftJob {α : Type} : Except Job.Stop α → Except Stop α
  | .ok a => .ok a
  | .error (.panic site) => .error (.job site)

def liftCore {α : Type} : Except Core.Stop α → Except Stop α
  | .ok a => .ok a
  | .error (.panic site) => .error (.core site)

/-- one callback of the core delivered to the job layer (`tako_events.rs`); `rets` = the entries of the core
step's `rets` not yet matched with an `error` callback -/
def cbStep (js : Job.State) (rets : List (List TaskId)) : Core.Cb → Except Stop (Job.State × List Job.Ev × List (List TaskId))
  | .started t inst ws rv =>
    match js.taskStarted t inst ws rv with
    | .error (.panic site) => .error (.job site)
    | .ok (js', evs) => .ok (js', evs, rets)
  | .finished t =>
    match js.taskFinished t with
    | .error (.panic site) => .error (.job site)
    | .ok (js', evs) => .ok (js', evs, rets)
  | .error t consumers =>
    match js.taskFailed t consumers with
    | .error (.panic site) => .error (.job site)
    | .ok (js', evs, ret) =>
      match rets with
      | [] => .error .badRets
      | r :: rest => if sameSet ret r then .ok (js', evs, rest) else .error .badRets
  | .workerNew w =>
    match js.workerNew w with
    | .error (.panic site) => .error (.job site)
    | .ok (js', evs) => .ok (js', evs, rets)
  | .workerLost w running reason =>
    match js.workerLost w running reason with
    | .error (.panic site) => .error (.job site)
    | .ok (js', evs) => .ok (js', evs, rets)

/-- all callbacks of one core step, in order -/
def route (js : Job.State) (rets : List (List TaskId)) : List Core.Cb → Except Stop (Job.State × List Job.Ev × List (List TaskId))
  | [] => .ok (js, [], rets)
  | cb :: rest =>
    match cbStep js rets cb with
    | .error e => .error e
    | .ok (js1, ev1, rets1) =>
      match route js1 rets1 rest with
      | .error e => .error e
      | .ok (js2, ev2, rets2) => .ok (js2, ev1 ++ ev2, rets2)

/-- a core operation followed by the delivery of its callbacks; `rets` = the lists the core step consumed -/
def coreStep (s : State) (op : Core.Op) (rets : List (List TaskId)) (evs0 : List Job.Ev) (resp : Resp) :
    Except Stop (State × Out) :=
  match Core.step s.core op with
  | .error (.panic site) => .error (.core site)
  | .ok (c', out) =>
    match route s.job rets out.cbs with
    | .error e => .error e
    | .ok (j', evs, left) =>
      if left.isEmpty then .ok ({ job := j', core := c' }, { evs := evs0 ++ evs, core := out, resp := resp })
      else .error .badRets

/-- the dependencies of task `t` in a submitted graph (arrays have none) -/
def depsOf : Job.TaskDesc → Nat → List Nat
  | .graph tasks, t =>
    match tasks.find? (fun p => p.1 == t) with
    | some p => p.2
    | none => []
  | .array _ _, _ => []

/-- `build_tasks_array` / `build_tasks_graph`: the tasks handed to the core have the ids of M4's `core` list, in
that order; the dependencies of a task are the graph's dependencies of it, as ids of the same job (a set in the
real code); `adjust_instance_id_and_crash_counters` is empty -/
def ntsOk (desc : Job.TaskDesc) (core : List TaskId) (nts : List Core.NewTask) : Bool :=
  decide (nts.map (·.id) = core) &&
  nts.all fun nt =>
    sameSet nt.deps ((depsOf desc nt.id.2).map fun d => (nt.id.1, d)) && nt.inst == 0 && nt.crashes == 0

def step (s : State) : Op → Except Stop (State × Out)
  | .openJob mf =>
    match s.job.openJob mf with
    | .error (.panic site) => .error (.job site)
    | .ok (j', evs, id) => .ok ({ s with job := j' }, { evs := evs, resp := .opened id })
  | .submit job mf desc nts =>
    match s.job.submit job mf desc with
    | .error (.panic site) => .error (.job site)
    | .ok (j', evs, resp, core) =>
      match resp with
      | .ok _ =>
        if ntsOk desc core nts then
          -- `handle_new_tasks` returns early for an empty `TaskSubmit` (`on_new_tasks` asserts non-emptiness)
          if nts.isEmpty then .ok ({ s with job := j' }, { evs := evs, resp := .submit resp })
          else coreStep { s with job := j' } (.newTasks nts) [] evs (.submit resp)
        else .error .badSubmit
      | _ => .ok ({ s with job := j' }, { evs := evs, resp := .submit resp })
  | .close j =>
    let r := s.job.closeJob j
    .ok ({ s with job := r.1 }, { evs := r.2.1, resp := .close r.2.2 })
  | .cancel j ids =>
    match s.job.cancelJob j with
    | .error (.panic site) => .error (.job site)
    | .ok (j', evs, resp) =>
      match resp with
      | .canceled ts _ =>
        if ts.isEmpty then .ok ({ s with job := j' }, { evs := evs, resp := .cancel resp })
        else if sameSet ids (ts.map fun t => (j, t)) then
          coreStep { s with job := j' } (.cancel ids) [] evs (.cancel resp)
        else .error .badCancel
      | .invalidJob => .ok ({ s with job := j' }, { evs := evs, resp := .cancel resp })
  | .forget j allowed =>
    match s.job.forgetJob j allowed with
    | .error (.panic site) => .error (.job site)
    | .ok (j', b) => .ok ({ s with job := j' }, { resp := .forget b })
  | .newWorker w => coreStep s (.newWorker w) [] [] .none
  | .removeWorker w reason f order rets => coreStep s (.removeWorker w reason f order rets) rets [] .none
  | .newRq rqv => coreStep s (.newRq rqv) [] [] .none
  | .update w us rets => coreStep s (.update w us rets) rets [] .none
  | .retracted w ids => coreStep s (.retracted w ids) [] [] .none
  | .schedule sol => coreStep s (.schedule sol) [] [] .none

/-- run a list of world actions; stops at the first `Stop` -/
def run (s : State) : List Op → Except Stop (State × List Out)
  | [] => .ok (s, [])
  | op :: ops =>
    match step s op with
    | .error e => .error e
    | .ok (s1, o1) =>
      match run s1 ops with
      | .error e => .error e
      | .ok (s2, os) => .ok (s2, o1 :: os)

/-! ### the two single-layer runs a composed step corresponds to (used to transfer the single-layer theorems) -/

/-- the M4 operation a callback is delivered as -/
def cbOp : Core.Cb → Job.Op
  | .started t i ws rv => .started t i ws rv
  | .finished t => .finished t
  | .error t cons => .failed t cons
  | .workerNew w => .workerNew w
  | .workerLost w running reason => .workerLost w running reason

/-- the core operation of a world action (client requests that reach the core: submit, cancel) -/
def coreOp : Op → Option Core.Op
  | .newWorker w => some (.newWorker w)
  | .removeWorker w reason f order rets => some (.removeWorker w reason f order rets)
  | .newRq rqv => some (.newRq rqv)
  | .update w us rets => some (.update w us rets)
  | .retracted w ids => some (.retracted w ids)
  | .schedule sol => some (.schedule sol)
  | .submit _ _ _ nts => some (.newTasks nts)
  | .cancel _ ids => some (.cancel ids)
  | _ => none

end HqModel.Sys
