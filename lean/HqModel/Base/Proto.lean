/-!
Line-protocol helpers shared by all model drivers (no Mathlib, links into `lean_exe`).

Trace format (one record per line, space separated tokens):
  `case <idx> <subseed> <params…>`   start of a case: the model state is reset
  `op <name> <args…>`                one operation
  `out <…>`                          canonical output of the *implementation* (ignored by the driver)
  `mon <…>`                          monitor line of the harness (ignored by the driver)
  `end`                              end of the case
The driver echoes `case`/`op`/`end` lines and prints its own `out`/`mon` lines after each `op`.
Lists are comma separated without blanks, `-` is the empty list.
-/
namespace HqModel.Proto

def tokens (line : String) : List String :=
  (line.trimAscii.toString.splitOn " ").filter (· ≠ "")

def parseNatList (s : String) : Option (List Nat) :=
  if s = "-" then some [] else (s.splitOn ",").mapM String.toNat?

def showNatList (l : List Nat) : String :=
  if l.isEmpty then "-" else ",".intercalate (l.map toString)

def parseIntTok (s : String) : Option Int := s.toInt?

def showList (f : α → String) (l : List α) (sep : String := ",") : String :=
  if l.isEmpty then "-" else sep.intercalate (l.map f)

def joinToks (l : List String) : String := " ".intercalate l

/-- Insertion sort on lists, used by printers to canonicalise (kept here so drivers stay Mathlib-free). -/
def insertSorted (lt : α → α → Bool) (x : α) : List α → List α
  | [] => [x]
  | y :: ys => if lt x y then x :: y :: ys else y :: insertSorted lt x ys

def sortBy (lt : α → α → Bool) (l : List α) : List α := l.foldr (insertSorted lt) []

/-- Generic driver loop. `σ` is the model state; `reset` builds it from the tokens of a `case` line,
`step` consumes the tokens of an `op` line and returns the new state and output lines (without the
`out `/`mon ` prefix handling: the lines are printed verbatim). -/
structure Driver (σ : Type) where
  reset : List String → σ
  step : σ → List String → σ × List String
  /-- lines printed at `end` (e.g. final monitors) -/
  finish : σ → List String := fun _ => []

partial def Driver.loop (d : Driver σ) (h : IO.FS.Stream) (out : IO.FS.Stream) (s : σ) : IO Unit := do
  let line ← h.getLine
  if line.isEmpty then return ()
  let toks := tokens line
  match toks with
  | "case" :: rest =>
    out.putStrLn (joinToks toks)
    d.loop h out (d.reset rest)
  | "op" :: rest =>
    out.putStrLn (joinToks toks)
    let (s', outs) := d.step s rest
    for o in outs do out.putStrLn o
    d.loop h out s'
  | "end" :: _ =>
    for o in d.finish s do out.putStrLn o
    out.putStrLn "end"
    d.loop h out s
  | _ => d.loop h out s

def Driver.main (d : Driver σ) (init : σ) : IO Unit := do
  let stdin ← IO.getStdin
  let stdout ← IO.getStdout
  d.loop stdin stdout init

end HqModel.Proto
