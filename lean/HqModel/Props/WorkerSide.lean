import HqModel.Lemmas.WorkerSteps
import HqModel.Lemmas.WorkerSignal
import HqModel.Lemmas.WorkerWF2
/-!
Worker-side clauses of C01, C02, C04, C06, C08, C09 over the worker model M2 (`HqModel.Worker`, tied to
`crates/tako/src/internal/worker/{reactor,state,rpc,task,task_comm}.rs` by the correspondence of component
`worker`). Every theorem quantifies over ALL operation sequences (compute / retract / cancel / task end /
time-limit expiry / retract-check tick / new request class / stop, with every allocator answer and every hash
order that passes the validity checks of the model); nothing is bounded.

The resource allocator is abstract (see `Worker/Model.lean`): the theorems hold for every allocator whose
`try_allocate` never returns a handle that is still live (a run in which an answer violates this law ends in
`Stop.badChoice`, i.e. is not a run `= .ok …`).

`Reach s` = `s` is reachable from the initial worker state by an operation sequence that satisfies the
*server contract* (`Worker.contract`): ids in RetractTasks / CancelTasks arbitrary, ComputeTasks ids pairwise
different and not held by the worker, request classes / variants registered, NewResourceRequest ids consecutive.
`ReachAny s` = reachable by any operation sequence.
-/
namespace HqModel.WorkerSide
open HqModel.Worker

def Reach (s : State) : Prop :=
  ∃ rqs rem ops os, contractRun (init rqs rem) ops = true ∧ run (init rqs rem) ops = .ok (s, os)

def ReachAny (s : State) : Prop :=
  ∃ rqs rem ops os, run (init rqs rem) ops = .ok (s, os)

theorem Reach.wwf {s : State} (h : Reach s) : WWF s := by
  obtain ⟨rqs, rem, ops, os, hc, hr⟩ := h
  exact (run_WWF ops (init_WWF rqs rem) hc).2 s os hr

theorem ReachAny.hinv {s : State} (h : ReachAny s) : HInv s := by
  obtain ⟨rqs, rem, ops, os, hr⟩ := h
  exact run_HInv ops (init_HInv rqs rem) hr

/-- **C08, worker side (full strength).** After the worker processed `CancelTasks ∋ t` — in any state a
correct server can drive it into — neither that step nor any later step launches `t`, whatever happens
afterwards (any operations, also ones outside the contract), until a `ComputeTasks` contains `t` again.
This includes tasks waiting in the prefilled backlog (defect F1, fixed by
`fix: a canceled task in the worker's prefilled backlog was still started`).
The contract on the prefix is needed for one reason only: a `ComputeTasks` that re-sends an id the worker still
holds can make one id *running and waiting at once*; `cancel_task` then only signals the running copy. -/
theorem c08_worker {s0 s1 s2 : State} {ids : List Nat} {o1 : List Out} {post : List Op}
    {os : List (List Out)} {t : Nat}
    (hreach : Reach s0) (hc : step s0 (.cancel ids) = .ok (s1, o1)) (ht : t ∈ ids)
    (hr : run s1 post = .ok (s2, os)) (hm : ∀ op ∈ post, ¬ op.mentions t) :
    ¬ launchedIn o1 t ∧ ∀ o ∈ os, ¬ launchedIn o t := by
  simp only [step, cancel] at hc
  have hc := Except.ok.inj hc
  have hdisj : Disj s0 := hreach.wwf.disj
  have hnb : NoBacklog t s1 := by
    have := cancel_noBacklog (t := t) ids (s0, []) hdisj ht
    rw [hc] at this; exact this
  refine ⟨?_, (run_quiet post hnb hm hr).2⟩
  intro hl
  obtain ⟨o, ho, hlo⟩ := hl
  have := cancel_fold_outs ids (s0, []) o (by rw [hc]; exact ho)
  rcases this with h | ⟨c, rfl⟩
  · simp at h
  · exact hlo

/-- **C06 `c06_given_back` (full strength, no contract needed).** After the worker answered a `RetractTasks`
with a `RetractResponse ∋ t`, it does not launch `t` until a later `ComputeTasks` contains `t`. -/
theorem c06_given_back {s0 s1 s2 : State} {ids r : List Nat} {o1 : List Out} {post : List Op}
    {os : List (List Out)} {t : Nat}
    (hc : step s0 (.retract ids) = .ok (s1, o1)) (hresp : Out.retractResponse r ∈ o1) (ht : t ∈ r)
    (hr : run s1 post = .ok (s2, os)) (hm : ∀ op ∈ post, ¬ op.mentions t) :
    ∀ o ∈ os, ¬ launchedIn o t := by
  simp only [step] at hc
  have hc := Except.ok.inj hc
  have hres : Out.retractResponse r ∈ (retract s0 ids).2 := by rw [hc]; exact hresp
  have hnb : NoBacklog t s1 := by
    have := retract_noBacklog s0 (retract_response_subset s0 hres ht)
    rw [hc] at this; exact this
  exact (run_quiet post hnb hm hr).2

/-- **C04 `c04_handover` (full strength).** In every reachable state (any operation sequence):
* the live allocation handles are exactly the handles owned by running tasks, each owned by exactly one (`HInv`);
and for every step from it:
* a launcher call that succeeds leaves the task running with exactly the instance, variant and allocation the
  launcher was given;
* no launcher call ever gets an allocation owned by a running task, except in the step in which that owner ends;
* when a running task ends, its allocation is either handed to exactly the prefilled task that is launched
  successfully in that step (and not released), or it is released (and then no task is started and the handle
  is no longer live). -/
theorem c04_handover {s : State} (hreach : ReachAny s) :
    HInv s ∧
    ∀ op s' outs, step s op = .ok (s', outs) →
      HInv s' ∧
      (∀ t i rv h, Out.launch t i rv h true ∈ outs →
        ∃ r ∈ s'.running, r.task.id = t ∧ r.task.inst = i ∧ r.rv = rv ∧ r.h = h) ∧
      (∀ t i rv h ok, Out.launch t i rv h ok ∈ outs →
        ∀ r ∈ s.running, r.h = h → ∃ res en, op = .taskEnd r.task.id res en) ∧
      (∀ t res en, op = .taskEnd t res en →
        ∃ r ∈ s.running, r.task.id = t ∧
          (((∃ x i rv, Out.launch x i rv r.h true ∈ outs) ∧ Out.release r.h ∉ outs) ∨
           (Out.release r.h ∈ outs ∧ (∀ x i rv h', Out.launch x i rv h' true ∉ outs) ∧ r.h ∉ s'.live))) := by
  have hi := hreach.hinv
  refine ⟨hi, ?_⟩
  intro op s' outs hs
  refine ⟨step_HInv hi hs, fun t i rv h hm => step_launch_recorded hs hm,
    fun t i rv h ok hm => step_launch_handle hi hs hm, ?_⟩
  intro t res en hop
  subst hop
  simp only [step] at hs
  obtain ⟨r, hr, evs, rest, used, e1, e2, e3, e4⟩ := taskEnd_spec hs
  have hrmem := List.mem_of_find?_eq_some hr
  have hrid : r.task.id = t := by simpa using List.find?_some hr
  refine ⟨r, hrmem, hrid, ?_⟩
  have tail : ∀ o, o ∈ outs → o ∈ evs ∨ ∃ us, o = .updates us := by
    intro o ho
    rw [e1] at ho
    rcases List.mem_append.mp ho with ho | ho
    · exact Or.inl ho
    · split at ho
      · simp at ho
      · exact Or.inr ⟨_, by simpa using ho⟩
  cases used with
  | true =>
    obtain ⟨⟨x, _, hx⟩, hrel, _⟩ := e3 rfl
    left
    refine ⟨⟨x.id, x.inst, r.rv, by rw [e1]; exact List.mem_append_left _ hx⟩, ?_⟩
    intro hmem
    rcases tail _ hmem with h | ⟨us, h⟩
    · exact hrel h
    · cases h
  | false =>
    obtain ⟨hrel, hno, hlive, _⟩ := e4 rfl
    right
    refine ⟨by rw [e1]; exact List.mem_append_left _ hrel, ?_, ?_⟩
    · intro x i rv h' hmem
      rcases tail _ hmem with h | ⟨us, h⟩
      · exact hno x i rv h' h
      · cases h
    · rw [hlive]
      intro hmem
      exact ((hi.2.1.mem_erase_iff).mp hmem).1 rfl

/-- **C01 `c01_timeout` (full strength for the two worker steps it is about; any state).**
(i) When the time limit of running task `t` elapses before its future resolved, the step sends the stop signal
`Timeout` to it — unless a stop signal (`Cancel`) was already sent, in which case nothing more is sent — and the
task stays running with "stop signalled" recorded (`c01_timeout_signalled` below: the flag is faithful, a stop
signal was really sent earlier in the run).
(ii) When `t` then ends with result `Timeouted`, the `TaskUpdate` batch of that step starts with
`Failed t "Time limit reached"` (whatever hand-over / enable updates follow it). -/
theorem c01_timeout {s s' : State} {t : Nat} {outs : List Out} :
    (step s (.timeoutFire t) = .ok (s', outs) →
      ∃ r ∈ s.running, r.task.id = t ∧ r.task.timeLimit ≠ none ∧
        (r.stopSent = false → outs = [.stop t .timeout]) ∧ (r.stopSent = true → outs = []) ∧
        (∃ r' ∈ s'.running, r'.task.id = t) ∧ (∀ r' ∈ s'.running, r'.task.id = t → r'.stopSent = true)) ∧
    (∀ en, step s (.taskEnd t .timeouted en) = .ok (s', outs) →
      ∃ rest, Out.updates (.failed t .timeout :: rest) ∈ outs) := by
  refine ⟨?_, ?_⟩
  · intro hs
    simp only [step] at hs
    obtain ⟨r, hr, htl, _, houts, hall, hex, _⟩ := timeoutFire_spec hs
    have hrmem := List.mem_of_find?_eq_some hr
    have hrid : r.task.id = t := by simpa using List.find?_some hr
    refine ⟨r, hrmem, hrid, htl, ?_, ?_, hex, fun r' hr' hid => (hall r' hr' hid).1⟩
    · intro h; rw [houts, h]; rfl
    · intro h; rw [houts, h]; rfl
  · intro en hs
    simp only [step] at hs
    obtain ⟨r, _, evs, rest, used, e1, _⟩ := taskEnd_spec hs
    refine ⟨rest, ?_⟩
    rw [e1]
    apply List.mem_append_right
    simp [resultUpdates]

/-- **C01 `c01_timeout`, history form.** In every run from the initial worker state (any operation sequence): when
the time limit of `t` fires, a stop signal for `t` has been sent — in this step, or (when the task was cancelled
before) in an earlier step of the run. -/
theorem c01_timeout_signalled {rqs : List (List Nat)} {rem : Option Nat} {pre : List Op} {s s' : State}
    {os : List (List Out)} {t : Nat} {outs : List Out}
    (hr : run (init rqs rem) pre = .ok (s, os)) (hs : step s (.timeoutFire t) = .ok (s', outs)) :
    ∃ o ∈ os ++ [outs], ∃ k, Out.stop t k ∈ o := by
  obtain ⟨r, hrm, hid, _, hfalse, _, _, _⟩ := (c01_timeout (s := s) (s' := s') (t := t) (outs := outs)).1 hs
  cases hss : r.stopSent with
  | false =>
    exact ⟨outs, by simp, .timeout, by rw [hfalse hss]; simp⟩
  | true =>
    rcases run_stopSent pre hr r hrm hss with ⟨r0, hr0, _⟩ | ⟨o, ho, k, hk⟩
    · simp [init] at hr0
    · exact ⟨o, List.mem_append_left _ ho, k, by rw [← hid]; exact hk⟩

/-- **C02 (ii) `c02_enable` (full strength; any state).** When a running task ends and its allocation is not
reused (no task is started in that step), then — `en` being the allocator's `is_enabled` answers, which the step
accepts only if they cover exactly the blocked set — every blocked request the allocator now admits is
unblocked and an `EnableRequest` for it is in the `TaskUpdate` message of that step; every other blocked request
stays blocked. -/
theorem c02_enable {s s' : State} {t : Nat} {res : TaskResult} {en : List ((Nat × Nat) × Bool)}
    {outs : List Out}
    (hs : step s (.taskEnd t res en) = .ok (s', outs))
    (hno : ∀ x i rv h, Out.launch x i rv h true ∉ outs) :
    (s.blocked ≠ [] → (en.map (·.1)).Perm s.blocked) ∧
    ∀ k ∈ s.blocked,
      ((k, true) ∈ en → k ∉ s'.blocked ∧ ∃ us, Out.updates us ∈ outs ∧ Update.enable k.1 k.2 ∈ us) ∧
      ((k, true) ∉ en → k ∈ s'.blocked) := by
  simp only [step] at hs
  obtain ⟨r, _, evs, rest, used, e1, _, e3, e4⟩ := taskEnd_spec hs
  have hused : used = false := by
    cases used with
    | false => rfl
    | true =>
      obtain ⟨⟨x, _, hx⟩, _⟩ := e3 rfl
      exact absurd (by rw [e1]; exact List.mem_append_left _ hx) (hno x.id x.inst r.rv r.h)
  obtain ⟨_, _, _, _, hb, _⟩ := e4 hused
  refine ⟨fun hne => List.isPerm_iff.mp (hb hne).1, ?_⟩
  intro k hk
  have hne : s.blocked ≠ [] := List.ne_nil_of_mem hk
  obtain ⟨_, hbl, hen⟩ := hb hne
  refine ⟨?_, ?_⟩
  · intro hkt
    refine ⟨?_, resultUpdates t res ++ rest, ?_, List.mem_append_right _ (hen k hkt)⟩
    · rw [hbl]
      intro hmem
      have := (List.mem_filter.mp hmem).2
      simp at this
      exact this hkt
    · rw [e1]
      apply List.mem_append_right
      have : resultUpdates t res ++ rest ≠ [] := List.ne_nil_of_mem (List.mem_append_right _ (hen k hkt))
      simp [this]
  · intro hkf
    rw [hbl]
    exact List.mem_filter.mpr ⟨hk, by simpa using hkf⟩

/-- **C09, worker side (full strength under the explicit server contract).** No message sequence that
satisfies the server contract — interleaved with arbitrary task ends, time-limit expiries and retract-check
ticks, with any allocator answers and hash orders — makes the worker hit one of its panic sites
(`ResourceRqMap::get(..).unwrap()`, variant index, `StableMap::insert` assert, `assert_eq!(rq_id, new_id)`).
Outside the model: `remaining_time()` (`limit - life_time` underflows once the worker outlived its limit), the
`assert!(sender.send(..).is_ok())` of `send_stop` (the launcher keeps the receiver while the task runs) and
`shared_data[shared_index]` (message encoding). -/
theorem c09_worker_no_panic (rqs : List (List Nat)) (rem : Option Nat) (ops : List Op)
    (hc : contractRun (init rqs rem) ops = true) :
    ∀ site, run (init rqs rem) ops ≠ .error (.panic site) :=
  (run_WWF ops (init_WWF rqs rem) hc).1

/-! ### The hypotheses are satisfiable: a concrete non-trivial run -/

/-- two request classes (the second with two variants), no worker time limit -/
def exRqs : List (List Nat) := [[0], [0, 10]]

/-- task 1 is started, 2 and 3 wait behind it; 2 is cancelled and 3 retracted while waiting; 4 is refused by the
allocator (soft reject), 5 waits; 1 ends: 5 is handed the allocation; 5 ends: allocation released, class 1
enabled again; a new class is registered. -/
def exOps : List Op :=
  [ .compute [{ task := { id := 1, rq := 0 }, rv := some 0, alloc := some 7 },
              { task := { id := 2, rq := 0 } }, { task := { id := 3, rq := 0 } }],
    .cancel [2, 99],
    .retract [3, 98],
    .compute [{ task := { id := 4, rq := 1 }, rv := some 1, alloc := none },
              { task := { id := 5, rq := 0, timeLimit := some 1000 } }],
    .taskEnd 1 .finished [((1, 1), false)],
    .timeoutFire 5,
    .taskEnd 5 .timeouted [((1, 1), true)],
    .newRq 2 [0],
    .retractCheck [] ]

example : contractRun (init exRqs none) exOps = true := by decide

example : (run (init exRqs none) exOps).toOption.map (·.2) = some
    [ [.launch 1 0 0 7 true, .updates [.running 1 0]],
      [],
      [.retractResponse [3]],
      [.updates [.reject 4 (some 1)]],
      [.launch 5 0 0 7 true, .updates [.finished 1, .runningPrefilled 5 0]],
      [.stop 5 .timeout],
      [.release 7, .updates [.failed 5 .timeout, .enable 1 1]],
      [],
      [] ] := by decide

example : Reach (init exRqs none) := ⟨exRqs, none, [], [], rfl, rfl⟩

/-- The former F1 witness (`corpus/worker/f1_cancel_ignores_backlog.trace`): task 2 is cancelled while it waits
in the backlog; when task 1 ends the allocation is released and task 2 is not launched. -/
example : (run (init [[0]] none)
    [ .compute [{ task := { id := 1 }, rv := some 0, alloc := some 1 }, { task := { id := 2 } }],
      .cancel [2],
      .taskEnd 1 .finished [] ]).toOption.map (·.2) = some
    [ [.launch 1 0 0 1 true, .updates [.running 1 0]], [], [.release 1, .updates [.finished 1]] ] := by
  decide

/-- Why `c08_worker` asks for the contract on the prefix: a server that re-sends an id the worker still holds
(contract violation) can get the id launched after a cancel. -/
example : ∃ os, run (init [[0]] none)
    [ .compute [{ task := { id := 1 }, rv := some 0, alloc := some 1 }],
      .compute [{ task := { id := 1, inst := 1 } }],      -- id 1 is held: outside the contract
      .cancel [1],
      .taskEnd 1 .canceled [] ] = .ok os ∧ launchedIn (os.2.getD 3 []) 1 := by
  refine ⟨_, rfl, ?_⟩
  decide

end HqModel.WorkerSide
