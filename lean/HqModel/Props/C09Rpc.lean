import HqModel.Rpc.Model
/-!
C09 / C07, connection-level clauses — theorems about model M9 (`HqModel/Rpc/Model.lean`): a decision table, stated outright.
The table is tied to the real `worker_rpc_loop` by component `rpc` (real tako server over TCP, hand-made workers).
-/
namespace HqModel.Rpc

/-- **C09 (connection end)**: however the connection of a registered worker ends, the loss is announced, the worker is
removed from the server, and the server keeps serving (a later submit and scheduling round do not bring it down). -/
theorem c09_conn_end_removes (k : EndKind) (pre other : Bool) :
    (connEnd k pre other).lost.isSome = true ∧ (connEnd k pre other).removed = true ∧ (connEnd k pre other).alive = true := by
  cases k <;> simp [connEnd]

/-- **C02 (connection end)**: a task that was assigned to the lost worker is sent to another capable worker. -/
theorem c09_conn_end_resends (k : EndKind) : (connEnd k true true).resent = some true := by
  cases k <;> rfl

/-- **C07 (connection end)**: exactly the ends that are not an orderly shutdown — close, read error, undecodable frame,
interrupt, silence — are failure losses; a worker that announces its idle timeout or its time limit is not charged. -/
theorem c07_conn_end_failure (k : EndKind) :
    (reasonOf k).isFailure = true ↔ k ≠ .stopIdle ∧ k ≠ .stopTime := by
  cases k <;> simp [reasonOf, Reason.isFailure]

/-- the table is not constant: all four announced reasons occur -/
example : reasonOf .eof = .connectionLost ∧ reasonOf .silent = .heartbeatLost ∧ reasonOf .stopIdle = .idleTimeout ∧
    reasonOf .stopTime = .timeLimitReached := by decide

end HqModel.Rpc
